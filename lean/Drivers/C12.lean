import QmcModel.Proto
import QmcModel.Cutoff
open Qmc Qmc.Proto

/-
C12 driver. Input lines (one answer line each):
  new ising <cutoff>                       → `<cutoff> <len>`            (constructor)
  new generic <nvars>                      → `<cutoff> <len>`
  step <site> <prevcut> <prevlen> <n>      → `<newcut> <newlen>`         (rule + container growth)
  idle <site> <cutoff> <len> <n>           → `<cutoff> <len> <n>`        (non-diagonal moves)
  sweep <cutoff> <before bits> <after bits>→ `<isSweepResult> <n after>`
  setcut <c> <cutoff> <occ bits>           → `<cutoff> <len> <n>`        (`set_cutoff` / `set_op_cutoff`, generator: c ≥ cutoff)
  copy <how> <cutoff> <occ bits>           → `<cutoff> <len> <n>`        (`clone()`, serde round trip, `SerializeQmcGraph` + `into_qmc(rng)`)
  inccut <c> <cutoff> <occ bits>           → `<cutoff> <len> <n>`        (`Qmc::increase_cutoff_to`, any c)
  equalise <cutoffs> <lens>                → `<cutoffs'> <lens'>`        (tempering preamble)
  swap <site> <cutA> <occA> <cutB> <occB>  → `<cutA'> <lenA'> <nA'> <cutB'> <lenB'> <nB'>` (raw `swap_manager_and_state`)
  convert <nvars> <cutoff> <occ bits>      → `<cutoff> <len> <n>`        (`into_qmc`)
  usercut <site> <c> <cutoff> <occ bits>   → `<cutoff> <len> <n> <fits>` (`set_cutoff` / `set_op_cutoff` with ANY c, also below the
                                              current cutoff: a user-supplied cutoff in the middle of a run; fits = every operator below c)
  restore <site> <c> <occ bits>            → `<cutoff> <len> <n> <fits>` (saved container put into a new sampler through the manager hook, cutoff c)
-/
def step (toks : List String) : String :=
  match toks with
  | ["new", "ising", c] =>
    let s := CSampler.newIsing (parseNat c)
    s!"{s.cutoff} {s.len}"
  | ["new", "generic", nv] =>
    let s := CSampler.newGeneric (parseNat nv)
    s!"{s.cutoff} {s.len}"
  | ["step", _site, pc, pl, n] =>
    let pc := parseNat pc
    s!"{nextCutoff pc (parseNat n)} {growLen (parseNat pl) pc}"
  | ["idle", _site, pc, pl, n] =>
    -- cluster / loop / RVB / free-spin moves: neither the cutoff, nor the container, nor n changes
    s!"{parseNat pc} {parseNat pl} {parseNat n}"
  | ["sweep", c, before, after] =>
    let a := parseBits after
    s!"{showBool (isSweepResult (parseNat c) (parseBits before) a)} {countOcc a}"
  | ["copy", _how, cut, occ] =>
    let s := CSampler.copy { cutoff := parseNat cut, occ := parseBits occ }
    s!"{s.cutoff} {s.len} {s.n}"
  | ["inccut", c, cut, occ] =>
    let s := CSampler.increaseCutoffTo (parseNat c) { cutoff := parseNat cut, occ := parseBits occ }
    s!"{s.cutoff} {s.len} {s.n}"
  | ["setcut", c, cut, occ] =>
    let s := CSampler.setCutoff (parseNat c) { cutoff := parseNat cut, occ := parseBits occ }
    s!"{s.cutoff} {s.len} {s.n}"
  | ["usercut", _site, c, cut, occ] =>
    let s := CSampler.setCutoff (parseNat c) { cutoff := parseNat cut, occ := parseBits occ }
    s!"{s.cutoff} {s.len} {s.n} {showBool s.fitsB}"
  | ["restore", _site, c, occ] =>
    let s := CSampler.restore (parseNat c) (parseBits occ)
    s!"{s.cutoff} {s.len} {s.n} {showBool s.fitsB}"
  | ["swap", _site, ca, oa, cb, ob] =>
    let r := swapSamplers { cutoff := parseNat ca, occ := parseBits oa } { cutoff := parseNat cb, occ := parseBits ob }
    s!"{r.1.cutoff} {r.1.len} {r.1.n} {r.2.cutoff} {r.2.len} {r.2.n}"
  | ["convert", nv, c, occ] =>
    let r := convertSampler (parseNat nv) { cutoff := parseNat c, occ := parseBits occ }
    s!"{r.cutoff} {r.len} {r.n}"
  | ["equalise", cuts, lens] =>
    let rs := (parseNats cuts).zip (parseNats lens) |>.map fun (c, l) =>
      ({ cutoff := c, occ := List.replicate l false } : CSampler)
    let rs' := equalise rs
    s!"{showNats (rs'.map (·.cutoff))} {showNats (rs'.map (·.len))}"
  | _ => "bad-op"

def main : IO Unit := run step
