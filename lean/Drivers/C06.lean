import QmcModel.Proto
import QmcModel.Basic
import QmcModel.IsingHam
import QmcModel.Worldline
open Qmc Qmc.Proto

/-- C06 / C07 driver. Input (one call of the real code per line):
`<rel> <call> <ham> <sweep-cutoff> <state-before> <slots-before> <state-after> <slots-after>`
Output: `rel:<0|1> cons:<0|1> legal:<0|1> fold:<states entering each slot>` where `rel` is the
decider of the relation named by `<rel>` (QmcModel/Worldline.lean), `cons` decides
`Consistent after`, `legal` decides `Legal H after`. -/
def showFold (l : List (List Bool)) : String :=
  if l.isEmpty then "-" else String.intercalate "," (l.map showBits)

def parseHam (tok : String) : Option (Ham × Option IsingSpec) :=
  if tok.startsWith "I!" then
    (parseIsing tok).map fun s => (s.ham, some s)
  else if tok.startsWith "H" then
    some (tableHam (parseTableHam tok), none)
  else none

def relB (rel : String) (H : Ham) (spec : Option IsingSpec) (L : Nat) (b a : Config) : Bool :=
  let ising (b a : Slots) : Bool := match spec with
    | some s => isingMaskB s b a
    | none => true
  match rel with
  | "init" => true
  | "diag" => diagSweepB H L b a
  | "icluster" => spinFlipB b a && ising b.slots a.slots && flipKeepsWeightB H b.slots a.slots
  | "gcluster" => spinFlipB b a && symMaskB b.slots a.slots && flipKeepsWeightB H b.slots a.slots
  | "loop" => spinFlipB b a && flipKeepsWeightB H b.slots a.slots
  | "free" => freeB b a && spinFlipB b a
  | "rvb" => rvbB H b a && ising b.slots a.slots && flipKeepsWeightB H b.slots a.slots
  | "move" => moveB b a
  | _ => false

def step (toks : List String) : String :=
  match toks with
  | [rel, _call, ham, sweep, bs, bsl, as, asl] =>
    match parseHam ham with
    | none => "bad-ham"
    | some (H, spec) =>
      let b : Config := { state := parseBits bs, slots := parseSlots bsl }
      let a : Config := { state := parseBits as, slots := parseSlots asl }
      let r := relB rel H spec (parseNat sweep) b a
      let c := decide (Consistent a)
      let l := legalB H a && hamWFB H a.state.length
      s!"rel:{showBool r} cons:{showBool c} legal:{showBool l} fold:{showFold (foldStates a.state a.slots)}"
  | _ => "bad-op"

def main : IO Unit := run step
