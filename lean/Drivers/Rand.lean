import QmcModel.Proto
import QmcModel.Rand
open Qmc Qmc.Proto

def approx (r : Rat) : String :=
  -- scientific-ish: print as ~num/den evaluated by the comparer? keep simple: fixed 18 decimals
  let scale : Nat := 10 ^ 18
  let v : Int := (r * (scale : Rat)).floor
  s!"~{v}e-18"

def step (toks : List String) : String :=
  match toks with
  | ["bool", p, ws] =>
    let s := RS.ofScript (parseNats ws)
    let (b, s') := s.genBool (parseRat p)
    if s'.margin < 1 / 1000000000000000 then "? ?" else s!"{showBool b} {s'.draws}"
  | ["range", n, ws] =>
    let s := RS.ofScript (parseNats ws)
    let (v, s') := s.genRange (parseNat n)
    s!"{v} {s'.draws}"
  | ["u8", n, ws] =>
    let s := RS.ofScript (parseNats ws)
    let (v, s') := s.genRangeU8 (parseNat n)
    s!"{v} {s'.draws}"
  | ["f64bool", ws] =>
    let s := RS.ofScript (parseNats ws)
    let (v, s1) := s.genF64
    let (b, s2) := s1.genStdBool
    s!"{showRat v} {showBool b} {s2.draws}"
  | ["rangef", t, ws] =>
    let s := RS.ofScript (parseNats ws)
    let (v, s') := s.genRangeF (parseRat t)
    s!"{approx v} {s'.draws}"
  | ["tones", ws] =>
    let s := RS.ofScript (parseNats ws)
    let (v, s') := s.genTrailingOnes
    s!"{v} {s'.draws}"
  | _ => "bad-op"

def main : IO Unit := run step
