import QmcModel.Proto
import QmcModel.Tempering
open Qmc Qmc.Proto

/-- C05 driver (same protocol as C10): replays tempering steps (`sw`, `psw`), pair queries (`pair`) and the
edge-count regression (`mismatch`) through the model in `QmcModel/Tempering.lean`. -/
def main : IO Unit := run Qmc.Tempering.Drv.step
