import QmcModel.Proto
import QmcModel.Pool
import QmcModel.Generated.PoolCaps
open Qmc Qmc.Proto Qmc.Pool

/-!
C18 driver.

`pool <kind> <before counts> <word>` →
    `<word ∈ grammar kind: 1|0> <counts after | X> <fewest free instances per type>`
  counts are comma lists in the order of `Ty.all` (= field order of `DefaultFastOpAllocator`);
  the word is a string of two-character events `g?`/`r?` with `?` one of `UBSLOFCVH`; `-` = empty.
`snap <before counts>` → the model's prediction for the occupancy after any public call whose
  event word could not be observed (rayon worker threads): unchanged.
`bcfloat <ops>` → `-` (non-dyadic weights: oracle-only case, nothing predicted).
`caps` → the capacities the proofs were checked against (regenerated from the source).
`bc <ops>` → one token per op with the container state (`i<k>:<w>` insert, `r<k>` remove,
  `c` clear).
-/

def tyOfChar : Char → Option Ty
  | 'U' => some .usize
  | 'B' => some .bool
  | 'S' => some .opside
  | 'L' => some .leg
  | 'O' => some .optUsize
  | 'F' => some .f64
  | 'C' => some .bcUsize
  | 'V' => some .bcVarPos
  | 'H' => some .heap
  | _ => none

def parseWord (s : String) : Option (List Ev) :=
  if s == "-" then some [] else
  let rec go : List Char → Option (List Ev)
    | [] => some []
    | 'g' :: c :: rest => do
      let t ← tyOfChar c
      let w ← go rest
      pure (.get t :: w)
    | 'r' :: c :: rest => do
      let t ← tyOfChar c
      let w ← go rest
      pure (.ret t :: w)
    | _ => none
  go s.toList

def capsOfList (xs : List Nat) : Caps := fun t =>
  match Ty.all.idxOf? t with
  | some i => xs.getD i 0
  | none => 0

def showCaps (c : Caps) : String := showNats (Ty.all.map c)

def showBC (b : BC) : String :=
  let m := showList (fun o => match o with | none => "n" | some i => toString i) b.map
  let k := showList (fun (kw : Nat × Rat) => s!"{kw.1}:{showRat kw.2}") b.keys
  s!"m={m};k={k};t={showRat b.total};c={showBool b.clean}"

def bcStep (b : BC) (op : String) : BC :=
  match op.toList with
  | 'c' :: _ => b.clear
  | 'r' :: rest => b.remove (parseNat (String.ofList rest))
  | 'i' :: rest =>
    match (String.ofList rest).splitOn ":" with
    | [k, w] => b.insert (parseNat k) (parseRat w)
    | _ => b
  | _ => b

def step (toks : List String) : String :=
  match toks with
  | "pool" :: kind :: before :: word :: _ =>
    match Update.ofString? kind, parseWord word with
    | some u, some w =>
      let c := capsOfList (parseNats before)
      let m := matchesD (grammar u) w
      let after := match Pool.run c w with
        | some c' => showCaps c'
        | none => "X"
      let low := String.intercalate "," (Ty.all.map fun t => toString (minFree t (c t) w))
      let where_ := if m then "" else s!" left-grammar-at-event-{viablePrefix (grammar u) w}"
      s!"{showBool m} {after} {low}{where_}"
    | _, _ => "bad-input"
  | "caps" :: _ => showCaps Generated.caps
  | "snap" :: before :: _ => showNats (parseNats before)
  | ["bc", ops] =>
    let ops := if ops == "-" then [] else ops.splitOn ","
    let (_, outs) := ops.foldl (fun (acc : BC × List String) op =>
      let b := bcStep acc.1 op
      (b, showBC b :: acc.2)) (BC.new, [])
    if outs.isEmpty then "-" else String.intercalate " " outs.reverse
  -- oracle-only cases (inexact f64 weights): the model makes no prediction
  | "bcfloat" :: _ => "-"
  | _ => "bad-op"

def main : IO Unit := Proto.run step
