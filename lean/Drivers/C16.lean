import QmcModel.Proto
import QmcModel.Interaction
open Qmc Qmc.Proto

/-- `ctor <variant> <mat> <vars>` → `E` | `P` | `ok n const constdiag sym offset attable wronglen` -/
def describe (r : Res (Interaction × Rat)) : String :=
  match r with
  | .err => "E"
  | .panic => "P"
  | .ok (i, off) =>
    let sym := match i.symUnderIsing with
      | .ok b => showBool b
      | .err => "E"
      | .panic => "P"
    let pats := patterns i.n
    let table := pats.flatMap fun ins => pats.map fun outs =>
      match i.atP ins outs with
      | .ok v => showRat v
      | .err => "E"
      | .panic => "P"
    let wrong := match i.atP (true :: (pats.headD [])) (pats.headD []) with
      | .ok _ => "ok"
      | .err => "E"
      | .panic => "P"
    s!"ok {i.n} {showBool i.isConstant} {showBool i.isConstantDiag} {sym} {showRat off} {String.intercalate "," table} {wrong}"

def step (toks : List String) : String :=
  match toks with
  | ["ctor", variant, mat, vars] =>
    let m := parseRats mat
    let vs := parseNats vars
    match variant with
    | "new" => describe ((Interaction.new m vs).map (·, 0))
    | "new_off" => describe (Interaction.newOffset m vs)
    | "diag" => describe ((Interaction.newDiagonal m vs).map (·, 0))
    | "diag_off" => describe (Interaction.newDiagonalOffset m vs)
    | _ => "bad-op"
  | ["pow2", n] =>
    match getPowerOfTwo (parseNat n), getMatVarSize (parseNat n) with
    | a, b => s!"{match a with | some i => toString i | none => "E"} {match b with | some i => toString i | none => "E"}"
  | _ => "bad-op"

def main : IO Unit := run step
