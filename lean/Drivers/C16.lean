import QmcModel.Proto
import QmcModel.Interaction
import QmcModel.QmcCtor
open Qmc Qmc.Proto

/-- `ctor <variant> <mat> <vars>` → `E` | `P` | `ok n const constdiag sym offset attable wronglen` -/
def describe (r : Res (Interaction × Rat)) : String :=
  match r with
  | .err => "E"
  | .panic => "P"
  | .ok (i, off) =>
    let sym := match i.symUnderIsing with
      | .ok b => showBool b
      | .err => "E"
      | .panic => "P"
    let pats := patterns i.n
    let table := pats.flatMap fun ins => pats.map fun outs =>
      match i.atP ins outs with
      | .ok v => showRat v
      | .err => "E"
      | .panic => "P"
    let wrong := match i.atP (true :: (pats.headD [])) (pats.headD []) with
      | .ok _ => "ok"
      | .err => "E"
      | .panic => "P"
    s!"ok {i.n} {showBool i.isConstant} {showBool i.isConstantDiag} {sym} {showRat off} {String.intercalate "," table} {wrong}"

/-! ### kind `qmcctor`: a sequence of events on ONE sampler (model: QmcModel/QmcCtor.lean)

`qmcctor <nvars> <do_loop_updates> <event>…` with events `<variant>:<mat>:<vars>` (a `make_*interaction*`
call), `hb:<0|1>` (`set_do_heatbath`), `loops:<0|1>` (`set_do_loop_updates`), `step` (time steps; the only
modelled field they touch is the lazily built heat-bath table), `clone:<continue on the clone 0|1>`.
One output token per event: a letter (`A`/`E` accepted / rejected call, `P` = panic, `o` option setter,
`s` step, `k` clone) and the fields
`<#bonds>:<offset>:<has_cluster_edges>:<breaks_ising_symmetry>:<non_const_diags>:<bond_weights>:<do_heatbath>:<do_loop_updates>`
(`bond_weights` = `none` or the per-bond maximal diagonal weights). -/

def showQState (s : QmcCtor.State) : String :=
  let bw := match s.bondWeights with
    | none => "none"
    | some t => showRats t
  s!"{s.bonds.length}:{showRat s.offset}:{showBool s.hasClusterEdges}:{showBool s.breaksIsing}:{showNats s.nonConstDiags}:{bw}:{showBool s.doHeatbath}:{showBool s.doLoopUpdates}"

def kindOf (variant : String) : Option QmcCtor.Kind :=
  match variant with
  | "new" => some .new
  | "new_off" => some .newOff
  | "diag" => some .diag
  | "diag_off" => some .diagOff
  | _ => none

def qmcEvent (s : QmcCtor.State) (ev : String) : String × QmcCtor.State :=
  match ev.splitOn ":" with
  | ["clone", _] => ("k:" ++ showQState s, s)
  | ["step"] =>
    let s' := QmcCtor.runEvent s .step
    ("s:" ++ showQState s', s')
  | ["hb", b] =>
    let s' := QmcCtor.runEvent s (.setHeatbath (b == "1"))
    ("o:" ++ showQState s', s')
  | ["loops", b] =>
    let s' := QmcCtor.runEvent s (.setLoops (b == "1"))
    ("o:" ++ showQState s', s')
  | [variant, mat, vars] =>
    match kindOf variant with
    | some k =>
      match QmcCtor.make k s (parseRats mat) (parseNats vars) with
      | (.ok (), s') => ("A:" ++ showQState s', s')
      | (.err, s') => ("E:" ++ showQState s', s')
      | (.panic, s') => ("P", s')
    | none => ("bad-op", s)
  | _ => ("bad-op", s)

def qmcEvents (s : QmcCtor.State) : List String → List String
  | [] => []
  | ev :: t =>
    let (o, s') := qmcEvent s ev
    o :: (if o == "P" then [] else qmcEvents s' t)

def step (toks : List String) : String :=
  match toks with
  | "qmcctor" :: nvars :: loops :: evs =>
    let evs := evs.filter (· ≠ "-")
    let outs := qmcEvents (QmcCtor.State.init (parseNat nvars) (loops == "1")) evs
    if outs.isEmpty then "-" else String.intercalate " " outs
  -- kind `afterconv` (F32: interactions added after `into_qmc`, then sampled): the oracle is model-free
  -- (no panic, operator string consistent, per-bond counters = direct count); the model's statement is
  -- that the calls are accepted and can be sampled, i.e. the constant answer `ok`
  | "afterconv" :: _ => "ok"
  | ["ctor", variant, mat, vars] =>
    let m := parseRats mat
    let vs := parseNats vars
    match variant with
    | "new" => describe ((Interaction.new m vs).map (·, 0))
    | "new_off" => describe (Interaction.newOffset m vs)
    | "diag" => describe ((Interaction.newDiagonal m vs).map (·, 0))
    | "diag_off" => describe (Interaction.newDiagonalOffset m vs)
    | _ => "bad-op"
  | ["pow2", n] =>
    match getPowerOfTwo (parseNat n), getMatVarSize (parseNat n) with
    | a, b => s!"{match a with | some i => toString i | none => "E"} {match b with | some i => toString i | none => "E"}"
  | _ => "bad-op"

def main : IO Unit := run step
