import QmcModel.Proto
import QmcModel.Basic
import QmcModel.Rand
import QmcModel.Diagonal
import QmcModel.HeatBath
import QmcModel.Stepper
open Qmc Qmc.Proto

/-
C02 driver. Kinds (plus all of `Proto.diagStep`: msweep, hsweep, bw, mprob, hprob):
  gentable <ops>                              ops `+`-separated: `A!vars:const:mat` | `H0` | `H1` | `D`
                                              → one token per op: the stored table (`none` or max weights)
  isingham <nvars> <edges> <gamma> <h>        edges `a:b:J,…` → table Hamiltonian `H<n>!…` + `make_bond_weights` of it
  isingtable <nvars> <edges> <gamma> <h> <ops>  ops `+`-separated: `E0` | `E1` | `D` → one table token per op
  isingpair <nvars> <edgesA> <gammaA> <hA> <edgesB> <gammaB> <hB> <ops>
                                              ops: `L`/`R` + Ising op on that sampler | `S` (swap, any direction /
                                              accepted tempering swap) | `N` (tempering step without swap)
                                              → two table tokens (A, B) per op
  genpair <ops>                               ops: `L`/`R` + generic op | `S` | `N` → two table tokens per op
  energy <beta> <offset> <freq> <T> <ns>      ns = get_n() after each of the T time steps of a heat-bath run; the energy the
                                              measuring loop (`measureLoop`, QmcModel/Stepper.lean) reports → ~energy | nan
-/

def parseEdges (s : String) : List (Nat × Nat × Rat) :=
  (parseList id s).filterMap fun tok =>
    match tok.splitOn ":" with
    | [a, b, j] => some (parseNat a, parseNat b, parseRat j)
    | _ => none

def parseGenOp (tok : String) : Option (GenOp TBond) :=
  if tok == "H0" then some (.setDoHeatbath false)
  else if tok == "H1" then some (.setDoHeatbath true)
  else if tok == "D" then some .diagonalUpdate
  else match tok.splitOn "!" with
    | ["A", rest] =>
      match rest.splitOn ":" with
      | [vs, c, m] => some (.addInteraction { vars := parseNats vs, const := (c == "1"), mat := parseRats m })
      | _ => none
    | _ => none

def parseIsingOp (tok : String) : Option IsingOp :=
  if tok == "E0" then some (.setEnableHeatbath false)
  else if tok == "E1" then some (.setEnableHeatbath true)
  else if tok == "D" then some .diagonalStep
  else none

def mkGen (bs : List TBond) : BW := makeBondWeights (tableHam bs)

def parsePairOp {o : Type} (f : String → Option o) (tok : String) : Option (HBPairOp o) :=
  if tok == "S" then some .swap
  else if tok == "N" then some .noswap
  else if tok.startsWith "L" then (f (tok.drop 1).toString).map .left
  else if tok.startsWith "R" then (f (tok.drop 1).toString).map .right
  else none

def runPair {σ o : Type} (f : σ → o → σ) (tbl : σ → Option BW) (p : HBPair σ Unit) (ops : List (HBPairOp o)) : String :=
  let (_, outs) := ops.foldl (fun (acc : HBPair σ Unit × List String) op =>
    let p' := acc.1.step f op
    (p', acc.2 ++ [showTable (tbl p'.a), showTable (tbl p'.b)])) (p, [])
  String.intercalate " " outs

def step (toks : List String) : String :=
  match diagStep toks with
  | some r => r
  | none =>
    match toks with
    | ["gentable", ops] =>
      let os := (ops.splitOn "+").filterMap parseGenOp
      let (_, outs) := os.foldl (fun (acc : GenS TBond × List String) op =>
        let s' := acc.1.step mkGen op
        (s', acc.2 ++ [showTable s'.table])) (GenS.init TBond, [])
      String.intercalate " " outs
    | ["isingham", nvars, edges, gamma, h] =>
      let bs := isingBonds (parseEdges edges) (parseRat gamma) (parseRat h) (parseNat nvars)
      s!"{showTableHam bs} {showRats (mkGen bs)}"
    | ["isingtable", nvars, edges, gamma, h, ops] =>
      let bs := isingBonds (parseEdges edges) (parseRat gamma) (parseRat h) (parseNat nvars)
      let os := (ops.splitOn "+").filterMap parseIsingOp
      let (_, outs) := os.foldl (fun (acc : IsingS (List TBond) × List String) op =>
        let s' := acc.1.step mkGen op
        (s', acc.2 ++ [showTable s'.table])) (({ ham := bs, table := none } : IsingS (List TBond)), [])
      String.intercalate " " outs
    | ["isingpair", nvars, ea, ga, ha, eb, gb, hb, ops] =>
      let ba := isingBonds (parseEdges ea) (parseRat ga) (parseRat ha) (parseNat nvars)
      let bb := isingBonds (parseEdges eb) (parseRat gb) (parseRat hb) (parseNat nvars)
      let os := (ops.splitOn "+").filterMap (parsePairOp parseIsingOp)
      runPair (IsingS.step mkGen) (·.table)
        ({ a := { ham := ba, table := none }, ma := (), b := { ham := bb, table := none }, mb := () } :
          HBPair (IsingS (List TBond)) Unit) os
    | ["energy", beta, off, freq, t, ns] =>
      let nl := parseNats ns
      let r := measureLoop (σ := Nat) (α := Unit) (· + 1) (fun i => nl.getD (i - 1) 0) (fun _ _ => ())
        (parseNat t) (parseNat freq) 0 ()
      match measureEnergy (parseRat beta) (parseRat off) r with
      | some e => showApprox e
      | none => "nan"
    | ["genpair", ops] =>
      let os := (ops.splitOn "+").filterMap (parsePairOp parseGenOp)
      runPair (GenS.step mkGen) (·.table)
        ({ a := GenS.init TBond, ma := (), b := GenS.init TBond, mb := () } : HBPair (GenS TBond) Unit) os
    | _ => "bad-op"

def main : IO Unit := run step
