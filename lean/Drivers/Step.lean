import QmcModel.Proto
import QmcModel.Sampler
open Qmc Qmc.Proto

/-! Line-protocol driver for the whole-`timestep` trajectories (`harness/src/bin/fullstep.rs`):
kinds `ising` and `generic`, see `Qmc.Sampler.Proto.step` (QmcModel/Sampler.lean). -/

def main : IO Unit := run Qmc.Sampler.Proto.step
