import QmcModel.Proto
import QmcModel.Convert
open Qmc Qmc.Proto

/-
C15 driver.
  convert <edges> <Γ> <h> <nvars> <cutoff> <state> <slots>
      → `P` | `ok <bonds> <vars> <offset generic> <offset ising> <cutoff> <state> <slots> <flags> <non_const_diags> <ising table> <ops ok>`
        bonds = `const:constdiag:at-table` joined by `!` (table: ins major, outs minor), vars joined by `.`/`!`,
        flags = has_cluster_edges, breaks_ising_symmetry, should_do_cluster_update, loops, heatbath
  lockstep[-h|-opts|-hb|-g0] <edges> <Γ> <h> <nvars> <cutoff> <β> <seed> <kpre> <kpost> <rvb> <hb> <observed>
      → `<observation allowed by the trajectory theorem 0|1> <cluster gate> <energy difference>`
        (hb: 0 = Metropolis on both, 1 = heat-bath on the Ising sampler only, 2 = on both)
  diagstep <edges> <Γ> <h> <nvars> <cutoff> <β> <seed> <kpre> <kpost> <observed>
      → `<observation allowed 0|1>` (diagonal sweeps only: must be `same` for every h)
  lockstep-hist <edges> <Γ> <h> <nvars> <cutoff> <β> <seed> <kpre> <prehb> <split> <hist> <observed>
      → `<allowed 0|1> <cluster gate> <generic flag at the end> <ising table at the end> <energy difference>`
        option history applied to BOTH samplers after the conversion: hist = `1x3,0x5,1x2` = heat-bath on, 3 steps; off, 5 steps;
        on, 2 steps (`set_enable_heatbath` / `set_do_heatbath` before each block); prehb = option set on the Ising sampler before
        the kpre steps and the conversion (`convert_trajectory_option_history`: must be `same` when the gate is on)
  lockstep-swap <edgesA> <ΓA> <edgesB> <ΓB> <nvars> <cutA at swap> <cutB at swap> <β> <seed> <kpreA> <kpreB> <hbA> <hbB> <who> <kpost> <observed>
      → `<allowed 0|1> <cluster gate> <table present on the chosen sampler after the swap> <its cutoff after the swap> <energy difference>`
        two Ising samplers (h = 0), options set before the swap, raw `swap_manager_and_state`, sampler `who` (a|b) converted,
        `set_do_heatbath(<its own option>)` on the conversion, kpost lock-step steps (`convert_after_swap_trajectory`)
edges = `a,b:J!a,b:J…`
-/

def parseEdges (s : String) : List (List Nat × Rat) :=
  if s == "-" || s == "" then [] else
  (s.splitOn "!").filterMap fun tok =>
    match tok.splitOn ":" with
    | [vs, j] => some (parseNats vs, parseRat j)
    | _ => none

def mkModel (edges gam h nv : String) : IsingModel :=
  { edges := parseEdges edges, transverse := parseRat gam, longitudinal := parseRat h,
    nvars := parseNat nv }

def bondTok (i : Interaction) : String :=
  let pats := patterns i.n
  let table := pats.flatMap fun ins => pats.map fun outs =>
    match i.atP ins outs with
    | .ok v => showRat v
    | _ => "E"
  s!"{showBool i.isConstant}:{showBool i.isConstantDiag}:{String.intercalate "," table}"

def joinOr (sep : String) (xs : List String) : String :=
  if xs.isEmpty then "-" else String.intercalate sep xs

/-- `1x3,0x5` → [(true, 3), (false, 5)] -/
def parseHist (s : String) : List (Bool × Nat) :=
  if s == "-" || s == "" then [] else
  (s.splitOn ",").filterMap fun tok =>
    match tok.splitOn "x" with
    | [b, k] => some (b == "1", parseNat k)
    | _ => none

def step (toks : List String) : String :=
  match toks with
  | ["convert", edges, gam, h, nv, cutoff, state, slots] =>
    let g : IsingSampler :=
      { model := mkModel edges gam h nv, state := parseBits state, cutoff := parseNat cutoff,
        slots := parseSlots slots }
    match intoQmc g with
    | .ok q =>
      let bonds := joinOr "!" (q.bonds.map bondTok)
      let vars := joinOr "!" (q.bonds.map fun i => String.intercalate "." (i.vars.map toString))
      let flags := String.join ([q.hasClusterEdges, q.breaksIsingSymmetry, q.shouldDoClusterUpdate,
        q.doLoopUpdates, q.doHeatbath].map showBool)
      -- the Ising sampler's own Hamiltonian (`QmcIsingGraph::hamiltonian`) on every bond and pattern
      let ih := isingHam g.model
      let itable := joinOr "!" ((List.range ih.nbonds).map fun b =>
        let pats := patterns (ih.vars b).length
        String.intercalate "," (pats.flatMap fun ins => pats.map fun outs => showRat (ih.w b ins outs)))
      -- every operator the Ising sampler stored uses the variables / constant flag / a positive weight of `isingHam`
      let opsOk := g.slots.all fun o => match o with
        | none => true
        | some op => op.bond < ih.nbonds && op.vars == ih.vars op.bond && op.const == ih.const op.bond
            && decide (0 < ih.w op.bond op.ins op.outs)
      s!"ok {bonds} {vars} {showRat q.offset} {showRat g.model.offset} {q.cutoff} {showBits q.state} {showSlots q.slots} {flags} {showNats q.nonConstDiags} {itable} {showBool opsOk}"
    | .err => "E"
    | .panic => "P"
  | ["diagstep", edges, gam, h, nv, cutoff, _beta, _seed, _kpre, _kpost, observed] =>
    -- `convert_diag_sweeps_agree`: for every h the two diagonal sweeps are the same function call
    let g : IsingSampler :=
      { model := mkModel edges gam h nv, state := [], cutoff := parseNat cutoff, slots := [] }
    match intoQmc g with
    | .ok _ => showBool (observed == "same")
    | _ => "0"
  | ["lockstep-hist", edges, gam, h, nv, cutoff, _beta, _seed, _kpre, prehb, _split, hist, observed] =>
    let g : IsingSampler :=
      { model := mkModel edges gam h nv, state := [], cutoff := parseNat cutoff, slots := [],
        heatbath := prehb == "1" }
    match intoQmc g with
    | .ok q =>
      -- the flags both samplers carry after the history: those of the last block
      let blocks := parseHist hist
      let qEnd := blocks.foldl (fun q blk => q.setDoHeatbath blk.1) q
      let gEnd := blocks.foldl (fun g blk => g.setEnableHeatbath blk.1) g
      let gate := q.shouldDoClusterUpdate
      -- `convert_trajectory_option_history`: same flag sequence on both sides, no field, no RVB
      let allowed := !gate || observed == "same"
      let ediff := if observed == "same" then showApprox (g.energy 1 1 - q.energy 1 1) else "~0"
      s!"{showBool allowed} {showBool gate} {showBool qEnd.doHeatbath} {showBool gEnd.heatbath} {ediff}"
    | _ => "0 ? ? ? ?"
  | ["lockstep-swap", edgesA, gamA, edgesB, gamB, nv, cutA, cutB, _beta, _seed, _kpreA, _kpreB, hbA, hbB, who,
      _kpost, observed] =>
    let a : IsingSampler :=
      { model := mkModel edgesA gamA "0/1" nv, state := [], cutoff := parseNat cutA, slots := [],
        heatbath := hbA == "1" }
    let b : IsingSampler :=
      { model := mkModel edgesB gamB "0/1" nv, state := [], cutoff := parseNat cutB, slots := [],
        heatbath := hbB == "1" }
    let sw := swapIsing a b
    let c := if who == "a" then sw.1 else sw.2
    match intoQmc c with
    | .ok q =>
      -- the conversion is told the option of the sampler it was taken from
      let q := q.setDoHeatbath c.heatbath
      let gate := q.shouldDoClusterUpdate
      -- `convert_after_swap_trajectory`
      let allowed := !gate || observed == "same"
      let ediff := if observed == "same" then showApprox (c.energy 1 1 - q.energy 1 1) else "~0"
      s!"{showBool allowed} {showBool gate} {showBool c.heatbath} {c.cutoff} {ediff}"
    | _ => "0 ? ? ? ?"
  | [kind, edges, gam, h, nv, cutoff, _beta, _seed, _kpre, _kpost, rvb, hb, observed] =>
    if !kind.startsWith "lockstep" then "bad-op" else
    let g : IsingSampler :=
      { model := mkModel edges gam h nv, state := [], cutoff := parseNat cutoff, slots := [],
        runRvb := rvb == "1", heatbath := hb != "0" }
    match intoQmc g with
    | .ok q =>
      -- hb = 2: `set_do_heatbath(true)` was called on the converted sampler by hand
      let q := if hb == "2" then q.setDoHeatbath true else q
      let gate := q.shouldDoClusterUpdate
      -- `convert_trajectory_partial` (both Metropolis) / `convert_trajectory_heatbath_partial` (both heat-bath)
      let applies := gate && !g.runRvb && (q.doHeatbath == g.heatbath)
      let allowed := !applies || observed == "same"
      let ediff := if observed == "same" then showApprox (g.energy 1 1 - q.energy 1 1) else "~0"
      s!"{showBool allowed} {showBool gate} {ediff}"
    | _ => "0 ? ?"
  | _ => "bad-op"

def main : IO Unit := run step
