import QmcModel.Proto
import QmcModel.Stepper
import QmcModel.QmcCtor
open Qmc Qmc.Proto Qmc.MockIO

/-! Driver for C17: runs the model (`measureLoop`, `chunkRun`, `itimeStates`) on the inputs of
harness/src/bin/c17.rs and renders the same observable tokens. -/

def stepChar (sRead nRead : Bool) : Char :=
  match sRead, nRead with
  | true, true => 'm'
  | false, true => 'n'
  | true, false => 's'
  | false, false => '-'

/-- `measure <variant> T f beta off nscript ziplen` -/
def doMeasure (variant : String) (T : Nat) (fTok : String) (β off : Rat) (ns : List Nat) (ziplen : Nat) : String :=
  let f : Nat := if variant == "steps" then 1 else if fTok == "none" then 1 else parseNat fTok
  if measurePanics T f then "panic" else
  let step : Nat → Nat := (· + 1)
  -- run 1: scripted n, fold = log of ages
  let r := measureLoop step (scriptN ns) (pushFold id) T f 0 []
  -- run 2: n = 2^age, so the binary digits of total_n tell at which steps n was read
  let r2 := measureLoop step (fun a => 2 ^ a) (fun (_ : Unit) _ => ()) T f 0 ()
  let items := (List.range ziplen).map (· + 100)
  let zipCalls : List (Nat × Nat) := (r.acc.foldl zipStep (some items, [])).2
  let stateReadAges : List Nat :=
    if variant == "self" then [] else if variant == "zip" then zipCalls.map (·.2) else r.acc
  let log := (List.range T).map fun k =>
    stepChar (stateReadAges.contains (k + 1)) (r2.totalN.testBit (k + 1))
  let calls : String :=
    if variant == "steps" then "-"
    else if variant == "zip" then showList (fun (p : Nat × Nat) => s!"{p.1}:{p.2}") zipCalls
    else showList (fun (a : Nat) => s!"0:{a}") r.acc
  let avg : Option Rat := if r.measured = 0 then none else some ((r.totalN : Rat) / (r.measured : Rat))
  s!"{String.ofList log}E {calls} {r.st} {nanOr avg} {nanOr (measureEnergy β off r)}"

def renderLog (showW : Bool) (log : List Ev) : String :=
  let s := String.join (log.map fun e =>
    match e with
    | Ev.adv t => String.ofList (List.replicate t 'm') ++ "E"
    | Ev.swap => if showW then "W" else ""
    | Ev.sample => "S")
  if s.isEmpty then "-" else s

def doTemper (par : Bool) (T s f nrep : Nat) (βs offs : List Rat) (nss : List (List Nat)) (script : SwapScript) : String :=
  if chunkPanics nrep f then "panic" else
  let R := mockSys nss βs offs
  let c0 : List Rep × SwapScript := ((List.range nrep).map fun i => { gid := i, age := 0 }, script)
  let C := if par then parallelContainer R revRoundRobin else serialContainer R
  let x := chunkRun C T s f c0
  -- both `tempering_step` and `parallel_tempering_step` return before touching anything with <= 1 replica
  -- (the rayon step only since `fix:` f20b8b5, finding F30; before it returned early only when empty)
  let showW := if par then decide (2 ≤ nrep) else decide (2 ≤ nrep)
  let logStr := renderLog showW x.log
  let perSlot := (List.range nrep).map fun i =>
    let samples := x.samples.map fun row => decRep (row.getD i [])
    let e : Option Rat := if T = 0 then none else some (chunkEnergy T x i)
    s!"{logStr} {showList showRep samples} {nanOr e}"
  let fin := showList showRep x.c.1
  let left := if x.c.2.isEmpty then "" else " LEFT"
  String.intercalate " " (perSlot ++ [fin]) ++ left

def doIsingM (T f : Nat) (β off : Rat) (nseq : List Nat) : String :=
  let r := measureLoop (· + 1) (fun a => if a = 0 then 0 else nseq.getD (a - 1) 0) (pushFold id) T f 0 []
  s!"{r.acc.length} {nanOr (measureEnergy β off r)}"

def doIsingT (T s f nrep : Nat) (βs offs : List Rat) (nss : List (List Nat)) : String :=
  let R : ReplicaSys Rep Unit :=
    { step := fun r => { r with age := r.age + 1 }
      n := fun r => if r.age = 0 then 0 else (nss.getD r.gid []).getD (r.age - 1) 0
      state := encRep
      energy := fun i a => energyForAvgN (βs.getD i 1) (offs.getD i 0) a
      swap := id }
  let c0 : List Rep × Unit := ((List.range nrep).map fun i => { gid := i, age := 0 }, ())
  let x := chunkRun (serialContainer R) T s f c0
  String.intercalate " " ((List.range nrep).map fun i =>
    s!"{x.samples.length} {nanOr (if T = 0 then none else some (chunkEnergy T x i))}")

/-! ### the constructor calls behind a real generic sampler (model: QmcModel/QmcCtor.lean)

`<calls>` = `-` or `;`-separated `<variant>:<mat>:<vars>` with variant `new | new_off | diag | diag_off`. The model
replays EVERY call (accepted and rejected ones, in the order issued) on a state with `nvars` variables whose offset
starts at `base`, and renders the resulting `get_offset()` and one letter per call (`A` accepted, `E` error, `P` panic). -/

def kindOf (variant : String) : Option QmcCtor.Kind :=
  match variant with
  | "new" => some .new
  | "new_off" => some .newOff
  | "diag" => some .diag
  | "diag_off" => some .diagOff
  | _ => none

def replayCalls (nvars : Nat) (base : Rat) (calls : String) : Rat × String :=
  let s0 : QmcCtor.State := { QmcCtor.State.init nvars with offset := base }
  let cs := if calls == "-" then [] else calls.splitOn ";"
  let (s, letters) := cs.foldl (fun (acc : QmcCtor.State × List Char) c =>
    match c.splitOn ":" with
    | [variant, mat, vars] =>
      match kindOf variant with
      | some k =>
        let (r, s') := QmcCtor.make k acc.1 (parseRats mat) (parseNats vars)
        (s', acc.2 ++ [match r with | .ok _ => 'A' | .err => 'E' | .panic => 'P'])
      | none => (acc.1, acc.2 ++ ['?'])
    | _ => (acc.1, acc.2 ++ ['?'])) (s0, [])
  (s.offset, if letters.isEmpty then "-" else String.ofList letters)

/-- `genericm`: the measuring loop with the documented offset as input, then `get_offset()` and the outcome of every
constructor call reproduced from the calls -/
def doGenericM (T f : Nat) (β off : Rat) (nseq : List Nat) (nvars : Nat) (base : Rat) (calls : String) : String :=
  let (o, letters) := replayCalls nvars base calls
  s!"{doIsingM T f β off nseq} {showRat o} {letters}"

def doGenericT (T s f nrep : Nat) (βs offs : List Rat) (nss : List (List Nat)) (nvars : Nat) (callss : String) : String :=
  let rs := (callss.splitOn "&").map (replayCalls nvars 0)
  s!"{doIsingT T s f nrep βs offs nss} {showRats (rs.map (·.1))} {String.intercalate "&" (rs.map (·.2))}"

def doEdgeTemper (T s f nrep : Nat) : String :=
  if chunkPanics nrep f then "panic steps=0 div0" else
  let C : Container Unit := { advance := fun _ c => (c, fun _ => 0), swapStep := id, states := fun _ => [] }
  let x := chunkLoop C s f 5000 (chunkInit T s f ())
  if x.remaining = 0 then "returned" else "stuck"

def step (toks : List String) : String :=
  match toks with
  | ["measure", variant, T, f, β, off, ns, zl] =>
    doMeasure variant (parseNat T) f (parseRat β) (parseRat off) (parseNats ns) (parseNat zl)
  | ["temper", drv, T, s, f, nrep, βs, offs, nss, script] =>
    doTemper (drv == "parallel") (parseNat T) (parseNat s) (parseNat f) (parseNat nrep) (parseRats βs) (parseRats offs)
      (parseNss nss) (parseSwapScript script)
  | ["genericm", _variant, T, f, β, off, nseq, nvars, base, calls] =>
    doGenericM (parseNat T) (parseNat f) (parseRat β) (parseRat off) (parseNats nseq) (parseNat nvars) (parseRat base) calls
  | ["generict", T, s, f, nrep, βs, offs, nss, nvars, callss] =>
    doGenericT (parseNat T) (parseNat s) (parseNat f) (parseNat nrep) (parseRats βs) (parseRats offs) (parseNss nss)
      (parseNat nvars) callss
  | ["isingm", T, f, β, off, nseq] => doIsingM (parseNat T) (parseNat f) (parseRat β) (parseRat off) (parseNats nseq)
  | ["isingt", T, s, f, nrep, βs, offs, nss] =>
    doIsingT (parseNat T) (parseNat s) (parseNat f) (parseNat nrep) (parseRats βs) (parseRats offs) (parseNss nss)
  | ["itime", st, slots] =>
    let states := itimeStates (parseBits st) (parseSlots slots)
    s!"{states.length} {showList showBits states}"
  | ["edge", "temper", T, s, f, nrep] => doEdgeTemper (parseNat T) (parseNat s) (parseNat f) (parseNat nrep)
  | _ => "bad-op"

def main : IO Unit := run step
