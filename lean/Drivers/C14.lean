import QmcModel.Proto
import QmcModel.Generated.Fields
open Qmc Qmc.Proto

/-
C14 driver.  The lock-step cases are Rust-vs-Rust (the harness' oracle column is the property on the real
code); the model's answer for them is the proved verdict `same` (`restore (snapshot g) = g`, hence every
continuation agrees).  The `keys` cases tie the regenerated field model to the real serde output: the JSON keys
serde writes for a struct must be exactly the non-skipped fields the extractor found in the source.
-/

def insertSorted (a : String) : List String → List String
  | [] => [a]
  | b :: l => if a < b then a :: b :: l else b :: insertSorted a l

def sortStrings (l : List String) : List String := l.foldr insertSorted []

def step (toks : List String) : String :=
  match toks with
  | ["keys", s] =>
    match Qmc.Gen.serdeKeys.lookup s with
    | some ks => showList id (sortStrings ks)
    | none => "unknown-struct"
  | ["poolcount", _] =>
    if Qmc.Gen.numericFields.contains ("Allocator", "instances") then "count" else "instances"
  | "ising" :: _ => "same"
  | "generic" :: _ => "same"
  | "temper" :: _ => "same"
  | "temper-grow" :: _ => "same"
  | "ising-nd" :: _ => "same"
  | "ising-nd-fixed" :: _ => "same"
  | "prepared-ising" :: _ => "same"
  | "prepared-generic" :: _ => "same"
  | "big-ising" :: _ => "same"
  | "big-temper" :: _ => "same"
  | _ => "bad-op"

def main : IO Unit := run step
