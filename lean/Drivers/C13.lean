import QmcModel.Proto
import QmcModel.Snapshot
open Qmc Qmc.Proto Qmc.Snap Qmc.Gen

/-
C13 driver.  Twin / clone / pool comparisons are Rust-vs-Rust (the oracle column of the harness is the property on
the real code); the model's answer is the proved verdict `same`.  The `draws n` cases compare the number of
container-RNG words one tempering step consumes on an `n`-replica container, serial and rayon, with the model
(`temperingStep` / `parTemperingStep` over a counting RNG) — this is where the one-replica difference shows.
-/

/-- counting RNG: the state is the number of words drawn; replicas are inert -/
def countOps : Ops Nat Nat Nat Unit where
  hamEq a b := a == b
  cutoff q := q
  setCutoff c _ := c
  swapOn a b _ _ := (a, b, false)
  genHalf r := (true, r + 1)
  genUnif r := ((), r + 1)

def tcOf (n : Nat) : TC Nat Nat Nat :=
  { graphs := (List.range n).map fun i => (i, i), rng := some 0, graph_ham_eq_a := none, graph_ham_eq_b := none,
    total_swaps := 0 }

def step (toks : List String) : String :=
  match toks with
  | ["draws", n] =>
    let n := parseNat n
    let s := (temperingStep countOps (tcOf n)).rng.getD 0
    let p := (parTemperingStep countOps (fun _ _ m => List.range m) 0 (tcOf n)).rng.getD 0
    s!"{s} {p}"
  | k :: _ =>
    if k.startsWith "twin-" || k.startsWith "clone-" || k.startsWith "clonefrom-" || k == "pool" || k == "ladder" then "same" else "bad-op"
  | _ => "bad-op"

def main : IO Unit := run step
