import QmcModel.Proto
import QmcModel.Stepper
import QmcModel.Autocorr
open Qmc Qmc.Proto Qmc.MockIO

/-! Driver for C20: evaluates the rational model of the autocorrelation helpers on the inputs of
harness/src/bin/c20.rs. -/

def render (samples : List (List Rat)) : String :=
  if autocorrPanics samples then "panic" else
  let T := samples.length
  if autocorrDefined samples then
    String.intercalate " " (toString T :: (autocorr samples).map showApprox)
  else
    String.intercalate " " (toString T :: List.replicate T "nan")

def parseFreq (s : String) : Nat := if s == "none" then 1 else parseNat s

def parseTable (s : String) : List (List Rat) := (s.splitOn ";").map parseRats

def parseStates (s : String) : List (List Bool) := (s.splitOn ",").map parseBits

def parseProds (s : String) : List (List Nat) :=
  (s.splitOn ",").map fun p => if p == "_" then [] else (p.splitOn ".").map parseNat

def cyc {α : Type} [Inhabited α] (xs : List α) (age : Nat) : α := xs.getD ((age - 1) % xs.length) default

/-- samples of every slot of the tempering helper (always the parallel driver), mapped with `obsOf` -/
def temperRender (T s f nrep : Nat) (script : String) (obsOf : Rep → List Rat) : String :=
  if chunkPanics nrep f then "panic" else
  -- the parallel driver performs a tempering step after every s-th step as soon as there are TWO replicas (with one
  -- replica it returns at once since `fix:` f20b8b5, finding F30; before, it touched the single replica): the observed
  -- swap script must have exactly that many steps
  if decide (2 ≤ nrep) && decide (1 ≤ s) && (parseSwapScript script).length != T / s then
    s!"SWAPSTEPS {(parseSwapScript script).length} DOCUMENTED {T / s}" else
  let R := mockSys [] [] []
  let c0 : List Rep × SwapScript := ((List.range nrep).map fun i => { gid := i, age := 0 }, parseSwapScript script)
  let x := chunkRun (parallelContainer R revRoundRobin) T s f c0
  String.intercalate " " ((List.range nrep).map fun i =>
    render (x.samples.map fun row => obsOf (decRep (row.getD i []))))

partial def step (toks : List String) : String :=
  match toks with
  -- the bond helpers are the same model with `value_for_bond` as mapper
  | "bond" :: rest => step ("custom" :: rest)
  -- real generic sampler: the table holds the observables on the sampled states; first the number of observables
  | ["isingbond", T, f, table, _edges] => step ["genbond", T, f, table]
  | ["genbond", _T, _f, table] =>
    let samples := if table == "-" then [] else parseTable table
    s!"{nObs samples} {render samples}"
  | "temperbond" :: rest => step ("temper" :: rest)
  | ["custom", T, f, table] =>
    let tab := parseTable table
    render (calcSamples (· + 1) (fun a => a % 7) (bitsOf 16) (fun _ st => cyc tab (ofBits st)) (parseNat T) (parseFreq f) 0)
  | ["vars", T, f, states] =>
    let sts := parseStates states
    render (calcSamples (· + 1) (fun a => a % 7) (fun a => cyc sts a) (fun _ => varMapper) (parseNat T) (parseFreq f) 0)
  | ["prod", T, f, states, prods] =>
    let sts := parseStates states
    render (calcSamples (· + 1) (fun a => a % 7) (fun a => cyc sts a) (fun _ => prodMapper (parseProds prods)) (parseNat T) (parseFreq f) 0)
  | ["temper", T, s, f, nrep, tables, script] =>
    let tabs := (tables.splitOn "!").map parseTable
    temperRender (parseNat T) (parseNat s) (parseNat f) (parseNat nrep) script fun r => cyc (tabs.getD r.gid []) r.age
  -- tempering spin helpers: the state of graph `gid` after its `age`-th step is prescribed
  | ["tempervars", T, s, f, nrep, tables, script] =>
    let tabs := (tables.splitOn "!").map parseStates
    temperRender (parseNat T) (parseNat s) (parseNat f) (parseNat nrep) script fun r => varMapper (cyc (tabs.getD r.gid []) r.age)
  | ["temperprod", T, s, f, nrep, tables, prods, script] =>
    let tabs := (tables.splitOn "!").map parseStates
    let ps := parseProds prods
    temperRender (parseNat T) (parseNat s) (parseNat f) (parseNat nrep) script fun r => prodMapper ps (cyc (tabs.getD r.gid []) r.age)
  | _ => "bad-op"

def main : IO Unit := run step
