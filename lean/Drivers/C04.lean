import QmcModel.Proto
import QmcModel.Basic
import QmcModel.Rand
import QmcModel.Interaction
import QmcModel.Loop
import QmcModel.Generic
import QmcModel.Stepper
open Qmc Qmc.Proto

/-! Line-protocol driver for C04 (generic sampler: loop update, exit distribution, start draw map,
flags/offset bookkeeping, free-spin refresh, pipeline order). -/

def buildQ (doLoop : String) (calls : String) : Option GQmc :=
  match makeCalls (GQmc.init (doLoop == "1")) (parseCalls calls) with
  | .ok q => some q
  | _ => none

def showLeg (l : Leg) : String := s!"{l.rel}{if l.out then "o" else "i"}"

def parseLeg (s : String) : Leg :=
  let cs := s.toList
  let digits := cs.filter Char.isDigit
  ⟨parseNat (String.ofList digits), cs.getLast? == some 'o'⟩

def step (toks : List String) : String :=
  match toks with
  -- exact trajectory of one loop update
  | ["loop", calls, state, slots, script] =>
    match buildQ "1" calls with
    | none => "bad-calls"
    | some q =>
      let cfg : Config := { state := parseBits state, slots := parseSlots slots }
      let (cfg', rs) := loopUpdate (genericW q) cfg (RS.ofScript (parseNats script))
      -- hypotheses of `Qmc.C04.loopUpdate_pres` on the replayed input: Op.WF and a positive matrix
      -- element for every op, periodic world lines (the theorem then gives c=1 whenever the
      -- verdict is `ok`; both are printed and compared with the implementation on every run)
      let hyp := cfg.slots.all (fun o => match o with
        | some op => decide op.WF && decide (0 < genericW q op.bond op.ins op.outs)
        | none => true) && decide (Consistent cfg)
      s!"{showBits cfg'.state} {showSlots cfg'.slots} {rs.verdict} c={showBool (decide (Consistent cfg'))} hyp={showBool hyp}"
  -- start op / leg / side draw map
  | ["start", slots, script] =>
    let sl := parseSlots slots
    match loopStart sl (RS.ofScript (parseNats script)) with
    | (some (p, leg), rs) => s!"{p} {showLeg leg} {rs.verdict}"
    | (none, rs) => s!"none - {rs.verdict}"
  -- the whole slot map of the start draw: for a = 0 .. total-1 the (position, relative variable)
  -- the walk over the ops in chain order selects
  | ["startmap", slots, _total] =>
    let sl := parseSlots slots
    let items := (List.range (totalVars sl)).map fun a =>
      match pickLeg sl 0 a with
      | some (p, r) => s!"{p}:{r}"
      | none => "none"
    if items.isEmpty then "-" else String.intercalate "," items
  -- cumulative exit thresholds at one vertex
  | ["exitdist", calls, op, ent] =>
    match buildQ "1" calls, parseOp op with
    | some q, some o =>
      let cum := exitCumulative (genericW q o.bond) (o.ins, o.outs) (parseLeg ent) o.vars.length
      String.intercalate " " (cum.map showApprox)
    | _, _ => "bad-input"
  -- one scripted exit draw at one vertex
  | ["exit", calls, op, ent, word] =>
    match buildQ "1" calls, parseOp op with
    | some q, some o =>
      match firstVisit (genericW q) o (parseLeg ent) (RS.ofScript [parseNat word]) with
      | (some ex, rs) => s!"{showLeg ex} {showOp (passThrough o (parseLeg ent) ex)} {rs.verdict}"
      | (none, rs) => s!"none - {rs.verdict}"
    | _, _ => "bad-input"
  -- flags, offset, energy
  | ["gate", doLoop, calls, avgN, beta] =>
    let cs := parseCalls calls
    -- which calls are accepted, one by one
    let (q, acc) := cs.foldl (fun (st : Option GQmc × List Bool) c =>
      match st.1 with
      | none => (none, st.2)
      | some q => match makeCall q c with
        | .ok q' => (some q', st.2 ++ [true])
        | .err => (some q, st.2 ++ [false])
        | .panic => (none, st.2)) (some (GQmc.init (doLoop == "1")), [])
    match q with
    | none => "P"
    | some q =>
      -- last token: `is_constant()` of every stored interaction in bond order (true only for a FULL
      -- matrix with all entries equal; a diagonal table is never constant, `C16`/`classification_meaning`)
      let cbits := if q.bonds.isEmpty then "-" else String.ofList (q.bonds.map fun i => if i.isConstant then '1' else '0')
      s!"{showBits acc} {q.bonds.length} {showBool (shouldDoClusterUpdate q)} {showBool (shouldDoLoopUpdate q)} {showRat q.offset} {showNats q.nonConstDiags} {showApprox (energyForAverageN q (parseRat avgN) (parseRat beta))} {cbits}"
  -- free-spin refresh
  | ["free", state, slots, script] =>
    let cfg : Config := { state := parseBits state, slots := parseSlots slots }
    let (cfg', rs) := flipFreeBits cfg (RS.ofScript (parseNats script))
    s!"{showBits cfg'.state} {rs.verdict} c={showBool (decide (Consistent cfg'))}"
  -- pipeline: which of the optional sub-updates `timestep` runs; `combos` lists the
  -- (loop, cluster) combinations whose composition reproduced `timestep` on the real code
  | ["pipe", doLoop, calls, combos] =>
    match buildQ doLoop calls with
    | none => "bad-calls"
    | some q =>
      let want := s!"{showBool (shouldDoLoopUpdate q)}{showBool (shouldDoClusterUpdate q)}"
      if (combos.splitOn ",").contains want then "ok" else s!"model-wants-{want}"
  -- known finding F20 (non-ergodic interaction sets): the model's gate / loop flag for the call
  -- list, and the number of off-diagonal single-site operators that can ever appear when the gate
  -- is off (`gate_off_single_site_stays_diagonal`: 0); with the gate on the model predicts nothing
  | ["nonergodic", _name, calls, _nseeds, _nsteps] =>
    match buildQ "1" calls with
    | none => "bad-calls"
    | some q =>
      let gate := shouldDoClusterUpdate q
      s!"gate={showBool gate} loop={showBool (shouldDoLoopUpdate q)} od={if gate then "?" else "0"}"
  -- heat-bath table maxima: implementation-side oracle only (stored per-bond maxima vs the maximum
  -- over all 2^k diagonal entries of the user's matrix); nothing to replay
  | "hbtable" :: _ => "-"
  -- manual cutoff calls between steps: `Qmc::cutoff` and the container length after each operation
  -- (`s` = timestep, `i<c>` = increase_cutoff_to(c), `c<c>` = set_cutoff(c)), from the initial values
  -- and the observed operator count after each operation
  | ["cutoff", _nvars, _calls, _beta, _flags, cut0, len0, ops, ns] =>
    let nl := parseNats ns
    let opl := if ops == "-" then [] else ops.splitOn ","
    let cops : List CutOp := (List.range opl.length).map fun k =>
      let tok := opl.getD k ""
      let arg := parseNat (tok.drop 1).toString
      if tok.startsWith "i" then CutOp.increase arg
      else if tok.startsWith "c" then CutOp.set arg
      else CutOp.step (nl.getD k 0)
    let tr := cutTrace { cutoff := parseNat cut0, len := parseNat len0 } cops
    s!"{showNats (tr.map (·.cutoff))} {showNats (tr.map (·.len))}"
  -- oracle-only case after a cluster / diagonal sub-update of the constant-diagonal-table systems
  | "clustercheck" :: _ => "-"
  -- the default measuring methods of `QmcStepper` on the generic sampler: number of measured steps
  -- and returned energy from t, sampling frequency, beta, offset and the observed n after each
  -- step (C17's model of `timesteps_measure_with_self`: `measureLoop`, `measureEnergy`)
  | ["measure", kind, T, f, β, off, nseq, _calls] =>
    let t := parseNat T
    let fr : Nat := if kind == "steps" || f == "none" then 1 else parseNat f
    if measurePanics t fr then "panic" else
    let ns := parseNats nseq
    let r := measureLoop (· + 1) (fun a => if a = 0 then 0 else ns.getD (a - 1) 0)
      (fun (acc : Nat) _ => acc + 1) t fr 0 0
    let e := match measureEnergy (parseRat β) (parseRat off) r with
      | some x => showApprox x
      | none => "nan"
    s!"{if kind == "steps" then "-" else toString r.acc} {e}"
  | _ => "bad-op"

def main : IO Unit := run step
