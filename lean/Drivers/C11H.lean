/-
Stand-alone line driver for the hint fills / read-only iterators of C11 (kinds `hintfill`, `hintsub`,
`iterps`, `iterops`; harness/src/bin/c11h.rs).  No exe target is declared for it: run it with
`cd /verif/lean && lake env lean --run Drivers/C11H.lean`.  `drv_c11` answers the same kinds through
`Qmc.C11H.step` (QmcModel/FastOpsHintDriver.lean).
-/
import QmcModel.FastOpsHintDriver

partial def loopH (h : IO.FS.Stream) : IO Unit := do
  let line ← h.getLine
  if line.isEmpty then return ()
  IO.println (Qmc.C11H.step line)
  loopH h

def main : IO Unit := do
  let stdin ← IO.getStdin
  loopH stdin
