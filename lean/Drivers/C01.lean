import QmcModel.Proto
import QmcModel.Basic
import QmcModel.Rand
import QmcModel.Ham
open Qmc Qmc.Proto

/-- `a:b:J,a:b:J,…` -/
def parseEdges (s : String) : List (List Nat × Rat) :=
  (parseList id s).filterMap fun tok =>
    match tok.splitOn ":" with
    | [a, b, j] => some ([parseNat a, parseNat b], parseRat j)
    | _ => none

def mkModel (e g h n : String) : IsingModel :=
  { edges := parseEdges e, transverse := parseRat g, longitudinal := parseRat h, nvars := parseNat n }

def approxE (r : Rat) : String :=
  let scale : Nat := 10 ^ 15
  let v : Int := (r * (scale : Rat)).floor
  s!"~{v}e-15"

def step (toks : List String) : String :=
  match toks with
  | ["ham", e, g, h, n] =>
    let m := mkModel e g h n
    let H := isingHam m
    let entries := (List.range H.nbonds).flatMap fun b =>
      let k := (H.vars b).length
      (patterns k).flatMap fun ins => (patterns k).map fun outs => showRat (H.w b ins outs)
    s!"{H.nbonds} {showRat m.offset} {String.intercalate "," entries}"
  | ["energy", e, g, h, n, avg, beta] =>
    let m := mkModel e g h n
    approxE (-(parseRat avg / parseRat beta) + m.offset)
  | ["refresh", _before, idle, ws] =>
    -- one genBool(1/2) per variable without operators, in increasing index order
    let idl := parseBits idle
    let rs0 := RS.ofScript (parseNats ws)
    let (out, rs) := idl.foldl (fun (acc : List Bool × RS) isIdle =>
      if isIdle then
        let (b, rs') := acc.2.genBool (1 / 2)
        (acc.1 ++ [b], rs')
      else (acc.1 ++ [false], acc.2)) ([], rs0)
    if rs.clean then showBits out else s!"bad-draw-count {rs.verdict}"
  | ["fieldwit", e, g, h, n] =>
    -- largest bond index the sampler can ever insert = numBonds - 1 (finding F24: no field bonds for |h| <= 2^-52)
    toString ((mkModel e g h n).numBonds - 1)
  | "pipeline" :: _ => "same"
  | _ => "bad-op"

def main : IO Unit := run step
