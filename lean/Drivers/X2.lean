-- driver stub (not built yet)
def main : IO Unit := pure ()
