import QmcModel.Proto
import QmcModel.Classical
open Qmc Qmc.Proto Qmc.Classical

/-
C19 driver. Graph tokens: `<edges> <biases>`; edges = comma list of `a:b:num/den` (`-` = none).
 traj <edges> <biases> <beta> <imp> <ns> <ne> <nw> <basic> <state0> <nsteps> <words>
      → `<state> <energy>` after every step, then the RNG verdict
 thr  <edges> <biases> <beta> <kind spin|edge> <target> <state>
      → `nodraw`|`~p`  <state after an accepted move>
 imp  <edges> <nbiases>            → `~b_k` cumulative selection boundaries (k = 0..E-2); `uniform` when Σ|J| = 0
 kern <kind spin|edge|worm> <edges> <biases> <beta> <imp>
      → `~K(a,b)` for all states a, b (binary counting order, spin 0 = most significant)
 api <edges> <biases> <beta> <ops> <words>  → `<state> <energy>` after every public call (see c19.rs), verdict
 rd <sorted list>                   → `remove_doubles` (values of odd multiplicity)
 energy <edges> <biases> <state>   → `<get_energy> <edge-list energy>`
 paritywit <edges> <biases> <beta> <ns> <ne> <state0> <nsteps> <rngseed>
      → `mixing` | `conserved`: the model's decision of the irreducibility condition (M) of
        `Qmc.C19.step_irreducible_iff` for `do_time_step(.., only_basic_moves = true)`:
        ns odd, or ns ≥ 1 ∧ β > 0 ∧ the reported energy is not constant (ns = `-` → max 1 (n/2))
-/

def parseEdge (s : String) : Edge :=
  match s.splitOn ":" with
  | [a, b, j] => ((parseNat a, parseNat b), parseRat j)
  | _ => ((0, 0), 0)

def parseEdges : String → List Edge := parseList parseEdge

def parseOptNat (s : String) : Option Nat := if s == "-" then none else some (parseNat s)

def chOf (beta : Rat) : Rat → Rat := fun de => expNeg (beta * de)

def trajLoop (ch : Rat → Rat) (g : Sampler) (ns ne nw : Option Nat) (basic : Bool) :
    Nat → List Bool × RS → List String → List String × RS
  | 0, x, acc => (acc.reverse, x.2)
  | k + 1, x, acc =>
    let x' := doTimeStep ch g ns ne nw basic x
    let e := getEnergy g.bm g.biases x'.1
    trajLoop ch g ns ne nw basic k x' (s!"{showBits x'.1} {showRat e}" :: acc)

/-- state of the `api` scenario: sampler options, spins, rng -/
structure ApiSt where
  imp : Bool := false
  s : List Bool := []
  rs : RS

/-- one public call; returns the new state and whether the call consumed the sampler (`G`) -/
def apiOp (edges : List Edge) (biases : List Rat) (ch : Rat → Rat) (a : ApiSt) (op : String) : ApiSt × Bool :=
  let head := (op.take 1).toString
  let rest := (op.drop 1).toString
  if head == "W" then ({ a with s := parseBits rest }, false)
  else if head == "N" then
    -- `make_random_spin_state`: one `gen::<bool>()` per site
    let (s, rs) := (List.range biases.length).foldl
      (fun (acc : List Bool × RS) _ => let (b, r) := acc.2.genStdBool; (acc.1 ++ [b], r)) ([], a.rs)
    ({ a with s, rs }, false)
  else if head == "S" then ({ a with s := parseBits rest }, false)
  else if head == "I" then ({ a with imp := rest == "1" }, false)
  else if head == "T" then
    match rest.splitOn ":" with
    | [_, ns, ne, nw, basic] =>
      let g := Sampler.new edges biases a.imp
      let x := doTimeStep ch g (parseOptNat ns) (parseOptNat ne) (parseOptNat nw) (basic == "1") (a.s, a.rs)
      ({ a with s := x.1, rs := x.2 }, false)
    | _ => (a, false)
  else if head == "G" then (a, true)
  else (a, false)   -- E, Q, C, D: pure reads / clone

def apiRun (edges : List Edge) (biases : List Rat) (ch : Rat → Rat) :
    List String → ApiSt → List String → List String × RS
  | [], a, acc => (acc.reverse, a.rs)
  | op :: ops, a, acc =>
    let (a', consumed) := apiOp edges biases ch a op
    let bm := bindingMat edges biases.length
    let out := if consumed then s!"{showBits a'.s} -" else s!"{showBits a'.s} {showRat (getEnergy bm biases a'.s)}"
    apiRun edges biases ch ops a' (out :: acc)

/-- the reported energy takes the same value on all `2^n` configurations -/
def energyConst (g : Sampler) : Bool :=
  match statesOrdered g.biases.length with
  | [] => true
  | s0 :: rest => rest.all fun s => getEnergy g.bm g.biases s == getEnergy g.bm g.biases s0

/-- executable form of condition (M) (`Qmc.ClassicalErgodic.mixing_iff`) -/
def mixingB (g : Sampler) (beta : Rat) (ns : Nat) : Bool :=
  ns % 2 == 1 || (decide (1 ≤ ns) && decide (0 < beta) && !energyConst g)

def step (toks : List String) : String :=
  match toks with
  | ["traj", edges, biases, beta, imp, ns, ne, nw, basic, state0, nsteps, words] =>
    let g := Sampler.new (parseEdges edges) (parseRats biases) (imp == "1")
    let ch := chOf (parseRat beta)
    let rs := RS.ofScript (parseNats words)
    let (outs, rs') := trajLoop ch g (parseOptNat ns) (parseOptNat ne) (parseOptNat nw) (basic == "1")
      (parseNat nsteps) (parseBits state0, rs) []
    if rs'.panicked then "PANIC" else
    String.intercalate " " (outs ++ [rs'.verdict])
  | ["thr", edges, biases, beta, kind, target, state] =>
    let g := Sampler.new (parseEdges edges) (parseRats biases) false
    let s := parseBits state
    let t := parseNat target
    let (de, s') :=
      if kind == "spin" then (spinDelta g.bm g.biases s t, flipAt s t)
      else
        let e := g.edges.getD t ((0, 0), 0)
        (edgeDelta g.bm g.biases s e.1.1 e.1.2, flipAt (flipAt s e.1.1) e.1.2)
    let p := if de > 0 then showApprox (accProb (chOf (parseRat beta)) de) else "nodraw"
    s!"{p} {showBits s'}"
  | ["imp", edges, nb] =>
    let es := parseEdges edges
    let g := Sampler.new es (List.replicate (parseNat nb) 0) true
    match g.cum with
    | none => "uniform"
    | some (table, total) =>
      let bs := (table.take (table.length - 1)).map fun v => showApprox (v / total)
      if bs.isEmpty then "-" else String.intercalate " " bs
  | ["kern", kind, edges, biases, beta, imp] =>
    let g := Sampler.new (parseEdges edges) (parseRats biases) (imp == "1")
    let ch := chOf (parseRat beta)
    let n := g.biases.length
    let sts := statesOrdered n
    let rowOf (s : List Bool) : List (Rat × List Bool) :=
      if kind == "spin" then spinRow ch g.bm g.biases s
      else if kind == "edge" then edgeRow ch g s
      else wormRow ch g.bm g.biases true s
    String.intercalate " " (sts.flatMap fun a =>
      let r := rowOf a
      sts.map fun b => showApprox (rowProb r b))
  | ["api", edges, biases, beta, ops, words] =>
    let es := parseEdges edges
    let bs := parseRats biases
    let (outs, rs') := apiRun es bs (chOf (parseRat beta)) (ops.splitOn ",") { rs := RS.ofScript (parseNats words) } []
    if rs'.panicked then "PANIC" else String.intercalate " " (outs ++ [rs'.verdict])
  | ["paritywit", edges, biases, beta, ns, _ne, _state0, _nsteps, _seed] =>
    let g := Sampler.new (parseEdges edges) (parseRats biases) false
    let n := g.biases.length
    let nsv := (parseOptNat ns).getD (max 1 (n / 2))
    if mixingB g (parseRat beta) nsv then "mixing" else "conserved"
  | ["rd", l] => showNats (removeDoubles (parseNats l))
  | ["energy", edges, biases, state] =>
    let g := Sampler.new (parseEdges edges) (parseRats biases) false
    let s := parseBits state
    s!"{showRat (getEnergy g.bm g.biases s)} {showRat (energyEdges g.edges g.biases s)}"
  | _ => "bad-op"

def main : IO Unit := run step
