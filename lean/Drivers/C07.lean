-- C07 shares the C06 driver (`drv_c06`); this target only has to exist and link.
import QmcModel.Worldline
def main : IO Unit := IO.println "use drv_c06"
