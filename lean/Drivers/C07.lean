import QmcModel.Proto
import QmcModel.IsingHam
import QmcModel.Worldline
import QmcModel.Tempering
open Qmc Qmc.Proto

/-- C07 driver for the swap-guard witness (finding F25); every other C07 mode uses `drv_c06`.
Input: `swapwit <call> <ham of a> <ham of b>` (Ising tokens `I!nvars!edges!Γ!h`).
Output: `can:<0|1> can_rev:<0|1> nbonds:<na>,<nb>` — the guard `QmcIsingGraph::can_swap_managers`
as modelled in `QmcModel/Tempering.lean` (`canSwapIsing`, both directions) and the number of bond
types of each sampler in this property's model (`IsingSpec.ham.nbonds`). -/
def toIsingH (s : IsingSpec) : Tempering.IsingH :=
  { edges := s.edges.map (fun e => ([e.1, e.2.1], e.2.2)), gamma := s.gamma, h := s.h, nvars := s.nvars }

def step (toks : List String) : String :=
  match toks with
  | ["swapwit", _call, ta, tb] =>
    match parseIsing ta, parseIsing tb with
    | some a, some b =>
      let c1 := Tempering.canSwapIsing (toIsingH a) (toIsingH b)
      let c2 := Tempering.canSwapIsing (toIsingH b) (toIsingH a)
      s!"can:{showBool c1} can_rev:{showBool c2} nbonds:{a.ham.nbonds},{b.ham.nbonds}"
    | _, _ => "bad-ham"
  | _ => "bad-op"

def main : IO Unit := run step
