import QmcModel.Proto
import QmcModel.Basic
import QmcModel.Rand
import QmcModel.BondContainer
import QmcModel.Rvb
import QmcModel.RvbRegion
import QmcModel.RvbRegionOK
open Qmc Qmc.Proto Qmc.Rvb

/-! Driver for C03: pure helpers + `BondContainer` (mode `helpers`), RVB updates (mode `rvb`:
kind `rvb` = acceptance / move / balance for the traced region, kind `region` = the exact proposal
model `proposeRegion` replayed on the recorded draws; kind `khyp` = the decidable hypotheses of the
kernel theorems on the traced proposal). -/

def showKeys (ks : List (Nat × Rat)) : String :=
  showList (fun kw => s!"{kw.1}:{showRat kw.2}") ks

/-- run a `bc` script: tokens `i<k>:<w>`, `r<k>`, `c`, `g<word>`, `w<k>`, `h<k>` -/
def runBc (ops : List String) : String :=
  let rec go (c : BC) (ops : List String) (acc : List String) : BC × List String :=
    match ops with
    | [] => (c, acc)
    | op :: rest =>
      let body := (op.drop 1).toString
      match op.front with
      | 'i' =>
        match body.splitOn ":" with
        | [k, w] =>
          let (c', new) := c.insert (parseNat k) (parseRat w)
          go c' rest (acc ++ [showBool new])
        | _ => (c, acc ++ ["bad"])
      | 'r' =>
        match c.remove (parseNat body) with
        | some (c', b) => go c' rest (acc ++ [showBool b])
        | none => (c, acc ++ ["P"])
      | 'c' => go c.clear rest (acc ++ ["c"])
      | 'w' =>
        go c rest (acc ++ [match c.getWeight (parseNat body) with | some w => showRat w | none => "N"])
      | 'h' => go c rest (acc ++ [showBool (c.contains (parseNat body))])
      | 'g' =>
        let (r, s) := c.getRandom (RS.ofScript [parseNat body])
        let tok := match r with
          | none => "N"
          | some none => "P"
          | some (some (k, w)) => if s.margin < 1 / 1000000000 then "?" else s!"{k}:{showRat w}"
        go c rest (acc ++ [tok, s!"d{s.draws}"])
      | _ => (c, acc ++ ["bad"])
  let (c, acc) := go BC.empty ops []
  String.intercalate " " (acc ++ [showKeys c.keys, showRat c.total])

def sumR (l : List Rat) : Rat := l.foldl (· + ·) 0

/-! ### rvb mode -/

def parseEdges (s : String) : List (Nat × Nat × Rat) :=
  (parseList id s).filterMap fun tok =>
    match tok.splitOn ":" with
    | [a, b, j] => some (parseNat a, parseNat b, parseRat j)
    | _ => none

def mkMask (nv : Nat) (subvars : List Nat) (start : List Bool) : List Bool := maskOf nv subvars start

/-- membership mask just after slot `p0` (toggles at positions `≤ p0` applied) -/
def maskAfter (slots : Slots) (R : Region) (p0 : Nat) : List Bool :=
  R.toggles.foldl (fun m p =>
    if p ≤ p0 then
      match slots.getD p none with
      | some op => toggleAt m (op.vars.headD 0)
      | none => m
    else m) R.mask0

/-- number of (variable, interval between constant operators) cells inside the region -/
def cellCount (nv : Nat) (slots : Slots) (R : Region) : Nat :=
  (List.range nv).foldl (fun acc v =>
    let cps := constPs slots v
    if cps.isEmpty then (if getB R.mask0 v then acc + 1 else acc)
    else acc + (cps.filter fun p => getB (maskAfter slots R p) v).length) 0

def allB (l : List Bool) : Bool := l.all id

def admissibleB (P : Problem) (a : Assign) : Bool :=
  P.segs.all (fun s => s.bonds.all fun p => decide (0 ≤ p.1) && decide (0 ≤ p.2)) &&
  P.inner.all (fun p => decide (0 ≤ p.1) && decide (0 ≤ p.2)) &&
  P.segs.all (fun s => !(decide (Rvb.absR (s.wBef - s.wAft) < f64eps)) || decide (s.wBef = s.wAft)) &&
  (P.segs.zip a).all (fun sj => sj.2.isEmpty || decide (sj.1.wBef ≠ 0))

def rvbStep (nv edges gamma h state slots subvars start toggles accepted log astate aslots : String) : String :=
  let E : Ising := { nvars := parseNat nv, edges := parseEdges edges, gamma := parseRat gamma, h := parseRat h }
  let b : Config := { state := parseBits state, slots := parseSlots slots }
  let a : Config := { state := parseBits astate, slots := parseSlots aslots }
  let sv := parseNats subvars
  let R : Region := { subvars := sv, mask0 := mkMask E.nvars sv (parseBits start), toggles := parseNats toggles }
  let acc := accepted == "1"
  let words := parseNats log
  let (P, asg, okB) := extract E b R
  let ks := asg.map List.length
  let k : Nat := ks.foldl (fun (x y : Nat) => x + y) 0
  let p := rawMult P ks
  -- the code's value (early exit emulated); without early exit it must be the segment product
  let (pCode, broke) := rvbCodeMult E b R
  let codeOk := broke || decide (pCode = p)
  -- acceptance decision against p and the accept draw
  let len := words.length
  let (accOk, margin) : Bool × Rat :=
    if 1 ≤ pCode then (acc, 1)
    else
      let idx : Int := (len : Int) - 1 - (if acc then (k : Int) else 0)
      if idx < 2 then (false, 1)
      else
        let w := words.getD idx.toNat 0
        let thr : Int := (pCode * (RS.two64 : Rat)).floor
        let d := (w : Rat) / (RS.two64 : Rat) - pCode
        (decide ((w : Int) < thr) == acc, if d < 0 then -d else d)
  -- starting cell, cluster size, number of growth draws
  let cps := (List.range E.nvars).map (constPs b.slots)
  let flat := cps.flatten
  let idle := (List.range E.nvars).filter fun v => (cps.getD v []).isEmpty
  let (choice, rs) := (RS.ofScript words).genRange (flat.length + idle.length)
  let startOk :=
    if choice < flat.length then
      let p0 := flat.getD choice 0
      match b.slots.getD p0 none with
      | some op => getB (maskAfter b.slots R p0) (op.vars.headD 0)
      | none => false
    else getB R.mask0 (idle.getD (choice - flat.length) 0)
  let (ones, rs2) := contiguousBits rs
  let cells := cellCount E.nvars b.slots R
  let growth : Int := (len : Int) - (rs2.draws : Int) - (if 1 ≤ pCode then 0 else 1) - (if acc then (k : Int) else 0)
  let growOk := decide (cells ≤ ones + 1) && decide ((cells : Int) ≤ growth) && decide (growth ≤ 2 * (cells : Int)) &&
    decide (1 ≤ cells)
  -- move relation / nothing changed
  let moveTok := if acc then showBool (isRvbMove E b a R) else "-"
  -- reverse multiplier and exact balance on the pair
  let (P2, asg2, okA) := extract E a R
  let p2Tok := if acc then showApprox (rawMult P2 (asg2.map List.length)) else "-"
  let dbOk :=
    if acc then
      okB && okA && decide (P2 = P.flip) && decide (asg.map List.length = asg2.map List.length) &&
        admissibleB P asg && admissibleB P2 asg2 &&
        decide (weight P asg * transProb P asg asg2 = weight P2 asg2 * transProb P2 asg2 asg)
    else decide (a = b) && (okB || broke)
  -- what the proposal reads is untouched by the update (hypothesis and conclusion of `proposal_symmetric`)
  let skelOk := edgeOpsNotConst E b.slots && decide (Rvb.skeleton E a = Rvb.skeleton E b)
  let verdict := if margin < 1 / 1000000000 then "?" else "ok"
  -- the decidable hypothesis `RegionOK` of the kernel theorems (`ising_timestep_invariant_rvb_cut`) on the
  -- traced region: for the configuration before the update and, if it was applied, the one after
  let rok := regionOKb E b R && (!acc || regionOKb E a R)
  s!"{showApprox pCode} {k} {showBool accOk} {showBool (startOk && growOk)} {moveTok} {p2Tok} {showBool (dbOk && codeOk && skelOk)} {verdict} rok={showBool rok}"

/-- kind `khyp` (same input as `rvb`): the hypotheses of the kernel theorem on this proposal.
Output: `RegionOK before`, `RegionOK after` (`-` if rejected), sweep not abandoned on `before`, on `after` (`-` if
rejected), `moveOKb before after` (`-` if rejected; the decider of `MoveOK`: move relation, Good, RegionOK, no
underflow on both ends). -/
def khypStep (nv edges gamma h state slots subvars start toggles accepted astate aslots : String) : String :=
  let E : Ising := { nvars := parseNat nv, edges := parseEdges edges, gamma := parseRat gamma, h := parseRat h }
  let b : Config := { state := parseBits state, slots := parseSlots slots }
  let a : Config := { state := parseBits astate, slots := parseSlots aslots }
  let sv := parseNats subvars
  let R : Region := { subvars := sv, mask0 := mkMask E.nvars sv (parseBits start), toggles := parseNats toggles }
  let acc := accepted == "1"
  let t := fun (x : Bool) => if acc then showBool x else "-"
  s!"{showBool (regionOKb E b R)} {t (regionOKb E a R)} {showBool (!(rvbCodeMult E b R).2)} {t (!(rvbCodeMult E a R).2)} {t (moveOKb E E.nvars R b a)}"

/-- kind `region`: the exact proposal model on the recorded draws. Output: subvars, starting state,
toggle positions, number of words consumed before the accept draw, status. -/
def regionStep (nv edges slots log : String) : String :=
  let E : Ising := { nvars := parseNat nv, edges := parseEdges edges, gamma := 0, h := 0 }
  let c : Config := { state := [], slots := parseSlots slots }
  let (P, rs) := proposeRegionCfg E c (RS.ofScript (parseNats log))
  let status :=
    if rs.short then "SHORT" else if rs.panicked || P.panic then "PANIC"
    else if rs.margin < 1 / 1000000000 then "?" else "ok"
  -- `RegionOK` of the model's own proposal (= the traced one when the correspondence holds)
  let rok := if status == "ok" || status == "?" then s!" rok={showBool (regionOKb E c (P.region E.nvars))}" else ""
  s!"{showNats P.subvars} {showBits P.start} {showNats P.toggles} {rs.draws} {status}{rok}"

def step (toks : List String) : String :=
  match toks with
  | ["rd", l] => showNats (removeDoubles (parseNats l))
  | ["fos", ps, pe, cutoff, fp] =>
    match findOverlappingStarts (parseNat ps) (parseNat pe) (parseNat cutoff) (parseNats fp) with
    | some l => showNats l
    | none => "P"
  | ["cm", b, a, n] =>
    showApprox (calculateMult (sumR (parseRats b)) (sumR (parseRats a)) (parseNat n))
  | ["cb", w] =>
    let (n, s) := contiguousBits (RS.ofScript [parseNat w])
    s!"{n} {s.draws}"
  | ["bc", ops] => runBc (parseList id ops)
  | ["rvb", nv, edges, gamma, h, state, slots, subvars, start, toggles, accepted, log, astate, aslots] =>
    rvbStep nv edges gamma h state slots subvars start toggles accepted log astate aslots
  | ["region", nv, edges, slots, log] => regionStep nv edges slots log
  | ["khyp", nv, edges, gamma, h, state, slots, subvars, start, toggles, accepted, _log, astate, aslots] =>
    khypStep nv edges gamma h state slots subvars start toggles accepted astate aslots
  | ["ptf", nv, edges, gamma, h, state, slots, subvars, start, toggles] =>
    let E : Ising := { nvars := parseNat nv, edges := parseEdges edges, gamma := parseRat gamma, h := parseRat h }
    let b : Config := { state := parseBits state, slots := parseSlots slots }
    let sv := parseNats subvars
    let R : Region := { subvars := sv, mask0 := mkMask E.nvars sv (parseBits start), toggles := parseNats toggles }
    showApprox (rvbCodeMult E b R).1
  | "pipe" :: _ => "same"
  | "sweepk" :: _ => "same"
  | _ => "bad-op"

def main : IO Unit := run step
