import QmcModel.Proto
import QmcModel.Basic
import QmcModel.Rand
import QmcModel.BondContainer
import QmcModel.Rvb
open Qmc Qmc.Proto Qmc.Rvb

/-! Driver for C03: pure helpers + `BondContainer` (mode `helpers`), RVB updates (mode `rvb`). -/

def showKeys (ks : List (Nat × Rat)) : String :=
  showList (fun kw => s!"{kw.1}:{showRat kw.2}") ks

/-- run a `bc` script: tokens `i<k>:<w>`, `r<k>`, `c`, `g<word>`, `w<k>`, `h<k>` -/
def runBc (ops : List String) : String :=
  let rec go (c : BC) (ops : List String) (acc : List String) : BC × List String :=
    match ops with
    | [] => (c, acc)
    | op :: rest =>
      let body := (op.drop 1).toString
      match op.front with
      | 'i' =>
        match body.splitOn ":" with
        | [k, w] =>
          let (c', new) := c.insert (parseNat k) (parseRat w)
          go c' rest (acc ++ [showBool new])
        | _ => (c, acc ++ ["bad"])
      | 'r' =>
        match c.remove (parseNat body) with
        | some (c', b) => go c' rest (acc ++ [showBool b])
        | none => (c, acc ++ ["P"])
      | 'c' => go c.clear rest (acc ++ ["c"])
      | 'w' =>
        go c rest (acc ++ [match c.getWeight (parseNat body) with | some w => showRat w | none => "N"])
      | 'h' => go c rest (acc ++ [showBool (c.contains (parseNat body))])
      | 'g' =>
        let (r, s) := c.getRandom (RS.ofScript [parseNat body])
        let tok := match r with
          | none => "N"
          | some none => "P"
          | some (some (k, w)) => if s.margin < 1 / 1000000000 then "?" else s!"{k}:{showRat w}"
        go c rest (acc ++ [tok, s!"d{s.draws}"])
      | _ => (c, acc ++ ["bad"])
  let (c, acc) := go BC.empty ops []
  String.intercalate " " (acc ++ [showKeys c.keys, showRat c.total])

def sumR (l : List Rat) : Rat := l.foldl (· + ·) 0

def step (toks : List String) : String :=
  match toks with
  | ["rd", l] => showNats (removeDoubles (parseNats l))
  | ["fos", ps, pe, cutoff, fp] =>
    match findOverlappingStarts (parseNat ps) (parseNat pe) (parseNat cutoff) (parseNats fp) with
    | some l => showNats l
    | none => "P"
  | ["cm", b, a, n] =>
    showApprox (calculateMult (sumR (parseRats b)) (sumR (parseRats a)) (parseNat n))
  | ["cb", w] =>
    let (n, s) := contiguousBits (RS.ofScript [parseNat w])
    s!"{n} {s.draws}"
  | ["bc", ops] => runBc (parseList id ops)
  | _ => "bad-op"

def main : IO Unit := run step
