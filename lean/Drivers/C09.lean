import QmcModel.Proto
import QmcModel.Basic
import QmcModel.Rand
import QmcModel.Cluster
import QmcModel.ClusterExact
open Qmc Qmc.Proto

/-- all bit patterns of length `k` -/
def allBits : Nat → List (List Bool)
  | 0 => [[]]
  | k + 1 => (allBits k).flatMap fun t => [false :: t, true :: t]

/-- the hypotheses of `clusterMove_weight`, checked on a table Hamiltonian for the ops present:
non-edge, non-frozen ops sit on flip-symmetric bonds; edge ops on constant bonds -/
def hypB (H : Ham) (fr : SkOp → Bool) (s : Slots) : Bool :=
  (opsOf s).all fun o =>
    let pats := allBits o.vars.length
    if o.isEdge then
      pats.all fun i => pats.all fun u => H.w o.bond i u == H.w o.bond o.ins o.outs
    else if fr o.sk then true
    else pats.all fun i => pats.all fun u => H.w o.bond (flipBits i) (flipBits u) == H.w o.bond i u

def tagsB : Slots → Slots → Bool
  | some ob :: tb, some oa :: ta => tagRuleB ob oa && tagsB tb ta
  | _ :: tb, _ :: ta => tagsB tb ta
  | _, _ => true

def frOf (frozen : List Nat) : SkOp → Bool := fun o => frozen.contains o.bond

def idleVars (sk : Skel) (n : Nat) : List Nat := (List.range n).filter fun v => !varHasOp sk v

/-- put the idle variables of `a` back to their value in `b` (undo the free-spin refresh) -/
def restoreIdle (sk : Skel) (sb sa : List Bool) : List Bool :=
  (List.range sa.length).map fun v => if varHasOp sk v then sa.getD v false else sb.getD v false

def b2s (b : Bool) : String := if b then "1" else "0"

/-- `move <flip|step> <frozen bonds> <H> <stateB> <slotsB> <stateA> <slotsA> <draws>` →
`<isClusterMove> <numClusters before> <numClusters after> <union of code clusters> <theorem hypotheses hold>
 <weight product equal> <tag rule> <idle refresh as drawn> <flip count consistent with draws> <rng verdict>` -/
def doMove (mode fz h sb slb sa sla dr : String) : String :=
  let fr := frOf (parseNats fz)
  let H := tableHam (parseTableHam h)
  let b : Config := { state := parseBits sb, slots := parseSlots slb }
  let a : Config := { state := parseBits sa, slots := parseSlots sla }
  let draws := parseNats dr
  let sk := skeleton b.slots
  let nIdle := if mode == "step" then (idleVars sk b.state.length).length else 0
  let nCl := draws.length - nIdle
  let rs0 := RS.ofScript draws
  let lab := clusterLabels sk
  let ncl := numClusters sk
  -- cluster draws (threshold ½ each; a cluster of weight 0 still consumes its word)
  let (flips, rs1) := clusterFlips (1 / 2) (List.replicate ncl 1) rs0
  -- free-spin refresh
  let (idleOk, rs2, a0) :=
    if mode == "step" then
      let (st, rs2) := freeRefresh sk 0 a.state rs1
      (st == a.state, rs2, { a with state := restoreIdle sk b.state a.state })
    else (true, rs1, a)
  let d := (legDiff b.slots a.slots).toArray
  let nfl := (flippedClusters lab d).length
  let nfz := (frozenClusters fr sk lab).length
  let acc := (flips.filter id).length
  let cntOk := nCl == ncl && acc ≤ nfl + nfz && nfl ≤ acc && (nfz != 0 || nfl == acc)
  let out := [b2s (isClusterMove fr b a0), toString ncl, toString (numClusters (skeleton a.slots)),
    b2s (unionOfClusters lab d), b2s (hypB H fr b.slots),
    b2s (configWeightProd H a.slots == configWeightProd H b.slots), b2s (tagsB b.slots a.slots),
    b2s idleOk, b2s cntOk, rs2.verdict]
  String.intercalate " " out

/-- `single <frozen bonds> <stateB> <slotsB> <n> <stateA_0> <slotsA_0> …` (draw `i` alone below the
threshold) → `bij <#clusters that can flip> <#clusters of weight 0>` when every result flips exactly
one distinct cluster or nothing, the number of results is `numClusters`, and the silent draws are as
many as the clusters of weight 0; `bad:<why>` otherwise. -/
def doSingle (fz sb slb : String) (n : Nat) (rest : List String) : String :=
  let fr := frOf (parseNats fz)
  let b : Config := { state := parseBits sb, slots := parseSlots slb }
  let sk := skeleton b.slots
  let lab := clusterLabels sk
  let ncl := numClusters sk
  let nfz := (frozenClusters fr sk lab).length
  let rec go (rest : List String) (fuel : Nat) (seen : List Nat) (silent : Nat) : String :=
    match fuel, rest with
    | _, [] =>
      if seen.length + silent != ncl then s!"bad:count{seen.length}+{silent}/{ncl}"
      else if silent != nfz then s!"bad:silent{silent}/frozen{nfz}"
      else s!"bij {seen.length} {silent}"
    | fuel + 1, sa :: sla :: t =>
      let a : Config := { state := parseBits sa, slots := parseSlots sla }
      if !isClusterMove fr b a then "bad:notmove"
      else
        let d := (legDiff b.slots a.slots).toArray
        if !unionOfClusters lab d then "bad:notunion"
        else match flippedClusters lab d with
          | [] => go t fuel seen (silent + 1)
          | [c] =>
            if seen.contains c then "bad:twice"
            else if (frozenClusters fr sk lab).contains c then "bad:frozenflipped"
            else go t fuel (c :: seen) silent
          | _ => "bad:several"
    | _, _ => "bad:parse"
  if rest.length != 2 * n then "bad:arity" else go rest (n + 1) [] 0

/-- do the traversal's own boundary labels (cluster numbers per op side) name the components of the
representatives, and do distinct cluster numbers name distinct components? -/
def travAgrees (sk : Skel) (tr : TravResult) : Bool :=
  let g := legGraph sk
  let lab := compLab sk
  if tr.count == 0 then g.opsAt.isEmpty
  else if tr.whole then !tr.bad && tr.count == 1
  else
    let reps := tr.reps.toArray
    let labs := tr.reps.map fun r => lab[r]!
    let ps := (List.range sk.length).filter fun p => match sk[p]? with | some (some _) => true | _ => false
    !tr.bad && tr.count == reps.size && labs.eraseDups.length == labs.length && ps.length == g.opsAt.length &&
    (ps.zip g.opsAt).all fun (p, (off, o)) =>
      match tr.bin[p]!, tr.bout[p]! with
      | some a, some b =>
        a < reps.size && b < reps.size && lab[off]! == lab[reps[a]!]! &&
          lab[off + 2 * o.vars.length - 1]! == lab[reps[b]!]!
      | _, _ => false

/-- `exact <flip|step> <frozen bonds> <stateB> <slotsB> <draws>` → the exact model `clusterUpdate`
(followed by the free-spin refresh for `step`): `<stateA> <slotsA> <returned count> <rng verdict>
<traversal labels = components>` — compared token by token with what the real code produced -/
def doExact (mode fz sb slb dr : String) : String :=
  let fr := frOf (parseNats fz)
  let b : Config := { state := parseBits sb, slots := parseSlots slb }
  let rs0 := RS.ofScript (parseNats dr)
  let (tr, a, rs1) := clusterUpdateTrace (1 / 2) fr b rs0
  let sk := skeleton b.slots
  let (st, rs2) := if mode == "step" then freeRefresh sk 0 a.state rs1 else (a.state, rs1)
  let v := if tr.trav.bad then "PANIC" else rs2.verdict
  s!"{showBits st} {showSlots a.slots} {tr.trav.count} {v} {b2s (travAgrees sk tr.trav)}"

/-- `gate <F|D>:<vars>:<matrix> …` (the terms registered on a generic `Qmc`, in the order they were added) →
`<should_do_cluster_update> <cluster_update is Ok>` as the gate theorem `Qmc.C04.cluster_gate` states them:
`should` ⇔ every term is symmetric under the global flip ∧ some term is a constant full matrix on one variable;
`cluster_update` runs ⇔ every term is symmetric — independent of the order of the terms. (The harness uses the
`_and_offset` constructors only where the diagonal shift cannot change either classification.) -/
def doGate (terms : List String) : String :=
  let parsed : List (Bool × List Nat × List Rat) := terms.filterMap fun t =>
    match t.splitOn ":" with
    | [k, vs, m] => some (k == "F", parseNats vs, parseRats m)
    | _ => none
  let symm (m : List Rat) : Bool :=
    let a := m.toArray
    (List.range a.size).all fun i => a[i]! == a[a.size - 1 - i]!
  let allSym := parsed.all fun (_, _, m) => symm m
  let anyEdge := parsed.any fun (full, vs, m) =>
    full && vs.length == 1 && (match m with | [] => false | x :: t => t.all (· == x))
  if parsed.length != terms.length then "bad:parse"
  else s!"{b2s (allSym && anyEdge)} {b2s allSym}"

def step (toks : List String) : String :=
  match toks with
  | "gate" :: terms => doGate terms
  | ["exact", mode, fz, sb, slb, dr] => doExact mode fz sb slb dr
  | ["move", mode, fz, h, sb, slb, sa, sla, dr] => doMove mode fz h sb slb sa sla dr
  | "single" :: fz :: sb :: slb :: n :: rest => doSingle fz sb slb (parseNat n) rest
  -- two real code paths compared with each other (timestep vs its parts); nothing for the model to add
  | "lock" :: _ => "same"
  -- strings of more than 65 536 slots, several updates on one container: real code against the Rust oracle only
  | "large" :: _ => "same"
  | _ => "bad-op"

def main : IO Unit := run step
