import QmcModel.Proto
import QmcModel.Basic
import QmcModel.Rand
import QmcModel.Diagonal
import QmcModel.HeatBath
open Qmc Qmc.Proto

/-
C08 driver (the step function lives in QmcModel/HeatBath.lean, `Proto.diagStep`, shared with C02). Kinds:
  msweep <ham> <beta> <cutoff> <state> <slots> <script>            → <slots'> <state'> <verdict>
  hsweep <ham> <table> <beta> <cutoff> <state> <slots> <script>    → <slots'> <state'> <verdict>
  bw <ham>                                                         → <maxw list> <cumulative list>
  mprob <ham> <beta> <cutoff> <state> <slots> <script> <k> <b>     → <n_k> ~pick ~accIns ~accRem
  hprob <ham> <table> <beta> <cutoff> <state> <slots> <script> <k> <b> → <n_k> ~attempt ~pick ~accept ~remove
-/

def step (toks : List String) : String := (diagStep toks).getD "bad-op"

def main : IO Unit := run step
