import QmcModel.Proto
import QmcModel.Basic
import QmcModel.Rand
import QmcModel.Diagonal
import QmcModel.HeatBath
open Qmc Qmc.Proto

/-
C08 driver. Kinds:
  msweep <ham> <beta> <cutoff> <state> <slots> <script>            → <slots'> <state'> <verdict>
  hsweep <ham> <table> <beta> <cutoff> <state> <slots> <script>    → <slots'> <state'> <verdict>
  bw <ham>                                                         → <maxw list> <cumulative list>
  mprob <ham> <beta> <cutoff> <state> <slots> <script> <k> <b>     → <n_k> ~pick ~accIns ~accRem
  hprob <ham> <table> <beta> <cutoff> <state> <slots> <script> <k> <b> → <n_k> ~attempt ~pick ~accept ~remove
-/

def showRes (c : Config) (rs : RS) : String :=
  s!"{showSlots c.slots} {showBits c.state} {rs.verdict}"

def step (toks : List String) : String :=
  match toks with
  | ["msweep", ham, beta, cutoff, state, slots, script] =>
    let H := tableHam (parseTableHam ham)
    let c : Config := { state := parseBits state, slots := parseSlots slots }
    let (c', rs) := metropolisSweep H (parseRat beta) (parseNat cutoff) c (RS.ofScript (parseNats script))
    showRes c' rs
  | ["hsweep", ham, table, beta, cutoff, state, slots, script] =>
    let H := tableHam (parseTableHam ham)
    let bw : BW := parseRats table
    let c : Config := { state := parseBits state, slots := parseSlots slots }
    let (c', rs) := heatBathSweep H bw (parseRat beta) (parseNat cutoff) c (RS.ofScript (parseNats script))
    showRes c' rs
  | ["bw", ham] =>
    let H := tableHam (parseTableHam ham)
    let bw := makeBondWeights H
    s!"{showRats bw} {showRats (cumul bw)}"
  | ["mprob", ham, beta, cutoff, state, slots, script, k, b] =>
    let H := tableHam (parseTableHam ham)
    let β := parseRat beta
    let L := parseNat cutoff
    let c : Config := { state := parseBits state, slots := parseSlots slots }
    let (_, st, n, rs) := sweepPrefix (metropolisSlot H β L) L (parseNat k) c (RS.ofScript (parseNats script))
    let bond := parseNat b
    let sub := readVars st (H.vars bond)
    let w := H.w bond sub sub
    if rs.panicked || rs.short then "PANIC" else
    if rs.margin < 1 / 1000000000 then "?" else
    s!"{n} {showApprox (1 / (H.nbonds : Rat))} {showApprox (accInsM β H.nbonds w L n)} {showApprox (accRemM β H.nbonds w L (n + 1))}"
  | ["hprob", ham, table, beta, cutoff, state, slots, script, k, b] =>
    let H := tableHam (parseTableHam ham)
    let bw : BW := parseRats table
    let β := parseRat beta
    let L := parseNat cutoff
    let c : Config := { state := parseBits state, slots := parseSlots slots }
    let (_, st, n, rs) := sweepPrefix (heatBathSlot H bw β L) L (parseNat k) c (RS.ofScript (parseNats script))
    let bond := parseNat b
    let sub := readVars st (H.vars bond)
    let w := H.w bond sub sub
    let W := (bwTotal bw).getD 0
    let mw := bw.getD bond 0
    let acc : Rat := if mw = 0 then 0 else clip1 (w / mw)
    if rs.panicked || rs.short then "PANIC" else
    if rs.margin < 1 / 1000000000 then "?" else
    s!"{n} {showApprox (β * W / (((L - n : Nat) : Rat) + β * W))} {showApprox (mw / W)} {showApprox acc} {showApprox (pRemoveHB β W L (n + 1))}"
  | _ => "bad-op"

def main : IO Unit := run step
