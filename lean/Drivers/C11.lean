/-
C11 driver (stateful): keeps the model container `c` (field-for-field `FastOps`) and,
independently, the naive slot array `s`.  `new`/`install` lines reset both; every other line is one
public mutation, replayed through `applyC` on `c` and through `applyA` on `s`.
Answer per line (12 tokens): the model's private pointer tables (T1–T6, from `c`), every getter
computed by DIRECT SCANS of `s` (T7–T10), the cursor produced by the model's `fill_args_at_p`
walk on `c` at the queried positions (T11), and `inv1` iff `c = canon (abs c)`, `abs c = s` and
every queried cursor equals the scan cursor (T12).
-/
import QmcModel.Proto
import QmcModel.Basic
import QmcModel.FastOps
import QmcModel.FastOpsHintDriver
open Qmc Qmc.Proto

structure St where
  c : FastOps
  s : Slots
  /-- the last line was rejected by the model (`new_from_ops` on a malformed list: `panic`) -/
  bad : Bool := false

def optNat : Option Nat → String
  | some x => toString x
  | none => "_"

def optRel : Option PRel → String
  | some r => s!"{r.p}.{r.relv}"
  | none => "_"

def joinOr (sep : String) (xs : List String) : String :=
  if xs.isEmpty then "-" else String.intercalate sep xs

def showNode (p : Nat) (prev next : Option Nat) (prevs nexts : List (Option PRel)) : String :=
  s!"{p}/{optNat prev}/{optNat next}/{joinOr ";" (prevs.map optRel)}/{joinOr ";" (nexts.map optRel)}"

def parseAct (tok : String) : Option (Option Op) :=
  if tok == "k" then none
  else if tok == "r" then some none
  else some (parseOp tok)

def parseActs (tok : String) : List (Option (Option Op)) :=
  if tok == "-" || tok == "" then [] else (tok.splitOn "+").map parseAct

def parseQ (tok : String) : List Nat :=
  match tok.splitOn "=" with
  | [_, l] => parseNats l
  | _ => []

def showCursor (p : Nat) (a : Cursor) : String :=
  let items := (a.lastVars.zip a.lastRels).map fun (lv, lr) =>
    match lv, lr with
    | none, none => "_"
    | _, _ => s!"{optNat lv}.{optNat lr}"
  s!"{p}/{optNat a.lastP}/{joinOr "," items}/{a.unfilled}"

def describe (st : St) (qs : List Nat) : String :=
  let c := st.c
  let s := st.s
  let nv := c.varEnds.length
  let nb := c.bondCounters.map List.length
  let L := s.length
  -- T1–T6: the model container's private fields
  let t1 := showSlots c.abs
  let t2 := s!"n{c.n}"
  let t3 := match c.pEnds with | some (h, t) => s!"pe:{h}.{t}" | none => "pe:_"
  let t4 := "ve:" ++ joinOr "," (c.varEnds.map fun e =>
    match e with
    | some (h, t) => s!"{h.p}.{h.relv}.{t.p}.{t.relv}"
    | none => "_")
  let t5 := match c.bondCounters with
    | none => "bc:N"
    | some l => "bc:" ++ joinOr "," (l.map toString)
  let t6 := "nd:" ++ joinOr "+" (c.ops.zipIdx.filterMap fun (o, p) =>
    o.map fun nd => showNode p nd.previousP nd.nextP nd.previousForVars nd.nextForVars)
  -- T7–T10: getters by direct scans of the naive slot array
  let counts := (List.range 8).map fun b => toString (countBond s b)
  let t7 := s!"g:{countOps s}/{optNat (firstOcc (occAt s) L)}/{optNat (lastOcc (occAt s) L)}/{String.intercalate "," counts}"
  let t8 := "gv:" ++ joinOr "," ((List.range nv).map fun v =>
    let has := (List.range L).any (occVAt s v)
    s!"{optRel (firstRel s v)}/{optRel (lastRel s v)}/{showBool has}")
  let t9 := "gn:" ++ joinOr "+" ((List.range L).filterMap fun q =>
    (slotAt s q).map fun op =>
      showNode q (prevOcc (occAt s) q) (nextOcc (occAt s) L q)
        (op.vars.map fun v => prevRel s v q) (op.vars.map fun v => nextRel s v q))
  let t10 := "nth:" ++ joinOr "," ((occPositions s).map toString)
  -- T11: the model's cursor walk
  let curs := qs.map fun p => (p, c.fillArgsAtP p c.getEmptyArgsAll)
  let t11 := "cu:" ++ joinOr "+" (curs.map fun (p, a) => showCursor p a)
  -- by-variable accessors and range iteration, by direct scans
  let showBV : Option (Option PRel) → String := fun x =>
    match x with
    | none => "E"
    | some y => optRel y
  let tbv := "bv:" ++ joinOr "+" ((List.range L).filterMap fun q =>
    (slotAt s q).map fun op =>
      let es := (List.range nv).map fun v =>
        if op.vars.contains v then s!"{showBV (some (prevRel s v q))}:{showBV (some (nextRel s v q))}"
        else "E:E"
      s!"{q}/{joinOr "," es}")
  let ra := qs.foldl min (qs.headD 0)
  let rb := if qs.isEmpty then L else qs.foldl max 0
  let l1 := ((List.range L).filter fun p => occAt s p && decide (ra ≤ p) && decide (p ≤ rb)).map toString
  let l2 := (List.range' ra (min rb L - ra)).map fun p => occAt s p
  let tit := s!"it:{ra}.{rb}/{joinOr "," l1}/{showBits l2}"
  -- T14
  let okCanon := decide (c = canon nv nb c.abs)
  let okAbs := decide (c.abs = s)
  let okCur := curs.all fun (p, a) => decide (a = cursorByScan nv s p a.unfilled)
  let okBV := (List.range L).all fun q =>
    match c.getNode q with
    | none => true
    | some nd => (List.range nv).all fun v =>
        let want (x : Option PRel) : Option (Option PRel) := if nd.op.vars.contains v then some x else none
        decide (FastOps.getPreviousPForVar v nd = want (prevRel s v q)) &&
        decide (FastOps.getNextPForVar v nd = want (nextRel s v q))
  let t12 := if okCanon && okAbs && okCur && okBV then "inv1"
    else s!"inv0[canon={okCanon},abs={okAbs},cursor={okCur},byvar={okBV}]"
  String.intercalate " " [t1, t2, t3, t4, t5, t6, t7, t8, t9, t10, t11, tbv, tit, t12]

def occupiedList (s : Slots) : List (Nat × Op) :=
  s.zipIdx.filterMap fun (o, p) => o.map fun op => (p, op)

/-- naive sub-variable `mutate_subsection_ops`: occupied slots in `ps..=pe` sharing a variable with `vars` -/
def subOpsA (s : Slots) (vars : List Nat) (ps pe : Nat) (acts : List (Option (Option Op))) : Slots :=
  let s := growA s pe
  (List.range' ps (pe + 1 - ps)).foldl (fun s p =>
    match slotAt s p with
    | some op => if op.vars.any (vars.contains ·) then writeA s p (acts.getD (p - ps) none) else s
    | none => s) s

/-- the cursor handed to `mutate_subsection*(…, Some(args))`:
`vars` = `*` (SubvarAccess::All) or a variable list (Varlist); `hints` = `N` (get_empty_args +
fill_args_at_p, the MODEL'S WALK), `A` (additionally through SubvarAccess::Args), or a hint list
(fill_args_at_p_with_hint, scan specification). -/
def subCursor (c : FastOps) (varsT hints : String) (ps : Nat) : Cursor :=
  let empty := if varsT == "*" then c.getEmptyArgsAll else c.getEmptyArgsVarlist (parseNats varsT)
  if hints == "N" then c.fillArgsAtP ps empty
  else if hints == "A" then c.fillArgsAtP ps (c.getEmptyArgsFromArgs empty)
  else c.fillArgsWithHintSpec ps empty (parseNats varsT)

def stepSt (st : St) (toks : List String) : St :=
  let nv := st.c.varEnds.length
  let nb := st.c.bondCounters.map List.length
  match toks with
  | ["new", _, nvars, nbt, _] =>
    let nb := if nbt == "-" then none else some (parseNat nbt)
    { c := FastOps.new (parseNat nvars) nb, s := [] }
  | ["install", _, nvars, slots, _] =>
    let s := parseSlots slots
    let l := occupiedList s
    { c := FastOps.newFromOps (parseNat nvars) l, s := if l.isEmpty then [] else s }
  | ["installx", _, nvars, lst, _] =>
    -- explicit (possibly malformed) list in LIST order: `p@op+p@op…` or `-`
    let l : List (Nat × Op) := if lst == "-" then [] else
      (lst.splitOn "+").filterMap fun tok =>
        match tok.splitOn "@" with
        | [p, o] => (parseOp o).map fun op => (parseNat p, op)
        | _ => none
    match FastOps.newFromOpsChecked (parseNat nvars) l with
    | some c =>
      let len := if l.isEmpty then 0 else (l.map (·.1)).foldl max 0 + 1
      let s0 : Slots := List.replicate len none
      { c := c, s := l.foldl (fun s po => s.set po.1 (some po.2)) s0 }
    | none => { c := FastOps.new 0 none, s := [], bad := true }
  | ["cutoff", _, k, _] =>
    let m : Mut Nat := .setCutoff (parseNat k)
    { c := applyC st.c m, s := applyA nv nb st.s m }
  | ["set", _, p, act, _] =>
    match parseAct act with
    | some new =>
      let m : Mut Nat := .setSlot (parseNat p) new
      { c := applyC st.c m, s := applyA nv nb st.s m }
    | none => st
  | ["ps", _, ps, pe, acts, _] =>
    let acts := parseActs acts
    let m : Mut Nat := .sweep (parseNat ps) (parseNat pe) (fun _ _ i => (acts.getD i none, i + 1)) 0
    { c := applyC st.c m, s := applyA nv nb st.s m }
  | ["ops", _, ps, pe, acts, _] =>
    let acts := parseActs acts
    let ps := parseNat ps
    let m : Mut Nat := .sweepOps ps (parseNat pe) (fun _ _ p t => (acts.getD (p - ps) none, t)) 0
    { c := applyC st.c m, s := applyA nv nb st.s m }
  | ["subps", _, varsT, hints, ps, pe, acts, _] =>
    let acts := parseActs acts
    let ps := parseNat ps
    let pe := parseNat pe
    let f : FastOps → Option Op → Nat → Option (Option Op) × Nat := fun _ _ i => (acts.getD i none, i + 1)
    if hints == "N" || hints == "A" then
      -- the public non-hint sequence = constructor `sweepArgs` of the mutation language (refine_step)
      let src : ArgSrc := if varsT == "*" then .all else .varlist (parseNats varsT)
      let m : Mut Nat := .sweepArgs src (hints == "A") ps pe f 0
      { c := applyC st.c m, s := applyA nv nb st.s m }
    else
    let a := subCursor st.c varsT hints ps
    let c := (st.c.mutateSubsection ps pe (0 : Nat) f (some a)).1
    let m : Mut Nat := .sweep ps pe f 0
    { c := c, s := applyA nv nb st.s m }
  | ["subops", _, varsT, hints, ps, pe, acts, _] =>
    let acts := parseActs acts
    let ps := parseNat ps
    let pe := parseNat pe
    let f : FastOps → Op → Nat → Nat → Option (Option Op) × Nat := fun _ _ p t => (acts.getD (p - ps) none, t)
    if varsT == "*" then
      let m : Mut Nat := .sweepOpsArgsAll (hints == "A") ps pe f 0
      { c := applyC st.c m, s := applyA nv nb st.s m }
    else
    let a := subCursor st.c varsT hints ps
    let c := (st.c.mutateSubsectionOps ps pe (0 : Nat) f (some a)).1
    let sA := if varsT == "*" then applyA nv nb st.s (.sweepOps ps pe f 0 : Mut Nat)
      else subOpsA st.s (parseNats varsT) ps pe acts
    { c := c, s := sA }
  | _ => st

partial def loop (h : IO.FS.Stream) (st : St) : IO Unit := do
  let line ← h.getLine
  if line.isEmpty then return ()
  let toks := tokens line
  if Qmc.C11H.handles (toks.headD "") then
    -- hint fills / propagated substate / read-only iterators / heap-branch sweeps (stateless kinds, QmcModel/FastOpsHintDriver.lean)
    IO.println (Qmc.C11H.step line)
    loop h st
  else
  let st' := stepSt st toks
  let qs := match toks.getLast? with | some q => parseQ q | none => []
  IO.println (if st'.bad then "panic" else describe st' qs)
  loop h st'

def main : IO Unit := do
  let stdin ← IO.getStdin
  loop stdin { c := FastOps.new 0 none, s := [] }
