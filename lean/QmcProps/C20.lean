/-
C20 — Autocorrelation helpers compute the documented normalised autocorrelation.

Property theorems only (helper lemmas: QmcProofs/Autocorr.lean; model: QmcModel/Autocorr.lean).
Quantifiers: every series length, every number of observables ≥ 1, every rational value pattern whose
columns are non-constant, every stepper / mapper / sampling period ≥ 1.  PARTIAL: the theorems are
about the exact-arithmetic formula the Rust code implements through an FFT; the FFT route itself
(rustfft, f64 rounding, Wiener–Khinchin) is only compared numerically at run time (1e-9).
-/
import QmcProofs.Autocorr
import QmcProps.C17

namespace Qmc.C20

/-- a series with two different entries -/
def NonConst (xs : List Rat) : Prop := ∃ a ∈ xs, ∃ b ∈ xs, a ≠ b

/-- one output entry per recorded sample -/
theorem autocorr_length (samples : List (List Rat)) : (autocorr samples).length = samples.length := by
  simp [autocorr]

theorem autocorr_getElem? (samples : List (List Rat)) (t : Nat) (ht : t < samples.length) :
    (autocorr samples)[t]? =
      some (((List.range (nObs samples)).map fun i => colAutocorr (column samples i) t).sum / (nObs samples : Rat)) := by
  unfold autocorr
  rw [List.getElem?_map, List.getElem?_range ht]
  rfl

/-- the lag-`t` entry is the average over observables of
`Σ_s y[s]·y[(s+t) mod T] / Σ_s y[s]²`, `y` the mean-removed column: the circular autocorrelation
written with explicit indices -/
theorem colAutocorr_formula (xs : List Rat) (t : Nat) (ht : t ≤ xs.length) :
    colAutocorr xs t =
      ((List.range xs.length).map fun s =>
          (center xs).getD s 0 * (center xs).getD ((s + t) % xs.length) 0).sum /
        ((List.range xs.length).map fun s => (center xs).getD s 0 * (center xs).getD s 0).sum := by
  have key : ∀ (a b : List Rat), a.length = b.length →
      dot a b = ((List.range a.length).map fun s => a.getD s 0 * b.getD s 0).sum := by
    intro a
    induction a with
    | nil => intro b _; simp [dot]
    | cons x a ih =>
      intro b hb
      cases b with
      | nil => simp at hb
      | cons y b =>
        have hb' : a.length = b.length := by simpa using hb
        rw [dot_cons, ih b hb', List.length_cons, List.range_succ_eq_map]
        simp [Function.comp_def]
  unfold colAutocorr
  have hl := length_center xs
  rw [key _ _ (length_rot (center xs) t).symm, key _ _ rfl, hl]
  congr 2
  apply List.map_congr_left
  intro s hs
  have hs' : s < (center xs).length := by rw [hl]; exact List.mem_range.mp hs
  rw [rot_getD (center xs) t s (by rw [hl]; exact ht) hs', hl]

/-- lag 0 is exactly 1 whenever there is at least one observable and every column is non-constant -/
theorem autocorr_lag_zero (samples : List (List Rat)) (hn : 0 < nObs samples)
    (hnc : ∀ i, i < nObs samples → NonConst (column samples i)) :
    (autocorr samples)[0]? = some 1 := by
  have hT : 0 < samples.length := by
    obtain ⟨a, ha, _⟩ := hnc 0 hn
    have : 0 < (column samples 0).length := List.length_pos_of_mem ha
    simpa [column] using this
  rw [autocorr_getElem? samples 0 hT]
  have e : ((List.range (nObs samples)).map fun i => colAutocorr (column samples i) 0) =
      (List.range (nObs samples)).map fun _ => (1 : Rat) := by
    apply List.map_congr_left
    intro i hi
    exact colAutocorr_zero (dot_center_ne_zero (hnc i (List.mem_range.mp hi)))
  rw [e, sum_map_const_one, List.length_range]
  have : ((nObs samples : Nat) : Rat) ≠ 0 := by exact_mod_cast (Nat.pos_iff_ne_zero.mp hn)
  rw [div_self this]

/-- with non-constant columns the f64 code divides by a non-zero norm everywhere (no NaN) -/
theorem autocorr_defined (samples : List (List Rat)) (hn : 0 < nObs samples)
    (hnc : ∀ i, i < nObs samples → NonConst (column samples i)) : autocorrDefined samples = true := by
  unfold autocorrDefined
  simp only [Bool.and_eq_true, decide_eq_true_eq, List.all_eq_true, List.mem_range]
  exact ⟨hn, fun i hi => dot_center_ne_zero (hnc i hi)⟩

/-- circular symmetry: `r[t] = r[T − t]` -/
theorem autocorr_symm (samples : List (List Rat)) (t : Nat) (h0 : 0 < t) (ht : t < samples.length) :
    (autocorr samples)[t]? = (autocorr samples)[samples.length - t]? := by
  rw [autocorr_getElem? samples t ht, autocorr_getElem? samples (samples.length - t) (by omega)]
  congr 3
  apply List.map_congr_left
  intro i _
  have := colAutocorr_symm (column samples i) t (by simp [column]; omega)
  simpa [column] using this

/-- invariance under a per-observable shift and non-zero (in particular positive) rescaling:
replacing every sample row `x` by `(a_i·x_i + c_i)_i` leaves the result unchanged -/
theorem autocorr_affine_invariant (samples : List (List Rat)) (a c : Nat → Rat) (ha : ∀ i, a i ≠ 0)
    (hrect : ∀ row ∈ samples, row.length = nObs samples) :
    autocorr (samples.map fun row => row.mapIdx fun i x => a i * x + c i) = autocorr samples := by
  have hn : nObs (samples.map fun row => row.mapIdx fun i x => a i * x + c i) = nObs samples := by
    unfold nObs; cases samples <;> simp
  have hcol : ∀ i, i < nObs samples →
      column (samples.map fun row => row.mapIdx fun i x => a i * x + c i) i =
        (column samples i).map fun x => a i * x + c i := by
    intro i hi
    unfold column
    rw [List.map_map, List.map_map]
    apply List.map_congr_left
    intro row hrow
    have hlen : i < row.length := by rw [hrect row hrow]; exact hi
    simp [List.getD_eq_getElem?_getD, List.getElem?_mapIdx, List.getElem?_eq_getElem hlen]
  unfold autocorr
  rw [hn, List.length_map]
  apply List.map_congr_left
  intro t _
  congr 2
  apply List.map_congr_left
  intro i hi
  rw [hcol i (List.mem_range.mp hi), colAutocorr_affine (a i) (c i) (ha i)]

/-- the samples fed to the autocorrelation are exactly those the measuring loop delivers (C17):
the states after steps `f, 2f, …, ⌊T/f⌋·f`, mapped with the sampler in its final state -/
theorem calc_autocorr_samples {σ : Type} (step : σ → σ) (n : σ → Nat) (view : σ → List Bool)
    (mapper : σ → List Bool → List Rat) {f : Nat} (hf : 0 < f) (T : Nat) (s0 : σ) :
    calcAutocorr step n view mapper T f s0 =
      autocorr ((List.range (T / f)).map fun k => mapper (iter step T s0) (view (iter step ((k + 1) * f) s0))) := by
  unfold calcAutocorr calcSamples
  simp only
  rw [C17.measure_fold_calls step n view hf, (C17.measure_count step n (pushFold view) hf T s0 []).2, List.map_map]
  rfl

/-- hence one output entry per sampling point -/
theorem calc_autocorr_length {σ : Type} (step : σ → σ) (n : σ → Nat) (view : σ → List Bool)
    (mapper : σ → List Bool → List Rat) {f : Nat} (hf : 0 < f) (T : Nat) (s0 : σ) :
    (calcAutocorr step n view mapper T f s0).length = T / f := by
  rw [calc_autocorr_samples step n view mapper hf, autocorr_length]; simp

/-! ### spin products are literal list products -/

/-- the order in which the variables of a product are listed does not matter -/
theorem spinProd_perm (state : List Bool) {a b : List Nat} (h : a.Perm b) : spinProd state a = spinProd state b := by
  induction h with
  | nil => rfl
  | cons x _ ih => rw [spinProd_cons, spinProd_cons, ih]
  | swap x y l => rw [spinProd_cons, spinProd_cons, spinProd_cons, spinProd_cons]; ring
  | trans _ _ ih1 ih2 => rw [ih1, ih2]

/-- every listed index multiplies once, so a pair of equal indices cancels (s² = 1): removing the pair leaves the
product unchanged — and removing a single copy (what a `dedup` does) does not, see the example below -/
theorem spinProd_remove_pair (state : List Bool) (a b c : List Nat) (v : Nat) :
    spinProd state (a ++ v :: b ++ v :: c) = spinProd state (a ++ b ++ c) := by
  have e : a ++ v :: b ++ v :: c = a ++ ([v] ++ b) ++ ([v] ++ c) := by simp
  rw [e]
  simp only [spinProd_append, spinProd_cons, spinProd_nil]
  have := spinVal_sq (state.getD v false)
  calc spinProd state a * (spinVal (state.getD v false) * 1 * spinProd state b) *
          (spinVal (state.getD v false) * 1 * spinProd state c)
      = (spinVal (state.getD v false) * spinVal (state.getD v false)) *
          (spinProd state a * spinProd state b * spinProd state c) := by ring
    _ = spinProd state a * spinProd state b * spinProd state c := by rw [this]; ring

/-- the observable row of the spin-product helper is the list of these literal products -/
theorem prodMapper_literal (prods : List (List Nat)) (state : List Bool) :
    prodMapper prods state = prods.map (spinProd state) := prodMapper_eq prods state

/-- `[0,1,1,2]` is `s0·s2`, not `s0·s1·s2`: dropping one of two equal indices changes the observable -/
example : spinProd [true, false, true] [0, 1, 1, 2] = 1 ∧ spinProd [true, false, true] [0, 1, 2] = -1 := by
  constructor <;> norm_num [spinProd, spinVal]

/-! ### non-vacuity -/

def demo : List (List Rat) := [[1, 2], [-1, 0], [1, 5]]

example : 0 < nObs demo := by decide

example : ∀ i, i < nObs demo → NonConst (column demo i) := by
  intro i hi
  have : i = 0 ∨ i = 1 := by have : nObs demo = 2 := rfl; omega
  rcases this with h | h <;> subst h
  · exact ⟨1, by simp [column, demo], -1, by simp [column, demo], by norm_num⟩
  · exact ⟨2, by simp [column, demo], 0, by simp [column, demo], by norm_num⟩

example : ∀ row ∈ demo, row.length = nObs demo := by
  intro row h
  simp [demo] at h
  rcases h with h | h | h <;> subst h <;> rfl

/-- a constant column is outside the quantifier: the norm vanishes (the f64 code returns NaN) -/
example : dot (center [3, 3, 3]) (center [3, 3, 3]) = 0 := by
  norm_num [center, mean, dot]

end Qmc.C20
