/-
C02 capstone + limit — "enabling the heat-bath diagonal update … still converges to the exact thermal values of the
same Hamiltonian".

The invariant measure of the `timestep` kernel WITH the heat-bath diagonal sweep (table `makeBondWeights`, the one
`set_enable_heatbath(true)` builds; `Kernel.ising_timestep_invariant_cut_hb`) is the SAME measure
`π_L = sseCutOn s.spec.ham β (cfgSpace s.spec.ham nvars L)` as without heat bath; only the invariance conjunct of
`C01.ising_capstone_limit` changes.  `ising_capstone_limit_hb`: for every `L` the heat-bath kernel leaves `π_L` invariant,
and along `L → ∞` the normalised state marginal, the total mass and the energy estimator of `π_L` tend to the diagonal of
`e^{−βH}/Tr e^{−βH}`, `e^{βC} Tr e^{−βH}` and `Tr(H e^{−βH})/Tr e^{−βH}` (`C01.ising_marginal_tendsto`,
`ising_partition_tendsto`, `ising_energy_tendsto`; `H = isingMatrix`, real-cast; `e^X = NormedSpace.exp X`).

Hypotheses: those of `C01.ising_capstone_limit` plus `0 < (makeBondWeights s.spec.ham).sum` (the table total, as in every
heat-bath kernel theorem).  NOT claimed: ergodicity, convergence of the chain, uniqueness of the invariant measure,
sampler-as-distribution = kernel (see QmcProps/C01Capstone.lean).
-/
import QmcProps.C01Limit

open BigOperators Finset Filter Topology

namespace Qmc.C02
open Qmc Qmc.Kernel Qmc.Dist Qmc.Marginal Qmc.SSEConfig Qmc.C01

/-- **C02 capstone with the limit: heat-bath diagonal update.** -/
theorem ising_capstone_limit_hb (s : Sampler.IsingSampler) [DecidablePred (Good s.spec.ham)]
    (hv : s.spec.Valid) (hg : 0 ≤ s.spec.gamma) (hf : FieldOK s.spec) (β : ℚ) (hβ : 0 < β)
    (hW : 0 < (makeBondWeights s.spec.ham).sum) :
    (∀ L : ℕ, Invariant (sseCutOn s.spec.ham β (cfgSpace s.spec.ham s.spec.nvars L))
        (timestepKHB s.spec.ham (makeBondWeights s.spec.ham) β
          (ClusterFamily.ofComponents (fun o => s.frozenBond o.bond) s.spec.ham s.spec.nvars L
            (s.spec.hamWF hv)) L s.spec.nvars)) ∧
    (∀ α : St s.spec.nvars, Tendsto (fun L : ℕ =>
        ((∑ c : (cfgSpace s.spec.ham s.spec.nvars L : Finset Config),
            (if c.1.state = α.1 then sseCutOn s.spec.ham β (cfgSpace s.spec.ham s.spec.nvars L) c else 0) : ℚ) : ℝ)
        / ((∑ c : (cfgSpace s.spec.ham s.spec.nvars L : Finset Config),
            sseCutOn s.spec.ham β (cfgSpace s.spec.ham s.spec.nvars L) c : ℚ) : ℝ)) atTop
      (𝓝 ((NormedSpace.exp (-((β : ℝ) • (isingMatrix s.spec).map ((↑) : ℚ → ℝ)))) α α
        / Matrix.trace (NormedSpace.exp (-((β : ℝ) • (isingMatrix s.spec).map ((↑) : ℚ → ℝ))))))) ∧
    Tendsto (fun L : ℕ =>
        ((∑ c : (cfgSpace s.spec.ham s.spec.nvars L : Finset Config),
            sseCutOn s.spec.ham β (cfgSpace s.spec.ham s.spec.nvars L) c : ℚ) : ℝ)) atTop
      (𝓝 (Real.exp ((β : ℝ) * (isingOffset s.spec : ℝ))
        * Matrix.trace (NormedSpace.exp (-((β : ℝ) • (isingMatrix s.spec).map ((↑) : ℚ → ℝ)))))) ∧
    Tendsto (fun L : ℕ =>
        (isingOffset s.spec : ℝ)
          - ((∑ c : (cfgSpace s.spec.ham s.spec.nvars L : Finset Config),
                (countOps c.1.slots : ℚ) * sseCutOn s.spec.ham β (cfgSpace s.spec.ham s.spec.nvars L) c : ℚ) : ℝ)
            / ((∑ c : (cfgSpace s.spec.ham s.spec.nvars L : Finset Config),
                sseCutOn s.spec.ham β (cfgSpace s.spec.ham s.spec.nvars L) c : ℚ) : ℝ) / (β : ℝ)) atTop
      (𝓝 (Matrix.trace ((isingMatrix s.spec).map ((↑) : ℚ → ℝ)
            * NormedSpace.exp (-((β : ℝ) • (isingMatrix s.spec).map ((↑) : ℚ → ℝ))))
        / Matrix.trace (NormedSpace.exp (-((β : ℝ) • (isingMatrix s.spec).map ((↑) : ℚ → ℝ)))))) :=
  ⟨fun L => ising_timestep_invariant_cut_hb s hv hg β hβ L hW,
   fun α => ising_marginal_tendsto s.spec hv hg hf β α,
   ising_partition_tendsto s.spec hv hg hf β,
   ising_energy_tendsto s.spec hv hg hf β hβ.ne'⟩

/-! ### non-vacuity: the two-spin antiferromagnet `samp2` of C01Capstone.lean, `β = 3/2` -/

namespace Example
open Qmc.C01.Example

/-- the heat-bath table of `spec2` has positive total -/
theorem spec2_table_pos : 0 < (makeBondWeights spec2.ham).sum := by decide +kernel

example := ising_capstone_limit_hb samp2 spec2_valid (by norm_num [samp2, spec2]) spec2_fieldOK (3 / 2) (by norm_num)
  spec2_table_pos

end Example

end Qmc.C02
