/-
C04, row mass of the fuel-truncated directed-loop kernel `LoopC.loopKn w n` (the finite path sum
over closed loops of at most `n` vertex visits, QmcProofs/LoopKernel.lean) and its limit.

Headline theorems only; the machinery is in QmcProofs/LoopKernelMass.lean (ℚ) and
QmcProofs/LoopKernelMassLimit.lean (ℝ). `w ≥ 0` throughout (a sign-problem-free Hamiltonian).

* `LoopC.Mass.rowMass w n c`  = probability that the loop from `c` closes within `n` visits,
* `LoopC.Mass.openMass w n c` = probability that it has not closed within `n` visits
  (defined by the one-visit recursion of the walk, NOT as `1 − rowMass`),
* `LoopC.Mass.reach n c`      = the finite set of configurations `loopKn w n c ·` charges,
* `LoopC.Mass.Kinf w c c'`    = `sup_n loopKn w n c c'` in ℝ, `rowInf` its total row mass,
  `openInf` = `inf_n openMass`.
-/
import QmcProps.C04
import QmcProofs.LoopKernelMass
import QmcProofs.LoopKernelMassLimit

namespace Qmc.C04
open Qmc

/-! ### (a) signs and monotonicity in the fuel -/

/-- Every entry of the truncated loop kernel is non-negative. -/
theorem loopKn_nonneg (w : Nat → List Bool → List Bool → Rat) (hW : ∀ b i o, 0 ≤ w b i o)
    (n : Nat) (c c' : Config) : 0 ≤ LoopC.loopKn w n c c' :=
  LoopC.Mass.loopKn_nonneg w hW n c c'

/-- **Monotone in the fuel**: allowing more vertex visits only adds closed loops. -/
theorem loopKn_mono (w : Nat → List Bool → List Bool → Rat) (hW : ∀ b i o, 0 ≤ w b i o)
    {n m : Nat} (h : n ≤ m) (c c' : Config) : LoopC.loopKn w n c c' ≤ LoopC.loopKn w m c c' :=
  LoopC.Mass.loopKn_mono_le w hW h c c'

/-- The open-walk mass is a probability and antitone in the fuel. -/
theorem loop_open_mass_antitone (w : Nat → List Bool → List Bool → Rat) (hW : ∀ b i o, 0 ≤ w b i o)
    {n m : Nat} (h : n ≤ m) (c : Config) :
    0 ≤ LoopC.Mass.openMass w m c ∧ LoopC.Mass.openMass w m c ≤ LoopC.Mass.openMass w n c ∧
      LoopC.Mass.openMass w n c ≤ 1 := by
  refine ⟨LoopC.Mass.openMass_nonneg w hW m c, LoopC.Mass.openMass_anti_le w hW h c, ?_⟩
  have h1 := LoopC.Mass.rowMass_add_open_le w hW n c
  have h2 : 0 ≤ LoopC.Mass.rowMass w n c :=
    LoopC.Mass.rowVal_nonneg w hW _ (fun _ => zero_le_one) n c
  linarith

/-! ### (b) sub-stochastic, with exact accounting of the missing mass -/

/-- **The truncated loop kernel is sub-stochastic**: from EVERY configuration (legal or not) the
mass it sends into any finite set of configurations is at most 1. -/
theorem loopKn_row_le_one (w : Nat → List Bool → List Bool → Rat) (hW : ∀ b i o, 0 ≤ w b i o)
    (n : Nat) (c : Config) (S : Finset Config) : ∑ c' ∈ S, LoopC.loopKn w n c c' ≤ 1 :=
  LoopC.Mass.sum_loopKn_le_one w hW n c S

/-- **Exact accounting of one walk**: from an existing head `(pos, ent)` on a configuration whose
stored matrix elements are positive, `P(closed within n visits) + P(still open after n visits) = 1`
(local normalisation of the exit choice, vertex by vertex). -/
theorem loop_walk_closed_add_open (w : Nat → List Bool → List Bool → Rat) (hW : ∀ b i o, 0 ≤ w b i o)
    (init : Nat × Leg) (n pos : Nat) (ent : Leg) (c : Config)
    (hh : LoopC.HeadOK c.slots pos ent) (hl : LegalSlots w c.slots) :
    LoopC.Mass.walkVal w (fun _ => 1) init n pos ent c + LoopC.Mass.openFrom w init n pos ent c = 1 :=
  LoopC.Mass.closed_add_open w hW init n pos ent c ⟨hh, hl⟩

/-- **Exact accounting of the row**: on a configuration with positive stored matrix elements (and
at least one leg if it has operators), the truncated kernel summed over the configurations it
reaches — or any finite superset — plus the open-walk mass is exactly 1:
`Σ_{c'} K_n(c, c') = 1 − P(the loop from c needs more than n visits)`. -/
theorem loopKn_row_add_open (w : Nat → List Bool → List Bool → Rat) (hW : ∀ b i o, 0 ≤ w b i o)
    (n : Nat) (c : Config) (hl : LegalSlots w c.slots)
    (hT : countOps c.slots ≠ 0 → totalVars c.slots ≠ 0)
    (S : Finset Config) (hS : LoopC.Mass.reach n c ⊆ S) :
    ∑ c' ∈ S, LoopC.loopKn w n c c' + LoopC.Mass.openMass w n c = 1 := by
  rw [LoopC.Mass.sum_loopKn_reach w n c S hS]
  exact LoopC.Mass.rowMass_add_open w hW n c hl hT

/-- The leg hypothesis of `loopKn_row_add_open` holds when every operator has a variable. -/
theorem loop_some_leg_exists (s : Slots) (hv : ∀ o, some o ∈ s → o.vars ≠ [])
    (hn : countOps s ≠ 0) : totalVars s ≠ 0 :=
  LoopC.Mass.totalVars_ne_zero s hv hn

/-- **Sub-invariance of the true SSE measure** `π = configWeight·1_Good` under the truncated loop
kernel (β ≥ 0): the flow into `b` from any finite set is at most `π(b)` —
`loop_kernel_flow_truncated` with the row mass now bounded. -/
theorem loop_kernel_subinvariant_truncated (H : Ham) [DecidablePred (Good H)] (β : Rat)
    (hβ : 0 ≤ β) (hw : ∀ b i o, 0 ≤ H.w b i o) (n : Nat) (S : Finset Config) (b : Config) :
    ∑ a ∈ S, Qmc.Kernel.cutTo (Good H) (configWeight H β) a * LoopC.loopKn H.w n a b ≤
      Qmc.Kernel.cutTo (Good H) (configWeight H β) b :=
  LoopC.Mass.loopKn_subinvariant_cut H β hβ hw n S b

/-- **… and its exact defect**: over the configurations a Good `b` reaches (or any finite
superset) the flow into `b` is `π(b)·(1 − P(the loop from b needs more than n visits))`. -/
theorem loop_kernel_flow_defect_truncated (H : Ham) [DecidablePred (Good H)] (β : Rat)
    (hw : ∀ b i o, 0 ≤ H.w b i o) (n : Nat) (b : Config) (hb : Good H b)
    (hT : countOps b.slots ≠ 0 → totalVars b.slots ≠ 0) (S : Finset Config)
    (hS : LoopC.Mass.reach n b ⊆ S) :
    ∑ a ∈ S, Qmc.Kernel.cutTo (Good H) (configWeight H β) a * LoopC.loopKn H.w n a b =
      Qmc.Kernel.cutTo (Good H) (configWeight H β) b * (1 - LoopC.Mass.openMass H.w n b) :=
  LoopC.Mass.loopKn_flow_exact_cut H β hw n b hb hT S hS

/-! ### (c) the limit kernel -/

/-- **The limit kernel exists**: the truncated entries (monotone, bounded by 1) converge to their
supremum `Kinf w c c'`, which they never exceed. -/
theorem loop_kernel_limit_exists (w : Nat → List Bool → List Bool → Rat) (hW : ∀ b i o, 0 ≤ w b i o)
    (c c' : Config) :
    Filter.Tendsto (fun n : ℕ => ((LoopC.loopKn w n c c' : ℚ) : ℝ)) Filter.atTop
        (nhds (LoopC.Mass.Kinf w c c')) ∧
      (∀ n : ℕ, ((LoopC.loopKn w n c c' : ℚ) : ℝ) ≤ LoopC.Mass.Kinf w c c') ∧
      0 ≤ LoopC.Mass.Kinf w c c' :=
  ⟨LoopC.Mass.tendsto_loopKn w hW c c', fun n => LoopC.Mass.loopKn_le_Kinf w hW n c c',
    LoopC.Mass.Kinf_nonneg w hW c c'⟩

/-- **The limit kernel is reversible** w.r.t. the product of the stored matrix elements on
well-formed, canonically tagged, periodic configurations … -/
theorem loop_kernel_limit_reversible (w : Nat → List Bool → List Bool → Rat)
    (hW : ∀ b i o, 0 ≤ w b i o) (c c' : Config) (hg : LoopC.GoodL c) (hg' : LoopC.GoodL c') :
    ((LoopC.slotsWeight w c.slots : ℚ) : ℝ) * LoopC.Mass.Kinf w c c' =
      ((LoopC.slotsWeight w c'.slots : ℚ) : ℝ) * LoopC.Mass.Kinf w c' c :=
  LoopC.Mass.Kinf_reversible w hW c c' hg hg'

/-- … **and w.r.t. the true SSE measure** `configWeight·1_Good` on ALL configurations. -/
theorem loop_kernel_limit_reversible_cut (H : Ham) [DecidablePred (Good H)] (β : ℚ)
    (hw : ∀ b i o, 0 ≤ H.w b i o) (a b : Config) :
    ((Qmc.Kernel.cutTo (Good H) (configWeight H β) a : ℚ) : ℝ) * LoopC.Mass.Kinf H.w a b =
      ((Qmc.Kernel.cutTo (Good H) (configWeight H β) b : ℚ) : ℝ) * LoopC.Mass.Kinf H.w b a :=
  LoopC.Mass.Kinf_reversible_cut H β hw a b

/-- **The limit kernel is sub-stochastic.** -/
theorem loop_kernel_limit_row_le_one (w : Nat → List Bool → List Bool → Rat)
    (hW : ∀ b i o, 0 ≤ w b i o) (c : Config) (S : Finset Config) :
    ∑ c' ∈ S, LoopC.Mass.Kinf w c c' ≤ 1 :=
  LoopC.Mass.Kinf_row_le_one w hW c S

/-- **Row mass of the limit kernel** = `1 − lim_n P(still open after n visits)`; the open-walk
mass converges (antitone, bounded below) to `openInf`. -/
theorem loop_kernel_limit_row_mass (w : Nat → List Bool → List Bool → Rat)
    (hW : ∀ b i o, 0 ≤ w b i o) (c : Config) (hl : LegalSlots w c.slots)
    (hT : countOps c.slots ≠ 0 → totalVars c.slots ≠ 0) :
    LoopC.Mass.rowInf w c = 1 - LoopC.Mass.openInf w c ∧
      Filter.Tendsto (fun n : ℕ => ((LoopC.Mass.openMass w n c : ℚ) : ℝ)) Filter.atTop
        (nhds (LoopC.Mass.openInf w c)) ∧ 0 ≤ LoopC.Mass.openInf w c :=
  ⟨LoopC.Mass.rowInf_eq w hW c hl hT, LoopC.Mass.tendsto_openMass w hW c,
    LoopC.Mass.openInf_nonneg w hW c⟩

/-- **The limit kernel is stochastic iff the walk closes with probability 1**
(`openMass n → 0`). -/
theorem loop_kernel_limit_stochastic_iff (w : Nat → List Bool → List Bool → Rat)
    (hW : ∀ b i o, 0 ≤ w b i o) (c : Config) (hl : LegalSlots w c.slots)
    (hT : countOps c.slots ≠ 0 → totalVars c.slots ≠ 0) :
    LoopC.Mass.rowInf w c = 1 ↔
      Filter.Tendsto (fun n : ℕ => ((LoopC.Mass.openMass w n c : ℚ) : ℝ)) Filter.atTop (nhds 0) :=
  LoopC.Mass.rowInf_eq_one_iff w hW c hl hT

/-! ### (d) a sufficient condition for termination with probability 1 -/

/-- **Geometric decay under a uniform closing probability (Doeblin condition).** `I init` is a set
of walk states (head + configuration) that contains the start, consists of live states (head
exists, stored matrix elements positive) and is closed under continuing steps through exits of
positive weight. If from every state in it the walk closes within `M` visits with probability
`≥ δ`, then `P(not closed within k·M visits) ≤ (1 − δ)^k`. -/
theorem loop_open_mass_geometric (w : Nat → List Bool → List Bool → Rat) (hW : ∀ b i o, 0 ≤ w b i o)
    (c : Config) (I : Nat × Leg → Nat → Leg → Config → Prop) (M : Nat) (δ : Rat) (hδ : δ ≤ 1)
    (hstart : ∀ init ∈ LoopC.startLegs c.slots, I init init.1 init.2 c)
    (hlive : ∀ init pos ent c', I init pos ent c' → LoopC.Mass.Live w pos ent c')
    (hstep : ∀ init pos ent c' op ex c1 p e, I init pos ent c' → c'.slots[pos]? = some (some op) →
      0 < exitWeight (w op.bond) (op.ins, op.outs) ent ex →
      LoopC.stepEx init pos ent c' ex = some (c1, some (p, e)) → I init p e c1)
    (hD : ∀ init pos ent c', I init pos ent c' →
      δ ≤ LoopC.Mass.walkVal w (fun _ => 1) init M pos ent c')
    (k : Nat) : LoopC.Mass.openMass w (k * M) c ≤ (1 - δ) ^ k :=
  LoopC.Mass.openMass_geometric w hW c I M δ hδ hstart hlive hstep hD k

/-- **One-visit criterion**: if at every live head over the skeleton of `c` some exit closes the
loop (it is the start leg, or linked to it) and is chosen with probability `≥ δ`, then
`P(not closed within k visits) ≤ (1 − δ)^k`. -/
theorem loop_open_mass_geometric_one_visit (w : Nat → List Bool → List Bool → Rat)
    (hW : ∀ b i o, 0 ≤ w b i o) (c : Config) (hl : LegalSlots w c.slots) (δ : Rat) (hδ : δ ≤ 1)
    (hex : ∀ init pos ent c' op, LoopC.Mass.OnSkel w c.slots init pos ent c' →
      c'.slots[pos]? = some (some op) →
      ∃ ex, ex.rel < op.vars.length ∧
        ((pos, ex) = init ∨ LoopC.partnerOf c.slots pos op ex = some init) ∧
        δ ≤ exitProb (w op.bond) (op.ins, op.outs) ent ex op.vars.length)
    (k : Nat) : LoopC.Mass.openMass w k c ≤ (1 - δ) ^ k :=
  LoopC.Mass.openMass_geometric_one_visit w hW c hl δ hδ hex k

/-- **A geometric bound makes the limit kernel stochastic.** -/
theorem loop_kernel_limit_stochastic_of_geometric (w : Nat → List Bool → List Bool → Rat)
    (hW : ∀ b i o, 0 ≤ w b i o) (c : Config) (hl : LegalSlots w c.slots)
    (hT : countOps c.slots ≠ 0 → totalVars c.slots ≠ 0) (M : ℕ) (δ : ℚ) (hδ0 : 0 < δ) (hδ1 : δ ≤ 1)
    (hgeo : ∀ k : ℕ, LoopC.Mass.openMass w (k * M) c ≤ (1 - δ) ^ k) :
    LoopC.Mass.rowInf w c = 1 :=
  (LoopC.Mass.rowInf_eq_one_iff w hW c hl hT).mpr
    (LoopC.Mass.tendsto_openMass_zero_of_geometric w hW c M δ hδ0 hδ1 hgeo)

/-! ### non-vacuity: the two-op world line `wlCfg` of QmcProps/C04.lean (all weights 1) -/

/-- the hypotheses of `loopKn_row_add_open` hold for `wlCfg`, and the masses are not trivial:
within one visit half of the loops have closed, within two visits three quarters -/
example : (∀ b i o, 0 ≤ wlW b i o) ∧ LegalSlots wlW wlCfg.slots ∧
    (countOps wlCfg.slots ≠ 0 → totalVars wlCfg.slots ≠ 0) ∧
    LoopC.Mass.rowMass wlW 1 wlCfg = 1 / 2 ∧ LoopC.Mass.openMass wlW 1 wlCfg = 1 / 2 ∧
    LoopC.Mass.rowMass wlW 2 wlCfg = 3 / 4 ∧ LoopC.Mass.openMass wlW 2 wlCfg = 1 / 4 := by
  refine ⟨fun _ _ _ => by simp [wlW], fun o _ => by simp [wlW], fun _ => by decide, ?_, ?_, ?_, ?_⟩ <;>
    decide +kernel

/-- … and the one-visit criterion holds for it with `δ = 1/2`: at either op both exits have
probability `1/2` and exactly one of them closes the loop (the start leg and its link partner sit
on different ops). So `P(not closed within k visits) ≤ 2^-k` — walks of every length exist — and
the limit kernel is stochastic on `wlCfg`. -/
example : (∀ k : ℕ, LoopC.Mass.openMass wlW k wlCfg ≤ (1 / 2) ^ k) ∧
    LoopC.Mass.rowInf wlW wlCfg = 1 := by
  have hW : ∀ b i o, 0 ≤ wlW b i o := fun _ _ _ => by simp [wlW]
  have hl : LegalSlots wlW wlCfg.slots := fun o _ => by simp [wlW]
  have hp : ∀ (b : Nat) (io : List Bool × List Bool) (ent ex : Leg), exitProb (wlW b) io ent ex 1 = 1 / 2 := by
    intro b io ent ex
    simp [exitProb, exitWeight, exitWeights, legsOf, wlW, sumR]
    norm_num
  have key : ∀ pos < 2, ∀ ip < 2, ∀ b : Bool, ∃ ex ∈ legsOf 1,
      (pos, ex) = (ip, (⟨0, b⟩ : Leg)) ∨
        LoopC.partnerOf wlCfg.slots pos (wlOp false) ex = some (ip, ⟨0, b⟩) := by decide
  have hslot : ∀ (p : Nat) (o : Op), wlCfg.slots[p]? = some (some o) → p < 2 ∧ o.vars = [0] := by
    intro p o h
    match p, h with
    | 0, h => simp [wlCfg] at h; subst h; exact ⟨by omega, rfl⟩
    | 1, h => simp [wlCfg] at h; subst h; exact ⟨by omega, rfl⟩
    | p + 2, h => simp [wlCfg] at h
  have hgeo : ∀ k : ℕ, LoopC.Mass.openMass wlW k wlCfg ≤ (1 - 1 / 2) ^ k := by
    intro k
    apply loop_open_mass_geometric_one_visit wlW hW wlCfg hl (1 / 2) (by norm_num)
    intro init pos ent c' op hI hop
    obtain ⟨hsk, _, o1, ho1, hr1⟩ := hI
    obtain ⟨o0, ho0, hv0⟩ := LoopC.skeleton_op hsk hop
    obtain ⟨hpos, hvars⟩ := hslot pos o0 ho0
    obtain ⟨hip, hvars1⟩ := hslot init.1 o1 ho1
    have hopv : op.vars = [0] := by rw [← hv0]; exact hvars
    obtain ⟨ip, ⟨ir, ib⟩⟩ := init
    have hir : ir = 0 := by
      simp only [hvars1, List.length_singleton] at hr1; omega
    subst hir
    obtain ⟨ex, hex, hcl⟩ := key pos hpos ip hip ib
    refine ⟨ex, by rw [hopv]; exact (mem_legsOf 1 ex).mp hex, ?_, ?_⟩
    · rw [LoopC.partnerOf_vars_congr wlCfg.slots pos op (wlOp false) ex (by rw [hopv]; rfl)]
      exact hcl
    · rw [hopv]; exact le_of_eq (hp _ _ _ _).symm
  have h12 : (1 : ℚ) - 1 / 2 = 1 / 2 := by norm_num
  refine ⟨fun k => by have := hgeo k; rwa [h12] at this, ?_⟩
  exact loop_kernel_limit_stochastic_of_geometric wlW hW wlCfg hl (fun _ => by decide) 1 (1 / 2)
    (by norm_num) (by norm_num) (fun k => by rw [Nat.mul_one]; exact hgeo k)

end Qmc.C04
