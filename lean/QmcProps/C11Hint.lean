/-
C11 — hint-based fills and read-only iterators of the optimized container agree with a scan of the slots.

Model: QmcModel/FastOpsHint.lean (transliterations of `fill_args_at_p_with_hint`,
`get_propagated_substate_with_hint`, `p_crosses`, `try_iterate_ps`, `try_iterate_ops`, `iterate_ps`,
`iterate_ops`; every Rust panic is the explicit result `none`).  Proofs: QmcProofs/FastOpsHint.lean,
QmcProofs/FastOpsHintIter.lean.  `Inv c` is C11's representation invariant (`c = canon … (abs c)` and the
slots are well formed), established for every container reachable through the public mutations by
`Qmc.C11.refine_seq_new` (QmcProps/C11.lean).

THE CONTRACT ON THE HINT (`HintOK s vars hint`): as many hints as variables, and every `Some(ph)` is a slot
holding an op that contains the corresponding variable (rvb.rs passes `boundary_tops`: positions of
constant ops ON the variable, or `None`).  The hint may lie before, at or after `p`.  Inside the contract
the result does not depend on the hint at all (`hint_fill_hint_irrelevant`,
`propagated_substate_hint_irrelevant`); outside it the code panics (empty slot, op without the variable,
hint beyond the array) or silently leaves entries unfilled (fewer hints than variables) — `example`s below.

Also here: the HEAP branch of `mutate_subsection_ops` under a sub-variable cursor (RVB's form;
QmcProofs/FastOpsSubOps.lean): `sub_ops_heap_refines`, and RVB's whole sequence `hint_fill_then_sub_ops`.

All theorems are unbounded (any cutoff, any number of variables, any op contents, any hint inside the
contract, any callback for the iterators / the sweep).
-/
import QmcProofs.FastOpsHintIter
import QmcProofs.FastOpsSubOps
import QmcProofs.FastOpsHintRecycle
import QmcProofs.FastOpsCounters

namespace Qmc.C11
open Qmc Qmc.FastOps

/-! ## `fill_args_at_p_with_hint` -/

/-- On a container satisfying the invariant, `fill_args_at_p_with_hint(p, args, vars, hint)` on ANY
incoming args of the right shape: does not panic; `last_p` = last occupied slot strictly before `p`; entry
`i` of `last_vars`/`last_rels` = last op strictly before `p` touching `vars[i]` (with its relative index)
whenever such an op exists or an op on `vars[i]` sits at `p`, and is left as it was otherwise
(`hintEntry`) — for every hint inside the contract. -/
theorem hint_fill_general (c : FastOps) (h : Inv c) (p : Nat) (a : Cursor) (vars : List Nat)
    (hint : List (Option Nat)) (hp : p ≤ c.getCutoff) (hlt : ∀ v ∈ vars, v < c.getNvars)
    (hok : HintOK c.abs vars hint) (hlV : a.lastVars.length = vars.length)
    (hlR : a.lastRels.length = vars.length) :
    c.fillArgsWithHint p a vars hint = some (hintCursor c.abs p vars a) := by
  have hL : p ≤ c.abs.length := by simpa [getCutoff, FastOps.abs] using hp
  have key := fillArgsWithHint_canon c.getNvars c.nbonds c.abs p a vars hint hL hlt hok hlV hlR
  exact (congrArg (fun c' : FastOps => c'.fillArgsWithHint p a vars hint) h.1).trans key

/-- The sequence rvb.rs runs — `get_empty_args(Varlist(vars))` then `fill_args_at_p_with_hint` — yields
exactly the scan cursor of the listed variables: for every listed variable the last operator strictly
before `p` touching it (position and relative index), `last_p` the last occupied slot before `p`. -/
theorem hint_fill_eq_scan (c : FastOps) (h : Inv c) (p : Nat) (vars : List Nat) (hint : List (Option Nat))
    (hp : p ≤ c.getCutoff) (hlt : ∀ v ∈ vars, v < c.getNvars) (hok : HintOK c.abs vars hint) :
    c.fillArgsWithHint p (c.getEmptyArgsVarlist vars) vars hint
      = some (scanCursor c.abs p vars (c.getEmptyArgsVarlist vars)) := by
  rw [hint_fill_general c h p _ vars hint hp hlt hok (by simp [getEmptyArgsVarlist])
    (by simp [getEmptyArgsVarlist])]
  rw [hintCursor_fresh c.abs p vars _ rfl rfl]

/-- The result is independent of the hint as long as it is inside the contract (in particular the
all-`None` hint gives the same cursor). -/
theorem hint_fill_hint_irrelevant (c : FastOps) (h : Inv c) (p : Nat) (a : Cursor) (vars : List Nat)
    (hint hint' : List (Option Nat)) (hp : p ≤ c.getCutoff) (hlt : ∀ v ∈ vars, v < c.getNvars)
    (hok : HintOK c.abs vars hint) (hok' : HintOK c.abs vars hint')
    (hlV : a.lastVars.length = vars.length) (hlR : a.lastRels.length = vars.length) :
    c.fillArgsWithHint p a vars hint = c.fillArgsWithHint p a vars hint' := by
  rw [hint_fill_general c h p a vars hint hp hlt hok hlV hlR,
    hint_fill_general c h p a vars hint' hp hlt hok' hlV hlR]

/-- In the vocabulary of the sub-variable sweeps (`SubCur`, the precondition of
`mutate_p_sub_refines`): the hint fill builds a correct Varlist cursor at `p`, with `unfilled` = number of
listed variables with ops — and, unlike the non-hint fill, without the boundary condition `hdom`. -/
theorem hint_fill_is_subcursor (c : FastOps) (h : Inv c) (p : Nat) (vars : List Nat)
    (hint : List (Option Nat)) (hp : p ≤ c.getCutoff) (hn : vars.Nodup) (hlt : ∀ v ∈ vars, v < c.getNvars)
    (hok : HintOK c.abs vars hint) :
    ∃ a', c.fillArgsWithHint p (c.getEmptyArgsVarlist vars) vars hint = some a' ∧
      SubCur a' vars c.abs p ∧ a'.unfilled = (vars.filter (hasOpsV c.abs)).length := by
  have hL : p ≤ c.abs.length := by simpa [getCutoff, FastOps.abs] using hp
  obtain ⟨a', h1, h2, h3⟩ := fillArgsWithHint_subCur c.getNvars c.nbonds c.abs p vars hint hL hn hlt hok
  refine ⟨a', ?_, h2, h3⟩
  exact (congrArg (fun c' : FastOps => c'.fillArgsWithHint p (c'.getEmptyArgsVarlist vars) vars hint) h.1).trans h1

/-- Where the NON-hint fill is specified (`hdom` of `sub_cursor_correct`), both fills build the same
cursor, up to the bookkeeping counter `unfilled` which only the non-hint walk decrements. -/
theorem hint_fill_eq_nohint_fill (c : FastOps) (h : Inv c) (p : Nat) (vars : List Nat)
    (hint : List (Option Nat)) (hp : p ≤ c.getCutoff) (hn : vars.Nodup) (hlt : ∀ v ∈ vars, v < c.getNvars)
    (hok : HintOK c.abs vars hint)
    (hdom : (∃ v, v ∈ vars ∧ hasOpsV c.abs v = true) ∨ prevOcc (occAt c.abs) p = none) :
    c.fillArgsWithHint p (c.getEmptyArgsVarlist vars) vars hint = some
      { c.fillArgsAtP p (c.getEmptyArgsVarlist vars) with unfilled := (c.getEmptyArgsVarlist vars).unfilled } := by
  have hL : p ≤ c.abs.length := by simpa [getCutoff, FastOps.abs] using hp
  have key := fillArgsWithHint_eq_nohint c.getNvars c.nbonds c.abs p h.2 vars hint hL hn hlt hok hdom
  have e := congrArg (fun c' : FastOps =>
    (c'.fillArgsWithHint p (c'.getEmptyArgsVarlist vars) vars hint,
     ({ c'.fillArgsAtP p (c'.getEmptyArgsVarlist vars) with unfilled := (c'.getEmptyArgsVarlist vars).unfilled } : Cursor))) h.1
  simp only [Prod.mk.injEq] at e
  rw [e.1, e.2]
  exact key

/-- The scan specification `fillArgsWithHintSpec` of QmcModel/FastOps.lean — what `drv_c11` hands to the
sub-sweeps whose cursor comes from the hint fill — is what the transliterated walk computes. -/
theorem hint_fill_eq_model_spec (c : FastOps) (h : Inv c) (p : Nat) (vars : List Nat)
    (hint : List (Option Nat)) (hp : p ≤ c.getCutoff) (hlt : ∀ v ∈ vars, v < c.getNvars)
    (hok : HintOK c.abs vars hint) :
    c.fillArgsWithHint p (c.getEmptyArgsVarlist vars) vars hint
      = some (c.fillArgsWithHintSpec p (c.getEmptyArgsVarlist vars) vars) := by
  rw [hint_fill_eq_scan c h p vars hint hp hlt hok]
  have key := fillArgsWithHintSpec_canon c.getNvars c.nbonds c.abs p (c.getEmptyArgsVarlist vars) vars rfl rfl
  have e := congrArg (fun c' : FastOps => c'.fillArgsWithHintSpec p (c.getEmptyArgsVarlist vars) vars) h.1
  exact congrArg some (e.trans key).symm

/-- The loop of `iter_and_set` needs no invariant to terminate: on ANY container `p + 1` units of fuel
(what the model hands in) are never exhausted — more fuel gives the same answer. -/
theorem hint_walk_terminates (c : FastOps) (p var pc rv fuel : Nat) (hf : p - pc < fuel) :
    c.hintWalk p var (p + 1) pc rv = c.hintWalk p var fuel pc rv :=
  hintWalk_fuel c p var (p + 1) fuel pc rv (by omega) hf

/-! ## `get_propagated_substate_with_hint` -/

/-- What the CODE computes, for arbitrary (also inconsistent) worldlines and every hint inside the
contract: no panic, and entry `i` is `subCode … vars[i] p` — the input of the op at `p` when that op is
the first on the variable; else the `p = 0` value when no op precedes `p` or the last op before `p` is the
last op of the variable; else the output of the last op before `p`. -/
theorem propagated_substate_code (c : FastOps) (h : Inv c) (hio : IOLen c.abs) (p : Nat)
    (sub state : List Bool) (vars : List Nat) (hint : List (Option Nat))
    (hlt : ∀ v ∈ vars, v < c.getNvars) (hst : ∀ v ∈ vars, v < state.length)
    (hok : HintOK c.abs vars hint) (hsl : sub.length = vars.length) :
    ∃ bs, c.propagatedSubstate p sub state vars hint = some bs ∧
      bs.map some = vars.map (fun v => subCode c.abs state v p) := by
  obtain ⟨bs, h1, h2⟩ := propagatedSubstate_canon c.getNvars c.nbonds c.abs p hio sub state vars hint hlt hst hok hsl
  exact ⟨bs, (congrArg (fun c' : FastOps => c'.propagatedSubstate p sub state vars hint) h.1).trans h1, h2⟩

/-- Under the two worldline conditions (E)/(W) at `p` (`SubstateOK`), the answer is the propagated state:
entry `i` = output of the last op strictly before `p` touching `vars[i]`, or `state[vars[i]]` if none. -/
theorem propagated_substate_eq_scan (c : FastOps) (h : Inv c) (hio : IOLen c.abs) (p : Nat)
    (sub state : List Bool) (vars : List Nat) (hint : List (Option Nat))
    (hlt : ∀ v ∈ vars, v < c.getNvars) (hst : ∀ v ∈ vars, v < state.length)
    (hok : HintOK c.abs vars hint) (hsl : sub.length = vars.length)
    (hew : SubstateOK c.abs state vars p) :
    ∃ bs, c.propagatedSubstate p sub state vars hint = some bs ∧
      bs.map some = vars.map (fun v => subAt c.abs state v p) := by
  obtain ⟨bs, h1, h2⟩ := propagated_substate_code c h hio p sub state vars hint hlt hst hok hsl
  refine ⟨bs, h1, ?_⟩
  rw [h2]
  apply List.map_congr_left
  intro v hv
  exact subCode_eq_subAt c.abs state v p (hew v hv).1 (hew v hv).2

/-- `subAt` IS the propagation: the `p = 0` state pushed through all ops before `p` (outputs written in
slot order, as `itime_fold` does), read at the variable. -/
theorem subAt_is_propagation (c : FastOps) (h : Inv c) (hio : IOLen c.abs) (state : List Bool) (v : Nat)
    (hv : v < state.length) (p : Nat) :
    (pushOps state (c.abs.take p))[v]? = subAt c.abs state v p :=
  subAt_eq_pushOps c.getNvars c.nbonds c.abs h.2 hio state v hv p

/-- For a container that passes `OpContainer::verify(state)` (what the samplers maintain): at EVERY `p`
and for every hint inside the contract, `get_propagated_substate_with_hint` returns the `p = 0` state
pushed through all ops before `p`, restricted to the listed variables. -/
theorem propagated_substate_of_verify (c : FastOps) (h : Inv c) (hio : IOLen c.abs) (p : Nat)
    (sub state : List Bool) (vars : List Nat) (hint : List (Option Nat))
    (hlt : ∀ v ∈ vars, v < c.getNvars) (hst : ∀ v ∈ vars, v < state.length)
    (hok : HintOK c.abs vars hint) (hsl : sub.length = vars.length)
    (hver : Consistent ⟨state, c.abs⟩) :
    ∃ bs, c.propagatedSubstate p sub state vars hint = some bs ∧
      bs.map some = vars.map (fun v => (pushOps state (c.abs.take p))[v]?) := by
  have hew := substateOK_of_consistent c.getNvars c.nbonds c.abs h.2 hio state hver vars hst p
  obtain ⟨bs, h1, h2⟩ := propagated_substate_eq_scan c h hio p sub state vars hint hlt hst hok hsl hew
  refine ⟨bs, h1, ?_⟩
  rw [h2]
  apply List.map_congr_left
  intro v hv
  exact (subAt_is_propagation c h hio state v (hst v hv) p).symm

theorem map_some_inj {α : Type} : ∀ {l l' : List α}, l.map some = l'.map some → l = l'
  | [], [], _ => rfl
  | [], _ :: _, h => by simp at h
  | _ :: _, [], h => by simp at h
  | a :: t, b :: u, h => by
    simp only [List.map_cons, List.cons.injEq, Option.some.injEq] at h
    rw [h.1, map_some_inj h.2]

/-- Independent of the hint (inside the contract), for arbitrary worldlines. -/
theorem propagated_substate_hint_irrelevant (c : FastOps) (h : Inv c) (hio : IOLen c.abs) (p : Nat)
    (sub state : List Bool) (vars : List Nat) (hint hint' : List (Option Nat))
    (hlt : ∀ v ∈ vars, v < c.getNvars) (hst : ∀ v ∈ vars, v < state.length)
    (hok : HintOK c.abs vars hint) (hok' : HintOK c.abs vars hint') (hsl : sub.length = vars.length) :
    c.propagatedSubstate p sub state vars hint = c.propagatedSubstate p sub state vars hint' := by
  obtain ⟨bs, h1, h2⟩ := propagated_substate_code c h hio p sub state vars hint hlt hst hok hsl
  obtain ⟨bs', h1', h2'⟩ := propagated_substate_code c h hio p sub state vars hint' hlt hst hok' hsl
  have : bs = bs' := map_some_inj (h2.trans h2'.symm)
  rw [h1, h1', this]

/-! ## read-only iterators -/

/-- `try_iterate_ps(pstart, pend, t, f)` on ANY container = `try_fold` of the callback over the slots
`min(pstart, L) ≤ q < min(pend, L)` of the naive array; it panics (slice with start > end) exactly when the
clamped range is reversed. -/
theorem try_iterate_ps_eq_scan {τ ε : Type} (c : FastOps) (ps pe : Nat) (t : τ)
    (f : FastOps → Option Op → τ → Except ε τ) :
    c.tryIteratePs ps pe t f =
      if min ps c.abs.length > min pe c.abs.length then none
      else some (tryFold (f c) (scanPs c.abs ps pe) t) :=
  tryIteratePs_eq_scan c ps pe t f

/-- `iterate_ps` (trait default) = plain fold over the same slots. -/
theorem iterate_ps_eq_scan {τ : Type} (c : FastOps) (ps pe : Nat) (t : τ) (f : FastOps → Option Op → τ → τ) :
    c.iteratePs ps pe t f =
      if min ps c.abs.length > min pe c.abs.length then none
      else some ((scanPs c.abs ps pe).foldl (fun t o => f c o t) t) :=
  iteratePs_eq_scan c ps pe t f

/-- `try_iterate_ops(pstart, pend, t, f)` under the invariant = `try_fold` of the callback over the
occupied slots `pstart ≤ q ≤ pend` (pend INCLUSIVE) in increasing order, each with its position; it panics
exactly when `pstart` lies beyond the array while the container holds an op. -/
theorem try_iterate_ops_eq_scan {τ ε : Type} (c : FastOps) (h : Inv c) (ps pe : Nat) (t : τ)
    (f : FastOps → Op → Nat → τ → Except ε τ) :
    c.tryIterateOps ps pe t f =
      if c.abs.length < ps ∧ (firstOcc (occAt c.abs) c.abs.length).isSome = true then none
      else some (tryFold (fun (x : Nat × Op) t => f c x.2 x.1 t) (scanOps c.abs ps pe) t) := by
  have key := tryIterateOps_canon c.getNvars c.nbonds c.abs ps pe t f
  have e := congrArg (fun c' : FastOps =>
    (c'.tryIterateOps ps pe t f, tryFold (fun (x : Nat × Op) t => f c' x.2 x.1 t) (scanOps c.abs ps pe) t)) h.1
  simp only [Prod.mk.injEq] at e
  rw [e.1, e.2]
  exact key

/-- `iterate_ops` (trait default) = plain fold over the same occupied slots. -/
theorem iterate_ops_eq_scan {τ : Type} (c : FastOps) (h : Inv c) (ps pe : Nat) (t : τ)
    (f : FastOps → Op → Nat → τ → τ) :
    c.iterateOps ps pe t f =
      if c.abs.length < ps ∧ (firstOcc (occAt c.abs) c.abs.length).isSome = true then none
      else some ((scanOps c.abs ps pe).foldl (fun t (x : Nat × Op) => f c x.2 x.1 t) t) := by
  have key := iterateOps_canon c.getNvars c.nbonds c.abs ps pe t f
  have e := congrArg (fun c' : FastOps =>
    (c'.iterateOps ps pe t f, (scanOps c.abs ps pe).foldl (fun t (x : Nat × Op) => f c' x.2 x.1 t) t)) h.1
  simp only [Prod.mk.injEq] at e
  rw [e.1, e.2]
  exact key

/-- `scanOps` is what its name says: exactly the occupied slots of the range, each once, in increasing
order. -/
theorem scan_ops_spec (s : Slots) (ps pe : Nat) :
    (∀ q op, (q, op) ∈ scanOps s ps pe ↔ ps ≤ q ∧ q ≤ pe ∧ slotAt s q = some op) ∧
    (scanOps s ps pe).Pairwise (fun a b => a.1 < b.1) :=
  ⟨mem_scanOps s ps pe, scanOps_sorted s ps pe⟩

/-! ## the heap branch of `mutate_subsection_ops` (sub-variable cursor) -/

/-- `mutate_subsection_ops(pstart, pend, t, f, Some(args))` with a correct sub-variable cursor at `pstart`
(`SubCur`; `args` built over `Varlist(vars)`), on a container satisfying the invariant: the result satisfies
the invariant again and its contents / the accumulator are those of the naive loop `subOpsLoopA` — the
callback is asked exactly at the occupied slots `pstart ≤ q ≤ pend` whose op touches a listed variable, in
increasing order, seeing the container of the current slots; `SubActOK`: it only changes ops inside the
listed variables (the `debug_assert!` of `mutate_p`). -/
theorem sub_ops_heap_refines {τ : Type} (c : FastOps) (h : Inv c) (vars : List Nat) (hn : vars.Nodup)
    (hlt : ∀ v ∈ vars, v < c.getNvars) (ps pe : Nat) (t : τ)
    (f : FastOps → Op → Nat → τ → Option (Option Op) × τ)
    (hf : ∀ c' o q t', SubActOK c.getNvars c.nbonds vars (some o) (f c' o q t').1)
    (a : Cursor) (m : List (Option Nat)) (hmap : a.subvarMapping = some (m, vars))
    (ha : SubCur a vars c.abs ps) :
    Inv (c.mutateSubsectionOps ps pe t f (some a)).1 ∧
    (c.mutateSubsectionOps ps pe t f (some a)).1.abs
      = (subOpsLoopA c.getNvars c.nbonds vars f ps (min (pe + 1) (growA c.abs pe).length - ps) (growA c.abs pe) t).1 ∧
    (c.mutateSubsectionOps ps pe t f (some a)).2
      = (subOpsLoopA c.getNvars c.nbonds vars f ps (min (pe + 1) (growA c.abs pe).length - ps) (growA c.abs pe) t).2 := by
  obtain ⟨k1, k2, k3⟩ := mutateSubsectionOps_sub c.getNvars c.nbonds c.abs vars hn hlt ps pe t f hf h.2 a m hmap ha
  have e : c.mutateSubsectionOps ps pe t f (some a)
      = (canon c.getNvars c.nbonds c.abs).mutateSubsectionOps ps pe t f (some a) :=
    congrArg (fun c' : FastOps => c'.mutateSubsectionOps ps pe t f (some a)) h.1
  rw [e]
  refine ⟨?_, ?_, k2⟩
  · rw [k1]; exact inv_canon _ _ _ k3
  · rw [k1, abs_canon]

/-- RVB's sequence in one statement: `get_empty_args(Varlist(vars))`, `fill_args_at_p_with_hint(pstart, …)`,
`mutate_subsection_ops(pstart, pend, …, Some(args))` — for every hint inside the contract the fill succeeds
and the sweep refines the naive loop. -/
theorem hint_fill_then_sub_ops {τ : Type} (c : FastOps) (h : Inv c) (vars : List Nat)
    (hint : List (Option Nat)) (hn : vars.Nodup) (hlt : ∀ v ∈ vars, v < c.getNvars)
    (hok : HintOK c.abs vars hint) (ps pe : Nat) (hp : ps ≤ c.getCutoff) (t : τ)
    (f : FastOps → Op → Nat → τ → Option (Option Op) × τ)
    (hf : ∀ c' o q t', SubActOK c.getNvars c.nbonds vars (some o) (f c' o q t').1) :
    ∃ a, c.fillArgsWithHint ps (c.getEmptyArgsVarlist vars) vars hint = some a ∧
      Inv (c.mutateSubsectionOps ps pe t f (some a)).1 ∧
      (c.mutateSubsectionOps ps pe t f (some a)).1.abs
        = (subOpsLoopA c.getNvars c.nbonds vars f ps (min (pe + 1) (growA c.abs pe).length - ps) (growA c.abs pe) t).1 ∧
      (c.mutateSubsectionOps ps pe t f (some a)).2
        = (subOpsLoopA c.getNvars c.nbonds vars f ps (min (pe + 1) (growA c.abs pe).length - ps) (growA c.abs pe) t).2 := by
  obtain ⟨a, h1, h2, _⟩ := hint_fill_is_subcursor c h ps vars hint hp hn hlt hok
  refine ⟨a, h1, ?_⟩
  have hmap : a.subvarMapping = (c.getEmptyArgsVarlist vars).subvarMapping := by
    have := hint_fill_eq_scan c h ps vars hint hp hlt hok
    rw [h1] at this
    rw [Option.some.inj this]; rfl
  exact sub_ops_heap_refines c h vars hn hlt ps pe t f hf a _ (by rw [hmap]; rfl) h2

/-! ## args handed back through `get_empty_args(SubvarAccess::Args(args))` + `fill_args_at_p` -/

/-- Recycling FULLY RESOLVED sub-variable args — a correct cursor at `p`, e.g. what
`fill_args_at_p_with_hint` or an earlier `fill_args_at_p(p)` built — through `get_empty_args(Args(args))` and
`fill_args_at_p(p, ·)` again is the identity on `last_p`, `last_vars`, `last_rels` and the mapping; only the
counter `unfilled` is recomputed (`get_empty_args(Args)` touches nothing else, and the second fill either
returns at once or finds every entry resolved and `last_p` already in place). -/
theorem args_recycle_id (c : FastOps) (h : Inv c) (vars : List Nat) (hn : vars.Nodup) (p : Nat) (a : Cursor)
    (ha : SubCur a vars c.abs p) :
    c.fillArgsAtP p (c.getEmptyArgsFromArgs a) = { a with unfilled := (c.getEmptyArgsFromArgs a).unfilled } := by
  have key := fillArgsAtP_complete c.getNvars c.nbonds c.abs p
    ((canon c.getNvars c.nbonds c.abs).getEmptyArgsFromArgs a) (ha.complete hn)
  have e := congrArg (fun c' : FastOps => (c'.fillArgsAtP p (c'.getEmptyArgsFromArgs a), c'.getEmptyArgsFromArgs a)) h.1
  simp only [Prod.mk.injEq] at e
  rw [e.1, key, getEmptyArgsFromArgs_fields, ← e.2]

/-- The same for all-variables args: the scan cursor at `p` (what `fill_args_at_p(p, get_empty_args(All))`
yields, `cursor_correct`) comes back unchanged except for `unfilled`. -/
theorem args_recycle_id_all (c : FastOps) (h : Inv c) (p u : Nat) :
    c.fillArgsAtP p (c.getEmptyArgsFromArgs (cursorByScan c.getNvars c.abs p u))
      = { cursorByScan c.getNvars c.abs p u with
          unfilled := (c.getEmptyArgsFromArgs (cursorByScan c.getNvars c.abs p u)).unfilled } := by
  have key := fillArgsAtP_complete c.getNvars c.nbonds c.abs p
    ((canon c.getNvars c.nbonds c.abs).getEmptyArgsFromArgs (cursorByScan c.getNvars c.abs p u))
    (cursorByScan_complete c.getNvars c.nbonds c.abs h.2 p u)
  have e := congrArg (fun c' : FastOps =>
    (c'.fillArgsAtP p (c'.getEmptyArgsFromArgs (cursorByScan c.getNvars c.abs p u)),
     c'.getEmptyArgsFromArgs (cursorByScan c.getNvars c.abs p u))) h.1
  simp only [Prod.mk.injEq] at e
  rw [e.1, key, getEmptyArgsFromArgs_fields, ← e.2]

/-- Hence recycled args are as good as the original ones for every mutation theorem that asks for `SubCur`
(`mutate_p_sub_refines`, the sub-sweeps, `sub_ops_heap_refines`). -/
theorem args_recycle_keeps_subcursor (c : FastOps) (h : Inv c) (vars : List Nat) (hn : vars.Nodup) (p : Nat)
    (a : Cursor) (ha : SubCur a vars c.abs p) :
    SubCur (c.fillArgsAtP p (c.getEmptyArgsFromArgs a)) vars c.abs p ∧
    (c.fillArgsAtP p (c.getEmptyArgsFromArgs a)).subvarMapping = a.subvarMapping := by
  rw [args_recycle_id c h vars hn p a ha]
  exact ⟨⟨ha.hP, ha.hm, ha.hv, ha.hr⟩, rfl⟩

/-- PARTIALLY resolved args (right `last_p`, every entry `None` or the scan value — e.g. after a hint fill that
was given fewer hints than variables) are completed to the scan cursor of the listed variables. -/
theorem args_recycle_completes (c : FastOps) (h : Inv c) (vars : List Nat) (hn : vars.Nodup)
    (hlt : ∀ v ∈ vars, v < c.getNvars) (p : Nat) (a : Cursor) (fl : Nat → Bool)
    (ha : PartCur a vars c.abs p fl) :
    SubCur (c.fillArgsAtP p (c.getEmptyArgsFromArgs a)) vars c.abs p := by
  have key := recycle_partial c.getNvars c.nbonds c.abs h.2 vars hn hlt p a fl ha
  have e : c.fillArgsAtP p (c.getEmptyArgsFromArgs a)
      = (canon c.getNvars c.nbonds c.abs).fillArgsAtP p ((canon c.getNvars c.nbonds c.abs).getEmptyArgsFromArgs a) :=
    congrArg (fun c' : FastOps => c'.fillArgsAtP p (c'.getEmptyArgsFromArgs a)) h.1
  rw [e]; exact key

/-- RVB's sequence with the recycling idiom in between: hint fill, `get_empty_args(Args(·))`, `fill_args_at_p`
again, then `mutate_subsection_ops` — the sweep refines the naive loop as before. -/
theorem hint_fill_recycle_then_sub_ops {τ : Type} (c : FastOps) (h : Inv c) (vars : List Nat)
    (hint : List (Option Nat)) (hn : vars.Nodup) (hlt : ∀ v ∈ vars, v < c.getNvars)
    (hok : HintOK c.abs vars hint) (ps pe : Nat) (hp : ps ≤ c.getCutoff) (t : τ)
    (f : FastOps → Op → Nat → τ → Option (Option Op) × τ)
    (hf : ∀ c' o q t', SubActOK c.getNvars c.nbonds vars (some o) (f c' o q t').1) :
    ∃ a, c.fillArgsWithHint ps (c.getEmptyArgsVarlist vars) vars hint = some a ∧
      let a' := c.fillArgsAtP ps (c.getEmptyArgsFromArgs a)
      Inv (c.mutateSubsectionOps ps pe t f (some a')).1 ∧
      (c.mutateSubsectionOps ps pe t f (some a')).1.abs
        = (subOpsLoopA c.getNvars c.nbonds vars f ps (min (pe + 1) (growA c.abs pe).length - ps) (growA c.abs pe) t).1 ∧
      (c.mutateSubsectionOps ps pe t f (some a')).2
        = (subOpsLoopA c.getNvars c.nbonds vars f ps (min (pe + 1) (growA c.abs pe).length - ps) (growA c.abs pe) t).2 := by
  obtain ⟨a, h1, h2, _⟩ := hint_fill_is_subcursor c h ps vars hint hp hn hlt hok
  refine ⟨a, h1, ?_⟩
  have hmap : a.subvarMapping = (c.getEmptyArgsVarlist vars).subvarMapping := by
    have := hint_fill_eq_scan c h ps vars hint hp hlt hok
    rw [h1] at this
    rw [Option.some.inj this]; rfl
  obtain ⟨k1, k2⟩ := args_recycle_keeps_subcursor c h vars hn ps a h2
  exact sub_ops_heap_refines c h vars hn hlt ps pe t f hf _ _ (by rw [k2, hmap]; rfl) k1

/-! ## per-bond counters that grow on demand (finding F32, fix 0a5077c) -/

open Qmc.Counters in
/-- The increment as the code writes it now — `if bond >= len { resize(bond + 1, 0) }; counters[bond] += 1`:
the table reaches `bond + 1`, never shrinks, and `get_count` changes by exactly one at `bond` and nowhere
else, for EVERY `b'` inside or beyond the table. -/
theorem bump_grows_on_demand (cs : List Nat) (b b' : Nat) :
    (bumpCount cs b).length = max cs.length (b + 1) ∧
    getCountT (bumpCount cs b) b' = getCountT cs b' + (if b' = b then 1 else 0) :=
  ⟨length_bumpCount cs b, getCountT_bumpCount cs b b'⟩

open Qmc.Counters in
/-- `get_count(b)` = number of stored operators with bond `b` for EVERY `b` (0 beyond the table), WITHOUT the
hypothesis `bond < nbonds`: if it holds before a `mutate_p` change of slot `p` (insertion, removal, replacement by
an operator of ANY bond; fast path or not — the counter effect is `changeCounters`), the decrement does not
panic and it holds after; the table never shrinks. -/
theorem count_eq_scan_all_bonds (cs : List Nat) (s : Slots) (p : Nat) (new : Option Op) (hp : p < s.length)
    (hok : ∀ b, getCountT cs b = countBond s b) :
    ∃ cs', changeCounters cs (slotAt s p) new = some cs' ∧ (∀ b, getCountT cs' b = countBond (s.set p new) b) ∧
      cs.length ≤ cs'.length :=
  changeCounters_ok cs s p new hp hok

open Qmc.Counters in
/-- Nothing already proved changes: inside the table the new updates are those of the container model
(`incrBond` / `decrBond` of QmcModel/FastOps.lean), and `getCountT` is its `get_count` on the table. -/
theorem counters_agree_with_model (c : FastOps) (cs : List Nat) (hc : c.bondCounters = some cs) (b : Nat)
    (hb : b < cs.length) :
    (c.incrBond b).bondCounters = some (bumpCount cs b) ∧
    (∀ k, cs[b]? = some (k + 1) → some (c.decrBond b).bondCounters = (dropCount cs b).map some) ∧
    c.getCount b = getCountT cs b := by
  refine ⟨?_, ?_, ?_⟩
  · simp [incrBond, hc, bumpCount_eq_modify cs b hb]
  · intro k hk
    simp [decrBond, hc, dropCount_some cs b k hk]
  · simp [getCount, hc, getCountT]

/-! ## non-vacuity, and what happens outside the contract (the model does what the Rust does) -/

def hOpA : Op := Op.offdiagonal [0, 1] 1 [false, false] [true, false] false
def hOpB : Op := Op.offdiagonal [1, 2] 2 [false, true] [true, true] false
def hOpC : Op := Op.diagonal [2] 0 [true] true
def hOpD : Op := Op.offdiagonal [0] 3 [true] [false] false
def hOpE : Op := Op.offdiagonal [1] 1 [true] [false] false

/-- slots 0..6: A(0,1) _ C(2) B(1,2) _ D(0) E(1); worldlines consistent with `hState` and periodic -/
def hSlots : Slots := [some hOpA, none, some hOpC, some hOpB, none, some hOpD, some hOpE]
def hState : List Bool := [false, false, true]
def hC : FastOps := canon 3 none hSlots

theorem hC_inv : Inv hC := inv_canon 3 none hSlots (wf_of_slotsOKb (by decide)).1
theorem hC_io : IOLen hC.abs := by
  have : hC.abs = hSlots := abs_canon 3 none hSlots
  rw [this]; exact (wf_of_slotsOKb (nv := 3) (by decide)).2

example : Consistent ⟨hState, hSlots⟩ := by decide

/-- hypotheses of the fill theorems are satisfiable: hints before, at and after `p = 3` -/
example : HintOK hC.abs [2, 0, 1] [some 3, some 5, none] := by
  have : hC.abs = hSlots := abs_canon 3 none hSlots
  rw [this]; exact hintOK_of_b (by decide)

/-- … and the walk computes the scan cursor: var 2 ← slot 2 (rel 0), var 0 ← slot 0 (rel 0), var 1 ← slot 0
(rel 1); `last_p = 2` -/
example : (hC.fillArgsWithHint 3 (hC.getEmptyArgsVarlist [2, 0, 1]) [2, 0, 1] [some 3, some 5, none]).map
    (fun a => (a.lastP, a.lastVars, a.lastRels))
    = some (some 2, [some 2, some 0, some 0], [some 0, some 0, some 1]) := by decide

/-- the same answer from other hints inside the contract -/
example : hC.fillArgsWithHint 3 (hC.getEmptyArgsVarlist [2, 0, 1]) [2, 0, 1] [none, none, none]
    = hC.fillArgsWithHint 3 (hC.getEmptyArgsVarlist [2, 0, 1]) [2, 0, 1] [some 2, some 0, some 3] := by decide

/-- OUTSIDE THE CONTRACT 1 — fewer hints than variables: `zip` stops early, the remaining entries stay
`None` although ops precede `p`; no panic, the cursor silently differs from the scan -/
example : (hC.fillArgsWithHint 3 (hC.getEmptyArgsVarlist [2, 0, 1]) [2, 0, 1] [some 3]).map
    (fun a => (a.lastVars, a.lastRels)) = some ([some 2, none, none], [some 0, none, none]) := by decide
example : hC.fillArgsWithHint 3 (hC.getEmptyArgsVarlist [2, 0, 1]) [2, 0, 1] [some 3]
    ≠ some (scanCursor hSlots 3 [2, 0, 1] (hC.getEmptyArgsVarlist [2, 0, 1])) := by decide

/-- OUTSIDE THE CONTRACT 2 — a hint to an empty slot, to an op that does not contain the variable, beyond
the array, for a variable without ops; or `p` beyond the array: the Rust panics, the model says `none` -/
example : hC.fillArgsWithHint 3 (hC.getEmptyArgsVarlist [2]) [2] [some 1] = none := by decide
example : hC.fillArgsWithHint 3 (hC.getEmptyArgsVarlist [2]) [2] [some 0] = none := by decide
example : hC.fillArgsWithHint 3 (hC.getEmptyArgsVarlist [2]) [2] [some 9] = none := by decide
example : (canon 4 none hSlots).fillArgsWithHint 3 ((canon 4 none hSlots).getEmptyArgsVarlist [3]) [3] [some 0] = none := by
  decide
example : hC.fillArgsWithHint 8 (hC.getEmptyArgsVarlist [2]) [2] [none] = none := by decide

/-- a second fill on the same args keeps an entry whose variable has no op at or before the new `p` -/
example : ((hC.fillArgsWithHint 6 (hC.getEmptyArgsVarlist [2, 0]) [2, 0] [none, none]).bind
    (fun a => hC.fillArgsWithHint 1 a [2, 0] [none, none])).map (fun a => (a.lastP, a.lastVars))
    = some (some 0, [some 3, some 0]) := by decide

/-- propagated substate on consistent worldlines = the state pushed through the ops before `p` -/
example : hC.propagatedSubstate 4 [false, false, false] hState [0, 1, 2] [some 5, none, some 2]
    = some [true, true, true] := by decide
example : [0, 1, 2].map (fun v => (pushOps hState (hSlots.take 4))[v]?) = [some true, some true, some true] := by
  decide
example : hC.propagatedSubstate 6 [true, true, true] hState [0, 1, 2] [none, some 3, some 2]
    = some [false, true, true] := by decide

/-- INCONSISTENT WORLDLINES — (W) fails: the only op on variable 0 outputs `true` while `state[0] = false`;
the code answers `state[0]` ("wraps around"), a scan of the slots answers the op's output -/
def hBad : Slots := [some (Op.offdiagonal [0] 0 [false] [true] false), none, none]
example : (canon 1 none hBad).propagatedSubstate 2 [false] [false] [0] [none] = some [false] := by decide
example : subAt hBad [false] 0 2 = some true := by decide
/-- (E) fails: the first op on the variable sits at `p` and records an input different from `state` -/
example : (canon 1 none [none, some (Op.diagonal [0] 0 [true] false)]).propagatedSubstate 1 [false] [false] [0] [none]
    = some [true] := by decide
example : subAt [none, some (Op.diagonal [0] 0 [true] false)] [false] 0 1 = some false := by decide

/-- iterators: occupied slots 2..=3 with positions; early exit; reversed `ps` range and `pstart` beyond the
array panic -/
example : hC.iterateOps 1 3 [] (fun _ _ q l => l ++ [q]) = some [2, 3] := by decide
example : hC.iteratePs 1 4 [] (fun _ o l => l ++ [o.isSome]) = some [false, true, true] := by decide
example : (hC.tryIterateOps 0 6 [] (fun _ _ q l => if q = 3 then .error l else .ok (l ++ [q]))).map
    (fun r => match r with | .ok l => (true, l) | .error l => (false, l)) = some (false, [0, 2]) := by decide
example : (hC.tryIteratePs 5 2 () (fun _ _ t => (.ok t : Except Unit Unit))).isNone = true := by decide
example : (hC.tryIterateOps 9 12 () (fun _ _ _ t => (.ok t : Except Unit Unit))).isNone = true := by decide
example : ((canon 3 none [none, none]).tryIterateOps 9 12 () (fun _ _ _ t => (.ok t : Except Unit Unit))).isSome = true := by
  decide

/-- heap branch: vars `[1, 2]`, range `1 ..= 5`, cursor from the hint fill; the callback replaces the op at 3
(on variables 1,2) by an op on variable 1 and removes the op at 2 (on variable 2); slots 0 and 5 (variable 0
only, resp. a listed variable but kept) are untouched — the container is the scan of the naive result -/
def hNew : Op := Op.diagonal [1] 4 [false] false
def hF : FastOps → Op → Nat → Nat → Option (Option Op) × Nat := fun _ _ q n =>
  if q = 3 then (some (some hNew), n + 1) else if q = 2 then (some none, n + 1) else (none, n + 1)

example : (hC.fillArgsWithHint 1 (hC.getEmptyArgsVarlist [1, 2]) [1, 2] [some 3, none]).map
    (fun a => (hC.mutateSubsectionOps 1 5 0 hF (some a)).1)
    = some (canon 3 none [some hOpA, none, none, some hNew, none, some hOpD, some hOpE]) := by decide
/-- the callback was asked at slots 2 and 3 only (slot 5 holds an op on variable 0 alone, slot 6 is beyond `pend`) -/
example : (hC.fillArgsWithHint 1 (hC.getEmptyArgsVarlist [1, 2]) [1, 2] [some 3, none]).map
    (fun a => (hC.mutateSubsectionOps 1 5 0 hF (some a)).2) = some 2 := by decide
example : (subOpsLoopA 3 none [1, 2] hF 1 5 hSlots 0)
    = ([some hOpA, none, none, some hNew, none, some hOpD, some hOpE], 2) := by decide

/-- recycling: the cursor of the hint fill at `p = 3` comes back with the same `last_p` and tables … -/
example : ((hC.fillArgsWithHint 3 (hC.getEmptyArgsVarlist [2, 0, 1]) [2, 0, 1] [some 3, some 5, none]).map
    (fun a => hC.fillArgsAtP 3 (hC.getEmptyArgsFromArgs a))).map (fun a => (a.lastP, a.lastVars, a.lastRels, a.unfilled))
    = some (some 2, [some 2, some 0, some 0], [some 0, some 0, some 1], 0) := by decide
/-- … also when some variable still counts as unfilled (variable 2 has ops, none before `p = 1`): the second walk
runs to the head without finding anything to write -/
example : ((hC.fillArgsWithHint 1 (hC.getEmptyArgsVarlist [2, 0]) [2, 0] [none, none]).map
    (fun a => hC.fillArgsAtP 1 (hC.getEmptyArgsFromArgs a))).map (fun a => (a.lastP, a.lastVars, a.unfilled))
    = some (some 0, [none, some 0], 1) := by decide
/-- all-variables args at `p = 4`, recycled -/
example : (let a := hC.fillArgsAtP 4 hC.getEmptyArgsAll
    (hC.fillArgsAtP 4 (hC.getEmptyArgsFromArgs a)).lastP = a.lastP ∧
    (hC.fillArgsAtP 4 (hC.getEmptyArgsFromArgs a)).lastVars = a.lastVars ∧ a.lastP = some 3) := by decide
/-- partially resolved (only one hint for three variables), then completed by the recycling idiom -/
example : ((hC.fillArgsWithHint 3 (hC.getEmptyArgsVarlist [2, 0, 1]) [2, 0, 1] [some 3]).map
    (fun a => hC.fillArgsAtP 3 (hC.getEmptyArgsFromArgs a))).map (fun a => (a.lastP, a.lastVars, a.lastRels))
    = some (some 2, [some 2, some 0, some 0], [some 0, some 0, some 1]) := by decide
/-- what a `last_p` reset in the `Args` branch would do (seed C11-17): with `unfilled = 0` the fill returns at once
and the cursor claims that nothing precedes `p` -/
example : ((hC.fillArgsWithHint 3 (hC.getEmptyArgsVarlist [2, 0, 1]) [2, 0, 1] [none, none, none]).map
    (fun a => hC.fillArgsAtP 3 { hC.getEmptyArgsFromArgs a with lastP := none })).map (fun a => a.lastP)
    = some none := by decide

/-- F32 regression input: a table of length 11 (bonds 0..10) and an operator of bond 11 — the table grows to 12 and
`get_count(11) = 1` (the pre-fix code indexed out of range and panicked; `List.modify`, the old model update, is a
silent no-op there) -/
example : (Counters.bumpCount (List.replicate 11 0) 11).length = 12 ∧
    Counters.getCountT (Counters.bumpCount (List.replicate 11 0) 11) 11 = 1 ∧
    Counters.getCountT (Counters.bumpCount (List.replicate 11 0) 11) 12 = 0 ∧
    (List.replicate 11 0).modify 11 (· + 1) = List.replicate 11 0 := by decide
/-- a short history: store bond 7 on a 3-bond table, store bond 1, remove bond 7 again — the table keeps its length -/
example : Counters.replay 3 [(true, 7), (true, 1), (false, 7)] = some [0, 1, 0, 0, 0, 0, 0, 0] := by decide
/-- removing a bond that was never stored is the code's panic -/
example : Counters.replay 3 [(false, 2)] = none ∧ Counters.replay 3 [(false, 5)] = none := by decide

end Qmc.C11
