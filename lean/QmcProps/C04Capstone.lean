/-
C04 capstone — the generic sampler (`Qmc::timestep`, property C04) with `do_loop_updates = false`: the executable
whole-step model, its law, the invariant measure and what that measure is.

  (0) executable model = tree      `Sampler.genericTimestep s β rs = (genericTimestepT s β).run rs` on every script
                                   (QmcProofs/LawGeneric.lean; loops off), configuration part `genericStepCfgT`;
  (L1) law = kernels, invariance   `lawK (goodSpace …) (genericStepCfgT …) = sweepK ; [clusterK (ofComponents) if gate] ; refreshK`
                                   and the idealised law leaves `π_L = sseCutOn H β (cfgSpace H N L)` invariant
                                   (`Qmc.Law.genericStep_law_invariant(_hb)`; design_notes/Law.md);
  (L2) marginal / mass of `π_L`    `Qmc.C01.sseCutOn_marginal`, `sseCutOn_total` (QmcProps/C01Capstone.lean, for ANY `H`):
                                   the marginal of `π_L` on the spin state `α` is `⟨α| Σ_{n≤L} (βM)ⁿ/n! |α⟩`, its mass the
                                   trace, `M = Σ_b M_b` the sum of the bond matrices (for a sampler built from an
                                   interaction list: the matrices handed to the constructors, i.e. `M = −H + offsets`).

`generic_capstone(_hb)` joins the three for any Hamiltonian; `genericSampler_capstone` is the instance for
`Sampler.GenericSampler` with hypotheses on the interaction list only.

The gate `should_do_cluster_update()` (a constant single-site term present ∧ no symmetry-breaking term) may be on or
off.  With the gate off (and loops off) the step is sweep ; refresh: `π_L` is still invariant — the known finding F20
concerns ERGODICITY of that chain (off-diagonal operators are never created), not invariance; nothing here says the
chain converges to `π_L`.  NOT claimed, as in the C01 capstone: ergodicity, convergence, uniqueness, `L → ∞`, the loop
update (no tree twin; `do_loop_updates = true` is outside these theorems), f64 rounding and the `2^-64` / `2^-52`
granularity of the draws (idealisation step of design_notes/Law.md).
-/
import QmcProofs.LawGeneric
import QmcProps.C01Capstone

open BigOperators Finset

namespace Qmc.C04
open Qmc Qmc.Kernel Qmc.Dist Qmc.Marginal Qmc.SSEConfig Qmc.Law

/-- **C04 capstone, any Hamiltonian, Metropolis diagonal update.**  `H` with non-negative matrix elements, bonds on
distinct variables `< N`, at least one bond; `β > 0`; any number of slots `L`; gate on or off (on: every bond has a
variable and the cluster symmetry holds).  With `π_L = sseCutOn H β (cfgSpace H N L)`:
  (i)   `π_L` is invariant under the idealised law of the executable generic step (loops off);
  (ii)  its marginal on the spin state `α` is `⟨α| Σ_{n≤L} βⁿ Mⁿ / n! |α⟩`, `M = Σ_b M_b`;
  (iii) its total mass is the trace of that polynomial. -/
theorem generic_capstone (H : Ham) (β : ℚ) (hβ : 0 < β) (hw : ∀ b i o, 0 ≤ H.w b i o) (hNb : 0 < H.nbonds)
    (N L : Nat) (hV : VarsOK H N) (gate : Bool) (hp : gate = true → VarsPos H)
    (hsym : gate = true → ClusterSym H (fun _ => false) (cfgSpace H N L)) :
    Invariant (sseCutOn H β (cfgSpace H N L)) (lawK (cfgSpace H N L) (genericStepCfgT H none gate β L)) ∧
    (∀ α : St N,
      ∑ c : (cfgSpace H N L : Finset Config),
          (if c.1.state = α.1 then sseCutOn H β (cfgSpace H N L) c else 0)
        = ∑ n ∈ range (L + 1), β ^ n / n.factorial
            * ((∑ b : Fin H.nbonds, bondMatrix H N b.val) ^ n) α α) ∧
    ∑ c : (cfgSpace H N L : Finset Config), sseCutOn H β (cfgSpace H N L) c
      = ∑ n ∈ range (L + 1), β ^ n / n.factorial
          * Matrix.trace ((∑ b : Fin H.nbonds, bondMatrix H N b.val) ^ n) :=
  ⟨genericStep_law_invariant H β hβ (fun b i => hw b i i) hNb N L hV gate hp hsym,
   fun α => Qmc.C01.sseCutOn_marginal H N β L α hV (fun b _ => hw b),
   Qmc.C01.sseCutOn_total H N β L hV (fun b _ => hw b)⟩

/-- … heat-bath diagonal update with the table `makeBondWeights H` -/
theorem generic_capstone_hb (H : Ham) (β : ℚ) (hβ : 0 < β) (hw : ∀ b i o, 0 ≤ H.w b i o)
    (hW : 0 < (makeBondWeights H).sum) (N L : Nat) (hV : VarsOK H N) (gate : Bool)
    (hp : gate = true → VarsPos H)
    (hsym : gate = true → ClusterSym H (fun _ => false) (cfgSpace H N L)) :
    Invariant (sseCutOn H β (cfgSpace H N L))
      (lawK (cfgSpace H N L) (genericStepCfgT H (some (makeBondWeights H)) gate β L)) ∧
    (∀ α : St N,
      ∑ c : (cfgSpace H N L : Finset Config),
          (if c.1.state = α.1 then sseCutOn H β (cfgSpace H N L) c else 0)
        = ∑ n ∈ range (L + 1), β ^ n / n.factorial
            * ((∑ b : Fin H.nbonds, bondMatrix H N b.val) ^ n) α α) ∧
    ∑ c : (cfgSpace H N L : Finset Config), sseCutOn H β (cfgSpace H N L) c
      = ∑ n ∈ range (L + 1), β ^ n / n.factorial
          * Matrix.trace ((∑ b : Fin H.nbonds, bondMatrix H N b.val) ^ n) :=
  ⟨genericStep_law_invariant_hb H β hβ hW (fun b i => hw b i i) N L hV gate hp hsym,
   fun α => Qmc.C01.sseCutOn_marginal H N β L α hV (fun b _ => hw b),
   Qmc.C01.sseCutOn_total H N β L hV (fun b _ => hw b)⟩

/-- (0): the executable model IS the tree whose law (i) is about -/
theorem genericTimestep_run (s : Sampler.GenericSampler) (hl : s.doLoop = false) (β : ℚ) (rs : RS) :
    Sampler.genericTimestep s β rs = (genericTimestepT s β).run rs :=
  genericTimestep_refines s hl β rs

theorem genericTimestep_cfg (s : Sampler.GenericSampler) (β : ℚ) :
    PT.map Sampler.GenericSampler.cfg (genericTimestepT s β) =
      genericStepCfgT s.ham s.tableUsed s.shouldCluster β s.cutoff s.cfg :=
  genericTimestepT_cfg s β

/-- **the generic sampler** (`Sampler.GenericSampler`, Metropolis, loops off): interactions with non-negative
entries on distinct in-range variables, at least one; if the gate is on, every interaction has a variable and is
invariant under the global flip (what `!breaks_ising_symmetry` stands for).  `M = Σ_b M_b` is the sum of the
interaction matrices as handed to `make_interaction` / `make_diagonal_interaction`. -/
theorem genericSampler_capstone (s : Sampler.GenericSampler) (N : Nat) (hV : VarsOK s.ham N)
    (hw : ∀ b i o, 0 ≤ s.ham.w b i o) (hNb : 0 < s.bonds.length) (hhb : s.doHeatbath = false)
    (hp : s.shouldCluster = true → VarsPos s.ham)
    (hsym : s.shouldCluster = true → ∀ b, b < s.bonds.length → s.ham.FlipSym b)
    (β : ℚ) (hβ : 0 < β) (L : Nat) :
    Invariant (sseCutOn s.ham β (cfgSpace s.ham N L))
      (lawK (cfgSpace s.ham N L) (genericStepCfgT s.ham s.tableUsed s.shouldCluster β L)) ∧
    (∀ α : St N,
      ∑ c : (cfgSpace s.ham N L : Finset Config),
          (if c.1.state = α.1 then sseCutOn s.ham β (cfgSpace s.ham N L) c else 0)
        = ∑ n ∈ range (L + 1), β ^ n / n.factorial
            * ((∑ b : Fin s.ham.nbonds, bondMatrix s.ham N b.val) ^ n) α α) ∧
    ∑ c : (cfgSpace s.ham N L : Finset Config), sseCutOn s.ham β (cfgSpace s.ham N L) c
      = ∑ n ∈ range (L + 1), β ^ n / n.factorial
          * Matrix.trace ((∑ b : Fin s.ham.nbonds, bondMatrix s.ham N b.val) ^ n) :=
  ⟨genericSampler_law_invariant s N hV (fun b i => hw b i i) hNb hhb hp hsym β hβ L,
   fun α => Qmc.C01.sseCutOn_marginal s.ham N β L α hV (fun b _ => hw b),
   Qmc.C01.sseCutOn_total s.ham N β L hV (fun b _ => hw b)⟩

/-! ### non-vacuity: `exGeneric` with loops off — a constant single-site term `½·(1 + σx)` on variable 0 (cluster edge,
off-diagonal capable) and the diagonal two-site term `diag(1,0,0,1)`; gate on -/

namespace Example
open Qmc.Sampler

/-- `exGeneric` (QmcProofs/SamplerStep.lean) with `do_loop_updates = false` -/
def exG : GenericSampler := { exGeneric with doLoop := false }

theorem exG_ham : exG.ham = exGeneric.ham := rfl

theorem exG_flags : exG.doLoop = false ∧ exG.shouldCluster = true ∧ exG.doHeatbath = false := by decide +kernel

theorem exG_varsOK : VarsOK exG.ham 2 := exGeneric_inv.wf

theorem exG_nonneg : ∀ b i o, 0 ≤ exG.ham.w b i o := by
  intro b i o
  refine genericHam_nonneg _ ?_ b i o
  intro g hg x hx
  simp only [exG, exGeneric, GenericSampler.addInteraction, GenericSampler.new, List.nil_append, List.cons_append,
    List.mem_cons, List.not_mem_nil, or_false] at hg
  rcases hg with rfl | rfl <;> simp only [List.mem_cons, List.not_mem_nil, or_false] at hx <;>
    rcases hx with rfl | rfl | rfl | rfl <;> norm_num

theorem exG_varsPos : VarsPos exG.ham := by
  intro b hb
  have hb' : b < 2 := hb
  match b, hb' with
  | 0, _ => decide
  | 1, _ => decide

/-- the model function is the run of the tree (any script) -/
example (β : ℚ) (rs : RS) : genericTimestep exG β rs = (genericTimestepT exG β).run rs :=
  genericTimestep_run exG exG_flags.1 β rs

/-- **the capstone on a concrete generic system, every hypothesis discharged** -/
example (β : ℚ) (hβ : 0 < β) (L : Nat) :=
  genericSampler_capstone exG 2 exG_varsOK exG_nonneg (by decide) exG_flags.2.2 (fun _ => exG_varsPos)
    (fun _ => Qmc.Composed.Example.exGeneric_flipSym) β hβ L

/-- the gate-off case: the same interactions plus a symmetry-breaking diagonal field → no cluster update; invariance
still holds (F20 is about ergodicity) -/
def exOff : GenericSampler := exG.addInteraction ⟨false, [1], [1, 2]⟩

theorem exOff_flags : exOff.doLoop = false ∧ exOff.shouldCluster = false ∧ exOff.doHeatbath = false := by
  decide +kernel

example (β : ℚ) (hβ : 0 < β) (L : Nat) :
    Invariant (sseCutOn exOff.ham β (cfgSpace exOff.ham 2 L))
      (lawK (cfgSpace exOff.ham 2 L) (genericStepCfgT exOff.ham exOff.tableUsed exOff.shouldCluster β L)) :=
  genericSampler_law_invariant exOff 2 (hamWFB_sound _ _ (by decide))
    (fun b i => genericHam_nonneg _ (by
      intro g hg x hx
      simp only [exOff, exG, exGeneric, GenericSampler.addInteraction, GenericSampler.new, List.nil_append,
        List.cons_append, List.mem_cons, List.not_mem_nil, or_false] at hg
      rcases hg with rfl | rfl | rfl <;> simp only [List.mem_cons, List.not_mem_nil, or_false] at hx <;>
        rcases hx with rfl | rfl | rfl | rfl <;> norm_num) b i i)
    (by decide) exOff_flags.2.2
    (fun h => by rw [exOff_flags.2.1] at h; cases h) (fun h => by rw [exOff_flags.2.1] at h; cases h) β hβ L

end Example

end Qmc.C04
