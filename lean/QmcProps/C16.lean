/-
C16 — Interaction constructors validate input and classify matrices exactly.
Property theorems only (helper lemmas live in QmcProofs/Interaction.lean).
Model: QmcModel/Interaction.lean (tied to /repo/src/sse/qmc_runner.rs by `./check C16`).
-/
import QmcProofs.Interaction

namespace Qmc.C16
open Qmc Qmc.Interaction

/-! ### size recognition -/

/-- `get_power_of_two` accepts exactly the powers of two and returns the exponent. -/
theorem pow2_iff (n i : Nat) : getPowerOfTwo n = some i ↔ n = 2 ^ i := Qmc.pow2_iff n i

/-- `get_mat_var_size` accepts exactly the lengths `4^n`. -/
theorem matVarSize_iff (len n : Nat) : getMatVarSize len = some n ↔ len = 4 ^ n :=
  Qmc.getMatVarSize_iff len n

/-! ### validation: error (never panic) exactly for bad sizes / negative weights / no variables -/

theorem new_accepts_iff (m : List Rat) (vs : List Nat) :
    (∃ I, Interaction.new m vs = .ok I) ↔
      (∀ x ∈ m, 0 ≤ x) ∧ (vs ≠ [] ∧ vs.Nodup) ∧ m.length = 4 ^ vs.length := by
  rw [new_eq]; split <;> simp_all

theorem new_never_panics (m : List Rat) (vs : List Nat) : Interaction.new m vs ≠ .panic := by
  rw [new_eq]; split <;> simp

theorem new_rejects_with_error (m : List Rat) (vs : List Nat)
    (h : (∃ x ∈ m, x < 0) ∨ m.length ≠ 4 ^ vs.length) : Interaction.new m vs = .err := by
  rw [new_eq]; split
  · rename_i hc
    rcases h with ⟨x, hx, hneg⟩ | h
    · exact absurd (hc.1 x hx) (not_le.mpr hneg)
    · exact absurd hc.2.2 h
  · rfl

theorem newDiagonal_accepts_iff (m : List Rat) (vs : List Nat) :
    (∃ I, Interaction.newDiagonal m vs = .ok I) ↔
      (∀ x ∈ m, 0 ≤ x) ∧ (vs ≠ [] ∧ vs.Nodup) ∧ m.length = 2 ^ vs.length := by
  rw [newDiagonal_eq]; split <;> simp_all

/-- fix F26: a variable list naming a variable twice is rejected with an error by both constructors -/
theorem repeated_variable_rejected (m : List Rat) (vs : List Nat) (h : ¬ vs.Nodup) :
    Interaction.new m vs = .err ∧ Interaction.newDiagonal m vs = .err := by
  constructor
  · rw [new_eq, if_neg]; exact fun hc => h hc.2.1.2
  · rw [newDiagonal_eq, if_neg]; exact fun hc => h hc.2.1.2

theorem newDiagonal_never_panics (m : List Rat) (vs : List Nat) :
    Interaction.newDiagonal m vs ≠ .panic := by
  rw [newDiagonal_eq]; split <;> simp

theorem newDiagonal_rejects_with_error (m : List Rat) (vs : List Nat)
    (h : (∃ x ∈ m, x < 0) ∨ m.length ≠ 2 ^ vs.length) : Interaction.newDiagonal m vs = .err := by
  rw [newDiagonal_eq]; split
  · rename_i hc
    rcases h with ⟨x, hx, hneg⟩ | h
    · exact absurd (hc.1 x hx) (not_le.mpr hneg)
    · exact absurd hc.2.2 h
  · rfl

/-! ### element lookup -/

/-- Full matrix: `at(ins, outs)` is the entry at index `outs ++ ins` (msb first), for every
pattern of the right length; it never errors or panics. (`Separated` is only needed because a
matrix classified constant answers with entry 0.) -/
theorem at_full_spec (m : List Rat) (vs : List Nat) (I : Interaction)
    (hI : Interaction.new m vs = .ok I) (hs : Separated m)
    (ins outs : List Bool) (hi : ins.length = vs.length) (ho : outs.length = vs.length) :
    ∃ x, m[indexFromBits (outs ++ ins)]? = some x ∧ I.atP ins outs = .ok x := by
  rw [new_eq] at hI
  split at hI
  · rename_i hc
    injection hI with hI; subst hI
    have hidx : indexFromBits (outs ++ ins) < m.length := by
      have := indexFromBits_lt (outs ++ ins)
      rw [List.length_append, hi, ho, ← Nat.two_mul, Nat.pow_mul] at this
      rw [hc.2.2]; exact this
    refine ⟨m[indexFromBits (outs ++ ins)], List.getElem?_eq_getElem hidx, ?_⟩
    unfold Interaction.atP
    simp only [newResult, hi, ho, ne_eq, not_true_eq_false, or_self, if_false]
    cases hcc : chainConst m with
    | true =>
      have hall := (chainConst_iff m hs).mp hcc
      have h0 : 0 < m.length := by omega
      simp only [getP, List.getElem?_eq_getElem h0]
      congr 1
      exact hall _ (List.getElem_mem h0) _ (List.getElem_mem hidx)
    | false =>
      simp only [hidx, if_true, getP, List.getElem?_eq_getElem hidx]
  · cases hI

/-- Diagonal table: `at(s, s)` is the entry at index `s`, off-diagonal lookups are 0. -/
theorem at_diag_spec (m : List Rat) (vs : List Nat) (I : Interaction)
    (hI : Interaction.newDiagonal m vs = .ok I)
    (ins outs : List Bool) (hi : ins.length = vs.length) (ho : outs.length = vs.length) :
    (ins = outs → ∃ x, m[indexFromBits ins]? = some x ∧ I.atP ins outs = .ok x) ∧
    (ins ≠ outs → I.atP ins outs = .ok 0) := by
  rw [newDiagonal_eq] at hI
  split at hI
  · rename_i hc
    injection hI with hI; subst hI
    have hidx : indexFromBits ins < m.length := by
      have := indexFromBits_lt ins
      rw [hi] at this; rw [hc.2.2]; exact this
    constructor
    · intro he
      refine ⟨m[indexFromBits ins], List.getElem?_eq_getElem hidx, ?_⟩
      unfold Interaction.atP
      simp [newDiagonalResult, ho, he ▸ hidx, he, getP]
    · intro hne
      unfold Interaction.atP
      simp [newDiagonalResult, hi, ho, hne]
  · cases hI

/-- Lookups with a pattern of the wrong length return an error (not a panic). -/
theorem at_wrong_length (I : Interaction) (ins outs : List Bool)
    (h : ins.length ≠ I.n ∨ outs.length ≠ I.n) : I.atP ins outs = .err := by
  unfold Interaction.atP; simp [h]

/-- Every weight an accepted interaction can report is non-negative — the precondition under
which the samplers' `gen_bool` / `gen_range` arguments are in range. -/
theorem accepted_weights_nonneg (m : List Rat) (vs : List Nat) (I : Interaction)
    (hI : Interaction.new m vs = .ok I ∨ Interaction.newDiagonal m vs = .ok I)
    (ins outs : List Bool) (x : Rat) (hx : I.atP ins outs = .ok x) : 0 ≤ x := by
  have key : (∀ y ∈ I.mat, 0 ≤ y) := by
    rcases hI with hI | hI
    · rw [new_eq] at hI; split at hI
      · rename_i hc; injection hI with hI; subst hI; exact hc.1
      · cases hI
    · rw [newDiagonal_eq] at hI; split at hI
      · rename_i hc; injection hI with hI; subst hI; exact hc.1
      · cases hI
  have getP_nonneg : ∀ i y, getP I.mat i = .ok y → 0 ≤ y := by
    intro i y h
    unfold getP at h
    split at h
    · rename_i z hz; injection h with h; subst h; exact key _ (List.mem_of_getElem? hz)
    · cases h
  unfold Interaction.atP at hx
  split at hx
  · cases hx
  · split at hx
    · exact getP_nonneg _ _ hx
    · simp only at hx
      split at hx
      · exact getP_nonneg _ _ hx
      · cases hx
    · split at hx
      · simp only at hx
        split at hx
        · exact getP_nonneg _ _ hx
        · cases hx
      · injection hx with hx; rw [← hx]

/-! ### classification -/

/-- `is_constant` ⇔ all entries equal (full matrices whose entries are eps-separated). -/
theorem isConstant_iff (m : List Rat) (vs : List Nat) (I : Interaction)
    (hI : Interaction.new m vs = .ok I) (hs : Separated m) :
    I.isConstant = true ↔ AllEq m := by
  rw [new_eq] at hI; split at hI
  · injection hI with hI; subst hI
    rw [← chainConst_iff m hs]
    simp [Interaction.isConstant, newResult]
  · cases hI

/-- `is_constant_diag` ⇔ all diagonal entries equal (full matrix). -/
theorem isConstantDiag_iff (m : List Rat) (vs : List Nat) (I : Interaction)
    (hI : Interaction.new m vs = .ok I) (hs : Separated (diagOf m vs.length)) :
    I.isConstantDiag = true ↔ AllEq (diagOf m vs.length) := by
  rw [new_eq] at hI; split at hI
  · injection hI with hI; subst hI
    rw [← chainConst_iff _ hs]
    simp [Interaction.isConstantDiag, newResult]
  · cases hI

/-- `is_constant_diag` ⇔ all table entries equal (diagonal table); such an interaction is never
reported `is_constant` (its off-diagonal entries are 0). -/
theorem isConstantDiag_iff_diag (m : List Rat) (vs : List Nat) (I : Interaction)
    (hI : Interaction.newDiagonal m vs = .ok I) (hs : Separated m) :
    (I.isConstantDiag = true ↔ AllEq m) ∧ I.isConstant = false := by
  rw [newDiagonal_eq] at hI; split at hI
  · injection hI with hI; subst hI
    rw [← chainConst_iff _ hs]
    simp [Interaction.isConstantDiag, Interaction.isConstant, newDiagonalResult]
  · cases hI


/-- global spin flip on the index level: entry `idx` ↔ entry `len - 1 - idx` -/
def FlipSymmetric (m : List Rat) : Prop :=
  ∀ idx, idx < m.length → m[idx]? = m[m.length - 1 - idx]?

theorem close_iff_eq_of_separated {m : List Rat} (hs : Separated m) {i j : Nat}
    (hi : i < m.length) (hj : j < m.length) :
    absR ((m[i]?).getD 0 - (m[j]?).getD 0) < eps ↔ m[i]? = m[j]? := by
  rw [List.getElem?_eq_getElem hi, List.getElem?_eq_getElem hj]
  simp only [Option.getD_some, Option.some.injEq]
  constructor
  · intro h
    rcases hs _ (List.getElem_mem hi) _ (List.getElem_mem hj) with h' | h'
    · exact h'
    · exact absurd h (not_lt.mpr h')
  · intro h; rw [h]; simp [absR_zero, eps_pos]

/-- `sym_under_ising` on a full matrix never panics and is true exactly when every entry equals
its global-flip counterpart. -/
theorem sym_full_iff (m : List Rat) (vs : List Nat) (I : Interaction)
    (hI : Interaction.new m vs = .ok I) (hs : Separated m) :
    ∃ b, I.symUnderIsing = .ok b ∧ (b = true ↔ FlipSymmetric m) := by
  rw [new_eq] at hI; split at hI
  · rename_i hc
    injection hI with hI; subst hI
    have hlen : m.length = 2 ^ (2 * vs.length) := by rw [hc.2.2, Nat.pow_mul]
    have hpos : 0 < m.length := by rw [hlen]; exact Nat.two_pow_pos _
    cases hcc : chainConst m with
    | true =>
      refine ⟨true, by simp [Interaction.symUnderIsing, newResult, hcc], ?_⟩
      have hall := (chainConst_iff m hs).mp hcc
      simp only [true_iff]
      intro idx hidx
      have h2 : m.length - 1 - idx < m.length := by omega
      rw [List.getElem?_eq_getElem hidx, List.getElem?_eq_getElem h2]
      exact congrArg some (hall _ (List.getElem_mem hidx) _ (List.getElem_mem h2))
    | false =>
      refine ⟨_, by
        simp only [Interaction.symUnderIsing, newResult, hcc]
        rw [← hlen]
        exact flipPairsOk_eq m (m.length - 1) m.length (le_refl _) (by omega), ?_⟩
      simp only [decide_eq_true_eq]
      constructor
      · intro h idx hidx
        exact (close_iff_eq_of_separated hs hidx (by omega)).mp (h idx hidx)
      · intro h idx hidx
        exact (close_iff_eq_of_separated hs hidx (by omega)).mpr (h idx hidx)
  · cases hI

/-- same for a diagonal table -/
theorem sym_diag_iff (m : List Rat) (vs : List Nat) (I : Interaction)
    (hI : Interaction.newDiagonal m vs = .ok I) (hs : Separated m) :
    ∃ b, I.symUnderIsing = .ok b ∧ (b = true ↔ FlipSymmetric m) := by
  rw [newDiagonal_eq] at hI; split at hI
  · rename_i hc
    injection hI with hI; subst hI
    have hlen : m.length = 2 ^ vs.length := hc.2.2
    have hpos : 0 < m.length := by rw [hlen]; exact Nat.two_pow_pos _
    cases hcc : chainConst m with
    | true =>
      refine ⟨true, by simp [Interaction.symUnderIsing, newDiagonalResult, hcc], ?_⟩
      have hall := (chainConst_iff m hs).mp hcc
      simp only [true_iff]
      intro idx hidx
      have h2 : m.length - 1 - idx < m.length := by omega
      rw [List.getElem?_eq_getElem hidx, List.getElem?_eq_getElem h2]
      exact congrArg some (hall _ (List.getElem_mem hidx) _ (List.getElem_mem h2))
    | false =>
      refine ⟨_, by
        simp only [Interaction.symUnderIsing, newDiagonalResult, hcc]
        rw [← hlen]
        exact flipPairsOk_eq m (m.length - 1) m.length (le_refl _) (by omega), ?_⟩
      simp only [decide_eq_true_eq]
      constructor
      · intro h idx hidx
        exact (close_iff_eq_of_separated hs hidx (by omega)).mp (h idx hidx)
      · intro h idx hidx
        exact (close_iff_eq_of_separated hs hidx (by omega)).mpr (h idx hidx)
  · cases hI

/-- Index-level flip symmetry is the same as invariance of every lookup under flipping all
input and output bits (full matrix). -/
theorem flipSymmetric_iff_lookup (m : List Rat) (vs : List Nat) (I : Interaction)
    (hI : Interaction.new m vs = .ok I) (hs : Separated m) :
    FlipSymmetric m ↔
      ∀ ins outs : List Bool, ins.length = vs.length → outs.length = vs.length →
        I.atP ins outs = I.atP (ins.map not) (outs.map not) := by
  have hlen : m.length = 2 ^ (2 * vs.length) := by
    have := (new_accepts_iff m vs).mp ⟨I, hI⟩
    rw [this.2.2, Nat.pow_mul]
  constructor
  · intro hf ins outs hi ho
    obtain ⟨x, hx, hat⟩ := at_full_spec m vs I hI hs ins outs hi ho
    obtain ⟨y, hy, hat'⟩ := at_full_spec m vs I hI hs (ins.map not) (outs.map not)
      (by simpa using hi) (by simpa using ho)
    rw [hat, hat']
    have hl : (outs ++ ins).length = 2 * vs.length := by simp [hi, ho]; omega
    have hidx : indexFromBits (outs ++ ins) < m.length := by
      rw [hlen, ← hl]; exact indexFromBits_lt _
    have hnot := indexFromBits_not (outs ++ ins)
    rw [hl, ← hlen] at hnot
    have : indexFromBits (outs.map not ++ ins.map not) = m.length - 1 - indexFromBits (outs ++ ins) := by
      rw [← List.map_append]; omega
    rw [this] at hy
    have := hf _ hidx
    rw [hx, hy] at this
    exact congrArg Res.ok (Option.some.inj this)
  · intro h idx hidx
    let bs := bitsOf (2 * vs.length) idx
    have hbl : bs.length = 2 * vs.length := bitsOf_length _ _
    have hbi : indexFromBits bs = idx := indexFromBits_bitsOf _ _ (by rw [← hlen]; exact hidx)
    let outs := bs.take vs.length
    let ins := bs.drop vs.length
    have ho : outs.length = vs.length := by simp [outs, hbl]; omega
    have hi : ins.length = vs.length := by simp [ins, hbl]; omega
    have happ : outs ++ ins = bs := List.take_append_drop _ _
    obtain ⟨x, hx, hat⟩ := at_full_spec m vs I hI hs ins outs hi ho
    obtain ⟨y, hy, hat'⟩ := at_full_spec m vs I hI hs (ins.map not) (outs.map not)
      (by simpa using hi) (by simpa using ho)
    have hnot := indexFromBits_not (outs ++ ins)
    rw [happ, hbl, ← hlen, hbi] at hnot
    rw [happ, hbi] at hx
    rw [← List.map_append, happ] at hy
    have e : indexFromBits (bs.map not) = m.length - 1 - idx := by omega
    rw [e] at hy
    have := h ins outs hi ho
    rw [hat, hat'] at this
    rw [hx, hy]
    exact congrArg some (Res.ok.inj this)


/-! ### offset variants -/

/-- `new_diagonal_offset`: never panics; accepted exactly when the table size fits a non-empty
variable list (whatever the signs: the minimum is subtracted first); the recorded offset is the
minimum entry and the stored table is the input minus that minimum (so its minimum is 0). -/
theorem newDiagonalOffset_spec (m : List Rat) (vs : List Nat) :
    Interaction.newDiagonalOffset m vs ≠ .panic ∧
    ((∃ r, Interaction.newDiagonalOffset m vs = .ok r) ↔ (vs ≠ [] ∧ vs.Nodup) ∧ m.length = 2 ^ vs.length) ∧
    (∀ I d, Interaction.newDiagonalOffset m vs = .ok (I, d) →
      d ∈ m ∧ (∀ x ∈ m, d ≤ x) ∧ I.mat = m.map (· - d) ∧ (0 : Rat) ∈ I.mat ∧
      Interaction.newDiagonal (m.map (· - d)) vs = .ok I) := by
  rw [newDiagonalOffset_eq]
  refine ⟨by split <;> simp, by split <;> simp_all, ?_⟩
  intro I d h
  split at h
  · rename_i hc
    have hne : m ≠ [] := by
      intro h0; rw [h0] at hc; simp at hc
      have := Nat.two_pow_pos vs.length; omega
    obtain ⟨d', hd', hmem, hmin⟩ := minFold_spec m hne
    rw [hd'] at h; simp only [Option.getD_some] at h
    injection h with h; injection h with hI hd
    subst hd; subst hI
    refine ⟨hmem, hmin, rfl, ?_, ?_⟩
    · exact List.mem_map.mpr ⟨d', hmem, by simp⟩
    · rw [newDiagonal_eq, if_pos]
      refine ⟨?_, hc.1, by simpa using hc.2⟩
      intro x hx
      obtain ⟨y, hy, rfl⟩ := List.mem_map.mp hx
      linarith [hmin y hy]
  · cases h

/-- `new_offset`: never panics; with a fitting size it subtracts the minimal diagonal entry from
the diagonal only, records it as the offset, and then validates like `new` (so it errors exactly
when an off-diagonal entry is negative or the variable list is empty). -/
theorem newOffset_spec (m : List Rat) (vs : List Nat) :
    Interaction.newOffset m vs ≠ .panic ∧
    (m.length ≠ 4 ^ vs.length → Interaction.newOffset m vs = .err) ∧
    (m.length = 4 ^ vs.length →
      ∃ d m', (d ∈ (diagIdxs vs.length).map (fun i => (m[i]?).getD 0)) ∧
        (∀ i ∈ diagIdxs vs.length, d ≤ (m[i]?).getD 0) ∧
        m'.length = m.length ∧
        (∀ j, j ∉ diagIdxs vs.length → m'[j]? = m[j]?) ∧
        (∀ j ∈ diagIdxs vs.length, m'[j]? = (m[j]?).map (· - d)) ∧
        Interaction.newOffset m vs = (Interaction.new m' vs).map (fun i => (i, d))) := by
  have h := Qmc.newOffset_spec m vs
  refine ⟨?_, ?_, h.2⟩
  · by_cases hl : m.length = 4 ^ vs.length
    · obtain ⟨d, m', _, _, _, _, _, heq⟩ := h.2 hl
      rw [heq]
      have := new_never_panics m' vs
      cases hn : Interaction.new m' vs <;> simp_all [Res.map, Res.bind]
    · rcases h.1 hl with e | ⟨_, _, _, e⟩ <;> rw [e] <;> simp
  · intro hl
    rcases h.1 hl with e | ⟨_, _, _, e⟩ <;> exact e

/-! ### non-vacuity: the hypotheses above are met by concrete non-trivial matrices -/

example : ∃ I, Interaction.new [1, 0, 0, 1] [3] = .ok I := by
  rw [new_accepts_iff]; refine ⟨?_, by simp, by simp⟩
  intro x hx; simp at hx; rcases hx with h | h | h <;> rw [h] <;> norm_num

example : Separated [1, 0, 0, 1] := by
  intro x hx y hy
  simp at hx hy
  rcases hx with rfl | rfl | rfl <;> rcases hy with rfl | rfl | rfl <;>
    first | (left; rfl) | (right; unfold eps absR; norm_num)

example : ¬ FlipSymmetric [1, 0, 0, 0] := by
  intro h; have := h 0 (by simp); simp at this

/-! ### The hypothesis `Separated` is necessary (finding F23)

`at_full_spec`, `isConstant_iff`, `sym_*_iff` assume that distinct entries differ by at least
`f64::EPSILON`, because the library compares entries with the ABSOLUTE tolerance
`(a - b).abs() < f64::EPSILON`. At the excluded point the property's literal reading fails, in the
model and (replayed by the harness, mode `tolwit`) in the real code: the one-variable matrix
`[0, ε⁻, 0, 0]` with `ε⁻ = (2^53 - 1)/2^105` (the binary64 number just below `f64::EPSILON`) is
accepted, classified constant although it is not, and the lookup of its non-zero entry returns 0. -/

def tolWitness : List Rat := [0, (9007199254740991 : Rat) / 40564819207303340847894502572032, 0, 0]

theorem tolerance_witness :
    Interaction.new tolWitness [0] = .ok (newResult tolWitness [0]) ∧
    (newResult tolWitness [0]).isConstant = true ∧
    ¬ AllEq tolWitness ∧
    (newResult tolWitness [0]).atP [true] [false] = .ok 0 ∧
    tolWitness[indexFromBits ([false] ++ [true])]? ≠ some 0 ∧
    ¬ Separated tolWitness := by
  refine ⟨?_, by decide +kernel, ?_, by decide +kernel, by decide +kernel, ?_⟩
  · rw [new_eq, if_pos]
    refine ⟨?_, by simp, by simp [tolWitness]⟩
    intro x hx
    simp only [tolWitness, List.mem_cons, List.not_mem_nil, or_false] at hx
    rcases hx with rfl | rfl | rfl | rfl <;> norm_num
  · intro h
    have := h 0 (by simp [tolWitness]) ((9007199254740991 : Rat) / 40564819207303340847894502572032)
      (by simp [tolWitness])
    norm_num at this
  · intro h
    have := h 0 (by simp [tolWitness]) ((9007199254740991 : Rat) / 40564819207303340847894502572032)
      (by simp [tolWitness])
    revert this; simp [eps, absR]; norm_num

end Qmc.C16
