/-
C18 — Pooled scratch buffers are always returned: no leak, exhaustion or stale data.
Property theorems only (helper lemmas: QmcProofs/Pool.lean; model: QmcModel/Pool.lean; the
capacities `Generated.caps` are regenerated from /repo/src/sse/fast_op_alloc.rs by
tools/extract_pool.py on every run of `./check C18`).

Reading guide.  An update is the word of pool events (`get t` / `ret t`) it performs.  Each update
kind has an allocation grammar transcribed from the Rust control flow (`grammar : Update → G`);
the correspondence run checks that the hook log of every real call is a word of its grammar
(`matchesD`).  The theorems say: every word — of any length — of every such grammar, and of any
concatenation of them, runs on the pool without "Out of instances" and restores the occupancy.
-/
import QmcProofs.Pool
import QmcModel.Generated.PoolCaps

namespace Qmc.C18
open Qmc Qmc.Pool

/-! ### soundness of the static summary (all grammars, all capacities, words of any length) -/

/-- If for every buffer type the grammar's summary is `(net 0, peak pk)` with `pk ≤ caps`, then
every word of the grammar runs from occupancy `caps` without exhaustion and ends at `caps`. -/
theorem summary_sound (g : G) (caps : Caps)
    (h : ∀ t, ∃ pk : Int, summary t g = some (0, pk) ∧ pk ≤ caps t) :
    ∀ w, Lang g w → run caps w = some caps :=
  fits_sound h

/-- The same for the words accepted by the executable matcher used in the correspondence. -/
theorem summary_sound_matcher (g : G) (caps : Caps) (h : fitsB g caps = true) :
    ∀ w, matchesD g w = true → run caps w = some caps :=
  fun w hm => fits_sound ((fitsB_iff g caps).1 h) w (matchesD_sound hm)

/-- The derivative matcher decides exactly the inductively defined language: no gap between
the language the theorems talk about and the one the correspondence matches against. -/
theorem matcher_exact (g : G) (w : List Ev) : matchesD g w = true ↔ Lang g w :=
  matchesD_iff g w

/-- What `run c w = some c` means, independently of grammars: for every type the word is
balanced and its peak demand is within the free instances. -/
theorem run_restores_iff (c : Caps) (w : List Ev) :
    run c w = some c ↔ ∀ t, netW t w = 0 ∧ peakW t w ≤ c t :=
  Pool.run_restores_iff c w

/-- A word that at some point needs more buffers of one type than are free fails
(so `run` really models "Out of instances": the summary bound is not just sufficient). -/
theorem exhaustion_iff_peak (c : Caps) (w : List Ev) :
    run c w = none ↔ ∃ t, (c t : Int) < peakW t w := by
  constructor
  · intro h
    apply Classical.byContradiction
    intro hne
    have hall : ∀ t, peakW t w ≤ c t := by
      intro t
      apply Classical.byContradiction
      intro hlt
      exact hne ⟨t, by omega⟩
    -- every counter runs through, hence so does the pool
    have : ∀ t, ∃ c' : Nat, runT t (c t) w = some c' ∧ (c' : Int) = c t - netW t w :=
      fun t => runT_of_peak t w (c t) (hall t)
    have hrun := run_of_runT w c (fun t => (this t).choose) (fun t => (this t).choose_spec.1)
    rw [h] at hrun
    exact absurd hrun (by simp)
  · rintro ⟨t, ht⟩
    cases hr : run c w with
    | none => rfl
    | some c' =>
      have := runT_of_run w c c' hr t
      rw [runT_none_of_peak t w (c t) ht] at this
      exact absurd this (by simp)

/-! ### each update kind fits the capacities found in the source (re-decided on every run) -/

set_option maxRecDepth 8192

/-- Metropolis diagonal sweep (`mutate_ps`). -/
theorem diag_ok : Fits (grammar .diag) Generated.caps := by decide
/-- Heat-bath diagonal sweep. -/
theorem heatbath_ok : Fits (grammar .heatbath) Generated.caps := by decide
/-- Cluster update, all branches (n = 0 exit, no constant op, any number of clusters, with and
without the weight function). -/
theorem cluster_ok : Fits (grammar .cluster) Generated.caps := by decide
/-- Directed-loop update (n = 0 exit, any number of `loop_body` iterations). -/
theorem loop_ok : Fits (grammar .loopUpdate) Generated.caps := by decide
/-- RVB update: any number of proposed updates (also zero), each accepted or rejected, any
number of sub-variable sweeps inside an accepted one. -/
theorem rvb_ok : Fits (grammar .rvb) Generated.caps := by decide
/-- `FastOps::new_from_ops` (empty input included). -/
theorem install_ok : Fits (grammar .install) Generated.caps := by decide
/-- `mutate_ops` over all variables. -/
theorem sweepOps_ok : Fits (grammar .sweepOpsAll) Generated.caps := by decide
/-- Sub-variable sweeps (`Varlist` cursor, with and without the position heap; `All` cursor
built by the caller). -/
theorem sweepVar_ok :
    Fits (grammar .sweepOpsVar) Generated.caps ∧ Fits (grammar .sweepPsVar) Generated.caps ∧
      Fits (grammar .sweepAllArgs) Generated.caps := by decide
/-- `QmcIsingGraph::timestep` (diagonal or heat-bath sweep; RVB if enabled; cluster). -/
theorem isingStep_ok : Fits (grammar .isingStep) Generated.caps := by decide
/-- `Qmc::timestep` (diagonal; loop if enabled; cluster if applicable). -/
theorem genericStep_ok : Fits (grammar .genericStep) Generated.caps := by decide

/-- All modelled public calls at once. -/
theorem every_update_ok : ∀ u : Update, Fits (grammar u) Generated.caps := by
  intro u
  have : ∀ u ∈ Update.all, Fits (grammar u) Generated.caps := by decide
  exact this u (Update.mem_all u)

/-! ### histories of any length -/

/-- **Main theorem.**  For every finite sequence of public calls (any kinds, any interleaving,
any length) and every event word that sequence can produce, the pool never runs out and its
occupancy afterwards equals the initial one. -/
theorem any_history_ok (calls : List Update) :
    ∀ w, Lang (history calls) w → run Generated.caps w = some Generated.caps := by
  induction calls with
  | nil => intro w h; cases h; rfl
  | cons u us ih =>
    intro w h
    obtain ⟨a, b, rfl, ha, hb⟩ := lang_seqL_cons_inv (a := grammar u) (as := us.map grammar) h
    rw [run_append, fits_sound (every_update_ok u) a ha]
    exact ih b hb

/-- … and it does not run out *midway* either: every prefix of such a word runs. -/
theorem any_history_no_exhaustion (calls : List Update) (w u v : List Ev)
    (h : Lang (history calls) w) (huv : w = u ++ v) : (run Generated.caps u).isSome = true := by
  have := any_history_ok calls w h
  rw [huv, run_append] at this
  cases hr : run Generated.caps u with
  | none => rw [hr] at this; simp at this
  | some _ => rfl

/-- Occupancy is restored after *each* call of a history, not only at the end. -/
theorem occupancy_after_each_call (calls : List Update) (u : Update) :
    ∀ w w', Lang (history calls) w → Lang (grammar u) w' →
      run Generated.caps (w ++ w') = some Generated.caps := by
  intro w w' h h'
  rw [run_append, any_history_ok calls w h]
  exact fits_sound (every_update_ok u) w' h'

/-! ### returned buffers are empty -/

/-- `BondContainer::clear` leaves the container observably empty (no keys, zero total weight,
every address `None`) whenever every occupied address belongs to a stored key. -/
theorem bondContainer_clear_clean (b : BC) (h : b.Covered) :
    b.clear.keys = [] ∧ b.clear.total = 0 ∧ (∀ i, i < b.clear.map.length → b.clear.map[i]? = some none) ∧
      b.clear.clean = true := by
  refine ⟨rfl, rfl, ?_, BC.clear_clean h⟩
  intro i hi
  rw [BC.clear_map_length] at hi
  exact BC.clear_map_none h i hi

/-- The hypothesis holds for a fresh container and for one just taken from the pool. -/
theorem bondContainer_covered_init : BC.new.Covered ∧ ∀ b : BC, b.clean = true → b.Covered :=
  ⟨BC.covered_new, fun _ h => BC.covered_of_clean h⟩

/-- Every mutating operation keeps the hypothesis. -/
theorem bondContainer_covered_preserved (b : BC) (h : b.Covered) (op : BC.Op) :
    (b.step op).Covered := by
  cases op with
  | insert k w => exact BC.covered_insert b k w h
  | remove k => exact BC.covered_remove b k h
  | clear => exact BC.covered_clear b h

/-- Hence: a container taken clean from the pool, used in any way through its public mutating
interface, and handed back, is observably empty after the `reset` of `return_instance`. -/
theorem bondContainer_any_use_then_reset_clean (b : BC) (hb : b.clean = true) (ops : List BC.Op) :
    ((ops.foldl BC.step b).clear).clean = true := by
  apply BC.clear_clean
  have : ∀ (ops : List BC.Op) (b : BC), b.Covered → (ops.foldl BC.step b).Covered := by
    intro ops
    induction ops with
    | nil => intro b h; exact h
    | cons o os ih => intro b h; exact ih _ (bondContainer_covered_preserved b h o)
  exact this ops b (BC.covered_of_clean hb)

/-- `Reset::reset` makes every buffer a borrower may hand back clean. -/
theorem reset_clean (b : Buf) (h : b.Ok) : b.reset.clean = true := by
  cases b with
  | vec n => rfl
  | heap n => rfl
  | bc b => exact BC.clear_clean h

/-- Pool with contents: `return_instance` = reset then push, `get_instance` = pop.  Starting
from clean instances, after any sequence of pops and pushes of admissible buffers every
instance in the free list is clean — so every borrowed buffer is empty. -/
theorem free_list_always_clean (acts : List (Option Buf)) (free : List Buf)
    (hok : ∀ b, some b ∈ acts → b.Ok) (hfree : ∀ x ∈ free, x.clean = true) :
    ∀ x ∈ acts.foldl (fun f a => match a with | none => f.tail | some b => retBuf f b) free,
      x.clean = true := by
  induction acts generalizing free with
  | nil => simpa using hfree
  | cons a acts ih =>
    simp only [List.foldl_cons]
    apply ih
    · intro b hb; exact hok b (List.mem_cons_of_mem _ hb)
    · cases a with
      | none => intro x hx; exact hfree x (List.mem_of_mem_tail hx)
      | some b =>
        intro x hx
        simp only [retBuf, List.mem_cons] at hx
        rcases hx with rfl | hx
        · exact reset_clean b (hok b (by simp))
        · exact hfree x hx

/-! ### snapshot / restore is a public call too -/

/-- A serde round trip of an allocator keeps the occupancy (only the count is stored, and exactly
that many default buffers are rebuilt) and every rebuilt buffer is clean.  Together with
`grammar .restore = ε` this makes snapshot/restore one more call kind of `any_history_ok`: the
restored object starts at the occupancy the original had, i.e. the capacities.  (The serde
field maps themselves are C14's subject: `Qmc.C14.alloc_snapshot_counts`,
`Qmc.C14.pool_restored_behaves`.) -/
theorem restore_keeps_occupancy_clean (t : Ty) (free : List Buf) :
    (restoreFree t (snapshotFree free)).length = free.length ∧
      ∀ x ∈ restoreFree t (snapshotFree free), x.clean = true := by
  refine ⟨by simp [restoreFree, snapshotFree], ?_⟩
  intro x hx
  simp only [restoreFree, List.mem_replicate] at hx
  rw [hx.2]
  cases t <;> decide

/-! ### non-vacuity and sensitivity -/

/-- The grammars are inhabited by realistic words: an Ising time step with one rejected and no
accepted RVB move … -/
example : matchesD (grammar .cluster)
    [.get .optUsize, .get .optUsize, .get .usize, .get .opside,
     .get .usize, .get .leg, .ret .usize, .ret .leg, .get .usize, .get .leg, .ret .usize, .ret .leg,
     .ret .usize, .ret .opside, .get .bool, .ret .optUsize, .ret .optUsize, .ret .bool] = true := by
  decide

/-- … the empty word for the early exits … -/
example : matchesD (grammar .cluster) [] = true ∧ matchesD (grammar .loopUpdate) [] = true ∧
    matchesD (grammar .install) [] = true := by decide

/-- … and a word with an early return before `return_instance(flips)` is *not* in the cluster
grammar. -/
example : matchesD (grammar .cluster)
    [.get .optUsize, .get .optUsize, .get .bool, .ret .optUsize, .ret .optUsize] = false := by decide

/-- Peak demand of an Ising time step per type (usize, bool, opside, leg, optUsize, f64,
bcUsize, bcVarPos, heap): exactly the capacities currently in the source — nothing to spare. -/
example : peaks (grammar .isingStep) =
    [some 10, some 2, some 1, some 1, some 4, some 1, some 2, some 2, some 1] := by decide

/-- One more borrow in the loop body that is never returned: the summary rejects it … -/
example : fitsB (opt (plus (seqL [get .leg, get .f64, get .usize, ret .leg, ret .f64])))
    Generated.caps = false := by decide

/-- … and the pool model agrees: eleven such iterations exhaust `Vec<usize>` (capacity 10). -/
example : run (fun _ => 10)
    ((List.replicate 11 [Ev.get .leg, .get .f64, .get .usize, .ret .leg, .ret .f64]).flatten) = none := by
  decide

/-- A capacity lowered by one (here `Vec<Option<usize>>` 4 → 3) breaks the RVB obligation. -/
example : fitsB (grammar .rvb) (upd (fun _ => 10) .optUsize 3) = false := by decide

/-- `clear` that forgets the addresses is caught by the invariant-based statement: without
`Covered` the conclusion fails (a stale address survives). -/
example : (BC.clear { map := [some 0], keys := [], total := 0 }).clean = false := by decide

end Qmc.C18
