/-
C11 — operator container bookkeeping always agrees with its contents.

Model: `QmcModel/FastOps.lean` (field-for-field `FastOpsTemplate`, `mutate_p`, sweeps, cursor).
`abs c` forgets every pointer; `canon nv nb s` recomputes every pointer, end, count and counter by
scanning the naive slot array `s`; `Inv c := c = canon … (abs c) ∧ WF (abs c)`.

PROVED here (all unbounded: any cutoff, any number of variables/bonds, any op sequence, any
callback):
* `refine_step`   a valid public mutation (`mutate_p` through a filled cursor, `mutate_ps`,
                  `mutate_ops`, `set_cutoff`) preserves `Inv` and commutes with `abs`
                  (ALL pointers: global chain, per-variable chains, ends, `n`, counters)
* `refine_seq`    induction over any list of mutations from the empty container
* `mutate_p_refines`  one `mutate_p` with its cursor (`last_p`, `last_vars`, `last_rels`): all four
                  paths (same-vars fast path, removal, insertion, removal+insertion); the cursor
                  is advanced to the scan cursor at `p + 1`
* `cursor_correct`    `fill_args_at_p(p, get_empty_args(All))` is the scan cursor
* `getters_eq_scan`   every getter of a container satisfying `Inv` equals the direct scan
* `interface_algorithms_agree`  any function of the container gives equal results on `c` and on
                  `canon (abs c)`
* global-chain versions that do not need the per-variable half: `mutate_p_global`,
  `refine_step_partial`, `refine_step_partial_of_Inv`, `refine_seq_partial`,
  `cursor_correct_partial`; `new_inv`, `inv_implies_global`, `endsOK_of_inv`
* `install_refines`   `new_from_ops` on a strictly increasing op list builds the canonical container;
                  `install_rejects_iff` / `strictIncr_iff`: the model rejects (Rust: `assert!` panics)
                  exactly the lists whose positions are not strictly increasing
* `refine_step` also covers `sweepArgs` (args = `get_empty_args(All | Varlist | Args)` +
                  NON-hint `fill_args_at_p` + `mutate_subsection(…, Some(args))`) and `sweepOpsArgsAll`;
                  `sub_cursor_correct`, `varlist_unfilled`, `mutate_p_sub_refines` (Varlist cursors),
                  `by_var_eq_scan` (`get_previous/next_p_for_var`), `nav_round_trip`, `nav_round_trip_back`
* `nth_eq_scan`       `get_nth_p(k)` is the `k % n`-th occupied slot
NOT proved (correspondence + oracle only, see design_notes/C11.md): the heap branch of
`mutate_subsection_ops` under a `Varlist` cursor, `fill_args_at_p_with_hint` (scan specification).
EXCLUDED by `WF` (documented witnesses below): ops with a repeated variable, ops without
variables.
-/
import QmcProofs.FastOpsSubFull

namespace Qmc.C11
open Qmc Qmc.FastOps

/-! ## getters -/

theorem getters_canon_aux (c : FastOps) (nv : Nat) (nb : Option Nat) (s : Slots)
    (hc : c = canon nv nb s) (hwf : WF nv nb s) :
    c.getN = countOps s ∧
    c.getCutoff = s.length ∧
    (∀ p, c.getPth p = slotAt s p) ∧
    (∀ b, c.getCount b = countBond s b) ∧
    c.getFirstP = firstOcc (occAt s) s.length ∧
    c.getLastP = lastOcc (occAt s) s.length ∧
    (∀ v, v < nv →
      c.getFirstPForVar v = firstRel s v ∧ c.getLastPForVar v = lastRel s v ∧
      (c.doesVarHaveOps v = true ↔ ∃ p op, slotAt s p = some op ∧ v ∈ op.vars)) ∧
    (∀ p nd, c.getNode p = some nd →
      getPreviousP nd = prevOcc (occAt s) p ∧
      getNextP nd = nextOcc (occAt s) s.length p ∧
      ∀ k v, nd.op.vars[k]? = some v →
        getPreviousPForRelVar k nd = prevRel s v p ∧
        getNextPForRelVar k nd = nextRel s v p) := by
  subst hc
  refine ⟨rfl, by simp [getCutoff], ?_, ?_, ?_, ?_, ?_, ?_⟩
  · intro p; rw [← slotAt_abs, abs_canon]
  · intro b
    exact getCount_canon nv nb s hwf b
  · exact getFirstP_canon nv nb s
  · exact getLastP_canon nv nb s
  · intro v hv
    exact ⟨getFirstPForVar_canon nv nb s v hv, getLastPForVar_canon nv nb s v hv,
      doesVarHaveOps_canon nv nb s v hv⟩
  · intro p nd hnd
    rw [getNode_canon] at hnd
    cases hsp : slotAt s p with
    | none => rw [hsp] at hnd; cases hnd
    | some op =>
      rw [hsp] at hnd
      simp only [Option.map_some, Option.some.injEq] at hnd
      subst hnd
      refine ⟨rfl, rfl, ?_⟩
      intro k v hk
      simp only [canonNode] at hk
      simp [getPreviousPForRelVar, getNextPForRelVar, canonNode, List.getElem?_map, hk]

/-- every getter equals the direct scan of the slots -/
theorem getters_eq_scan (c : FastOps) (h : Inv c) :
    c.getN = countOps c.abs ∧
    c.getCutoff = c.abs.length ∧
    (∀ p, c.getPth p = slotAt c.abs p) ∧
    (∀ b, c.getCount b = countBond c.abs b) ∧
    c.getFirstP = firstOcc (occAt c.abs) c.abs.length ∧
    c.getLastP = lastOcc (occAt c.abs) c.abs.length ∧
    (∀ v, v < c.getNvars →
      c.getFirstPForVar v = firstRel c.abs v ∧ c.getLastPForVar v = lastRel c.abs v ∧
      (c.doesVarHaveOps v = true ↔ ∃ p op, slotAt c.abs p = some op ∧ v ∈ op.vars)) ∧
    (∀ p nd, c.getNode p = some nd →
      getPreviousP nd = prevOcc (occAt c.abs) p ∧
      getNextP nd = nextOcc (occAt c.abs) c.abs.length p ∧
      ∀ k v, nd.op.vars[k]? = some v →
        getPreviousPForRelVar k nd = prevRel c.abs v p ∧
        getNextPForRelVar k nd = nextRel c.abs v p) :=
  getters_canon_aux c c.getNvars c.nbonds c.abs h.1 h.2

/-- corollary: every algorithm written against the container interface behaves identically on
the optimized container and on the container recomputed from the naive slot array -/
theorem interface_algorithms_agree {α : Sort _} (alg : FastOps → α) (c : FastOps) (h : Inv c) :
    alg c = alg (canon c.getNvars c.nbonds c.abs) :=
  congrArg alg h.1

/-! ## the empty container, and what `Inv` implies for the global half -/

theorem new_inv (nv : Nat) (nb : Option Nat) : Inv (FastOps.new nv nb) := by
  have hnv : (FastOps.new nv nb).getNvars = nv := by simp [FastOps.new, getNvars]
  have hnb : (FastOps.new nv nb).nbonds = nb := by
    cases nb <;> simp [FastOps.new, nbonds]
  have habs : (FastOps.new nv nb).abs = [] := rfl
  refine ⟨?_, ?_⟩
  · rw [hnv, hnb, habs]; exact new_eq_canon nv nb
  · rw [habs]; intro q op h; simp [slotAt] at h

theorem inv_implies_global (c : FastOps) (h : Inv c) : GInv c.nbonds c := by
  unfold GInv
  conv => lhs; rw [h.1]
  exact canon_g _ _ _

/-- under `Inv` the early exit of `fill_args_at_p` is only taken on an empty container
(this is where "every op has at least one variable" is needed) -/
theorem endsOK_of_inv (c : FastOps) (h : Inv c) : EndsOK c := by
  intro hu q
  cases hocc : occAt c.abs q with
  | false => rfl
  | true =>
    exfalso
    obtain ⟨op, hop⟩ := occ_iff.mp hocc
    obtain ⟨hne, _, hlt, _⟩ := h.2 q op hop
    cases hv : op.vars with
    | nil => exact hne hv
    | cons v t =>
      have hmem : v ∈ op.vars := by rw [hv]; simp
      have hvn := hlt v hmem
      have hoccv : occVAt c.abs v q = true := by unfold occVAt; rw [hop]; simpa using hmem
      obtain ⟨f, hf⟩ := first_some_of_mem hoccv (slotAt_lt hop)
      obtain ⟨l, hl⟩ := last_some_of_mem hoccv (slotAt_lt hop)
      have hend : c.varEnd v = canonVarEnd c.abs v := by
        conv => lhs; rw [h.1]
        exact varEnd_canon _ _ _ v hvn
      have hsome : (c.varEnds[v]?).join.isSome = true := by
        have : c.varEnd v = (c.varEnds[v]?).join := rfl
        rw [← this, hend]
        unfold canonVarEnd firstRel lastRel
        rw [hf, hl]
        rfl
      have hvl : v < c.varEnds.length := hvn
      have hmem2 : c.varEnds[v] ∈ c.varEnds.filter Option.isSome := by
        rw [List.mem_filter]
        refine ⟨List.getElem_mem hvl, ?_⟩
        rw [List.getElem?_eq_getElem hvl] at hsome
        simpa using hsome
      have : (c.varEnds.filter Option.isSome).length = 0 := hu
      rw [List.length_eq_zero_iff] at this
      rw [this] at hmem2
      cases hmem2

/-! ## the global chain -/

/-- one `mutate_p` (callback answer `new`) with its cursor: if the global bookkeeping agrees
with the slots and `last_p` is the scan cursor at `p`, then afterwards the global bookkeeping
agrees with the updated slots, the slots are the naive update, and `last_p` is the scan cursor
at `p + 1`.  Covers the same-vars fast path, removal, insertion and removal+insertion. -/
theorem mutate_p_global {nb : Option Nat} {c : FastOps} {p : Nat} {new : Option (Option Op)}
    {a : Cursor} (h : GInv nb c) (hpL : p < c.ops.length) (ha : a.lastP = prevOcc (occAt c.abs) p) :
    GInv nb (mutatePWith c p new a).1 ∧ (mutatePWith c p new a).1.abs = writeA c.abs p new ∧
      (mutatePWith c p new a).2.lastP = prevOcc (occAt (writeA c.abs p new)) (p + 1) :=
  mutatePWith_global h hpL ha

/-- `fill_args_at_p(p, get_empty_args(All))` on a consistent container: `last_p` is the last
occupied slot strictly below `p` -/
theorem cursor_correct_partial (c : FastOps) (h : Inv c) (p : Nat) (u : Nat) :
    (c.fillArgsAtP p c.getEmptyArgsAll).lastP = (cursorByScan c.getNvars c.abs p u).lastP := by
  have hE := endsOK_of_inv c h
  exact fillArgsAtP_lastP (inv_implies_global c h) p _ rfl
    (fun hu => prevOcc_none_iff.mpr (fun k _ => hE hu k))

theorem endsOK_grow (c : FastOps) (h : EndsOK c) (k : Nat) : EndsOK (c.grow k) := by
  unfold grow
  split
  · intro hu q
    have : ({ c with ops := c.ops ++ List.replicate (k - c.ops.length) none } : FastOps).abs
        = c.abs ++ List.replicate (k - c.ops.length) none := by simp [abs]
    rw [this, occ_append_none]
    exact h hu q
  · exact h

/-- `refine_step`, global half: a valid mutation (`setSlot`, `sweep`, `setCutoff`; callbacks
observing the global view) preserves the global invariant and commutes with the abstraction -/
theorem refine_step_partial {τ : Type} (nv : Nat) (nb : Option Nat) (c : FastOps) (m : Mut τ)
    (h : GInv nb c) (hE : EndsOK c) (hm : m.Valid c) (hobs : m.GlobalObs) :
    GInv nb (applyC c m) ∧ (applyC c m).abs = applyA nv nb c.abs m := by
  cases m with
  | setSlot p new =>
    obtain ⟨hp, _⟩ := hm
    have ha := fillArgsAtP_lastP h p c.getEmptyArgsAll rfl
      (fun hu => prevOcc_none_iff.mpr (fun k _ => hE hu k))
    obtain ⟨h1, h2, _⟩ := mutatePWith_global (new := some new) h hp ha
    exact ⟨h1, h2⟩
  | sweep ps pe f t =>
    obtain ⟨hle, hlt, _⟩ := hm
    obtain ⟨hg, habs⟩ := grow_global h pe
    have hE' := endsOK_grow c hE pe
    have ha := fillArgsAtP_lastP hg ps (c.grow pe).getEmptyArgsAll rfl
      (fun hu => prevOcc_none_iff.mpr (fun k _ => hE' hu k))
    have hlen : ps + (pe - ps) ≤ (c.grow pe).ops.length := by
      unfold grow; split
      · simp; omega
      · omega
    obtain ⟨h1, h2, _⟩ := sweepLoop_global f hobs nv (pe - ps) ps (c.grow pe) _ t hg hlen ha
    simp only [applyC, applyA, mutateSubsection]
    rw [habs] at h2
    exact ⟨h1, h2⟩
  | sweepOps ps pe f t => exact absurd hobs (by simp [Mut.GlobalObs])
  | setCutoff k =>
    obtain ⟨h1, h2⟩ := grow_global h k
    exact ⟨h1, h2⟩
  | sweepArgs src via ps pe f t => exact absurd hobs (by simp [Mut.GlobalObs])
  | sweepOpsArgsAll via ps pe f t => exact absurd hobs (by simp [Mut.GlobalObs])

/-- starting from a fully consistent container, one valid mutation yields a container whose
global bookkeeping is consistent and whose contents are the naive result -/
theorem refine_step_partial_of_Inv {τ : Type} (c : FastOps) (m : Mut τ) (h : Inv c)
    (hm : m.Valid c) (hobs : m.GlobalObs) :
    GInv c.nbonds (applyC c m) ∧ (applyC c m).abs = applyA c.getNvars c.nbonds c.abs m :=
  refine_step_partial c.getNvars c.nbonds c m (inv_implies_global c h) (endsOK_of_inv c h) hm hobs

/-- `refine_seq`, global half: induction over any list of mutations.  The only input from the
per-variable half is `EndsOK` of each intermediate container. -/
theorem refine_seq_partial {τ : Type} (nv : Nat) (nb : Option Nat) (ms : List (Mut τ)) (c0 : FastOps)
    (h0 : GInv nb c0)
    (hv : ∀ pre m post, ms = pre ++ m :: post →
      EndsOK (pre.foldl applyC c0) ∧ m.Valid (pre.foldl applyC c0) ∧ m.GlobalObs) :
    GInv nb (ms.foldl applyC c0) ∧ (ms.foldl applyC c0).abs = ms.foldl (applyA nv nb) c0.abs := by
  induction ms generalizing c0 with
  | nil => exact ⟨h0, rfl⟩
  | cons m t ih =>
    obtain ⟨hE, hm, hobs⟩ := hv [] m t rfl
    obtain ⟨h1, h2⟩ := refine_step_partial nv nb c0 m h0 hE hm hobs
    simp only [List.foldl_cons]
    rw [← h2]
    apply ih _ h1
    intro pre m' post e
    have := hv (m :: pre) m' post (by rw [e]; rfl)
    simpa using this

/-! ## the full refinement -/

/-- one `mutate_p` (callback answer `new`) on a consistent container with the scan cursor:
the result is the canonical container of the naive update — every pointer — and the cursor is the
scan cursor one slot further.  Covers the same-vars fast path, removal, insertion and
removal+insertion. -/
theorem mutate_p_refines (nv : Nat) (nb : Option Nat) (s : Slots) (p u : Nat)
    (new : Option (Option Op)) (hpL : p < s.length) (hwf : WF nv nb s) (hnew : ActOK nv nb new) :
    mutatePWith (canon nv nb s) p new (cursorByScan nv s p u)
      = (canon nv nb (writeA s p new), cursorByScan nv (writeA s p new) (p + 1) u) :=
  mutatePWith_canon nv nb s p u new hpL hwf hnew

/-- `cursor_correct`: `fill_args_at_p` on a consistent container is the scan cursor
(`unfilled`, bookkeeping of the walk, is whatever the walk left) -/
theorem cursor_correct (nv : Nat) (nb : Option Nat) (s : Slots) (p : Nat) (hwf : WF nv nb s) :
    (canon nv nb s).fillArgsAtP p (canon nv nb s).getEmptyArgsAll
      = cursorByScan nv s p ((canon nv nb s).fillArgsAtP p (canon nv nb s).getEmptyArgsAll).unfilled :=
  fillArgsAtP_canon nv nb s p hwf

theorem applyA_sweepOps {τ : Type} (nv : Nat) (nb : Option Nat) (s : Slots) (ps pe : Nat)
    (f : FastOps → Op → Nat → τ → Option (Option Op) × τ) (t : τ) :
    applyA nv nb s (.sweepOps ps pe f t)
      = (sweepLoopA nv nb (opsWrap f) ps (min (pe + 1) (growA s pe).length - ps) (growA s pe) (t, ps)).1 := by
  rfl

/-- the refinement step on the canonical container -/
theorem refine_step_canon {τ : Type} (nv : Nat) (nb : Option Nat) (s : Slots) (m : Mut τ)
    (hwf : WF nv nb s) (hm : m.Valid (canon nv nb s)) :
    applyC (canon nv nb s) m = canon nv nb (applyA nv nb s m) ∧ WF nv nb (applyA nv nb s m) := by
  cases m with
  | setSlot p new =>
    obtain ⟨hp, hact⟩ := hm
    rw [length_canon] at hp
    rw [getNvars_canon, nbonds_canon] at hact
    refine ⟨setSlot_canon nv nb s p new hwf hp hact, ?_⟩
    exact WF_set nv nb s p new hwf (fun o ho => hact o (by rw [ho]))
  | sweep ps pe f t =>
    obtain ⟨hle, _, hf⟩ := hm
    rw [getNvars_canon, nbonds_canon] at hf
    obtain ⟨h1, _, h3⟩ := mutateSubsection_canon nv nb s ps pe t f hwf hle hf
    exact ⟨h1, h3⟩
  | sweepOps ps pe f t =>
    obtain ⟨hle, hlt, hf⟩ := hm
    rw [getNvars_canon, nbonds_canon] at hf
    rw [length_canon] at hlt
    obtain ⟨h1, h2⟩ := mutateSubsectionOps_canon nv nb s ps pe t f hwf hle hlt hf
    rw [applyA_sweepOps]
    exact ⟨h1, h2⟩
  | setCutoff k =>
    exact ⟨grow_canon nv nb s k, WF_growA nv nb s k hwf⟩
  | sweepArgs src via ps pe f t =>
    cases src with
    | all =>
      obtain ⟨hle, _, hf⟩ := hm
      rw [getNvars_canon, nbonds_canon] at hf
      exact sweepArgsAll_canon nv nb s via ps pe t f hwf hle hf
    | varlist vs =>
      obtain ⟨hle, _, hn, hlt, hdom, hf⟩ := hm
      rw [getNvars_canon, nbonds_canon] at hf
      rw [getNvars_canon] at hlt
      refine sweepArgsVarlist_canon nv nb s vs via ps pe t f hwf hle hn hlt ?_ hf
      cases hdom with
      | inl h =>
        left
        obtain ⟨v, hv, hops⟩ := h
        refine ⟨v, hv, ?_⟩
        obtain ⟨q, op, hq, hmem⟩ := (doesVarHaveOps_canon nv nb s v (hlt v hv)).mp hops
        exact hasOpsV_of_occV (occV_of_mem hq hmem)
      | inr h =>
        right
        rw [prevOcc_none_iff]
        intro k hk
        have := h k hk
        rw [← slotAt_abs, abs_canon] at this
        exact occ_false_of_slotAt this
  | sweepOpsArgsAll via ps pe f t =>
    obtain ⟨hle, hlt, hf⟩ := hm
    rw [getNvars_canon, nbonds_canon] at hf
    rw [length_canon] at hlt
    exact sweepOpsArgsAll_canon nv nb s via ps pe t f hwf hle hlt hf

/-- `refine_step`: a valid mutation preserves the invariant and commutes with the abstraction -/
theorem refine_step {τ : Type} (c : FastOps) (m : Mut τ) (h : Inv c) (hm : m.Valid c) :
    Inv (applyC c m) ∧ (applyC c m).abs = applyA c.getNvars c.nbonds c.abs m := by
  obtain ⟨hc, hwf⟩ := h
  generalize hnv : c.getNvars = nv at hc hwf ⊢
  generalize hnb : c.nbonds = nb at hc hwf ⊢
  generalize hs : c.abs = s at hc hwf ⊢
  subst hc
  obtain ⟨h1, h2⟩ := refine_step_canon nv nb s m hwf hm
  rw [h1, abs_canon]
  exact ⟨inv_canon nv nb _ h2, rfl⟩

/-- the number of variables and of bond counters never changes -/
theorem applyC_shape {τ : Type} (c : FastOps) (m : Mut τ) (h : Inv c) (hm : m.Valid c) :
    (applyC c m).getNvars = c.getNvars ∧ (applyC c m).nbonds = c.nbonds := by
  obtain ⟨hc, hwf⟩ := h
  generalize hnv : c.getNvars = nv at hc hwf ⊢
  generalize hnb : c.nbonds = nb at hc hwf ⊢
  generalize hs : c.abs = s at hc hwf ⊢
  subst hc
  obtain ⟨h1, _⟩ := refine_step_canon nv nb s m hwf hm
  rw [h1, getNvars_canon, nbonds_canon]
  exact ⟨rfl, rfl⟩

/-- `refine_seq`: any sequence of valid mutations, from any consistent container (in particular
the empty one, `new_inv`) -/
theorem refine_seq {τ : Type} (ms : List (Mut τ)) (c0 : FastOps) (h0 : Inv c0)
    (hv : ∀ pre (m : Mut τ) post, ms = pre ++ m :: post → m.Valid (pre.foldl applyC c0)) :
    Inv (ms.foldl applyC c0) ∧
      (ms.foldl applyC c0).abs = ms.foldl (applyA c0.getNvars c0.nbonds) c0.abs := by
  induction ms generalizing c0 with
  | nil => exact ⟨h0, rfl⟩
  | cons m t ih =>
    have hm := hv [] m t rfl
    obtain ⟨h1, h2⟩ := refine_step c0 m h0 hm
    obtain ⟨e1, e2⟩ := applyC_shape c0 m h0 hm
    simp only [List.foldl_cons]
    have := ih (applyC c0 m) h1 (by
      intro pre m' post e
      have := hv (m :: pre) m' post (by rw [e]; rfl)
      simpa using this)
    rw [e1, e2, h2] at this
    exact this

/-- from the empty container -/
theorem refine_seq_new {τ : Type} (nv : Nat) (nb : Option Nat) (ms : List (Mut τ))
    (hv : ∀ pre (m : Mut τ) post, ms = pre ++ m :: post → m.Valid (pre.foldl applyC (FastOps.new nv nb))) :
    Inv (ms.foldl applyC (FastOps.new nv nb)) ∧
      (ms.foldl applyC (FastOps.new nv nb)).abs = ms.foldl (applyA nv nb) [] := by
  have := refine_seq ms (FastOps.new nv nb) (new_inv nv nb) hv
  have hnv : (FastOps.new nv nb).getNvars = nv := by simp [FastOps.new, getNvars]
  have hnb : (FastOps.new nv nb).nbonds = nb := by cases nb <;> simp [FastOps.new, nbonds]
  rw [hnv, hnb] at this
  exact this

/-- corollary: after any valid history every getter equals the direct scan of the naive slot
array obtained by replaying the history on a plain list -/
theorem getters_after_history {τ : Type} (nv : Nat) (nb : Option Nat) (ms : List (Mut τ))
    (hv : ∀ pre (m : Mut τ) post, ms = pre ++ m :: post → m.Valid (pre.foldl applyC (FastOps.new nv nb))) :
    let c := ms.foldl applyC (FastOps.new nv nb)
    let s := ms.foldl (applyA nv nb) []
    c.getN = countOps s ∧ c.getFirstP = firstOcc (occAt s) s.length ∧ c.getLastP = lastOcc (occAt s) s.length ∧
      (∀ p, c.getPth p = slotAt s p) := by
  obtain ⟨h1, h2⟩ := refine_seq_new nv nb ms hv
  have g := getters_eq_scan _ h1
  rw [h2] at g
  exact ⟨g.1, g.2.2.2.2.1, g.2.2.2.2.2.1, g.2.2.1⟩

/-! ## bulk install, `get_nth_p` -/

/-- the naive slot array of an op list -/
def slotsOf (l : List (Nat × Op)) : Slots :=
  l.foldl (fun s po => s.set po.1 (some po.2)) (List.replicate ((l.map (·.1)).foldl max 0 + 1) none)

/-- `FastOps::new_from_ops` (`clear_and_install_ops`) on a strictly increasing list of well-formed
ops builds exactly the canonical container of the naive slot array, hence satisfies `Inv`.
(The Rust `assert!`s the strict increase; an empty list returns the empty container.) -/
theorem install_refines (nv : Nat) (l : List (Nat × Op)) (hne : l ≠ [])
    (hsorted : (l.map (·.1)).Pairwise (· < ·)) (hok : ∀ x ∈ l, OpOK nv none x.2) :
    FastOps.newFromOps nv l = canon nv none (slotsOf l) :=
  newFromOps_canon nv l hne hsorted hok

/-- the decidable precondition of `new_from_ops`: the per-element `assert!(p > last_p)` is exactly
"positions strictly increasing" (no descending pair, no duplicate) -/
theorem strictIncr_iff (l : List Nat) : strictIncr l = true ↔ l.Pairwise (· < ·) := by
  induction l with
  | nil => simp [strictIncr]
  | cons a t ih =>
    cases t with
    | nil => simp [strictIncr]
    | cons b t' =>
      simp only [strictIncr, Bool.and_eq_true, decide_eq_true_eq, ih, List.pairwise_cons]
      constructor
      · rintro ⟨hab, hb, ht⟩
        refine ⟨?_, hb, ht⟩
        intro x hx
        cases hx with
        | head => exact hab
        | tail _ hx => exact Nat.lt_trans hab (hb x hx)
      · rintro ⟨ha, hb, ht⟩
        exact ⟨ha b (by simp), hb, ht⟩

/-- the model of `new_from_ops` rejects (`none` = the Rust `assert!` panics) EXACTLY the lists whose
positions are not strictly increasing: descending pairs, duplicates, one inversion anywhere -/
theorem install_rejects_iff (nv : Nat) (l : List (Nat × Op)) :
    FastOps.newFromOpsChecked nv l = none ↔ ¬ (l.map (·.1)).Pairwise (· < ·) := by
  unfold FastOps.newFromOpsChecked
  rw [← strictIncr_iff]
  cases strictIncr (l.map (·.1)) <;> simp

/-- an accepted well-formed list is installed as the canonical container -/
theorem install_checked_refines (nv : Nat) (l : List (Nat × Op)) (hne : l ≠ [])
    (hsorted : (l.map (·.1)).Pairwise (· < ·)) (hok : ∀ x ∈ l, OpOK nv none x.2) :
    FastOps.newFromOpsChecked nv l = some (canon nv none (slotsOf l)) := by
  unfold FastOps.newFromOpsChecked
  rw [(strictIncr_iff _).mpr hsorted]
  simp only [if_true]
  congr 1
  exact install_refines nv l hne hsorted hok

theorem install_empty (nv : Nat) : FastOps.newFromOps nv [] = FastOps.new nv none := rfl

/-- `get_nth_p(k)` is the `k % n`-th occupied slot (counting from 0, in slot order) -/
theorem nth_eq_scan (c : FastOps) (h : Inv c) (hn : 0 < c.n) (k : Nat) :
    (occPositions c.abs)[k % c.n]? = some (c.getNthP k) := by
  obtain ⟨hc, _⟩ := h
  have hcn : c.n = countOps c.abs := by
    conv => lhs; rw [hc]
    rfl
  have := getNthP_canon c.getNvars c.nbonds c.abs (by rw [← hcn]; exact hn) k
  rw [← hcn, ← hc] at this
  exact this

/-- `fill_args_at_p(p, get_empty_args(Varlist(vars)))` — the NON-hint fill of a sub-variable
cursor — on a consistent container: `last_p` is the last occupied slot below `p`, subvar `i` ↔
`vars[i]`, and `last_vars[i]`/`last_rels[i]` are the last op below `p` containing `vars[i]` with its
relative index.  `unfilled` (number of LISTED variables with ops) lets the walk stop early without
losing an entry.  Hypothesis `hdom` is the documented boundary of this API combination. -/
theorem sub_cursor_correct (nv : Nat) (nb : Option Nat) (s : Slots) (vars : List Nat) (via : Bool) (p : Nat)
    (hwf : WF nv nb s) (hn : vars.Nodup) (hlt : ∀ v, v ∈ vars → v < nv)
    (hdom : (∃ v, v ∈ vars ∧ hasOpsV s v = true) ∨ prevOcc (occAt s) p = none) :
    SubCur ((canon nv nb s).fillArgsAtP p ((canon nv nb s).emptyArgsOf (.varlist vars) via)) vars s p := by
  rw [emptyArgsOf_varlist]
  obtain ⟨h0, hlp0, hu0⟩ := emptyArgsVarlist_WGS nv nb vars hn hlt s p
  apply fillArgsAtP_sub nv nb vars hn s p hwf _ h0 hlp0
  intro hu
  cases hdom with
  | inr h => exact h
  | inl h =>
    exfalso
    obtain ⟨v, hv, hops⟩ := h
    rw [hu0] at hu
    have : v ∈ vars.filter (hasOpsV s) := by rw [List.mem_filter]; exact ⟨hv, hops⟩
    rw [List.length_eq_zero_iff] at hu
    rw [hu] at this; cases this

/-- the counter `get_empty_args(Varlist(vars))` starts from: the number of LISTED variables that
have an op (not of subset positions) -/
theorem varlist_unfilled (nv : Nat) (nb : Option Nat) (s : Slots) (vars : List Nat)
    (hn : vars.Nodup) (hlt : ∀ v, v ∈ vars → v < nv) :
    ((canon nv nb s).getEmptyArgsVarlist vars).unfilled = (vars.filter (hasOpsV s)).length :=
  (emptyArgsVarlist_WGS nv nb vars hn hlt s 0).2.2

/-- one `mutate_p` with a sub-variable cursor: same container result as with the full cursor,
cursor advanced, provided the change stays inside the listed variables -/
theorem mutate_p_sub_refines (nv : Nat) (nb : Option Nat) (vars : List Nat) (hn : vars.Nodup)
    (hlt : ∀ v, v ∈ vars → v < nv) (s : Slots) (p : Nat) (new : Option (Option Op)) (a : Cursor)
    (hpL : p < s.length) (hwf : WF nv nb s) (hnew : SubActOK nv nb vars (slotAt s p) new)
    (ha : SubCur a vars s p) :
    (mutatePWith (canon nv nb s) p new a).1 = canon nv nb (writeA s p new) ∧
    SubCur (mutatePWith (canon nv nb s) p new a).2 vars (writeA s p new) (p + 1) ∧
    WF nv nb (writeA s p new) :=
  mutatePWith_sub nv nb vars hn hlt s p new a hpL hwf hnew ha

/-- the BY-VARIABLE accessors `get_previous_p_for_var` / `get_next_p_for_var` (default methods of
`LoopUpdater`): `Err` exactly when the variable is not on the node, otherwise the previous / next
op containing that variable with its relative index, by direct scan -/
theorem by_var_eq_scan (c : FastOps) (h : Inv c) (p : Nat) (nd : Node) (hnd : c.getNode p = some nd)
    (v : Nat) :
    getPreviousPForVar v nd = (if v ∈ nd.op.vars then some (prevRel c.abs v p) else none) ∧
    getNextPForVar v nd = (if v ∈ nd.op.vars then some (nextRel c.abs v p) else none) := by
  have g := (getters_eq_scan c h).2.2.2.2.2.2.2 p nd hnd
  unfold getPreviousPForVar getNextPForVar Op.indexOfVar
  by_cases hv : v ∈ nd.op.vars
  · have hlt := List.idxOf_lt_length_of_mem hv
    have hk : nd.op.vars[nd.op.vars.idxOf v]? = some v := by
      rw [List.getElem?_eq_getElem hlt, List.getElem_idxOf hlt]
    obtain ⟨h1, h2⟩ := g.2.2 _ v hk
    simp [hv, hlt, h1, h2]
  · have : ¬ nd.op.vars.idxOf v < nd.op.vars.length := by
      rw [List.idxOf_lt_length_iff]; exact hv
    simp [hv, this]

/-- forward/backward agreement of the per-variable navigation (a fact about the scans, hence by
`by_var_eq_scan` about the container): the predecessor of the successor is the node itself -/
theorem nav_round_trip (s : Slots) (v p : Nat) (x : PRel) (hp : occVAt s v p = true)
    (hx : nextRel s v p = some x) : prevRel s v x.p = some (relAt s v p) := by
  unfold nextRel at hx
  unfold prevRel
  cases hn : nextOcc (occVAt s v) s.length p with
  | none => rw [hn] at hx; cases hx
  | some q =>
    rw [hn] at hx
    simp only [Option.map_some, Option.some.injEq] at hx
    subst hx
    obtain ⟨_, hqL, hq⟩ := nextOcc_gt hn
    have : prevOcc (occVAt s v) q = some p := (prev_next_adj hp hq hqL).mpr hn
    simp [relAt, this]

theorem nav_round_trip_back (s : Slots) (v p : Nat) (x : PRel) (hp : occVAt s v p = true)
    (hx : prevRel s v p = some x) : nextRel s v x.p = some (relAt s v p) := by
  unfold prevRel at hx
  unfold nextRel
  cases hn : prevOcc (occVAt s v) p with
  | none => rw [hn] at hx; cases hx
  | some q =>
    rw [hn] at hx
    simp only [Option.map_some, Option.some.injEq] at hx
    subst hx
    obtain ⟨_, hq⟩ := prevOcc_lt hn
    have : nextOcc (occVAt s v) s.length q = some p := (prev_next_adj hq hp (occV_lt hp)).mp hn
    simp [relAt, this]

/-! ## non-vacuity and excluded points -/

def opA : Op := Op.diagonal [0, 1] 1 [false, false] false
def opB : Op := Op.offdiagonal [1, 2] 2 [true, false] [false, true] false
def opC : Op := Op.diagonal [2] 0 [true] true

/-- a concrete non-trivial history (insert, insert, sweep with removal + insertion, fast path) -/
def demo : FastOps :=
  let c0 := applyC (FastOps.new 3 (some 4)) (.setCutoff 6 : Mut Nat)
  let c1 := applyC c0 (.setSlot 2 (some opA) : Mut Nat)
  let c2 := applyC c1 (.setSlot 4 (some opB) : Mut Nat)
  let c3 := applyC c2 (.sweep 1 4 (fun _ _ i => (([none, some none, some (some opC)] : List _).getD i none, i + 1)) 0 : Mut Nat)
  applyC c3 (.setSlot 4 (some { opB with bond := 3 }) : Mut Nat)

example : demo.abs = [none, none, none, some opC, some { opB with bond := 3 }, none] := by decide
example : demo = canon 3 (some 4) demo.abs := by decide
example : demo.n = 2 ∧ demo.pEnds = some (3, 4) ∧ demo.bondCounters = some [1, 0, 0, 1] := by decide

example : FastOps.newFromOps 3 [(0, opA), (2, opC), (3, opB)] = canon 3 none (slotsOf [(0, opA), (2, opC), (3, opB)]) := by
  decide
example : demo.getNthP 0 = 3 ∧ demo.getNthP 1 = 4 ∧ demo.getNthP 5 = 4 := by decide

/-- `Valid` is satisfiable by non-trivial mutations (hypotheses of `refine_step` are not vacuous) -/
example : (Mut.setSlot 2 (some opA) : Mut Nat).Valid (applyC (FastOps.new 3 (some 4)) (.setCutoff 6 : Mut Nat)) := by
  refine ⟨by decide, ?_⟩
  intro op h
  cases h
  exact ⟨by decide, by decide, by decide, by intro k hk; cases hk; decide⟩

/-- a sub-variable mutation inside the valid domain, the situation of seed C11-10: 4 variables, ops
only on 2 and 3, `Varlist [3,2]` (not the leading variables), NON-hint fill at `pstart = 2 > 0`,
then an insertion on variable 3 -/
def subDemo : FastOps :=
  let c0 := applyC (FastOps.new 4 none) (.setCutoff 6 : Mut Nat)
  let c1 := applyC c0 (.setSlot 1 (some (Op.diagonal [2, 3] 0 [false, false] false)) : Mut Nat)
  applyC c1 (.sweepArgs (.varlist [3, 2]) false 2 4
    (fun _ _ i => (([some (some (Op.diagonal [3] 1 [true] false)), none] : List _).getD i none, i + 1)) 0 : Mut Nat)

example : subDemo = canon 4 none subDemo.abs := by decide
example : subDemo.pEnds = some (1, 2) ∧ subDemo.n = 2 := by decide
example : ((applyC (applyC (FastOps.new 4 none) (.setCutoff 6 : Mut Nat))
    (.setSlot 1 (some (Op.diagonal [2, 3] 0 [false, false] false)) : Mut Nat)).getEmptyArgsVarlist [3, 2]).unfilled = 2 := by
  decide

/-- malformed install lists are rejected by the model (as by the `assert!`): descending, duplicate,
one inversion inside a sorted list, equal adjacent at the end; well-formed controls are accepted -/
example : FastOps.newFromOpsChecked 3 [(3, opA), (1, opC)] = none := by decide
example : FastOps.newFromOpsChecked 3 [(1, opA), (1, opC)] = none := by decide
example : FastOps.newFromOpsChecked 3 [(0, opA), (2, opC), (1, opB), (4, opC)] = none := by decide
example : FastOps.newFromOpsChecked 3 [(0, opA), (2, opC), (2, opB)] = none := by decide
example : (FastOps.newFromOpsChecked 3 [(0, opA), (2, opC), (5, opB)]).isSome = true := by decide
example : (FastOps.newFromOpsChecked 3 []).isSome = true := by decide

/-- EXCLUDED POINT 1 (ops without variables): the early exit of `fill_args_at_p` leaves
`last_p = None` although slot 0 is occupied; the next insertion corrupts the global chain.
(The sampler never creates such ops: constructors reject zero-variable interactions.) -/
def zeroVarWitness : FastOps :=
  let c0 := applyC (FastOps.new 2 none) (.setCutoff 4 : Mut Nat)
  let c1 := applyC c0 (.setSlot 0 (some (Op.diagonal [] 0 [] false)) : Mut Nat)
  applyC c1 (.setSlot 2 (some (Op.diagonal [0, 1] 0 [false, false] false)) : Mut Nat)

example : zeroVarWitness ≠ canon 2 none zeroVarWitness.abs := by decide
example : zeroVarWitness.pEnds = some (2, 0) := by decide

/-- EXCLUDED POINT 2 (repeated variable): `var_ends` of the repeated variable records the
second relative index, the scan (`index_of_var`) the first. -/
def selfLoopWitness : FastOps :=
  let c0 := applyC (FastOps.new 2 none) (.setCutoff 4 : Mut Nat)
  applyC c0 (.setSlot 1 (some (Op.diagonal [1, 1] 0 [false, false] false)) : Mut Nat)

example : selfLoopWitness ≠ canon 2 none selfLoopWitness.abs := by decide

end Qmc.C11
