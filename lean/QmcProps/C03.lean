import QmcProofs.Rvb
import QmcProofs.BondContainer
import QmcProofs.RvbBalance
import QmcProofs.RvbMove
import QmcProofs.RvbSweep
import QmcProofs.RvbRegion

/-!
# C03 — the RVB cluster update preserves the thermal distribution (partial by nature)

What Lean decides (all sizes, weights, counts):
* (iv) the pure helpers are what they should be: `remove_doubles`, `find_overlapping_starts`,
  `calculate_mult`, `contiguous_bits`, `BondContainer` (invariant, total, selection rule; with the
  draw-0 edge F12 — fixed in /repo — as a regression witness);
* (i)/(ii) the algebraic detailed-balance core on the segment abstraction (added below);
* (iii) the move relation preserves consistency / legality / operator count (added below);
* (v) the proposal (`build_cluster`, `WeightedBoundaryManager`, exact model `proposeRegion`) reads only
  the skeleton (constant-operator positions per variable, cutoff, |J|-edges); an RVB move leaves the
  skeleton untouched; hence forward and reverse proposal probabilities are equal and detailed
  balance holds including the proposal (`rvb_detailed_balance_full`).
Not decided here: f64 rounding; that the extracted abstraction of the new configuration is the
flipped one (`extract a = flip (extract b)`: checked on every accepted pair of the correspondence).
-/

namespace Qmc.C03
open Qmc Qmc.Rvb

/-! ## (iv) pure helpers -/

/-- `remove_doubles` on a sorted vector: each value survives once iff its multiplicity is odd,
and the result is strictly increasing. -/
theorem removeDoubles_spec (l : List Nat) (hs : l.Pairwise (· ≤ ·)) :
    (∀ x, (removeDoubles l).count x = l.count x % 2) ∧ (removeDoubles l).Pairwise (· < ·) :=
  ⟨removeDoubles_count l hs, removeDoubles_sorted l hs⟩

example : removeDoubles [0, 0, 1, 2, 3, 3] = [1, 2] := by decide
example : removeDoubles [0, 0, 0, 1, 2, 2, 2, 2, 5] = [0, 1, 5] := by decide

/-- `find_overlapping_starts` panics exactly on an empty position list, a zero cutoff, or a
`p_start` that is itself one of the positions. -/
theorem findOverlappingStarts_panics_iff (ps pe cutoff : Nat) (fp : List Nat) :
    findOverlappingStarts ps pe cutoff fp = none ↔ ¬ (fp ≠ [] ∧ cutoff ≠ 0 ∧ ps ∉ fp) := by
  rw [← fos_isSome_iff]; cases findOverlappingStarts ps pe cutoff fp <;> simp

/-- soundness of `find_overlapping_starts`: the result is the `take_while` prefix of the cyclic
enumeration starting at the interval that contains `p_start`; indices are in range and distinct,
at most one per interval, and each satisfies the overlap test. -/
theorem findOverlappingStarts_sound {ps pe cutoff : Nat} {fp res : List Nat}
    (h : findOverlappingStarts ps pe cutoff fp = some res) :
    ∃ prev, prev < fp.length ∧
      prev = ((fp.filter (· < ps)).length + fp.length - 1) % fp.length ∧
      res = (cyclicFrom prev fp.length).takeWhile (overlapPred ps pe cutoff (fp.getD prev 0) fp) ∧
      res.Nodup ∧ (∀ i ∈ res, i < fp.length) ∧ res.length ≤ fp.length ∧
      (∀ i ∈ res, overlapPred ps pe cutoff (fp.getD prev 0) fp i = true) :=
  fos_spec h

example : findOverlappingStarts 1 7 10 [0, 2, 4, 6, 8] = some [0, 1, 2, 3] := by decide
example : findOverlappingStarts 7 1 10 [0, 2, 4, 6, 8] = some [3, 4, 0] := by decide

/-- `calculate_mult = (W_after / W_before)^n`, provided the "closer than eps" shortcut is exact
and the divisor is non-zero whenever `n ≠ 0`. -/
theorem calculateMult_spec (wb wa : Rat) (n : Nat) (eps : Rat)
    (hclose : absR (wb - wa) < eps → wb = wa) (hwb : n ≠ 0 → wb ≠ 0) :
    calculateMult wb wa n eps = (wa / wb) ^ n :=
  calculateMult_eq_pow wb wa n eps hclose hwb

/-- the shortcut is exact for totals on a grid `g ≥ eps` (dyadic weights `k/8` against 2⁻⁵²) -/
theorem calculateMult_grid (g eps : Rat) (a b : Int) (n : Nat) (hg : eps ≤ g) (hb : n ≠ 0 → (b : Rat) * g ≠ 0) :
    calculateMult (b * g) (a * g) n eps = ((a * g) / (b * g)) ^ n :=
  calculateMult_eq_pow _ _ n eps (close_exact_on_grid g eps b a hg) hb

/-- witness that the shortcut is an approximation off the grid (the code returns 1, the ratio is
not 1): totals `1` and `1 + eps/2`. -/
theorem calculateMult_shortcut_inexact :
    calculateMult 1 (1 + f64eps / 2) 1 f64eps = 1 ∧ ((1 + f64eps / 2) / 1 : Rat) ^ 1 ≠ 1 := by
  constructor
  · unfold calculateMult absR f64eps; norm_num
  · unfold f64eps; norm_num

example : calculateMult 2 6 3 = 27 := by unfold calculateMult absR f64eps; norm_num

/-- `contiguous_bits` returns `k` exactly on the words whose `k` lowest bits are 1 and bit `k`
is 0 — a fraction `2^-(k+1)` of all 64-bit words. -/
theorem contiguousBits_spec (v k : Nat) (hk : k < 64) :
    RS.trailingOnesAux 64 v = k ↔ (∀ i, i < k → v.testBit i = true) ∧ v.testBit k = false :=
  trailingOnesAux_spec 64 v k hk

example : RS.trailingOnesAux 64 0b10111 = 3 := by decide

/-! ### BondContainer -/

theorem bc_inv_empty : BC.Inv BC.empty := BC.inv_empty

theorem bc_inv_insert {c : BC} (hc : BC.Inv c) (k : Nat) {w : Rat} (hw : 0 ≤ w) :
    BC.Inv (c.insert k w).1 := BC.inv_insert hc k hw

/-- `remove` keeps the invariant and answers "was present" -/
theorem bc_inv_remove {c c' : BC} {k : Nat} {b : Bool} (hc : BC.Inv c) (h : c.remove k = some (c', b)) :
    BC.Inv c' ∧ b = c.contains k := BC.inv_remove hc h

/-- `remove` panics exactly when the key is beyond the address table (the RVB code guards every
call with `contains`) -/
theorem bc_remove_panics_iff (c : BC) (k : Nat) : c.remove k = none ↔ c.map.length ≤ k := by
  unfold BC.remove
  split
  · rename_i h
    constructor
    · intro h'; split at h' <;> cases h'
    · intro h'; omega
  · rename_i h
    constructor
    · intro _; omega
    · intro _; rfl

theorem bc_inv_clear {c : BC} (hc : BC.Inv c) : BC.Inv c.clear := BC.inv_clear hc

/-- the running total is the sum of the stored weights (part of the invariant) -/
theorem bc_total_eq_sum {c : BC} (hc : BC.Inv c) : c.total = (c.keys.map (·.2)).sum := hc.total

/-- after `insert k w` the container reports weight `w` for `k` -/
theorem bc_insert_getWeight {c : BC} (hc : BC.Inv c) (k : Nat) {w : Rat} (hw : 0 ≤ w) :
    (c.insert k w).1.getWeight k = some w := by
  have hinv := BC.inv_insert hc k hw
  unfold BC.getWeight
  unfold BC.insert at *
  simp only at *
  split
  · rename_i i hi
    split at hi
    · rename_i j hj
      simp only at hi hinv ⊢
      rw [BC.growMap_getD] at hj
      rw [BC.growMap_getD, hj] at hi
      injection hi with hi; subst hi
      have hki := (hc.inverse k j).1 hj
      have hjl : j < c.keys.length := by
        by_contra hcon
        rw [List.getElem?_eq_none (by omega)] at hki; simp at hki
      simp [hjl]
    · rename_i hj
      simp only at hi ⊢
      have hlt := BC.growMap_lt c.map k
      simp only [List.getD_eq_getElem?_getD, List.getElem?_set_self hlt, Option.getD_some] at hi
      injection hi with hi; subst hi
      simp
  · rename_i hi
    exfalso
    split at hi
    · rename_i j hj
      simp only at hi
      rw [hj] at hi; cases hi
    · simp only at hi
      have hlt := BC.growMap_lt c.map k
      simp [List.getD_eq_getElem?_getD, List.getElem?_set_self hlt] at hi

/-- selection rule of `get_random`: for a draw `p > 0` key `i` is selected iff
`cum i < p ≤ cum (i+1)` (so with probability `w_i / total` under a uniform draw). -/
theorem bc_getRandom_interval {c : BC} (hc : BC.Inv c) (p : Rat) (hp : 0 < p) (i : Nat) (hi : i < c.keys.length) :
    c.pick p = some i ↔ c.cum i < p ∧ p ≤ c.cum (i + 1) := by
  unfold BC.pick BC.cum
  have hspec := BC.pickLoop_spec c.keys hc.nonneg p hp i hi
  constructor
  · intro h
    simp only at h
    split at h
    · injection h with h
      obtain ⟨h1, h2⟩ := hspec.1 h
      refine ⟨?_, h2⟩
      cases i with
      | zero => simpa using hp
      | succ j => exact h1 j (Nat.lt_succ_self j)
    · cases h
  · intro ⟨h1, h2⟩
    have : BC.pickLoop c.keys p 0 = i := by
      apply hspec.2
      refine ⟨?_, h2⟩
      intro j hj
      have : BC.sumW (c.keys.take (j + 1)) ≤ BC.sumW (c.keys.take i) :=
        BC.sumW_take_mono hc.nonneg (by omega)
      exact lt_of_le_of_lt this h1
    simp [this, hi]

/-- a draw of exactly 0 (probability 2⁻⁵² per draw) selects the first key of positive weight
(the code after the F12 fix; before it, key 0 was selected whatever its weight) -/
theorem bc_getRandom_zero_draw {c : BC} (hc : BC.Inv c) (i : Nat) (hi : i < c.keys.length) :
    c.pick 0 = some i ↔ (∀ j (hj : j < i), (c.keys[j]'(by omega)).2 = 0) ∧ 0 < (c.keys[i]).2 := by
  unfold BC.pick
  have hspec := BC.pickLoop_nonpos c.keys hc.nonneg 0 (le_refl 0) i hi
  constructor
  · intro h
    simp only at h
    split at h
    · injection h with h; exact hspec.1 h
    · cases h
  · intro h
    have := hspec.2 h
    simp [this, hi]

/-- **a selected key always has positive weight** (so a re-bonded operator is never stored with
weight 0 through this path): full strength, every draw. -/
theorem bc_getRandom_positive (c : BC) (p : Rat) (i : Nat) (h : c.pick p = some i) :
    ∃ hi : i < c.keys.length, 0 < (c.keys[i]).2 := by
  unfold BC.pick at h
  simp only at h
  split at h
  · rename_i hlt
    injection h with h
    subst h
    exact ⟨hlt, BC.pickLoop_pos c.keys p _ hlt rfl⟩
  · cases h

theorem exists_first_pos (ks : List (Nat × Rat)) (hnn : ∀ kw ∈ ks, 0 ≤ kw.2) (h : 0 < BC.sumW ks) :
    ∃ j, ∃ hj : j < ks.length, (∀ i (hi : i < j), (ks[i]'(by omega)).2 = 0) ∧ 0 < (ks[j]).2 := by
  induction ks with
  | nil => simp [BC.sumW] at h
  | cons a t ih =>
    have ha : 0 ≤ a.2 := hnn a (by simp)
    by_cases h0 : 0 < a.2
    · exact ⟨0, by simp, fun i hi => absurd hi (Nat.not_lt_zero _), by simpa using h0⟩
    · have ha0 : a.2 = 0 := by linarith
      have : 0 < BC.sumW t := by
        simp only [BC.sumW, List.map_cons, List.sum_cons] at h ⊢; linarith
      obtain ⟨j, hj, h1, h2⟩ := ih (fun kw hk => hnn kw (by simp [hk])) this
      refine ⟨j + 1, by simpa using hj, ?_, by simpa using h2⟩
      intro i hi
      cases i with
      | zero => simpa using ha0
      | succ m => simpa using h1 m (by omega)

/-- no out-of-bounds access: with a positive total a draw in `[0, total]` always selects a key -/
theorem bc_getRandom_in_bounds {c : BC} (hc : BC.Inv c) (htot : 0 < c.total) (p : Rat) (hp0 : 0 ≤ p)
    (hp : p ≤ c.total) : ∃ i, c.pick p = some i ∧ i < c.keys.length := by
  by_cases hpos : 0 < p
  · unfold BC.pick
    by_cases h : BC.pickLoop c.keys p 0 < c.keys.length
    · exact ⟨_, by simp [h], h⟩
    · exfalso
      rw [BC.pickLoop_eq_pickLoop0 c.keys hc.nonneg p hpos] at h
      -- the plain loop ran off the end: every partial sum is < p, in particular the total
      have key : ∀ (ks : List (Nat × Rat)) (q : Rat), ¬ BC.pickLoop0 ks q 0 < ks.length → BC.sumW ks < q ∨ ks = [] := by
        intro ks
        induction ks with
        | nil => intro q _; right; rfl
        | cons a t ih =>
          intro q hq
          left
          unfold BC.pickLoop0 at hq
          split at hq
          · simp at hq
          · rename_i hgt
            rw [BC.pickLoop0_shift] at hq
            have : ¬ BC.pickLoop0 t (q - a.2) 0 < t.length := by simp at hq ⊢; omega
            rcases ih _ this with h1 | h1
            · simp only [BC.sumW, List.map_cons, List.sum_cons] at h1 ⊢; linarith
            · subst h1; simp only [BC.sumW, List.map_cons, List.sum_cons, List.map_nil, List.sum_nil]
              linarith
      rcases key c.keys p h with h1 | h1
      · rw [hc.total] at hp; linarith
      · rw [hc.total, h1] at htot; simp [BC.sumW] at htot
  · have hp : p = 0 := by linarith
    subst hp
    rw [hc.total] at htot
    obtain ⟨j, hj, h1, h2⟩ := exists_first_pos c.keys hc.nonneg htot
    exact ⟨j, (bc_getRandom_zero_draw hc j hj).2 ⟨h1, h2⟩, hj⟩

/-- regression witness for F12 (fixed in /repo commit b694648): keys `[(3, 0), (1, 2)]` built by
two `insert`s, draw 0 ⇒ the zero-weight first key is skipped and key 1 is selected. -/
theorem bc_getRandom_zero_weight_witness :
    let c := ((BC.empty.insert 3 0).1.insert 1 2).1
    BC.Inv c ∧ c.pick 0 = some 1 ∧ c.keys[0]? = some (3, 0) ∧ c.keys[1]? = some (1, 2) := by
  refine ⟨BC.inv_insert (BC.inv_insert BC.inv_empty 3 (le_refl 0)) 1 (by norm_num), ?_, ?_, ?_⟩
  · simp [BC.insert, BC.empty, BC.growMap, BC.pick, BC.pickLoop]
  · simp [BC.insert, BC.empty, BC.growMap]
  · simp [BC.insert, BC.empty, BC.growMap]

/-- non-vacuity: a positive draw on the same container -/
example : (((BC.empty.insert 3 0).1.insert 1 2).1).pick 1 = some 1 := by
  simp [BC.insert, BC.empty, BC.growMap, BC.pick, BC.pickLoop]

/-! ## (i)/(ii) the algebraic core: detailed balance on the segment abstraction

A proposed region cuts imaginary time into segments; on a segment the boundary bonds and their
weights `(w_before, w_after)` are constant. `k_s` rotatable operators sit in segment `s`, each on
a boundary bond (assignment `c`); operators completely inside the region change their weight
from `u_before` to `u_after` (Ising ratio). The move is applied with probability
`min 1 (Π_s calculate_mult(W_bef_s, W_aft_s, k_s) · Π u_aft/u_bef)` and, if applied, every
rotatable operator is re-drawn independently ∝ `w_after`. From the resulting configuration the
same region has the flipped abstraction (`Problem.flip`: before ↔ after). -/

/-- the multiplier the code computes is `Π_s (W_aft/W_bef)^{k_s} · Π (u_aft/u_bef)` -/
theorem rawMult_eq (P : Problem) (ks : List Nat) (eps : Rat) (h : Admissible P ks eps) :
    rawMult P ks eps = (powAft P.segs ks / powBef P.segs ks) *
      (prodR (P.inner.map (·.2)) / prodR (P.inner.map (·.1))) := by
  unfold rawMult
  rw [segMult_eq P.segs ks eps h.closeExact (fun sk hsk hk => Or.inl (h.occupied sk hsk hk)), prodR_map_div]

/-- **detailed balance**: `π(c)·P(c→c') = π(c')·P(c'→c)` for every pair of assignments of the
same shape, for all non-negative weights and all operator counts. -/
theorem rvb_detailed_balance (P : Problem) (c c' : Assign) (eps : Rat)
    (hshape : c.map List.length = c'.map List.length)
    (hadm : Admissible P (c.map List.length) eps) :
    weight P c * transProb P c c' eps = weight P.flip c' * transProb P.flip c' c eps :=
  detailed_balance P c c' eps hshape hadm

/-- the `occupied` hypothesis follows from legality of the current configuration: an operator
sitting on a bond of positive weight makes the segment total positive. -/
theorem occupied_of_legal (s : Seg) (js : List Nat) (hs : SegNonneg s)
    (hleg : ∀ j ∈ js, 0 < (s.bonds.getD j (0, 0)).1) (hk : js.length ≠ 0) : s.wBef ≠ 0 := by
  cases js with
  | nil => simp at hk
  | cons j t =>
    intro h0
    have := getD_bef_zero hs h0 j
    have := hleg j (by simp)
    linarith

/-- an operator completely inside the region whose flipped weight is 0 (a longitudinal-field
operator, `h ≠ 0`) makes the acceptance probability 0: such a proposal is never applied. -/
theorem acceptProb_zero_of_inner_zero (P : Problem) (ks : List Nat) (eps : Rat)
    (h : ∃ p ∈ P.inner, p.2 = 0) : acceptProb P ks eps = 0 := by
  obtain ⟨p, hp, hp0⟩ := h
  have : prodR (P.inner.map fun p => p.2 / p.1) = 0 := by
    generalize P.inner = l at hp
    induction l with
    | nil => simp at hp
    | cons a t ih =>
      rcases List.mem_cons.1 hp with e | e
      · subst e; simp [hp0]
      · simp [ih e]
  unfold acceptProb rawMult
  rw [this]; simp [minR]

/-- the value the code's sweep accumulates (in the code's order of multiplications) is the
multiplier of the segment abstraction extracted from the same configuration and region, whenever
the sweep runs to the end … -/
theorem codeMult_eq_abstraction (E : Ising) (c : Config) (R : Region) (h : (rvbCodeMult E c R).2 = false) :
    (rvbCodeMult E c R).1 = rvbRawMult E c R := rvbCodeMult_eq E c R h

/-- … and exactly 0 (proposal rejected outright) when the running product underflows
`f64::EPSILON` and the sweep is abandoned (F19 fix). -/
theorem codeMult_zero_of_abandoned (E : Ising) (c : Config) (R : Region) (h : (rvbCodeMult E c R).2 = true) :
    (rvbCodeMult E c R).1 = 0 := by
  unfold rvbCodeMult at h ⊢
  simp only at h ⊢
  split
  · rfl
  · rename_i hb; simp [hb] at h

/-- non-vacuity: two segments (a frustrated pair of boundary bonds with unequal |J|, then a
single boundary bond), three rotatable operators, one enclosed operator; both sides of the
balance identity are the same non-zero number. -/
def exP : Problem :=
  { segs := [{ bonds := [(2, 0), (0, 4), (1, 1)] }, { bonds := [(4, 0), (0, 2)] }], inner := [(3, 3)] }

theorem exP_admissible : Admissible exP [2, 1] f64eps := by
  refine ⟨?_, ?_, ?_, ?_⟩
  · intro s hs
    simp [exP] at hs
    rcases hs with rfl | rfl <;> intro p hp <;> simp at hp <;> rcases hp with rfl | rfl | rfl <;> norm_num
  · intro p hp; simp [exP] at hp; subst hp; norm_num
  · intro s hs
    simp [exP] at hs
    rcases hs with rfl | rfl <;> simp [Seg.wBef, Seg.wAft, absR, f64eps] <;> norm_num
  · intro sk hsk
    simp [exP] at hsk
    rcases hsk with rfl | rfl <;> simp [Seg.wBef] <;> norm_num

example : weight exP [[0, 2], [0]] * transProb exP [[0, 2], [0]] [[1, 1], [1]] f64eps =
    weight exP.flip [[1, 1], [1]] * transProb exP.flip [[1, 1], [1]] [[0, 2], [0]] f64eps :=
  rvb_detailed_balance exP _ _ _ rfl exP_admissible

example : weight exP [[0, 2], [0]] * transProb exP [[0, 2], [0]] [[1, 1], [1]] f64eps = 384 / 25 := by
  simp [exP, weight, transProb, acceptProb, rawMult, redrawProb, calculateMult, prodR, Seg.wBef, Seg.wAft,
    absR, f64eps, minR]
  norm_num

/-- **the statement an inversion error breaks**: with the ratio inverted (`W_bef / W_aft`) the
balance identity fails on this instance. -/
def acceptInverted (P : Problem) (ks : List Nat) : Rat :=
  minR 1 (prodR ((P.segs.zip ks).map fun (s, k) => (s.wBef / s.wAft) ^ k) * prodR (P.inner.map fun p => p.2 / p.1))

theorem inverted_ratio_breaks_balance :
    weight exP [[0, 2], [0]] * (acceptInverted exP [2, 1] * redrawProb exP [[1, 1], [1]]) ≠
    weight exP.flip [[1, 1], [1]] * (acceptInverted exP.flip [2, 1] * redrawProb exP.flip [[0, 2], [0]]) := by
  simp [exP, Problem.flip, Seg.flip, weight, acceptInverted, redrawProb, prodR, Seg.wBef, Seg.wAft, minR]
  norm_num

/-! ## (iii) the move as a relation

`RvbMove E before after R` (QmcProofs/RvbMove.lean): the two operator strings are walked in lock
step with the running state of `before` and the membership mask of the region `R`;
* an empty slot stays empty;
* an operator on a *boundary bond* (exactly one end inside) must be diagonal and is replaced by a
  diagonal operator on a boundary bond **of positive weight after the flip**, on that bond's two
  variables, recording their flipped state, constant flag kept (`Rebond`);
* any other operator keeps variables, bond and constant flag; the inputs of covered legs are
  flipped with the membership before the slot, the outputs with the membership after it
  (`xorOp`); membership changes only at the toggle positions, which must carry constant
  one-variable operators; elsewhere an operator is completely inside or completely outside;
* the state at `p = 0` is flipped for the variables inside at `p = 0`; membership is periodic. -/

/-- the executable decider is sound for the relation -/
theorem isRvbMove_sound {E : Ising} {b a : Config} {R : Region} (h : isRvbMove E b a R = true) :
    RvbMove E b a R := Rvb.isRvbMove_sound h

/-- C06: a consistent periodic world-line configuration stays one -/
theorem rvbMove_consistent {E : Ising} {b a : Config} {R : Region} (h : RvbMove E b a R)
    (hb : Consistent b) : Consistent a := h.consistent hb

/-- C07: every stored operator has positive weight afterwards -/
theorem rvbMove_legal {E : Ising} {b a : Config} {R : Region} (h : RvbMove E b a R) :
    Legal E a.slots := h.legal

/-- the number of operators and the cutoff are unchanged -/
theorem rvbMove_count {E : Ising} {b a : Config} {R : Region} (h : RvbMove E b a R) :
    countOps a.slots = countOps b.slots ∧ a.slots.length = b.slots.length := h.count

/-- the state at `p = 0` is toggled exactly for the variables inside the region at `p = 0` -/
theorem rvbMove_state {E : Ising} {b a : Config} {R : Region} (h : RvbMove E b a R) :
    a.state = xorL b.state R.mask0 := h.1

/-- operators outside the region are untouched … -/
theorem rvbMove_outside_untouched (o : Op) (mask : List Bool) (hi : o.ins.length = o.vars.length)
    (ho : o.outs.length = o.vars.length) (h : ∀ v ∈ o.vars, getB mask v = false) :
    xorOp o mask mask false = o := xorOp_outside o mask hi ho h

/-- … operators inside are flipped symmetrically (all inputs and all outputs) -/
theorem rvbMove_inside_flipped (o : Op) (mask : List Bool) (hi : o.ins.length = o.vars.length)
    (ho : o.outs.length = o.vars.length) (h : ∀ v ∈ o.vars, getB mask v = true) :
    xorOp o mask mask false = { o with ins := flipAll o.ins, outs := flipAll o.outs } :=
  xorOp_inside o mask hi ho h

/-- a rotatable operator is only re-bonded to a boundary bond that is satisfied after the flip -/
theorem rvbMove_rebond_target {E : Ising} {st mask : List Bool} {o o' : Op} (h : Rebond E st mask o o') :
    (∃ x ∈ boundary E st mask, x.1 = o'.bond ∧ 0 < x.2.2) ∧ 0 < E.opW o' ∧ o'.tagDiag = true ∧
      o'.const = o.const := by
  obtain ⟨b, wb, wa, u, v, j, hm, hb, _, hwa, _⟩ := h.target
  exact ⟨⟨(b, wb, wa), hm, hb.symm, hwa⟩, h.pos, h.newDiag.2.1, h.newDiag.2.2⟩

/-- non-vacuity: frustrated triangle (J = 1 on all three edges), state `011`; the region is
variable 1 between the constant operators at slots 0 and 3; the diagonal operator on bond (0,1)
(satisfied before, unsatisfied after) rotates to bond (1,2) (satisfied after). -/
def exE : Ising := { nvars := 3, edges := [(0, 1, 1), (1, 2, 1), (0, 2, 1)], gamma := 1, h := 0 }
def exB : Config :=
  { state := [false, true, true],
    slots := [some (Op.diagonal [1] 4 [true] true), some (Op.diagonal [0, 1] 0 [false, true] false),
              none, some (Op.diagonal [1] 4 [true] true), some (Op.diagonal [2] 5 [true] true), none] }
def exR : Region := { subvars := [0, 1, 2], mask0 := [false, false, false], toggles := [0, 3] }
def exA : Config :=
  { state := [false, true, true],
    slots := [some (Op.offdiagonal [1] 4 [true] [false] true), some (Op.diagonal [1, 2] 1 [false, true] false),
              none, some (Op.offdiagonal [1] 4 [false] [true] true), some (Op.diagonal [2] 5 [true] true), none] }

theorem ex_isRvbMove : isRvbMove exE exB exA exR = true := by decide +kernel
example : Consistent exB := by decide
example : Consistent exA := rvbMove_consistent (isRvbMove_sound ex_isRvbMove) (by decide)
example : (extract exE exB exR).1 = { segs := [⟨[]⟩, ⟨[(2, 0), (0, 2)]⟩, ⟨[]⟩], inner := [(1, 1)] } := by
  decide +kernel
example : rvbAcceptProb exE exB exR = 1 := by decide +kernel
/-- the decider rejects the same move with the operator left on the (now unsatisfied) bond -/
example : isRvbMove exE exB
    { exA with slots := exA.slots.set 1 (some (Op.diagonal [0, 1] 0 [false, false] false)) } exR = false := by
  decide +kernel


/-! ## (v) the proposal: which region is proposed with which probability

`proposeRegion` (QmcModel/RvbRegion.lean) is the exact model of everything
`rvb_update_with_ising_weight` does before `calculate_flip_prob`: `find_constants`, the start cell,
the cluster size, `build_cluster` with the `WeightedBoundaryManager`, and the post-processing into
(`subvars`, `cluster_starting_state`, `cluster_toggle_ps`). The correspondence run replays it on the
recorded draws of **every** proposed update and requires the traced region and the number of words
consumed to be equal. Its only input besides the RNG script is the `Skeleton`. -/

/-- `find_constants`: `var_lengths[v]` = number of constant operators on `v`, `constant_ps` = the
per-variable position lists concatenated, `var_starts[v]` = number of constant operators on the
variables before `v` (so the cell with flat index `i` belongs to the last `v` with
`var_starts[v] ≤ i`, which is what the binary search of the start-cell choice returns),
`vars_with_zero_ops` = the variables without constant operators, increasing. -/
theorem findConstants_spec (sk : Skeleton) :
    (findConstants sk).varLengths = (List.range sk.nvars).map (fun v => (sk.cps.getD v []).length) ∧
    (findConstants sk).constantPs = ((List.range sk.nvars).map (fun v => sk.cps.getD v [])).flatten ∧
    (findConstants sk).varStarts =
      (List.range sk.nvars).map (fun v => (((List.range v).map (fun u => sk.cps.getD u [])).flatten).length) ∧
    (findConstants sk).idle = (List.range sk.nvars).filter (fun v => (sk.cps.getD v []).isEmpty) :=
  Rvb.findConstants_spec sk

/-- the start cell: for a flat cell index `choice < #constant ops` the variable selected (model:
last `v` with `var_starts[v] ≤ choice`; code: `binary_search` + walk to the last equal entry) is the
one whose block of `constant_ps` contains `choice`. -/
theorem pickStart_owner (sk : Skeleton) (choice : Nat) (h : choice < (findConstants sk).constantPs.length) :
    let C := findConstants sk
    let v := (C.varStarts.filter (· ≤ choice)).length - 1
    v < sk.nvars ∧ C.varStarts.getD v 0 ≤ choice ∧ choice < C.varStarts.getD v 0 + C.varLengths.getD v 0 :=
  Rvb.pickStart_owner sk choice h

/-- **the proposal reads only the skeleton**: two configurations (possibly of two Ising models) with
the same number of variables, the same edges up to the sign of `J` (`bond_mag = |J|`), the same
cutoff and the same positions of constant operators on every variable get, for every RNG script,
the same proposal: same cluster cells, same region, same number of words consumed, same remaining
script. Spin state, non-constant operators (the diagonal two-site operators), the contents
(inputs/outputs, diagonal or not) of the constant operators, Γ, h and the signs of J
(`bond_prefers_aligned`) are not read. -/
theorem proposal_depends_on_skeleton_only (E E' : Ising) (c c' : Config)
    (hn : E.nvars = E'.nvars)
    (he : E.edges.map (fun e => (e.1, e.2.1, absR e.2.2)) = E'.edges.map (fun e => (e.1, e.2.1, absR e.2.2)))
    (hc : c.slots.length = c'.slots.length)
    (hp : ∀ v, v < E.nvars → constPs c.slots v = constPs c'.slots v) (rs : RS) :
    proposeRegionCfg E c rs = proposeRegionCfg E' c' rs := by
  unfold proposeRegionCfg
  rw [skeleton_eq_of_same_data E E' c c' hn he hc hp]

/-- **an RVB move preserves exactly that data**: cutoff and constant-operator positions per
variable are unchanged (edges are a parameter). Hypothesis: no operator on a two-site edge bond is
flagged constant — the precondition `find_constants` debug-asserts; for the Ising Hamiltonian only
the transverse-field bonds are constant. -/
theorem rvbMove_preserves_skeleton {E : Ising} {b a : Config} {R : Region} (h : RvbMove E b a R)
    (hnc : edgeOpsNotConst E b.slots = true) :
    skeleton E a = skeleton E b ∧ a.slots.length = b.slots.length ∧
      ∀ v, constPs a.slots v = constPs b.slots v := by
  refine ⟨h.skeleton_eq hnc, h.count.2, ?_⟩
  intro v
  unfold constPs
  rw [h.2.2.constSig_eq hnc]

/-- **proposal symmetry**: after an RVB move every RNG script proposes from the new configuration
exactly what it proposes from the old one (same region, same draws consumed). -/
theorem proposal_symmetric {E : Ising} {b a : Config} {R : Region} (h : RvbMove E b a R)
    (hnc : edgeOpsNotConst E b.slots = true) (rs : RS) :
    proposeRegionCfg E b rs = proposeRegionCfg E a rs := by
  unfold proposeRegionCfg
  rw [h.skeleton_eq hnc]

/-- hence, under *any* distribution of RNG scripts, every event about the proposal — in particular
"region `R'` is proposed" for any `R'` — has the same probability from both configurations -/
theorem proposalProb_symmetric {E : Ising} {b a : Config} {R : Region} (h : RvbMove E b a R)
    (hnc : edgeOpsNotConst E b.slots = true) (μ : List (List Nat × Rat)) (ev : Proposal × RS → Bool) :
    proposalProb (skeleton E b) μ ev = proposalProb (skeleton E a) μ ev := by
  rw [h.skeleton_eq hnc]

/-- **detailed balance including the proposal**:
`q(b→R) · π(c) · P_R(c→c') = q(a→R) · π(c') · P_R(c'→c)` where `q(x→R)` is the probability that the
region `R` is proposed from configuration `x` under the script distribution `μ`. The equality
`q(b→R) = q(a→R)` is no longer a hypothesis: it follows from `proposal_symmetric`. -/
theorem rvb_detailed_balance_full {E : Ising} {b a : Config} {R : Region} (hmove : RvbMove E b a R)
    (hnc : edgeOpsNotConst E b.slots = true) (μ : List (List Nat × Rat))
    (P : Problem) (c c' : Assign) (eps : Rat)
    (hshape : c.map List.length = c'.map List.length)
    (hadm : Admissible P (c.map List.length) eps) :
    proposalProb (skeleton E b) μ (proposesRegion E.nvars R) * (weight P c * transProb P c c' eps) =
    proposalProb (skeleton E a) μ (proposesRegion E.nvars R) * (weight P.flip c' * transProb P.flip c' c eps) := by
  rw [proposalProb_symmetric hmove hnc, rvb_detailed_balance P c c' eps hshape hadm]

/-- the same on the pair of configurations: with the abstractions extracted from `b` and `a` by the
sweep of `calculate_flip_prob` (the relation `extract a = flip (extract b)` is checked on every
accepted pair of the correspondence run) -/
theorem rvb_detailed_balance_full_cfg {E : Ising} {b a : Config} {R : Region} (hmove : RvbMove E b a R)
    (hnc : edgeOpsNotConst E b.slots = true) (μ : List (List Nat × Rat)) (eps : Rat)
    (hflip : (extract E a R).1 = (extract E b R).1.flip)
    (hshape : (extract E b R).2.1.map List.length = (extract E a R).2.1.map List.length)
    (hadm : Admissible (extract E b R).1 ((extract E b R).2.1.map List.length) eps) :
    proposalProb (skeleton E b) μ (proposesRegion E.nvars R) *
      (weight (extract E b R).1 (extract E b R).2.1 *
        transProb (extract E b R).1 (extract E b R).2.1 (extract E a R).2.1 eps) =
    proposalProb (skeleton E a) μ (proposesRegion E.nvars R) *
      (weight (extract E a R).1 (extract E a R).2.1 *
        transProb (extract E a R).1 (extract E a R).2.1 (extract E b R).2.1 eps) := by
  rw [hflip]
  exact rvb_detailed_balance_full hmove hnc μ _ _ _ eps hshape hadm

/-! non-vacuity on the frustrated-triangle instance of (iii): from `exB` the script `[0, 0, w]`
(start choice 0 = the cell of variable 1 above slot 0, size 1, one `get_random` draw) proposes
exactly the region `exR` and consumes 3 words; from `exA` too. -/
example : edgeOpsNotConst exE exB.slots = true := by decide
example : skeleton exE exA = skeleton exE exB :=
  (rvbMove_preserves_skeleton (isRvbMove_sound ex_isRvbMove) (by decide)).1
example : skeleton exE exB =
    { nvars := 3, cutoff := 6, cps := [[], [0, 3], [4]], edges := [(0, 1, 1), (1, 2, 1), (0, 2, 1)] } := by
  decide +kernel
example : findConstants (skeleton exE exB) =
    { varStarts := [0, 0, 2], varLengths := [0, 2, 1], constantPs := [0, 3, 4], idle := [0] } := by
  decide +kernel
theorem ex_proposal :
    let out := proposeRegionCfg exE exB (RS.ofScript [0, 0, 12345678901234567890])
    out.1.clusterVars = [1] ∧ out.1.clusterFlips = [some 0] ∧ out.1.subvars = exR.subvars ∧
      maskOf 3 out.1.subvars out.1.start = exR.mask0 ∧ out.1.toggles = exR.toggles ∧
      out.1.panic = false ∧ out.2.draws = 3 ∧ out.2.script = [] := by
  decide +kernel
example : proposesRegion 3 exR (proposeRegionCfg exE exA (RS.ofScript [0, 0, 12345678901234567890])) = true := by
  rw [← proposal_symmetric (isRvbMove_sound ex_isRvbMove) (by decide)]
  decide +kernel
/-- a larger cluster (size 3: the word `3` has two trailing ones): cells of variable 1 and 2 -/
example : (proposeRegionCfg exE exB (RS.ofScript [0, 3, 5, 2 ^ 63, 7, 9, 11, 13])).1.clusterVars.length = 3 := by
  decide +kernel

/-- non-vacuity of `proposal_depends_on_skeleton_only`: an antiferromagnetic triangle with other Γ, h,
another spin state, the two-site operator on another bond, a further two-site operator, and the
constant operators diagonal ↔ off-diagonal — same constant-operator positions, so the same
proposal for every script. -/
def exE2 : Ising := { nvars := 3, edges := [(0, 1, -1), (1, 2, -1), (0, 2, -1)], gamma := 1 / 2, h := 1 / 4 }
def exB2 : Config :=
  { state := [true, true, false],
    slots := [some (Op.offdiagonal [1] 4 [true] [false] true), some (Op.diagonal [0, 2] 2 [true, false] false),
              some (Op.diagonal [1, 2] 1 [false, false] false), some (Op.offdiagonal [1] 4 [false] [true] true),
              some (Op.diagonal [2] 5 [false] true), none] }

theorem ex_skeleton_only (rs : RS) : proposeRegionCfg exE exB rs = proposeRegionCfg exE2 exB2 rs :=
  proposal_depends_on_skeleton_only exE exE2 exB exB2 rfl (by decide +kernel) rfl (by decide) rs

example : exB.state ≠ exB2.state ∧ exB.slots ≠ exB2.slots ∧ Consistent exB2 := by decide
/-- the hypothesis of `rvbMove_preserves_skeleton` is needed: flag the rotating two-site operator
of the example constant (the relation keeps the flag) and the constant-operator positions of
variables 0 and 2 change. -/
theorem edgeOpsNotConst_needed :
    let b' : Config := { exB with slots := exB.slots.set 1 (some (Op.diagonal [0, 1] 0 [false, true] true)) }
    let a' : Config := { exA with slots := exA.slots.set 1 (some (Op.diagonal [1, 2] 1 [false, true] true)) }
    isRvbMove exE b' a' exR = true ∧ skeleton exE a' ≠ skeleton exE b' := by
  decide +kernel

end Qmc.C03
