import QmcProofs.Rvb
import QmcProofs.BondContainer

/-!
# C03 — the RVB cluster update preserves the thermal distribution (partial by nature)

What Lean decides (all sizes, weights, counts):
* (iv) the pure helpers are what they should be: `remove_doubles`, `find_overlapping_starts`,
  `calculate_mult`, `contiguous_bits`, `BondContainer` (invariant, total, selection rule; with the
  draw-0 edge F12 stated and witnessed);
* (i)/(ii) the algebraic detailed-balance core on the segment abstraction (added below);
* (iii) the move relation preserves consistency / legality / operator count (added below).
Not decided here: the region-growing procedure (modelled by observation only), f64 rounding.
-/

namespace Qmc.C03
open Qmc Qmc.Rvb

/-! ## (iv) pure helpers -/

/-- `remove_doubles` on a sorted vector: each value survives once iff its multiplicity is odd,
and the result is strictly increasing. -/
theorem removeDoubles_spec (l : List Nat) (hs : l.Pairwise (· ≤ ·)) :
    (∀ x, (removeDoubles l).count x = l.count x % 2) ∧ (removeDoubles l).Pairwise (· < ·) :=
  ⟨removeDoubles_count l hs, removeDoubles_sorted l hs⟩

example : removeDoubles [0, 0, 1, 2, 3, 3] = [1, 2] := by decide
example : removeDoubles [0, 0, 0, 1, 2, 2, 2, 2, 5] = [0, 1, 5] := by decide

/-- `find_overlapping_starts` panics exactly on an empty position list, a zero cutoff, or a
`p_start` that is itself one of the positions. -/
theorem findOverlappingStarts_panics_iff (ps pe cutoff : Nat) (fp : List Nat) :
    findOverlappingStarts ps pe cutoff fp = none ↔ ¬ (fp ≠ [] ∧ cutoff ≠ 0 ∧ ps ∉ fp) := by
  rw [← fos_isSome_iff]; cases findOverlappingStarts ps pe cutoff fp <;> simp

/-- soundness of `find_overlapping_starts`: the result is the `take_while` prefix of the cyclic
enumeration starting at the interval that contains `p_start`; indices are in range and distinct,
at most one per interval, and each satisfies the overlap test. -/
theorem findOverlappingStarts_sound {ps pe cutoff : Nat} {fp res : List Nat}
    (h : findOverlappingStarts ps pe cutoff fp = some res) :
    ∃ prev, prev < fp.length ∧
      prev = ((fp.filter (· < ps)).length + fp.length - 1) % fp.length ∧
      res = (cyclicFrom prev fp.length).takeWhile (overlapPred ps pe cutoff (fp.getD prev 0) fp) ∧
      res.Nodup ∧ (∀ i ∈ res, i < fp.length) ∧ res.length ≤ fp.length ∧
      (∀ i ∈ res, overlapPred ps pe cutoff (fp.getD prev 0) fp i = true) :=
  fos_spec h

example : findOverlappingStarts 1 7 10 [0, 2, 4, 6, 8] = some [0, 1, 2, 3] := by decide
example : findOverlappingStarts 7 1 10 [0, 2, 4, 6, 8] = some [3, 4, 0] := by decide

/-- `calculate_mult = (W_after / W_before)^n`, provided the "closer than eps" shortcut is exact
and the divisor is non-zero whenever `n ≠ 0`. -/
theorem calculateMult_spec (wb wa : Rat) (n : Nat) (eps : Rat)
    (hclose : absR (wb - wa) < eps → wb = wa) (hwb : n ≠ 0 → wb ≠ 0) :
    calculateMult wb wa n eps = (wa / wb) ^ n :=
  calculateMult_eq_pow wb wa n eps hclose hwb

/-- the shortcut is exact for totals on a grid `g ≥ eps` (dyadic weights `k/8` against 2⁻⁵²) -/
theorem calculateMult_grid (g eps : Rat) (a b : Int) (n : Nat) (hg : eps ≤ g) (hb : n ≠ 0 → (b : Rat) * g ≠ 0) :
    calculateMult (b * g) (a * g) n eps = ((a * g) / (b * g)) ^ n :=
  calculateMult_eq_pow _ _ n eps (close_exact_on_grid g eps b a hg) hb

/-- witness that the shortcut is an approximation off the grid (the code returns 1, the ratio is
not 1): totals `1` and `1 + eps/2`. -/
theorem calculateMult_shortcut_inexact :
    calculateMult 1 (1 + f64eps / 2) 1 f64eps = 1 ∧ ((1 + f64eps / 2) / 1 : Rat) ^ 1 ≠ 1 := by
  constructor
  · unfold calculateMult absR f64eps; norm_num
  · unfold f64eps; norm_num

example : calculateMult 2 6 3 = 27 := by unfold calculateMult absR f64eps; norm_num

/-- `contiguous_bits` returns `k` exactly on the words whose `k` lowest bits are 1 and bit `k`
is 0 — a fraction `2^-(k+1)` of all 64-bit words. -/
theorem contiguousBits_spec (v k : Nat) (hk : k < 64) :
    RS.trailingOnesAux 64 v = k ↔ (∀ i, i < k → v.testBit i = true) ∧ v.testBit k = false :=
  trailingOnesAux_spec 64 v k hk

example : RS.trailingOnesAux 64 0b10111 = 3 := by decide

/-! ### BondContainer -/

theorem bc_inv_empty : BC.Inv BC.empty := BC.inv_empty

theorem bc_inv_insert {c : BC} (hc : BC.Inv c) (k : Nat) {w : Rat} (hw : 0 ≤ w) :
    BC.Inv (c.insert k w).1 := BC.inv_insert hc k hw

/-- `remove` keeps the invariant and answers "was present" -/
theorem bc_inv_remove {c c' : BC} {k : Nat} {b : Bool} (hc : BC.Inv c) (h : c.remove k = some (c', b)) :
    BC.Inv c' ∧ b = c.contains k := BC.inv_remove hc h

/-- `remove` panics exactly when the key is beyond the address table (the RVB code guards every
call with `contains`) -/
theorem bc_remove_panics_iff (c : BC) (k : Nat) : c.remove k = none ↔ c.map.length ≤ k := by
  unfold BC.remove
  split
  · rename_i h
    constructor
    · intro h'; split at h' <;> cases h'
    · intro h'; omega
  · rename_i h
    constructor
    · intro _; omega
    · intro _; rfl

theorem bc_inv_clear {c : BC} (hc : BC.Inv c) : BC.Inv c.clear := BC.inv_clear hc

/-- the running total is the sum of the stored weights (part of the invariant) -/
theorem bc_total_eq_sum {c : BC} (hc : BC.Inv c) : c.total = (c.keys.map (·.2)).sum := hc.total

/-- after `insert k w` the container reports weight `w` for `k` -/
theorem bc_insert_getWeight {c : BC} (hc : BC.Inv c) (k : Nat) {w : Rat} (hw : 0 ≤ w) :
    (c.insert k w).1.getWeight k = some w := by
  have hinv := BC.inv_insert hc k hw
  unfold BC.getWeight
  unfold BC.insert at *
  simp only at *
  split
  · rename_i i hi
    split at hi
    · rename_i j hj
      simp only at hi hinv ⊢
      rw [BC.growMap_getD] at hj
      rw [BC.growMap_getD, hj] at hi
      injection hi with hi; subst hi
      have hki := (hc.inverse k j).1 hj
      have hjl : j < c.keys.length := by
        by_contra hcon
        rw [List.getElem?_eq_none (by omega)] at hki; simp at hki
      simp [hjl]
    · rename_i hj
      simp only at hi ⊢
      have hlt := BC.growMap_lt c.map k
      simp only [List.getD_eq_getElem?_getD, List.getElem?_set_self hlt, Option.getD_some] at hi
      injection hi with hi; subst hi
      simp
  · rename_i hi
    exfalso
    split at hi
    · rename_i j hj
      simp only at hi
      rw [hj] at hi; cases hi
    · simp only at hi
      have hlt := BC.growMap_lt c.map k
      simp [List.getD_eq_getElem?_getD, List.getElem?_set_self hlt] at hi

/-- selection rule of `get_random`: for a draw `p > 0` key `i` is selected iff
`cum i < p ≤ cum (i+1)` (so with probability `w_i / total` under a uniform draw). -/
theorem bc_getRandom_interval {c : BC} (hc : BC.Inv c) (p : Rat) (hp : 0 < p) (i : Nat) (hi : i < c.keys.length) :
    c.pick p = some i ↔ c.cum i < p ∧ p ≤ c.cum (i + 1) := by
  unfold BC.pick BC.cum
  have hspec := BC.pickLoop_spec c.keys p i hi
  constructor
  · intro h
    simp only at h
    split at h
    · injection h with h
      obtain ⟨h1, h2⟩ := hspec.1 h
      refine ⟨?_, h2⟩
      cases i with
      | zero => simpa using hp
      | succ j => exact h1 j (Nat.lt_succ_self j)
    · cases h
  · intro ⟨h1, h2⟩
    have : BC.pickLoop c.keys p 0 = i := by
      apply hspec.2
      refine ⟨?_, h2⟩
      intro j hj
      have : BC.sumW (c.keys.take (j + 1)) ≤ BC.sumW (c.keys.take i) :=
        BC.sumW_take_mono hc.nonneg (by omega)
      exact lt_of_le_of_lt this h1
    simp [this, hi]

/-- no out-of-bounds access: a draw in `[0, total]` always selects a key -/
theorem bc_getRandom_in_bounds {c : BC} (hc : BC.Inv c) (hne : c.keys ≠ []) (p : Rat) (hp : p ≤ c.total) :
    ∃ i, c.pick p = some i ∧ i < c.keys.length := by
  unfold BC.pick
  have hlen : 0 < c.keys.length := List.length_pos_iff.2 hne
  by_cases h : BC.pickLoop c.keys p 0 < c.keys.length
  · exact ⟨_, by simp [h], h⟩
  · exfalso
    -- the loop ran off the end: every partial sum is < p, in particular the total
    have key : ∀ (ks : List (Nat × Rat)) (q : Rat), ¬ BC.pickLoop ks q 0 < ks.length → BC.sumW ks < q ∨ ks = [] := by
      intro ks
      induction ks with
      | nil => intro q _; right; rfl
      | cons a t ih =>
        intro q hq
        left
        unfold BC.pickLoop at hq
        split at hq
        · simp at hq
        · rename_i hgt
          rw [BC.pickLoop_shift] at hq
          have : ¬ BC.pickLoop t (q - a.2) 0 < t.length := by simp at hq ⊢; omega
          rcases ih _ this with h1 | h1
          · simp only [BC.sumW, List.map_cons, List.sum_cons] at h1 ⊢; linarith
          · subst h1; simp only [BC.sumW, List.map_cons, List.sum_cons, List.map_nil, List.sum_nil]
            linarith
    rcases key c.keys p h with h1 | h1
    · rw [hc.total] at hp; linarith
    · exact hne h1

/-- **full-strength statement under the weakest hypothesis** (`…_partial`): a selected key has
positive weight provided the draw is not exactly 0 or the first key has positive weight. -/
theorem bc_getRandom_positive_partial {c : BC} (hc : BC.Inv c) (p : Rat) (hp0 : 0 ≤ p)
    (hedge : p ≠ 0 ∨ ∀ kw, c.keys.head? = some kw → 0 < kw.2) (i : Nat) (h : c.pick p = some i) :
    ∃ hi : i < c.keys.length, 0 < (c.keys[i]).2 := by
  have hi : i < c.keys.length := by
    unfold BC.pick at h; simp only at h; split at h
    · injection h with h; omega
    · cases h
  refine ⟨hi, ?_⟩
  by_cases hp : p = 0
  · -- the draw is 0: index 0 is selected; its weight is positive by the edge hypothesis
    subst hp
    have h0 : c.pick 0 = some 0 := by
      unfold BC.pick
      cases hk : c.keys with
      | nil => rw [hk] at hi; simp at hi
      | cons a t =>
        have : 0 ≤ a.2 := hc.nonneg a (by rw [hk]; simp)
        have : BC.pickLoop (a :: t) 0 0 = 0 := by
          unfold BC.pickLoop; split
          · rfl
          · rename_i hh; exfalso; apply hh; linarith
        simp [this]
    rw [h0] at h; injection h with h; subst h
    rcases hedge with h1 | h1
    · exact absurd rfl h1
    · apply h1
      rw [List.head?_eq_getElem?, List.getElem?_eq_getElem hi]
  · have hpos : 0 < p := lt_of_le_of_ne hp0 (Ne.symm hp)
    obtain ⟨h1, h2⟩ := (bc_getRandom_interval hc p hpos i hi).1 h
    unfold BC.cum at h1 h2
    have := BC.sumW_take_succ c.keys i hi
    unfold BC.sumW at this
    linarith

/-- **F12, the edge**: a draw of exactly 0 selects the first key whatever its weight … -/
theorem bc_getRandom_zero_edge {c : BC} (hc : BC.Inv c) (hne : c.keys ≠ []) : c.pick 0 = some 0 := by
  unfold BC.pick
  cases hk : c.keys with
  | nil => exact absurd hk hne
  | cons a t =>
    have : 0 ≤ a.2 := hc.nonneg a (by rw [hk]; simp)
    have : BC.pickLoop (a :: t) 0 0 = 0 := by
      unfold BC.pickLoop; split
      · rfl
      · rename_i hh; exfalso; apply hh; linarith
    simp [this]

/-- … witness: keys `[(3, 0), (1, 2)]` (built by two `insert`s), draw 0 ⇒ key 3 of weight 0. -/
theorem bc_getRandom_zero_weight_witness :
    let c := ((BC.empty.insert 3 0).1.insert 1 2).1
    BC.Inv c ∧ c.pick 0 = some 0 ∧ c.keys[0]? = some (3, 0) := by
  refine ⟨BC.inv_insert (BC.inv_insert BC.inv_empty 3 (le_refl 0)) 1 (by norm_num), ?_, ?_⟩
  · simp [BC.insert, BC.empty, BC.growMap, BC.pick, BC.pickLoop]
  · simp [BC.insert, BC.empty, BC.growMap]

/-- non-vacuity: a non-trivial container satisfying the invariant, and a positive draw -/
example : (((BC.empty.insert 3 0).1.insert 1 2).1).pick 1 = some 1 := by
  simp [BC.insert, BC.empty, BC.growMap, BC.pick, BC.pickLoop]; norm_num

end Qmc.C03
