/-
C01 capstone — the limit `L → ∞` (closes the clause "the limit `L → ∞` … NOT part of the statement" of
QmcProps/C01Capstone.lean).

`ising_capstone` proves, at every FIXED number of slots `L`, that the invariant SSE measure `π_L = sseCutOn H β (cfgSpace H N L)`
has state marginal `⟨α|T_L|α⟩` and total mass `Tr T_L`, `T_L = Σ_{n≤L} βⁿ/n!·(C·1 − H)ⁿ` (rational numbers).  Here, with the
rational numbers cast to `ℝ`, `Hr = (isingMatrix s).map (↑)`, `e^{X} = NormedSpace.exp X` (Mathlib's matrix exponential):

  * `taylor_tendsto_exp` (+ `_entry`, `_trace`)   for every real square matrix: `Σ_{k≤L} βᵏ/k!·Aᵏ → e^{βA}`
  * `exp_offset_factor`                           `e^{β(C·1 − H)} = e^{βC} • e^{−βH}`
  * `isingMatrix_symm`, `exp_symm_trace_pos`      `H` is symmetric; `Tr e^{A} > 0` (every diagonal entry `> 0`) for real
                                                  symmetric `A` — so `Tr e^{−βH} ≠ 0` is PROVED, not assumed
  * `ising_marginal_tendsto`                      `π_L(state = α) / π_L(everything) → ⟨α|e^{−βH}|α⟩ / Tr e^{−βH}`
  * `ising_partition_tendsto`                     `π_L(everything) → e^{βC} · Tr e^{−βH}`
  * `ising_limit_pos`, `ising_limit_sum_one`      the limit is a probability vector with full support
  * `ising_mean_n`                                `Σ_c (#operators of c)·π_L(c) = Σ_{n≤L} n·βⁿ/n!·Tr((C·1−H)ⁿ)` on the
                                                  sampler's configuration space (graded re-indexing, QmcProofs/CapstoneCount.lean)
  * `ising_energy_tendsto`                        `C − ⟨n⟩_L/β → Tr(H e^{−βH}) / Tr e^{−βH}`,
                                                  `⟨n⟩_L = Σ_c (#operators of c)·π_L(c) / Σ_c π_L(c)`
  * `ising_capstone_limit`                        for the sampler: invariance at every `L` ∧ the three limits.

Hypotheses: valid graph, `Γ ≥ 0`, `FieldOK` (`h = 0 ∨ |h| > 2^-52`) exactly as in `ising_capstone`; `β > 0` only where
invariance is asserted, `β ≠ 0` for the energy (division by `β`); the marginal / partition limits hold for every `β`.
STILL not claimed: ergodicity, convergence of the chain to `π_L`, uniqueness of the invariant measure, and that the
executable sampler realises the kernel as a distribution (see C01Capstone.lean).  The limit is taken along the
family of invariant measures `π_L`, `L = 0, 1, 2, …` (in the code the cutoff grows with the operator count, C12).
-/
import QmcProps.C01Capstone
import QmcProofs.CapstoneLimit
import QmcProofs.CapstoneCount
import QmcProofs.CapstoneLimitIsing

open BigOperators Finset Filter Topology

namespace Qmc.C01
open Qmc Qmc.Kernel Qmc.Dist Qmc.Marginal Qmc.SSEConfig Qmc.CapstoneLimit

/-! ### general: Taylor polynomials of the matrix exponential -/

/-- **`Σ_{k≤L} βᵏ/k!·Aᵏ → e^{βA}`** for every real square matrix over a finite index type (product topology on
matrices, i.e. every entry converges: `taylor_tendsto_exp_entry`). -/
theorem taylor_tendsto_exp {n : Type*} [Fintype n] [DecidableEq n] (A : Matrix n n ℝ) (β : ℝ) :
    Tendsto (fun L : ℕ => ∑ k ∈ range (L + 1), (β ^ k / (k.factorial : ℝ)) • A ^ k) atTop
      (𝓝 (NormedSpace.exp (β • A))) :=
  taylor_tendsto β A

theorem taylor_tendsto_exp_entry {n : Type*} [Fintype n] [DecidableEq n] (A : Matrix n n ℝ) (β : ℝ) (i j : n) :
    Tendsto (fun L : ℕ => (∑ k ∈ range (L + 1), (β ^ k / (k.factorial : ℝ)) • A ^ k) i j) atTop
      (𝓝 ((NormedSpace.exp (β • A)) i j)) :=
  taylor_entry_tendsto β A i j

theorem taylor_tendsto_exp_trace {n : Type*} [Fintype n] [DecidableEq n] (A : Matrix n n ℝ) (β : ℝ) :
    Tendsto (fun L : ℕ => Matrix.trace (∑ k ∈ range (L + 1), (β ^ k / (k.factorial : ℝ)) • A ^ k)) atTop
      (𝓝 (Matrix.trace (NormedSpace.exp (β • A)))) :=
  taylor_trace_tendsto β A

/-- **the constant offset factors out**: `e^{β(C·1 − H)} = e^{βC} • e^{−βH}` -/
theorem exp_offset_factor {n : Type*} [Fintype n] [DecidableEq n] (β C : ℝ) (H : Matrix n n ℝ) :
    NormedSpace.exp (β • (C • (1 : Matrix n n ℝ) - H)) = Real.exp (β * C) • NormedSpace.exp (-(β • H)) :=
  exp_offset β C H

/-- every diagonal entry of the exponential of a real symmetric matrix is positive -/
theorem exp_symm_diag_pos {n : Type*} [Fintype n] [DecidableEq n] {A : Matrix n n ℝ} (hA : A.IsSymm) (i : n) :
    0 < (NormedSpace.exp A) i i :=
  exp_diag_pos hA i

/-- `Tr e^{A} > 0` for a real symmetric matrix (non-empty index type) -/
theorem exp_symm_trace_pos {n : Type*} [Fintype n] [DecidableEq n] [Nonempty n] {A : Matrix n n ℝ}
    (hA : A.IsSymm) : 0 < Matrix.trace (NormedSpace.exp A) :=
  exp_trace_pos hA

/-! ### the Ising sampler -/

/-- the transverse-field Ising matrix is symmetric -/
theorem isingMatrix_symm (s : IsingSpec) : (isingMatrix s).IsSymm :=
  CapstoneLimit.isingMatrix_symm s

/-- `Tr e^{−βH} > 0` -/
theorem ising_trace_exp_pos (s : IsingSpec) (β : ℚ) :
    0 < Matrix.trace (NormedSpace.exp (-((β : ℝ) • (isingMatrix s).map ((↑) : ℚ → ℝ)))) :=
  trace_exp_neg_pos β (isingMatrix s) (CapstoneLimit.isingMatrix_symm s)

/-- **the state distribution in the limit `L → ∞`.** For every valid Ising spec, `Γ ≥ 0`, `h = 0 ∨ |h| > 2^-52`, every `β`
and basis state `α`: the normalised `α`-marginal of the cut SSE measure `π_L = sseCutOn s.ham β (cfgSpace s.ham nvars L)` —
the measure that `ising_capstone` proves invariant under `timestep` — tends, as `L → ∞`, to the `α`-th diagonal entry of
the quantum thermal state `e^{−βH} / Tr e^{−βH}`, `H = isingMatrix s` (real-cast). -/
theorem ising_marginal_tendsto (s : IsingSpec) [DecidablePred (Good s.ham)] (hv : s.Valid) (hg : 0 ≤ s.gamma)
    (hf : FieldOK s) (β : ℚ) (α : St s.nvars) :
    Tendsto (fun L : ℕ =>
        ((∑ c : (cfgSpace s.ham s.nvars L : Finset Config),
            (if c.1.state = α.1 then sseCutOn s.ham β (cfgSpace s.ham s.nvars L) c else 0) : ℚ) : ℝ)
        / ((∑ c : (cfgSpace s.ham s.nvars L : Finset Config),
            sseCutOn s.ham β (cfgSpace s.ham s.nvars L) c : ℚ) : ℝ)) atTop
      (𝓝 ((NormedSpace.exp (-((β : ℝ) • (isingMatrix s).map ((↑) : ℚ → ℝ)))) α α
        / Matrix.trace (NormedSpace.exp (-((β : ℝ) • (isingMatrix s).map ((↑) : ℚ → ℝ)))))) := by
  have hV : VarsOK s.ham s.nvars := s.hamWF hv
  have hw : ∀ b < s.ham.nbonds, ∀ i o, 0 ≤ s.ham.w b i o := fun b _ i o => Refine.ising_w_nonneg s hg b i o
  refine (marginal_ratio_tendsto β (isingOffset s) (isingMatrix s) (CapstoneLimit.isingMatrix_symm s) α).congr
    (fun L => ?_)
  rw [sseCutOn_marginal s.ham s.nvars β L α hV hw, sseCutOn_total s.ham s.nvars β L hV hw,
    ising_bond_matrices s hf]

/-- **the partition function in the limit**: the total mass of `π_L` tends to `e^{βC} · Tr e^{−βH}`,
`C = isingOffset s = total_energy_offset`. -/
theorem ising_partition_tendsto (s : IsingSpec) [DecidablePred (Good s.ham)] (hv : s.Valid) (hg : 0 ≤ s.gamma)
    (hf : FieldOK s) (β : ℚ) :
    Tendsto (fun L : ℕ =>
        ((∑ c : (cfgSpace s.ham s.nvars L : Finset Config),
            sseCutOn s.ham β (cfgSpace s.ham s.nvars L) c : ℚ) : ℝ)) atTop
      (𝓝 (Real.exp ((β : ℝ) * (isingOffset s : ℝ))
        * Matrix.trace (NormedSpace.exp (-((β : ℝ) • (isingMatrix s).map ((↑) : ℚ → ℝ)))))) := by
  have hV : VarsOK s.ham s.nvars := s.hamWF hv
  have hw : ∀ b < s.ham.nbonds, ∀ i o, 0 ≤ s.ham.w b i o := fun b _ i o => Refine.ising_w_nonneg s hg b i o
  refine (partition_tendsto β (isingOffset s) (isingMatrix s)).congr (fun L => ?_)
  rw [sseCutOn_total s.ham s.nvars β L hV hw, ising_bond_matrices s hf]

/-- the limit distribution has full support … -/
theorem ising_limit_pos (s : IsingSpec) (β : ℚ) (α : St s.nvars) :
    0 < (NormedSpace.exp (-((β : ℝ) • (isingMatrix s).map ((↑) : ℚ → ℝ)))) α α
        / Matrix.trace (NormedSpace.exp (-((β : ℝ) • (isingMatrix s).map ((↑) : ℚ → ℝ)))) :=
  div_pos (exp_diag_pos (((toReal_isSymm (CapstoneLimit.isingMatrix_symm s)).smul _).neg) α)
    (ising_trace_exp_pos s β)

/-- … and sums to one over the `2^N` basis states: it is a probability distribution -/
theorem ising_limit_sum_one (s : IsingSpec) (β : ℚ) :
    ∑ α : St s.nvars, (NormedSpace.exp (-((β : ℝ) • (isingMatrix s).map ((↑) : ℚ → ℝ)))) α α
        / Matrix.trace (NormedSpace.exp (-((β : ℝ) • (isingMatrix s).map ((↑) : ℚ → ℝ)))) = 1 := by
  rw [← Finset.sum_div]
  exact div_self (ising_trace_exp_pos s β).ne'

/-- **operator-count moment on the configuration space**: `Σ_c (#operators of c) · π_L(c) = Σ_{n≤L} n·βⁿ/n!·Tr((C·1 − H)ⁿ)`
(`= β·Σ_{n<L} βⁿ/n!·Tr((C·1 − H)^{n+1})` by `C01.sse_mean_n`) -/
theorem ising_mean_n (s : IsingSpec) [DecidablePred (Good s.ham)] (hv : s.Valid) (hg : 0 ≤ s.gamma)
    (hf : FieldOK s) (β : ℚ) (L : ℕ) :
    ∑ c : (cfgSpace s.ham s.nvars L : Finset Config),
        (countOps c.1.slots : ℚ) * sseCutOn s.ham β (cfgSpace s.ham s.nvars L) c
      = ∑ n ∈ range (L + 1), (n : ℚ) * (β ^ n / n.factorial
          * Matrix.trace ((isingOffset s • (1 : Matrix (St s.nvars) (St s.nvars) ℚ) - isingMatrix s) ^ n)) := by
  rw [← ising_bond_matrices s hf]
  exact sseCutOn_total_g (fun n => (n : ℚ)) s.ham s.nvars β L (s.hamWF hv)
    (fun b _ i o => Refine.ising_w_nonneg s hg b i o)

/-- **the energy estimator in the limit.** `E_L = C − ⟨n⟩_L / β`, `⟨n⟩_L = Σ_c (#operators of c)·π_L(c) / Σ_c π_L(c)` the mean
operator count under `π_L`, `C = isingOffset s` (what the sampler reports: `−⟨n⟩/β + total_energy_offset`), tends to the
thermal energy `Tr(H e^{−βH}) / Tr e^{−βH}`. -/
theorem ising_energy_tendsto (s : IsingSpec) [DecidablePred (Good s.ham)] (hv : s.Valid) (hg : 0 ≤ s.gamma)
    (hf : FieldOK s) (β : ℚ) (hβ : β ≠ 0) :
    Tendsto (fun L : ℕ =>
        (isingOffset s : ℝ)
          - ((∑ c : (cfgSpace s.ham s.nvars L : Finset Config),
                (countOps c.1.slots : ℚ) * sseCutOn s.ham β (cfgSpace s.ham s.nvars L) c : ℚ) : ℝ)
            / ((∑ c : (cfgSpace s.ham s.nvars L : Finset Config),
                sseCutOn s.ham β (cfgSpace s.ham s.nvars L) c : ℚ) : ℝ) / (β : ℝ)) atTop
      (𝓝 (Matrix.trace ((isingMatrix s).map ((↑) : ℚ → ℝ)
            * NormedSpace.exp (-((β : ℝ) • (isingMatrix s).map ((↑) : ℚ → ℝ))))
        / Matrix.trace (NormedSpace.exp (-((β : ℝ) • (isingMatrix s).map ((↑) : ℚ → ℝ)))))) := by
  have hV : VarsOK s.ham s.nvars := s.hamWF hv
  have hw : ∀ b < s.ham.nbonds, ∀ i o, 0 ≤ s.ham.w b i o := fun b _ i o => Refine.ising_w_nonneg s hg b i o
  refine (energy_tendsto β (isingOffset s) (isingMatrix s) hβ (CapstoneLimit.isingMatrix_symm s)).congr
    (fun L => ?_)
  rw [ising_mean_n s hv hg hf β L, sseCutOn_total s.ham s.nvars β L hV hw, ising_bond_matrices s hf]

/-- **C01 capstone with the limit.** For the transverse-field Ising sampler (hypotheses of `ising_capstone`): for every
number of slots `L` the measure `π_L` is invariant under the `timestep` kernel, and along `L → ∞`
  (ii)  its normalised state marginal tends to the diagonal of `e^{−βH} / Tr e^{−βH}`,
  (iii) its total mass tends to `e^{βC} Tr e^{−βH}`,
  (iv)  the energy estimator `C − ⟨n⟩_L/β` tends to `Tr(H e^{−βH}) / Tr e^{−βH}`. -/
theorem ising_capstone_limit (s : Sampler.IsingSampler) [DecidablePred (Good s.spec.ham)]
    (hv : s.spec.Valid) (hg : 0 ≤ s.spec.gamma) (hf : FieldOK s.spec) (β : ℚ) (hβ : 0 < β) :
    (∀ L : ℕ, Invariant (sseCutOn s.spec.ham β (cfgSpace s.spec.ham s.spec.nvars L))
        (timestepK s.spec.ham β
          (ClusterFamily.ofComponents (fun o => s.frozenBond o.bond) s.spec.ham s.spec.nvars L
            (s.spec.hamWF hv)) L s.spec.nvars)) ∧
    (∀ α : St s.spec.nvars, Tendsto (fun L : ℕ =>
        ((∑ c : (cfgSpace s.spec.ham s.spec.nvars L : Finset Config),
            (if c.1.state = α.1 then sseCutOn s.spec.ham β (cfgSpace s.spec.ham s.spec.nvars L) c else 0) : ℚ) : ℝ)
        / ((∑ c : (cfgSpace s.spec.ham s.spec.nvars L : Finset Config),
            sseCutOn s.spec.ham β (cfgSpace s.spec.ham s.spec.nvars L) c : ℚ) : ℝ)) atTop
      (𝓝 ((NormedSpace.exp (-((β : ℝ) • (isingMatrix s.spec).map ((↑) : ℚ → ℝ)))) α α
        / Matrix.trace (NormedSpace.exp (-((β : ℝ) • (isingMatrix s.spec).map ((↑) : ℚ → ℝ))))))) ∧
    Tendsto (fun L : ℕ =>
        ((∑ c : (cfgSpace s.spec.ham s.spec.nvars L : Finset Config),
            sseCutOn s.spec.ham β (cfgSpace s.spec.ham s.spec.nvars L) c : ℚ) : ℝ)) atTop
      (𝓝 (Real.exp ((β : ℝ) * (isingOffset s.spec : ℝ))
        * Matrix.trace (NormedSpace.exp (-((β : ℝ) • (isingMatrix s.spec).map ((↑) : ℚ → ℝ)))))) ∧
    Tendsto (fun L : ℕ =>
        (isingOffset s.spec : ℝ)
          - ((∑ c : (cfgSpace s.spec.ham s.spec.nvars L : Finset Config),
                (countOps c.1.slots : ℚ) * sseCutOn s.spec.ham β (cfgSpace s.spec.ham s.spec.nvars L) c : ℚ) : ℝ)
            / ((∑ c : (cfgSpace s.spec.ham s.spec.nvars L : Finset Config),
                sseCutOn s.spec.ham β (cfgSpace s.spec.ham s.spec.nvars L) c : ℚ) : ℝ) / (β : ℝ)) atTop
      (𝓝 (Matrix.trace ((isingMatrix s.spec).map ((↑) : ℚ → ℝ)
            * NormedSpace.exp (-((β : ℝ) • (isingMatrix s.spec).map ((↑) : ℚ → ℝ))))
        / Matrix.trace (NormedSpace.exp (-((β : ℝ) • (isingMatrix s.spec).map ((↑) : ℚ → ℝ)))))) :=
  ⟨fun L => (ising_capstone s hv hg hf β hβ L).1,
   fun α => ising_marginal_tendsto s.spec hv hg hf β α,
   ising_partition_tendsto s.spec hv hg hf β,
   ising_energy_tendsto s.spec hv hg hf β hβ.ne'⟩

/-! ### non-vacuity: the two-spin antiferromagnet of C01Capstone.lean (`J = 1`, `Γ = 1/2`, `h = 0`), `β = 3/2` -/

namespace Example

/-- every hypothesis of the limit theorems is satisfiable: the state `↑↓` of `spec2` -/
example := ising_marginal_tendsto spec2 spec2_valid (by norm_num [spec2]) spec2_fieldOK (3 / 2) α2

example := ising_energy_tendsto spec2 spec2_valid (by norm_num [spec2]) spec2_fieldOK (3 / 2) (by norm_num)

example := ising_capstone_limit samp2 spec2_valid (by norm_num [samp2, spec2]) spec2_fieldOK (3 / 2) (by norm_num)

/-- the sequence whose limit is taken is not trivial: at `β = 1`, `L = 2` the `↑↓`-marginal of `π_L` is `35/4`
(C01Capstone.lean) — a non-zero term of the sequence of `ising_marginal_tendsto` -/
example :
    ∑ c : (cfgSpace spec2.ham spec2.nvars 2 : Finset Config),
        (if c.1.state = α2.1 then sseCutOn spec2.ham 1 (cfgSpace spec2.ham spec2.nvars 2) c else 0) = 35 / 4 := by
  have hV : VarsOK spec2.ham 2 := spec2.hamWF spec2_valid
  have hw : ∀ b < spec2.ham.nbonds, ∀ i o, 0 ≤ spec2.ham.w b i o :=
    fun b _ i o => Refine.ising_w_nonneg spec2 (by norm_num [spec2]) b i o
  have hval : marginalValue spec2.ham 1 2 α2.1 = 35 / 4 := by decide +kernel
  refine (sseCutOn_marginal spec2.ham 2 1 2 α2 hV hw).trans ?_
  rw [← config_marginal spec2.ham 2 1 2 α2 hV hw]
  exact (config_marginal_value spec2.ham 2 1 2 α2 hV hw).trans hval

/-- … and the limit is a number strictly between 0 and 1 (4 states, each of positive probability) -/
example :
    0 < (NormedSpace.exp (-(((3 / 2 : ℚ) : ℝ) • (isingMatrix spec2).map ((↑) : ℚ → ℝ)))) α2 α2
        / Matrix.trace (NormedSpace.exp (-(((3 / 2 : ℚ) : ℝ) • (isingMatrix spec2).map ((↑) : ℚ → ℝ)))) :=
  ising_limit_pos spec2 (3 / 2) α2

end Example

end Qmc.C01
