/-
C01 capstone — the three links of "the Ising sampler samples the quantum thermal state", joined.

  (L1) kernel invariance   QmcProofs/KernelInvarianceCut.lean (a-kernel): one `timestep` leaves the TRUE SSE measure
                           `sseCutOn H β S c = if Good H c then configWeight H β c else 0` invariant on the finite
                           configuration space `S = cfgSpace H N L`;
  (L2) SSE representation  QmcProofs/SSEConfig.lean, QmcProps/C01.lean: consistent operator lists ↔ matrix products ↔
                           Taylor polynomial, `Σ_b M_b = C·1 − H`;
  (link) re-indexing       QmcProofs/ConfigMarginal.lean (this work): the sum over (number, placement, bond word, outputs)
                           of (L2) IS the sum over the Good configurations `c ∈ cfgSpace H N L` of (L1).

Theorems (all for every graph / couplings / fields / β / number of slots `L`; nothing bounded):
  * `sse_marginal_cfgSpace`  (T1)  Σ_{c ∈ cfgSpace, Good c, c.state = α} configWeight c = ⟨α| Σ_{n≤L} (βM)ⁿ/n! |α⟩
  * `sse_partition_cfgSpace` (T2)  Σ_{c ∈ cfgSpace, Good c} configWeight c = Σ_{n≤L} βⁿ/n! Tr(Mⁿ)
  * `sse_reindex_cfgSpace`           the T1 sum = the (count, placement, word, outputs)-indexed sum of C01.lean
  * `sseCutOn_marginal`, `sseCutOn_total`   the same two, written for the very function `sseCutOn` of (L1)
  * `sse_invariant_and_marginal`     any Hamiltonian with non-negative matrix elements, distinct in-range variables and
                                     the cluster symmetry: invariance ∧ marginal ∧ total
  * `ising_bond_matrices`            `Σ_b M_b = C·1 − H_Ising` for the whole-step model's Hamiltonian `IsingSpec.ham`
  * `ising_capstone`         (T3)    the Ising sampler: the measure `π_L ∝ configWeight · 1_Good` on `cfgSpace` is
                                     invariant under the `timestep` kernel, its marginal on the spin state `α` is
                                     `⟨α| Σ_{n≤L} βⁿ (C·1 − H)ⁿ / n! |α⟩` — the diagonal of the degree-`L` Taylor polynomial
                                     of `e^{−β(H−C)}` — and its total mass is the trace of that polynomial.

NOT claimed (not formalised anywhere in this development): ergodicity / irreducibility of the kernel, convergence of
the chain to `π_L`, uniqueness of the invariant measure, the limit `L → ∞` (`T_L(β(C−H)) → e^{−β(H−C)}`; in the code the
cutoff grows with the operator count, C12), and that the executable sampler realises the kernel `timestepK` as a
distribution (per-decision thresholds are C08/C02/C09; see design_notes/KernelInvariance.md "Assumed rather than
derived").  The theorems say: IF the chain converges to an invariant measure supported on the Good configurations of a
fixed `L`, and that measure is `π_L`, THEN spin states are distributed as the diagonal of `T_L(β(C−H))`.
-/
import QmcProofs.ConfigMarginalIsing
import QmcProofs.KernelInvarianceCut

open BigOperators Finset

namespace Qmc.C01
open Qmc Qmc.Kernel Qmc.Dist Qmc.Marginal Qmc.SSEConfig

/-! ### T1, T2 on the configuration space (any Hamiltonian) -/

/-- **T1 — state marginal of the SSE measure over the sampler's configuration space.** `H` with bonds on distinct
variables `< N` and non-negative matrix elements; any `β`, `L`, basis state `α`. The filter's decidability instance is an
argument (any instance). -/
theorem sse_marginal_cfgSpace (H : Ham) (N : Nat) (β : ℚ) (L : Nat) (α : St N) (hV : VarsOK H N)
    (hw : ∀ b < H.nbonds, ∀ i o, 0 ≤ H.w b i o)
    [DecidablePred fun c : Config => Good H c ∧ c.state = α.1] :
    ∑ c ∈ (cfgSpace H N L).filter (fun c => Good H c ∧ c.state = α.1), configWeight H β c
      = ∑ n ∈ range (L + 1), β ^ n / n.factorial
          * ((∑ b : Fin H.nbonds, bondMatrix H N b.val) ^ n) α α :=
  config_marginal H N β L α hV hw

/-- **T2 — truncated partition function over the sampler's configuration space.** -/
theorem sse_partition_cfgSpace (H : Ham) (N : Nat) (β : ℚ) (L : Nat) (hV : VarsOK H N)
    (hw : ∀ b < H.nbonds, ∀ i o, 0 ≤ H.w b i o) [DecidablePred fun c : Config => Good H c] :
    ∑ c ∈ (cfgSpace H N L).filter (fun c => Good H c), configWeight H β c
      = ∑ n ∈ range (L + 1), β ^ n / n.factorial
          * Matrix.trace ((∑ b : Fin H.nbonds, bondMatrix H N b.val) ^ n) :=
  config_partition H N β L hV hw

/-- **the re-indexing** — the configuration-space sum of T1 equals, term-class by term-class total, the sum of
`C01.sse_config_weight_marginal` over (operator count, placement among the `L` slots, bond word) of `configSum`
(sum over consistent outputs): (L1) and (L2) talk about the same weighted set. -/
theorem sse_reindex_cfgSpace (H : Ham) (N : Nat) (β : ℚ) (L : Nat) (α : St N) (hV : VarsOK H N)
    (hw : ∀ b < H.nbonds, ∀ i o, 0 ≤ H.w b i o)
    [DecidablePred fun c : Config => Good H c ∧ c.state = α.1] :
    ∑ c ∈ (cfgSpace H N L).filter (fun c => Good H c ∧ c.state = α.1), configWeight H β c
      = ∑ n ∈ range (L + 1), ∑ _pos ∈ powersetCard n (range L), ∑ p : Fin n → Fin H.nbonds,
          β ^ n * ((L - n).factorial / L.factorial)
            * PathSum.configSum H (List.ofFn fun i => (p i).val) α.1 α.1 :=
  config_marginal_reindex H N β L α hV hw

/-- T1 without the positivity clause of `Legal` and without any sign hypothesis: the cut `Consistent ∧ TagCanon` -/
theorem sse_marginal_cfgSpace_struct (H : Ham) (N : Nat) (β : ℚ) (L : Nat) (α : St N) (hV : VarsOK H N)
    [DecidablePred fun c : Config => (Consistent c ∧ TagCanon c.slots) ∧ c.state = α.1] :
    ∑ c ∈ (cfgSpace H N L).filter (fun c => (Consistent c ∧ TagCanon c.slots) ∧ c.state = α.1),
        configWeight H β c
      = ∑ n ∈ range (L + 1), β ^ n / n.factorial
          * ((∑ b : Fin H.nbonds, bondMatrix H N b.val) ^ n) α α :=
  config_marginal_struct H N β L α hV

/-! ### the same, for the function `sseCutOn` that the invariance theorems are about -/

/-- **marginal of `sseCutOn`**: the measure of (L1), summed over the configurations of the space with state `α` -/
theorem sseCutOn_marginal (H : Ham) [DecidablePred (Good H)] (N : Nat) (β : ℚ) (L : Nat) (α : St N)
    (hV : VarsOK H N) (hw : ∀ b < H.nbonds, ∀ i o, 0 ≤ H.w b i o) :
    ∑ c : (cfgSpace H N L : Finset Config),
        (if c.1.state = α.1 then sseCutOn H β (cfgSpace H N L) c else 0)
      = ∑ n ∈ range (L + 1), β ^ n / n.factorial
          * ((∑ b : Fin H.nbonds, bondMatrix H N b.val) ^ n) α α := by
  rw [← config_marginal H N β L α hV hw]
  show ∑ c : (cfgSpace H N L : Finset Config),
    (fun c : Config => if c.state = α.1 then (if Good H c then configWeight H β c else 0) else 0) c.1 = _
  rw [Finset.sum_coe_sort (cfgSpace H N L)
    (fun c => if c.state = α.1 then (if Good H c then configWeight H β c else 0) else 0)]
  rw [Finset.sum_filter]
  refine Finset.sum_congr rfl (fun c _ => ?_)
  by_cases h1 : c.state = α.1 <;> by_cases h2 : Good H c <;> simp [h1, h2]

/-- **total mass of `sseCutOn`** -/
theorem sseCutOn_total (H : Ham) [DecidablePred (Good H)] (N : Nat) (β : ℚ) (L : Nat)
    (hV : VarsOK H N) (hw : ∀ b < H.nbonds, ∀ i o, 0 ≤ H.w b i o) :
    ∑ c : (cfgSpace H N L : Finset Config), sseCutOn H β (cfgSpace H N L) c
      = ∑ n ∈ range (L + 1), β ^ n / n.factorial
          * Matrix.trace ((∑ b : Fin H.nbonds, bondMatrix H N b.val) ^ n) := by
  rw [← config_partition H N β L hV hw]
  show ∑ c : (cfgSpace H N L : Finset Config),
    (fun c : Config => if Good H c then configWeight H β c else 0) c.1 = _
  rw [Finset.sum_coe_sort (cfgSpace H N L) (fun c => if Good H c then configWeight H β c else 0)]
  rw [Finset.sum_filter]

/-! ### invariance ∧ marginal, any Hamiltonian -/

/-- **invariant measure with known marginal** — for a Hamiltonian `H` with non-negative matrix elements, bonds on
distinct variables `< N`, and the cluster symmetry (`ClusterSym`: non-edge, non-frozen bonds invariant under the
global flip; cluster-edge bonds constant), `β > 0`, any `L`: the measure `sseCutOn H β (cfgSpace H N L)`
(i) is invariant under one `timestep` (Metropolis sweep ; model's own cluster decomposition ; free-spin refresh),
(ii) has state marginal `⟨α|T_L(βM)|α⟩`, (iii) has total mass `Tr T_L(βM)`, `M = Σ_b M_b`. -/
theorem sse_invariant_and_marginal (H : Ham) [DecidablePred (Good H)] (β : ℚ) (hβ : 0 < β)
    (hw : ∀ b i o, 0 ≤ H.w b i o) (fr : SkOp → Bool) (N L : Nat) (hV : VarsOK H N)
    (hsym : ClusterSym H fr (cfgSpace H N L)) :
    Invariant (sseCutOn H β (cfgSpace H N L))
        (timestepK H β (ClusterFamily.ofComponents fr H N L hV) L N) ∧
    (∀ α : St N,
      ∑ c : (cfgSpace H N L : Finset Config),
          (if c.1.state = α.1 then sseCutOn H β (cfgSpace H N L) c else 0)
        = ∑ n ∈ range (L + 1), β ^ n / n.factorial
            * ((∑ b : Fin H.nbonds, bondMatrix H N b.val) ^ n) α α) ∧
    ∑ c : (cfgSpace H N L : Finset Config), sseCutOn H β (cfgSpace H N L) c
      = ∑ n ∈ range (L + 1), β ^ n / n.factorial
          * Matrix.trace ((∑ b : Fin H.nbonds, bondMatrix H N b.val) ^ n) :=
  ⟨timestep_invariant_components_cut H β hβ (fun b i => hw b i i) fr N L hV hsym,
   fun α => sseCutOn_marginal H N β L α hV (fun b _ => hw b),
   sseCutOn_total H N β L hV (fun b _ => hw b)⟩

/-! ### the Ising sampler -/

/-- **`Σ_b M_b = C·1 − H`** for the Hamiltonian of the whole-step model: `isingMatrix s` is
`H = Σ_edges J σzσz − Γ Σ σx − h Σ σz` in the σz basis (diagonal `isingEnergy`, off-diagonal `−Γ` between states
differing in exactly one spin), `isingOffset s = Σ|J| + N(Γ+|h|)`. Regime `FieldOK`: `h = 0` or `|h| > 2^-52`. -/
theorem ising_bond_matrices (s : IsingSpec) (hf : FieldOK s) :
    (∑ b : Fin s.ham.nbonds, bondMatrix s.ham s.nvars b.val)
      = isingOffset s • (1 : Matrix (St s.nvars) (St s.nvars) ℚ) - isingMatrix s :=
  bondMatrix_sum_eq s hf

/-- the entries of `isingMatrix`, spelled out -/
theorem isingMatrix_diag (s : IsingSpec) (σ : St s.nvars) :
    isingMatrix s σ σ = (s.edges.map fun e => e.2.2 * IsingSSE.spinAt σ.1 e.1 * IsingSSE.spinAt σ.1 e.2.1).sum
      - s.h * ((List.range s.nvars).map (IsingSSE.spinAt σ.1)).sum := by
  simp [isingMatrix, isingEnergy]

theorem isingMatrix_offdiag (s : IsingSpec) (σ σ' : St s.nvars) (h : σ ≠ σ') :
    isingMatrix s σ σ'
      = -(s.gamma * (((List.range s.nvars).filter fun i => IsingSSE.agreeOff [i] σ.1 σ'.1).length : ℚ)) := by
  simp [isingMatrix, h, flipSites]

/-- **T3 — C01 capstone.** For the transverse-field Ising sampler (Hamiltonian `s.spec.ham` and freezing rule
`s.frozenBond` of the executable whole-step model `Sampler.isingTimestep`): any valid graph, couplings of any sign,
`Γ ≥ 0`, `h = 0` or `|h| > 2^-52`, `β > 0`, any number of slots `L`. With `S = cfgSpace s.spec.ham nvars L` and
`π_L = sseCutOn s.spec.ham β S` (`= configWeight · 1_{Consistent ∧ Legal}`, the SSE weight `βⁿ(L−n)!/L!·Π⟨out|M_b|in⟩` on
the configurations the sampler can be in):
  (i)   `π_L` is invariant under the `timestep` kernel (Metropolis diagonal sweep ; each flippable cluster of the model's
        own decomposition flipped with probability ½ ; free-spin refresh);
  (ii)  the marginal of `π_L` on the spin state `α` is `⟨α| Σ_{n≤L} βⁿ (C·1 − H)ⁿ / n! |α⟩`, the diagonal of the degree-`L`
        Taylor polynomial of `e^{−β(H−C)}`, `H = isingMatrix`, `C = isingOffset = total_energy_offset`;
  (iii) the total mass of `π_L` is the trace of that polynomial (the truncated partition function `e^{βC}·Z` as `L → ∞`).
Convergence of the chain and ergodicity are NOT part of the statement (not formalised); the limit `L → ∞` of (ii), (iii) and of the
energy estimator is proved in `QmcProps/C01Limit.lean` (`ising_marginal_tendsto`, `ising_partition_tendsto`, `ising_energy_tendsto`). -/
theorem ising_capstone (s : Sampler.IsingSampler) [DecidablePred (Good s.spec.ham)]
    (hv : s.spec.Valid) (hg : 0 ≤ s.spec.gamma) (hf : FieldOK s.spec) (β : ℚ) (hβ : 0 < β) (L : Nat) :
    Invariant (sseCutOn s.spec.ham β (cfgSpace s.spec.ham s.spec.nvars L))
        (timestepK s.spec.ham β
          (ClusterFamily.ofComponents (fun o => s.frozenBond o.bond) s.spec.ham s.spec.nvars L
            (s.spec.hamWF hv)) L s.spec.nvars) ∧
    (∀ α : St s.spec.nvars,
      ∑ c : (cfgSpace s.spec.ham s.spec.nvars L : Finset Config),
          (if c.1.state = α.1 then sseCutOn s.spec.ham β (cfgSpace s.spec.ham s.spec.nvars L) c else 0)
        = ∑ n ∈ range (L + 1), β ^ n / n.factorial
            * ((isingOffset s.spec • (1 : Matrix (St s.spec.nvars) (St s.spec.nvars) ℚ)
                - isingMatrix s.spec) ^ n) α α) ∧
    ∑ c : (cfgSpace s.spec.ham s.spec.nvars L : Finset Config),
        sseCutOn s.spec.ham β (cfgSpace s.spec.ham s.spec.nvars L) c
      = ∑ n ∈ range (L + 1), β ^ n / n.factorial
          * Matrix.trace ((isingOffset s.spec • (1 : Matrix (St s.spec.nvars) (St s.spec.nvars) ℚ)
              - isingMatrix s.spec) ^ n) := by
  have hV : VarsOK s.spec.ham s.spec.nvars := s.spec.hamWF hv
  have hw : ∀ b < s.spec.ham.nbonds, ∀ i o, 0 ≤ s.spec.ham.w b i o :=
    fun b _ i o => Refine.ising_w_nonneg s.spec hg b i o
  rw [← ising_bond_matrices s.spec hf]
  exact ⟨ising_timestep_invariant_cut s hv hg β hβ L,      -- (L1); the only line that names the kernel theorem
    fun α => sseCutOn_marginal s.spec.ham s.spec.nvars β L α hV hw,
    sseCutOn_total s.spec.ham s.spec.nvars β L hV hw⟩

/-- (ii) of the capstone as a sum over the Good configurations with state `α` (the form of T1) -/
theorem ising_marginal (s : IsingSpec) (hv : s.Valid) (hg : 0 ≤ s.gamma) (hf : FieldOK s) (β : ℚ) (L : Nat)
    (α : St s.nvars) [DecidablePred fun c : Config => Good s.ham c ∧ c.state = α.1] :
    ∑ c ∈ (cfgSpace s.ham s.nvars L).filter (fun c => Good s.ham c ∧ c.state = α.1), configWeight s.ham β c
      = ∑ n ∈ range (L + 1), β ^ n / n.factorial
          * ((isingOffset s • (1 : Matrix (St s.nvars) (St s.nvars) ℚ) - isingMatrix s) ^ n) α α := by
  rw [← ising_bond_matrices s hf]
  exact config_marginal s.ham s.nvars β L α (s.hamWF hv) (fun b _ i o => Refine.ising_w_nonneg s hg b i o)

/-! ### non-vacuity: two spins, one antiferromagnetic edge, transverse field, `L = 2` and `L = 3` -/

namespace Example

/-- two spins, edge (0,1) with `J = 1`, `Γ = 1/2`, `h = 0`: bonds 0 = two-site, 1, 2 = transverse -/
def spec2 : IsingSpec := { nvars := 2, edges := [(0, 1, 1)], gamma := 1 / 2, h := 0 }

def samp2 : Sampler.IsingSampler := { spec := spec2, state := [true, false], slots := [none, none], cutoff := 2 }

/-- the state ↑↓ -/
def α2 : St spec2.nvars := ⟨[true, false], by decide⟩

/-- ↑↓ with two σx operators on spin 0 (flip down, flip back): a Good configuration with off-diagonal operators -/
def c2 : Config :=
  ⟨[true, false], [some (mkOp spec2.ham 1 [true] [false]), some (mkOp spec2.ham 1 [false] [true])]⟩

theorem spec2_valid : spec2.Valid := by
  intro e he
  simp only [spec2, List.mem_singleton] at he
  subst he; decide

theorem spec2_fieldOK : FieldOK spec2 := Or.inl rfl

theorem c2_good : Good spec2.ham c2 := by decide +kernel

/-- the Good set of T1 is not empty -/
theorem c2_mem : c2 ∈ (cfgSpace spec2.ham 2 2).filter (fun c => Good spec2.ham c ∧ c.state = α2.1) := by
  rw [Finset.mem_filter]
  exact ⟨good_mem_cfgSpace c2_good, c2_good, rfl⟩

/-- … and `c2` has positive weight: `β²·0!/2!·Γ² = 1/8` at `β = 1` -/
example : configWeight spec2.ham 1 c2 = 1 / 8 := by decide +kernel

/-- **both sides of T1 are the same non-zero number**: `β = 1`, `L = 2`, `α = ↑↓`:
`⟨↑↓|1 + M + M²/2|↑↓⟩ = 1 + 3 + (3² + 2·(1/2)²)/2 = 35/4` (`M = 2·1 − H`, `⟨↑↓|M|↑↓⟩ = 3`, `⟨↑↑|M|↑↓⟩ = ⟨↓↓|M|↑↓⟩ = 1/2`) -/
example :
    ∑ c ∈ (cfgSpace spec2.ham 2 2).filter (fun c => Good spec2.ham c ∧ c.state = α2.1), configWeight spec2.ham 1 c
      = 35 / 4 ∧
    ∑ n ∈ range (2 + 1), (1 : ℚ) ^ n / n.factorial
        * ((isingOffset spec2 • (1 : Matrix (St spec2.nvars) (St spec2.nvars) ℚ) - isingMatrix spec2) ^ n) α2 α2
      = 35 / 4 := by
  have hV : VarsOK spec2.ham 2 := spec2.hamWF spec2_valid
  have hw : ∀ b < spec2.ham.nbonds, ∀ i o, 0 ≤ spec2.ham.w b i o :=
    fun b _ i o => Refine.ising_w_nonneg spec2 (by norm_num [spec2]) b i o
  have hval : marginalValue spec2.ham 1 2 α2.1 = 35 / 4 := by decide +kernel
  have h1 := config_marginal_value spec2.ham 2 1 2 α2 hV hw
  have h2 := ising_marginal spec2 spec2_valid (by norm_num [spec2]) spec2_fieldOK 1 2 α2
  exact ⟨h1.trans hval, h2.symm.trans (h1.trans hval)⟩

/-- the same at `β = 3/2`, `L = 3` (odd powers present): `1067/32` -/
example :
    ∑ c ∈ (cfgSpace spec2.ham 2 3).filter (fun c => Good spec2.ham c ∧ c.state = α2.1),
        configWeight spec2.ham (3 / 2) c = 1067 / 32 := by
  have hV : VarsOK spec2.ham 2 := spec2.hamWF spec2_valid
  have hw : ∀ b < spec2.ham.nbonds, ∀ i o, 0 ≤ spec2.ham.w b i o :=
    fun b _ i o => Refine.ising_w_nonneg spec2 (by norm_num [spec2]) b i o
  have hval : marginalValue spec2.ham (3 / 2) 3 α2.1 = 1067 / 32 := by decide +kernel
  exact (config_marginal_value spec2.ham 2 (3 / 2) 3 α2 hV hw).trans hval

/-- the capstone instantiated: every hypothesis is satisfiable -/
example (L : Nat) :=
  ising_capstone samp2 spec2_valid (by norm_num [samp2, spec2]) spec2_fieldOK (3 / 2) (by norm_num) L

end Example

end Qmc.C01
