/-
C14 — A sampler restored from a snapshot continues exactly as if never interrupted.

All statements are about the definitions in `QmcModel/Generated/Fields.lean`, which
`tools/extract_fields.py` regenerates from /repo/src on every run of the check, and about the
tempering / pool models of `QmcModel/Snapshot.lean`.  serde's derive semantics (a derived
Serialize/Deserialize pair reproduces every non-skipped field; `skip` gives `Default`) and the
JSON layer (serde_json with `float_roundtrip`) are trusted; what the crate itself decides — which
fields exist, which are skipped / customised, what the manual conversions copy — is what is proved.
-/
import QmcProofs.Snapshot

namespace Qmc.C14
open Qmc.Gen Qmc.Snap

section Ising
variable {F64 R M BW : Type}

/-- RNG-less form + the same RNG re-attached gives back the sampler, field for field.  Hypothesis = the
struct invariant documented in the source (`vars` "is just an array of the variables 0..nvars"), needed because
the snapshot stores only `nvars` and the restore re-derives `vars`. -/
theorem restore_snapshot (g : QmcIsingGraph F64 R M BW) (sg : SerializeQmcGraph F64 M BW) (r : R)
    (hv : g.vars = List.range g.vars.length) (h : g.snapshot = some (sg, r)) : sg.restore r = g :=
  ising_restore_snapshot g sg r hv h

/-- the snapshot conversion panics (`unwrap`) exactly when the sampler has no RNG -/
theorem snapshot_defined (g : QmcIsingGraph F64 R M BW) : g.snapshot.isSome = g.rng.isSome :=
  ising_snapshot_isSome g

/-- a restored sampler satisfies the invariant again and holds the RNG it was given: cycles can be repeated -/
theorem restore_wellformed (sg : SerializeQmcGraph F64 M BW) (r : R) :
    (sg.restore r).vars = List.range (sg.restore r).vars.length ∧ (sg.restore r).rng = some r :=
  ising_restore_wf sg r

/-- restore then snapshot is the identity as well (no information is invented) -/
theorem snapshot_restore (sg : SerializeQmcGraph F64 M BW) (r : R) : (sg.restore r).snapshot = some (sg, r) :=
  ising_snapshot_restore sg r

/-- serde round trip of the sampler *with* its RNG: identity as soon as the components round-trip -/
theorem serde_roundtrip_ising (rtR : R → R) (rtM : M → M) (rtB : BW → BW)
    (hR : ∀ x, rtR x = x) (hM : ∀ x, rtM x = x) (hB : ∀ x, rtB x = x) (g : QmcIsingGraph F64 R M BW) :
    g.serdeRT rtR rtM rtB = g :=
  ising_serde_roundtrip rtR rtM rtB hR hM hB g

/-- serde round trip of the RNG-less form -/
theorem serde_roundtrip_serialize_graph (rtM : M → M) (rtB : BW → BW)
    (hM : ∀ x, rtM x = x) (hB : ∀ x, rtB x = x) (sg : SerializeQmcGraph F64 M BW) : sg.serdeRT rtM rtB = sg :=
  serialize_graph_serde_roundtrip rtM rtB hM hB sg

/-- The whole "save without RNG, load, re-attach the RNG" pipeline is the identity. -/
theorem full_cycle_ising (rtM : M → M) (rtB : BW → BW) (hM : ∀ x, rtM x = x) (hB : ∀ x, rtB x = x)
    (g : QmcIsingGraph F64 R M BW) (sg : SerializeQmcGraph F64 M BW) (r : R)
    (hv : g.vars = List.range g.vars.length) (h : g.snapshot = some (sg, r)) :
    (sg.serdeRT rtM rtB).restore r = g := by
  rw [serialize_graph_serde_roundtrip rtM rtB hM hB sg]
  exact ising_restore_snapshot g sg r hv h

/-- `continue_eq`: whatever is done afterwards (any number of steps, any observable) gives the same result on
the restored copy, for every continuation `f`. -/
theorem continue_eq {β : Type} (f : QmcIsingGraph F64 R M BW → β)
    (g : QmcIsingGraph F64 R M BW) (sg : SerializeQmcGraph F64 M BW) (r : R)
    (hv : g.vars = List.range g.vars.length) (h : g.snapshot = some (sg, r)) : f (sg.restore r) = f g := by
  rw [ising_restore_snapshot g sg r hv h]

end Ising

section Generic
variable {F64 R M I BW : Type}

/-- the generic sampler `Qmc` (serialised with its RNG; it has no RNG-less form) -/
theorem serde_roundtrip_qmc (rtR : R → R) (rtM : M → M) (rtI : I → I) (rtB : BW → BW)
    (hR : ∀ x, rtR x = x) (hM : ∀ x, rtM x = x) (hI : ∀ x, rtI x = x) (hB : ∀ x, rtB x = x)
    (q : Gen.Qmc F64 R M I BW) : q.serdeRT rtR rtM rtI rtB = q :=
  qmc_serde_roundtrip rtR rtM rtI rtB hR hM hI hB q

end Generic

section Components
variable {F64 T O LV A N P V S IT : Type}

/-- the op container comes back identical except for what its allocator's round trip does -/
theorem serde_roundtrip_opcontainer (rtA : A → A) (rtN : N → N) (rtP : P → P)
    (hN : ∀ x, rtN x = x) (hP : ∀ x, rtP x = x) (x : FastOpsTemplate A N P) :
    x.serdeRT rtA rtN rtP = { x with alloc := rtA x.alloc } :=
  fastOps_serde rtA rtN rtP hN hP x

/-- heat-bath table, RVB bond container, link records, ops, interactions, nodes: verbatim -/
theorem serde_roundtrip_leaves :
    (∀ x : BondWeights F64, x.serdeRT = x) ∧
    (∀ (rt : T → T), (∀ x, rt x = x) → ∀ x : BondContainer F64 T, x.serdeRT rt = x) ∧
    (∀ x : PRel, x.serdeRT = x) ∧
    (∀ (rtV : V → V) (rtS : S → S), (∀ x, rtV x = x) → (∀ x, rtS x = x) → ∀ x : BasicOp V S, x.serdeRT rtV rtS = x) ∧
    (∀ (rt : IT → IT), (∀ x, rt x = x) → ∀ x : Interaction F64 IT, x.serdeRT rt = x) ∧
    (∀ (rtO : O → O) (rtL : LV → LV), (∀ x, rtO x = x) → (∀ x, rtL x = x) →
      ∀ x : FastOpNodeTemplate O LV, x.serdeRT rtO rtL = x) :=
  ⟨bondWeights_serde, fun rt h x => bondContainer_serde rt h x, pRel_serde,
   fun rtV rtS hV hS x => basicOp_serde rtV rtS hV hS x, fun rt h x => interaction_serde rt h x,
   fun rtO rtL hO hL x => node_serde rtO rtL hO hL x⟩

end Components

section Pool
variable {T : Type} [Inhabited T]

/-- a pool's snapshot is its instance count (and `gen_more`): the round trip preserves exactly that -/
theorem alloc_snapshot_counts (a : Allocator T) : counts a.serdeRT = counts a :=
  Snap.alloc_snapshot_counts a

/-- … and is the identity on a clean pool (every pooled instance observably `Default`, which `reset()` on return
establishes; capacity of the pooled vectors is not observable) -/
theorem alloc_serde_clean (a : Allocator T) (h : ∀ t ∈ a.instances, t = default) : a.serdeRT = a :=
  Snap.alloc_serde_clean a h

/-- the pool model depends only on counts: which `get_instance` panics and what the counts are afterwards is a
function of `(count, gen_more)` for every event word -/
theorem pool_run_counts_only (reset : T → T) (evs : List Ev) (a : Allocator T) (held : List T) :
    (runPool reset evs (a, held)).map (fun s => counts s.1) = runCounts evs (counts a) :=
  Snap.pool_run_counts_only reset evs a held

/-- hence a restored pool behaves like the original under every update routine -/
theorem pool_restored_behaves (reset : T → T) (evs : List Ev) (a : Allocator T) (held : List T) :
    (runPool reset evs (a.serdeRT, held)).map (fun s => counts s.1) =
      (runPool reset evs (a, held)).map (fun s => counts s.1) := by
  rw [Snap.pool_run_counts_only, Snap.pool_run_counts_only, Snap.alloc_snapshot_counts]

/-- A pooled `BondContainer` that went through `reset()` (= `clear()`, body shape-checked against the source on every
run) is observably `Default`: no keys, `total_weight` EXACTLY zero — also when `remove()` down to empty left a positive
floating-point residue — and nothing mapped.  This is what makes "the snapshot stores only the pool size" sound for the
RVB scratch containers; the harness asserts the same on the real code after every step through the allocator hook. -/
theorem pooled_bondcontainer_reset_clean {F64 K : Type} (zero : F64) (idx : K → Nat) (bc : BondContainer F64 K)
    (hinv : bcMapInv idx bc) : bcClean zero (bcClear zero idx bc) :=
  bcClear_clean zero idx bc hinv

end Pool

section DefaultAlloc
variable {T1 T2 T3 T4 T5 T6 T7 T8 T9 : Type}
variable [Inhabited T1] [Inhabited T2] [Inhabited T3] [Inhabited T4] [Inhabited T5] [Inhabited T6]
  [Inhabited T7] [Inhabited T8] [Inhabited T9]

/-- `DefaultFastOpAllocator`: all pools clean (the state between two steps, C18) ⇒ the JSON round trip is the
identity on the allocator, hence (with `serde_roundtrip_opcontainer`, `serde_roundtrip_ising`) on the sampler. -/
theorem default_alloc_serde_clean
    (a : DefaultFastOpAllocator (Allocator T1) (Allocator T2) (Allocator T3) (Allocator T4) (Allocator T5)
      (Allocator T6) (Allocator T7) (Allocator T8) (Allocator T9))
    (h1 : ∀ t ∈ a.usize_alloc.instances, t = default) (h2 : ∀ t ∈ a.bool_alloc.instances, t = default)
    (h3 : ∀ t ∈ a.opside_alloc.instances, t = default) (h4 : ∀ t ∈ a.leg_alloc.instances, t = default)
    (h5 : ∀ t ∈ a.option_usize_alloc.instances, t = default) (h6 : ∀ t ∈ a.f64_alloc.instances, t = default)
    (h7 : ∀ t ∈ a.bond_container_alloc.instances, t = default)
    (h8 : ∀ t ∈ a.bond_container_varpos_alloc.instances, t = default)
    (h9 : ∀ t ∈ a.binary_heap_alloc.instances, t = default) :
    a.serdeRT Allocator.serdeRT Allocator.serdeRT Allocator.serdeRT Allocator.serdeRT Allocator.serdeRT
      Allocator.serdeRT Allocator.serdeRT Allocator.serdeRT Allocator.serdeRT = a := by
  cases a
  simp only [DefaultFastOpAllocator.serdeRT] at *
  simp only [Snap.alloc_serde_clean _ h1, Snap.alloc_serde_clean _ h2, Snap.alloc_serde_clean _ h3,
    Snap.alloc_serde_clean _ h4, Snap.alloc_serde_clean _ h5, Snap.alloc_serde_clean _ h6,
    Snap.alloc_serde_clean _ h7, Snap.alloc_serde_clean _ h8, Snap.alloc_serde_clean _ h9]

end DefaultAlloc

section Tempering
variable {F64 R1 R2 M BW U : Type}

/-- Tempering container: RNG-less snapshot + the same RNGs re-attached gives back the container, except that the
two `graph_ham_eq_*` caches are `None`. -/
theorem tempering_restore_snapshot
    (tc : TemperingContainer F64 R1 (QmcIsingGraph F64 R2 M BW))
    (hwf : ∀ p ∈ tc.graphs, p.1.vars = List.range p.1.vars.length)
    (st : SerializeTemperingContainer F64 (SerializeQmcGraph F64 M BW)) (r : R1) (rs : List R2)
    (h : tc.snapshot QmcIsingGraph.snapshot = some (st, r, rs)) :
    st.restore SerializeQmcGraph.restore r rs = resetCaches tc :=
  Snap.tempering_restore_snapshot QmcIsingGraph.snapshot SerializeQmcGraph.restore tc
    (fun p hp sg r hs => ising_restore_snapshot p.1 sg r (hwf p hp) hs) st r rs h

/-- serde round trip of the container with its RNGs -/
theorem serde_roundtrip_tempering {R Q : Type} (rtR : R → R) (rtQ : Q → Q) (hR : ∀ x, rtR x = x) (hQ : ∀ x, rtQ x = x)
    (tc : TemperingContainer F64 R Q) : tc.serdeRT rtR rtQ = tc := by
  cases tc
  simp [TemperingContainer.serdeRT, hR, hQ]

variable {R Q : Type}

/-- The cache reset is observationally irrelevant: a tempering step from the restored container ends in the
same replicas, RNG and swap count as from the original (the caches are recomputed from the replicas before
they are read), provided the original's caches were valid — they are `None` after construction / `add_qmc_stepper`
and `cache_valid_preserved` below keeps them valid. -/
theorem reset_caches_irrelevant (ops : Ops F64 R Q U) (tc : TC F64 R Q) (h : CacheValid ops tc) :
    resetCaches (temperingStep ops (resetCaches tc)) = resetCaches (temperingStep ops tc) :=
  step_reset_irrelevant ops tc h

/-- with at least two replicas the two results are equal outright (caches included) -/
theorem reset_caches_irrelevant_strong (ops : Ops F64 R Q U) (tc : TC F64 R Q) (h : CacheValid ops tc)
    (h2 : 2 ≤ tc.graphs.length) :
    temperingStep ops (resetCaches tc) = temperingStep ops tc := by
  unfold temperingStep
  rw [resetCaches_graphs]
  have : ¬ tc.graphs.length ≤ 1 := by omega
  simp only [this, if_false]
  exact body_reset_irrelevant ops _ _ _ tc h

/-- the same for the rayon step, under every scheduler -/
theorem reset_caches_irrelevant_par (ops : Ops F64 R Q U) (sched : Scheduler) (k : Nat) (tc : TC F64 R Q)
    (h : CacheValid ops tc) :
    resetCaches (parTemperingStep ops sched k (resetCaches tc)) = resetCaches (parTemperingStep ops sched k tc) :=
  parStep_reset_irrelevant ops sched k tc h

/-- a freshly restored container has valid caches -/
theorem restored_cache_valid (ops : Ops F64 R Q U) (tc : TC F64 R Q) : CacheValid ops (resetCaches tc) :=
  cacheValid_reset ops tc

/-- The caches stay valid across tempering steps whenever `ham_eq` depends only on data (`sig`: edges, fields) that
`set_op_cutoff` and `swap_graphs` leave in place — so *every* snapshot point (also "right after a swap") satisfies the
hypothesis of `reset_caches_irrelevant`. -/
theorem cache_valid_preserved {H : Type} (ops : Ops F64 R Q U) (sig : Q → H) (eqH : H → H → Bool)
    (hs : HamStable ops sig eqH) (tc : TC F64 R Q) (h : CacheValid ops tc) :
    CacheValid ops (temperingStep ops tc) :=
  step_cacheValid hs tc h

/-- **Cache fill** (obligation on the regenerated guard of `tempering_step` / `parallel_tempering_step` and the
regenerated body of `make_ham_equalities`): from every valid cache state the guarded rebuild leaves both caches up to
date. -/
theorem cache_fill_spec (ops : Ops F64 R Q U) (tc : TC F64 R Q) (h : CacheValid ops tc) :
    ensureCaches ops tc = fillCaches ops tc :=
  ensure_of_valid ops tc h

/-- a new container has valid (empty) caches — against the regenerated `new` literal -/
theorem cache_valid_new (ops : Ops F64 R Q U) (r : R) : CacheValid ops (TemperingContainer.new r : TC F64 R Q) :=
  cacheValid_new ops r

/-- **`cache_valid_after_add`** — against the regenerated body of `add_qmc_stepper`: appending a replica (at any time,
also after tempering steps) keeps the caches valid, because both are reset. -/
theorem cache_valid_after_add (ops : Ops F64 R Q U) (tc : TC F64 R Q) (q : Q) (beta : F64) (h : CacheValid ops tc) :
    CacheValid ops (addReplica tc q beta) :=
  cacheValid_add ops tc q beta h

/-- cache validity holds in every container reachable through the API (`new`, `add_qmc_stepper` interleaved with
serial / rayon tempering steps, replica updates that keep the Hamiltonians in place, snapshot-restore cycles) -/
theorem cache_valid_reachable {H : Type} (ops : Ops F64 R Q U) (sig : Q → H) (eqH : H → H → Bool)
    (hs : HamStable ops sig eqH) (tc : TC F64 R Q) (h : Reachable ops sig tc) : CacheValid ops tc :=
  reachable_cacheValid hs h

/-- hence, at EVERY reachable snapshot point (also right after an add, or after the step following an add), the
restored container's next tempering step agrees with the uninterrupted one -/
theorem restore_continues_reachable {H : Type} (ops : Ops F64 R Q U) (sig : Q → H) (eqH : H → H → Bool)
    (hs : HamStable ops sig eqH) (tc : TC F64 R Q) (h : Reachable ops sig tc) :
    resetCaches (temperingStep ops (resetCaches tc)) = resetCaches (temperingStep ops tc) :=
  step_reset_irrelevant ops tc (reachable_cacheValid hs h)

end Tempering

/-! ## Non-vacuity and the role of the hypotheses -/
section Examples

def g0 : QmcIsingGraph Nat Nat Nat Nat :=
  { edges := [([0, 1], 3), ([1, 2], 5)], transverse := 1, longitudinal := 2, state := some [true, false, true],
    cutoff := 7, op_manager := some 42, total_energy_offset := 9, rng := some 1234, vars := [0, 1, 2],
    run_rvb_steps := true, classical_bonds := some [[0], [0, 1], [1]], total_rvb_successes := 3,
    rvb_clusters_counted := 8, bond_weights := some 77 }

example : g0.snapshot.isSome = true := rfl
example : g0.vars = List.range g0.vars.length := by decide
example : ∃ sg r, g0.snapshot = some (sg, r) ∧ sg.restore r = g0 :=
  ⟨_, _, rfl, restore_snapshot g0 _ _ (by decide) rfl⟩

/-- the invariant on `vars` is needed: the field is re-derived, not stored -/
example : ∃ (g : QmcIsingGraph Nat Nat Nat Nat) (sg : _) (r : _),
    g.snapshot = some (sg, r) ∧ (sg.restore r).vars ≠ g.vars :=
  ⟨{ g0 with vars := [2, 1, 0] }, _, _, rfl, by decide⟩

/-- the serde round trip of a pool is *not* the identity on a dirty pool (only the count is stored) … -/
example : (⟨[5, 6], false⟩ : Allocator Nat).serdeRT ≠ ⟨[5, 6], false⟩ := by
  simp [Allocator.serdeRT, List.replicate]

/-- … but it always keeps the counts -/
example : counts (⟨[5, 6], false⟩ : Allocator Nat).serdeRT = (2, false) := rfl

/-- an exhausted restored pool panics exactly like the original -/
example : runCounts [.get, .get, .get] (2, false) = none := rfl
example : runCounts [.get, .get, .ret, .ret] (2, false) = some (2, false) := rfl

/-- a concrete replica model satisfying `HamStable`: replica = (Hamiltonian tag, (cutoff, state tag)); a swap
exchanges the second components only -/
def toyOps : Ops Nat Nat (Nat × Nat × Nat) Bool where
  hamEq a b := a.1 == b.1
  cutoff q := q.2.1
  setCutoff c q := (q.1, c, q.2.2)
  swapOn a b u _ := if u then (((a.1.1, b.1.2), a.2), ((b.1.1, a.1.2), b.2), true) else (a, b, false)
  genHalf r := (r % 2 == 0, r / 2)
  genUnif r := (r % 3 == 0, r / 3)

example : HamStable toyOps (fun q => q.1) (fun a b => a == b) where
  hamEq_sig _ _ := rfl
  sig_setCutoff _ _ := rfl
  sig_swap a b u e := by cases u <;> exact ⟨rfl, rfl⟩

def toyTC : TC Nat Nat (Nat × Nat × Nat) :=
  { graphs := [((1, 2, 10), 1), ((1, 3, 11), 2), ((2, 4, 12), 3)], rng := some 36, graph_ham_eq_a := none,
    graph_ham_eq_b := none, total_swaps := 0 }

/-- the toy step really swaps and fills the caches (the statement is not about a no-op) -/
example : (temperingStep toyOps toyTC).total_swaps = 2 ∧
    (temperingStep toyOps toyTC).graph_ham_eq_a = some [true] ∧
    (temperingStep toyOps toyTC).graph_ham_eq_b = some [false] ∧
    (temperingStep toyOps toyTC).graphs.map (·.1.2.2) = [11, 12, 10] := by decide

/-- a history that adds a replica AFTER a tempering step is reachable (the invariant is not only about containers
filled before the first step) -/
example : Reachable toyOps (fun q => q.1)
    (addReplica (temperingStep toyOps (addReplica (addReplica (TemperingContainer.new 36) (1, 2, 10) 1) (1, 3, 11) 2))
      (2, 4, 12) 3) :=
  .add _ _ (.step (.add _ _ (.add _ _ (.new 36))))

/-- what goes wrong if `add_qmc_stepper` reset only one cache, chosen by parity (second-round seeded mutation): after
"2 replicas, one step, add a third" the kept cache of the second pairing is stale (`some []` instead of
`some [false]`), so the caches are NOT valid … -/
def badAdd (tc : TC Nat Nat (Nat × Nat × Nat)) (q : Nat × Nat × Nat) (beta : Nat) : TC Nat Nat (Nat × Nat × Nat) :=
  let tc := if tc.graphs.length % 2 == 0 then { tc with graph_ham_eq_a := none } else { tc with graph_ham_eq_b := none }
  { tc with graphs := tc.graphs ++ [(q, beta)] }

def toyGrown (add : TC Nat Nat (Nat × Nat × Nat) → (Nat × Nat × Nat) → Nat → TC Nat Nat (Nat × Nat × Nat)) :=
  add (temperingStep toyOps (addReplica (addReplica (TemperingContainer.new 108) (1, 2, 10) 1) (1, 3, 11) 2)) (2, 4, 12) 3

example : (toyGrown badAdd).graph_ham_eq_b = some [] ∧
    eqsOf toyOps (secondSub (toyGrown badAdd).graphs).2.1 = [false] := by decide

/-- … and with a rebuild that only fills what is `None`, the uninterrupted run never considers the new last pair
while the restored one does: the restored continuation differs (different swap counts after one more step). -/
def badEnsure (tc : TC Nat Nat (Nat × Nat × Nat)) : TC Nat Nat (Nat × Nat × Nat) :=
  let tc := if tc.graph_ham_eq_a.isNone then { tc with graph_ham_eq_a := some (eqsOf toyOps (firstSub tc.graphs).1) } else tc
  if tc.graph_ham_eq_b.isNone then { tc with graph_ham_eq_b := some (eqsOf toyOps (secondSub tc.graphs).2.1) } else tc

def badStep (tc : TC Nat Nat (Nat × Nat × Nat)) : TC Nat Nat (Nat × Nat × Nat) :=
  temperingRest toyOps (setAllSerial toyOps) (performSwaps toyOps) (performSwaps toyOps) (badEnsure tc)

example : (badStep (toyGrown badAdd)).total_swaps ≠ (badStep (resetCaches (toyGrown badAdd))).total_swaps := by decide

/-- with the real (regenerated) add the two continuations agree -/
example : (temperingStep toyOps (toyGrown addReplica)).total_swaps =
    (temperingStep toyOps (resetCaches (toyGrown addReplica))).total_swaps := by decide

/-- a container emptied by `remove()` with a residue (weight 7 standing for the residue), reset: clean -/
example : bcClean (0 : Nat) (bcClear 0 id (⟨[none, some 0, none], [(1, 5)], 7⟩ : BondContainer Nat Nat)) :=
  pooled_bondcontainer_reset_clean 0 id _ (by
    intro i v h
    refine ⟨(1, 5), by simp, ?_⟩
    match i, h with
    | 1, _ => rfl
    | 0, h => simp at h
    | 2, h => simp at h
    | (n + 3), h => simp at h)

/-- … whereas a reset with an early return on empty `keys` (fourth-round seed) keeps the residue -/
example : ¬ bcClean (0 : Nat) (⟨[none], [], 7⟩ : BondContainer Nat Nat) := by
  intro h; exact absurd h.2.1 (by decide)

end Examples

end Qmc.C14
