/-
C20, FFT route — headline theorems only (proofs: QmcProofs/AutocorrFFT.lean).

`fft_autocorrelation` (src/sse/autocorrelations.rs l.99–133; the rayon tempering helpers in
src/sse/parallel_tempering/tempering_container.rs l.588–614 call the same function) does not evaluate the circular
sum the hand model `Qmc.autocorr` evaluates: it runs forward FFT → `norm_sqr` → unnormalised inverse FFT.
`Qmc.AutocorrFFT.fftPipeline` is that pipeline, step by step, in exact real/complex arithmetic, with the two
transforms defined as rustfft documents them.  Proved: discrete Wiener–Khinchin for every length `N ≥ 1` and every
complex series, and that the pipeline returns exactly (the cast of) `Qmc.autocorr` on every sample table on which the
hand model is defined.  Trusted: rustfft computes the DFT it documents; f64 rounding (run-time comparison, 1e-9).
-/
import QmcProofs.AutocorrFFT
import QmcProps.C20

namespace Qmc.C20

open Qmc.AutocorrFFT
open scoped Real ComplexConjugate

/-- orthogonality of the characters of ℤ/N: `Σ_{k<N} e^{2πi k m/N} = N` if `N ∣ m`, else `0` -/
theorem char_orthogonality {N : ℕ} (hN : 0 < N) (m : ℤ) :
    ∑ k ∈ Finset.range N, Complex.exp (2 * π * Complex.I * k * m / N) = if (N : ℤ) ∣ m then (N : ℂ) else 0 :=
  exp_sum_orthogonality hN m

/-- discrete Wiener–Khinchin, every length `N ≥ 1`, every complex series:
unnormalised inverse DFT of `|DFT x|²` at `t` = `N · Σ_j conj(x_j) · x_{(j+t) mod N}` -/
theorem wiener_khinchin {N : ℕ} (hN : 0 < N) (x : ℕ → ℂ) (t : ℕ) :
    idft N (fun k => ((Complex.normSq (dft N x k) : ℝ) : ℂ)) t =
      (N : ℂ) * ∑ j ∈ Finset.range N, conj (x j) * x ((j + t) % N) :=
  AutocorrFFT.wiener_khinchin hN x t

/-- real input (the Rust feeds `Complex::new(v, 0.0)`): the result is the real number
`N · Σ_j r_j · r_{(j+t) mod N}` -/
theorem wiener_khinchin_real {N : ℕ} (hN : 0 < N) (r : ℕ → ℝ) (t : ℕ) :
    idft N (fun k => ((Complex.normSq (dft N (fun j => (r j : ℂ)) k) : ℝ) : ℂ)) t =
      (((N : ℝ) * ∑ j ∈ Finset.range N, r j * r ((j + t) % N) : ℝ) : ℂ) :=
  AutocorrFFT.wiener_khinchin_real hN r t

/-- one output entry per sample -/
theorem fft_route_length (S : List (List ℚ)) : (fftPipeline S).length = S.length :=
  fftPipeline_length S

/-- under the hand model's guard the pipeline's two divisions (l.113 by `norm`, l.131 by `n·tmax`) are by non-zero
numbers; and `norm = 0` exactly when the guard fails for that column -/
theorem fft_route_divisors_ne_zero (S : List (List ℚ)) (hdef : autocorrDefined S = true) :
    (∀ i, i < nObs S → normF S i ≠ 0) ∧ ((nObs S * S.length : ℕ) : ℝ) ≠ 0 :=
  fft_divisors_ne_zero S hdef

theorem fft_route_norm_eq_zero_iff (S : List (List ℚ)) (i : ℕ) :
    normF S i = 0 ↔ dot (center (column S i)) (center (column S i)) = 0 :=
  normF_eq_zero_iff S i

/-- per observable and lag `t < tmax`: what `ifft.process` leaves in `input[i][t]` is the real number
`tmax · colAutocorr(column i, t)` -/
theorem fft_route_column (S : List (List ℚ)) (i t : ℕ) (ht : t < S.length) :
    back S i t = ((((S.length : ℚ) * colAutocorr (column S i) t : ℚ) : ℝ) : ℂ) :=
  back_eq S i t ht

/-- **the FFT route equals the direct circular sum**: on every sample table on which the hand model is defined the
pipeline returns the hand model's result.  The guard is the model's (`autocorrDefined`: ≥ 1 observable, no
mean-removed column of norm 0); where it fails the Rust returns NaN in every entry (`0/0`), which neither side
models — those inputs are outside the quantifier. -/
theorem fft_route_eq_direct (S : List (List ℚ)) (hdef : autocorrDefined S = true) :
    fftPipeline S = (autocorr S).map fun q => ((q : ℚ) : ℝ) :=
  AutocorrFFT.fft_route_eq_direct S hdef

/-- the same with the hypotheses of `autocorr_lag_zero` / `autocorr_defined` -/
theorem fft_route_eq_direct_of_nonconst (S : List (List ℚ)) (hn : 0 < nObs S)
    (hnc : ∀ i, i < nObs S → NonConst (column S i)) :
    fftPipeline S = (autocorr S).map fun q => ((q : ℚ) : ℝ) :=
  AutocorrFFT.fft_route_eq_direct S (autocorr_defined S hn hnc)

/-- lag 0 of the FFT route is exactly 1 -/
theorem fft_route_lag0_eq_one (S : List (List ℚ)) (hdef : autocorrDefined S = true) :
    (fftPipeline S)[0]? = some 1 :=
  AutocorrFFT.fft_route_lag0_eq_one S hdef

/-! ### non-vacuity: one observable, four samples 1, 2, 4, −1 -/

def demoFFT : List (List ℚ) := [[1], [2], [4], [-1]]

example : autocorrDefined demoFFT = true := by
  norm_num [autocorrDefined, demoFFT, nObs, column, center, mean, dot, List.range_succ]

example : autocorr demoFFT = [1, -4/13, -5/13, -4/13] := by
  norm_num [autocorr, colAutocorr, demoFFT, nObs, column, center, mean, dot, rot, List.range_succ]

/-- so the forward-FFT → `norm_sqr` → inverse-FFT pipeline on this series yields these four numbers -/
example : fftPipeline demoFFT = [1, -4/13, -5/13, -4/13] := by
  have hdef : autocorrDefined demoFFT = true := by
    norm_num [autocorrDefined, demoFFT, nObs, column, center, mean, dot, List.range_succ]
  have ha : autocorr demoFFT = [1, -4/13, -5/13, -4/13] := by
    norm_num [autocorr, colAutocorr, demoFFT, nObs, column, center, mean, dot, rot, List.range_succ]
  rw [fft_route_eq_direct demoFFT hdef, ha]
  norm_num

/-- a constant column is outside the quantifier: the guard fails, the pipeline's `norm` is 0 (Rust: NaN) -/
example : autocorrDefined [[3], [3], [3]] = false ∧ normF [[3], [3], [3]] 0 = 0 := by
  constructor
  · norm_num [autocorrDefined, nObs, column, center, mean, dot, List.range_succ]
  · rw [normF_eq_zero_iff]
    norm_num [column, center, mean, dot]

end Qmc.C20
