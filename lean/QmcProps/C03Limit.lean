/-
C03 capstone + limit — "turning on the RVB update … spin distribution … and energy remain the exact thermal values".

The kernel theorem `C03.ising_timestep_invariant_rvb_cut_proposal` (one Ising `timestep` WITH the RVB update, the model's
own proposal law, no hypothesis on the regions) is stated for the Hamiltonian `isingHam E` (`E : Rvb.Ising`,
QmcProofs/RvbHam.lean: `isingClusterHam`, always `|E| + 2N` bonds) — not for `IsingSpec.ham`.  The capstone is therefore
stated for `isingHam E` directly, with `M = Σ_b bondMatrix (isingHam E) N b` (the matrix of the sampler's bond operators)
and, for ANY constant `C`, the rational symmetric matrix

      `rvbHamMatrix E C = C·1 − M`        in the role of the Hamiltonian `H` (shifted by `C`):

`e^{βM} = e^{βC} e^{−βH}`, and the thermal state `e^{−βH}/Tr e^{−βH}` and the energy `Tr(H e^{−βH})/Tr e^{−βH}` with the
estimator offset `C` are what the limits below produce, for every `C` (`C = total_energy_offset` is the sampler's).  That
`C·1 − M` is entry by entry the transverse-field Ising matrix is proved for `IsingSpec.ham` / `Qmc.isingHam`
(`C01.ising_bond_matrices`, `C01.bond_matrices_sum_diag/offdiag`), NOT re-proved here for `isingClusterHam`.

`ising_capstone_limit_rvb`: `∀ L`, the `timestep` kernel with RVB leaves `π_L = sseCutOn (isingHam E) β (cfgSpace … L)`
invariant ∧ marginal limit ∧ partition limit ∧ energy limit (`Qmc.CapstoneLimit.ham_*_tendsto`: any Hamiltonian with
`VarsOK`, non-negative and symmetric matrix elements).  Per-bond operator counts `⟨n_b⟩_L → β Tr(M_b e^{βM})/Tr e^{βM}`
are NOT covered (the graded re-indexing of QmcProofs/CapstoneCount.lean grades by the total count only; the finite-`L`
word-level identity is `C01.sse_bond_count`).  NOT claimed: ergodicity, convergence, uniqueness, sampler = kernel.
-/
import QmcProps.C03Kernel
import QmcProofs.CapstoneLimitHam

open BigOperators Finset Filter Topology

namespace Qmc.C03
open Qmc Qmc.Rvb Qmc.Dist Qmc.Kernel Qmc.Rvb.Kernel Qmc.Rvb.Derive Qmc.SSEConfig Qmc.CapstoneLimit

/-- `C·1 − Σ_b M_b` for the Hamiltonian of the RVB kernel theorems: the Ising Hamiltonian matrix, shifted by `C` -/
def rvbHamMatrix (E : Ising) (C : ℚ) : Matrix (St E.nvars) (St E.nvars) ℚ :=
  C • (1 : Matrix (St E.nvars) (St E.nvars) ℚ) - ∑ b : Fin (Rvb.Kernel.isingHam E).nbonds, bondMatrix (Rvb.Kernel.isingHam E) E.nvars b.val

theorem isingHam_w_nonneg (E : Ising) (hg : 0 ≤ E.gamma) : ∀ b i o, 0 ≤ (Rvb.Kernel.isingHam E).w b i o :=
  isingClusterHam_w_nonneg _ _ _ _ hg

theorem isingHam_w_symm (E : Ising) : ∀ b i o, (Rvb.Kernel.isingHam E).w b i o = (Rvb.Kernel.isingHam E).w b o i :=
  isingClusterHam_w_symm _ _ _ _

/-- the shifted Hamiltonian matrix is symmetric -/
theorem rvbHamMatrix_symm (E : Ising) (C : ℚ) : (rvbHamMatrix E C).IsSymm :=
  offset_sub_symm (Rvb.Kernel.isingHam E) E.nvars (isingHam_w_symm E) C

/-- `Σ_b M_b = C·1 − H` by definition of `H = rvbHamMatrix E C` -/
theorem rvb_bond_matrices (E : Ising) (C : ℚ) :
    (∑ b : Fin (Rvb.Kernel.isingHam E).nbonds, bondMatrix (Rvb.Kernel.isingHam E) E.nvars b.val)
      = C • (1 : Matrix (St E.nvars) (St E.nvars) ℚ) - rvbHamMatrix E C := by
  unfold rvbHamMatrix; rw [sub_sub_cancel]

/-- state distribution of `π_L` in the limit -/
theorem rvb_marginal_tendsto (E : Ising) [DecidablePred (Good (Rvb.Kernel.isingHam E))] (he : EdgesOK E) (hg : 0 ≤ E.gamma)
    (β C : ℚ) (α : St E.nvars) :
    Tendsto (fun L : ℕ =>
        ((∑ c : (cfgSpace (Rvb.Kernel.isingHam E) E.nvars L : Finset Config),
            (if c.1.state = α.1 then sseCutOn (Rvb.Kernel.isingHam E) β (cfgSpace (Rvb.Kernel.isingHam E) E.nvars L) c else 0) : ℚ) : ℝ)
        / ((∑ c : (cfgSpace (Rvb.Kernel.isingHam E) E.nvars L : Finset Config),
            sseCutOn (Rvb.Kernel.isingHam E) β (cfgSpace (Rvb.Kernel.isingHam E) E.nvars L) c : ℚ) : ℝ)) atTop
      (𝓝 ((NormedSpace.exp (-((β : ℝ) • (rvbHamMatrix E C).map ((↑) : ℚ → ℝ)))) α α
        / Matrix.trace (NormedSpace.exp (-((β : ℝ) • (rvbHamMatrix E C).map ((↑) : ℚ → ℝ)))))) :=
  ham_marginal_tendsto (Rvb.Kernel.isingHam E) E.nvars (isingHam_varsOK he) (fun b _ => isingHam_w_nonneg E hg b)
    (isingHam_w_symm E) β C α

/-- total mass of `π_L` in the limit -/
theorem rvb_partition_tendsto (E : Ising) [DecidablePred (Good (Rvb.Kernel.isingHam E))] (he : EdgesOK E) (hg : 0 ≤ E.gamma)
    (β C : ℚ) :
    Tendsto (fun L : ℕ =>
        ((∑ c : (cfgSpace (Rvb.Kernel.isingHam E) E.nvars L : Finset Config),
            sseCutOn (Rvb.Kernel.isingHam E) β (cfgSpace (Rvb.Kernel.isingHam E) E.nvars L) c : ℚ) : ℝ)) atTop
      (𝓝 (Real.exp ((β : ℝ) * (C : ℝ))
        * Matrix.trace (NormedSpace.exp (-((β : ℝ) • (rvbHamMatrix E C).map ((↑) : ℚ → ℝ)))))) :=
  ham_partition_tendsto (Rvb.Kernel.isingHam E) E.nvars (isingHam_varsOK he) (fun b _ => isingHam_w_nonneg E hg b)
    (isingHam_w_symm E) β C

/-- energy estimator `C − ⟨n⟩_L/β` of `π_L` in the limit -/
theorem rvb_energy_tendsto (E : Ising) [DecidablePred (Good (Rvb.Kernel.isingHam E))] (he : EdgesOK E) (hg : 0 ≤ E.gamma)
    (β C : ℚ) (hβ : β ≠ 0) :
    Tendsto (fun L : ℕ =>
        (C : ℝ)
          - ((∑ c : (cfgSpace (Rvb.Kernel.isingHam E) E.nvars L : Finset Config),
                (countOps c.1.slots : ℚ) * sseCutOn (Rvb.Kernel.isingHam E) β (cfgSpace (Rvb.Kernel.isingHam E) E.nvars L) c : ℚ) : ℝ)
            / ((∑ c : (cfgSpace (Rvb.Kernel.isingHam E) E.nvars L : Finset Config),
                sseCutOn (Rvb.Kernel.isingHam E) β (cfgSpace (Rvb.Kernel.isingHam E) E.nvars L) c : ℚ) : ℝ) / (β : ℝ)) atTop
      (𝓝 (Matrix.trace ((rvbHamMatrix E C).map ((↑) : ℚ → ℝ)
            * NormedSpace.exp (-((β : ℝ) • (rvbHamMatrix E C).map ((↑) : ℚ → ℝ))))
        / Matrix.trace (NormedSpace.exp (-((β : ℝ) • (rvbHamMatrix E C).map ((↑) : ℚ → ℝ)))))) :=
  ham_energy_tendsto (Rvb.Kernel.isingHam E) E.nvars (isingHam_varsOK he) (fun b _ => isingHam_w_nonneg E hg b)
    (isingHam_w_symm E) β C hβ

/-- `Tr e^{−βH} > 0` and every state has positive limit probability -/
theorem rvb_limit_pos (E : Ising) (β C : ℚ) (α : St E.nvars) :
    0 < (NormedSpace.exp (-((β : ℝ) • (rvbHamMatrix E C).map ((↑) : ℚ → ℝ)))) α α
        / Matrix.trace (NormedSpace.exp (-((β : ℝ) • (rvbHamMatrix E C).map ((↑) : ℚ → ℝ)))) :=
  div_pos (exp_diag_pos (((toReal_isSymm (rvbHamMatrix_symm E C)).smul _).neg) α)
    (trace_exp_neg_pos β (rvbHamMatrix E C) (rvbHamMatrix_symm E C))

/-- **C03 capstone with the limit: `timestep` with the RVB update** (model's proposal law `rvbKP`, any finite script
distribution `μ`, any region list `Rs`, any graph with edges on two different variables, `Γ ≥ 0`, `β > 0`,
`CloseExact E eps`; the measure is written with the decidability instance `Kernel.instDecidableGood` of the kernel
theorem): for every `L` the kernel leaves `π_L` invariant, and along `L → ∞`, for every constant `C` and
`H = rvbHamMatrix E C = C·1 − Σ_b M_b`, the normalised state marginal, total mass and energy estimator of `π_L` tend to the
diagonal of `e^{−βH}/Tr e^{−βH}`, `e^{βC} Tr e^{−βH}` and `Tr(H e^{−βH})/Tr e^{−βH}`. -/
theorem ising_capstone_limit_rvb (E : Ising) (he : EdgesOK E)
    (hg : 0 ≤ E.gamma) (β : ℚ) (hβ : 0 < β) (eps : ℚ) (hclose : CloseExact E eps)
    (μ : List (List Nat × ℚ)) (Rs : List Region) (C : ℚ) :
    (∀ L : ℕ, Invariant (sseCutOn (Rvb.Kernel.isingHam E) β (cfgSpace (Rvb.Kernel.isingHam E) E.nvars L))
      (timestepWith (sweepKM (Rvb.Kernel.isingHam E) β (cfgSpace (Rvb.Kernel.isingHam E) E.nvars L) L)
        [restr (cfgSpace (Rvb.Kernel.isingHam E) E.nvars L)
          (rvbKP E E.nvars eps μ Rs (cfgSpace (Rvb.Kernel.isingHam E) E.nvars L))]
        (ClusterFamily.ofComponents (isingFrozen (isingEdges E).length E.nvars) (Rvb.Kernel.isingHam E) E.nvars L
          (isingHam_varsOK he)) E.nvars)) ∧
    (∀ α : St E.nvars, Tendsto (fun L : ℕ =>
        ((∑ c : (cfgSpace (Rvb.Kernel.isingHam E) E.nvars L : Finset Config),
            (if c.1.state = α.1 then sseCutOn (Rvb.Kernel.isingHam E) β (cfgSpace (Rvb.Kernel.isingHam E) E.nvars L) c else 0) : ℚ) : ℝ)
        / ((∑ c : (cfgSpace (Rvb.Kernel.isingHam E) E.nvars L : Finset Config),
            sseCutOn (Rvb.Kernel.isingHam E) β (cfgSpace (Rvb.Kernel.isingHam E) E.nvars L) c : ℚ) : ℝ)) atTop
      (𝓝 ((NormedSpace.exp (-((β : ℝ) • (rvbHamMatrix E C).map ((↑) : ℚ → ℝ)))) α α
        / Matrix.trace (NormedSpace.exp (-((β : ℝ) • (rvbHamMatrix E C).map ((↑) : ℚ → ℝ))))))) ∧
    Tendsto (fun L : ℕ =>
        ((∑ c : (cfgSpace (Rvb.Kernel.isingHam E) E.nvars L : Finset Config),
            sseCutOn (Rvb.Kernel.isingHam E) β (cfgSpace (Rvb.Kernel.isingHam E) E.nvars L) c : ℚ) : ℝ)) atTop
      (𝓝 (Real.exp ((β : ℝ) * (C : ℝ))
        * Matrix.trace (NormedSpace.exp (-((β : ℝ) • (rvbHamMatrix E C).map ((↑) : ℚ → ℝ)))))) ∧
    Tendsto (fun L : ℕ =>
        (C : ℝ)
          - ((∑ c : (cfgSpace (Rvb.Kernel.isingHam E) E.nvars L : Finset Config),
                (countOps c.1.slots : ℚ) * sseCutOn (Rvb.Kernel.isingHam E) β (cfgSpace (Rvb.Kernel.isingHam E) E.nvars L) c : ℚ) : ℝ)
            / ((∑ c : (cfgSpace (Rvb.Kernel.isingHam E) E.nvars L : Finset Config),
                sseCutOn (Rvb.Kernel.isingHam E) β (cfgSpace (Rvb.Kernel.isingHam E) E.nvars L) c : ℚ) : ℝ) / (β : ℝ)) atTop
      (𝓝 (Matrix.trace ((rvbHamMatrix E C).map ((↑) : ℚ → ℝ)
            * NormedSpace.exp (-((β : ℝ) • (rvbHamMatrix E C).map ((↑) : ℚ → ℝ))))
        / Matrix.trace (NormedSpace.exp (-((β : ℝ) • (rvbHamMatrix E C).map ((↑) : ℚ → ℝ)))))) :=
  ⟨fun L => ising_timestep_invariant_rvb_cut_proposal E L he hg β hβ eps hclose μ Rs,
   fun α => rvb_marginal_tendsto E he hg β C α,
   rvb_partition_tendsto E he hg β C,
   rvb_energy_tendsto E he hg β C hβ.ne'⟩

/-! ### non-vacuity: the frustrated triangle `exE` (`J = 1` on three edges, `Γ = 1`, `h = 0`), `β = 3/2`, region `exR` -/

example (μ : List (List Nat × ℚ)) (C : ℚ) :=
  ising_capstone_limit_rvb exE exE_edgesOK (by norm_num [exE]) (3 / 2) (by norm_num) f64eps exE_closeExact μ [exR] C

/-- `exB` (a Good configuration with positive `π_6`-measure, C03Kernel.lean) lies in the space of the `L = 6` term -/
example : exB ∈ cfgSpace (Rvb.Kernel.isingHam exE) 3 6 := good_mem_cfgSpace exB_good

end Qmc.C03
