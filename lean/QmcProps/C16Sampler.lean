/-
C16, sampler level — the constructors a user actually calls (`Qmc::make_interaction`,
`make_diagonal_interaction`, `make_interaction_and_offset`, `make_diagonal_interaction_and_offset`)
return an error, never panic, for everything the standalone constructors reject AND for an
interaction on a variable the sampler does not have (F31, fixed in /repo 2abb7bf); a rejected call
changes nothing; an accepted call has exactly the documented effects; every bond stored by any
sequence of calls satisfies the precondition (`VarsOK`: distinct variables below `nvars`) that the
sampling theorems of C04 / C07 assume.

Property theorems only. Model: QmcModel/QmcCtor.lean (tied to /repo/src/sse/qmc_runner.rs by
`./check C16`, mode `qmcctor`); helper lemmas: QmcProofs/QmcCtor.lean.
-/
import QmcProofs.QmcCtor
import QmcModel.Ham

namespace Qmc.C16
open Qmc Qmc.QmcCtor

/-! ### one call -/

/-- A sampler-level constructor accepts exactly when the standalone constructor accepts and every
variable is one the sampler has. -/
theorem qmc_make_accepts_iff (k : Kind) (s : State) (m : List Rat) (vs : List Nat) :
    (make k s m vs).1 = .ok () ↔ (∃ r, standalone k m vs = .ok r) ∧ ∀ v ∈ vs, v < s.nvars := by
  cases hst : standalone k m vs with
  | ok r =>
    obtain ⟨I, d⟩ := r
    cases hr : outOfRange s.nvars vs with
    | true =>
      rw [make_of_ok_out s hst hr]
      have : ¬ ∀ v ∈ vs, v < s.nvars := by
        rw [← outOfRange_false_iff, hr]; simp
      simp [this]
    | false =>
      obtain ⟨sym, _, hm⟩ := make_of_ok_in s hst hr
      rw [hm]
      exact ⟨fun _ => ⟨⟨_, rfl⟩, (outOfRange_false_iff _ _).mp hr⟩, fun _ => rfl⟩
  | err => rw [make_of_err s hst]; simp
  | panic => exact absurd hst (standalone_ne_panic _ _ _)

/-- … in terms of the input, for the three entry points whose standalone acceptance C16 characterises. -/
theorem qmc_make_accepts_iff_explicit (s : State) (m : List Rat) (vs : List Nat) :
    ((makeInteraction s m vs).1 = .ok () ↔
      (∀ x ∈ m, 0 ≤ x) ∧ (vs ≠ [] ∧ vs.Nodup) ∧ m.length = 4 ^ vs.length ∧ ∀ v ∈ vs, v < s.nvars) ∧
    ((makeDiagonalInteraction s m vs).1 = .ok () ↔
      (∀ x ∈ m, 0 ≤ x) ∧ (vs ≠ [] ∧ vs.Nodup) ∧ m.length = 2 ^ vs.length ∧ ∀ v ∈ vs, v < s.nvars) ∧
    ((makeDiagonalInteractionAndOffset s m vs).1 = .ok () ↔
      (vs ≠ [] ∧ vs.Nodup) ∧ m.length = 2 ^ vs.length ∧ ∀ v ∈ vs, v < s.nvars) := by
  refine ⟨?_, ?_, ?_⟩
  · have := qmc_make_accepts_iff .new s m vs
    simp only [make] at this; rw [this]
    simp only [standalone, new_eq]
    split <;> simp_all [Res.map, Res.bind]
  · have := qmc_make_accepts_iff .diag s m vs
    simp only [make] at this; rw [this]
    simp only [standalone, newDiagonal_eq]
    split <;> simp_all [Res.map, Res.bind]
  · have := qmc_make_accepts_iff .diagOff s m vs
    simp only [make] at this; rw [this]
    simp only [standalone, newDiagonalOffset_eq]
    split <;> simp_all

/-- No input makes a sampler-level constructor panic. -/
theorem qmc_make_never_panics (k : Kind) (s : State) (m : List Rat) (vs : List Nat) :
    (make k s m vs).1 ≠ .panic := by
  cases hst : standalone k m vs with
  | ok r =>
    obtain ⟨I, d⟩ := r
    cases hr : outOfRange s.nvars vs with
    | true => rw [make_of_ok_out s hst hr]; simp
    | false => obtain ⟨sym, _, hm⟩ := make_of_ok_in s hst hr; rw [hm]; simp
  | err => rw [make_of_err s hst]; simp
  | panic => exact absurd hst (standalone_ne_panic _ _ _)

/-- A call that does not return `Ok` changes NOTHING: bonds, offset, both flags, `non_const_diags`
and the heat-bath table are what they were (in particular no offset is recorded for a rejected
interaction, and the cached table is not dropped). -/
theorem qmc_make_reject_leaves_state (k : Kind) (s : State) (m : List Rat) (vs : List Nat)
    (h : (make k s m vs).1 ≠ .ok ()) : (make k s m vs).2 = s := by
  cases hst : standalone k m vs with
  | ok r =>
    obtain ⟨I, d⟩ := r
    cases hr : outOfRange s.nvars vs with
    | true => rw [make_of_ok_out s hst hr]
    | false => obtain ⟨sym, _, hm⟩ := make_of_ok_in s hst hr; rw [hm] at h; exact absurd rfl h
  | err => rw [make_of_err s hst]
  | panic => exact absurd hst (standalone_ne_panic _ _ _)

/-- Exact effects of an accepted call: the interaction the standalone constructor returns is pushed,
its reported offset `d` is subtracted (`d = 0` and the offset is untouched for the two entry points
without offset), the two flags are OR-ed with the interaction's classification, its bond index is
appended to `non_const_diags` iff its diagonal is not constant, the heat-bath table is dropped, the
number of variables and the two options (`do_heatbath`, `do_loop_updates`) are unchanged. -/
theorem qmc_make_accept_effects (k : Kind) (s : State) (m : List Rat) (vs : List Nat)
    (I : Interaction) (d : Rat) (h : standalone k m vs = .ok (I, d)) (hr : ∀ v ∈ vs, v < s.nvars) :
    ∃ sym, I.symUnderIsing = .ok sym ∧
      make k s m vs = (.ok (),
        { s with
          bonds := s.bonds ++ [I]
          offset := s.offset - d
          hasClusterEdges := s.hasClusterEdges || isValidClusterEdge I.isConstant I.vars.length
          breaksIsing := s.breaksIsing || !sym
          nonConstDiags := if I.isConstantDiag then s.nonConstDiags else s.nonConstDiags ++ [s.bonds.length]
          bondWeights := none }) ∧
      ((k = .new ∨ k = .diag) → d = 0 ∧ s.offset - d = s.offset) := by
  obtain ⟨sym, hsym, hm⟩ := make_of_ok_in s h ((outOfRange_false_iff _ _).mpr hr)
  refine ⟨sym, hsym, hm, ?_⟩
  intro hk
  have := standalone_offset_zero hk h
  subst this
  exact ⟨rfl, sub_zero _⟩

/-- F31 in general form: a variable index the sampler does not have makes every entry point return
`Err` and leave the sampler alone, whatever the matrix. -/
theorem out_of_range_rejected (k : Kind) (s : State) (m : List Rat) (vs : List Nat)
    (h : ∃ v ∈ vs, s.nvars ≤ v) : make k s m vs = (.err, s) := by
  have hne : (make k s m vs).1 ≠ .ok () := by
    intro hok
    obtain ⟨v, hv, hge⟩ := h
    have := ((qmc_make_accepts_iff k s m vs).mp hok).2 v hv
    omega
  have h2 := qmc_make_reject_leaves_state k s m vs hne
  have h3 := qmc_make_never_panics k s m vs
  generalize make k s m vs = r at *
  obtain ⟨r1, r2⟩ := r
  cases r1 with
  | ok u => exact absurd rfl hne
  | err => simp only at h2; rw [h2]
  | panic => exact absurd rfl h3

/-! ### any sequence of calls -/

/-- every stored bond acts on a non-empty list of distinct variables the sampler has, and its
symmetry classification does not panic -/
def BondsOK (s : State) : Prop :=
  ∀ b ∈ s.bonds, b.vars ≠ [] ∧ b.vars.Nodup ∧ (∀ v ∈ b.vars, v < s.nvars) ∧
    ∃ sym, b.symUnderIsing = .ok sym

theorem contribution_ok {n : Nat} {c : Call} {I : Interaction} {d : Rat}
    (h : contribution n c = some (I, d)) :
    I.vars ≠ [] ∧ I.vars.Nodup ∧ (∀ v ∈ I.vars, v < n) ∧ ∃ sym, I.symUnderIsing = .ok sym := by
  unfold contribution at h
  cases hst : standalone c.kind c.mat c.vars with
  | ok r =>
    obtain ⟨I', d'⟩ := r
    rw [hst] at h
    cases hr : outOfRange n c.vars with
    | true => simp [hr] at h
    | false =>
      simp [hr] at h
      obtain ⟨rfl, rfl⟩ := h
      have hw := standalone_wf hst
      rw [hw.vars]
      exact ⟨hw.ne, hw.nodup, (outOfRange_false_iff _ _).mp hr, hw.sym⟩
  | err => rw [hst] at h; cases h
  | panic => rw [hst] at h; cases h

/-- Invariant over ANY sequence of sampler-level constructor calls (accepted or rejected, in any
order, on any starting sampler that satisfies it — e.g. a fresh one): every stored bond acts on
distinct variables below `nvars`; the number of variables never changes. -/
theorem accepted_bonds_in_range (s : State) (hs : BondsOK s) (cs : List Call) :
    BondsOK (runCalls s cs) ∧ (runCalls s cs).nvars = s.nvars := by
  rw [runCalls_eq]
  have hn := foldl_apply1_nvars (cs.filterMap (contribution s.nvars)) s
  refine ⟨?_, hn⟩
  intro b hb
  rw [hn]
  rw [(foldl_apply1_closed _ s).1] at hb
  rcases List.mem_append.mp hb with hb | hb
  · exact hs b hb
  · obtain ⟨⟨I, d⟩, hp, rfl⟩ := List.mem_map.mp hb
    obtain ⟨c, _, hc⟩ := List.mem_filterMap.mp hp
    exact contribution_ok hc

/-- … in the form the sampling theorems take it (`Qmc.Kernel.VarsOK (genericHam bonds) nvars`,
QmcProofs/KernelInvarianceComponents.lean, unfolded): the Hamiltonian the sampler hands to its updates
after any sequence of constructor calls on a fresh sampler has distinct in-range variables per bond. -/
theorem accepted_bonds_varsOK (n : Nat) (cs : List Call) :
    ∀ b < (genericHam (runCalls (State.init n) cs).bonds).nbonds,
      ((genericHam (runCalls (State.init n) cs).bonds).vars b).Nodup ∧
      ∀ v ∈ (genericHam (runCalls (State.init n) cs).bonds).vars b, v < n := by
  have h := accepted_bonds_in_range (State.init n) (by intro b hb; simp [State.init] at hb) cs
  intro b hb
  simp only [genericHam] at hb ⊢
  rw [List.getElem?_eq_getElem hb]
  simp only [Option.map_some, Option.getD_some]
  have := h.1 _ (List.getElem_mem hb)
  rw [h.2] at this
  exact ⟨this.2.1, this.2.2.1⟩

theorem runCalls_append (s : State) (cs cs' : List Call) :
    runCalls s (cs ++ cs') = runCalls (runCalls s cs) cs' := by
  simp [runCalls, List.foldl_append]

/-- Once set, `has_cluster_edges` and `breaks_ising_symmetry` stay set along any further sequence of
constructor calls (they are OR-ed, never assigned). -/
theorem flags_sticky (s : State) (cs : List Call) :
    (s.hasClusterEdges = true → (runCalls s cs).hasClusterEdges = true) ∧
    (s.breaksIsing = true → (runCalls s cs).breaksIsing = true) := by
  rw [runCalls_eq]
  obtain ⟨_, _, h3, h4, _, _⟩ := foldl_apply1_closed (cs.filterMap (contribution s.nvars)) s
  constructor
  · intro h; rw [h3, h]; rfl
  · intro h; rw [h4, h]; rfl

/-- The flags of a sampler built from a fresh one are functions of the stored bonds:
`has_cluster_edges` ⇔ some bond is a constant single-variable operator, `breaks_ising_symmetry` ⇔
some bond is not symmetric under the global flip. -/
theorem flags_exact (n : Nat) (cs : List Call) :
    (runCalls (State.init n) cs).hasClusterEdges =
      (runCalls (State.init n) cs).bonds.any (fun I => isValidClusterEdge I.isConstant I.vars.length) ∧
    (runCalls (State.init n) cs).breaksIsing =
      (runCalls (State.init n) cs).bonds.any (fun I => decide (I.symUnderIsing ≠ .ok true)) := by
  rw [runCalls_eq]
  obtain ⟨h1, _, h3, h4, _, _⟩ := foldl_apply1_closed (cs.filterMap (contribution (State.init n).nvars)) (State.init n)
  rw [h1, h3, h4]
  simp only [State.init, Bool.false_or, List.nil_append, List.any_map]
  refine ⟨rfl, ?_⟩
  congr 1
  funext p
  simp only [Function.comp, breaks]
  cases h : p.1.symUnderIsing with
  | ok b => cases b <;> simp
  | err => simp
  | panic => simp

/-- `non_const_diags` of a sampler built from a fresh one is exactly the increasing list of the
indices of the stored bonds whose diagonal is not constant. -/
theorem nonConstDiags_exact (n : Nat) (cs : List Call) :
    (runCalls (State.init n) cs).nonConstDiags.Pairwise (· < ·) ∧
    ∀ i, i ∈ (runCalls (State.init n) cs).nonConstDiags ↔
      ∃ I, (runCalls (State.init n) cs).bonds[i]? = some I ∧ I.isConstantDiag = false := by
  rw [runCalls_eq]
  obtain ⟨h1, _, _, _, h5, _⟩ := foldl_apply1_closed (cs.filterMap (contribution (State.init n).nvars)) (State.init n)
  rw [h1, h5]
  simp only [State.init, List.nil_append, List.length_nil]
  refine ⟨ncdOf_sorted _ 0, ?_⟩
  intro i
  rw [mem_ncdOf]
  constructor
  · rintro ⟨j, I, rfl, hj, hI⟩; exact ⟨I, by simpa using hj, hI⟩
  · rintro ⟨I, hj, hI⟩; exact ⟨i, I, by omega, hj, hI⟩

/-- The final flags, the recorded offset and the multiset of stored bonds do not depend on the ORDER
in which the constructor calls were issued. -/
theorem flags_order_independent (n : Nat) (cs cs' : List Call) (h : cs.Perm cs') :
    (runCalls (State.init n) cs).hasClusterEdges = (runCalls (State.init n) cs').hasClusterEdges ∧
    (runCalls (State.init n) cs).breaksIsing = (runCalls (State.init n) cs').breaksIsing ∧
    (runCalls (State.init n) cs).offset = (runCalls (State.init n) cs').offset ∧
    (runCalls (State.init n) cs).bonds.Perm (runCalls (State.init n) cs').bonds ∧
    (runCalls (State.init n) cs).nonConstDiags.length = (runCalls (State.init n) cs').nonConstDiags.length := by
  rw [runCalls_eq, runCalls_eq]
  have hp : (cs.filterMap (contribution (State.init n).nvars)).Perm
      (cs'.filterMap (contribution (State.init n).nvars)) := h.filterMap _
  obtain ⟨a1, a2, a3, a4, a5, _⟩ := foldl_apply1_closed (cs.filterMap (contribution (State.init n).nvars)) (State.init n)
  obtain ⟨b1, b2, b3, b4, b5, _⟩ := foldl_apply1_closed (cs'.filterMap (contribution (State.init n).nvars)) (State.init n)
  rw [a1, a2, a3, a4, a5, b1, b2, b3, b4, b5]
  refine ⟨?_, ?_, ?_, ?_, ?_⟩
  · rw [hp.any_eq]
  · rw [hp.any_eq]
  · rw [(hp.map (·.2)).sum_eq]
  · exact (hp.map (·.1)).append_left _
  · simp only [State.init, List.nil_append, List.length_nil]
    exact ncdOf_length_perm _ _ (hp.map (·.1))

/-! ### constructor calls interleaved with option setters and time steps -/

/-- the cached heat-bath table, when present, is the table of the CURRENT interactions -/
def TableCurrent (s : State) : Prop :=
  ∀ t, s.bondWeights = some t → t = s.bonds.map maxDiagWeight

theorem runEvent_call (s : State) (c : Call) : runEvent s (.call c) = runCalls s [c] := rfl

/-- Along any interleaving of constructor calls, `set_do_heatbath`, `set_do_loop_updates` and time
steps the cached table is absent or current: an accepted interaction drops it, a rejected one leaves
it (and the bonds) alone, a step builds it from the bonds it sees. -/
theorem table_is_current (s : State) (h : TableCurrent s) (es : List Event) :
    TableCurrent (runEvents s es) := by
  unfold runEvents
  induction es generalizing s with
  | nil => exact h
  | cons e t ih =>
    rw [List.foldl_cons]
    apply ih
    cases e with
    | call c =>
      simp only [runEvent]
      rw [make_snd]
      cases contribution s.nvars c with
      | none => exact h
      | some p => intro t ht; simp [apply1, accepted] at ht
    | setHeatbath b => exact h
    | setLoops b => exact h
    | step =>
      simp only [runEvent, afterDiagonalUpdate]
      split
      · intro t ht; simp at ht; exact ht.symm
      · exact h

/-- With the heat-bath option on, the `unwrap` of the table in `diagonal_update` finds the table of
the current interactions — whatever was added, and in whatever order the option was switched, before. -/
theorem heatbath_step_finds_table (s : State) (h : TableCurrent s) (hd : s.doHeatbath = true) :
    (afterDiagonalUpdate s).bondWeights = some (s.bonds.map maxDiagWeight) := by
  unfold afterDiagonalUpdate
  cases hb : s.bondWeights with
  | none => simp [hd]
  | some t => simp [hd, hb, h t hb]

/-- the bond invariant also holds along interleavings with setters and steps (they touch neither the
bonds nor the number of variables) -/
theorem events_keep_bonds_in_range (s : State) (hs : BondsOK s) (es : List Event) :
    BondsOK (runEvents s es) ∧ (runEvents s es).nvars = s.nvars := by
  unfold runEvents
  induction es generalizing s with
  | nil => exact ⟨hs, rfl⟩
  | cons e t ih =>
    rw [List.foldl_cons]
    have step : BondsOK (runEvent s e) ∧ (runEvent s e).nvars = s.nvars := by
      cases e with
      | call c => rw [runEvent_call]; exact accepted_bonds_in_range s hs [c]
      | setHeatbath b => exact ⟨hs, rfl⟩
      | setLoops b => exact ⟨hs, rfl⟩
      | step =>
        simp only [runEvent, afterDiagonalUpdate]
        split
        · exact ⟨hs, rfl⟩
        · exact ⟨hs, rfl⟩
    obtain ⟨h1, h2⟩ := ih (runEvent s e) step.1
    exact ⟨h1, h2.trans step.2⟩

/-- the order "options first, model afterwards" (round-9 seed C16-17): heat-bath switched on on an
empty sampler, then an interaction, then a step — the step finds a one-entry table -/
example : ((runEvents (State.init 2)
      [.setHeatbath true, .call ⟨.diag, [1, 2], [1]⟩, .step]).bondWeights.map List.length) = some 1 := by
  have hacc : (make .diag (setDoHeatbath (State.init 2) true) [1, 2] [1]).1 = .ok () := by
    have := (qmc_make_accepts_iff_explicit (setDoHeatbath (State.init 2) true) [1, 2] [1]).2.1
    simp only [make]; rw [this]
    refine ⟨?_, by simp, by simp, by simp [State.init, setDoHeatbath]⟩
    intro x hx; simp at hx; rcases hx with rfl | rfl <;> norm_num
  obtain ⟨⟨⟨I, d⟩, hst⟩, hr⟩ := (qmc_make_accepts_iff _ _ _ _).mp hacc
  obtain ⟨sym, _, hm⟩ := make_of_ok_in _ hst ((outOfRange_false_iff _ _).mpr hr)
  have e : runEvents (State.init 2) [.setHeatbath true, .call ⟨.diag, [1, 2], [1]⟩, .step]
      = afterDiagonalUpdate (make .diag (setDoHeatbath (State.init 2) true) [1, 2] [1]).2 := rfl
  rw [e, hm]
  simp [afterDiagonalUpdate, accepted, setDoHeatbath, State.init]

/-! ### regression witnesses and non-vacuity -/

/-- The F31 input: a sampler with 2 variables (any bonds, e.g. the two transverse terms of the
witness), `make_diagonal_interaction([1,2],[5])` returns `Err` and leaves the sampler alone … -/
theorem out_of_range_variable_rejected (s : State) (h : s.nvars = 2) :
    makeDiagonalInteraction s [1, 2] [5] = (.err, s) :=
  out_of_range_rejected .diag s [1, 2] [5] ⟨5, by simp, by omega⟩

/-- … whereas the code before 2abb7bf accepted it and stored a bond on variable 5 of 2 (the next
diagonal sweep drawing that bond indexed the 2-entry state at 5). -/
example : (makeDiagonalInteractionOld (State.init 2) [1, 2] [5]).1 = .ok () ∧
    ((makeDiagonalInteractionOld (State.init 2) [1, 2] [5]).2.bonds.map (·.vars)) = [[5]] := by
  have hnew : Interaction.newDiagonal [1, 2] [5] = .ok (newDiagonalResult [1, 2] [5]) := by
    rw [newDiagonal_eq, if_pos]
    refine ⟨?_, by simp, by simp⟩
    intro x hx; simp at hx; rcases hx with rfl | rfl <;> norm_num
  obtain ⟨sym, hsym⟩ := sym_ok_newDiagonalResult [1, 2] [5] (by simp)
  simp only [makeDiagonalInteractionOld, hnew, addCore_eq _ _ sym hsym]
  simp [accepted, State.init, newDiagonalResult]

/-- the same constructor accepts the same table on a variable the sampler has (the hypotheses of
`qmc_make_accept_effects` are satisfiable; the invariant is about a non-empty bond list) -/
example : (makeDiagonalInteraction (State.init 2) [1, 2] [1]).1 = .ok () := by
  have := (qmc_make_accepts_iff_explicit (State.init 2) [1, 2] [1]).2.1
  rw [this]
  refine ⟨?_, by simp, by simp, by simp [State.init]⟩
  intro x hx; simp at hx; rcases hx with rfl | rfl <;> norm_num

/-- the seed "offset recorded before validation" (round 9, C17-17) contradicts
`qmc_make_reject_leaves_state`: a rejected `make_interaction_and_offset` (variable named twice, a
16-entry matrix with minimal diagonal 1) leaves the offset at its old value -/
example (s : State) :
    (makeInteractionAndOffset s [1,0,0,0, 0,1,0,0, 0,0,1,0, 0,0,0,1] [0, 0]).2.offset = s.offset := by
  have h : (make .newOff s [1,0,0,0, 0,1,0,0, 0,0,1,0, 0,0,0,1] [0, 0]).1 ≠ .ok () := by
    intro hok
    obtain ⟨⟨⟨I, d⟩, hst⟩, _⟩ := (qmc_make_accepts_iff _ _ _ _).mp hok
    have := (standalone_wf hst).nodup
    simp at this
  have := qmc_make_reject_leaves_state _ _ _ _ h
  simp only [make] at this
  rw [this]

end Qmc.C16
