/-
C08 — Diagonal update obeys exact detailed balance in every slot (Metropolis and heat-bath).
Property theorems only (helper lemmas: QmcProofs/Diagonal.lean, QmcProofs/HeatBath.lean).
Model: QmcModel/Diagonal.lean, QmcModel/HeatBath.lean (tied to /repo/src/sse/qmc_traits/{diagonal,heatbath}.rs
and the sweep in /repo/src/sse/fast_ops.rs by `./check C08`).

All statements are over `Rat` and unbounded in the cutoff `L`, the count `n`, β, the weights, the
operator string and the RNG script.
-/
import QmcProofs.HeatBath

namespace Qmc.C08
open Qmc Qmc.RS

/-! ### scripted decision ↔ probability -/

/-- `gen_bool(p)` (0 ≤ p < 1) answers `true` exactly on the words below `⌊p·2^64⌋`. -/
theorem bridge_genBool (rs : RS) (p : Rat) (v : Nat) (s : List Nat) (h : rs.script = v :: s)
    (hv : v < two64) (h0 : 0 ≤ p) (h1 : p < 1) :
    (rs.genBool p).1 = true ↔ (v : Int) < ⌊p * ((two64 : Nat) : Rat)⌋ :=
  genBool_true_iff rs p v s h hv h0 h1

/-- the Metropolis test `num > den || gen_bool(num/den)` answers `true` exactly when the next word
of the script is below `⌊min(1, num/den)·2^64⌋` (all words in the clipped case, where none is drawn). -/
theorem bridge_clipped (rs : RS) (num den : Rat) (v : Nat) (s : List Nat) (h : rs.script = v :: s)
    (hv : v < two64) (h0 : 0 ≤ num) (hd : 0 < den) :
    (genClipped rs num den).1 = true ↔ (v : Int) < ⌊clip1 (num / den) * ((two64 : Nat) : Rat)⌋ :=
  genClipped_true_iff rs num den v s h hv h0 hd

/-- the fraction of accepted words is the probability, up to `2^-64` -/
theorem threshold_is_probability (p : Rat) :
    p - 1 / ((two64 : Nat) : Rat) < ((⌊p * ((two64 : Nat) : Rat)⌋ : Int) : Rat) / ((two64 : Nat) : Rat) ∧
    ((⌊p * ((two64 : Nat) : Rat)⌋ : Int) : Rat) / ((two64 : Nat) : Rat) ≤ p :=
  floor_threshold_bounds p

/-! ### Metropolis: the slot function realises `pInsertM` / `pRemoveM` -/

/-- Empty slot, `n < L`, weights ≥ 0: after the bond `b` has been drawn, the model inserts the diagonal
operator of bond `b` on the current sub-state, and raises the count, exactly when the next word is
below `⌊accInsM·2^64⌋ = ⌊min(1, β·Nb·w/(L−n))·2^64⌋`; otherwise the slot stays empty. The rolling state is
never changed. -/
theorem metropolis_insert_decision (H : Ham) (β : Rat) (L : Nat) (st : List Bool) (n : Nat) (rs : RS)
    (v : Nat) (s : List Nat)
    (hn : n < L) (hβ : 0 ≤ β)
    (hr : varsInRange st (H.vars (rs.genRange H.nbonds).1) = true)
    (hw : 0 ≤ H.w (rs.genRange H.nbonds).1 (readVars st (H.vars (rs.genRange H.nbonds).1))
      (readVars st (H.vars (rs.genRange H.nbonds).1)))
    (hs : (rs.genRange H.nbonds).2.script = v :: s) (hv : v < two64) :
    let b := (rs.genRange H.nbonds).1
    let sub := readVars st (H.vars b)
    let r := metropolisSlot H β L none st n rs
    let yes := (v : Int) < ⌊accInsM β H.nbonds (H.w b sub sub) L n * ((two64 : Nat) : Rat)⌋
    r.state = st ∧
    (yes → r.slot = some (Op.diagonal (H.vars b) b sub (H.const b)) ∧ r.n = n + 1) ∧
    (¬ yes → r.slot = none ∧ r.n = n) := by
  intro b sub r yes
  have hd : (0 : Rat) < ((L - n : Nat) : Rat) := by
    have : 0 < L - n := by omega
    exact_mod_cast this
  have hnum : 0 ≤ β * (H.nbonds : Rat) * H.w b sub sub :=
    mul_nonneg (mul_nonneg hβ (by positivity)) hw
  have hiff := genClipped_true_iff (rs.genRange H.nbonds).2 _ _ v s hs hv hnum hd
  rw [← clipProb_eq hd] at hiff
  have hr' : r = _ := metropolisSlot_empty H β L st n rs (le_of_lt hn) hr
  simp only at hr'
  by_cases hy : yes
  · have hdec := hiff.mpr hy
    rw [hdec] at hr'
    simp only [if_true] at hr'
    rw [hr']
    exact ⟨rfl, fun _ => ⟨rfl, rfl⟩, fun h => absurd hy h⟩
  · have hdec : (genClipped (rs.genRange H.nbonds).2 (β * (H.nbonds : Rat) * H.w b sub sub)
        ((L - n : Nat) : Rat)).1 = false := by
      cases hc : (genClipped (rs.genRange H.nbonds).2 (β * (H.nbonds : Rat) * H.w b sub sub)
        ((L - n : Nat) : Rat)).1
      · rfl
      · exact absurd (hiff.mp hc) hy
    rw [hdec] at hr'
    simp only [Bool.false_eq_true, if_false] at hr'
    rw [hr']
    exact ⟨rfl, fun h => absurd h hy, fun _ => ⟨rfl, rfl⟩⟩

/-- Diagonal operator in the slot, `n ≤ L` operators present, weight `w > 0` at the current state: the
model empties the slot (and lowers the count) exactly when the next word is below
`⌊accRemM·2^64⌋ = ⌊min(1, (L−n+1)/(β·Nb·w))·2^64⌋`; otherwise the operator is kept unchanged. -/
theorem metropolis_remove_decision (H : Ham) (β : Rat) (L : Nat) (op : Op) (st : List Bool) (n : Nat)
    (rs : RS) (v : Nat) (s : List Nat)
    (hd : op.tagDiag = true) (hn : n ≤ L) (hβ : 0 < β) (hNb : 0 < H.nbonds)
    (hr : varsInRange st (H.vars op.bond) = true)
    (hw : 0 < H.w op.bond (readVars st (H.vars op.bond)) (readVars st (H.vars op.bond)))
    (hs : rs.script = v :: s) (hv : v < two64) :
    let sub := readVars st (H.vars op.bond)
    let r := metropolisSlot H β L (some op) st n rs
    let yes := (v : Int) < ⌊accRemM β H.nbonds (H.w op.bond sub sub) L n * ((two64 : Nat) : Rat)⌋
    r.state = st ∧ (yes → r.slot = none ∧ r.n = n - 1) ∧ (¬ yes → r.slot = some op ∧ r.n = n) := by
  intro sub r yes
  have hNbq : (0 : Rat) < (H.nbonds : Rat) := by exact_mod_cast hNb
  have hnum : 0 < β * (H.nbonds : Rat) * H.w op.bond sub sub := mul_pos (mul_pos hβ hNbq) hw
  have hden : (0 : Rat) ≤ ((L - n : Nat) : Rat) + 1 := by positivity
  have hiff := genClipped_true_iff rs (((L - n : Nat) : Rat) + 1) _ v s hs hv hden hnum
  rw [← clipProb_eq hnum] at hiff
  have hr' : r = _ := metropolisSlot_diag H β L op st n rs hd hn hr
  simp only at hr'
  by_cases hy : yes
  · have hdec := hiff.mpr hy
    rw [hdec] at hr'
    simp only [if_true] at hr'
    rw [hr']
    exact ⟨rfl, fun _ => ⟨rfl, rfl⟩, fun h => absurd hy h⟩
  · have hdec : (genClipped rs (((L - n : Nat) : Rat) + 1)
        (β * (H.nbonds : Rat) * H.w op.bond sub sub)).1 = false := by
      cases hc : (genClipped rs (((L - n : Nat) : Rat) + 1)
        (β * (H.nbonds : Rat) * H.w op.bond sub sub)).1
      · rfl
      · exact absurd (hiff.mp hc) hy
    rw [hdec] at hr'
    simp only [Bool.false_eq_true, if_false] at hr'
    rw [hr']
    exact ⟨rfl, fun h => absurd h hy, fun _ => ⟨rfl, rfl⟩⟩

/-! ### Metropolis: the ratio, in every regime -/

/-- P(fill an empty slot with bond b) / P(empty it again) = β·w/(L−n), for every cutoff, count, β, weight
and number of bonds — whichever of the two acceptances is clipped to 1. -/
theorem metropolis_ratio (β : Rat) (Nb : Nat) (w : Rat) (L n : Nat)
    (hβ : 0 < β) (hNb : 0 < Nb) (hw : 0 < w) (hn : n < L) :
    pInsertM β Nb w L n / pRemoveM β Nb w L (n + 1) = β * w / ((L : Rat) - (n : Rat)) :=
  metropolis_ratio_aux β Nb w L n hβ hNb hw hn

/-- regime `β·Nb·w ≤ L−n` (insertion not clipped, removal certain): the two probabilities explicitly -/
theorem metropolis_regime_insert_unclipped (β : Rat) (Nb : Nat) (w : Rat) (L n : Nat)
    (hβ : 0 < β) (hNb : 0 < Nb) (hw : 0 < w) (hn : n < L)
    (hreg : β * (Nb : Rat) * w ≤ (L : Rat) - (n : Rat)) :
    pInsertM β Nb w L n = β * w / ((L : Rat) - (n : Rat)) ∧ pRemoveM β Nb w L (n + 1) = 1 := by
  have hNbq : (0 : Rat) < (Nb : Rat) := by exact_mod_cast hNb
  have hd : (0 : Rat) < (L : Rat) - (n : Rat) := by
    have : (n : Rat) < (L : Rat) := by exact_mod_cast hn
    linarith
  have hx : 0 < β * (Nb : Rat) * w / ((L : Rat) - (n : Rat)) := by positivity
  have hx1 : β * (Nb : Rat) * w / ((L : Rat) - (n : Rat)) ≤ 1 := by rw [div_le_iff₀ hd]; linarith
  have hdn : (0 : Rat) < ((L - n : Nat) : Rat) := by rw [natSub_cast (le_of_lt hn)]; exact hd
  constructor
  · unfold pInsertM accInsM
    rw [clipProb_eq hdn, natSub_cast (le_of_lt hn), clip1_of_le hx1]; field_simp
  · unfold pRemoveM
    rw [accRemM_succ β Nb w L n hn (by positivity), natSub_cast (le_of_lt hn)]
    apply clip1_of_ge
    rw [le_div_iff₀ hx]; linarith

/-- regime `β·Nb·w ≥ L−n` (insertion certain once the bond is drawn, removal not clipped) -/
theorem metropolis_regime_insert_clipped (β : Rat) (Nb : Nat) (w : Rat) (L n : Nat)
    (hβ : 0 < β) (hNb : 0 < Nb) (hw : 0 < w) (hn : n < L)
    (hreg : (L : Rat) - (n : Rat) ≤ β * (Nb : Rat) * w) :
    pInsertM β Nb w L n = 1 / (Nb : Rat) ∧
    pRemoveM β Nb w L (n + 1) = ((L : Rat) - (n : Rat)) / (β * (Nb : Rat) * w) := by
  have hNbq : (0 : Rat) < (Nb : Rat) := by exact_mod_cast hNb
  have hd : (0 : Rat) < (L : Rat) - (n : Rat) := by
    have : (n : Rat) < (L : Rat) := by exact_mod_cast hn
    linarith
  have hx : 0 < β * (Nb : Rat) * w / ((L : Rat) - (n : Rat)) := by positivity
  have hx1 : 1 ≤ β * (Nb : Rat) * w / ((L : Rat) - (n : Rat)) := by rw [le_div_iff₀ hd]; linarith
  have hdn : (0 : Rat) < ((L - n : Nat) : Rat) := by rw [natSub_cast (le_of_lt hn)]; exact hd
  constructor
  · unfold pInsertM accInsM
    rw [clipProb_eq hdn, natSub_cast (le_of_lt hn), clip1_of_ge hx1]; simp
  · unfold pRemoveM
    rw [accRemM_succ β Nb w L n hn (by positivity), natSub_cast (le_of_lt hn)]
    have : 1 / (β * (Nb : Rat) * w / ((L : Rat) - (n : Rat))) ≤ 1 := by
      rw [div_le_iff₀ hx]; linarith
    rw [clip1_of_le this, one_div_div]

/-! ### heat-bath -/

/-- heat-bath: P(fill an empty slot with bond b) / P(empty it again) = β·w_b/(L−n) for every weight table
(total `W > 0`, entry `mw` of the bond with `0 ≤ w ≤ mw`; the maxima of different bonds are unrelated). -/
theorem heatbath_ratio (β W mw w : Rat) (L n : Nat) (hβ : 0 < β) (hW : 0 < W)
    (hw0 : 0 ≤ w) (hw : w ≤ mw) (hn : n < L) :
    pInsertHB β W mw w L n / pRemoveHB β W L (n + 1) = β * w / ((L : Rat) - (n : Rat)) :=
  heatbath_ratio_aux β W mw w L n hβ hW hw0 hw hn

/-- the model's heat-bath step on an empty slot is: attempt with `gen_bool(βW/(L−n+βW))`, then `u`,
then `x ∈ [0,W)`, bond = `index_for_cumulative(x)`, insert iff `u·maxw_b < w_b(state)`. -/
theorem heatbath_empty_slot_spec (H : Ham) (bw : BW) (β : Rat) (L : Nat) (st : List Bool) (n : Nat) (rs : RS)
    (W : Rat) (hW : bwTotal bw = some W) (hn : n ≤ L) (hden : ((L - n : Nat) : Rat) + β * W ≠ 0) :
    heatBathSlot H bw β L none st n rs =
      (let g := rs.genBool (β * W / (((L - n : Nat) : Rat) + β * W))
       if !g.1 then ⟨none, st, n, g.2⟩ else
       let u := g.2.genRangeF 1
       let x := u.2.genRangeF W
       let b := indexForCumulative (cumul bw) x.1
       let rs3 := x.2.noteMargin (cumMargin (cumul bw) x.1)
       if bw.length ≤ b ∨ varsInRange st (H.vars b) = false then SlotRes.panic none st n rs3 else
       let sub := readVars st (H.vars b)
       let rs4 := rs3.noteMargin (u.1 * bw.getD b 0 - H.w b sub sub)
       if u.1 * bw.getD b 0 < H.w b sub sub then ⟨some (Op.diagonal (H.vars b) b sub (H.const b)), st, n + 1, rs4⟩
       else ⟨none, st, n, rs4⟩) :=
  heatBathSlot_empty H bw β L st n rs W hW hn hden

/-- heat-bath removal: one `gen_bool((L−n+1)/(L−n+1+βW))` = `pRemoveHB β W L n`; together with
`bridge_genBool` this is the threshold statement. -/
theorem heatbath_diag_slot_spec (H : Ham) (bw : BW) (β : Rat) (L : Nat) (op : Op) (st : List Bool) (n : Nat)
    (rs : RS) (W : Rat) (hW : bwTotal bw = some W) (hd : op.tagDiag = true) (hn : n ≤ L)
    (hden : ((L - n + 1 : Nat) : Rat) + β * W ≠ 0) :
    heatBathSlot H bw β L (some op) st n rs =
      (let d := rs.genBool (pRemoveHB β W L n)
       if d.1 then ⟨none, st, n - 1, d.2⟩ else ⟨some op, st, n, d.2⟩) :=
  heatBathSlot_diag H bw β L op st n rs W hW hd hn hden

/-- the rejection test `u·maxw < w` with `u = (v >> 12)·2^-52` passes exactly when
`(v >> 12) < (w/maxw)·2^52`, i.e. on a fraction `w/maxw` of the words (up to 2^-52) -/
theorem hb_accept_threshold (rs : RS) (v : Nat) (s : List Nat) (h : rs.script = v :: s) (hv : v < two64)
    (mw w : Rat) (hmw : 0 < mw) :
    (rs.genRangeF 1).1 * mw < w ↔ ((v / 2 ^ 12 : Nat) : Rat) < w / mw * ((2 ^ 52 : Nat) : Rat) := by
  rw [genRangeF_one rs v s h hv]
  have h52 : (0 : Rat) < ((2 ^ 52 : Nat) : Rat) := by positivity
  have e : w / mw * ((2 ^ 52 : Nat) : Rat) = w * ((2 ^ 52 : Nat) : Rat) / mw := by ring
  have e2 : ((v / 2 ^ 12 : Nat) : Rat) / ((2 ^ 52 : Nat) : Rat) * mw
      = ((v / 2 ^ 12 : Nat) : Rat) * mw / ((2 ^ 52 : Nat) : Rat) := by ring
  rw [e, e2, div_lt_iff₀ h52, lt_div_iff₀ hmw]

/-- `index_for_cumulative`: a value in `(cum(b−1), cum(b)]` selects bond `b` (non-negative table) -/
theorem cumulative_pick (ws : BW) (hnn : ∀ w ∈ ws, 0 ≤ w) (b : Nat) (hb : b < ws.length) (x : Rat)
    (h1 : (ws.take b).sum < x) (h2 : x ≤ (ws.take (b + 1)).sum) :
    indexForCumulative (cumul ws) x = b := by
  unfold cumul
  exact index_cumulFrom x ws 0 b hnn hb (by simpa using h1) (by simpa using h2)

/-- … and that interval has length `maxw b`, so a uniform `x ∈ [0, W)` picks `b` with probability `maxw b / W` -/
theorem cumulative_width (ws : BW) (b : Nat) (hb : b < ws.length) :
    (ws.take (b + 1)).sum - (ws.take b).sum = ws[b] :=
  sum_take_succ_sub ws b hb

/-- `make_bond_weights`: the table entry dominates every diagonal matrix element of the bond, … -/
theorem maxw_is_max (H : Ham) (b : Nat) (hb : b < H.nbonds) (s : List Bool)
    (h : s.length = (H.vars b).length) : H.w b s s ≤ (makeBondWeights H).getD b 0 := by
  rw [makeBondWeights_getD H b hb]; exact maxDiag_ge H b s h

/-- … in particular the weight at the current sub-state of any rolling state, … -/
theorem maxw_bounds_current (H : Ham) (b : Nat) (hb : b < H.nbonds) (st : List Bool) :
    H.w b (readVars st (H.vars b)) (readVars st (H.vars b)) ≤ (makeBondWeights H).getD b 0 :=
  maxw_is_max H b hb _ (readVars_length st (H.vars b))

/-- … and is attained (or is the fold's start value 0). -/
theorem maxw_attained (H : Ham) (b : Nat) (hb : b < H.nbonds) :
    (makeBondWeights H).getD b 0 = 0 ∨ ∃ s, s.length = (H.vars b).length ∧ (makeBondWeights H).getD b 0 = H.w b s s := by
  rw [makeBondWeights_getD H b hb]
  unfold maxDiag
  rcases foldl_max_mem (fun s => H.w b s s) (allSub (H.vars b).length) 0 with h | ⟨s, hs, h⟩
  · left; exact h
  · right
    refine ⟨s, ?_, h⟩
    clear h
    generalize (H.vars b).length = k at hs
    induction k generalizing s with
    | zero => simp [allSub] at hs; simp [hs]
    | succ k ih =>
      simp only [allSub, List.mem_flatMap] at hs
      obtain ⟨t, ht, hs⟩ := hs
      have := ih t ht
      simp at hs
      rcases hs with rfl | rfl <;> simp [this]

/-! ### zero weight never inserted -/

theorem zero_weight_never_inserted_M (H : Ham) (β : Rat) (L : Nat) (st : List Bool) (n : Nat) (rs : RS)
    (hβ : 0 ≤ β) (op : Op) (h : (metropolisSlot H β L none st n rs).slot = some op) :
    op.tagDiag = true ∧ op.ins = readVars st (H.vars op.bond) ∧ 0 < H.w op.bond op.ins op.ins := by
  unfold metropolisSlot at h
  simp only at h
  split at h
  · simp [SlotRes.panic] at h
  · split at h
    · rename_i hc
      simp only [Option.some.injEq] at h
      subst h
      refine ⟨rfl, rfl, ?_⟩
      have hpos := genClipped_true_pos _ _ _ (by positivity) hc
      simp only [Op.diagonal]
      by_contra hw
      rw [not_lt] at hw
      have : β * (H.nbonds : Rat) * H.w (rs.genRange H.nbonds).1
          (readVars st (H.vars (rs.genRange H.nbonds).1)) (readVars st (H.vars (rs.genRange H.nbonds).1)) ≤ 0 :=
        mul_nonpos_of_nonneg_of_nonpos (mul_nonneg hβ (by positivity)) hw
      linarith
    · simp at h

theorem zero_weight_never_inserted_HB (H : Ham) (bw : BW) (β : Rat) (L : Nat) (st : List Bool) (n : Nat)
    (rs : RS) (hbw : ∀ w ∈ bw, 0 ≤ w) (op : Op)
    (h : (heatBathSlot H bw β L none st n rs).slot = some op) :
    op.tagDiag = true ∧ op.ins = readVars st (H.vars op.bond) ∧ 0 < H.w op.bond op.ins op.ins := by
  unfold heatBathSlot at h
  simp only at h
  split at h
  · simp [SlotRes.panic] at h
  · split at h
    · simp [SlotRes.panic] at h
    · split at h
      · simp [SlotRes.panic] at h
      · split at h
        · simp at h
        · split at h
          · simp [SlotRes.panic] at h
          · split at h
            · rename_i hc
              simp only [Option.some.injEq] at h
              subst h
              refine ⟨rfl, rfl, ?_⟩
              simp only [Op.diagonal]
              exact lt_of_le_of_lt (mul_nonneg (genRangeF_nonneg _ _) (getD_nonneg bw hbw _)) hc
            · simp at h

/-! ### sweep: off-diagonal operators, current count -/

/-- with the cutoff equal to the container length the sweep is the plain fold over all slots started
with the container's count -/
theorem sweep_eq (f : Option Op → List Bool → Nat → RS → SlotRes) (c : Config) (rs : RS) :
    sweep f c.slots.length c rs =
      ({ state := (sweepAux f c.slots c.state (countOps c.slots) rs).2.1,
         slots := (sweepAux f c.slots c.state (countOps c.slots) rs).1 },
       (sweepAux f c.slots c.state (countOps c.slots) rs).2.2.1,
       (sweepAux f c.slots c.state (countOps c.slots) rs).2.2.2) := by
  unfold sweep padSlots
  simp

/-- an off-diagonal operator anywhere in the string is still there, unchanged, after a sweep with any
cutoff, β, Hamiltonian and RNG script (both variants); -/
theorem offdiag_never_altered (f : Option Op → List Bool → Nat → RS → SlotRes) (hf : SlotOK f)
    (cutoff : Nat) (c : Config) (rs : RS) (p : Nat) (op : Op)
    (h : c.slots[p]? = some (some op)) (hd : op.tagDiag = false) :
    (sweep f cutoff c rs).1.slots[p]? = some (some op) := by
  unfold sweep
  simp only
  have hp : p < c.slots.length := by
    by_contra hc
    rw [List.getElem?_eq_none (by omega)] at h; cases h
  have hpad : (padSlots cutoff c.slots)[p]? = some (some op) := by
    unfold padSlots; rw [List.getElem?_append_left hp]; exact h
  have hlen := sweepAux_length f ((padSlots cutoff c.slots).take cutoff) c.state
    (countOps (padSlots cutoff c.slots)) rs
  by_cases hpc : p < cutoff
  · have hp2 : p < ((padSlots cutoff c.slots).take cutoff).length := by
      rw [List.length_take]; unfold padSlots; simp; omega
    rw [List.getElem?_append_left (by rw [hlen]; exact hp2)]
    apply sweepAux_offdiag f hf _ _ _ _ p op _ hd
    rw [List.getElem?_take_of_lt hpc]; exact hpad
  · have hl : ((padSlots cutoff c.slots).take cutoff).length = cutoff := by
      rw [List.length_take]; unfold padSlots; simp; omega
    rw [List.getElem?_append_right (by rw [hlen, hl]; omega), hlen, hl, List.getElem?_drop]
    have : cutoff + (p - cutoff) = p := by omega
    rw [this]; exact hpad

/-- A sweep with cutoff `L` leaves every slot at position `≥ L` exactly as it was (a container that is longer than
the sweep — pre-grown, or recycled from a longer run — keeps its tail), and the resulting string has length
`max L |slots|`. The count `n` the decisions use still counts the operators of the tail (`sweep` starts from
`countOps` of the whole padded string), but the *length* they use is the sweep cutoff `L`, a parameter of the slot
function — not the container length. -/
theorem sweep_leaves_tail_untouched (f : Option Op → List Bool → Nat → RS → SlotRes)
    (cutoff : Nat) (c : Config) (rs : RS) (p : Nat) (hp : cutoff ≤ p) :
    (sweep f cutoff c rs).1.slots[p]? = c.slots[p]? ∧
    (sweep f cutoff c rs).1.slots.length = max cutoff c.slots.length := by
  unfold sweep
  simp only
  have hlen := sweepAux_length f ((padSlots cutoff c.slots).take cutoff) c.state
    (countOps (padSlots cutoff c.slots)) rs
  have hl : ((padSlots cutoff c.slots).take cutoff).length = cutoff := by
    rw [List.length_take]; unfold padSlots; simp; omega
  constructor
  · rw [List.getElem?_append_right (by rw [hlen, hl]; exact hp), hlen, hl, List.getElem?_drop]
    have : cutoff + (p - cutoff) = p := by omega
    rw [this]
    unfold padSlots
    by_cases hpl : p < c.slots.length
    · rw [List.getElem?_append_left hpl]
    · rw [List.getElem?_eq_none (by simp; omega), List.getElem?_eq_none (by omega)]
  · rw [List.length_append, hlen, hl, List.length_drop]
    unfold padSlots; simp; omega

theorem offdiag_never_altered_M (H : Ham) (β : Rat) (cutoff : Nat) (c : Config) (rs : RS) (p : Nat) (op : Op)
    (h : c.slots[p]? = some (some op)) (hd : op.tagDiag = false) :
    (metropolisSweep H β cutoff c rs).1.slots[p]? = some (some op) :=
  offdiag_never_altered _ (metropolisSlot_ok H β cutoff) cutoff c rs p op h hd

theorem offdiag_never_altered_HB (H : Ham) (bw : BW) (β : Rat) (cutoff : Nat) (c : Config) (rs : RS) (p : Nat)
    (op : Op) (h : c.slots[p]? = some (some op)) (hd : op.tagDiag = false) :
    (heatBathSweep H bw β cutoff c rs).1.slots[p]? = some (some op) :=
  offdiag_never_altered _ (heatBathSlot_ok H bw β cutoff) cutoff c rs p op h hd

/-- conversely a slot that was empty or held a diagonal operator holds nothing or a diagonal operator
afterwards: no off-diagonal operator is ever created. -/
theorem no_offdiag_created (f : Option Op → List Bool → Nat → RS → SlotRes) (hf : SlotOK f)
    (c : Config) (rs : RS) (p : Nat)
    (h : ∀ op, c.slots[p]? = some (some op) → op.tagDiag = true) (op' : Op)
    (h' : (sweep f c.slots.length c rs).1.slots[p]? = some (some op')) : op'.tagDiag = true := by
  rw [sweep_eq] at h'
  exact sweepAux_kind f hf c.slots _ _ _ p h op' h'

/-- The decision at slot `|pre|` of a sweep is taken with the operator count of the string *as it is at
that moment*: already-updated prefix, the slot itself, untouched suffix (plus the `e` operators beyond the
cutoff). Holds for both slot functions (`metropolisSlot_ok`, `heatBathSlot_ok`). -/
theorem sweep_uses_current_n (f : Option Op → List Bool → Nat → RS → SlotRes) (hf : SlotOK f)
    (pre : Slots) (s : Option Op) (post : Slots) (st : List Bool) (e : Nat) (rs : RS) :
    let a := sweepAux f pre st (countOps (pre ++ s :: post) + e) rs
    a.2.2.1 = countOps (a.1 ++ s :: post) + e ∧
    (sweepAux f (pre ++ s :: post) st (countOps (pre ++ s :: post) + e) rs).1[pre.length]? =
      some (f s a.2.1 (countOps (a.1 ++ s :: post) + e) a.2.2.2).slot := by
  intro a
  have ha : a = sweepAux f pre st (countOps (pre ++ s :: post) + e) rs := rfl
  clear_value a
  subst ha
  have hcount : (sweepAux f pre st (countOps (pre ++ s :: post) + e) rs).2.2.1 =
      countOps ((sweepAux f pre st (countOps (pre ++ s :: post) + e) rs).1 ++ s :: post) + e := by
    have h0 : countOps (pre ++ s :: post) + e = countOps pre + (countOps (s :: post) + e) := by
      rw [countOps_append]; omega
    have := sweepAux_count f hf pre st (countOps (s :: post) + e) rs
    rw [← h0] at this
    have h2 := countOps_append (sweepAux f pre st (countOps (pre ++ s :: post) + e) rs).1 (s :: post)
    omega
  refine ⟨hcount, ?_⟩
  rw [sweepAux_append]
  simp only
  have hl : (sweepAux f pre st (countOps (pre ++ s :: post) + e) rs).1.length = pre.length :=
    sweepAux_length f pre _ _ _
  rw [List.getElem?_append_right (by rw [hl]), hl, Nat.sub_self, sweepAux_cons]
  simp only [List.getElem?_cons_zero]
  rw [← hcount]

/-- the count the container reports after a sweep is the number of operators it holds -/
theorem sweep_final_count (f : Option Op → List Bool → Nat → RS → SlotRes) (hf : SlotOK f)
    (c : Config) (rs : RS) :
    (sweep f c.slots.length c rs).2.1 = countOps (sweep f c.slots.length c rs).1.slots := by
  rw [sweep_eq]
  simpa using sweepAux_count f hf c.slots c.state 0 rs

/-! ### the SSE weight -/

/-- inserting an operator with matrix element `w` into an empty slot of a string with `n < L` operators
multiplies the SSE configuration weight `β^n (L−n)!/L! Π w` by `β·w/(L−n)` — the right-hand side of
`metropolis_ratio` / `heatbath_ratio`. -/
theorem weight_step (H : Ham) (β : Rat) (st : List Bool) (pre post : Slots) (o : Op)
    (hn : countOps (pre ++ none :: post) < (pre ++ none :: post).length) :
    configWeight H β { state := st, slots := pre ++ some o :: post } =
      configWeight H β { state := st, slots := pre ++ none :: post } * β * H.w o.bond o.ins o.outs /
        (((pre ++ none :: post).length : Rat) - (countOps (pre ++ none :: post) : Rat)) :=
  weight_step_aux H β st pre post o hn

/-- detailed balance of the Metropolis slot move with respect to the SSE weight:
`π(c)·P(c → c+op) = π(c+op)·P(c+op → c)`. -/
theorem detailed_balance_M (H : Ham) (β : Rat) (st : List Bool) (pre post : Slots) (o : Op)
    (hβ : 0 < β) (hNb : 0 < H.nbonds) (hw : 0 < H.w o.bond o.ins o.outs)
    (hn : countOps (pre ++ none :: post) < (pre ++ none :: post).length) :
    configWeight H β { state := st, slots := pre ++ none :: post } *
        pInsertM β H.nbonds (H.w o.bond o.ins o.outs) (pre ++ none :: post).length (countOps (pre ++ none :: post)) =
      configWeight H β { state := st, slots := pre ++ some o :: post } *
        pRemoveM β H.nbonds (H.w o.bond o.ins o.outs) (pre ++ none :: post).length
          (countOps (pre ++ none :: post) + 1) := by
  rw [weight_step H β st pre post o hn]
  have hr := metropolis_ratio β H.nbonds _ _ _ hβ hNb hw hn
  have hrem : 0 < pRemoveM β H.nbonds (H.w o.bond o.ins o.outs) (pre ++ none :: post).length
      (countOps (pre ++ none :: post) + 1) := by
    have hNbq : (0 : Rat) < (H.nbonds : Rat) := by exact_mod_cast hNb
    unfold pRemoveM accRemM; rw [clipProb_eq (by positivity)]; apply clip1_pos
    positivity
  rw [div_eq_iff (ne_of_gt hrem)] at hr
  rw [hr]; ring

/-! ### non-vacuity: concrete instances of the hypotheses, in both regimes -/

example : pInsertM (1/2) 2 (3/4) 5 2 / pRemoveM (1/2) 2 (3/4) 5 3 = (1/2) * (3/4) / ((5 : Rat) - 2) :=
  metropolis_ratio (1/2) 2 (3/4) 5 2 (by norm_num) (by norm_num) (by norm_num) (by norm_num)

/-- unclipped insertion: βNbw = 3/4 < 3 -/
example : pInsertM (1/2) 2 (3/4) 5 2 = 1/8 ∧ pRemoveM (1/2) 2 (3/4) 5 3 = 1 := by
  have := metropolis_regime_insert_unclipped (1/2) 2 (3/4) 5 2 (by norm_num) (by norm_num) (by norm_num)
    (by norm_num) (by norm_num)
  constructor
  · rw [this.1]; norm_num
  · exact this.2

/-- clipped insertion: βNbw = 16 > 1 -/
example : pInsertM 4 2 2 5 4 = 1/2 ∧ pRemoveM 4 2 2 5 5 = 1/16 := by
  have := metropolis_regime_insert_clipped 4 2 2 5 4 (by norm_num) (by norm_num) (by norm_num)
    (by norm_num) (by norm_num)
  constructor
  · rw [this.1]; norm_num
  · rw [this.2]; norm_num

/-- heat-bath with unequal maxima (table [2, 1/2], bond 1 at weight 1/4 < 1/2) -/
example : pInsertHB 1 (5/2) (1/2) (1/4) 4 1 / pRemoveHB 1 (5/2) 4 2 = 1 * (1/4) / ((4 : Rat) - 1) :=
  heatbath_ratio 1 (5/2) (1/2) (1/4) 4 1 (by norm_num) (by norm_num) (by norm_num) (by norm_num) (by norm_num)

example : cumul [2, 0, 1/2] = [2, 2, 5/2] := by
  simp [cumul, cumulFrom]; norm_num

example : indexForCumulative (cumul [2, 0, 1/2]) (9/4) = 2 :=
  cumulative_pick [2, 0, 1/2] (by intro w hw; simp at hw; rcases hw with rfl | rfl | rfl <;> norm_num) 2
    (by simp) (9/4) (by norm_num) (by norm_num)

end Qmc.C08
