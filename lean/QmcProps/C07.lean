/-
C07 — Only legal Hamiltonian terms with strictly positive weight are ever stored; updates that only
flip spins never change which bonds sit at which imaginary-time positions.

`Legal H c`: every stored op has a valid bond index, acts on exactly that bond's variables in
order, carries the bond's constant flag, its D/O tag agrees with its values, it is well formed, and
its matrix element for the recorded values is strictly positive.
-/
import QmcProofs.Worldline
import QmcProofs.WorldlineIsing
import QmcModel.Tempering

namespace Qmc.C07
open Qmc

/-- the executable check the driver runs is exactly `Legal` -/
theorem legalB_iff (H : Ham) (c : Config) : legalB H c = true ↔ Legal H c := Qmc.legalB_iff H c

/-! ### every kind of call keeps legality -/

/-- diagonal sweep: insertions only of terms whose diagonal element at the CURRENT propagated
sub-state is positive; nothing else is created -/
theorem diagSweep_legal (H : Ham) (n L : Nat) (hH : HamWF H n) (b a : Config)
    (hn : b.state.length = n) (hL : b.slots.length ≤ L) (hc : Consistent b) (hl : Legal H b)
    (h : DiagSweepStep H L b a) : Legal H a :=
  (diagSweep_pres_aux H n L hH b a hn hL hc hl h).2.1

/-- what an insertion stores is a legal term -/
theorem inserted_legal (H : Ham) (n : Nat) (hH : HamWF H n) (st : List Bool) (bd : Nat)
    (hb : bd < H.nbonds) (hw : 0 < H.w bd (readVars st (H.vars bd)) (readVars st (H.vars bd))) :
    (insertedOp H st bd).LegalFor H := insertedOp_legal H n hH st bd hb hw

/-- spin flips (cluster / loop / RVB spin part): bond, variables, constant flag, tag agreement and
well-formedness are structural; the weight of every changed op is the side condition -/
theorem spinFlip_legal (H : Ham) (b a : Config) (h : SpinFlipStep b a)
    (hw : FlipKeepsWeight H b.slots a.slots) (hl : Legal H b) : Legal H a :=
  sameSkeleton_legal H h.2.1 hw hl

/-- **spin-only updates never change which bond sits at which position** (and keep the cutoff) -/
theorem spinOnly_keeps_skeleton (b a : Config) (h : SpinFlipStep b a) (p : Nat) :
    bondAt a p = bondAt b p := sameSkeleton_bondAt h.2.1 b.state a.state p

theorem spinOnly_keeps_cutoff (b a : Config) (h : SpinFlipStep b a) :
    a.slots.length = b.slots.length := sameSkeleton_length h.2.1

/-- the free-spin refresh changes no operator at all -/
theorem free_keeps_ops (b a : Config) (h : FreeStep b a) : a.slots = b.slots := h.1

/-- RVB: kept operators by the weight side condition, re-bonded operators are legal by
construction (`RebondSlots.rebond` demands a positive weight of the new bond at the current
sub-state — the clause the fix of finding F12 restored in `BondContainer::get_random`) -/
theorem rvb_legal (H : Ham) (n : Nat) (hH : HamWF H n) (b a : Config) (h : RvbStep H b a)
    (hw : FlipKeepsWeight H b.slots a.slots) (hl : Legal H b) : Legal H a := by
  obtain ⟨m, h1, h2⟩ := h
  exact rvb_legal_slots H n hH h1.2.1 h2.2 hw hl

/-- re-bonding never changes the occupied positions -/
theorem rvb_keeps_positions (H : Ham) (b a : Config) (h : RvbStep H b a) (p : Nat) :
    (bondAt a p).isSome = (bondAt b p).isSome := by
  obtain ⟨m, h1, h2⟩ := h
  have key : ∀ (st : List Bool) (m a : Slots), RebondSlots H st m a → ∀ p st1 st2,
      (bondAt ⟨st1, a⟩ p).isSome = (bondAt ⟨st2, m⟩ p).isSome := by
    intro st m a hr
    induction hr with
    | nil => intro p _ _; simp [bondAt]
    | none _ ih => intro p s1 s2; cases p with
      | zero => simp [bondAt]
      | succ p => simpa [bondAt] using ih p s1 s2
    | same o _ ih => intro p s1 s2; cases p with
      | zero => simp [bondAt]
      | succ p => simpa [bondAt] using ih p s1 s2
    | rebond o bd _ _ _ _ _ _ _ _ _ ih => intro p s1 s2; cases p with
      | zero => simp [bondAt]
      | succ p => simpa [bondAt] using ih p s1 s2
  rw [key _ _ _ h2.2 p a.state m.state, sameSkeleton_bondAt h1.2.1 b.state m.state p]

theorem move_legal (H : Ham) (b a : Config) (hl : Legal H b) (h : MoveStep b a) : Legal H a :=
  Qmc.move_legal H b a hl h

/-- a configuration handed to another holder (swap, conversion) stays legal when every term with
positive weight under the old Hamiltonian has positive weight under the new one -/
theorem legal_transfer (H H' : Ham) (c : Config) (hs : SupportLe H H') (hl : Legal H c) : Legal H' c :=
  Qmc.legal_transfer H H' c hs hl

/-- histories: every intermediate configuration is legal (together with C06's consistency) -/
theorem reachable_legal (n : Nat) (l : List (Ham × Config)) (H : Ham) (c : Config) (hH : HamWF H n)
    (hn : c.state.length = n) (hc : Consistent c) (hl : Legal H c) (h : History n H c l) :
    ∀ x, x ∈ l → Legal x.1 x.2 := fun x hx => (history_inv n l H c hH hn hc hl h x hx).2

/-- loop update: the exit leg picked by the cumulative-weight scan has positive weight, hence the
edited operator has a positive matrix element -/
theorem loop_exit_positive (c : Rat) (legs : List (Nat × Rat)) (leg : Nat) (w : Rat) (hc : 0 ≤ c)
    (h : pickExit c legs = some (leg, w)) : 0 < w := pickExit_pos c legs leg w hc h

/-! ### the Ising Hamiltonian, concretely -/

/-- two-site weight `|J| − Jσσ'` is `0` or `2|J|` -/
theorem twoSite_values (i o : List Bool) (J : Rat) : twoSite i o J = 0 ∨ twoSite i o J = 2 * ratAbs J :=
  Qmc.twoSite_values i o J

/-- a flipped two-site diagonal op keeps a positive weight iff it stays diagonal and both spins
flip or none does -/
theorem twoSite_flip_iff (a b a' b' c' d' : Bool) (J : Rat) (h : 0 < twoSite [a, b] [a, b] J) :
    0 < twoSite [a', b'] [c', d'] J ↔ (a' = c' ∧ b' = d' ∧ xor a a' = xor b b') :=
  Qmc.twoSite_flip_iff a b a' b' c' d' J h

/-- transverse term: `Γ` on all four entries -/
theorem transverse_const (s : IsingSpec) (b : Nat) (i o : List Bool) (h1 : s.nedges ≤ b)
    (h2 : b < s.nedges + s.nvars) : s.ham.w b i o = s.gamma := s.w_transverse b i o h1 h2

/-- longitudinal term: `|h| + hσ` on the diagonal (`0` or `2|h|`) and `0` off it -/
theorem longitudinal_values (i o : List Bool) (h : Rat) :
    longitudinal i o h = 0 ∨ longitudinal i o h = 2 * ratAbs h := Qmc.longitudinal_values i o h

theorem longitudinal_offdiag_zero (a b : Bool) (h : Rat) (hab : a ≠ b) : longitudinal [a] [b] h = 0 := by
  cases a <;> cases b <;> simp_all [longitudinal]

/-- a longitudinal op with positive weight has weight `0` after any flip: it must never be flipped -/
theorem longitudinal_flip_zero (i o i' o' : List Bool) (h : Rat) (hpos : 0 < longitudinal i o h)
    (hi : i'.length = 1) (ho : o'.length = 1) (hne : i' ≠ i ∨ o' ≠ o) : longitudinal i' o' h = 0 :=
  Qmc.longitudinal_flip_zero i o i' o' h hpos hi ho hne

theorem ising_hamWF (s : IsingSpec) (hv : s.Valid) : HamWF s.ham s.nvars := s.hamWF hv

/-- the mask characterisation of legal edits (both directions) -/
theorem ising_flip_weight_iff (s : IsingSpec) (o o' : Op) (hl : o.LegalFor s.ham) (hs : o.sameSkel o') :
    0 < s.ham.w o'.bond o'.ins o'.outs ↔ isingMaskOpB s o o' = true :=
  Qmc.ising_flip_weight_iff s o o' hl hs

/-- Ising cluster step (+ free refresh), h = 0 or h ≠ 0: a link-closed flip whose mask is allowed
op by op keeps consistency and legality -/
theorem isingCluster_pres (s : IsingSpec) (b a : Config) (h : SpinFlipStep b a)
    (hm : isingMaskB s b.slots a.slots = true) (hc : Consistent b) (hl : Legal s.ham b) :
    Consistent a ∧ Legal s.ham a :=
  ⟨linkClosed_flip_consistent_aux b a hc h,
   sameSkeleton_legal s.ham h.2.1 (isingMask_flipKeepsWeight s h.2.1 hm hl) hl⟩

/-- … and a forbidden mask (field op flipped, one spin of a bond op flipped, bond op made
off-diagonal) yields an illegal operator -/
theorem ising_forbidden_mask_illegal (s : IsingSpec) (o o' : Op) (hl : o.LegalFor s.ham)
    (hs : o.sameSkel o') (hm : isingMaskOpB s o o' = false) : ¬ o'.LegalFor s.ham :=
  Qmc.ising_forbidden_mask_illegal s o o' hl hs hm

/-- replica swap between Ising samplers on the same lattice with couplings / field of the same
sign (what `can_swap_managers` demands) and positive transverse field: the received
configuration is legal for the receiver -/
theorem ising_swap_legal (s s' : IsingSpec) (h : s.SameSigns s') (b a : Config) (hm : MoveStep b a)
    (hl : Legal s.ham b) : Legal s'.ham a :=
  Qmc.legal_transfer s.ham s'.ham a (ising_supportLe s s' h) (Qmc.move_legal s.ham b a hl hm)

/-- `ising_swap_legal` assumes fields of EQUAL sign with `h = 0 ↔ h' = 0`; it does not cover a
zero-field replica next to field replicas (accepted by `can_swap_managers`). There the transfer is
legal exactly for strings without field operators … -/
theorem ising_swap_legal_no_field_ops (s s' : IsingSpec) (h : s.SameLattice s') (b a : Config)
    (hm : MoveStep b a) (hl : Legal s.ham b)
    (hnf : ∀ o, some o ∈ b.slots → o.bond < s.nedges + s.nvars) : Legal s'.ham a := by
  refine Qmc.move_legal s'.ham b a ?_ hm
  exact ising_transfer_no_field_ops s s' h b hl hnf

/-- … and a field operator handed to a zero-field replica is illegal there (no such bond), which
is why the real code must refuse such a swap (`relative_weight` = 0 whenever the field replica
holds field operators) -/
theorem ising_field_op_illegal_without_field (s' : IsingSpec) (o : Op) (h0 : s'.h = 0)
    (hb : s'.nedges + s'.nvars ≤ o.bond) : ¬ o.LegalFor s'.ham :=
  Qmc.ising_field_op_illegal_without_field s' o h0 hb

/-! ### finding F25 (defect of the unchanged library): the swap guard accepts `h = 0` next to `h ≠ 0`

`QmcIsingGraph::can_swap_managers` compares `longitudinal.signum()` and `0.0.signum() = 1.0`; the
guard is modelled in `QmcModel/Tempering.lean` (`Tempering.canSwapIsing`, C10). On the concrete
witness the harness replays (`c06 swapwit`: 2 spins, J = 1, Γ = 1/2, h_a = 0, h_b = 1/2) the guard
approves the pair in both directions, a string holding one longitudinal-field operator is legal for
the `h = 1/2` sampler and NOT legal for the `h = 0` sampler — so a direct
`swap_manager_and_state` after an approving `can_swap_managers` stores an illegal term. -/
section F25
open Qmc.Tempering

/-- the `h = 0` sampler of the witness -/
def guardA : Tempering.IsingH := { edges := [([0, 1], 1)], gamma := 1 / 2, h := 0, nvars := 2 }
/-- the `h = 1/2` sampler -/
def guardB : Tempering.IsingH := { edges := [([0, 1], 1)], gamma := 1 / 2, h := 1 / 2, nvars := 2 }
/-- a longitudinal-field operator on variable 1 (bond 4 = 1 edge + 2 transverse + 1), spin up -/
def guardS : Slots := [some (Op.diagonal [1] 4 [true] false)]

theorem swapGuard_accepts_zero_field_witness :
    canSwapIsing guardA guardB = true ∧ canSwapIsing guardB guardA = true ∧
    LegalIsing guardB guardS ∧ ¬ LegalIsing guardA guardS := by
  refine ⟨by norm_num [canSwapIsing, canSwapEdges, sgn, guardA, guardB],
    by norm_num [canSwapIsing, canSwapEdges, sgn, guardA, guardB], ?_, ?_⟩
  · intro o ho
    simp only [guardS, List.mem_cons, Option.some.injEq, List.mem_nil_iff, or_false] at ho
    subst ho
    constructor
    · norm_num [IsingH.numBonds, IsingH.nedges, guardB, absR, Op.diagonal, eps]
    · norm_num [IsingH.wOp, IsingH.w, IsingH.nedges, guardB, Op.diagonal, longitudinalW, absR]
  · intro hl
    have := (hl (Op.diagonal [1] 4 [true] false) (by simp [guardS])).1
    norm_num [IsingH.numBonds, IsingH.nedges, guardA, absR, Op.diagonal, eps] at this

/-- the same two Hamiltonians in this property's own model -/
def guardSpecA : IsingSpec := { nvars := 2, edges := [(0, 1, 1)], gamma := 1 / 2, h := 0 }
def guardSpecB : IsingSpec := { nvars := 2, edges := [(0, 1, 1)], gamma := 1 / 2, h := 1 / 2 }

/-- … and the same verdicts with this property's `Legal`: legal for the sender, illegal for the
receiver the guard approved -/
theorem swapGuard_witness_legal_then_illegal (st : List Bool) :
    Legal guardSpecB.ham ⟨st, guardS⟩ ∧ ¬ Legal guardSpecA.ham ⟨st, guardS⟩ := by
  constructor
  · intro o ho
    simp only [guardS, List.mem_cons, Option.some.injEq, List.mem_nil_iff, or_false] at ho
    subst ho
    have hw : guardSpecB.ham.w 4 [true] [true] = 1 := by
      rw [IsingSpec.w_longitudinal guardSpecB 4 _ _ (by decide)]
      have : guardSpecB.h = 1 / 2 := rfl
      simp only [longitudinal, this]
      rw [ratAbs_of_nonneg (by norm_num)]
      norm_num
    have hnb : guardSpecB.ham.nbonds = 5 := by
      have : guardSpecB.ham.nbonds = guardSpecB.nedges + guardSpecB.nvars +
          (if guardSpecB.h = 0 then 0 else guardSpecB.nvars) := rfl
      rw [this]
      have h2 : ¬ guardSpecB.h = 0 := by
        have : guardSpecB.h = 1 / 2 := rfl
        rw [this]; norm_num
      simp only [h2, ite_false]
      rfl
    refine ⟨?_, by decide, by decide, by decide, by decide, ?_⟩
    · rw [hnb]; decide
    · simp only [Op.diagonal]
      rw [hw]; norm_num
  · intro hl
    exact Qmc.ising_field_op_illegal_without_field guardSpecA _ rfl (by decide)
      (hl (Op.diagonal [1] 4 [true] false) (by simp [guardS]))

end F25

/-! ### non-vacuity -/

def spec : IsingSpec := { nvars := 2, edges := [(0, 1, 1)], gamma := 1, h := 1 / 2 }

theorem spec_valid : spec.Valid := by
  intro e he
  simp [spec] at he
  subst he
  decide

/-- an anti-aligned pair on an antiferromagnetic bond: weight `2|J| = 2` -/
example : spec.ham.w 0 [false, true] [false, true] = 2 := by
  rw [IsingSpec.w_edge spec 0 _ _ (by decide)]
  have : spec.J 0 = 1 := rfl
  rw [this, twoSite_diag, ratAbs_of_nonneg (by norm_num)]
  norm_num

/-- the zero-weight operator that finding F12 stored (aligned pair on an antiferromagnetic bond)
is not legal -/
example : ¬ (Op.diagonal [0, 1] 0 [true, true] false).LegalFor spec.ham := by
  intro h
  have hw := h.2.2.2.2.2
  have : spec.ham.w 0 [true, true] [true, true] = 0 := by
    rw [IsingSpec.w_edge spec 0 _ _ (by decide)]
    have : spec.J 0 = 1 := rfl
    rw [this, twoSite_diag, ratAbs_of_nonneg (by norm_num)]
    norm_num
  simp only [Op.diagonal] at hw
  rw [this] at hw
  exact absurd hw (lt_irrefl _)

/-- a flipped longitudinal operator is rejected by the mask decider -/
example : isingMaskOpB spec (Op.diagonal [0] 3 [true] false) (Op.diagonal [0] 3 [false] false) = false := by
  decide

/-- both spins of a bond operator flipped: accepted -/
example : isingMaskOpB spec (Op.diagonal [0, 1] 0 [false, true] false)
    (Op.diagonal [0, 1] 0 [true, false] false) = true := by decide

end Qmc.C07
