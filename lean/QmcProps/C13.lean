/-
C13 ◐ — Runs are reproducible from their seeds and independent of thread scheduling; clones continue
exactly like the original; the rayon tempering driver equals the serial driver.

What logic can carry (this file):
 * determinism is structural in every model of this project: an update is a Lean function of (state, script);
 * `clone_eq` for the three hand-written `Clone` impls, against the field maps regenerated from the source;
 * `schedule_independent`: tasks on pairwise disjoint components give the same result under EVERY interleaving;
 * `swap_uniforms_pre_drawn`: the rayon swap routine (uniforms drawn up front) = the serial one, same draws, same order;
 * hence `parallel_tempering_step = tempering_step` and `parallel_timesteps_sample = timesteps_sample` on the model
   for every scheduler (every pool size and work-stealing order) and every number of replicas (the one-replica
   container included since the repair of finding F30, `fix:` f20b8b5);
 * `ambient_clean`: the regenerated list of ambient-state uses contains only the documented thread-rng wrappers,
   test code and `cfg(qmc_verif)` hooks; the crate forbids `unsafe`.
What it cannot carry (runtime part of the check, harness `c13`): that rustc/rayon implement `&mut` disjointness and
`par_iter_mut` as assumed (trusted), real thread schedules, f64 reductions (`par_iter().max()` on usize is exact).
-/
import QmcProofs.Snapshot
import QmcModel.Generated.Ambient
import QmcModel.Rand

namespace Qmc.C13
open Qmc.Gen Qmc.Snap

/-! ## Determinism -/
section Determinism
variable {σ α : Type}

/-- Every update of every model (`Diagonal`, `HeatBath`, `Cluster`, `Loop`, `Rvb`, `Classical`, `Tempering`, …) is a
Lean function `update : state → RS → result`; equal state and equal script give equal results.  (Stated once,
generically: there is nothing else a function could depend on.) -/
theorem deterministic (update : σ → RS → α) (s₁ s₂ : σ) (r₁ r₂ : RS) (hs : s₁ = s₂) (hr : r₁ = r₂) :
    update s₁ r₁ = update s₂ r₂ := by rw [hs, hr]

/-- the trajectory of `n` steps -/
def trajectory (step : σ → RS → σ × RS) : Nat → σ → RS → List σ
  | 0, _, _ => []
  | n + 1, s, r => let (s', r') := step s r; s' :: trajectory step n s' r'

/-- twin runs: equal inputs and equal seeds (= equal scripts) give identical sequences of states -/
theorem twin_runs (step : σ → RS → σ × RS) (n : Nat) (s₁ s₂ : σ) (seed₁ seed₂ : List Nat) (hs : s₁ = s₂)
    (hseed : seed₁ = seed₂) :
    trajectory step n s₁ (RS.ofScript seed₁) = trajectory step n s₂ (RS.ofScript seed₂) := by rw [hs, hseed]

/-- the RNG model hands out exactly the script: the word drawn and the remaining script depend on the script only
(not on the bookkeeping fields `margin`, `draws`, …) -/
theorem next_depends_on_script (a b : RS) (h : a.script = b.script) :
    a.next.1 = b.next.1 ∧ a.next.2.script = b.next.2.script := by
  unfold RS.next
  rw [h]
  cases b.script <;> simp

end Determinism

/-! ## Clones -/
section Clone
variable {F64 R M I BW : Type}

/-- `impl Clone for QmcIsingGraph`: every field is copied -/
theorem clone_eq_ising (g : QmcIsingGraph F64 R M BW) : g.clone = g := ising_clone_eq g

/-- `impl Clone for Qmc` -/
theorem clone_eq_qmc (q : Gen.Qmc F64 R M I BW) : q.clone = q := qmc_clone_eq q

/-- `impl Clone for GraphState` (classical sampler) -/
theorem clone_eq_classical (g : GraphState F64 R) : g.clone = g := by cases g; rfl

/-- these are all the hand-written `Clone` impls of the crate (every other `Clone` is derived) -/
theorem manual_clones_all_modelled : manualClone = ["GraphState", "Qmc", "QmcIsingGraph"] := by decide

/-- a clone continues exactly like the original: every continuation (any number of steps, any observable) gives the
same result; and since model values are immutable, running the clone cannot influence the original. -/
theorem clone_continues {β : Type} (f : QmcIsingGraph F64 R M BW → β) (g : QmcIsingGraph F64 R M BW) :
    f g.clone = f g := by rw [ising_clone_eq]

theorem clone_continues_qmc {β : Type} (f : Gen.Qmc F64 R M I BW → β) (q : Gen.Qmc F64 R M I BW) :
    f q.clone = f q := by rw [qmc_clone_eq]

end Clone

/-! ## Schedule independence -/
section Schedule
variable {C : Type}

/-- For tasks on pairwise disjoint components (each task owns one index), two schedules that present to every
component the same sequence of its own tasks — i.e. ALL interleavings of the per-component task lists — produce the
same final state. -/
theorem schedule_independent (s₁ s₂ : List (Snap.Task C)) (σ : List C) (h : ∀ i, proj i s₁ = proj i s₂) :
    runTasks s₁ σ = runTasks s₂ σ :=
  Snap.schedule_independent s₁ s₂ σ h

/-- what each component ends up with is its own tasks applied in order, whatever else ran in between -/
theorem component_sees_own_tasks (ts : List (Snap.Task C)) (σ : List C) (i : Nat) :
    (runTasks ts σ)[i]? = (σ[i]?).map (applyAll (proj i ts)) :=
  runTasks_getElem? ts σ i

/-- `par_iter_mut().for_each(f)` executed in any order of the indices = the sequential loop -/
theorem par_iter_mut_eq_sequential (f : Nat → C → C) (order : List Nat) (σ : List C)
    (h : order.Perm (List.range σ.length)) : parSection f order σ = mapIdxFrom f 0 σ :=
  parSection_eq f order σ h

/-- in particular every two execution orders agree -/
theorem any_two_orders_agree (f : Nat → C → C) (o₁ o₂ : List Nat) (σ : List C)
    (h₁ : o₁.Perm (List.range σ.length)) (h₂ : o₂.Perm (List.range σ.length)) :
    parSection f o₁ σ = parSection f o₂ σ := by
  rw [parSection_eq f o₁ σ h₁, parSection_eq f o₂ σ h₂]

end Schedule

/-! ## The rayon drivers -/
section Drivers
variable {F64 R Q U E A S H : Type}

/-- `parallel_perform_swaps` = `perform_swaps`: same replicas, same container-RNG state (same draws, same order),
same swap count, for every order in which the pair tasks run. -/
theorem swap_uniforms_pre_drawn (ops : Ops F64 R Q U) (order : List Nat) (r : R) (l : List (Q × F64))
    (eqs : List Bool) (hlen : l.length / 2 ≤ eqs.length)
    (hord : order.Perm (List.range (min (l.length / 2) eqs.length))) :
    parPerformSwaps ops order r l eqs = performSwaps ops r l eqs :=
  parPerformSwaps_eq ops order r l eqs hlen hord

/-- `parallel_tempering_step` = `tempering_step` under every valid scheduler -/
theorem parallel_tempering_step_eq (ops : Ops F64 R Q U) (sched : Scheduler) (hv : sched.Valid) (k : Nat)
    (tc : TC F64 R Q) (hc : CacheValid ops tc) :
    parTemperingStep ops sched k tc = temperingStep ops tc :=
  parTemperingStep_eq ops sched hv k tc hc

/-- `parallel_timesteps_sample` = `timesteps_sample`: final container (replicas, container RNG, caches, swap count),
samples and energy accumulators are equal for EVERY valid scheduler, all `timesteps`, frequencies and fuel.
Hypotheses: `ham_eq` depends on Hamiltonian data that steps, cutoff changes and swaps leave in place (`HamStable`,
`hts`); the caches are valid at the start (they are `None` after construction). -/
theorem parallel_timesteps_sample_eq (ops : Ops F64 R Q U) (sig : Q → H) (eqH : H → H → Bool)
    (hs : HamStable ops sig eqH) (so : SampleOps F64 Q E A S) (hts : ∀ t b q, sig (so.timesteps t b q).1 = sig q)
    (zero : A) (sched : Scheduler) (hv : sched.Valid) (timesteps swapFreq sampleFreq : Nat) (tc : TC F64 R Q)
    (hc : CacheValid ops tc) :
    parTimestepsSample ops so zero sched timesteps swapFreq sampleFreq tc
      = timestepsSample ops so zero timesteps swapFreq sampleFreq tc := by
  unfold parTimestepsSample timestepsSample
  apply sampleLoop_congr _ _ (DriverInv ops)
  · intro k s hi
    exact body_eq_and_inv hs so hts sched hv swapFreq sampleFreq k s hi
  · exact ⟨by simp [initLoop], by simp [initLoop], hc⟩

/-- consequently any two schedulers (two pool sizes, two executions) give the same result -/
theorem any_two_schedulers_agree (ops : Ops F64 R Q U) (sig : Q → H) (eqH : H → H → Bool)
    (hs : HamStable ops sig eqH) (so : SampleOps F64 Q E A S) (hts : ∀ t b q, sig (so.timesteps t b q).1 = sig q)
    (zero : A) (s₁ s₂ : Scheduler) (h₁ : s₁.Valid) (h₂ : s₂.Valid) (timesteps swapFreq sampleFreq : Nat)
    (tc : TC F64 R Q) (hc : CacheValid ops tc) :
    parTimestepsSample ops so zero s₁ timesteps swapFreq sampleFreq tc
      = parTimestepsSample ops so zero s₂ timesteps swapFreq sampleFreq tc := by
  rw [parallel_timesteps_sample_eq ops sig eqH hs so hts zero s₁ h₁ _ _ _ tc hc,
    parallel_timesteps_sample_eq ops sig eqH hs so hts zero s₂ h₂ _ _ _ tc hc]

end Drivers

/-! ## Ambient state -/

/-- allowed: test code, `cfg(qmc_verif)` hooks (write-only logs, absent from normal builds), `use` lines, and a
`thread_rng` / `ThreadRng` token inside one of the documented convenience wrappers — functions that take NO rng
argument by design.  A *call* of such a wrapper from library code is itself listed (kind `call`) and not allowed. -/
def allowed (u : AmbientUse) : Bool :=
  u.inTest || u.inHook || u.kind == "use" ||
    (threadRngWrappers.contains u.fn && !u.fnTakesRng && u.kind == "code" &&
      (u.token == "thread_rng" || u.token == "ThreadRng"))

/-- every ambient-state use found in the current sources is allowed; in particular no `_with_rng` path and no
sampler / container method touches the thread RNG, OS entropy, clocks, hash order, statics or shared cells -/
theorem ambient_clean : ambientUses.all allowed = true := by decide

/-- the crate forbids `unsafe` (so safe Rust's `&mut` uniqueness — the disjointness of task footprints — cannot be
bypassed inside the crate) and indeed contains none -/
theorem no_unsafe : forbidUnsafeCode = true ∧ unsafeOccurrences = 0 := by decide

/-! ## Non-vacuity, and the one-replica note -/
section Examples

/-- counting RNG: the state is the number of words drawn -/
def countOps : Ops Nat Nat Nat Unit where
  hamEq a b := a == b
  cutoff q := q
  setCutoff c _ := c
  swapOn a b _ _ := (b, a, true)
  genHalf r := (true, r + 1)
  genUnif r := ((), r + 1)

def tcOf (n : Nat) : TC Nat Nat Nat :=
  { graphs := (List.range n).map fun i => (i, i), rng := some 0, graph_ham_eq_a := none, graph_ham_eq_b := none,
    total_swaps := 0 }

def idSched : Scheduler := fun _ _ n => List.range n
def revSched : Scheduler := fun _ _ n => (List.range n).reverse

example : idSched.Valid := fun _ _ _ => List.Perm.refl _
example : revSched.Valid := fun _ _ _ => List.reverse_perm _

/-- a reversed schedule really runs the tasks in another order and still agrees (5 replicas, concrete) -/
def view (tc : TC Nat Nat Nat) := (tc.graphs, tc.rng, tc.graph_ham_eq_a, tc.graph_ham_eq_b, tc.total_swaps)

example : view (parTemperingStep countOps revSched 0 (tcOf 5)) = view (temperingStep countOps (tcOf 5)) ∧
    (temperingStep countOps (tcOf 5)).total_swaps = 4 := by decide

/-- draw counts of one step: 1 (order) + one uniform per pair of each phase -/
example : (temperingStep countOps (tcOf 5)).rng = some 5 ∧ (temperingStep countOps (tcOf 4)).rng = some 4 ∧
    (temperingStep countOps (tcOf 2)).rng = some 2 := by decide

/-- **One replica** (finding F30, repaired by `fix:` f20b8b5): both steps return immediately and draw nothing — the
guard of the rayon step is `len() <= 1` like the serial one. -/
theorem one_replica_agrees :
    (temperingStep countOps (tcOf 1)).rng = some 0 ∧ (parTemperingStep countOps idSched 0 (tcOf 1)).rng = some 0 ∧
    view (temperingStep countOps (tcOf 1)) = view (parTemperingStep countOps idSched 0 (tcOf 1)) := by decide

/-- regression witness for F30: what the rayon step did with one replica under its former guard `is_empty()` — it ran
the body and drew the phase-order word from the container RNG (`some 1`), so that a container to which a second
replica was added afterwards made different swap decisions under the two drivers. -/
theorem one_replica_old_guard_differs :
    (temperingBody countOps
        (fun c l => parSection (fun _ g => (countOps.setCutoff c g.1, g.2)) (idSched 1 0 l.length) l)
        (fun r l eqs => parPerformSwaps countOps (idSched 2 0 (min (l.length / 2) eqs.length)) r l eqs)
        (performSwaps countOps) (tcOf 1)).rng = some 1 ∧
    (temperingStep countOps (tcOf 1)).rng = some 0 := by decide

/-- schedule independence is not vacuous: two different interleavings of two components' task lists -/
example : runTasks [⟨0, (· + 1)⟩, ⟨1, (· * 2)⟩, ⟨0, (· * 3)⟩] [1, 1] =
    runTasks [⟨1, (· * 2)⟩, ⟨0, (· + 1)⟩, ⟨0, (· * 3)⟩] [1, 1] := by decide

/-- … and the per-component order does matter (tasks on the SAME component do not commute), so the hypothesis
`proj i s₁ = proj i s₂` cannot be dropped -/
example : runTasks [⟨0, (· + 1)⟩, ⟨0, (· * 3)⟩] [1] ≠ runTasks [⟨0, (· * 3)⟩, ⟨0, (· + 1)⟩] [1] := by decide

/-- a `thread_rng()` on an rng-parameterised path is rejected by `allowed` -/
example : allowed ⟨"src/sse/qmc_traits/diagonal.rs", 120, "thread_rng", "make_diagonal_update_with_rng", true, false,
    false, "code"⟩ = false := by decide

/-- … as is a call of a thread-rng wrapper from library code -/
example : allowed ⟨"src/sse/qmc_ising.rs", 700, "wrapper-call:make_diagonal_update", "timestep", false, false,
    false, "call"⟩ = false := by decide

end Examples

end Qmc.C13
