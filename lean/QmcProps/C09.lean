/-
C09 — the cluster update is weight-preserving and reversible.
Property theorems only (helper lemmas live in QmcProofs/Cluster.lean, ClusterDraws.lean, ClusterRelax.lean,
ClusterScan.lean, ClusterComponents.lean, ClusterExact.lean).
Model: QmcModel/Cluster.lean — `ClusterMove fr before after` (relation), `isClusterMove` (decider),
`numClusters`, `configWeightProd`, `clusterFlips`; tied to /repo/src/sse/qmc_traits/cluster.rs,
qmc_ising.rs (`single_cluster_step`, `timestep`) and qmc_runner.rs (`cluster_update`) by `./check C09`.

`fr : SkOp → Bool` marks the ops of flip weight 0 (the per-node weight-ratio closure returns 0.0:
longitudinal-field bonds when h ≠ 0; `fun _ => false` for the Ising-symmetric call).
-/
import QmcProofs.Cluster
import QmcProofs.ClusterDraws
import QmcProofs.ClusterComponents
import QmcProofs.ClusterExact

namespace Qmc.C09
open Qmc

variable {fr : SkOp → Bool} {b a : Config}

/-! ### the decider -/

/-- whatever the executable decider accepts is a cluster move -/
theorem isClusterMove_sound (h : isClusterMove fr b a = true) : ClusterMove fr b a :=
  (isClusterMove_iff fr b a).1 h

/-- … and it accepts every cluster move -/
theorem isClusterMove_complete (h : ClusterMove fr b a) : isClusterMove fr b a = true :=
  (isClusterMove_iff fr b a).2 h

/-! ### number, positions, bonds, variables unchanged; only spin values flip -/

/-- the skeleton (which slots hold an op; its variables, bond and constant flag) is unchanged -/
theorem clusterMove_skeleton (h : ClusterMove fr b a) : skeleton a.slots = skeleton b.slots :=
  h.skeleton_eq

/-- position by position: the cutoff is unchanged, an empty slot stays empty, an op stays an op on the
same variables with the same bond and constant flag and the same number of legs -/
theorem clusterMove_positions (h : ClusterMove fr b a) :
    a.slots.length = b.slots.length ∧ ∀ p : Nat,
      (b.slots[p]? = some none → a.slots[p]? = some none) ∧
      (∀ ob, b.slots[p]? = some (some ob) → ∃ oa, a.slots[p]? = some (some oa) ∧
        oa.vars = ob.vars ∧ oa.bond = ob.bond ∧ oa.const = ob.const ∧
        oa.ins.length = ob.ins.length ∧ oa.outs.length = ob.outs.length) := by
  refine ⟨h.ops.length_eq, fun p => ⟨(h.ops.get p).1, fun ob hb => ?_⟩⟩
  obtain ⟨oa, ha, hop⟩ := (h.ops.get p).2 ob hb
  exact ⟨oa, ha, hop.vars, hop.bond, hop.const, by rw [hop.insA, hop.insB], by rw [hop.outsA, hop.outsB]⟩

/-- the number of operators is unchanged -/
theorem clusterMove_count (h : ClusterMove fr b a) : countOps a.slots = countOps b.slots :=
  countOps_eq_of_skeleton h.skeleton_eq

/-- … per bond as well -/
theorem clusterMove_bond_count (h : ClusterMove fr b a) (k : Nat) :
    countBond a.slots k = countBond b.slots k :=
  countBond_eq_of_skeleton k h.skeleton_eq

/-- the decomposition reads only the skeleton: applied to the result it finds the same number of
clusters (and the same clusters) -/
theorem clusterMove_numClusters (h : ClusterMove fr b a) :
    numClusters (skeleton a.slots) = numClusters (skeleton b.slots) ∧
    clusterLabels (skeleton a.slots) = clusterLabels (skeleton b.slots) := by
  rw [h.skeleton_eq]; exact ⟨rfl, rfl⟩

/-- a non-edge op (not constant, or more than one variable) is flipped entirely or not at all:
a cluster never contains only part of the legs of such an op -/
theorem clusterMove_nonedge_all_or_none (h : ClusterMove fr b a) (p : Nat) (ob oa : Op)
    (hb : b.slots[p]? = some (some ob)) (ha : a.slots[p]? = some (some oa)) (he : ob.isEdge = false) :
    (oa.ins = ob.ins ∧ oa.outs = ob.outs) ∨ (oa.ins = flipBits ob.ins ∧ oa.outs = flipBits ob.outs) := by
  obtain ⟨oa', ha', hop⟩ := (h.ops.get p).2 ob hb
  rw [ha] at ha'
  cases ha'
  exact hop.closed he

/-- clusters holding a symmetry-breaking op are never flipped: no leg of a (non-edge) op of flip
weight 0 changes -/
theorem clusterMove_weight0_never_flipped (h : ClusterMove fr b a) (p : Nat) (ob oa : Op)
    (hb : b.slots[p]? = some (some ob)) (ha : a.slots[p]? = some (some oa))
    (he : ob.isEdge = false) (hf : fr ob.sk = true) : oa.ins = ob.ins ∧ oa.outs = ob.outs := by
  obtain ⟨oa', ha', hop⟩ := (h.ops.get p).2 ob hb
  rw [ha] at ha'
  cases ha'
  exact hop.frozen he hf

/-! ### the product of matrix elements is identical -/

/-- Weight preservation, for every Hamiltonian whose non-edge bonds (other than those of flip
weight 0, which are never flipped) are invariant under the global flip of their legs and whose edge
bonds (constant, one variable) have a constant matrix. -/
theorem clusterMove_weight (H : Ham) (h : ClusterMove fr b a)
    (hsym : ∀ o ∈ opsOf b.slots, o.isEdge = false → fr o.sk = false → H.FlipSym o.bond)
    (hconst : ∀ o ∈ opsOf b.slots, o.isEdge = true → H.ConstW o.bond) :
    configWeightProd H a.slots = configWeightProd H b.slots :=
  weight_eq_of_pairAll H fr h.ops hsym hconst

/-- Instance: the transverse-field Ising matrix elements of `QmcIsingGraph::hamiltonian`, any
couplings, any Γ, any longitudinal field `h` (closure of `single_cluster_step`: weight 0 on the
longitudinal bonds), for strings whose ops carry the bond numbering of `QmcIsingGraph`
(edge bonds non-constant; transverse bonds are the cluster edges). -/
theorem clusterMove_weight_ising (edges : List (List Nat × Rat)) (g hz : Rat) (nvars : Nat)
    (h : ClusterMove (isingFrozen edges.length nvars) b a)
    (hlegal : ∀ o ∈ opsOf b.slots, o.isEdge = true ↔ (edges.length ≤ o.bond ∧ o.bond < edges.length + nvars)) :
    configWeightProd (isingClusterHam edges g hz nvars) a.slots =
      configWeightProd (isingClusterHam edges g hz nvars) b.slots := by
  refine clusterMove_weight _ h ?_ ?_
  · intro o ho he hf
    apply isingClusterHam_flipSym
    have hne : ¬ (edges.length ≤ o.bond ∧ o.bond < edges.length + nvars) := by
      intro hc; rw [(hlegal o ho).2 hc] at he; cases he
    have hf' : ¬ (edges.length + nvars ≤ o.bond) := of_decide_eq_false hf
    omega
  · intro o ho he
    obtain ⟨h1, h2⟩ := (hlegal o ho).1 he
    exact isingClusterHam_constW edges g hz nvars o.bond h1 h2

/-! ### reversibility -/

/-- the reverse move is a cluster move as well (same flipped set `D`): with one fair draw per
cluster the proposal probabilities of `b → a` and `a → b` coincide, see `clusterFlips_half` -/
theorem clusterMove_symm (h : ClusterMove fr b a) : ClusterMove fr a b := h.symm

/-! ### still a consistent periodic world-line configuration -/

/-- `verify()` stays true: every op of the result meets exactly its recorded inputs and the
propagated state returns to the state at p = 0 -/
theorem clusterMove_consistent (h : ClusterMove fr b a) (hb : Consistent b) : Consistent a :=
  h.consistent hb

/-- what "the flipped set is closed along world lines" means leg by leg: the flip indicator `D`
(the mask `before xor after`) has the same value on the output leg of every op and on the input leg
of the next op on that variable; the next op is looked for in the rest of the string and then,
through the time boundary, from the start of the string again (so the last op on a variable links
to the first one, and a lone op to itself). -/
theorem clusterMove_link (h : ClusterMove fr b a) (pre t : Slots) (m : Op)
    (hm : maskSlots b.slots a.slots = pre ++ some m :: t) (hn : m.vars.Nodup) (v : Nat)
    (hv : v ∈ m.vars) (x : Bool) (hx : firstIn v (t ++ maskSlots b.slots a.slots) = some x) :
    m.legOut v = some x := h.link pre t m hm hn v hv x hx

/-- the state at p = 0 is flipped iff the link crossing the time boundary (= the input leg of the
first op on the variable) is flipped -/
theorem clusterMove_boundary_state (h : ClusterMove fr b a) (v : Nat) (x : Bool)
    (hx : firstIn v (maskSlots b.slots a.slots) = some x) :
    (xorB b.state a.state)[v]? = some x := h.boundary_state v x hx

/-- variables that carry no op keep their value -/
theorem clusterMove_idle (h : ClusterMove fr b a) (v : Nat)
    (hv : varHasOp (skeleton b.slots) v = false) : a.state[v]? = b.state[v]? := h.idle v hv

/-- all draws rejected: leaving a structurally valid configuration untouched is a cluster move -/
theorem clusterMove_refl (fr : SkOp → Bool) (b : Config) (h : ShapeOk b) : ClusterMove fr b b :=
  ClusterMove.refl fr h

/-- the tag rule of `edit_in_out` keeps tags canonical (`Diagonal` iff inputs = outputs) -/
theorem clusterMove_tags (ht : PairAll (fun ob oa => tagRuleB ob oa = true) b.slots a.slots)
    (hb : TagCanon b.slots) : TagCanon a.slots := tagRule_canon ht hb

/-! ### each cluster is flipped independently with probability exactly ½ (0 when it has weight 0) -/

/-- One `gen_bool(c_i·prob)` per cluster, in cluster-number order: the i-th flip is decided by the
i-th word alone (`word_i < ⌊c_i·prob·2^64⌋`), exactly one word per cluster is consumed, and the RNG
is left in a regular state. -/
theorem clusterFlips_spec (prob : Rat) (cs : List Rat) (ws rest : List Nat) (s : RS)
    (hs : s.script = ws ++ rest) (hl : ws.length = cs.length)
    (hc : ∀ c ∈ cs, c * prob ≠ 1 ∧ ¬ (c * prob < 0 ∨ 1 < c * prob)) :
    (clusterFlips prob cs s).1 =
      List.zipWith (fun c w => decide (((w % RS.two64 : Nat) : Int) < (c * prob * (RS.two64 : Rat)).floor)) cs ws ∧
    (clusterFlips prob cs s).2.script = rest ∧
    (clusterFlips prob cs s).2.draws = s.draws + cs.length ∧
    (clusterFlips prob cs s).2.short = s.short ∧ (clusterFlips prob cs s).2.panicked = s.panicked :=
  clusterFlips_spec_aux prob cs ws rest s hs hl hc

/-- Ising-symmetric call (`prob = 0.5`, every weight 1): cluster i is flipped iff word i < 2^63,
i.e. for exactly half of the 2^64 words, whatever the other words are. -/
theorem clusterFlips_half (n : Nat) (ws rest : List Nat) (s : RS)
    (hs : s.script = ws ++ rest) (hl : ws.length = n) :
    (clusterFlips (1 / 2) (List.replicate n 1) s).1 = ws.map (fun w => decide (w % 2 ^ 64 < 2 ^ 63)) ∧
    (clusterFlips (1 / 2) (List.replicate n 1) s).2.script = rest := by
  obtain ⟨h1, h2, -⟩ := clusterFlips_spec (1 / 2) (List.replicate n 1) ws rest s hs (by simpa using hl)
    (fun c hc => by rw [List.eq_of_mem_replicate hc]; exact half_regular)
  refine ⟨?_, h2⟩
  rw [h1]
  clear h1 h2 hs
  induction ws generalizing n with
  | nil => simp
  | cons w t ih =>
    cases n with
    | zero => simp at hl
    | succ n =>
      simp only [List.replicate_succ, List.zipWith_cons_cons, List.map_cons, List.cons.injEq]
      refine ⟨?_, ih n (by simpa using hl)⟩
      rw [half_threshold]
      have : (((w % RS.two64 : Nat) : Int) < 2 ^ 63) ↔ (w % 2 ^ 64 < 2 ^ 63) := by
        simp only [RS.two64]; norm_cast
      exact decide_eq_decide.mpr this

/-- a cluster of weight 0 (it holds a symmetry-breaking op) is never flipped, whatever its word -/
theorem clusterFlips_weight0 (prob : Rat) (w : Nat) (t : List Nat) (s : RS) (hs : s.script = w :: t) :
    (clusterFlips prob [0] s).1 = [false] ∧ (clusterFlips prob [0] s).2.script = t := by
  obtain ⟨h1, h2, -⟩ := clusterFlips_spec prob [0] [w] t s (by simpa using hs) rfl
    (fun c hc => by rw [List.mem_singleton.mp hc]; exact zero_regular prob)
  refine ⟨?_, h2⟩
  rw [h1]
  simp only [List.zipWith_cons_cons, List.zipWith_nil_right, zero_threshold, List.cons.injEq, and_true,
    decide_eq_false_iff_not]
  omega

/-! ### the decomposition: components of the leg graph are exactly the atoms of the update

`legGraph sk` (QmcModel/Cluster.lean): leg ids in time order; inner edges of non-edge ops, world-line
links, links through the time boundary. `compLab sk` = `componentLabels (legGraph sk)`; `Conn edges`
= reflexive-transitive closure of the (undirected) edges; `minConn edges i` = smallest leg id
connected to `i`. `flipAt b a i` = "leg `i` differs between `b` and `a`".
`NodupVars s`: no op lists a variable twice (part of `Op.WF`, true of every stored op). -/

/-- `componentLabels` computes the connected components: the label of a leg is the smallest leg id
connected to it (the fuel `nlegs + 1` of the relaxation always suffices) -/
theorem compLab_is_component_min (s : Slots) (hn : NodupVars s) :
    (compLab (skeleton s)).size = (legGraph (skeleton s)).nlegs ∧
    ∀ i, i < (legGraph (skeleton s)).nlegs →
      (compLab (skeleton s))[i]! = minConn (legGraph (skeleton s)).edges i := compLab_spec s hn

/-- two legs carry the same label iff they are connected in the leg graph -/
theorem compLab_eq_iff_connected (s : Slots) (hn : NodupVars s) {i j : Nat}
    (hi : i < (legGraph (skeleton s)).nlegs) (hj : j < (legGraph (skeleton s)).nlegs) :
    (compLab (skeleton s))[i]! = (compLab (skeleton s))[j]! ↔ Conn (legGraph (skeleton s)).edges i j :=
  compLab_eq_iff s hn hi hj

/-- (i) the flipped-leg set of every cluster move is closed under the adjacency of the leg graph -/
theorem clusterMove_edge_closed (h : ClusterMove fr b a) (hn : NodupVars b.slots) :
    ∀ e ∈ (legGraph (skeleton b.slots)).edges, flipAt b a e.1 = flipAt b a e.2 :=
  Qmc.clusterMove_edge_closed h hn

/-- (i) … hence a union of components: two legs with the same component label are flipped together
or not at all. (With `unionOfClusters`, the per-case driver check of the relational mode, as a theorem.) -/
theorem clusterMove_union_of_components (h : ClusterMove fr b a) (hn : NodupVars b.slots) {i j : Nat}
    (hi : i < (legGraph (skeleton b.slots)).nlegs) (hj : j < (legGraph (skeleton b.slots)).nlegs)
    (hij : (compLab (skeleton b.slots))[i]! = (compLab (skeleton b.slots))[j]!) :
    flipAt b a i = flipAt b a j := Qmc.clusterMove_union_of_components h hn hi hj hij

/-- (ii) flipping any leg set `D` that is closed under the adjacency of the leg graph and contains no
leg of a non-edge op of flip weight 0 is a cluster move -/
theorem flipConfig_clusterMove (fr : SkOp → Bool) (D : Nat → Bool) (c : Config) (hshape : ShapeOk c)
    (hn : NodupVars c.slots)
    (hclosed : ∀ e ∈ (legGraph (skeleton c.slots)).edges, D e.1 = D e.2)
    (hfrozen : ∀ x ∈ opOffsets 0 c.slots, x.2.isEdge = false → fr x.2.sk = true →
      0 < x.2.vars.length → D x.1 = false) :
    ClusterMove fr c (flipConfig D c) := Qmc.flipConfig_clusterMove fr D c hshape hn hclosed hfrozen

/-- (ii) flipping exactly one component that holds no op of flip weight 0 is a cluster move -/
theorem flipComponent_clusterMove (fr : SkOp → Bool) (c : Config) (r : Nat) (hshape : ShapeOk c)
    (hn : NodupVars c.slots) (hfree : ComponentFree fr c.slots r) :
    ClusterMove fr c (flipComponent (skeleton c.slots) r c) :=
  Qmc.flipComponent_clusterMove fr c r hshape hn hfree

/-- (ii) components are exactly the atoms: every component free of weight-0 ops can be flipped alone,
and a cluster move that flips a leg flips the leg's whole component, which is free of weight-0 ops -/
theorem components_are_atoms (fr : SkOp → Bool) (c : Config) (hshape : ShapeOk c) (hn : NodupVars c.slots) :
    (∀ r, ComponentFree fr c.slots r → ClusterMove fr c (flipComponent (skeleton c.slots) r c)) ∧
    (∀ a, ClusterMove fr c a → ∀ i, i < (legGraph (skeleton c.slots)).nlegs → flipAt c a i = true →
      (∀ j, j < (legGraph (skeleton c.slots)).nlegs →
        (compLab (skeleton c.slots))[j]! = (compLab (skeleton c.slots))[i]! → flipAt c a j = true) ∧
      ComponentFree fr c.slots (compLab (skeleton c.slots))[i]!) :=
  Qmc.components_are_atoms fr c hshape hn

/-- (iii) `numClusters`: 0 without legs, 1 without a constant single-site op ("the whole thing is one
cluster", however many components there are), otherwise the number of connected components -/
theorem numClusters_eq_components (s : Slots) (hn : NodupVars s) :
    numClusters (skeleton s) =
      if (legGraph (skeleton s)).nlegs = 0 then 0
      else if (legGraph (skeleton s)).hasEdge = false then 1
      else ((List.range (legGraph (skeleton s)).nlegs).filter
              (fun i => minConn (legGraph (skeleton s)).edges i == i)).length := numClusters_spec s hn

/-- (iii) what `nlegs` and `hasEdge` are: the number of legs of the string (0 iff the string is empty,
when every op has a variable) and "some op is a constant single-site op" -/
theorem legGraph_nlegs_hasEdge (s : Slots) (hn : NodupVars s) :
    (legGraph (skeleton s)).nlegs = legCount s ∧
    (legGraph (skeleton s)).hasEdge = (opsOf s).any (·.isEdge) ∧
    ((∀ o ∈ opsOf s, o.vars ≠ []) → (legCount s = 0 ↔ opsOf s = [])) :=
  ⟨legGraph_nlegs_eq s hn, legGraph_hasEdge_eq s hn, legCount_eq_zero_iff s⟩

/-- (iv) flipping a component twice restores the configuration -/
theorem flipComponent_involutive (sk : Skel) (r : Nat) (c : Config) (h : ShapedSlots c.slots) :
    flipComponent sk r (flipComponent sk r c) = c := Qmc.flipComponent_involutive sk r c h

/-- (iv) flips of two components commute -/
theorem flipComponent_comm (sk : Skel) (r1 r2 : Nat) (c : Config) :
    flipComponent sk r1 (flipComponent sk r2 c) = flipComponent sk r2 (flipComponent sk r1 c) :=
  Qmc.flipComponent_comm sk r1 r2 c

/-- (iv) a component flip keeps the skeleton (so the decomposition, `ComponentFreeSk`) -/
theorem flipComponent_skeleton (sk : Skel) (r : Nat) (c : Config) :
    skeleton (flipComponent sk r c).slots = skeleton c.slots := Qmc.flipComponent_skeleton sk r c

/-- (iv) a component flip preserves the product of matrix elements (hypotheses of `clusterMove_weight`) -/
theorem flipComponent_weight (H : Ham) (fr : SkOp → Bool) (c : Config) (r : Nat) (hshape : ShapeOk c)
    (hn : NodupVars c.slots) (hfree : ComponentFree fr c.slots r)
    (hsym : ∀ o ∈ opsOf c.slots, o.isEdge = false → fr o.sk = false → H.FlipSym o.bond)
    (hconst : ∀ o ∈ opsOf c.slots, o.isEdge = true → H.ConstW o.bond) :
    configWeightProd H (flipComponent (skeleton c.slots) r c).slots = configWeightProd H c.slots :=
  clusterMove_weight H (Qmc.flipComponent_clusterMove fr c r hshape hn hfree) hsym hconst

/-- (iv) with the tag rule applied (`flipComponentT` = component flip, then every tag `Diagonal` iff inputs =
outputs — what the code produces on strings with canonical tags): still a cluster move, tags canonical -/
theorem flipComponentT_clusterMove (fr : SkOp → Bool) (c : Config) (r : Nat) (hshape : ShapeOk c)
    (hn : NodupVars c.slots) (hfree : ComponentFree fr c.slots r) :
    ClusterMove fr c (flipComponentT (skeleton c.slots) r c) ∧
    TagCanon (flipComponentT (skeleton c.slots) r c).slots :=
  ⟨Qmc.flipComponentT_clusterMove fr c r hshape hn hfree, flipComponentT_tagCanon _ r c⟩

/-- (iv) … an involution on strings with canonical tags -/
theorem flipComponentT_involutive (sk : Skel) (r : Nat) (c : Config) (h : ShapedSlots c.slots)
    (ht : TagCanon c.slots) : flipComponentT sk r (flipComponentT sk r c) = c :=
  Qmc.flipComponentT_involutive sk r c h ht

/-- (iv) … and two of them commute -/
theorem flipComponentT_comm (sk : Skel) (r1 r2 : Nat) (c : Config) :
    flipComponentT sk r1 (flipComponentT sk r2 c) = flipComponentT sk r2 (flipComponentT sk r1 c) :=
  Qmc.flipComponentT_comm sk r1 r2 c

/-- a cluster move keeps structural validity (so the theorems above apply to its result again) -/
theorem clusterMove_shapeOk (h : ClusterMove fr b a) (hb : ShapeOk b) (hn : NodupVars b.slots) :
    ShapeOk a ∧ NodupVars a.slots := h.shapeOk hb hn

/-! ### the exact model of the update lands in the relation -/

/-- `clusterUpdate` (QmcModel/ClusterExact.lean: clusters numbered in the order of the Rust traversal,
one `gen_bool` per cluster in that order, union of the accepted clusters flipped, tag rule) is a cluster
move of its input, for every script and every weight-0 predicate -/
theorem clusterUpdate_is_clusterMove (prob : Rat) (fr : SkOp → Bool) (c : Config) (rs : RS)
    (hshape : ShapeOk c) (hn : NodupVars c.slots) :
    ClusterMove fr c (clusterUpdate prob fr c rs).1 := clusterUpdate_clusterMove prob fr c rs hshape hn

/-! ### non-vacuity: a concrete non-trivial move

Two spins + an idle one; σx (constant, bond 1) on spin 0 at p = 0 and p = 2, a bond op (bond 0) on
(0,1) at p = 1, a constant op (bond 2) on spin 1 at p = 4. The cluster between the two σx ops —
through the bond op, round the boundary on spin 1 — is flipped. -/

def sx (v : Nat) (i o : Bool) : Op := ⟨[v], 1 + v, [i], [o], i == o, true⟩
def bd (i : List Bool) : Op := ⟨[0, 1], 0, i, i, true, false⟩
def exB : Config :=
  ⟨[false, false, true], [some (sx 0 false true), some (bd [true, false]), some (sx 0 true false), none, some (sx 1 false false)]⟩
def exA : Config :=
  ⟨[false, true, true], [some (sx 0 false false), some (bd [false, true]), some (sx 0 false false), none, some (sx 1 true true)]⟩

example : ClusterMove (fun _ => false) exB exA := isClusterMove_sound (by decide)
example : exA ≠ exB := by decide
example : Consistent exB := by decide
/-- if the bond op had flip weight 0 this move would be rejected -/
example : ¬ ClusterMove (fun o => o.bond == 0) exB exA := fun h => by
  have := isClusterMove_complete h; revert this; decide
/-- flipping only the inputs of the bond op (one side of a non-edge op) is not a cluster move -/
example : ¬ ClusterMove (fun _ => false) exB
    { exA with slots := [some (sx 0 false false), some ⟨[0, 1], 0, [false, true], [true, false], false, false⟩,
                         some (sx 0 false false), none, some (sx 1 true true)] } := fun h => by
  have := isClusterMove_complete h; revert this; decide
/-- forgetting the state at p = 0 when the flipped link crosses the boundary is not a cluster move -/
example : ¬ ClusterMove (fun _ => false) exB { exA with state := exB.state } := fun h => by
  have := isClusterMove_complete h; revert this; decide
set_option maxRecDepth 8000 in
example : numClusters (skeleton exB.slots) = 2 := by decide

/-- the hypotheses of the component theorems hold for the example -/
example : ShapeOk exB ∧ NodupVars exB.slots := by
  constructor
  · intro o ho
    simp only [exB, opsOf, List.mem_cons, List.not_mem_nil, or_false] at ho
    rcases ho with rfl | rfl | rfl | rfl <;> simp [sx, bd, exB]
  · intro o ho
    simp only [exB, opsOf, List.mem_cons, List.not_mem_nil, or_false] at ho
    rcases ho with rfl | rfl | rfl | rfl <;> simp [sx, bd]
set_option maxRecDepth 8000 in
/-- the move `exB → exA` is the flip of the component labelled 1 (legs 1–6, 8, 9), up to the tag rule -/
example : (flipComponent (skeleton exB.slots) 1 exB).state = exA.state ∧
    canonSlots (flipComponent (skeleton exB.slots) 1 exB).slots = exA.slots := by decide
set_option maxRecDepth 8000 in
/-- … and with the tag rule it is `exA` exactly -/
example : flipComponentT (skeleton exB.slots) 1 exB = exA := by decide
set_option maxRecDepth 8000 in
/-- flipping the other component (legs 0 and 7: the σx pair through the boundary) changes `state[0]` -/
example : (flipComponent (skeleton exB.slots) 0 exB).state = [true, false, true] := by decide

end Qmc.C09
