/-
C01 — the transverse-field Ising sampler and the quantum thermal state (◐ partial by nature).

What is decided here (for all graphs, couplings, fields, β, cutoffs L):
  (T1) the bond operators the sampler uses sum to `C·1 − H`, `H = Σ J σzσz − Γ Σ σx − h Σ σz`,
       `C = total_energy_offset`;
  (T6) the total SSE weight `βⁿ (L−n)!/L! · Π⟨out|M_b|in⟩` of all *consistent configurations of the
       sampler's own data structure* with `p = 0` state `α` is `⟨α| Σ_{n≤L} (βM)ⁿ/n! |α⟩` (the
       degree-L Taylor polynomial of `e^{β(C−H)}`), and summed over `α` it is the truncated
       partition function;
  (T7) weighting by the operator count, resp. by the number of `b`-operators, gives
       `β·Tr(M·T_{L−1}(βM))`, resp. `β·Tr(M_b·T_{L−1}(βM))`: the estimators `E = C − ⟨n⟩/β` and
       `⟨n_b⟩ = β⟨M_b⟩` at finite `L`.
  Invariance of the SSE weight under the sampler's kernels (diagonal update, cluster update,
  free-spin refresh) is C08 / C09 / `C01 kernel` theorems below; ergodicity and the limit
  `L → ∞` (controlled in practice by C12's headroom) are NOT theorems here.
Helper lemmas: QmcProofs/{IsingSSE,PathSum,SSE,SSEConfig}.lean. Model: QmcModel/Ham.lean.
-/
import QmcProofs.SSEConfig

open BigOperators Finset

namespace Qmc.C01
open Qmc Qmc.IsingSSE Qmc.PathSum Qmc.SSE Qmc.SSEConfig

/-! ### (T1) Σ_b M_b = C·1 − H -/

/-- Diagonal: `Σ_b ⟨s|M_b|s⟩ = C − (Σ_edges J σ_a σ_b − h Σ_i σ_i)`, `C = Σ|J| + N(Γ + |h|)`.
(`h = 0` or `|h| > 2^-52`: a smaller non-zero field creates no field bonds in the sampler.) -/
theorem bond_matrices_sum_diag (m : IsingModel) (s : List Bool) (hwf : EdgesWF m)
    (hh : m.longitudinal = 0 ∨ m.hasField = true) :
    totalEntry (isingHam m) s s = m.offset - Ecl m s :=
  total_diag m s hwf hh

/-- Off-diagonal: for `s' ≠ s`, `Σ_b ⟨s'|M_b|s⟩ = Γ · #{i < N : s' = s with spin i flipped}`
(`agreeOff [i] s s'` with `s ≠ s'`), i.e. exactly the matrix of `+Γ Σ_i σx_i = −(H's transverse part)`;
two-site and field terms contribute nothing off the diagonal. -/
theorem bond_matrices_sum_offdiag (m : IsingModel) (s s' : List Bool) (hwf : EdgesWF m)
    (hne : s ≠ s') :
    totalEntry (isingHam m) s s'
      = m.transverse * ((List.range m.nvars).filter (fun i => agreeOff [i] s s')).length :=
  total_offdiag m s s' hwf hne

/-! ### (T6) configurations ↔ matrix products ↔ Taylor polynomial -/

/-- Every term of the configuration sum is a consistent world-line configuration of the sampler. -/
theorem terms_are_consistent (H : Ham) (bs : List Nat) (os : List (List Bool)) (s : List Bool)
    (hr : ∀ b ∈ bs, ∀ v ∈ H.vars b, v < s.length) :
    ∃ t, propagate s (mkOps H bs os s) = some t :=
  propagate_mkOps H bs os s hr

/-- Sum over consistent operator lists (inputs = current sub-state, any outputs) of the product of
matrix elements = the matrix-product path sum. -/
theorem configs_are_paths (H : Ham) (N : Nat) (bs : List Nat) (s t : List Bool) (hs : s.length = N)
    (hnd : ∀ b ∈ bs, (H.vars b).Nodup) (hr : ∀ b ∈ bs, ∀ v ∈ H.vars b, v < N) :
    configSum H bs s t = pathSum H N bs s t :=
  configSum_eq_pathSum H N bs s t hs hnd hr

/-- **State marginal of the SSE weight on the sampler's configuration space** (any Hamiltonian with
duplicate-free, in-range variable lists — Ising and generic samplers alike). -/
theorem sse_config_weight_marginal (H : Ham) (N nb : Nat) (β : ℚ) (L : Nat) (α : St N)
    (hnd : ∀ b < nb, (H.vars b).Nodup) (hr : ∀ b < nb, ∀ v ∈ H.vars b, v < N) :
    ∑ n ∈ range (L + 1), ∑ _pos ∈ powersetCard n (range L), ∑ p : Fin n → Fin nb,
        β ^ n * ((L - n).factorial / L.factorial)
          * configSum H (List.ofFn fun i => (p i).val) α.1 α.1
      = ∑ n ∈ range (L + 1), β ^ n / n.factorial
          * ((∑ b : Fin nb, bondMatrix H N b.val) ^ n) α α :=
  config_weight_marginal H N nb β L α hnd hr

/-- Truncated partition function: `Σ_configs W = Σ_{n≤L} βⁿ/n! Tr(Mⁿ)`. -/
theorem sse_partition_function {ι S : Type} [Fintype ι] [Fintype S] [DecidableEq S]
    (β : ℚ) (L : Nat) (A : ι → Matrix S S ℚ) :
    ∑ n ∈ range (L + 1), ∑ _pos ∈ powersetCard n (range L), ∑ p : Fin n → ι, sseWeight β L A p
      = ∑ n ∈ range (L + 1), β ^ n / n.factorial * Matrix.trace ((∑ b, A b) ^ n) :=
  partition_function β L A

/-! ### (T7) estimators at finite cutoff -/

/-- `Σ_{n≤L} n·βⁿ/n!·tₙ = β·Σ_{n<L} βⁿ/n!·tₙ₊₁` — with `tₙ = Tr(Mⁿ)`: `⟨n⟩ Z_L = β Tr(M T_{L−1}(βM))`,
hence `E = ⟨H⟩ = C − ⟨M⟩ = C − ⟨n⟩/β` in the limit; the sampler reports `−⟨n⟩/β + offset`. -/
theorem sse_mean_n (β : ℚ) (t : Nat → ℚ) (L : Nat) :
    ∑ n ∈ range (L + 1), (n : ℚ) * (β ^ n / n.factorial * t n)
      = β * ∑ n ∈ range L, β ^ n / n.factorial * t (n + 1) :=
  mean_n_identity β t L

/-- Per-bond operator count: `⟨n_b⟩ Z_L = β Σ_{n<L} βⁿ/n! Tr(M_b Mⁿ)`, i.e. `⟨n_b⟩ → β⟨M_b⟩`. -/
theorem sse_bond_count {ι S : Type} [Fintype ι] [DecidableEq ι] [Fintype S] [DecidableEq S]
    (β : ℚ) (L : Nat) (A : ι → Matrix S S ℚ) (b : ι) :
    ∑ n ∈ range (L + 1), ∑ _pos ∈ powersetCard n (range L), ∑ p : Fin n → ι,
        (countIn b p : ℚ) * sseWeight β L A p
      = β * ∑ n ∈ range L, β ^ n / n.factorial * Matrix.trace (A b * (∑ c, A c) ^ n) :=
  bond_count_identity β L A b

/-! ### the Ising Hamiltonian meets the hypotheses of (T6) -/

/-- edges are pairs of distinct variables below `nvars` (what the constructor produces from
`((a, b), J)` on a graph without self-loops) -/
def EdgesOK (m : IsingModel) : Prop :=
  ∀ e ∈ m.edges, ∃ a b, e.1 = [a, b] ∧ a ≠ b ∧ a < m.nvars ∧ b < m.nvars

theorem ising_vars_ok (m : IsingModel) (h : EdgesOK m) :
    (∀ b < m.numBonds, ((isingHam m).vars b).Nodup) ∧
    (∀ b < m.numBonds, ∀ v ∈ (isingHam m).vars b, v < m.nvars) := by
  have key : ∀ b < m.numBonds, ((isingHam m).vars b).Nodup ∧ ∀ v ∈ (isingHam m).vars b, v < m.nvars := by
    intro b hb
    simp only [isingHam, hb, if_true, IsingModel.bondVars]
    by_cases h1 : b < m.edges.length
    · simp only [h1, if_true, List.getElem?_eq_getElem h1, Option.map_some, Option.getD_some]
      obtain ⟨x, y, hxy, hne, hx, hy⟩ := h _ (List.getElem_mem h1)
      rw [hxy]
      refine ⟨by simp [hne], ?_⟩
      intro v hv; simp at hv; rcases hv with rfl | rfl <;> assumption
    · simp only [h1, if_false]
      have hnb : m.numBonds ≤ m.edges.length + m.nvars + m.nvars := by
        unfold IsingModel.numBonds; split <;> omega
      by_cases h2 : b < m.edges.length + m.nvars
      · simp only [h2, if_true]
        refine ⟨by simp, ?_⟩
        intro v hv; simp at hv; omega
      · simp only [h2, if_false]
        refine ⟨by simp, ?_⟩
        intro v hv; simp at hv; omega
  exact ⟨fun b hb => (key b hb).1, fun b hb => (key b hb).2⟩

/-! ### non-vacuity -/

/-- a frustrated triangle with unequal couplings and both fields -/
def tri : IsingModel :=
  { edges := [([0, 1], 1), ([1, 2], -1/2), ([2, 0], 3/4)], transverse := 1/2, longitudinal := 1/4,
    nvars := 3 }

example : EdgesWF tri := by
  intro e he; simp [tri] at he
  rcases he with rfl | rfl | rfl <;> exact ⟨_, _, rfl⟩

example : EdgesOK tri := by
  intro e he; simp [tri] at he
  rcases he with rfl | rfl | rfl <;> exact ⟨_, _, rfl, by decide, by decide, by decide⟩

/-! ### The hypothesis `h = 0 ∨ |h| > 2^-52` is necessary (finding F24)

The library tests `longitudinal.abs() > f64::EPSILON` — an ABSOLUTE threshold — to decide whether field bonds exist.
At the excluded point the identity `Σ_b M_b = C·1 − H` fails, in the model and (replayed by the harness, mode
`fieldwit`) in the real code: in small energy units (`J = Γ = 2^-56`, `h = 2^-57`, so that `β·h` is of order 1 at
`β ≈ 2^56`) the sampler has no field bonds at all and samples the `h = 0` model. -/

def tinyFieldModel : IsingModel :=
  { edges := [([0, 1], (1 : Rat) / 72057594037927936)], transverse := (1 : Rat) / 72057594037927936,
    longitudinal := (1 : Rat) / 144115188075855872, nvars := 2 }

theorem field_threshold_witness :
    tinyFieldModel.longitudinal ≠ 0 ∧ tinyFieldModel.hasField = false ∧ tinyFieldModel.numBonds = 3 ∧
    totalEntry (isingHam tinyFieldModel) [true, true] [true, true]
      ≠ tinyFieldModel.offset - Ecl tinyFieldModel [true, true] := by
  refine ⟨?_, ?_, ?_, ?_⟩ <;> decide +kernel

end Qmc.C01
