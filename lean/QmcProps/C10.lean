/-
C10 — Replica swaps use the exact Metropolis probability and swap only configurations.

Model: `QmcModel/Tempering.lean` (tied to /repo by `checks/C10.py`). All theorems are unbounded:
every ladder length, every Hamiltonian pair the container accepts, every operator string,
every script of random words.
-/
import QmcProofs.Tempering
import QmcProofs.TemperingStep
import Mathlib.Data.List.Nodup

namespace Qmc.C10
open Qmc Qmc.Tempering

/-! ## 1. `relative_weight` (Ising sampler): per-bond counts = product over the string -/

/-- For a legal string of `self` (every stored op is a positive-weight term of `H_self`) and a pair
of Hamiltonians `can_swap_managers` accepts, the count formula with `powi` is exactly
`∏_op w_other(op) / w_self(op)`. -/
theorem relWeight_eq_product (self other : IsingH) (hs : self.WF) (ho : other.WF)
    (hc : canSwapIsing self other = true) (s : Slots) (hl : LegalIsing self s) :
    relativeWeightIsing self other s = opsProd (fun o => other.wOp o / self.wOp o) s :=
  relativeWeightIsing_eq_opsProd (swappable_of_canSwap hs ho hc) s hl

/-- `can_swap_managers` is symmetric, so the container may test either neighbour against the other. -/
theorem canSwap_symm (a b : IsingH) (ha : a.WF) (hb : b.WF) (h : canSwapIsing a b = true) :
    Swappable b a := (swappable_of_canSwap ha hb h).symm

/-- Generic sampler: the walk over the operators is the product of ratios (0 as soon as the other
Hamiltonian has a zero element; the `∞` branch needs a zero weight of the *own* Hamiltonian, which a
legal string excludes). -/
theorem relWeightGeneric_eq_product (self other : GenH) (s : Slots)
    (hl : ∀ o, some o ∈ s → genWOp self o ≠ 0) :
    relativeWeightGeneric self other s = some (opsProd (fun o => genWOp other o / genWOp self o) s) := by
  unfold relativeWeightGeneric
  rw [relWLoop_eq _ _ s 1 hl, one_mul]

/-- Generic sampler: the container only ever pairs Hamiltonians it also regards as equal, so
`relative_weight` is never evaluated inside a tempering step. -/
theorem generic_canSwap_imp_hamEq (a b : GenH) (h : canSwapGeneric a b = true) :
    hamEqGeneric a b = true := h

/-! ## 2. The acceptance test is the Metropolis test -/

/-- `p_swap` with the Hamiltonian ratio evaluated is the Metropolis ratio
`W_a(C_b) W_b(C_a) / (W_a(C_a) W_b(C_b))`, `W_x(C) = β_x^n (L−n)!/L! ∏ w_x(op)`. -/
theorem pSwap_evaluated (a b : Replica IsingH) (hwa : a.ham.WF) (hwb : b.ham.WF)
    (hc : canSwapIsing a.ham b.ham = true) (hL : a.cutoff = b.cutoff)
    (hβa : 0 < a.beta) (hβb : 0 < b.beta)
    (hla : LegalIsing a.ham a.cfg.slots) (hlb : LegalIsing b.ham b.cfg.slots) :
    pSwap isingIface a b true = metropolisRatio a b :=
  pSwap_eval_eq_metropolisRatio a b hL hβa hβb hla hlb (swappable_of_canSwap hwa hwb hc)

/-- What `ham_eq` must imply for the shortcut to be sound — both relative weights are 1 on legal
strings — and the code's `HamInfo::eq` gives it: it forces the two Hamiltonians to be identical. -/
theorem hamEq_shortcut_sound (a b : Replica IsingH) (hwa : a.ham.WF) (hwb : b.ham.WF)
    (he : hamEqIsing a.ham b.ham = true)
    (hla : LegalIsing a.ham a.cfg.slots) (hlb : LegalIsing b.ham b.cfg.slots) :
    a.ham = b.ham ∧ relH isingIface a b true = 1 ∧
      pSwap isingIface a b false = pSwap isingIface a b true := by
  have h := eq_of_hamEq hwa hwb he
  exact ⟨h, relH_hamEq_one a b h hla hlb, pSwap_skip_eq_eval a b h hla hlb⟩

/-- `ham_eq` pairs are swappable (the cache can never skip the ratio of an unswappable pair). -/
theorem hamEq_imp_canSwap (x y : IsingH) (hx : x.WF) (hy : y.WF) (he : hamEqIsing x y = true) :
    Swappable x y := by
  have h := eq_of_hamEq hx hy he
  subst h; exact Swappable.refl _

/-- **Exact swap probability.** For any pair the container accepts, with equal cutoffs (which the
step establishes first), whatever the cached flag `eq` says (as long as `eq = true` only when
`ham_eq` holds): the number compared with the uniform draw is the Metropolis ratio, the exchange
happens iff `u < ratio`, so for `u` uniform on `[0,1)` the acceptance probability is
`min 1 (W_a(C_b) W_b(C_a) / (W_a(C_a) W_b(C_b)))`. -/
theorem swapProb_exact (a b : Replica IsingH) (hwa : a.ham.WF) (hwb : b.ham.WF)
    (hc : canSwapIsing a.ham b.ham = true) (hL : a.cutoff = b.cutoff)
    (hβa : 0 < a.beta) (hβb : 0 < b.beta)
    (hla : LegalIsing a.ham a.cfg.slots) (hlb : LegalIsing b.ham b.cfg.slots)
    (eq : Bool) (heq : eq = true → hamEqIsing a.ham b.ham = true) (u : Rat) :
    pSwap isingIface a b (!eq) = metropolisRatio a b ∧
    ((swapOnChunks isingIface a b u (!eq)).2.2 = true ↔ u < metropolisRatio a b) := by
  have hp : pSwap isingIface a b (!eq) = metropolisRatio a b := by
    cases eq with
    | false => exact pSwap_evaluated a b hwa hwb hc hL hβa hβb hla hlb
    | true =>
      have := hamEq_shortcut_sound a b hwa hwb (heq rfl) hla hlb
      simp only [Bool.not_true]
      rw [this.2.2]; exact pSwap_evaluated a b hwa hwb hc hL hβa hβb hla hlb
  refine ⟨hp, ?_⟩
  unfold swapOnChunks
  rw [hp]
  split <;> simp_all

/-- The grid of `gen_range(0.0..1.0)`: `u = k/N` (`N = 2^52`, `k < N` uniform), accepted iff
`k/N < p` iff `k < p·N`: the accepted `k` are exactly those below `p·N`, i.e. `min N ⌈pN⌉` of the
`N` grid points — the idealisation "probability = min(1, ratio)" is off by less than `1/N`. -/
theorem accept_grid (N : Nat) (hN : 0 < N) (p : Rat) (k : Nat) :
    ((k : Rat) / N < p ↔ (k : Rat) < p * N) := by
  have : (0 : Rat) < N := by exact_mod_cast hN
  exact div_lt_iff₀ this

/-- The equal-cutoff hypothesis is needed: with unequal cutoffs the same number is *not* the ratio
of the weights the two samplers work with (that is why the step equalises cutoffs first). -/
theorem numBonds_ge (H : IsingH) : H.nedges + H.nvars ≤ H.numBonds := by
  unfold IsingH.numBonds; omega

theorem unequal_cutoffs_break_ratio :
    ∃ a b : Replica IsingH, a.ham = b.ham ∧ LegalIsing a.ham a.cfg.slots ∧
      LegalIsing b.ham b.cfg.slots ∧ pSwap isingIface a b false ≠ metropolisRatio a b := by
  let Hm : IsingH := { edges := [([0, 1], 1)], gamma := 1, h := 0, nvars := 2 }
  let o : Op := { vars := [0], bond := 1, ins := [false], outs := [false], tagDiag := true, const := true }
  refine ⟨{ ham := Hm, beta := 1, offset := 0, rng := 0, bw := 0, cutoff := 1,
            cfg := { state := [false, false], slots := [none] } },
          { ham := Hm, beta := 1, offset := 0, rng := 1, bw := 0, cutoff := 2,
            cfg := { state := [false, false], slots := [some o, none] } }, rfl, ?_, ?_, ?_⟩
  · intro o' ho'; simp at ho'
  · intro o' ho'
    simp only [List.mem_cons, Option.some.injEq, List.mem_nil_iff, or_false, reduceCtorEq] at ho'
    subst ho'
    refine ⟨lt_of_lt_of_le (by simp [IsingH.nedges, Hm, o]) (numBonds_ge Hm), ?_⟩
    simp [IsingH.wOp, IsingH.w, IsingH.nedges, Hm, o]
  · norm_num [pSwap, relH, metropolisRatio, WIsing, configWeight, countOps, opsProd, powi, fact,
      IsingH.wOp, IsingH.w, IsingH.nedges, Hm, o]

/-! ## 3. A swap moves the configuration and nothing else -/

/-- One pair: if accepted, the two replicas go through `swap_manager_and_state`; if rejected nothing
changes. `swap_manager_and_state` keeps Hamiltonian, β, offset, RNG and bond-weight table of each
side, exchanges (state, operator string) and raises both cutoff fields to the larger one — which
inside a tempering step (cutoffs already equal, strings already that long) is the plain exchange. -/
theorem swap_pair_spec {H : Type} (I : Iface H) (a b : Replica H) (u : Rat) (ev : Bool) :
    (u < pSwap I a b ev →
      swapOnChunks I a b u ev = ((swapGraphs a b).1, (swapGraphs a b).2, true)) ∧
    (¬ u < pSwap I a b ev → swapOnChunks I a b u ev = (a, b, false)) ∧
    ((swapGraphs a b).1.frame = a.frame ∧ (swapGraphs a b).2.frame = b.frame) ∧
    (∀ m, a.cutoff = m → b.cutoff = m → m ≤ a.cfg.slots.length → m ≤ b.cfg.slots.length →
      swapGraphs a b = ({ a with cfg := b.cfg }, { b with cfg := a.cfg })) :=
  ⟨swapOnChunks_accepted I a b u ev, swapOnChunks_rejected I a b u ev,
   ⟨by simp [swapGraphs, Replica.setCutoff, Replica.frame],
    by simp [swapGraphs, Replica.setCutoff, Replica.frame]⟩,
   fun m ha hb hla hlb => swapGraphs_eq_exchange a b m ha hb hla hlb⟩

/-- Outside a tempering step (public `swap_graphs` on samplers with different cutoffs): both cutoff
fields become the maximum and each received string is padded to it — no sampler is left with a
cutoff smaller than the string it holds. -/
theorem swapGraphs_cutoffs {H : Type} (a b : Replica H) :
    (swapGraphs a b).1.cutoff = max a.cutoff b.cutoff ∧
    (swapGraphs a b).2.cutoff = max a.cutoff b.cutoff ∧
    max a.cutoff b.cutoff ≤ (swapGraphs a b).1.cfg.slots.length ∧
    max a.cutoff b.cutoff ≤ (swapGraphs a b).2.cfg.slots.length ∧
    (swapGraphs a b).1.cfg.state = b.cfg.state ∧ (swapGraphs a b).2.cfg.state = a.cfg.state :=
  ⟨rfl, rfl, padTo_length_ge _ _, padTo_length_ge _ _, rfl, rfl⟩

/-- Whole step: every ladder position keeps (H, β, offset, rng, bond-weight table); the
configurations after the step are a permutation of the (cutoff-padded) configurations before. -/
theorem swap_exchanges_only_config {H : Type} (I : Iface H) (c : Container H) :
    (temperingStep I c).1.graphs.map Replica.frame = c.graphs.map Replica.frame ∧
    (c.graphs.length ≤ 1 → (temperingStep I c).1 = c) ∧
    (2 ≤ c.graphs.length →
      ((temperingStep I c).1.graphs.map (·.cfg)).Perm
        ((c.graphs.map (·.setCutoff (maxCutoff c.graphs))).map (·.cfg))) := by
  unfold temperingStep
  by_cases h : c.graphs.length ≤ 1
  · simp [h]; omega
  · rw [if_neg h]
    have sp := stepBody_spec I (performSwaps I) (goodSwap_serial I) c
    exact ⟨sp.1, fun h' => absurd h' h, fun _ => sp.2.2.1⟩

/-- Padding to the common cutoff does not change the operators of a configuration. -/
theorem equalisation_keeps_ops {H : Type} (r : Replica H) (m : Nat) :
    (r.setCutoff m).cfg.state = r.cfg.state ∧
    countOps (r.setCutoff m).cfg.slots = countOps r.cfg.slots ∧
    (r.setCutoff m).cfg.slots = r.cfg.slots ++ List.replicate (m - r.cfg.slots.length) none :=
  ⟨rfl, countOps_padTo _ _, rfl⟩

/-! ## 4. One cutoff afterwards -/

/-- After a step (≥ 2 replicas) every replica's cutoff field is the previous ladder maximum — which is
attained and bounds every previous cutoff (no cutoff shrinks) — and, if no manager was longer than
its sampler's cutoff, every operator string has exactly that many slots. -/
theorem cutoffs_equal_after_step {H : Type} (I : Iface H) (c : Container H)
    (hn : 2 ≤ c.graphs.length) :
    (∀ r ∈ (temperingStep I c).1.graphs, r.cutoff = maxCutoff c.graphs) ∧
    (∀ r ∈ c.graphs, r.cutoff ≤ maxCutoff c.graphs) ∧
    (∃ r ∈ c.graphs, r.cutoff = maxCutoff c.graphs) ∧
    ((∀ r ∈ c.graphs, r.cfg.slots.length ≤ r.cutoff) →
      ∀ r ∈ (temperingStep I c).1.graphs, r.cfg.slots.length = maxCutoff c.graphs) := by
  have h : ¬ c.graphs.length ≤ 1 := by omega
  have sp := stepBody_spec I (performSwaps I) (goodSwap_serial I) c
  unfold temperingStep
  rw [if_neg h]
  refine ⟨?_, fun r hr => le_maxCutoff hr, ?_, ?_⟩
  · intro r hr
    exact (sp.2.1 r hr).1
  · rcases maxCutoff_attained c.graphs 0 with h0 | ⟨r, hr, e⟩
    · obtain ⟨a, ha⟩ := List.exists_mem_of_length_pos (by omega : 0 < c.graphs.length)
      refine ⟨a, ha, ?_⟩
      have := le_maxCutoff ha
      unfold maxCutoff at this ⊢
      omega
    · exact ⟨r, hr, e.symm⟩
  · intro hlen r hr
    have hm : r.cfg ∈ (stepBody I (performSwaps I) c).1.graphs.map (·.cfg) := List.mem_map_of_mem hr
    rw [sp.2.2.1.mem_iff] at hm
    simp only [List.mem_map] at hm
    obtain ⟨r1, ⟨r0, hr0, rfl⟩, e⟩ := hm
    rw [← e]
    exact padTo_length _ _ (le_trans (hlen r0 hr0) (le_maxCutoff hr0))

/-- The same **without any assumption on the managers** (a manager may hold more slots than its
sampler's cutoff, e.g. after `get_manager_mut().set_cutoff(big)`): the cutoff FIELD of every replica
is the previous maximum of the cutoff fields — one cutoff for the whole ladder, never the private
length of some manager — and every string has at least that many slots. -/
theorem one_cutoff_after_step_any_managers {H : Type} (I : Iface H) (c : Container H)
    (hn : 2 ≤ c.graphs.length) :
    ∀ r ∈ (temperingStep I c).1.graphs,
      r.cutoff = maxCutoff c.graphs ∧ maxCutoff c.graphs ≤ r.cfg.slots.length := by
  have h : ¬ c.graphs.length ≤ 1 := by omega
  have sp := stepBody_spec I (performSwaps I) (goodSwap_serial I) c
  unfold temperingStep
  rw [if_neg h]
  exact sp.2.1

/-! ## 5. The counter counts exactly the accepted exchanges -/

/-- `total_swaps` grows by the number of accepted decisions of the step; every decision is the test
`u < p_swap` on the pair it saw. -/
theorem swap_counter_exact {H : Type} (I : Iface H) (c : Container H) :
    (temperingStep I c).1.totalSwaps = c.totalSwaps + countAccepted (temperingStep I c).2 := by
  unfold temperingStep
  by_cases h : c.graphs.length ≤ 1
  · simp [h, countAccepted]
  · rw [if_neg h]
    exact (stepBody_spec I (performSwaps I) (goodSwap_serial I) c).2.2.2

theorem decisions_are_threshold_tests {H : Type} (I : Iface H) (pos : Nat) (gs : List (Replica H))
    (eqs : List Bool) (s : RS) :
    ∀ d ∈ (performSwaps I pos gs eqs s).2.1, d.accepted = decide (d.u < d.p) :=
  performSwaps_decisions I pos gs eqs s

/-! ## 6. Even / odd phases attempt disjoint neighbour pairs, each pair once -/

/-- The decisions of a step, in order, are on the left indices `0,2,4,…` (phase a) and `1,3,5,…`
(phase b), in the order chosen by the `gen_bool(0.5)` draw — for odd and even ladder lengths. -/
theorem step_pairs {H : Type} (I : Iface H) (c : Container H) (hv : CacheValid I c)
    (hn : 2 ≤ c.graphs.length) :
    (temperingStep I c).2.map (·.left) =
      if (c.rng.genBool (1 / 2)).1 then phaseALefts c.graphs.length ++ phaseBLefts c.graphs.length
      else phaseBLefts c.graphs.length ++ phaseALefts c.graphs.length := by
  have h : ¬ c.graphs.length ≤ 1 := by omega
  unfold temperingStep stepBody
  rw [if_neg h]
  have := stepCore_lefts I c.totalSwaps (hamEqualities I c)
    (c.graphs.map (·.setCutoff (maxCutoff c.graphs))) (c.rng.genBool (1 / 2))
    (by simpa using hamEqualities_lens I c hv)
  simpa using this

/-- Arithmetic of the two phases on `n` replicas: every pair lies inside the ladder, two pairs of
one phase never share a replica, and every neighbour pair `(l, l+1)` is attempted in exactly one
phase (even `l` in phase a, odd `l` in phase b). -/
theorem pairs_disjoint (n : Nat) :
    (∀ l ∈ phaseALefts n, l + 1 < n ∧ l % 2 = 0) ∧
    (∀ l ∈ phaseBLefts n, l + 1 < n ∧ l % 2 = 1) ∧
    (∀ l ∈ phaseALefts n, ∀ l' ∈ phaseALefts n, l ≠ l' → l + 2 ≤ l' ∨ l' + 2 ≤ l) ∧
    (∀ l ∈ phaseBLefts n, ∀ l' ∈ phaseBLefts n, l ≠ l' → l + 2 ≤ l' ∨ l' + 2 ≤ l) ∧
    (∀ l, l + 1 < n → (l % 2 = 0 → l ∈ phaseALefts n) ∧ (l % 2 = 1 → l ∈ phaseBLefts n)) ∧
    (phaseALefts n).Nodup ∧ (phaseBLefts n).Nodup := by
  unfold phaseALefts phaseBLefts
  refine ⟨?_, ?_, ?_, ?_, ?_, ?_, ?_⟩
  · intro l hl; simp only [List.mem_map, List.mem_range] at hl; obtain ⟨k, hk, rfl⟩ := hl; omega
  · intro l hl; simp only [List.mem_map, List.mem_range] at hl; obtain ⟨k, hk, rfl⟩ := hl; omega
  · intro l hl l' hl' hne
    simp only [List.mem_map, List.mem_range] at hl hl'
    obtain ⟨k, _, rfl⟩ := hl; obtain ⟨k', _, rfl⟩ := hl'; omega
  · intro l hl l' hl' hne
    simp only [List.mem_map, List.mem_range] at hl hl'
    obtain ⟨k, _, rfl⟩ := hl; obtain ⟨k', _, rfl⟩ := hl'; omega
  · intro l hl
    constructor
    · intro he; simp only [List.mem_map, List.mem_range]; exact ⟨l / 2, by omega, by omega⟩
    · intro ho; simp only [List.mem_map, List.mem_range]; exact ⟨l / 2, by omega, by omega⟩
  · exact List.Nodup.map (fun a b (h : 0 + 2 * a = 0 + 2 * b) => by omega) List.nodup_range
  · exact List.Nodup.map (fun a b (h : 1 + 2 * a = 1 + 2 * b) => by omega) List.nodup_range

/-- Within a phase the pairs do not interfere: the number each decision compares with its draw is
`p_swap` of the two replicas that occupied its positions when the phase started (so
`swapProb_exact` applies to each of them), evaluated or skipped according to that pair's flag. -/
theorem phase_decisions_independent {H : Type} (I : Iface H) (pos : Nat) (gs : List (Replica H))
    (eqs : List Bool) (s : RS) :
    (performSwaps I pos gs eqs s).2.1.map (fun d => (d.p, d.evaluated)) = pairProbs I gs eqs :=
  performSwaps_probs I pos gs eqs s

/-! ## 7. The rayon routine that pre-draws the uniforms is the serial routine -/

/-- `parallel_perform_swaps` (all uniforms drawn first, then all decisions) returns the same
replicas, the same decisions and the same RNG state as `perform_swaps` (draw, decide, draw, …). -/
theorem swap_uniforms_pre_drawn {H : Type} (I : Iface H) (pos : Nat) (gs : List (Replica H))
    (eqs : List Bool) (s : RS) (h : eqs.length = gs.length / 2) :
    parallelPerformSwaps I pos gs eqs s = performSwaps I pos gs eqs s :=
  parallel_eq_serial I pos gs eqs s h

/-- Hence `parallel_tempering_step = tempering_step` for EVERY ladder (the one-replica ladder included since the
repair of finding F30: both steps return before drawing anything). -/
theorem parallel_step_eq_serial {H : Type} (I : Iface H) (c : Container H) (hv : CacheValid I c) :
    parallelTemperingStep I c = temperingStep I c := by
  unfold parallelTemperingStep temperingStep
  by_cases h1 : c.graphs.length ≤ 1
  · simp only [h1, if_true]
  · simp only [h1, if_false]
    unfold stepBody
    apply stepCore_parallel_eq
    simpa using hamEqualities_lens I c hv

/-- one replica: both steps do nothing and draw nothing (before the repair of F30 the rayon step consumed the
phase-order word and raised the replica's cutoff to itself) -/
theorem one_replica_steps {H : Type} (I : Iface H) (c : Container H) (r : Replica H)
    (hg : c.graphs = [r]) :
    temperingStep I c = (c, []) ∧ parallelTemperingStep I c = (c, []) := by
  unfold temperingStep parallelTemperingStep
  simp [hg]

/-- what the rayon step did with one replica BEFORE the repair of finding F30 (guard `is_empty()`): it ran the body,
i.e. consumed one word of the container RNG — the regression witness -/
theorem one_replica_old_guard_draws {H : Type} (I : Iface H) (c : Container H) (r : Replica H)
    (hg : c.graphs = [r]) :
    (stepBody I (parallelPerformSwaps I) c).1.rng = (c.rng.genBool (1 / 2)).2 ∧
    (stepBody I (parallelPerformSwaps I) c).2 = [] := by
  unfold stepBody stepCore
  simp [hg, phaseA, phaseB, firstSub, secondSub, firstLen, secondEnd, parallelPerformSwaps,
    performSwaps, drawUniforms, decideSwaps]

/-! ## 8. The cached Hamiltonian equalities stay valid -/

/-- `add_qmc_stepper` clears the cache; a step recomputes it when missing and otherwise keeps it;
because no Hamiltonian ever moves, a valid cache stays valid. -/
theorem cache_valid_after_step {H : Type} (I : Iface H) (c : Container H) (hv : CacheValid I c) :
    CacheValid I (temperingStep I c).1 := by
  unfold temperingStep
  by_cases h : c.graphs.length ≤ 1
  · simpa [h] using hv
  · rw [if_neg h]; exact cacheValid_step I c hv

theorem cache_valid_after_add {H : Type} (I : Iface H) (c c' : Container H) (r : Replica H)
    (h : addStepper I c r = some c') : CacheValid I c' := by
  unfold addStepper at h
  have : c'.eqA = none ∧ c'.eqB = none := by
    cases hl : c.graphs.getLast? with
    | none => rw [hl] at h; simp at h; subst h; exact ⟨rfl, rfl⟩
    | some g =>
      rw [hl] at h
      by_cases hc : I.canSwap g.ham r.ham = true
      · simp [hc] at h; subst h; exact ⟨rfl, rfl⟩
      · simp [hc] at h
  constructor
  · intro a ha; rw [this.1] at ha; cases ha
  · intro b hb; rw [this.2] at hb; cases hb

theorem cache_valid_after_parallel_step {H : Type} (I : Iface H) (c : Container H)
    (hv : CacheValid I c) : CacheValid I (parallelTemperingStep I c).1 := by
  unfold parallelTemperingStep
  split
  · exact hv
  · exact cacheValid_stepBody I _ (goodSwap_parallel I) c hv

/-- Every container a program can reach through the public API: `new`, `add_qmc_stepper` (when
accepted), `tempering_step`, `parallel_tempering_step`, and anything that changes configurations,
cutoffs or the container RNG but no position's frame (`timesteps`, `graph_mut`, `rng_mut`) — in
**any** order, in particular replicas added between tempering steps. -/
inductive Reachable {H : Type} (I : Iface H) : Container H → Prop
  | empty (s : RS) : Reachable I { graphs := [], rng := s, eqA := none, eqB := none, totalSwaps := 0 }
  | add {c c' : Container H} {r : Replica H} :
      Reachable I c → addStepper I c r = some c' → Reachable I c'
  | step {c : Container H} : Reachable I c → Reachable I (temperingStep I c).1
  | pstep {c : Container H} : Reachable I c → Reachable I (parallelTemperingStep I c).1
  | evolve {c : Container H} (gs' : List (Replica H)) (s : RS) :
      Reachable I c → gs'.map Replica.frame = c.graphs.map Replica.frame →
      Reachable I { c with graphs := gs', rng := s }

/-- On every reachable container the cached flags are exactly what `make_ham_equalities` would
compute for the *current* ladder (an add clears both caches, a step rebuilds both when either is
missing). -/
theorem reachable_cacheValid {H : Type} (I : Iface H) {c : Container H} (h : Reachable I c) :
    CacheValid I c := by
  induction h with
  | empty s => exact ⟨fun a ha => (by cases ha), fun b hb => (by cases hb)⟩
  | add _ hadd _ => exact cache_valid_after_add I _ _ _ hadd
  | step _ ih => exact cache_valid_after_step I _ ih
  | pstep _ ih => exact cache_valid_after_parallel_step I _ ih
  | evolve gs' s _ hf ih => exact cacheValid_evolve I _ gs' s hf ih

/-- **Every neighbour pair of the current ladder gets exactly one decision per step**, whatever
interleaving of adds and steps produced the ladder: the decisions of a step on a reachable
container with `n ≥ 2` replicas are on the lefts `0,2,4,…` and `1,3,5,…` (order by the draw), which
by `pairs_disjoint` is every `l` with `l + 1 < n` exactly once. -/
theorem step_pairs_reachable {H : Type} (I : Iface H) {c : Container H} (h : Reachable I c)
    (hn : 2 ≤ c.graphs.length) :
    (temperingStep I c).2.map (·.left) =
      if (c.rng.genBool (1 / 2)).1 then phaseALefts c.graphs.length ++ phaseBLefts c.graphs.length
      else phaseBLefts c.graphs.length ++ phaseALefts c.graphs.length :=
  step_pairs I c (reachable_cacheValid I h) hn

/-- … and the number of decisions is `n − 1` -/
theorem step_decision_count {H : Type} (I : Iface H) {c : Container H} (h : Reachable I c)
    (hn : 2 ≤ c.graphs.length) : (temperingStep I c).2.length = c.graphs.length - 1 := by
  have := congrArg List.length (step_pairs_reachable I h hn)
  simp only [List.length_map] at this
  rw [this]
  split <;> simp [phaseALefts, phaseBLefts] <;> omega

/-- on reachable ladders the rayon step is the serial step (every ladder length) -/
theorem parallel_step_eq_serial_reachable {H : Type} (I : Iface H) {c : Container H}
    (h : Reachable I c) :
    parallelTemperingStep I c = temperingStep I c :=
  parallel_step_eq_serial I c (reachable_cacheValid I h)

/-! ## 9. The edge-count check of `can_swap_managers` (finding F14, fixed) -/

/-- The rule before the fix (zip of the two edge lists, no length comparison) accepted graphs with
different numbers of edges; the current rule refuses them. -/
theorem old_canSwap_accepts_different_graphs :
    ∃ a b : IsingH, a.WF ∧ b.WF ∧ canSwapIsingOld a b = true ∧ canSwapIsing a b = false ∧
      a.edges.length ≠ b.edges.length := by
  refine ⟨{ edges := [([0, 1], 1), ([1, 2], 1)], gamma := 1, h := 0, nvars := 3 },
          { edges := [([0, 1], 1), ([1, 2], 1), ([0, 2], 1 / 2)], gamma := 1, h := 0, nvars := 3 },
          ?_, ?_, ?_, ?_, ?_⟩
  · simp [IsingH.WF, IsingH.nvarsOf]
  · simp [IsingH.WF, IsingH.nvarsOf]
  · simp [canSwapIsingOld, canSwapEdges, sgn]
  · simp [canSwapIsing]
  · simp

/-- with the check, acceptance implies equal edge counts and equal variable counts -/
theorem canSwap_same_shape (a b : IsingH) (ha : a.WF) (hb : b.WF) (h : canSwapIsing a b = true) :
    a.edges.length = b.edges.length ∧ a.nvars = b.nvars :=
  ⟨(swappable_of_canSwap ha hb h).len.symm, (swappable_of_canSwap ha hb h).nvars.symm⟩


/-! ## 10. Known finding F28: floating-point overflow of the temperature factor (witness pair) -/

namespace OverflowWitness
/-- the hot replica of the witness: beta = 5/2, the literal 26-operator string of the harness mode
`overflow-witness` -/
def hotSlots : Slots :=
   [none,
    none,
    none,
    some { vars := [2, 3], bond := 2, ins := [false, true], outs := [false, true], tagDiag := true, const := false },
    none,
    some { vars := [3], bond := 6, ins := [true], outs := [false], tagDiag := false, const := true },
    some { vars := [3], bond := 6, ins := [false], outs := [false], tagDiag := true, const := true },
    some { vars := [2], bond := 5, ins := [false], outs := [true], tagDiag := false, const := true },
    some { vars := [1, 2], bond := 1, ins := [false, true], outs := [false, true], tagDiag := true, const := false },
    some { vars := [0], bond := 3, ins := [true], outs := [true], tagDiag := true, const := true },
    some { vars := [2], bond := 5, ins := [true], outs := [true], tagDiag := true, const := true },
    some { vars := [0], bond := 3, ins := [true], outs := [true], tagDiag := true, const := true },
    some { vars := [0], bond := 7, ins := [true], outs := [true], tagDiag := true, const := false },
    none,
    some { vars := [0], bond := 7, ins := [true], outs := [true], tagDiag := true, const := false },
    some { vars := [2], bond := 5, ins := [true], outs := [true], tagDiag := true, const := true },
    some { vars := [0], bond := 7, ins := [true], outs := [true], tagDiag := true, const := false },
    none,
    some { vars := [1], bond := 4, ins := [false], outs := [false], tagDiag := true, const := true },
    none,
    none,
    some { vars := [1, 2], bond := 1, ins := [false, true], outs := [false, true], tagDiag := true, const := false },
    none,
    some { vars := [0], bond := 3, ins := [true], outs := [true], tagDiag := true, const := true },
    none,
    none,
    some { vars := [2, 3], bond := 2, ins := [true, false], outs := [true, false], tagDiag := true, const := false },
    some { vars := [3], bond := 6, ins := [false], outs := [true], tagDiag := false, const := true },
    some { vars := [2], bond := 9, ins := [true], outs := [true], tagDiag := true, const := false },
    some { vars := [1], bond := 4, ins := [false], outs := [false], tagDiag := true, const := true },
    some { vars := [1, 2], bond := 1, ins := [false, true], outs := [false, true], tagDiag := true, const := false },
    some { vars := [2], bond := 9, ins := [true], outs := [true], tagDiag := true, const := false },
    none,
    some { vars := [0], bond := 3, ins := [true], outs := [false], tagDiag := false, const := true },
    some { vars := [1], bond := 4, ins := [false], outs := [false], tagDiag := true, const := true },
    some { vars := [0], bond := 3, ins := [false], outs := [true], tagDiag := false, const := true },
    some { vars := [1, 2], bond := 1, ins := [false, true], outs := [false, true], tagDiag := true, const := false },
    some { vars := [2], bond := 5, ins := [true], outs := [false], tagDiag := false, const := true },
    none,
    none]
def Hhot : IsingH := { edges := [([0, 1], 3 / 2), ([1, 2], 1), ([2, 3], 3 / 4)], gamma := 5 / 4, h := 3 / 4, nvars := 4 }
/-- the same Hamiltonian in another energy unit: every coupling times 2^-45 -/
def Hcold : IsingH :=
  { edges := [([0, 1], 3 / 2 / 2 ^ 45), ([1, 2], 1 / 2 ^ 45), ([2, 3], 3 / 4 / 2 ^ 45)],
    gamma := 5 / 4 / 2 ^ 45, h := 3 / 4 / 2 ^ 45, nvars := 4 }
def hot : Replica IsingH :=
  { ham := Hhot, beta := 5 / 2, offset := 0, rng := 0, bw := 0, cutoff := 40,
    cfg := { state := [true, false, false, true], slots := hotSlots } }
/-- a freshly added replica: no operators, beta = 2^51 (beta * J comparable with the hot replica's) -/
def cold : Replica IsingH :=
  { ham := Hcold, beta := 2 ^ 51, offset := 0, rng := 0, bw := 0, cutoff := 40,
    cfg := { state := [false, true, false, true], slots := List.replicate 40 none } }
end OverflowWitness

/-- **Known finding F28 (model side).** For the witness pair — a freshly added replica at beta = 2^51 whose
Hamiltonian is the hot replica's in another energy unit (couplings x 2^-45), next to the hot replica
(beta = 5/2, 26 operators) — the exact number `swap_on_chunks` should compare with its uniform draw is
at least 1: the exchange must always be accepted. (In binary64 the temperature factor
`(2^51 / (5/2))^26` is `+inf` and the product of coupling ratios `(2^-45)^26` underflows to 0;
`inf * 0 = NaN` is never accepted: the real code exchanges this pair with probability 0 — harness mode
`swap-overflow-witness`.) The container accepts the pair and the Hamiltonians are not `ham_eq`. -/
theorem swap_overflow_witness :
    1 ≤ pSwap isingIface OverflowWitness.cold OverflowWitness.hot true ∧
    canSwapIsing OverflowWitness.cold.ham OverflowWitness.hot.ham = true ∧
    hamEqIsing OverflowWitness.cold.ham OverflowWitness.hot.ham = false ∧
    countOps OverflowWitness.hot.cfg.slots = 26 := by
  decide +kernel

/-! ## Non-vacuity: the hypotheses of `swapProb_exact` hold for a concrete non-trivial pair -/

namespace Witness
def Ha : IsingH := { edges := [([0, 1], 1)], gamma := 1, h := 0, nvars := 2 }
def Hb : IsingH := { edges := [([0, 1], 2)], gamma := 1 / 2, h := 0, nvars := 2 }
/-- a transverse op on spin 0 -/
def t0 : Op := { vars := [0], bond := 1, ins := [false], outs := [false], tagDiag := true, const := true }
/-- a bond op on the anti-aligned pair (weight 2|J| for J > 0) -/
def b01 : Op := { vars := [0, 1], bond := 0, ins := [false, true], outs := [false, true], tagDiag := true, const := false }
def ra : Replica IsingH :=
  { ham := Ha, beta := 1, offset := 3, rng := 11, bw := 0, cutoff := 3,
    cfg := { state := [false, true], slots := [some t0, none, some b01] } }
def rb : Replica IsingH :=
  { ham := Hb, beta := 2, offset := 3, rng := 12, bw := 0, cutoff := 3,
    cfg := { state := [false, true], slots := [none, some b01, none] } }

theorem legal_a : LegalIsing ra.ham ra.cfg.slots := by
  intro o ho
  simp only [ra, List.mem_cons, Option.some.injEq, List.mem_nil_iff, or_false, reduceCtorEq,
    false_or] at ho
  rcases ho with rfl | rfl
  · exact ⟨lt_of_lt_of_le (by simp [IsingH.nedges, ra, Ha, t0]) (numBonds_ge _), by
      norm_num [IsingH.wOp, IsingH.w, IsingH.nedges, ra, Ha, t0]⟩
  · exact ⟨lt_of_lt_of_le (by simp [IsingH.nedges, ra, Ha, b01]) (numBonds_ge _), by
      norm_num [IsingH.wOp, IsingH.w, IsingH.nedges, IsingH.J, ra, Ha, b01, twoSite, absR]⟩

theorem legal_b : LegalIsing rb.ham rb.cfg.slots := by
  intro o ho
  simp only [rb, List.mem_cons, Option.some.injEq, List.mem_nil_iff, or_false, reduceCtorEq,
    false_or] at ho
  subst ho
  exact ⟨lt_of_lt_of_le (by simp [IsingH.nedges, rb, Hb, b01]) (numBonds_ge _), by
    norm_num [IsingH.wOp, IsingH.w, IsingH.nedges, IsingH.J, rb, Hb, b01, twoSite, absR]⟩

theorem can : canSwapIsing ra.ham rb.ham = true := by
  norm_num [canSwapIsing, canSwapEdges, sgn, ra, rb, Ha, Hb]

/-- all hypotheses of `swapProb_exact` are satisfied by this pair (non-equal Hamiltonians,
non-empty strings, different β) -/
example (u : Rat) :
    pSwap isingIface ra rb true = metropolisRatio ra rb ∧
    ((swapOnChunks isingIface ra rb u true).2.2 = true ↔ u < metropolisRatio ra rb) :=
  swapProb_exact ra rb (by simp [IsingH.WF, IsingH.nvarsOf, ra, Ha]) (by simp [IsingH.WF, IsingH.nvarsOf, rb, Hb])
    can rfl (by simp [ra]) (by simp [rb]) legal_a legal_b false (by simp) u

end Witness

end Qmc.C10
