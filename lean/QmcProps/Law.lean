import QmcProofs.LawSweep
import QmcProofs.LawRefresh
import QmcProofs.LawRand
import QmcProofs.LawHeatBath
import QmcProofs.LawGood

/-!
# Law — the law of the executable model IS the kernel of `KernelInvariance`

Headline theorems only (helpers: `QmcModel/ProbTree.lean`, `QmcProofs/Law{Tree,Rand,Slot,Sweep,Refresh,HeatBath,Good}.lean`;
notes: `design_notes/Law.md`).  Closes items 1 and 3 of "Assumed rather than derived" of
`design_notes/KernelInvariance.md` for the Metropolis diagonal update and the free-spin refresh.

Three layers, each a theorem:

1. **refinement** (`*_run`): the script-driven model function equals, on *every* script, the run of its
   tree twin — the same function with each RNG call reified as a tree node that calls the same `RS`
   primitive.  Equality of the result *and* of the whole RNG state (flags, margin, draw count).
2. **idealisation** (`flip_weight_counting`, `flip_weight_frequency`): a `flip p` node has weight `p`; under a
   uniform 64-bit word `gen_bool(p)` is `true` on exactly `⌊p·2^64⌋` words.
3. **law = kernel** (`*_law_eq_kernel`) and the corollary **the idealised law of the executable model
   leaves the SSE weight invariant** (`metropolisSweep_law_invariant`).
-/

namespace Qmc.LawThm
open Qmc Qmc.Law Qmc.Kernel Qmc.Dist

/-! ### 1. refinement: model function = run of its tree, on every script -/

/-- one Metropolis slot visit -/
theorem metropolisSlot_run (H : Ham) (β : Rat) (L : Nat) (slot : Option Op) (st : List Bool) (n : Nat)
    (rs : RS) :
    metropolisSlot H β L slot st n rs =
      ((metropolisSlotT H β L slot st n).run rs).1.withRS ((metropolisSlotT H β L slot st n).run rs).2 :=
  metropolisSlot_refines H β L slot st n rs

/-- the whole Metropolis sweep (`make_diagonal_update_with_rng_and_state_ref`), any cutoff -/
theorem metropolisSweep_run (H : Ham) (β : Rat) (cutoff : Nat) (c : Config) (rs : RS) :
    metropolisSweep H β cutoff c rs = (metropolisSweepT H β cutoff c).run rs :=
  metropolisSweep_refines H β cutoff c rs

/-- one heat-bath slot visit (attempt `flip`; `Draw.hbPick` = the two `gen_range`, cumulative search,
rejection test; removal `flip`) -/
theorem heatBathSlot_run (H : Ham) (bw : BW) (β : Rat) (L : Nat) (slot : Option Op) (st : List Bool)
    (n : Nat) (rs : RS) :
    heatBathSlot H bw β L slot st n rs =
      ((heatBathSlotT H bw β L slot st n).run rs).1.withRS ((heatBathSlotT H bw β L slot st n).run rs).2 :=
  heatBathSlot_refines H bw β L slot st n rs

/-- the whole heat-bath sweep (`make_heatbath_diagonal_update_with_rng_and_state_ref`), any cutoff -/
theorem heatBathSweep_run (H : Ham) (bw : BW) (β : Rat) (cutoff : Nat) (c : Config) (rs : RS) :
    heatBathSweep H bw β cutoff c rs = (heatBathSweepT H bw β cutoff c).run rs :=
  heatBathSweep_refines H bw β cutoff c rs

/-- the free-spin refresh (tail of `timestep`, `flip_free_bits`) -/
theorem freeRefresh_run (c : Config) (rs : RS) : Sampler.freeRefresh c rs = (freeRefreshT c).run rs :=
  freeRefresh_refines c rs

/-- what the nodes do on a script: `flip p` *is* `gen_bool(p)` (no draw for `p = 1`, panic for
`p ∉ [0,1]`), `pick n` *is* `gen_range(0..n)` -/
theorem flip_run {α : Type} (p : Rat) (y n : PT α) (rs : RS) :
    (PT.flip p y n).run rs = if (rs.genBool p).1 then y.run (rs.genBool p).2 else n.run (rs.genBool p).2 :=
  PT.run_flip p y n rs

theorem pick_run {α : Type} (n : Nat) (k : Nat → PT α) (rs : RS) :
    (PT.pick n k).run rs = (k (rs.genRange n).1).run (rs.genRange n).2 :=
  PT.run_pick n k rs

/-! ### 2. the idealisation step -/

/-- `flip p` has weight `p` on `yes` and `1 − p` on `no` … -/
theorem flip_law {α : Type} [DecidableEq α] {p : Rat} (h0 : 0 ≤ p) (h1 : p ≤ 1) (y n : PT α) (x : α) :
    (PT.flip p y n).law x = p * y.law x + (1 - p) * n.law x :=
  PT.law_flip h0 h1 y n x

/-- … whereas of the `2^64` equally likely words exactly `⌊p·2^64⌋` make `gen_bool(p)` answer `true` -/
theorem flip_weight_counting (p : Rat) (h0 : 0 ≤ p) (h1 : p < 1) :
    ((Finset.range RS.two64).filter (fun u => ((RS.ofScript [u]).genBool p).1 = true)).card =
      ⌊p * ((RS.two64 : Nat) : Rat)⌋.toNat :=
  genBool_count p h0 h1

/-- so the exact frequency is within `2^-64` below `p` (and equal to `p` for the fair coins) -/
theorem flip_weight_frequency (p : Rat) (h0 : 0 ≤ p) (h1 : p < 1) :
    p - 1 / ((RS.two64 : Nat) : Rat) <
      (((Finset.range RS.two64).filter (fun u => ((RS.ofScript [u]).genBool p).1 = true)).card : Rat) /
        ((RS.two64 : Nat) : Rat) ∧
    (((Finset.range RS.two64).filter (fun u => ((RS.ofScript [u]).genBool p).1 = true)).card : Rat) /
        ((RS.two64 : Nat) : Rat) ≤ p :=
  genBool_frequency p h0 h1

theorem fair_coin_exact :
    (((Finset.range RS.two64).filter (fun u => ((RS.ofScript [u]).genBool (1 / 2)).1 = true)).card : Rat) /
        ((RS.two64 : Nat) : Rat) = 1 / 2 :=
  genBool_half_count

/-- **law of a sequential program = composition of the laws** (`Dist.comp`) -/
theorem law_of_bind {α : Type} [DecidableEq α] (S : Finset α) (T₁ T₂ : α → PT α)
    (h : ∀ a ∈ S, PT.All (fun b => b ∈ S) (T₁ a)) :
    lawK S (fun a => PT.bind (T₁ a) T₂) = comp (lawK S T₁) (lawK S T₂) :=
  lawK_bind S T₁ T₂ h

/-! ### 3. law = kernel -/

/-- **one slot, Metropolis.**  On a configuration legal at slot `p` (`SlotLegal`: bond variables in range,
a diagonal-tagged operator at `p` is the canonical one of a bond of `H`), the idealised law of the model's
visit of slot `p` — cutoff `c.slots.length`, rolling state `stateAt c p`, current count — transported
along `result ↦ setSlot c p result.slot`, is the row of the slot kernel `slotKM H β p` at `c`. -/
theorem metropolisSlot_law_eq_kernel (H : Ham) (β : Rat) (hβ : 0 ≤ β) (hw : ∀ b i, 0 ≤ H.w b i i)
    (hNb : 0 < H.nbonds) (c : Config) (p : Nat) (s : Option Op) (hs : c.slots[p]? = some s)
    (hleg : SlotLegal H c p) (c' : Config) :
    PT.law (PT.map (fun r : SlotOut => setSlot c p r.slot)
      (metropolisSlotT H β c.slots.length s (Kernel.stateAt c p) (countOps c.slots))) c' = slotKM H β p c c' :=
  law_metropolisSlot H β hβ hw hNb c p s hs hleg c'

/-- **the whole Metropolis sweep.**  On every finite set `S` of legal configurations (`DiagLegal`) with
`L` slots that the diagonal proposals do not leave except with probability 0 (`SlotClosed`), the idealised
law of the executable sweep is the kernel `sweepKM H β S L` (the composition of the slot kernels). -/
theorem metropolisSweep_law_eq_kernel (H : Ham) (β : Rat) (hβ : 0 ≤ β) (hw : ∀ b i, 0 ≤ H.w b i i)
    (hNb : 0 < H.nbonds) (S : Finset Config) (L : Nat) (hcl : SlotClosed H S)
    (hleg : ∀ c ∈ S, DiagLegal H c ∧ c.slots.length = L) :
    lawK S (metropolisSweepT H β L) = sweepKM H β S L :=
  law_metropolisSweep H β hβ hw hNb S L hcl hleg

/-- … in particular on `legalSpace H N L`, the legal configurations of `cfgSpace H N L` (closed under the
diagonal proposals for every `H`, `N`, `L`: `legalSpace_slotFlip`) -/
theorem metropolisSweep_law_eq_kernel_legalSpace (H : Ham) (β : Rat) (hβ : 0 ≤ β)
    (hw : ∀ b i, 0 ≤ H.w b i i) (hNb : 0 < H.nbonds) (N L : Nat) :
    lawK (legalSpace H N L) (metropolisSweepT H β L) = sweepKM H β (legalSpace H N L) L :=
  law_metropolisSweep H β hβ hw hNb _ L (legalSpace_slotClosed H N L) (legalSpace_legal H N L)

/-- **COROLLARY: the idealised law of the executable Metropolis sweep leaves the SSE weight invariant** —
`Σ_{c ∈ S} W(c) · P[sweep(c) = c'] = W(c')` on the legal configurations; nothing between the model function
and the statement is "defined from the probability functions". -/
theorem metropolisSweep_law_invariant (H : Ham) (β : Rat) (hβ : 0 < β) (hw : ∀ b i, 0 ≤ H.w b i i)
    (hNb : 0 < H.nbonds) (N L : Nat) :
    Invariant (sseOn H β (legalSpace H N L)) (lawK (legalSpace H N L) (metropolisSweepT H β L)) :=
  Qmc.Law.metropolisSweep_law_invariant H β hβ hw hNb N L

/-- the same written as a sum -/
theorem metropolisSweep_law_invariant_sum (H : Ham) (β : Rat) (hβ : 0 < β) (hw : ∀ b i, 0 ≤ H.w b i i)
    (hNb : 0 < H.nbonds) (N L : Nat) (c' : Config) (hc' : c' ∈ legalSpace H N L) :
    ∑ c ∈ legalSpace H N L, configWeight H β c * PT.law (metropolisSweepT H β L c) c' = configWeight H β c' := by
  have := Qmc.Law.metropolisSweep_law_invariant H β hβ hw hNb N L ⟨c', hc'⟩
  rw [← Finset.sum_coe_sort (legalSpace H N L)
    (fun c => configWeight H β c * PT.law (metropolisSweepT H β L c) c')]
  exact this

/-- on every closed set of legal configurations -/
theorem metropolisSweep_law_invariant_on (H : Ham) (β : Rat) (hβ : 0 < β) (hw : ∀ b i, 0 ≤ H.w b i i)
    (hNb : 0 < H.nbonds) (S : Finset Config) (L : Nat) (hcl : SlotClosed H S)
    (hleg : ∀ c ∈ S, DiagLegal H c ∧ c.slots.length = L) :
    Invariant (sseOn H β S) (lawK S (metropolisSweepT H β L)) :=
  Qmc.Law.metropolisSweep_law_invariant_on H β hβ hw hNb S L hcl hleg

/-- from a legal configuration no idealised mass is lost to a panic and none leaves the legal
configurations: the rows of the law sum to 1 -/
theorem metropolisSweep_law_rowSum (H : Ham) (β : Rat) (hβ : 0 ≤ β) (hw : ∀ b i, 0 ≤ H.w b i i)
    (hNb : 0 < H.nbonds) (N L : Nat) :
    RowSum (lawK (legalSpace H N L) (metropolisSweepT H β L)) :=
  Qmc.Law.metropolisSweep_law_rowSum H β hβ hw hNb N L

/-- **free-spin refresh.**  For every configuration the idealised law of the refresh is `refreshK`. -/
theorem freeRefresh_law_eq_kernel (c c' : Config) :
    PT.law (freeRefreshT c) c' = refreshK c.state.length c c' :=
  law_freeRefresh c c'

/-! ### heat bath -/

/-- **one slot, heat bath**, for a valid table (`0 < bw.sum`, every entry dominates the bond's diagonal
weights, one entry per bond): law of the visit = row of `slotKHB`.  The weights of the `hbPick` node are
the idealised continuous-uniform values `bw[b]/W` and `w_b/bw[b]`. -/
theorem heatBathSlot_law_eq_kernel (H : Ham) (bw : BW) (β : Rat) (hβ : 0 ≤ β) (hW : 0 < bw.sum)
    (hw : ∀ b i, 0 ≤ H.w b i i)
    (htab : ∀ b, b < bw.length → ∀ st : List Bool,
      H.w b (readVars st (H.vars b)) (readVars st (H.vars b)) ≤ bw.getD b 0)
    (hlen : bw.length = H.nbonds)
    (c : Config) (p : Nat) (s : Option Op) (hs : c.slots[p]? = some s) (hleg : SlotLegal H c p)
    (c' : Config) :
    PT.law (PT.map (fun r : SlotOut => setSlot c p r.slot)
      (heatBathSlotT H bw β c.slots.length s (Kernel.stateAt c p) (countOps c.slots))) c' =
        slotKHB H bw β p c c' :=
  law_heatBathSlot H bw β hβ hW hw htab hlen c p s hs hleg c'

/-- **the whole heat-bath sweep**: law = `sweepKHB` -/
theorem heatBathSweep_law_eq_kernel (H : Ham) (bw : BW) (β : Rat) (hβ : 0 ≤ β) (hW : 0 < bw.sum)
    (hw : ∀ b i, 0 ≤ H.w b i i)
    (htab : ∀ b, b < bw.length → ∀ st : List Bool,
      H.w b (readVars st (H.vars b)) (readVars st (H.vars b)) ≤ bw.getD b 0)
    (hlen : bw.length = H.nbonds) (S : Finset Config) (L : Nat) (hcl : SlotClosed H S)
    (hleg : ∀ c ∈ S, DiagLegal H c ∧ c.slots.length = L) :
    lawK S (heatBathSweepT H bw β L) = sweepKHB H bw β S L :=
  law_heatBathSweep H bw β hβ hW hw htab hlen S L hcl hleg

/-- **the idealised law of the executable heat-bath sweep (table `makeBondWeights H`) leaves the SSE
weight invariant** on the legal configurations -/
theorem heatBathSweep_law_invariant (H : Ham) (β : Rat) (hβ : 0 < β) (hW : 0 < (makeBondWeights H).sum)
    (hw : ∀ b i, 0 ≤ H.w b i i) (N L : Nat) :
    Invariant (sseOn H β (legalSpace H N L))
      (lawK (legalSpace H N L) (heatBathSweepT H (makeBondWeights H) β L)) :=
  Qmc.Law.heatBathSweep_law_invariant H β hβ hW hw N L

theorem heatBathSweep_law_rowSum (H : Ham) (β : Rat) (hβ : 0 ≤ β) (hW : 0 < (makeBondWeights H).sum)
    (hw : ∀ b i, 0 ≤ H.w b i i) (N L : Nat) :
    RowSum (lawK (legalSpace H N L) (heatBathSweepT H (makeBondWeights H) β L)) :=
  Qmc.Law.heatBathSweep_law_rowSum H β hβ hW hw N L

/-! ### on the support of the SSE measure (`Good = Consistent ∧ Legal`, QmcProofs/Good.lean) -/

/-- the legality needed for law = kernel holds on the support of the measure -/
theorem good_is_diagLegal {H : Ham} {N : Nat} {c : Config} (hH : HamWF H N) (hg : GoodN H N c) :
    DiagLegal H c :=
  good_diagLegal hH hg

/-- law = kernel on the Good configurations of `cfgSpace H N L` -/
theorem metropolisSweep_law_eq_kernel_good (H : Ham) (β : Rat) (hβ : 0 ≤ β) (hw : ∀ b i, 0 ≤ H.w b i i)
    (hNb : 0 < H.nbonds) (N L : Nat) (hH : HamWF H N) :
    lawK (goodSpace H N L) (metropolisSweepT H β L) = sweepKM H β (goodSpace H N L) L :=
  law_metropolisSweep_good H β hβ hw hNb N L hH

/-- **the idealised law of the executable Metropolis sweep leaves the true SSE measure
`configWeight · 1_{Consistent ∧ Legal}` invariant on the whole configuration space** — the statement of
`Kernel.sweep_invariant_cut` with the law of the executable model in place of `sweepKM` -/
theorem metropolisSweep_law_invariant_cut (H : Ham) (β : Rat) (hβ : 0 < β) (hw : ∀ b i, 0 ≤ H.w b i i)
    (hNb : 0 < H.nbonds) (N L : Nat) (hH : HamWF H N) :
    Invariant (sseCutOn H β (cfgSpace H N L)) (lawK (cfgSpace H N L) (metropolisSweepT H β L)) :=
  Qmc.Law.metropolisSweep_law_invariant_cut H β hβ hw hNb N L hH

/-- … and the heat-bath sweep -/
theorem heatBathSweep_law_invariant_cut (H : Ham) (β : Rat) (hβ : 0 < β)
    (hW : 0 < (makeBondWeights H).sum) (hw : ∀ b i, 0 ≤ H.w b i i) (N L : Nat) (hH : HamWF H N) :
    Invariant (sseCutOn H β (cfgSpace H N L))
      (lawK (cfgSpace H N L) (heatBathSweepT H (makeBondWeights H) β L)) :=
  Qmc.Law.heatBathSweep_law_invariant_cut H β hβ hW hw N L hH

/-! ### non-vacuity: H = isingClusterHam [([0,1],1)] (1/2) (1/4) 3, β = 3/2, C09's `exB` -/

namespace Example
open Qmc.Kernel.Example (H H_nonneg)

theorem exB_legal : DiagLegal H Qmc.C09.exB := by decide

theorem H_nbonds : 0 < H.nbonds := by decide

/-- the space of legal configurations is not empty -/
theorem exB_mem_legal : Qmc.C09.exB ∈ legalSpace H 3 5 :=
  mem_legalSpace.mpr ⟨Qmc.Kernel.Example.exB_mem, exB_legal⟩

/-- legality is a real restriction: relabelling the bond of the diagonal operator of `exB` gives a
configuration of `cfgSpace` that is not legal -/
example : ¬ DiagLegal H ⟨[false, false, true], [some ⟨[0, 1], 0, [true, false], [true, false], true, false⟩]⟩ := by
  decide

/-- the law of the visit of the empty slot 3 of `exB` puts mass `1/7` (uniform choice among the 7 bonds,
acceptance clipped to 1, no second draw) on "insert the transverse-field operator of spin 0" -/
example : PT.law (PT.map (fun r : SlotOut => setSlot Qmc.C09.exB 3 r.slot)
      (metropolisSlotT H (3 / 2) 5 none (Kernel.stateAt Qmc.C09.exB 3) 4))
    (setSlot Qmc.C09.exB 3 (some (canonOp H Qmc.C09.exB 3 1))) = 1 / 7 := by
  have h := metropolisSlot_law_eq_kernel H (3 / 2) (by norm_num) H_nonneg H_nbonds Qmc.C09.exB 3 none
    (by decide) (exB_legal.slotLegal 3) (setSlot Qmc.C09.exB 3 (some (canonOp H Qmc.C09.exB 3 1)))
  have hl : Qmc.C09.exB.slots.length = 5 := rfl
  have hn : countOps Qmc.C09.exB.slots = 4 := by decide
  rw [hl, hn] at h
  rw [h]
  have := slotKM_insert_entry H (3 / 2) 3 ⟨1, by decide⟩ Qmc.C09.exB (by decide)
    (fun b' e => Fin.ext (canonOp_inj e))
  rw [this, hl, hn]
  have hw : curW H Qmc.C09.exB 3 1 = 1 / 2 := by
    simp [curW, H, isingClusterHam, transverseW]
  have hNb : H.nbonds = 7 := by decide
  simp only [hw, hNb]
  unfold pInsertM accInsM clipProb
  norm_num

example : lawK (legalSpace H 3 5) (metropolisSweepT H (3 / 2) 5) = sweepKM H (3 / 2) (legalSpace H 3 5) 5 :=
  metropolisSweep_law_eq_kernel_legalSpace H _ (by norm_num) H_nonneg H_nbonds 3 5

example : Invariant (sseOn H (3 / 2) (legalSpace H 3 5))
    (lawK (legalSpace H 3 5) (metropolisSweepT H (3 / 2) 5)) :=
  metropolisSweep_law_invariant H _ (by norm_num) H_nonneg H_nbonds 3 5

example : ∑ c ∈ legalSpace H 3 5, configWeight H (3 / 2) c * PT.law (metropolisSweepT H (3 / 2) 5 c) Qmc.C09.exB =
    configWeight H (3 / 2) Qmc.C09.exB :=
  metropolisSweep_law_invariant_sum H _ (by norm_num) H_nonneg H_nbonds 3 5 _ exB_mem_legal

/-- heat bath: the table the code builds for `H` is valid (`Kernel.Example.H_table`) -/
example : Invariant (sseOn H (3 / 2) (legalSpace H 3 5))
    (lawK (legalSpace H 3 5) (heatBathSweepT H (makeBondWeights H) (3 / 2) 5)) :=
  heatBathSweep_law_invariant H _ (by norm_num) Qmc.Kernel.Example.H_table H_nonneg 3 5

theorem H_wf : HamWF H 3 := Qmc.Kernel.ising_varsOK _ _ _ _ Qmc.Kernel.Example.H_edges

example : Invariant (sseCutOn H (3 / 2) (cfgSpace H 3 5))
    (lawK (cfgSpace H 3 5) (metropolisSweepT H (3 / 2) 5)) :=
  metropolisSweep_law_invariant_cut H _ (by norm_num) H_nonneg H_nbonds 3 5 H_wf

example : Invariant (sseCutOn H (3 / 2) (cfgSpace H 3 5))
    (lawK (cfgSpace H 3 5) (heatBathSweepT H (makeBondWeights H) (3 / 2) 5)) :=
  heatBathSweep_law_invariant_cut H _ (by norm_num) Qmc.Kernel.Example.H_table H_nonneg 3 5 H_wf

example (c' : Config) : PT.law (freeRefreshT Qmc.C09.exB) c' = refreshK 3 Qmc.C09.exB c' :=
  freeRefresh_law_eq_kernel Qmc.C09.exB c'

/-- the refresh of `exB` (spin 2 is idle) lands on the configuration with spin 2 reset to `false` with
probability exactly ½ -/
example : PT.law (freeRefreshT Qmc.C09.exB) { Qmc.C09.exB with state := [false, false, false] } = 1 / 2 := by
  simp only [freeRefreshT, refreshAuxT, Qmc.C09.exB, Sampler.hasOps, Sampler.slotVars, Qmc.C09.sx, Qmc.C09.bd]
  simp
  rw [PT.law_flip (by norm_num) (by norm_num)]
  simp
  norm_num

end Example

end Qmc.LawThm
