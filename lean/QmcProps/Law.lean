import QmcProofs.LawSweep
import QmcProofs.LawRefresh
import QmcProofs.LawRand
import QmcProofs.LawHeatBath
import QmcProofs.LawGood
import QmcProofs.LawCluster
import QmcProofs.LawTimestep
import QmcProofs.LawTravOK
import QmcProofs.LawTravPerm
import QmcProofs.LawRandF

/-!
# Law — the law of the executable model IS the kernel of `KernelInvariance`

Headline theorems only (helpers: `QmcModel/ProbTree.lean`, `QmcProofs/Law{Tree,Rand,Slot,Sweep,Refresh,HeatBath,Good,Cluster,Timestep}.lean`;
notes: `design_notes/Law.md`).  Closes items 1 and 3 of "Assumed rather than derived" of
`design_notes/KernelInvariance.md` for the Metropolis diagonal update and the free-spin refresh.

Three layers, each a theorem:

1. **refinement** (`*_run`): the script-driven model function equals, on *every* script, the run of its
   tree twin — the same function with each RNG call reified as a tree node that calls the same `RS`
   primitive.  Equality of the result *and* of the whole RNG state (flags, margin, draw count).
2. **idealisation** (`flip_weight_counting`, `flip_weight_frequency`, `pick_weight_counting`): a `flip p` node has
   weight `p`; under a uniform 64-bit word `gen_bool(p)` is `true` on exactly `⌊p·2^64⌋` words; `pick n` has
   weight `1/n`; every outcome of `gen_range(0..n)` has exactly `2^lz` accepted words.
3. **law = kernel** (`*_law_eq_kernel`) and the corollary **the idealised law of the executable model
   leaves the SSE weight invariant** (`metropolisSweep_law_invariant`).
-/

namespace Qmc.LawThm
open Qmc Qmc.Law Qmc.Kernel Qmc.Dist

/-! ### 1. refinement: model function = run of its tree, on every script -/

/-- one Metropolis slot visit -/
theorem metropolisSlot_run (H : Ham) (β : Rat) (L : Nat) (slot : Option Op) (st : List Bool) (n : Nat)
    (rs : RS) :
    metropolisSlot H β L slot st n rs =
      ((metropolisSlotT H β L slot st n).run rs).1.withRS ((metropolisSlotT H β L slot st n).run rs).2 :=
  metropolisSlot_refines H β L slot st n rs

/-- the whole Metropolis sweep (`make_diagonal_update_with_rng_and_state_ref`), any cutoff -/
theorem metropolisSweep_run (H : Ham) (β : Rat) (cutoff : Nat) (c : Config) (rs : RS) :
    metropolisSweep H β cutoff c rs = (metropolisSweepT H β cutoff c).run rs :=
  metropolisSweep_refines H β cutoff c rs

/-- one heat-bath slot visit (attempt `flip`; `Draw.hbPick` = the two `gen_range`, cumulative search,
rejection test; removal `flip`) -/
theorem heatBathSlot_run (H : Ham) (bw : BW) (β : Rat) (L : Nat) (slot : Option Op) (st : List Bool)
    (n : Nat) (rs : RS) :
    heatBathSlot H bw β L slot st n rs =
      ((heatBathSlotT H bw β L slot st n).run rs).1.withRS ((heatBathSlotT H bw β L slot st n).run rs).2 :=
  heatBathSlot_refines H bw β L slot st n rs

/-- the whole heat-bath sweep (`make_heatbath_diagonal_update_with_rng_and_state_ref`), any cutoff -/
theorem heatBathSweep_run (H : Ham) (bw : BW) (β : Rat) (cutoff : Nat) (c : Config) (rs : RS) :
    heatBathSweep H bw β cutoff c rs = (heatBathSweepT H bw β cutoff c).run rs :=
  heatBathSweep_refines H bw β cutoff c rs

/-- the cluster update (`flip_each_cluster_rng`): one `flip (c_k · prob)` per cluster in traversal order -/
theorem clusterUpdate_run (prob : Rat) (fr : SkOp → Bool) (c : Config) (rs : RS) :
    clusterUpdate prob fr c rs =
      (((clusterUpdateT prob fr c).run rs).1, (traverse (skeleton c.slots)).count,
        ((clusterUpdateT prob fr c).run rs).2) :=
  clusterUpdate_refines prob fr c rs

/-- **one whole `timestep`** of the executable model (`Sampler.isingTimestep` = `QmcIsingGraph::timestep`,
RVB off): diagonal update ; cluster update ; refresh ; cutoff rule -/
theorem isingTimestep_run (s : Sampler.IsingSampler) (β : Rat) (rs : RS) :
    Sampler.isingTimestep s β rs = (isingTimestepT s β).run rs :=
  isingTimestep_refines s β rs

/-- its configuration part is `stepCfgT` = sweep ; cluster update ; refresh -/
theorem isingTimestep_cfg (s : Sampler.IsingSampler) (β : Rat) :
    PT.map Sampler.IsingSampler.cfg (isingTimestepT s β) =
      stepCfgT s.spec.ham s.table s.frozenBond β s.cutoff s.cfg :=
  isingTimestepT_cfg s β

/-- the free-spin refresh (tail of `timestep`, `flip_free_bits`) -/
theorem freeRefresh_run (c : Config) (rs : RS) : Sampler.freeRefresh c rs = (freeRefreshT c).run rs :=
  freeRefresh_refines c rs

/-- what the nodes do on a script: `flip p` *is* `gen_bool(p)` (no draw for `p = 1`, panic for
`p ∉ [0,1]`), `pick n` *is* `gen_range(0..n)` -/
theorem flip_run {α : Type} (p : Rat) (y n : PT α) (rs : RS) :
    (PT.flip p y n).run rs = if (rs.genBool p).1 then y.run (rs.genBool p).2 else n.run (rs.genBool p).2 :=
  PT.run_flip p y n rs

theorem pick_run {α : Type} (n : Nat) (k : Nat → PT α) (rs : RS) :
    (PT.pick n k).run rs = (k (rs.genRange n).1).run (rs.genRange n).2 :=
  PT.run_pick n k rs

/-! ### 2. the idealisation step -/

/-- `flip p` has weight `p` on `yes` and `1 − p` on `no` … -/
theorem flip_law {α : Type} [DecidableEq α] {p : Rat} (h0 : 0 ≤ p) (h1 : p ≤ 1) (y n : PT α) (x : α) :
    (PT.flip p y n).law x = p * y.law x + (1 - p) * n.law x :=
  PT.law_flip h0 h1 y n x

/-- … whereas of the `2^64` equally likely words exactly `⌊p·2^64⌋` make `gen_bool(p)` answer `true` -/
theorem flip_weight_counting (p : Rat) (h0 : 0 ≤ p) (h1 : p < 1) :
    ((Finset.range RS.two64).filter (fun u => ((RS.ofScript [u]).genBool p).1 = true)).card =
      ⌊p * ((RS.two64 : Nat) : Rat)⌋.toNat :=
  genBool_count p h0 h1

/-- so the exact frequency is within `2^-64` below `p` (and equal to `p` for the fair coins) -/
theorem flip_weight_frequency (p : Rat) (h0 : 0 ≤ p) (h1 : p < 1) :
    p - 1 / ((RS.two64 : Nat) : Rat) <
      (((Finset.range RS.two64).filter (fun u => ((RS.ofScript [u]).genBool p).1 = true)).card : Rat) /
        ((RS.two64 : Nat) : Rat) ∧
    (((Finset.range RS.two64).filter (fun u => ((RS.ofScript [u]).genBool p).1 = true)).card : Rat) /
        ((RS.two64 : Nat) : Rat) ≤ p :=
  genBool_frequency p h0 h1

theorem fair_coin_exact :
    (((Finset.range RS.two64).filter (fun u => ((RS.ofScript [u]).genBool (1 / 2)).1 = true)).card : Rat) /
        ((RS.two64 : Nat) : Rat) = 1 / 2 :=
  genBool_half_count

/-- `pick n` has weight `1/n` on each outcome; for every `i < n` exactly `2^lz` of the `2^64` equally likely
words are accepted by `gen_range(0..n)` with outcome `i` — exact uniformity conditional on acceptance -/
theorem pick_weight_counting (n : Nat) (hn : 0 < n) (hn64 : n < RS.two64) (i : Nat) (hi : i < n) :
    ((Finset.range RS.two64).filter (fun u => ((RS.ofScript [u]).genRange n).2.short = false ∧
      ((RS.ofScript [u]).genRange n).1 = i)).card = 2 ^ RS.lz64 n :=
  genRange_uniform n hn hn64 i hi

/-- **law of a sequential program = composition of the laws** (`Dist.comp`) -/
theorem law_of_bind {α : Type} [DecidableEq α] (S : Finset α) (T₁ T₂ : α → PT α)
    (h : ∀ a ∈ S, PT.All (fun b => b ∈ S) (T₁ a)) :
    lawK S (fun a => PT.bind (T₁ a) T₂) = comp (lawK S T₁) (lawK S T₂) :=
  lawK_bind S T₁ T₂ h

/-! ### 3. law = kernel -/

/-- **one slot, Metropolis.**  On a configuration legal at slot `p` (`SlotLegal`: bond variables in range,
a diagonal-tagged operator at `p` is the canonical one of a bond of `H`), the idealised law of the model's
visit of slot `p` — cutoff `c.slots.length`, rolling state `stateAt c p`, current count — transported
along `result ↦ setSlot c p result.slot`, is the row of the slot kernel `slotKM H β p` at `c`. -/
theorem metropolisSlot_law_eq_kernel (H : Ham) (β : Rat) (hβ : 0 ≤ β) (hw : ∀ b i, 0 ≤ H.w b i i)
    (hNb : 0 < H.nbonds) (c : Config) (p : Nat) (s : Option Op) (hs : c.slots[p]? = some s)
    (hleg : SlotLegal H c p) (c' : Config) :
    PT.law (PT.map (fun r : SlotOut => setSlot c p r.slot)
      (metropolisSlotT H β c.slots.length s (Kernel.stateAt c p) (countOps c.slots))) c' = slotKM H β p c c' :=
  law_metropolisSlot H β hβ hw hNb c p s hs hleg c'

/-- **the whole Metropolis sweep.**  On every finite set `S` of legal configurations (`DiagLegal`) with
`L` slots that the diagonal proposals do not leave except with probability 0 (`SlotClosed`), the idealised
law of the executable sweep is the kernel `sweepKM H β S L` (the composition of the slot kernels). -/
theorem metropolisSweep_law_eq_kernel (H : Ham) (β : Rat) (hβ : 0 ≤ β) (hw : ∀ b i, 0 ≤ H.w b i i)
    (hNb : 0 < H.nbonds) (S : Finset Config) (L : Nat) (hcl : SlotClosed H S)
    (hleg : ∀ c ∈ S, DiagLegal H c ∧ c.slots.length = L) :
    lawK S (metropolisSweepT H β L) = sweepKM H β S L :=
  law_metropolisSweep H β hβ hw hNb S L hcl hleg

/-- … in particular on `legalSpace H N L`, the legal configurations of `cfgSpace H N L` (closed under the
diagonal proposals for every `H`, `N`, `L`: `legalSpace_slotFlip`) -/
theorem metropolisSweep_law_eq_kernel_legalSpace (H : Ham) (β : Rat) (hβ : 0 ≤ β)
    (hw : ∀ b i, 0 ≤ H.w b i i) (hNb : 0 < H.nbonds) (N L : Nat) :
    lawK (legalSpace H N L) (metropolisSweepT H β L) = sweepKM H β (legalSpace H N L) L :=
  law_metropolisSweep H β hβ hw hNb _ L (legalSpace_slotClosed H N L) (legalSpace_legal H N L)

/-- **COROLLARY: the idealised law of the executable Metropolis sweep leaves the SSE weight invariant** —
`Σ_{c ∈ S} W(c) · P[sweep(c) = c'] = W(c')` on the legal configurations; nothing between the model function
and the statement is "defined from the probability functions". -/
theorem metropolisSweep_law_invariant (H : Ham) (β : Rat) (hβ : 0 < β) (hw : ∀ b i, 0 ≤ H.w b i i)
    (hNb : 0 < H.nbonds) (N L : Nat) :
    Invariant (sseOn H β (legalSpace H N L)) (lawK (legalSpace H N L) (metropolisSweepT H β L)) :=
  Qmc.Law.metropolisSweep_law_invariant H β hβ hw hNb N L

/-- the same written as a sum -/
theorem metropolisSweep_law_invariant_sum (H : Ham) (β : Rat) (hβ : 0 < β) (hw : ∀ b i, 0 ≤ H.w b i i)
    (hNb : 0 < H.nbonds) (N L : Nat) (c' : Config) (hc' : c' ∈ legalSpace H N L) :
    ∑ c ∈ legalSpace H N L, configWeight H β c * PT.law (metropolisSweepT H β L c) c' = configWeight H β c' := by
  have := Qmc.Law.metropolisSweep_law_invariant H β hβ hw hNb N L ⟨c', hc'⟩
  rw [← Finset.sum_coe_sort (legalSpace H N L)
    (fun c => configWeight H β c * PT.law (metropolisSweepT H β L c) c')]
  exact this

/-- on every closed set of legal configurations -/
theorem metropolisSweep_law_invariant_on (H : Ham) (β : Rat) (hβ : 0 < β) (hw : ∀ b i, 0 ≤ H.w b i i)
    (hNb : 0 < H.nbonds) (S : Finset Config) (L : Nat) (hcl : SlotClosed H S)
    (hleg : ∀ c ∈ S, DiagLegal H c ∧ c.slots.length = L) :
    Invariant (sseOn H β S) (lawK S (metropolisSweepT H β L)) :=
  Qmc.Law.metropolisSweep_law_invariant_on H β hβ hw hNb S L hcl hleg

/-- from a legal configuration no idealised mass is lost to a panic and none leaves the legal
configurations: the rows of the law sum to 1 -/
theorem metropolisSweep_law_rowSum (H : Ham) (β : Rat) (hβ : 0 ≤ β) (hw : ∀ b i, 0 ≤ H.w b i i)
    (hNb : 0 < H.nbonds) (N L : Nat) :
    RowSum (lawK (legalSpace H N L) (metropolisSweepT H β L)) :=
  Qmc.Law.metropolisSweep_law_rowSum H β hβ hw hNb N L

/-- **free-spin refresh.**  For every configuration the idealised law of the refresh is `refreshK`. -/
theorem freeRefresh_law_eq_kernel (c c' : Config) :
    PT.law (freeRefreshT c) c' = refreshK c.state.length c c' :=
  law_freeRefresh c c'

/-! ### heat bath -/

/-- **one slot, heat bath**, for a valid table (`0 < bw.sum`, every entry dominates the bond's diagonal
weights, one entry per bond): law of the visit = row of `slotKHB`.  The weights of the `hbPick` node are
the idealised continuous-uniform values `bw[b]/W` and `w_b/bw[b]`. -/
theorem heatBathSlot_law_eq_kernel (H : Ham) (bw : BW) (β : Rat) (hβ : 0 ≤ β) (hW : 0 < bw.sum)
    (hw : ∀ b i, 0 ≤ H.w b i i)
    (htab : ∀ b, b < bw.length → ∀ st : List Bool,
      H.w b (readVars st (H.vars b)) (readVars st (H.vars b)) ≤ bw.getD b 0)
    (hlen : bw.length = H.nbonds)
    (c : Config) (p : Nat) (s : Option Op) (hs : c.slots[p]? = some s) (hleg : SlotLegal H c p)
    (c' : Config) :
    PT.law (PT.map (fun r : SlotOut => setSlot c p r.slot)
      (heatBathSlotT H bw β c.slots.length s (Kernel.stateAt c p) (countOps c.slots))) c' =
        slotKHB H bw β p c c' :=
  law_heatBathSlot H bw β hβ hW hw htab hlen c p s hs hleg c'

/-- **the whole heat-bath sweep**: law = `sweepKHB` -/
theorem heatBathSweep_law_eq_kernel (H : Ham) (bw : BW) (β : Rat) (hβ : 0 ≤ β) (hW : 0 < bw.sum)
    (hw : ∀ b i, 0 ≤ H.w b i i)
    (htab : ∀ b, b < bw.length → ∀ st : List Bool,
      H.w b (readVars st (H.vars b)) (readVars st (H.vars b)) ≤ bw.getD b 0)
    (hlen : bw.length = H.nbonds) (S : Finset Config) (L : Nat) (hcl : SlotClosed H S)
    (hleg : ∀ c ∈ S, DiagLegal H c ∧ c.slots.length = L) :
    lawK S (heatBathSweepT H bw β L) = sweepKHB H bw β S L :=
  law_heatBathSweep H bw β hβ hW hw htab hlen S L hcl hleg

/-- **the idealised law of the executable heat-bath sweep (table `makeBondWeights H`) leaves the SSE
weight invariant** on the legal configurations -/
theorem heatBathSweep_law_invariant (H : Ham) (β : Rat) (hβ : 0 < β) (hW : 0 < (makeBondWeights H).sum)
    (hw : ∀ b i, 0 ≤ H.w b i i) (N L : Nat) :
    Invariant (sseOn H β (legalSpace H N L))
      (lawK (legalSpace H N L) (heatBathSweepT H (makeBondWeights H) β L)) :=
  Qmc.Law.heatBathSweep_law_invariant H β hβ hW hw N L

theorem heatBathSweep_law_rowSum (H : Ham) (β : Rat) (hβ : 0 ≤ β) (hW : 0 < (makeBondWeights H).sum)
    (hw : ∀ b i, 0 ≤ H.w b i i) (N L : Nat) :
    RowSum (lawK (legalSpace H N L) (heatBathSweepT H (makeBondWeights H) β L)) :=
  Qmc.Law.heatBathSweep_law_rowSum H β hβ hW hw N L

/-! ### on the support of the SSE measure (`Good = Consistent ∧ Legal`, QmcProofs/Good.lean) -/

/-- the legality needed for law = kernel holds on the support of the measure -/
theorem good_is_diagLegal {H : Ham} {N : Nat} {c : Config} (hH : HamWF H N) (hg : GoodN H N c) :
    DiagLegal H c :=
  good_diagLegal hH hg

/-- law = kernel on the Good configurations of `cfgSpace H N L` -/
theorem metropolisSweep_law_eq_kernel_good (H : Ham) (β : Rat) (hβ : 0 ≤ β) (hw : ∀ b i, 0 ≤ H.w b i i)
    (hNb : 0 < H.nbonds) (N L : Nat) (hH : HamWF H N) :
    lawK (goodSpace H N L) (metropolisSweepT H β L) = sweepKM H β (goodSpace H N L) L :=
  law_metropolisSweep_good H β hβ hw hNb N L hH

/-- **the idealised law of the executable Metropolis sweep leaves the true SSE measure
`configWeight · 1_{Consistent ∧ Legal}` invariant on the whole configuration space** — the statement of
`Kernel.sweep_invariant_cut` with the law of the executable model in place of `sweepKM` -/
theorem metropolisSweep_law_invariant_cut (H : Ham) (β : Rat) (hβ : 0 < β) (hw : ∀ b i, 0 ≤ H.w b i i)
    (hNb : 0 < H.nbonds) (N L : Nat) (hH : HamWF H N) :
    Invariant (sseCutOn H β (cfgSpace H N L)) (lawK (cfgSpace H N L) (metropolisSweepT H β L)) :=
  Qmc.Law.metropolisSweep_law_invariant_cut H β hβ hw hNb N L hH

/-- … and the heat-bath sweep -/
theorem heatBathSweep_law_invariant_cut (H : Ham) (β : Rat) (hβ : 0 < β)
    (hW : 0 < (makeBondWeights H).sum) (hw : ∀ b i, 0 ≤ H.w b i i) (N L : Nat) (hH : HamWF H N) :
    Invariant (sseCutOn H β (cfgSpace H N L))
      (lawK (cfgSpace H N L) (heatBathSweepT H (makeBondWeights H) β L)) :=
  Qmc.Law.heatBathSweep_law_invariant_cut H β hβ hW hw N L hH

/-! ### cluster update and the whole step, with the hypothesis `TravOK` on the traversal explicit
(the hypothesis-free forms, `TravOK` and `hperm` proved, are at the end of this file) -/

/-- **the coins of the cluster update**: one `flip (w_r/2)` per listed cluster, union of the accepted ones
flipped = independent choices over the clusters (`flipsK`), for pairwise disjoint clusters -/
theorem cluster_coins_law (whole : Bool) (lab : Array Nat) (w : Nat → Rat) (hw : ∀ r, w r = 0 ∨ w r = 1)
    (c' : Config) (reps : List Nat) (hd : RepsDisjoint whole lab reps) (c : Config)
    (hs : ShapedSlots c.slots) (ht : TagCanon c.slots) :
    PT.law (PT.map (fun fl => flipConfigT (flippedLegs whole lab reps fl) c)
      (clusterFlipsT (1 / 2) (reps.map w))) c' =
    flipsK (reps.map (fun r => (w r * (1 / 2), flipConfigT (clusterLegs whole lab r)))) c c' :=
  law_clusterFlips whole lab w hw c' reps hd c hs ht

/-- **cluster update: law = cluster kernel of the update's own family** (`ClusterFamily.ofModel`: the clusters
of closure-weight 1 found by `traverse`, each a C09 `ClusterMove`), on a canonical-tag configuration of
`cfgSpace` whose skeleton is `TravOK` (traversal not `bad`, representatives in different components —
decidable; proved in general in QmcProofs/LawTravOK.lean, see `clusterUpdate_law_eq_kernel` below) -/
theorem clusterUpdate_law_eq_kernel_partial (fz : Nat → Bool) (H : Ham) (N L : Nat) (hV : VarsOK H N)
    (c : Config) (hc : c ∈ cfgSpace H N L) (ht : TagCanon c.slots) (htr : TravOK (skeleton c.slots))
    (c' : Config) :
    PT.law (clusterKT (1 / 2) fz c) c' =
      clusterK (ClusterFamily.ofModel (fun o => fz o.bond) H N L hV) c c' :=
  law_clusterKT fz H N L hV c hc ht htr c'

/-- the update's kernel is the component kernel `clusterK (ClusterFamily.ofComponents …)` of
`Kernel.ising_timestep_invariant` wherever the flips the update offers are, up to order, the component flips
(completeness of the traversal + agreement of the two notions of "frozen" on this skeleton) -/
theorem clusterKernel_eq_components_partial (fr : SkOp → Bool) (H : Ham) (N L : Nat) (hV : VarsOK H N)
    (c c' : Config) (hperm : (modelFlips fr (skeleton c.slots)).Perm (componentFlips fr (skeleton c.slots))) :
    clusterK (ClusterFamily.ofModel fr H N L hV) c c' =
      clusterK (ClusterFamily.ofComponents fr H N L hV) c c' :=
  clusterK_ofModel_eq_ofComponents fr H N L hV c c' hperm

/-- **law of one whole step = `sweepKM ; clusterK ; refreshK`** on the Good configurations -/
theorem step_law_eq_kernels_partial (H : Ham) (β : Rat) (hβ : 0 ≤ β) (hw : ∀ b i, 0 ≤ H.w b i i)
    (hNb : 0 < H.nbonds) (N L : Nat) (hV : VarsOK H N) (fz : Nat → Bool)
    (hsym : ClusterSym H (fun o => fz o.bond) (cfgSpace H N L))
    (htrav : ∀ c ∈ goodSpace H N L, TravOK (skeleton c.slots)) :
    lawK (goodSpace H N L) (stepCfgT H none fz β L) =
      compList [sweepKM H β (goodSpace H N L) L,
        restr (goodSpace H N L) (clusterK (ClusterFamily.ofModel (fun o => fz o.bond) H N L hV)),
        restr (goodSpace H N L) (refreshK N)] :=
  lawK_stepCfgT_metropolis H β hβ hw hNb N L hV fz hsym htrav

/-- **THE EXECUTABLE WHOLE-STEP MODEL HAS AN INVARIANT IDEALISED LAW** — `Sampler.isingTimestep`
(`QmcIsingGraph::timestep`, RVB off, Metropolis diagonal update): for every valid graph, couplings of any
sign, Γ ≥ 0, any h, β > 0, number of slots `L` (= cutoff), the law of its configuration part leaves the true
SSE measure `configWeight · 1_{Consistent ∧ Legal}` invariant on `cfgSpace`.  Partial in `htrav` only. -/
theorem isingStep_law_invariant_partial (s : Sampler.IsingSampler) (hv : s.spec.Valid)
    (hg : 0 ≤ s.spec.gamma) (hNb : 0 < s.spec.ham.nbonds) (β : Rat) (hβ : 0 < β) (L : Nat)
    (htrav : ∀ c ∈ goodSpace s.spec.ham s.spec.nvars L, TravOK (skeleton c.slots)) :
    Invariant (sseCutOn s.spec.ham β (cfgSpace s.spec.ham s.spec.nvars L))
      (lawK (cfgSpace s.spec.ham s.spec.nvars L) (stepCfgT s.spec.ham none s.frozenBond β L)) :=
  Qmc.Law.isingStep_law_invariant_partial s hv hg hNb β hβ L htrav

/-- … with the heat-bath diagonal update (`set_enable_heatbath(true)`: table `makeBondWeights`) -/
theorem isingStep_law_invariant_partial_hb (s : Sampler.IsingSampler) (hv : s.spec.Valid)
    (hg : 0 ≤ s.spec.gamma) (hW : 0 < (makeBondWeights s.spec.ham).sum) (β : Rat) (hβ : 0 < β) (L : Nat)
    (htrav : ∀ c ∈ goodSpace s.spec.ham s.spec.nvars L, TravOK (skeleton c.slots)) :
    Invariant (sseCutOn s.spec.ham β (cfgSpace s.spec.ham s.spec.nvars L))
      (lawK (cfgSpace s.spec.ham s.spec.nvars L)
        (stepCfgT s.spec.ham (some (makeBondWeights s.spec.ham)) s.frozenBond β L)) :=
  Qmc.Law.isingStep_law_invariant_partial_hb s hv hg hW β hβ L htrav

/-- `htrav` for a concrete Hamiltonian and number of slots: evaluate the traversal on the finitely many
skeletons (`skEnum H L`) -/
theorem htrav_of_enum (H : Ham) (N L : Nat) (h : ∀ sk ∈ skEnum H L, TravOK sk) :
    ∀ c ∈ goodSpace H N L, TravOK (skeleton c.slots) :=
  travOK_of_enum H N L h

/-! ### non-vacuity: H = isingClusterHam [([0,1],1)] (1/2) (1/4) 3, β = 3/2, C09's `exB` -/

namespace Example
open Qmc.Kernel.Example (H H_nonneg)

theorem exB_legal : DiagLegal H Qmc.C09.exB := by decide

theorem H_nbonds : 0 < H.nbonds := by decide

/-- the space of legal configurations is not empty -/
theorem exB_mem_legal : Qmc.C09.exB ∈ legalSpace H 3 5 :=
  mem_legalSpace.mpr ⟨Qmc.Kernel.Example.exB_mem, exB_legal⟩

/-- legality is a real restriction: relabelling the bond of the diagonal operator of `exB` gives a
configuration of `cfgSpace` that is not legal -/
example : ¬ DiagLegal H ⟨[false, false, true], [some ⟨[0, 1], 0, [true, false], [true, false], true, false⟩]⟩ := by
  decide

/-- the law of the visit of the empty slot 3 of `exB` puts mass `1/7` (uniform choice among the 7 bonds,
acceptance clipped to 1, no second draw) on "insert the transverse-field operator of spin 0" -/
example : PT.law (PT.map (fun r : SlotOut => setSlot Qmc.C09.exB 3 r.slot)
      (metropolisSlotT H (3 / 2) 5 none (Kernel.stateAt Qmc.C09.exB 3) 4))
    (setSlot Qmc.C09.exB 3 (some (canonOp H Qmc.C09.exB 3 1))) = 1 / 7 := by
  have h := metropolisSlot_law_eq_kernel H (3 / 2) (by norm_num) H_nonneg H_nbonds Qmc.C09.exB 3 none
    (by decide) (exB_legal.slotLegal 3) (setSlot Qmc.C09.exB 3 (some (canonOp H Qmc.C09.exB 3 1)))
  have hl : Qmc.C09.exB.slots.length = 5 := rfl
  have hn : countOps Qmc.C09.exB.slots = 4 := by decide
  rw [hl, hn] at h
  rw [h]
  have := slotKM_insert_entry H (3 / 2) 3 ⟨1, by decide⟩ Qmc.C09.exB (by decide)
    (fun b' e => Fin.ext (canonOp_inj e))
  rw [this, hl, hn]
  have hw : curW H Qmc.C09.exB 3 1 = 1 / 2 := by
    simp [curW, H, isingClusterHam, transverseW]
  have hNb : H.nbonds = 7 := by decide
  simp only [hw, hNb]
  unfold pInsertM accInsM clipProb
  norm_num

example : lawK (legalSpace H 3 5) (metropolisSweepT H (3 / 2) 5) = sweepKM H (3 / 2) (legalSpace H 3 5) 5 :=
  metropolisSweep_law_eq_kernel_legalSpace H _ (by norm_num) H_nonneg H_nbonds 3 5

example : Invariant (sseOn H (3 / 2) (legalSpace H 3 5))
    (lawK (legalSpace H 3 5) (metropolisSweepT H (3 / 2) 5)) :=
  metropolisSweep_law_invariant H _ (by norm_num) H_nonneg H_nbonds 3 5

example : ∑ c ∈ legalSpace H 3 5, configWeight H (3 / 2) c * PT.law (metropolisSweepT H (3 / 2) 5 c) Qmc.C09.exB =
    configWeight H (3 / 2) Qmc.C09.exB :=
  metropolisSweep_law_invariant_sum H _ (by norm_num) H_nonneg H_nbonds 3 5 _ exB_mem_legal

/-- heat bath: the table the code builds for `H` is valid (`Kernel.Example.H_table`) -/
example : Invariant (sseOn H (3 / 2) (legalSpace H 3 5))
    (lawK (legalSpace H 3 5) (heatBathSweepT H (makeBondWeights H) (3 / 2) 5)) :=
  heatBathSweep_law_invariant H _ (by norm_num) Qmc.Kernel.Example.H_table H_nonneg 3 5

theorem H_wf : HamWF H 3 := Qmc.Kernel.ising_varsOK _ _ _ _ Qmc.Kernel.Example.H_edges

example : Invariant (sseCutOn H (3 / 2) (cfgSpace H 3 5))
    (lawK (cfgSpace H 3 5) (metropolisSweepT H (3 / 2) 5)) :=
  metropolisSweep_law_invariant_cut H _ (by norm_num) H_nonneg H_nbonds 3 5 H_wf

example : Invariant (sseCutOn H (3 / 2) (cfgSpace H 3 5))
    (lawK (cfgSpace H 3 5) (heatBathSweepT H (makeBondWeights H) (3 / 2) 5)) :=
  heatBathSweep_law_invariant_cut H _ (by norm_num) Qmc.Kernel.Example.H_table H_nonneg 3 5 H_wf

example (c' : Config) : PT.law (freeRefreshT Qmc.C09.exB) c' = refreshK 3 Qmc.C09.exB c' :=
  freeRefresh_law_eq_kernel Qmc.C09.exB c'

/-- the refresh of `exB` (spin 2 is idle) lands on the configuration with spin 2 reset to `false` with
probability exactly ½ -/
example : PT.law (freeRefreshT Qmc.C09.exB) { Qmc.C09.exB with state := [false, false, false] } = 1 / 2 := by
  simp only [freeRefreshT, refreshAuxT, Qmc.C09.exB, Sampler.hasOps, Sampler.slotVars, Qmc.C09.sx, Qmc.C09.bd]
  simp
  rw [PT.law_flip (by norm_num) (by norm_num)]
  simp
  norm_num

/-! the cluster update and the whole step: `spec3` (edge (0,1), J = 1, Γ = 1/2, h = 1/4, three spins) -/

/-- the traversal of the skeleton of `exB` is `TravOK` (evaluated by the kernel) -/
theorem exB_travOK : TravOK (skeleton Qmc.C09.exB.slots) := by decide +kernel

/-- … and so is the traversal of each of the 64 skeletons with two slots over `spec3.ham` -/
theorem spec3_trav2 : ∀ sk ∈ skEnum Qmc.Refine.spec3.ham 2, TravOK sk := by decide +kernel

/-- the cluster update on `exB`: law = kernel, nothing left to assume -/
example (hV : VarsOK Qmc.Refine.spec3.ham 3) (c' : Config) :
    PT.law (clusterKT (1 / 2) (fun b => decide (1 + 3 ≤ b)) Qmc.Refine.exB) c' =
      clusterK (ClusterFamily.ofModel (fun o => decide (1 + 3 ≤ o.bond)) Qmc.Refine.spec3.ham 3 5 hV)
        Qmc.Refine.exB c' :=
  clusterUpdate_law_eq_kernel_partial _ _ 3 5 hV _ Qmc.Kernel.CutExample.exB_mem
    Qmc.Kernel.CutExample.exB_good.tagCanon (by decide +kernel) c'

/-- **the whole step of the executable model on a concrete system, no hypothesis left**: `spec3`, two
slots, β = 3/2 — the idealised law of `isingTimestep` leaves the true SSE measure invariant -/
example : Invariant (sseCutOn Qmc.Refine.spec3.ham (3 / 2) (cfgSpace Qmc.Refine.spec3.ham 3 2))
    (lawK (cfgSpace Qmc.Refine.spec3.ham 3 2)
      (stepCfgT Qmc.Refine.spec3.ham none
        (Sampler.IsingSampler.new Qmc.Refine.spec3 2 [false, false, false]).frozenBond (3 / 2) 2)) :=
  isingStep_law_invariant_partial (Sampler.IsingSampler.new Qmc.Refine.spec3 2 [false, false, false])
    Qmc.Refine.spec3_valid (by norm_num [Qmc.Refine.spec3, Sampler.IsingSampler.new])
    (by rw [show (Sampler.IsingSampler.new Qmc.Refine.spec3 2 [false, false, false]).spec = Qmc.Refine.spec3
      from rfl, Qmc.Kernel.CutExample.spec3_nbonds]; norm_num)
    (3 / 2) (by norm_num) 2 (htrav_of_enum _ 3 2 spec3_trav2)

/-! the permutation hypothesis of `clusterKernel_eq_components_partial` on a skeleton with one σx -/

def sk1 : Skel := [some ⟨[0], 1, true⟩]
def fr0 : SkOp → Bool := fun _ => false

theorem free_sk1 (r : Nat) : ComponentFreeSk fr0 sk1 r := by
  intro x _ _ hfr
  simp [fr0] at hfr

theorem roots_sk1 : componentRoots fr0 sk1 = [0] := by
  unfold componentRoots
  have h1 : (legGraph sk1).nlegs = 2 := by decide +kernel
  have h2 : (compLab sk1)[0]! = 0 := by decide +kernel
  have h3 : (compLab sk1)[1]! = 0 := by decide +kernel
  rw [h1]
  simp [List.range_succ, h2, h3, free_sk1]

theorem reps_sk1 : freeReps fr0 sk1 = [0] := by decide +kernel

example : (modelFlips fr0 sk1).Perm (componentFlips fr0 sk1) := by
  have he : (legGraph sk1).hasEdge = true := by decide +kernel
  have hw : (traverse sk1).whole = false := by decide +kernel
  have h0 : (compLab sk1)[0]! = 0 := by decide +kernel
  unfold modelFlips componentFlips
  rw [if_pos he, roots_sk1, reps_sk1, hw]
  simp only [List.map_cons, List.map_nil, clusterLegs_false, h0]
  exact List.Perm.refl _


end Example

/-! ### cluster update and the whole step — hypothesis-free: `TravOK` is proved for every well-formed skeleton

`Qmc.Law.travOK` (QmcProofs/LawTravOK.lean, with QmcProofs/ClusterTraverse.lean and QmcProofs/ClusterNav.lean):
for every string in which no op lists a variable twice and every op has a variable, the transliterated traversal
`traverse` ends not `bad` within its fuel and its representatives lie in pairwise different components of the
leg graph. On `cfgSpace H N L` this needs, besides `VarsOK`, that every bond has a variable (`VarsPos`; true of
every `IsingSpec.ham`). -/

/-- **cluster update: law = cluster kernel of the update's own family**, on every canonical-tag configuration
of `cfgSpace` -/
theorem clusterUpdate_law_eq_kernel (fz : Nat → Bool) (H : Ham) (N L : Nat) (hV : VarsOK H N) (hp : VarsPos H)
    (c : Config) (hc : c ∈ cfgSpace H N L) (ht : TagCanon c.slots) (c' : Config) :
    PT.law (clusterKT (1 / 2) fz c) c' =
      clusterK (ClusterFamily.ofModel (fun o => fz o.bond) H N L hV) c c' :=
  clusterUpdate_law_eq_kernel_partial fz H N L hV c hc ht (cfgSpace_travOK hV hp hc) c'

/-- **law of one whole step = `sweepKM ; clusterK ; refreshK`** on the Good configurations -/
theorem step_law_eq_kernels (H : Ham) (β : Rat) (hβ : 0 ≤ β) (hw : ∀ b i, 0 ≤ H.w b i i)
    (hNb : 0 < H.nbonds) (N L : Nat) (hV : VarsOK H N) (hp : VarsPos H) (fz : Nat → Bool)
    (hsym : ClusterSym H (fun o => fz o.bond) (cfgSpace H N L)) :
    lawK (goodSpace H N L) (stepCfgT H none fz β L) =
      compList [sweepKM H β (goodSpace H N L) L,
        restr (goodSpace H N L) (clusterK (ClusterFamily.ofModel (fun o => fz o.bond) H N L hV)),
        restr (goodSpace H N L) (refreshK N)] :=
  step_law_eq_kernels_partial H β hβ hw hNb N L hV fz hsym
    (fun _ hc => cfgSpace_travOK hV hp (mem_goodSpace.mp hc).1)

/-- **THE EXECUTABLE WHOLE-STEP MODEL HAS AN INVARIANT IDEALISED LAW** — no hypothesis on the traversal left -/
theorem isingStep_law_invariant (s : Sampler.IsingSampler) (hv : s.spec.Valid)
    (hg : 0 ≤ s.spec.gamma) (hNb : 0 < s.spec.ham.nbonds) (β : Rat) (hβ : 0 < β) (L : Nat) :
    Invariant (sseCutOn s.spec.ham β (cfgSpace s.spec.ham s.spec.nvars L))
      (lawK (cfgSpace s.spec.ham s.spec.nvars L) (stepCfgT s.spec.ham none s.frozenBond β L)) :=
  isingStep_law_invariant_partial s hv hg hNb β hβ L
    (fun _ hc => cfgSpace_travOK (s.spec.hamWF hv) (isingSpec_varsPos s.spec) (mem_goodSpace.mp hc).1)

/-- … with the heat-bath diagonal update -/
theorem isingStep_law_invariant_hb (s : Sampler.IsingSampler) (hv : s.spec.Valid)
    (hg : 0 ≤ s.spec.gamma) (hW : 0 < (makeBondWeights s.spec.ham).sum) (β : Rat) (hβ : 0 < β) (L : Nat) :
    Invariant (sseCutOn s.spec.ham β (cfgSpace s.spec.ham s.spec.nvars L))
      (lawK (cfgSpace s.spec.ham s.spec.nvars L)
        (stepCfgT s.spec.ham (some (makeBondWeights s.spec.ham)) s.frozenBond β L)) :=
  isingStep_law_invariant_partial_hb s hv hg hW β hβ L
    (fun _ hc => cfgSpace_travOK (s.spec.hamWF hv) (isingSpec_varsPos s.spec) (mem_goodSpace.mp hc).1)


/-! ### the update's own cluster family IS the component family (`hperm` discharged)

`Qmc.Law.modelFlips_perm_componentFlips` (QmcProofs/LawTravPerm.lean): the traversal is also COMPLETE (every
component of the leg graph gets exactly one representative) and its labels are sound, so for a closure that is
never 0 on a cluster edge (`EdgeNotFrozen`; true of `IsingSampler.frozenBond`) the flips the exact model offers are,
up to order, `Kernel.componentFlips` — the family `ClusterFamily.ofComponents` of
`Kernel.ising_timestep_invariant_cut` and of the C01 capstone. -/

/-- **cluster kernel of the update = component kernel**, on every configuration of `cfgSpace` -/
theorem clusterKernel_eq_components (fr : SkOp → Bool) (H : Ham) (N L : Nat) (hV : VarsOK H N) (hp : VarsPos H)
    (hfre : EdgeNotFrozen H fr) (c : Config) (hc : c ∈ cfgSpace H N L) (c' : Config) :
    clusterK (ClusterFamily.ofModel fr H N L hV) c c' =
      clusterK (ClusterFamily.ofComponents fr H N L hV) c c' :=
  clusterKernel_eq_components_partial fr H N L hV c c' (cfgSpace_hperm hV hp fr hfre hc)

/-- **law of one whole step = `sweepKM ; clusterK (ofComponents) ; refreshK`** on the Good configurations: the
kernels of `Kernel.timestepK … (ClusterFamily.ofComponents …)`, restricted to `goodSpace` -/
theorem step_law_eq_kernels_components (H : Ham) (β : Rat) (hβ : 0 ≤ β) (hw : ∀ b i, 0 ≤ H.w b i i)
    (hNb : 0 < H.nbonds) (N L : Nat) (hV : VarsOK H N) (hp : VarsPos H) (fz : Nat → Bool)
    (hfre : EdgeNotFrozen H (fun o => fz o.bond))
    (hsym : ClusterSym H (fun o => fz o.bond) (cfgSpace H N L)) :
    lawK (goodSpace H N L) (stepCfgT H none fz β L) =
      compList [sweepKM H β (goodSpace H N L) L,
        restr (goodSpace H N L) (clusterK (ClusterFamily.ofComponents (fun o => fz o.bond) H N L hV)),
        restr (goodSpace H N L) (refreshK N)] := by
  rw [step_law_eq_kernels H β hβ hw hNb N L hV hp fz hsym]
  have : restr (goodSpace H N L) (clusterK (ClusterFamily.ofModel (fun o => fz o.bond) H N L hV)) =
      restr (goodSpace H N L) (clusterK (ClusterFamily.ofComponents (fun o => fz o.bond) H N L hV)) := by
    funext a b
    exact clusterKernel_eq_components _ H N L hV hp hfre a.1 (mem_goodSpace.mp a.2).1 b.1
  rw [this]

/-- **the Ising whole step**: the law of `Sampler.isingTimestep` (configuration part, Metropolis diagonal update) on
the Good configurations is `sweepKM ; clusterK (ofComponents) ; refreshK` — the composition whose invariance is
`Kernel.ising_timestep_invariant_cut` -/
theorem isingStep_law_eq_timestepK (s : Sampler.IsingSampler) (hv : s.spec.Valid) (hg : 0 ≤ s.spec.gamma)
    (hNb : 0 < s.spec.ham.nbonds) (β : Rat) (hβ : 0 ≤ β) (L : Nat) :
    lawK (goodSpace s.spec.ham s.spec.nvars L) (stepCfgT s.spec.ham none s.frozenBond β L) =
      compList [sweepKM s.spec.ham β (goodSpace s.spec.ham s.spec.nvars L) L,
        restr (goodSpace s.spec.ham s.spec.nvars L)
          (clusterK (ClusterFamily.ofComponents (fun o => s.frozenBond o.bond) s.spec.ham s.spec.nvars L
            (s.spec.hamWF hv))),
        restr (goodSpace s.spec.ham s.spec.nvars L) (refreshK s.spec.nvars)] :=
  step_law_eq_kernels_components s.spec.ham β hβ (fun b i => Refine.ising_w_nonneg s.spec hg b i i) hNb _ L
    (s.spec.hamWF hv) (isingSpec_varsPos s.spec) s.frozenBond (ising_edgeNotFrozen s)
    (clusterSym_cfgSpace _ _ _ L (Composed.ising_bondSym s).sym (Composed.ising_bondSym s).const)

/-- heat-bath twin of `step_law_eq_kernels_components`: `sweepKHB ; clusterK (ofComponents) ; refreshK` with the table
`makeBondWeights H` — the kernels of `Kernel.timestepKHB … (ClusterFamily.ofComponents …)`, restricted to `goodSpace` -/
theorem step_law_eq_kernels_components_hb (H : Ham) (β : Rat) (hβ : 0 ≤ β) (hW : 0 < (makeBondWeights H).sum)
    (hw : ∀ b i, 0 ≤ H.w b i i) (N L : Nat) (hV : VarsOK H N) (hp : VarsPos H) (fz : Nat → Bool)
    (hfre : EdgeNotFrozen H (fun o => fz o.bond))
    (hsym : ClusterSym H (fun o => fz o.bond) (cfgSpace H N L)) :
    lawK (goodSpace H N L) (stepCfgT H (some (makeBondWeights H)) fz β L) =
      compList [sweepKHB H (makeBondWeights H) β (goodSpace H N L) L,
        restr (goodSpace H N L) (clusterK (ClusterFamily.ofComponents (fun o => fz o.bond) H N L hV)),
        restr (goodSpace H N L) (refreshK N)] := by
  rw [lawK_stepCfgT_heatBath H β hβ hW hw N L hV fz hsym
    (fun _ hc => cfgSpace_travOK hV hp (mem_goodSpace.mp hc).1)]
  unfold stepKernels
  have : restr (goodSpace H N L) (clusterK (ClusterFamily.ofModel (fun o => fz o.bond) H N L hV)) =
      restr (goodSpace H N L) (clusterK (ClusterFamily.ofComponents (fun o => fz o.bond) H N L hV)) := by
    funext a b
    exact clusterKernel_eq_components _ H N L hV hp hfre a.1 (mem_goodSpace.mp a.2).1 b.1
  rw [this]

/-- **the Ising whole step, heat bath** (`set_enable_heatbath(true)`): the law of `Sampler.isingTimestep` (configuration
part) on the Good configurations is `sweepKHB ; clusterK (ofComponents) ; refreshK` — the composition whose invariance
is `Kernel.ising_timestep_invariant_cut_hb` -/
theorem isingStep_law_eq_timestepK_hb (s : Sampler.IsingSampler) (hv : s.spec.Valid) (hg : 0 ≤ s.spec.gamma)
    (hW : 0 < (makeBondWeights s.spec.ham).sum) (β : Rat) (hβ : 0 ≤ β) (L : Nat) :
    lawK (goodSpace s.spec.ham s.spec.nvars L)
        (stepCfgT s.spec.ham (some (makeBondWeights s.spec.ham)) s.frozenBond β L) =
      compList [sweepKHB s.spec.ham (makeBondWeights s.spec.ham) β (goodSpace s.spec.ham s.spec.nvars L) L,
        restr (goodSpace s.spec.ham s.spec.nvars L)
          (clusterK (ClusterFamily.ofComponents (fun o => s.frozenBond o.bond) s.spec.ham s.spec.nvars L
            (s.spec.hamWF hv))),
        restr (goodSpace s.spec.ham s.spec.nvars L) (refreshK s.spec.nvars)] :=
  step_law_eq_kernels_components_hb s.spec.ham β hβ hW (fun b i => Refine.ising_w_nonneg s.spec hg b i i) _ L
    (s.spec.hamWF hv) (isingSpec_varsPos s.spec) s.frozenBond (ising_edgeNotFrozen s)
    (clusterSym_cfgSpace _ _ _ L (Composed.ising_bondSym s).sym (Composed.ising_bondSym s).const)

/-! ### idealisation step for the heat-bath node `hbPick`: the `2^-52` grid of `gen_range(0.0..t)` -/

/-- the rejection test `u·mw < w` passes on exactly `2^12·⌈(w/mw)·2^52⌉` of the `2^64` words -/
theorem hbPick_accept_counting (mw w : Rat) (hmw : 0 < mw) (hw0 : 0 ≤ w) (hw1 : w ≤ mw) :
    ((Finset.range RS.two64).filter (fun v => ((RS.ofScript [v]).genRangeF 1).1 * mw < w)).card =
      2 ^ 12 * ⌈w / mw * ((2 ^ 52 : Nat) : Rat)⌉.toNat :=
  hb_accept_count mw w hmw hw0 hw1

/-- so its exact frequency lies in `[w/mw, w/mw + 2^-52)` (equal to `w/mw` for a dyadic ratio:
`Qmc.Law.hb_accept_frequency_exact`) -/
theorem hbPick_accept_frequency (mw w : Rat) (hmw : 0 < mw) (hw0 : 0 ≤ w) (hw1 : w ≤ mw) :
    w / mw ≤ (((Finset.range RS.two64).filter
        (fun v => ((RS.ofScript [v]).genRangeF 1).1 * mw < w)).card : Rat) / ((RS.two64 : Nat) : Rat) ∧
    (((Finset.range RS.two64).filter
        (fun v => ((RS.ofScript [v]).genRangeF 1).1 * mw < w)).card : Rat) / ((RS.two64 : Nat) : Rat) <
      w / mw + 1 / ((2 ^ 52 : Nat) : Rat) :=
  hb_accept_frequency mw w hmw hw0 hw1

/-- the bond choice on a dyadic table: exact word counts -/
theorem hbPick_pick_counting (ws : BW) (hnn : ∀ w ∈ ws, 0 ≤ w) (hW : 0 < ws.sum) (b : Nat) (hb : b < ws.length)
    (kb kb1 : Nat) (h1 : (ws.take b).sum * ((2 ^ 52 : Nat) : Rat) = (kb : Rat) * ws.sum)
    (h2 : (ws.take (b + 1)).sum * ((2 ^ 52 : Nat) : Rat) = (kb1 : Rat) * ws.sum) :
    ((Finset.range RS.two64).filter
      (fun v => indexForCumulative (cumul ws) ((RS.ofScript [v]).genRangeF ws.sum).1 = b)).card =
      2 ^ 12 * (min (kb1 + 1) (2 ^ 52) - (if b = 0 then 0 else kb + 1)) :=
  hb_pick_count ws hnn hW b hb kb kb1 h1 h2

/-- … hence exactly `ws[b]/W` for an interior bond -/
theorem hbPick_pick_frequency_interior (ws : BW) (hnn : ∀ w ∈ ws, 0 ≤ w) (hW : 0 < ws.sum) (b : Nat)
    (hb : b < ws.length) (hb0 : b ≠ 0) (kb kb1 : Nat) (hk : kb1 < 2 ^ 52)
    (h1 : (ws.take b).sum * ((2 ^ 52 : Nat) : Rat) = (kb : Rat) * ws.sum)
    (h2 : (ws.take (b + 1)).sum * ((2 ^ 52 : Nat) : Rat) = (kb1 : Rat) * ws.sum) :
    (((Finset.range RS.two64).filter
      (fun v => indexForCumulative (cumul ws) ((RS.ofScript [v]).genRangeF ws.sum).1 = b)).card : Rat) /
        ((RS.two64 : Nat) : Rat) = ws[b] / ws.sum :=
  hb_pick_frequency_interior ws hnn hW b hb hb0 kb kb1 hk h1 h2

/-- non-vacuity: the table `[1, 2, 1]` (`W = 4`): the middle bond is selected with frequency exactly `2/4` -/
example : (((Finset.range RS.two64).filter
      (fun v => indexForCumulative (cumul [1, 2, 1]) ((RS.ofScript [v]).genRangeF ([1, 2, 1] : BW).sum).1 = 1)).card :
        Rat) / ((RS.two64 : Nat) : Rat) = ([1, 2, 1] : BW)[1] / ([1, 2, 1] : BW).sum := by
  have h := hbPick_pick_frequency_interior [1, 2, 1] (by intro w hw; simp at hw; rcases hw with rfl | rfl | rfl <;> norm_num)
    (by norm_num) 1 (by simp) (by norm_num) (2 ^ 50) (3 * 2 ^ 50) (by norm_num) (by norm_num) (by norm_num)
  exact h


end Qmc.LawThm
