/-
C17 — Measurement helpers sample on the documented cadence and report true averages.

Property theorems only (helper lemmas: QmcProofs/Stepper.lean; model: QmcModel/Stepper.lean).
Quantifiers: every stepper (abstract state, step function, `n`), every fold, every `T`, every
`f ≥ 1`, `s ≥ 1`, every number of replicas, every swap rule, every schedule of the per-replica
steps.  Excluded inputs (stated as theorems at the end): `f = 0` (panic), `s = 0` / `f = 0` in the
tempering drivers (no progress), and `T < f` for the returned energy of the measuring loop (0/0).
-/
import QmcProofs.Stepper
import QmcProps.C16Sampler
import QmcProps.C16

namespace Qmc.C17

universe u v

/-! ### `timesteps_measure_with_self` and its wrappers -/

section measure
variable {σ : Type u} {α : Type v} (step : σ → σ) (n : σ → Nat) (fold : α → σ → α)

/-- the user's fold is applied exactly to the samplers after steps `f, 2f, …, ⌊T/f⌋·f`, in order. -/
theorem measure_points {f : Nat} (hf : 0 < f) (T : Nat) (s0 : σ) (a0 : α) :
    (measureLoop step n fold T f s0 a0).acc =
      ((List.range (T / f)).map fun k => iter step ((k + 1) * f) s0).foldl fold a0 :=
  (measureLoop_spec step n fold hf T s0 a0).2.2.1

/-- the call log of the fold (what `timesteps_sample` returns and what the autocorrelation helpers
consume): exactly `⌊T/f⌋` entries, the `k`-th being the view of the state after step `(k+1)·f`. -/
theorem measure_fold_calls {β : Type v} (view : σ → β) {f : Nat} (hf : 0 < f) (T : Nat) (s0 : σ) :
    (measureLoop step n (pushFold view) T f s0 []).acc =
      (List.range (T / f)).map fun k => view (iter step ((k + 1) * f) s0) := by
  rw [measure_points step n (pushFold view) hf]
  generalize List.range (T / f) = l
  have : ∀ (l : List Nat) (a : List β),
      (l.map fun k => iter step ((k + 1) * f) s0).foldl (pushFold view) a =
        a ++ l.map fun k => view (iter step ((k + 1) * f) s0) := by
    intro l
    induction l with
    | nil => intro a; simp
    | cons x r ih => intro a; simp [ih, pushFold]
  simpa using this l []

theorem measure_fold_count {β : Type v} (view : σ → β) {f : Nat} (hf : 0 < f) (T : Nat) (s0 : σ) :
    ((measureLoop step n (pushFold view) T f s0 []).acc).length = T / f := by
  rw [measure_fold_calls step n view hf]; simp

/-- `steps_measured = ⌊T/f⌋`, and the sampler has taken exactly `T` steps. -/
theorem measure_count {f : Nat} (hf : 0 < f) (T : Nat) (s0 : σ) (a0 : α) :
    (measureLoop step n fold T f s0 a0).measured = T / f ∧
    (measureLoop step n fold T f s0 a0).st = iter step T s0 :=
  ⟨(measureLoop_spec step n fold hf T s0 a0).2.1, (measureLoop_spec step n fold hf T s0 a0).1⟩

/-- with at least one sample (`f ≤ T`) the returned energy is `-<n>/β + offset`, `<n>` the mean of
`n` over exactly the sampled steps `f, 2f, …`. -/
theorem measure_energy {f : Nat} (hf : 0 < f) (T : Nat) (hT : f ≤ T) (s0 : σ) (a0 : α) (β off : Rat) :
    measureEnergy β off (measureLoop step n fold T f s0 a0) =
      some (-(((sumTo (fun k => n (iter step ((k + 1) * f) s0)) (T / f) : Nat) : Rat) / ((T / f : Nat) : Rat) / β) + off) := by
  obtain ⟨_, h2, _, h4⟩ := measureLoop_spec step n fold hf T s0 a0
  have hpos : 0 < T / f := Nat.div_pos hT hf
  unfold measureEnergy energyForAvgN
  rw [h2, h4, if_neg (by omega)]

/-- `timesteps_iter_zip_with_self` / `timesteps_sample_iter_zip`: the user function is called on the
zipped pairs (item, sampled state), stopping with the shorter of the two. -/
theorem measure_zip_calls {τ : Type v} (items : List τ) (samples : List σ) :
    (samples.foldl zipStep (some items, ([] : List (τ × σ)))).2 = items.zip samples := by
  have hnone : ∀ (samples : List σ) (acc : List (τ × σ)), (samples.foldl zipStep ((none : Option (List τ)), acc)).2 = acc := by
    intro samples
    induction samples with
    | nil => intro acc; rfl
    | cons s r ih => intro acc; exact ih acc
  have : ∀ (samples : List σ) (items : List τ) (acc : List (τ × σ)),
      (samples.foldl zipStep (some items, acc)).2 = acc ++ items.zip samples := by
    intro samples
    induction samples with
    | nil => intro items acc; simp
    | cons s r ih =>
      intro items acc
      cases items with
      | nil => simp only [List.foldl_cons, zipStep]; rw [hnone]; simp
      | cons x xs => simp only [List.foldl_cons, zipStep]; rw [ih]; simp
  simpa using this samples items []

end measure

/-! ### the offset of a generic sampler: only ACCEPTED constructor calls count (after seed C17-17)

`measure_energy` takes the sampler's offset as a parameter. For the generic sampler `Qmc` the offset is
what the `make_*interaction*` calls left in `Qmc::offset` (model: QmcModel/QmcCtor.lean, tied to
/repo by check C16 mode `qmcctor` and by the `genericm` / `generict` lines of this check). A call that
returns `Err` contributes nothing, whatever the diagonal of the matrix it was given. -/

section ctor
open Qmc.QmcCtor

/-- The offset after any sequence of constructor calls: the initial one minus the shifts reported by
the calls that were ACCEPTED (`contribution` is `none` exactly for a call that returns `Err`, see
`rejected_iff_no_contribution`; the shift of an accepted `*_and_offset` call is the smallest diagonal
entry of its matrix — `Qmc.C16.newOffset_spec`, `Qmc.C16.newDiagonalOffset_spec` — and 0 for the
plain constructors, `standalone`). -/
theorem ctor_offset_accepted_only (s : State) (cs : List Call) :
    (runCalls s cs).offset = s.offset - ((cs.filterMap (contribution s.nvars)).map (·.2)).sum := by
  rw [runCalls_eq]
  exact (foldl_apply1_closed _ s).2.1

/-- a call returns something else than `Ok` exactly when it has no contribution -/
theorem rejected_iff_no_contribution (s : State) (c : Call) :
    (make c.kind s c.mat c.vars).1 ≠ .ok () ↔ contribution s.nvars c = none := by
  unfold contribution
  cases hst : standalone c.kind c.mat c.vars with
  | ok r =>
    obtain ⟨I, d⟩ := r
    cases hr : outOfRange s.nvars c.vars with
    | true => rw [make_of_ok_out s hst hr]; simp
    | false => obtain ⟨sym, _, hm⟩ := make_of_ok_in s hst hr; rw [hm]; simp
  | err => rw [make_of_err s hst]; simp
  | panic => exact absurd hst (standalone_ne_panic _ _ _)

/-- a rejected call anywhere in the sequence is invisible: the sampler is the one built without it -/
theorem rejected_call_invisible (s : State) (cs cs' : List Call) (c : Call)
    (h : (make c.kind (runCalls s cs) c.mat c.vars).1 ≠ .ok ()) :
    runCalls s (cs ++ c :: cs') = runCalls s (cs ++ cs') := by
  have hs : (make c.kind (runCalls s cs) c.mat c.vars).2 = runCalls s cs :=
    Qmc.C16.qmc_make_reject_leaves_state _ _ _ _ h
  unfold runCalls at hs ⊢
  rw [List.foldl_append, List.foldl_append, List.foldl_cons, hs]

/-- `measure_energy` for a generic sampler built by the calls `cs` from a state `s`: the returned
energy is `-<n>/β + offset` with `<n>` the mean of `n` over exactly the sampled steps and the offset
made of the ACCEPTED calls only. -/
theorem measure_energy_accepted_calls {σ : Type u} {α : Type v} (step : σ → σ) (n : σ → Nat) (fold : α → σ → α)
    {f : Nat} (hf : 0 < f) (T : Nat) (hT : f ≤ T) (s0 : σ) (a0 : α) (β : Rat) (s : State) (cs : List Call) :
    measureEnergy β (runCalls s cs).offset (measureLoop step n fold T f s0 a0) =
      some (-(((sumTo (fun k => n (iter step ((k + 1) * f) s0)) (T / f) : Nat) : Rat) / ((T / f : Nat) : Rat) / β) +
        (s.offset - ((cs.filterMap (contribution s.nvars)).map (·.2)).sum)) := by
  rw [measure_energy step n fold hf T hT, ctor_offset_accepted_only]

/-- … and a sampler that is reused after a rejected call (before, between or after the accepted ones)
returns the energy of the sampler that never saw the call. -/
theorem measure_energy_rejected_call_invisible {σ : Type u} {α : Type v} (r : MState σ α) (β : Rat)
    (s : State) (cs cs' : List Call) (c : Call)
    (h : (make c.kind (runCalls s cs) c.mat c.vars).1 ≠ .ok ()) :
    measureEnergy β (runCalls s (cs ++ c :: cs')).offset r = measureEnergy β (runCalls s (cs ++ cs')).offset r := by
  rw [rejected_call_invisible s cs cs' c h]

end ctor

/-! ### the chunk loop of `timesteps_sample` / `parallel_timesteps_sample` -/

section chunk
variable {κ : Type u} (C : Container κ)

/-- the `while` loop ends: fuel `T` suffices (every chunk advances at least one step). -/
theorem chunk_terminates {s f : Nat} (hs : 0 < s) (hf : 0 < f) (T : Nat) (c0 : κ) :
    (chunkRun C T s f c0).remaining = 0 :=
  (chunkLoop_inv C hs hf T _ (chunkInv_init C T s f c0) (Nat.le_refl T)).2

/-- more fuel changes nothing: the result is the fixed point of the loop -/
theorem chunk_fuel_irrelevant {s f : Nat} (hs : 0 < s) (hf : 0 < f) (T : Nat) (c0 : κ) (extra : Nat) :
    chunkLoop C s f extra (chunkRun C T s f c0) = chunkRun C T s f c0 := by
  have h := chunk_terminates C hs hf T c0
  cases extra with
  | zero => rfl
  | succ e => unfold chunkLoop; rw [if_pos h]

/-- the event log, with every `adv t` written as `t` single steps, is the documented cadence: after
step `k` a swap step iff `s ∣ k`, then a sample iff `f ∣ k` (so a coinciding sample sees the swapped
replicas), for `k = 1 … T`. -/
theorem chunk_log {s f : Nat} (hs : 0 < s) (hf : 0 < f) (T : Nat) (c0 : κ) :
    expandEv (chunkRun C T s f c0).log = tickLog s f T := by
  obtain ⟨h, h0⟩ := chunkLoop_inv C hs hf T _ (chunkInv_init C T s f c0) (Nat.le_refl T)
  have := h.log_eq
  rw [h0] at this
  exact this

/-- no empty chunk: every `timesteps(t, beta)` call has `t ≥ 1` (so no `0/0` chunk energy) -/
theorem chunk_adv_pos {s f : Nat} (hs : 0 < s) (hf : 0 < f) (T : Nat) (c0 : κ) :
    ∀ t, Ev.adv t ∈ (chunkRun C T s f c0).log → 0 < t :=
  (chunkLoop_inv C hs hf T _ (chunkInv_init C T s f c0) (Nat.le_refl T)).1.pos

/-- exactly `T` steps in total, `⌊T/s⌋` swap steps and `⌊T/f⌋` samples -/
theorem chunk_counts {s f : Nat} (hs : 0 < s) (hf : 0 < f) (T : Nat) (c0 : κ) :
    totalAdv (chunkRun C T s f c0).log = T ∧
    (chunkRun C T s f c0).log.count Ev.swap = T / s ∧
    (chunkRun C T s f c0).log.count Ev.sample = T / f := by
  have h := chunk_log C hs hf T c0
  refine ⟨?_, ?_, ?_⟩
  · rw [← count_adv_expand, h, tickLog_count_adv]
  · rw [← count_swap_expand, h, tickLog_count_swap]
  · rw [← count_sample_expand, h, tickLog_count_sample]

/-- container state, energy accumulators and samples are what the event log says (for every
container, without any assumption on the energy function):
`energy_acc[i] = Σ_chunks te_i,chunk · t_chunk`. -/
theorem chunk_is_interp {s f : Nat} (hs : 0 < s) (hf : 0 < f) (T : Nat) (c0 : κ) :
    (chunkRun C T s f c0).toI = interp C (chunkRun C T s f c0).log { c := c0, acc := fun _ => 0, samples := [] } :=
  (chunkLoop_inv C hs hf T _ (chunkInv_init C T s f c0) (Nat.le_refl T)).1.sem

end chunk

section replicas
variable {ρ : Type u} {γ : Type v} (R : ReplicaSys ρ γ)

/-- each chunk's `timesteps(t, beta)` is the measuring loop with period 1: `t` steps, `t` measurements,
`total_n` summed over every step. -/
theorem timesteps_is_measure (t : Nat) (r : ρ) :
    (replicaRun R t r).st = iter R.step t r ∧ (replicaRun R t r).measured = t ∧
    (replicaRun R t r).totalN = sumTo (fun k => R.n (iter R.step (k + 1) r)) t :=
  replicaRun_spec R t r

theorem chunk_tickI {β off : Nat → Rat} (ha : Affine R β off) {s f : Nat} (hs : 0 < s) (hf : 0 < f)
    (T : Nat) (c0 : List ρ × γ) :
    (chunkRun (serialContainer R) T s f c0).toI = tickI R s f c0 T := by
  rw [chunk_is_interp _ hs hf, interp_expand R ha _ _ (chunk_adv_pos _ hs hf T c0), chunk_log _ hs hf,
    interp_tickLog R ha]

/-- the replicas end where the documented single-step process ends (step all; swap step after every
`s`-th step). -/
theorem chunk_final_state {β off : Nat → Rat} (ha : Affine R β off) {s f : Nat} (hs : 0 < s) (hf : 0 < f)
    (T : Nat) (c0 : List ρ × γ) :
    (chunkRun (serialContainer R) T s f c0).c = tickState R s c0 T :=
  congrArg IState.c (chunk_tickI R ha hs hf T c0)

/-- the returned states are those of the single-step process at the times `f, 2f, … ≤ T`, each taken
after the swap step that coincides with it. -/
theorem chunk_samples {β off : Nat → Rat} (ha : Affine R β off) {s f : Nat} (hs : 0 < s) (hf : 0 < f)
    (T : Nat) (c0 : List ρ × γ) :
    (chunkRun (serialContainer R) T s f c0).samples =
      (List.range (T / f)).map fun j => (tickState R s c0 ((j + 1) * f)).1.map R.state := by
  rw [← samplesUpTo_eq]
  exact congrArg IState.samples (chunk_tickI R ha hs hf T c0)

/-- the returned energy of slot `i` is the per-step average of `-(n/β_i) + off_i` over all `T` steps
(`n` read right after each step, before a swap): independent of how `T` is cut into chunks, hence of
`s` and `f`. -/
theorem chunk_energy {β off : Nat → Rat} (ha : Affine R β off) {s f : Nat} (hs : 0 < s) (hf : 0 < f)
    (T : Nat) (c0 : List ρ × γ) (i : Nat) :
    chunkEnergy T (chunkRun (serialContainer R) T s f c0) i = sumToQ (stepEnergy R s c0 i) T / (T : Rat) := by
  unfold chunkEnergy
  have := congrArg (fun x => IState.acc x i) (chunk_tickI R ha hs hf T c0)
  simp only [CState.toI, tickI] at this
  rw [this]

/-- same, written as `-<n>/β + offset` with `<n>` the mean over all `T` steps, for a slot that exists
throughout -/
theorem chunk_energy_mean_n {β off : Nat → Rat} (ha : Affine R β off) {s f : Nat} (hs : 0 < s) (hf : 0 < f)
    (T : Nat) (hT : 0 < T) (c0 : List ρ × γ) (i : Nat)
    (hi : ∀ k, k < T → i < (tickState R s c0 k).1.length) :
    chunkEnergy T (chunkRun (serialContainer R) T s f c0) i =
      -((sumToQ (fun k => (nAt R s c0 i k : Rat)) T / (T : Rat)) / β i) + off i := by
  rw [chunk_energy R ha hs hf]
  have e : sumToQ (stepEnergy R s c0 i) T = sumToQ (fun k => -((nAt R s c0 i k : Rat) / β i) + off i) T := by
    apply sumToQ_congr
    intro k hk
    unfold stepEnergy nAt
    have hlen : i < (preState R s c0 k).length := by unfold preState; simpa using hi k hk
    rw [List.getElem?_eq_getElem hlen]
    exact ha.2 i _
  rw [e, sumToQ_affine]
  have hb := ha.1 i
  have htq : (T : Rat) ≠ 0 := by exact_mod_cast (Nat.pos_iff_ne_zero.mp hT)
  field_simp

/-- serial driver = parallel driver: whatever order the per-replica single steps of a chunk are executed
in (any schedule giving every slot its `t` turns), the whole run — event log, replicas, energies,
samples — is the serial one. -/
theorem serial_eq_parallel_driver (pick : Nat → List ρ × γ → List Nat)
    (hv : ∀ t c, ValidSched (pick t c) c.1.length t) (T s f : Nat) (c0 : List ρ × γ) :
    chunkRun (parallelContainer R pick) T s f c0 = chunkRun (serialContainer R) T s f c0 := by
  have : parallelContainer R pick = serialContainer R := by
    unfold parallelContainer serialContainer
    congr 1
    funext t c
    exact parallelAdvance_eq_serial R pick t c (hv t c)
  rw [this]

end replicas

/-! ### `imaginary_time_fold` -/

/-- one state per slot -/
theorem itimeFold_length (st : List Bool) (sl : Slots) : (itimeStates st sl).length = sl.length :=
  itimeStates_length st sl

/-- the states shown are the sampler's own state, then the state after each slot except the last -/
theorem itimeFold_states (st : List Bool) (sl : Slots) :
    itimeStates st sl = (st :: statesVisited st sl).dropLast :=
  itimeStates_eq st sl

/-- the fold is a function of the visited states only and the sampler is returned unchanged -/
theorem itimeFold_pure {α : Type u} (c : Config) (fold : α → List Bool → α) (init : α) :
    (itimeFold c fold init).1 = c ∧
    (itimeFold c fold init).2 = (itimeStates c.state c.slots).foldl fold init := ⟨rfl, rfl⟩

/-! ### excluded inputs, stated explicitly -/

/-- `sampling_freq = Some(0)` panics as soon as a step is taken -/
theorem measure_freq_zero_panics (T : Nat) (hT : 0 < T) : measurePanics T 0 = true := by
  simp [measurePanics, hT]

/-- fewer steps than the period: nothing is measured and the returned energy is `0/0` (NaN) -/
theorem measure_energy_nan {σ : Type u} {α : Type v} (step : σ → σ) (n : σ → Nat) (fold : α → σ → α)
    {f : Nat} (hf : 0 < f) (T : Nat) (hT : T < f) (s0 : σ) (a0 : α) (β off : Rat) :
    measureEnergy β off (measureLoop step n fold T f s0 a0) = none := by
  obtain ⟨_, h2, _, _⟩ := measureLoop_spec step n fold hf T s0 a0
  unfold measureEnergy
  rw [h2, Nat.div_eq_of_lt hT, if_pos rfl]

/-- swap period 0: the chunk loop never makes progress, whatever the fuel (the Rust loop spins) -/
theorem chunk_swap_zero_never_terminates {κ : Type u} (C : Container κ) (T f : Nat) (c0 : κ) (fuel : Nat) :
    (chunkLoop C 0 f fuel (chunkInit T 0 f c0)).remaining = T :=
  chunkLoop_swap_zero_stuck C f fuel _ rfl

/-- sampling period 0: same (the Rust code panics even earlier, in `timesteps / sampling_freq`) -/
theorem chunk_sample_zero_never_terminates {κ : Type u} (C : Container κ) (T s : Nat) (c0 : κ) (fuel : Nat) :
    (chunkLoop C s 0 fuel (chunkInit T s 0 c0)).remaining = T :=
  chunkLoop_sample_zero_stuck C s fuel _ rfl

/-! ### non-vacuity: concrete instances -/

/-- a counter as sampler: `T = 7`, `f = 3` folds the states after steps 3 and 6 -/
example : (measureLoop (· + 1) id (pushFold id) 7 3 0 []).acc = [3, 6] := by decide

example : (measureLoop (· + 1) (fun s => 2 * s) (pushFold id) 7 3 0 []).totalN = 18 := by decide

/-- a clock as container: `T = 7`, `s = 2`, `f = 3` -/
def clock : Container Nat :=
  { advance := fun t c => (c + t, fun _ => 1), swapStep := fun c => c + 100, states := fun c => [[c % 2 == 1]] }

example : (chunkRun clock 7 2 3 0).log =
    [Ev.adv 2, Ev.swap, Ev.adv 1, Ev.sample, Ev.adv 1, Ev.swap, Ev.adv 2, Ev.swap, Ev.sample, Ev.adv 1] := by decide

/-- two counting replicas whose swap exchanges them; the energy hypothesis is satisfiable -/
def twoCounters : ReplicaSys Nat Unit :=
  { step := (· + 1), n := id, state := fun r => [r % 2 == 1], energy := fun _ a => -(a / 2) + 3,
    swap := fun c => (c.1.reverse, c.2) }

example : Affine twoCounters (fun _ => 2) (fun _ => 3) := ⟨fun _ => by norm_num, fun _ _ => rfl⟩

example : ValidSched [1, 0, 0, 1, 1, 0] 2 3 := by
  intro i hi
  have : i = 0 ∨ i = 1 := by omega
  rcases this with h | h <;> subst h <;> decide

example : (tickState twoCounters 2 ([0, 10], ()) 3).1 = [13, 3] := by decide

/-! the constructor corollaries: a REJECTED call with a non-zero smallest diagonal entry (variable named twice, identity
matrix on two variables: shift 1) and an ACCEPTED one with a non-zero shift (`zz` coupling: shift −1) -/

section ctorExamples
open Qmc.QmcCtor

def rejectedCall : Call := ⟨.newOff, [1,0,0,0, 0,1,0,0, 0,0,1,0, 0,0,0,1], [0, 0]⟩
def acceptedCall : Call := ⟨.diagOff, [-1, 1, 1, -1], [0, 1]⟩

theorem rejectedCall_rejected (s : State) : (make rejectedCall.kind s rejectedCall.mat rejectedCall.vars).1 ≠ .ok () := by
  intro hok
  obtain ⟨⟨⟨I, d⟩, hst⟩, _⟩ := (Qmc.C16.qmc_make_accepts_iff _ _ _ _).mp hok
  have := (standalone_wf hst).nodup
  simp [rejectedCall] at this

theorem acceptedCall_contribution : ∃ I, contribution 2 acceptedCall = some (I, -1) := by
  obtain ⟨_, h2, h3⟩ := Qmc.C16.newDiagonalOffset_spec [-1, 1, 1, -1] [0, 1]
  obtain ⟨⟨I, d⟩, hr⟩ := h2.mpr ⟨⟨by simp, by simp⟩, by simp⟩
  obtain ⟨hd, hmin, _⟩ := h3 I d hr
  have hd1 : d = -1 := by
    have := hmin (-1) (by simp)
    simp at hd
    rcases hd with rfl | rfl | rfl
    · rfl
    · norm_num at this
    · rfl
  subst hd1
  exact ⟨I, by simp [contribution, acceptedCall, standalone, hr, outOfRange]⟩

/-- a two-variable sampler built by the rejected call, the accepted one, the rejected one again: offset 1, the shift of
the rejected matrix (1 each time) is nowhere -/
example : (runCalls (State.init 2) [rejectedCall, acceptedCall, rejectedCall]).offset = 1 := by
  have h1 : contribution 2 rejectedCall = none :=
    (rejected_iff_no_contribution (State.init 2) rejectedCall).mp (rejectedCall_rejected _)
  obtain ⟨I, h2⟩ := acceptedCall_contribution
  rw [ctor_offset_accepted_only]
  have hn : (State.init 2).nvars = 2 := rfl
  rw [hn]
  simp [List.filterMap, h1, h2, State.init]

end ctorExamples

end Qmc.C17
