/-
C19 — the classical Ising sampler (`/repo/src/classical/graph.rs`) has the Boltzmann law of the
energy it reports as stationary law; moves never change the number of spins; the reported
energy is the direct sum over edges and biases.

Property theorems only. Model: `QmcModel/Classical.lean` (tied to the Rust code by `./check C19`:
exact trajectories with a scripted RNG, measured acceptance thresholds, measured one-step kernels).
Helper lemmas: `QmcProofs/Classical.lean`, `QmcProofs/Dist.lean`.

Quantifiers: every edge list (multi-edges, both signs, zero couplings), every bias list, every
number of spins `n`, every `β ≥ 0`, every state. Hypotheses that cannot be dropped:
* `WF edges n` (endpoints `< n`; otherwise the constructor panics),
* `NoSelfLoops edges` (an edge `(v,v)` makes the moves' ΔE wrong, see `self_loop_counterexample`),
* `0 ≤ β` (for `β < 0` `should_flip` accepts everything, the stationary law is uniform).
The worm move is *not* covered by the stationarity theorems: `worm_bias_sign_witness`,
`worm_not_stationary_witness` (finding F11) and `worm_selection_asymmetry_witness` (finding F17) show that it
does not preserve the Boltzmann law of the reported energy; `step3_invariant_partial` is the
statement that remains true (stationary iff the worm kernel is).
-/
import QmcProofs.Classical

namespace Qmc.C19
open Qmc Qmc.Classical Qmc.Dist

/-! ### reported energy = direct sum over edges and biases -/

/-- `get_energy` (computed from the sorted binding matrix, each coupling counted from both ends
with weight ½) equals `Σ_edges J·c_ij − Σ_i b_i σ_i` computed from the edge list, in the
sampler's sign convention (`c_ij = +1` for aligned spins, `σ = +1` for `true`). -/
theorem energy_eq (edges : List Edge) (biases : List Rat) (s : List Bool)
    (hwf : WF edges s.length) :
    getEnergy (bindingMat edges s.length) biases s = energyEdges edges biases s :=
  energy_eq_aux edges biases s s.length rfl hwf

/-- the edge-list form written out -/
theorem energyEdges_def (edges : List Edge) (biases : List Rat) (s : List Bool) :
    energyEdges edges biases s =
      (edges.map fun e => e.2 * cpl (st s e.1.1) (st s e.1.2)).sum
        - ((List.range s.length).map fun i => biases.getD i 0 * sgn (st s i)).sum := rfl

/-! ### the ΔE used by a move is the change of the reported energy -/

/-- spin move: `delta_e` of `do_spin_flip` = `get_energy(after) − get_energy(before)` -/
theorem spin_delta (edges : List Edge) (biases : List Rat) (s : List Bool) (i : Nat)
    (hwf : WF edges s.length) (hns : NoSelfLoops edges) (hi : i < s.length) :
    spinDelta (bindingMat edges s.length) biases s i =
      getEnergy (bindingMat edges s.length) biases (flipAt s i)
        - getEnergy (bindingMat edges s.length) biases s := by
  have h1 := energy_eq_aux edges biases (flipAt s i) s.length (length_flipAt s i) hwf
  rw [h1, energy_eq edges biases s hwf, spin_delta_aux edges biases s s.length i rfl hns hi]

/-- edge move: `delta_e` of `do_edge_flip` = `get_energy(after) − get_energy(before)` -/
theorem edge_delta (edges : List Edge) (biases : List Rat) (s : List Bool) (a b : Nat)
    (hwf : WF edges s.length) (hns : NoSelfLoops edges) (ha : a < s.length) (hb : b < s.length)
    (hab : a ≠ b) :
    edgeDelta (bindingMat edges s.length) biases s a b =
      getEnergy (bindingMat edges s.length) biases (flipAt (flipAt s a) b)
        - getEnergy (bindingMat edges s.length) biases s := by
  have h1 := energy_eq_aux edges biases (flipAt (flipAt s a) b) s.length
    (by rw [length_flipAt, length_flipAt]) hwf
  rw [h1, energy_eq edges biases s hwf, edge_delta_aux edges biases s s.length a b rfl hns ha hb hab]

/-- Without `NoSelfLoops` the statement is false: one spin with a self-loop `((0,0),1)`; the
move computes `ΔE = −4` while the reported energy does not change. -/
theorem self_loop_counterexample :
    spinDelta (bindingMat [((0, 0), 1)] 1) [0] [true] 0 = -4 ∧
      getEnergy (bindingMat [((0, 0), 1)] 1) [0] (flipAt [true] 0)
        - getEnergy (bindingMat [((0, 0), 1)] 1) [0] [true] = 0 := by
  decide +kernel

/-! ### what one move does (decision structure of the scripted model) -/

/-- `should_flip` accepts iff `ΔE ≤ 0` (then without drawing) or the uniform draw is below the threshold -/
theorem shouldFlip_spec (ch : Rat → Rat) (rs : RS) (de : Rat) :
    (shouldFlip ch rs de).1 = true ↔ de ≤ 0 ∨ rs.genF64.1 < ch de :=
  shouldFlip_accepts_iff ch rs de

/-- spin move = flip of the drawn site iff `should_flip` accepts the move's own `ΔE` -/
theorem doSpinFlip_spec (ch : Rat → Rat) (bm : List (List (Nat × Rat))) (biases : List Rat)
    (s : List Bool) (rs : RS) :
    (doSpinFlip ch bm biases (s, rs)).1 =
      if (shouldFlip ch (rs.genRange s.length).2 (spinDelta bm biases s (rs.genRange s.length).1)).1
      then flipAt s (rs.genRange s.length).1 else s := rfl

/-- edge move = flip of both endpoints of the selected edge iff `should_flip` accepts; the
selection (`pickEdge`) is a function of the RNG and the table only, never of the state. -/
theorem doEdgeFlip_spec (ch : Rat → Rat) (edges : List Edge) (bm : List (List (Nat × Rat)))
    (biases : List Rat) (cum : Option (List Rat × Rat)) (s : List Bool) (rs : RS) (e : Edge)
    (he : edges[(pickEdge edges.length cum rs).1]? = some e) :
    (doEdgeFlip ch edges bm biases cum (s, rs)).1 =
      if (shouldFlip ch (pickEdge edges.length cum rs).2 (edgeDelta bm biases s e.1.1 e.1.2)).1
      then flipAt (flipAt s e.1.1) e.1.2 else s := by
  have hne : edges.isEmpty = false := by
    cases edges with
    | nil => simp at he
    | cons a t => rfl
  unfold doEdgeFlip
  simp only [he, hne]
  rfl

/-- Metropolis ratio: acceptance probabilities of a move and its reverse differ by `exp(−βΔE)` -/
theorem metropolis_accept_ratio (β : ℝ) (hβ : 0 ≤ β) (de : ℚ) :
    acc β de = Real.exp (-β * (de : ℝ)) * acc β (-de) := by
  have h := acc_balance (α := Bool) (fun b => if b then de else 0) β hβ (fun b => !b)
    (fun a => by simp) (fun b => if b then -de else de)
    (fun a => by cases a <;> simp) false
  -- `false ↦ true`: energies `0 ↦ de`
  simp [boltz] at h
  rw [h, neg_mul]

/-! ### every move keeps the number of spins -/

theorem spin_move_length (ch : Rat → Rat) (bm : List (List (Nat × Rat))) (biases : List Rat)
    (x : List Bool × RS) : (doSpinFlip ch bm biases x).1.length = x.1.length :=
  length_doSpinFlip ch bm biases x

theorem edge_move_length (ch : Rat → Rat) (edges : List Edge) (bm : List (List (Nat × Rat)))
    (biases : List Rat) (cum : Option (List Rat × Rat)) (x : List Bool × RS) :
    (doEdgeFlip ch edges bm biases cum x).1.length = x.1.length :=
  length_doEdgeFlip ch edges bm biases cum x

theorem worm_move_length (ch : Rat → Rat) (bm : List (List (Nat × Rat))) (biases : List Rat)
    (doubles : Bool) (x : List Bool × RS) :
    (doWormFlip ch bm biases doubles x).1.length = x.1.length :=
  length_doWormFlip ch bm biases doubles x

/-- `do_time_step` (any move kind, any update counts, importance sampling or not) -/
theorem time_step_length (ch : Rat → Rat) (g : Sampler) (ns ne nw : Option Nat) (basic : Bool)
    (x : List Bool × RS) : (doTimeStep ch g ns ne nw basic x).1.length = x.1.length :=
  length_doTimeStep ch g ns ne nw basic x

/-! ### detailed balance of the spin and edge moves w.r.t. `exp(−β · reported energy)` -/

/-- one spin update is reversible for the Boltzmann weight of the *reported* energy -/
theorem spin_move_reversible (edges : List Edge) (biases : List Rat) (β : ℝ) (hβ : 0 ≤ β) {n : Nat}
    (hwf : WF edges n) (hns : NoSelfLoops edges) :
    Reversible (boltz (reportedE edges biases (n := n)) β) (spinKernel edges biases β) :=
  spinKernel_reversible edges biases β hβ hwf hns

/-- one edge update is reversible, for **any** state-independent edge-selection weights `q`
(uniform `1/E`, or the probabilities induced by the cumulative importance table) -/
theorem edge_move_reversible (edges : List Edge) (biases : List Rat) (β : ℝ) (hβ : 0 ≤ β) {n : Nat}
    (hwf : WF edges n) (hns : NoSelfLoops edges) (q : Fin edges.length → ℝ) :
    Reversible (boltz (reportedE edges biases (n := n)) β) (edgeKernel edges biases β q) :=
  edgeKernel_reversible edges biases β hβ hwf hns q

theorem spin_move_stochastic (edges : List Edge) (biases : List Rat) (β : ℝ) {n : Nat} (hn : 0 < n) :
    Stochastic (spinKernel edges biases β (n := n)) :=
  spinKernel_stochastic edges biases β hn

theorem edge_move_stochastic (edges : List Edge) (biases : List Rat) (β : ℝ) {n : Nat}
    (q : Fin edges.length → ℝ) (hq0 : ∀ k, 0 ≤ q k) (hq1 : ∑ k, q k = 1) :
    Stochastic (edgeKernel edges biases β q (n := n)) :=
  edgeKernel_stochastic edges biases β q hq0 hq1

/-! ### the `{spin + edge}` time step leaves the Boltzmann law invariant -/

/-- `do_time_step(.., only_basic_moves = true)` with any update counts and any edge-selection
weights: `Σ_a π(a) K(a,b) = π(b)` for `π = exp(−β · get_energy)`. -/
theorem step_invariant (edges : List Edge) (biases : List Rat) (β : ℝ) (hβ : 0 ≤ β) {n : Nat}
    (hn : 0 < n) (hwf : WF edges n) (hns : NoSelfLoops edges) (q : Fin edges.length → ℝ)
    (hq1 : ∑ k, q k = 1) (ns ne : Nat) :
    Invariant (boltz (reportedE edges biases (n := n)) β) (stepKernel edges biases β q ns ne) := by
  have hs : Invariant (boltz (reportedE edges biases (n := n)) β) (spinKernel edges biases β) :=
    reversible_invariant (spinKernel_reversible edges biases β hβ hwf hns)
      (rowSum_wsum (fun _ => rowSum_metropolis) (sum_uniform n hn))
  have he : Invariant (boltz (reportedE edges biases (n := n)) β) (edgeKernel edges biases β q) :=
    reversible_invariant (edgeKernel_reversible edges biases β hβ hwf hns q)
      (rowSum_wsum (fun _ => rowSum_metropolis) hq1)
  exact invariant_mix (invariant_iter hs ns) (invariant_iter he ne)

theorem step_stochastic (edges : List Edge) (biases : List Rat) (β : ℝ) {n : Nat} (hn : 0 < n)
    (q : Fin edges.length → ℝ) (hq0 : ∀ k, 0 ≤ q k) (hq1 : ∑ k, q k = 1) (ns ne : Nat) :
    Stochastic (stepKernel edges biases β q ns ne (n := n)) :=
  stochastic_mix (stochastic_iter (spinKernel_stochastic edges biases β hn) ns)
    (stochastic_iter (edgeKernel_stochastic edges biases β q hq0 hq1) ne)
    (by norm_num) (by norm_num)

/-- The three-move time step is invariant **provided the worm kernel is** — the only part of the
property that the code does not satisfy (see the witnesses below). -/
theorem step3_invariant_partial (edges : List Edge) (biases : List Rat) (β : ℝ) (hβ : 0 ≤ β)
    {n : Nat} (hn : 0 < n) (hwf : WF edges n) (hns : NoSelfLoops edges)
    (q : Fin edges.length → ℝ) (hq1 : ∑ k, q k = 1) (W : Cfg n → Cfg n → ℝ)
    (hW : Invariant (boltz (reportedE edges biases (n := n)) β) W) (ns ne nw : Nat) :
    Invariant (boltz (reportedE edges biases (n := n)) β)
      (stepKernel3 edges biases β q W ns ne nw) := by
  have hs : Invariant (boltz (reportedE edges biases (n := n)) β) (spinKernel edges biases β) :=
    reversible_invariant (spinKernel_reversible edges biases β hβ hwf hns)
      (rowSum_wsum (fun _ => rowSum_metropolis) (sum_uniform n hn))
  have he : Invariant (boltz (reportedE edges biases (n := n)) β) (edgeKernel edges biases β q) :=
    reversible_invariant (edgeKernel_reversible edges biases β hβ hwf hns q)
      (rowSum_wsum (fun _ => rowSum_metropolis) hq1)
  exact invariant_mix (invariant_iter hs ns) (invariant_mix (invariant_iter he ne) (invariant_iter hW nw))

/-! ### importance sampling table and the edge-less graph (findings F13, F18: fixed in /repo) -/

/-- the table total is `Σ|J|` -/
theorem importance_total (edges : List Edge) :
    (cumTable edges).2 = (edges.map fun e => absR e.2).sum :=
  cumTable_total edges

/-- the table is only installed when `Σ|J| > 0`; otherwise selection stays uniform -/
theorem importance_enabled_iff (edges : List Edge) :
    (importanceTable edges true = some (cumTable edges) ↔ 0 < (edges.map fun e => absR e.2).sum) ∧
    (importanceTable edges true = none ↔ (edges.map fun e => absR e.2).sum ≤ 0) ∧
    importanceTable edges false = none := by
  rw [← cumTable_total]
  unfold importanceTable
  by_cases h : (cumTable edges).2 > 0
  · have : ¬ (cumTable edges).2 ≤ 0 := not_le.mpr h
    simp [h, this]
  · have : (cumTable edges).2 ≤ 0 := not_lt.mp h
    simp [h, this]

/-- the table holds the running sums of `|J|` (recursive form), is non-decreasing, bounded by the
total and has one entry per edge -/
theorem importance_table_spec (es : List Edge) (e : Edge) :
    cumTable (es ++ [e]) =
        ((cumTable es).1 ++ [(cumTable es).2 + absR e.2], (cumTable es).2 + absR e.2) ∧
      (cumTable es).1.Pairwise (· ≤ ·) ∧ (∀ x ∈ (cumTable es).1, x ≤ (cumTable es).2) ∧
      (cumTable es).1.length = es.length :=
  ⟨cumTable_snoc es e, cumTable_sorted es⟩

/-- the selected index `k = #{entries < p}` is exactly the edge whose interval
`(S_k, S_{k+1}]` of running sums contains the draw `p` (entries before `k` are `< p`, entries
from `k` on are `≥ p`): under a uniform `p ∈ [0, Σ|J|)` edge `k` has probability `|J_k|/Σ|J|`,
whatever the state. -/
theorem importance_index_interval (edges : List Edge) (p : Rat) :
    (∀ x ∈ (cumTable edges).1.take ((cumTable edges).1.filter (· < p)).length, x < p) ∧
      (∀ x ∈ (cumTable edges).1.drop ((cumTable edges).1.filter (· < p)).length, p ≤ x) :=
  count_lt_sorted _ (cumTable_sorted edges).1 p

/-- the edge selection never panics on a graph with at least one edge (F13 fixed) -/
theorem edge_pick_never_panics (edges : List Edge) (enable : Bool) (rs : RS)
    (h : rs.panicked = false) (hne : edges ≠ []) :
    (pickEdge edges.length (importanceTable edges enable) rs).2.panicked = false :=
  pickEdge_no_panic edges enable rs h hne

/-- on a graph without edges the edge move does nothing and draws nothing (F18 fixed) -/
theorem edge_move_no_edges (ch : Rat → Rat) (bm : List (List (Nat × Rat))) (biases : List Rat)
    (cum : Option (List Rat × Rat)) (x : List Bool × RS) :
    doEdgeFlip ch [] bm biases cum x = x := by
  simp [doEdgeFlip]

/-! ### worm move: witnesses that the Boltzmann law of the reported energy is not preserved -/

/-- **F11, all graphs.** The energy the worm move feeds to `should_flip` (`total_he`, computed on
the state `s2` *after* the flips over the set `vars` of sites flipped an odd number of times) is
`bias energy(old state) − bias energy(new state)`: the opposite sign of the `new − old`
convention of `spin_delta`, `edge_delta` and `get_energy` (`energyEdges [] b s = −Σ b_i σ_i`). -/
theorem worm_accept_energy_sign (biases : List Rat) (vars : List Nat) (s2 : List Bool)
    (hnd : vars.Nodup) (hlt : ∀ v ∈ vars, v < s2.length) :
    wormHe biases s2 vars
      = energyEdges [] biases (vars.foldl flipAt s2) - energyEdges [] biases s2 :=
  wormHe_eq_old_minus_new biases vars s2 hnd hlt

/-- F11 witness graph: 2 spins, one antiferromagnetic edge `J = 1`, biases `(1, 1)` -/
def wE : List Edge := [((0, 1), 1)]
def wB : List Rat := [1, 1]
def wBm : List (List (Nat × Rat)) := bindingMat wE 2

theorem wp11 : wormProposals wBm wB true [true, true] =
    [(1/2, [false, false], [true, true], some (-4)), (1/2, [false, false], [true, true], some (-4))] := by
  decide +kernel
theorem wp00 : wormProposals wBm wB true [false, false] =
    [(1/2, [true, true], [false, false], some 4), (1/2, [true, true], [false, false], some 4)] := by
  decide +kernel
theorem wp01 : wormProposals wBm wB true [false, true] =
    [(1/2, [true, false], [false, true], some 0), (1/2, [true, false], [false, true], some 0)] := by
  decide +kernel
theorem wp10 : wormProposals wBm wB true [true, false] =
    [(1/2, [false, true], [true, false], some 0), (1/2, [false, true], [true, false], some 0)] := by
  decide +kernel

/-- The worm's acceptance energy has the opposite sign of the reported energy change: from `11`
the only proposal is `00`; the reported energy rises by `4` (−1 → 3) but the move tests `−4`
(always accepted); from `00` it tests `+4` although the energy falls by 4. -/
theorem worm_bias_sign_witness :
    (∀ p ∈ wormProposals wBm wB true [true, true], p.2.1 = [false, false] ∧ p.2.2.2 = some (-4)) ∧
    (∀ p ∈ wormProposals wBm wB true [false, false], p.2.1 = [true, true] ∧ p.2.2.2 = some 4) ∧
    getEnergy wBm wB [false, false] - getEnergy wBm wB [true, true] = 4 := by
  refine ⟨?_, ?_, ?_⟩
  · rw [wp11]; decide +kernel
  · rw [wp00]; decide +kernel
  · decide +kernel

theorem wk_11_00 (ch : Rat → Rat) : wormK ch wBm wB true [true, true] [false, false] = 1 := by
  unfold wormK wormRow; rw [wp11]; simp [rowProb, accProb]; norm_num
theorem wk_00_00 (ch : Rat → Rat) :
    wormK ch wBm wB true [false, false] [false, false] = 1 - accProb ch 4 := by
  unfold wormK wormRow; rw [wp00]; simp [rowProb]; ring
theorem wk_01_00 (ch : Rat → Rat) : wormK ch wBm wB true [false, true] [false, false] = 0 := by
  unfold wormK wormRow; rw [wp01]; simp [rowProb]
theorem wk_10_00 (ch : Rat → Rat) : wormK ch wBm wB true [true, false] [false, false] = 0 := by
  unfold wormK wormRow; rw [wp10]; simp [rowProb]

/-- **F11.** For every acceptance threshold function `ch` (whatever `exp` is) and every `β > 0`
the Boltzmann law of the reported energy is not stationary under the worm update on the witness
graph: the inflow into `00` is `π(00)(1−a) + π(11) > π(00)`. -/
theorem worm_not_stationary_witness (ch : Rat → Rat) (β : ℝ) (hβ : 0 < β) :
    ((statesOrdered 2).map fun a =>
        Real.exp (-β * (getEnergy wBm wB a : ℝ)) * (wormK ch wBm wB true a [false, false] : ℝ)).sum
      ≠ Real.exp (-β * (getEnergy wBm wB [false, false] : ℝ)) := by
  have hs : statesOrdered 2 = [[false, false], [false, true], [true, false], [true, true]] := by
    decide +kernel
  have e00 : getEnergy wBm wB [false, false] = 3 := by decide +kernel
  have e11 : getEnergy wBm wB [true, true] = -1 := by decide +kernel
  rw [hs]
  simp only [List.map_cons, List.map_nil, List.sum_cons, List.sum_nil, wk_11_00, wk_00_00, wk_01_00,
    wk_10_00, e00, e11]
  have ha0 := accProb_nonneg ch 4
  have ha1 : ((accProb ch 4 : ℚ) : ℝ) ≤ 1 := by exact_mod_cast accProb_le_one ch 4
  have ha0' : (0 : ℝ) ≤ ((accProb ch 4 : ℚ) : ℝ) := by exact_mod_cast ha0
  have hlt : Real.exp (-β * ((3 : ℚ) : ℝ)) < Real.exp (-β * ((-1 : ℚ) : ℝ)) := by
    apply Real.exp_lt_exp.mpr; push_cast; nlinarith
  have hpos : 0 < Real.exp (-β * ((3 : ℚ) : ℝ)) := Real.exp_pos _
  push_cast at *
  intro h
  nlinarith

/-- selection-asymmetry witness: antiferromagnetic triangle `0-1-2` (the graph of the pinned worm
tests) plus a pendant spin `3` on site `2`, all `J = 1`, **no biases** -/
def aE : List Edge := [((0, 1), 1), ((1, 2), 1), ((2, 0), 1), ((2, 3), 1)]
def aB : List Rat := [0, 0, 0, 0]
def aBm : List (List (Nat × Rat)) := bindingMat aE 4

/-- **F17, worm selection asymmetry.** Even without biases (so F11 does not enter) the worm update
does not preserve the Boltzmann law: on the witness graph the ground state `0010` receives only
`3/4` of its own weight, for every `β` and every acceptance function. (The number of candidate
continuations differs between a path and its reverse.) -/
theorem worm_selection_asymmetry_witness (ch : Rat → Rat) (β : ℝ) :
    ((statesOrdered 4).map fun a =>
        Real.exp (-β * (getEnergy aBm aB a : ℝ))
          * (wormK ch aBm aB true a [false, false, true, false] : ℝ)).sum
      = 3 / 4 * Real.exp (-β * (getEnergy aBm aB [false, false, true, false] : ℝ)) := by
  have hch : ∀ a ∈ statesOrdered 4,
      wormK ch aBm aB true a [false, false, true, false]
        = wormK (fun _ => 1) aBm aB true a [false, false, true, false] := by
    intro a ha
    unfold wormK
    rw [wormRow_congr ch (fun _ => 1) aBm aB true a]
    revert a
    decide +kernel
  have h1 : ((statesOrdered 4).map fun a =>
        Real.exp (-β * (getEnergy aBm aB a : ℝ))
          * (wormK ch aBm aB true a [false, false, true, false] : ℝ))
      = ((statesOrdered 4).map fun a =>
        Real.exp (-β * (getEnergy aBm aB a : ℝ))
          * (wormK (fun _ => 1) aBm aB true a [false, false, true, false] : ℝ)) := by
    apply List.map_congr_left
    intro a ha
    rw [hch a ha]
  rw [h1, inflow_energy_conserving (statesOrdered 4) (getEnergy aBm aB)
    (fun a => wormK (fun _ => 1) aBm aB true a [false, false, true, false])
    (getEnergy aBm aB [false, false, true, false]) β (by decide +kernel)]
  have hc : ((statesOrdered 4).map fun a =>
      wormK (fun _ => 1) aBm aB true a [false, false, true, false]).sum = 3 / 4 := by
    decide +kernel
  rw [hc]; push_cast; ring

/-! ### worm move: the tolerance on energy differences is absolute (`f64::EPSILON`) -/

/-- chain `0-1-2` with coupling `J`, no biases -/
def tE (J : Rat) : List Edge := [((0, 1), J), ((1, 2), J)]
def tB : List Rat := [0, 0, 0]

/-- **Worm tolerance witness (energy units).** `do_worm_flip` treats an energy difference as zero
when its absolute value is below `f64::EPSILON = 2^-52`, whatever the size of the couplings. With
`J = 2^-60` every move looks free: from `000` the worm reaches `011` with probability `1/3`
although the reported energies differ (`2^-59` vs `0`), for every acceptance function; with
`J = 1` (same graph, same physics after rescaling `β`) that transition has probability `0`.
So the sampler is not invariant under the change of energy unit `(J, h, 1/β) → c·(J, h, 1/β)` and
for `|J| < 2^-53` the worm update does not conserve the energy of a bias-free system. -/
theorem worm_absolute_tolerance_witness (ch : Rat → Rat) :
    wormK ch (bindingMat (tE (1 / 2 ^ 60)) 3) tB true [false, false, false] [false, true, true] = 1 / 3 ∧
    getEnergy (bindingMat (tE (1 / 2 ^ 60)) 3) tB [false, false, false] = 1 / 2 ^ 59 ∧
    getEnergy (bindingMat (tE (1 / 2 ^ 60)) 3) tB [false, true, true] = 0 ∧
    wormK ch (bindingMat (tE 1) 3) tB true [false, false, false] [false, true, true] = 0 := by
  have h1 : wormRow ch (bindingMat (tE (1 / 2 ^ 60)) 3) tB true [false, false, false]
      = wormRow (fun _ => 1) (bindingMat (tE (1 / 2 ^ 60)) 3) tB true [false, false, false] := by
    apply wormRow_congr
    decide +kernel
  have h2 : wormRow ch (bindingMat (tE 1) 3) tB true [false, false, false]
      = wormRow (fun _ => 1) (bindingMat (tE 1) 3) tB true [false, false, false] := by
    apply wormRow_congr
    decide +kernel
  unfold wormK
  rw [h1, h2]
  decide +kernel

/-! ### non-vacuity: the hypotheses are satisfiable by non-trivial instances -/

/-- frustrated triangle with a double edge, couplings of both signs -/
def exE : List Edge := [((0, 1), 1), ((1, 2), 1), ((2, 0), 1), ((0, 1), -1/2), ((1, 0), 3/8)]

example : WF exE 3 ∧ NoSelfLoops exE := by
  constructor <;> intro e he <;> simp [exE] at he <;> rcases he with h | h | h | h | h <;> simp [h]

example : ∑ _k : Fin exE.length, (1 : ℝ) / exE.length = 1 := sum_uniform _ (by decide)

/-- the energy theorem on that instance, evaluated -/
example : getEnergy (bindingMat exE 3) [1/4, -1/2, 0] [true, false, true] = -13/8 ∧
    energyEdges exE [1/4, -1/2, 0] [true, false, true] = -13/8 := by decide +kernel

/-- a move whose `ΔE` is positive exists (the acceptance test is exercised) -/
example : spinDelta (bindingMat exE 3) [1/4, -1/2, 0] [true, false, true] 1 = 19/4 := by decide +kernel

end Qmc.C19
