/-
C19, second half — "repeated classical time steps sample spin states with probability ∝ exp(−βE)".

`QmcProps/C19.lean` proves that the Boltzmann weight of the reported energy is *invariant* under
the `{spin + edge}` time step (`step_invariant`).  Invariance alone does not identify the law the
chain samples.  This file adds **uniqueness**: under an explicit condition on `(ns, β, energy)`
the time-step kernel is irreducible and every invariant vector of total mass one — of any sign —
is `exp(−βE)/Z`; and the condition is **necessary**: when it fails the step conserves the parity of
the number of up spins and a second invariant probability vector exists.

Headline theorems only.  Generic Markov-chain facts: `QmcProofs/MarkovUnique.lean`
(`Qmc.Markov.invariant_pos`, `invariant_unique`, …); the sampler's kernels:
`QmcProofs/ClassicalErgodic.lean`.

The condition (`n ≥ 1` spins, `ns` = number of spin updates of a step):
    `ns` odd   ∨   ( `ns ≥ 1`  ∧  `β > 0`  ∧  the reported energy is not constant ).
* `ns` odd: single flips are always proposed and never rejected with probability one
  (`min 1 (exp(−βΔE)) > 0`), and an accepted flip can be walked back and forth, so an odd number of
  updates contains every single flip.
* otherwise some proposal must be rejectable (`β > 0` and `ΔE > 0` somewhere): the holding
  probability at that state lets paths of every large length exist.
* if both fail (`ns` even, and `β = 0` or a constant energy — e.g. no couplings and no fields) every
  spin update flips exactly one spin and every edge update two: parity is conserved.
Convergence: under the second alternative the kernel is primitive and the law of the chain
converges geometrically in `ℓ¹` (`boltzmann_convergence`); under the first alternative alone the
chain can be periodic (`spin_only_periodic_beta_zero`), see `design_notes/C19.md`.
-/
import QmcProps.C19
import QmcProofs.ClassicalErgodic

namespace Qmc.C19
open Qmc Qmc.Classical Qmc.Dist Qmc.Markov Qmc.ClassicalErgodic

/-! ### irreducibility of the time step: exact condition -/

/-- The `{spin + edge}` time-step kernel (any `ne`, any non-negative edge-selection weights) is
irreducible **iff** the number of spin updates is odd, or it is `≥ 1`, `β > 0` and the reported
energy is not constant. -/
theorem step_irreducible_iff (edges : List Edge) (biases : List Rat) (β : ℝ) {n : Nat} (hn : 0 < n)
    (hwf : WF edges n) (hns : NoSelfLoops edges) (q : Fin edges.length → ℝ) (hq0 : ∀ k, 0 ≤ q k)
    (ns ne : Nat) :
    Markov.Irreducible (stepKernel edges biases β q ns ne (n := n)) ↔
      (ns % 2 = 1 ∨ (1 ≤ ns ∧ 0 < β ∧
        ∃ x y : Cfg n, reportedE edges biases x ≠ reportedE edges biases y)) := by
  rw [stepKernel_irreducible_iff edges biases β hn hwf q hq0 ns ne,
    mixing_iff edges biases β hwf hns ns]

/-- spin updates only (`ns` of them; also meaningful for a graph without edges) -/
theorem spin_updates_irreducible (edges : List Edge) (biases : List Rat) (β : ℝ) {n : Nat}
    (hn : 0 < n) (hwf : WF edges n) (hns : NoSelfLoops edges) (ns : Nat)
    (hmix : ns % 2 = 1 ∨ (1 ≤ ns ∧ 0 < β ∧
      ∃ x y : Cfg n, reportedE edges biases x ≠ reportedE edges biases y)) :
    Markov.Irreducible (Dist.iter (spinKernel edges biases β (n := n)) ns) :=
  spinIter_irreducible edges biases β hn ((mixing_iff edges biases β hwf hns ns).mpr hmix)

/-! ### uniqueness of the stationary law -/

/-- **Uniqueness.**  Under the condition above, every invariant vector `μ` of the time-step kernel
with total mass one — no sign condition on `μ` — is the normalised Boltzmann law
`exp(−β·get_energy)/Z`. -/
theorem boltzmann_unique_stationary (edges : List Edge) (biases : List Rat) (β : ℝ) (hβ : 0 ≤ β)
    {n : Nat} (hn : 0 < n) (hwf : WF edges n) (hns : NoSelfLoops edges)
    (q : Fin edges.length → ℝ) (hq0 : ∀ k, 0 ≤ q k) (hq1 : ∑ k, q k = 1) (ns ne : Nat)
    (hmix : ns % 2 = 1 ∨ (1 ≤ ns ∧ 0 < β ∧
      ∃ x y : Cfg n, reportedE edges biases x ≠ reportedE edges biases y))
    (μ : Cfg n → ℝ) (hμ : Invariant μ (stepKernel edges biases β q ns ne))
    (hμ1 : ∑ x, μ x = 1) :
    ∀ x, μ x = boltz (reportedE edges biases) β x / ∑ y : Cfg n, boltz (reportedE edges biases) β y :=
  invariant_unique_normalised (stepKernel_nonneg edges biases β q hq0 ns ne)
    ((step_irreducible_iff edges biases β hn hwf hns q hq0 ns ne).mpr hmix)
    (step_invariant edges biases β hβ hn hwf hns q hq1 ns ne) hμ (boltz_pos _ β) hμ1

/-- Every invariant vector (any sign, any mass) is a multiple of the Boltzmann weight. -/
theorem stationary_proportional_boltzmann (edges : List Edge) (biases : List Rat) (β : ℝ)
    (hβ : 0 ≤ β) {n : Nat} (hn : 0 < n) (hwf : WF edges n) (hns : NoSelfLoops edges)
    (q : Fin edges.length → ℝ) (hq0 : ∀ k, 0 ≤ q k) (hq1 : ∑ k, q k = 1) (ns ne : Nat)
    (hmix : ns % 2 = 1 ∨ (1 ≤ ns ∧ 0 < β ∧
      ∃ x y : Cfg n, reportedE edges biases x ≠ reportedE edges biases y))
    (μ : Cfg n → ℝ) (hμ : Invariant μ (stepKernel edges biases β q ns ne)) :
    ∃ r : ℝ, ∀ x, μ x = r * boltz (reportedE edges biases) β x :=
  invariant_proportional (stepKernel_nonneg edges biases β q hq0 ns ne)
    ((step_irreducible_iff edges biases β hn hwf hns q hq0 ns ne).mpr hmix)
    (step_invariant edges biases β hβ hn hwf hns q hq1 ns ne) hμ (boltz_pos _ β)

/-- Uniqueness for a step made of `ns` spin updates only (no condition on the edge list beyond
well-formedness; covers graphs without edges, for which `Σ q = 1` is unsatisfiable). -/
theorem boltzmann_unique_stationary_spin_only (edges : List Edge) (biases : List Rat) (β : ℝ)
    (hβ : 0 ≤ β) {n : Nat} (hn : 0 < n) (hwf : WF edges n) (hns : NoSelfLoops edges) (ns : Nat)
    (hmix : ns % 2 = 1 ∨ (1 ≤ ns ∧ 0 < β ∧
      ∃ x y : Cfg n, reportedE edges biases x ≠ reportedE edges biases y))
    (μ : Cfg n → ℝ) (hμ : Invariant μ (Dist.iter (spinKernel edges biases β) ns))
    (hμ1 : ∑ x, μ x = 1) :
    ∀ x, μ x = boltz (reportedE edges biases) β x / ∑ y : Cfg n, boltz (reportedE edges biases) β y :=
  invariant_unique_normalised (nonneg_iter (spinKernel_nonneg edges biases β) ns)
    (spin_updates_irreducible edges biases β hn hwf hns ns hmix)
    (invariant_iter (reversible_invariant (spinKernel_reversible edges biases β hβ hwf hns)
      (rowSum_wsum (fun _ => rowSum_metropolis) (sum_uniform n hn))) ns)
    hμ (boltz_pos _ β) hμ1

/-! ### the parity obstruction: the condition is necessary -/

/-- **Parity conservation.**  With an even number of spin updates and `β = 0` (every proposal is
accepted) a time step never changes the parity of the number of up spins: transitions between
configurations of different parity have probability exactly `0`, for every graph, every `ne`, every
edge-selection rule. -/
theorem step_conserves_parity_beta_zero (edges : List Edge) (biases : List Rat) {n : Nat}
    (hwf : WF edges n) (q : Fin edges.length → ℝ) (k ne : Nat) (x y : Cfg n)
    (hpar : oddUps y ≠ oddUps x) : stepKernel edges biases 0 q (2 * k) ne x y = 0 := by
  by_contra h
  exact hpar (stepKernel_conserves_parity edges biases 0 hwf q ne
    (Or.inr ⟨by omega, noReject_beta_zero edges biases⟩) x y h)

/-- **Non-uniqueness.**  Whenever the condition of `boltzmann_unique_stationary` fails, the time
step has an invariant probability vector different from the Boltzmann law (the Boltzmann law
conditioned on an even number of up spins). -/
theorem parity_obstruction (edges : List Edge) (biases : List Rat) (β : ℝ) (hβ : 0 ≤ β) {n : Nat}
    (hn : 0 < n) (hwf : WF edges n) (hns : NoSelfLoops edges) (q : Fin edges.length → ℝ)
    (hq1 : ∑ k, q k = 1) (ns ne : Nat)
    (hnot : ¬ (ns % 2 = 1 ∨ (1 ≤ ns ∧ 0 < β ∧
      ∃ x y : Cfg n, reportedE edges biases x ≠ reportedE edges biases y))) :
    ∃ μ : Cfg n → ℝ, (∀ x, 0 ≤ μ x) ∧ ∑ x, μ x = 1 ∧
      Invariant μ (stepKernel edges biases β q ns ne) ∧
      μ ≠ fun x => boltz (reportedE edges biases) β x / ∑ y : Cfg n, boltz (reportedE edges biases) β y := by
  rw [← mixing_iff edges biases β hwf hns ns, not_mixing_iff] at hnot
  exact exists_other_invariant_prob oddUps
    (stepKernel_conserves_parity edges biases β hwf q ne hnot)
    (step_invariant edges biases β hβ hn hwf hns q hq1 ns ne) (boltz_pos _ β)
    (parity_not_constant hn)

/-- **Uniqueness holds exactly under the condition.** -/
theorem boltzmann_unique_iff (edges : List Edge) (biases : List Rat) (β : ℝ) (hβ : 0 ≤ β) {n : Nat}
    (hn : 0 < n) (hwf : WF edges n) (hns : NoSelfLoops edges) (q : Fin edges.length → ℝ)
    (hq0 : ∀ k, 0 ≤ q k) (hq1 : ∑ k, q k = 1) (ns ne : Nat) :
    (∀ μ : Cfg n → ℝ, Invariant μ (stepKernel edges biases β q ns ne) → (∀ x, 0 ≤ μ x) →
        ∑ x, μ x = 1 →
        μ = fun x => boltz (reportedE edges biases) β x / ∑ y : Cfg n, boltz (reportedE edges biases) β y) ↔
      (ns % 2 = 1 ∨ (1 ≤ ns ∧ 0 < β ∧
        ∃ x y : Cfg n, reportedE edges biases x ≠ reportedE edges biases y)) := by
  constructor
  · intro huniq
    by_contra hnot
    obtain ⟨μ, h0, h1, hinv, hne⟩ :=
      parity_obstruction edges biases β hβ hn hwf hns q hq1 ns ne hnot
    exact hne (huniq μ hinv h0 h1)
  · intro hmix μ hμ _ hμ1
    funext x
    exact boltzmann_unique_stationary edges biases β hβ hn hwf hns q hq0 hq1 ns ne hmix μ hμ hμ1 x

/-! ### convergence (quantitative, in `ℓ¹` = 2 × total variation) -/

/-- **Convergence to the Boltzmann law.**  With at least one spin update per step, `β > 0` and a
non-constant reported energy the time-step kernel is primitive and the law of the chain converges
geometrically: there are a block length `N ≥ 1` and a rate `ρ ∈ [0,1)` such that for every start
vector `μ` of mass one (a point mass, any probability vector, even a signed vector) and every
number `t` of time steps
`Σ_y |(μ Kᵗ)(y) − exp(−βE(y))/Z| ≤ ρ^⌊t/N⌋ · Σ_y |μ(y) − exp(−βE(y))/Z|`. -/
theorem boltzmann_convergence (edges : List Edge) (biases : List Rat) (β : ℝ) (hβ : 0 < β) {n : Nat}
    (hn : 0 < n) (hwf : WF edges n) (hns : NoSelfLoops edges) (q : Fin edges.length → ℝ)
    (hq0 : ∀ k, 0 ≤ q k) (hq1 : ∑ k, q k = 1) (ns ne : Nat) (hns1 : 1 ≤ ns)
    (hE : ∃ x y : Cfg n, reportedE edges biases x ≠ reportedE edges biases y) :
    ∃ N : ℕ, 1 ≤ N ∧ ∃ ρ : ℝ, 0 ≤ ρ ∧ ρ < 1 ∧ ∀ μ : Cfg n → ℝ, ∑ x, μ x = 1 → ∀ t,
      l1 (fun y => push μ (Dist.iter (stepKernel edges biases β q ns ne) t) y
          - boltz (reportedE edges biases) β y / ∑ z : Cfg n, boltz (reportedE edges biases) β z)
        ≤ ρ ^ (t / N) * l1 (fun y => μ y
          - boltz (reportedE edges biases) β y / ∑ z : Cfg n, boltz (reportedE edges biases) β z) := by
  have hrej : ∃ (x : Cfg n) (i : Fin n), accAt edges biases β x i < 1 :=
    (exists_reject_iff edges biases β).mpr
      ⟨hβ, (exists_uphill_iff_energy_not_const edges biases hwf hns).mpr hE⟩
  have hZ : (∑ z : Cfg n, boltz (reportedE edges biases) β z) ≠ 0 :=
    (Finset.sum_pos (fun z _ => boltz_pos _ β z) Finset.univ_nonempty).ne'
  obtain ⟨N, hN, ρ, h0, h1, hconv⟩ := geometric_convergence
    (step_stochastic edges biases β hn q hq0 hq1 ns ne)
    (stepKernel_primitive edges biases β hn q hq0 hns1 ne hrej)
    (invariant_div_const (step_invariant edges biases β hβ.le hn hwf hns q hq1 ns ne)
      (∑ z : Cfg n, boltz (reportedE edges biases) β z))
  refine ⟨N, hN, ρ, h0, h1, fun μ hμ t => hconv μ ?_ t⟩
  rw [hμ, ← Finset.sum_div, div_self hZ]

/-- **Periodicity without rejections.**  At `β = 0` the spin-only chain returns to its start
configuration with probability `0` after every odd number of updates, although it is irreducible
for an odd `ns` and its unique stationary law charges every configuration: uniqueness holds there
(`boltzmann_unique_stationary_spin_only`) but convergence of the law does not. -/
theorem spin_only_periodic_beta_zero (edges : List Edge) (biases : List Rat) {n : Nat} (k : Nat)
    (x : Cfg n) : Dist.iter (spinKernel edges biases 0) (2 * k + 1) x x = 0 :=
  spinIter_odd_return_zero edges biases 0 (noReject_beta_zero edges biases) k x

/-! ### concrete witness and non-vacuity -/

/-- two spins joined by one antiferromagnetic bond `J = 1`, no fields -/
def uE : List Edge := [((0, 1), 1)]
def uB : List Rat := [0, 0]

theorem uE_wf : WF uE 2 ∧ NoSelfLoops uE := by
  constructor <;> intro e he <;> simp [uE] at he <;> simp [he]

/-- the only edge is selected with probability one -/
theorem uE_q : ∑ _k : Fin uE.length, (1 : ℝ) = 1 := by
  have h : uE.length = 1 := rfl
  rw [Finset.sum_const, Finset.card_univ, Fintype.card_fin, h]
  simp

/-- **Witness of the obstruction** (`n = 2`, one bond, `β = 0`, two spin updates per step, any
number of edge updates): there is an invariant probability vector which is not the (here uniform)
Boltzmann law.  The chain started in `00` only ever visits `00` and `11`. -/
theorem parity_obstruction_witness (ne : Nat) :
    ∃ μ : Cfg 2 → ℝ, (∀ x, 0 ≤ μ x) ∧ ∑ x, μ x = 1 ∧
      Invariant μ (stepKernel uE uB 0 (fun _ => 1) 2 ne) ∧
      μ ≠ fun x => boltz (reportedE uE uB) 0 x / ∑ y : Cfg 2, boltz (reportedE uE uB) 0 y :=
  parity_obstruction uE uB 0 le_rfl (by norm_num) uE_wf.1 uE_wf.2 (fun _ => 1)
    uE_q 2 ne (by
      rintro (h | ⟨_, h, _⟩)
      · omega
      · exact lt_irrefl _ h)

/-- on the witness the Boltzmann law at `β = 0` is the uniform law `1/4` -/
example (x : Cfg 2) :
    boltz (reportedE uE uB) 0 x / ∑ y : Cfg 2, boltz (reportedE uE uB) 0 y = 1 / 4 := by
  simp [boltz]

/-- from `00` the state `01` is unreachable in one step of the witness chain, for every `ne` -/
example (ne : Nat) :
    stepKernel uE uB 0 (fun _ => 1) (2 * 1) ne (fun _ : Fin 2 => false)
      (flipN (⟨0, by norm_num⟩ : Fin 2).val (fun _ : Fin 2 => false)) = 0 :=
  step_conserves_parity_beta_zero uE uB uE_wf.1 _ 1 ne _ _ (parity_not_constant (by norm_num))

/-- the energy of the witness graph is not constant (`E(00) = 1`, `E(01) = −1`) … -/
theorem uE_energy_not_const :
    ∃ x y : Cfg 2, reportedE uE uB x ≠ reportedE uE uB y :=
  ⟨fun _ => false, fun j => decide (j.val = 1), by decide +kernel⟩

/-- … so the hypotheses of `boltzmann_unique_stationary` are satisfiable with an **even** number
of spin updates (same graph, `β = 1`, `ns = 2`, `ne = 1`): there the Boltzmann law is the only
stationary law. -/
example (μ : Cfg 2 → ℝ) (hμ : Invariant μ (stepKernel uE uB 1 (fun _ => 1) 2 1))
    (hμ1 : ∑ x, μ x = 1) :
    ∀ x, μ x = boltz (reportedE uE uB) 1 x / ∑ y : Cfg 2, boltz (reportedE uE uB) 1 y :=
  boltzmann_unique_stationary uE uB 1 (by norm_num) (by norm_num) uE_wf.1 uE_wf.2 (fun _ => 1)
    (fun _ => by norm_num) uE_q 2 1
    (Or.inr ⟨by norm_num, by norm_num, uE_energy_not_const⟩) μ hμ hμ1

/-- the hypotheses of `boltzmann_convergence` on the same instance -/
example : ∃ N : ℕ, 1 ≤ N ∧ ∃ ρ : ℝ, 0 ≤ ρ ∧ ρ < 1 ∧ ∀ μ : Cfg 2 → ℝ, ∑ x, μ x = 1 → ∀ t,
    l1 (fun y => push μ (Dist.iter (stepKernel uE uB 1 (fun _ => 1) 2 1) t) y
        - boltz (reportedE uE uB) 1 y / ∑ z : Cfg 2, boltz (reportedE uE uB) 1 z)
      ≤ ρ ^ (t / N) * l1 (fun y => μ y
        - boltz (reportedE uE uB) 1 y / ∑ z : Cfg 2, boltz (reportedE uE uB) 1 z) :=
  boltzmann_convergence uE uB 1 (by norm_num) (by norm_num) uE_wf.1 uE_wf.2 (fun _ => 1)
    (fun _ => by norm_num) uE_q 2 1 (by norm_num) uE_energy_not_const

/-- … and with an odd number of spin updates at `β = 0` (three updates): unique as well. -/
example (μ : Cfg 2 → ℝ) (hμ : Invariant μ (stepKernel uE uB 0 (fun _ => 1) 3 1))
    (hμ1 : ∑ x, μ x = 1) :
    ∀ x, μ x = boltz (reportedE uE uB) 0 x / ∑ y : Cfg 2, boltz (reportedE uE uB) 0 y :=
  boltzmann_unique_stationary uE uB 0 le_rfl (by norm_num) uE_wf.1 uE_wf.2 (fun _ => 1)
    (fun _ => by norm_num) uE_q 3 1 (Or.inl (by norm_num)) μ hμ hμ1

/-- the frustrated triangle of `QmcProps/C19.lean` (`exE`, 3 spins, 5 bonds of both signs) with the
sampler's default counts `ns = max 1 (3/2) = 1`, `ne = max 1 (5/2) = 2` and uniform edge selection
meets the hypotheses for every `β ≥ 0` -/
example (β : ℝ) (hβ : 0 ≤ β) (μ : Cfg 3 → ℝ)
    (hμ : Invariant μ (stepKernel exE [1/4, -1/2, 0] β (fun _ => 1 / (exE.length : ℝ)) 1 2))
    (hμ1 : ∑ x, μ x = 1) :
    ∀ x, μ x = boltz (reportedE exE [1/4, -1/2, 0]) β x
        / ∑ y : Cfg 3, boltz (reportedE exE [1/4, -1/2, 0]) β y := by
  have hw : WF exE 3 ∧ NoSelfLoops exE := by
    constructor <;> intro e he <;> simp [exE] at he <;> rcases he with h | h | h | h | h <;> simp [h]
  exact boltzmann_unique_stationary exE _ β hβ (by norm_num) hw.1 hw.2 _
    (fun _ => by positivity) (sum_uniform _ (by decide)) 1 2 (Or.inl (by norm_num)) μ hμ hμ1

end Qmc.C19
