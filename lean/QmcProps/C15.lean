/-
C15 — Ising-to-generic sampler conversion preserves model and trajectory.
Property theorems only (helpers: QmcProofs/Convert.lean; models: QmcModel/{Ham,Convert}.lean, tied to
/repo/src/sse/{qmc_ising.rs,qmc_runner.rs} by `./check C15`).

Domain: samplers the library constructed (`IsingSampler.WF`: every edge is `vec![a, b]`) with
`Γ ≥ 0` (for `Γ < 0` neither sampler can run: see `convert_panics_negative_gamma` and
design_notes/C15.md).  `J` of both signs, any `h`, any state / operator string / cutoff.

Proved for all of them (h ≠ 0 included): conversion never fails; same number of bonds, same
variables and constant flags per bond, same weight for every (bond, inputs, outputs) — the two
Hamiltonians are *equal* as values of the `Ham` interface; offsets differ by the constant `N·Γ`
(so do reported energies); state, cutoff and operators are carried; options are reset; the
cluster gate of the result is on iff there is no field.

Trajectory clause: FALSE for the code as it is when `h ≠ 0` (finding F4: the generic sampler skips
the cluster update for Hamiltonians that break the Ising symmetry).  The full statement is
`TrajectoryStatement`; `trajectory_statement_false` refutes it on a concrete witness;
`convert_trajectory_partial` proves it under `h = 0` (no field bonds) for samplers without the
two options the conversion drops (RVB, heat-bath), for every number of steps, as a statement
about the *composition* of the two `timestep`s out of the shared update routines (`Moves`, with
the two laws `Moves.Lawful`).  That the real `timestep`s are these compositions is tied by the
lock-step correspondence.
-/
import QmcProofs.ConvertOpts

namespace Qmc.C15
open Qmc Qmc.GenericSampler

/-! ### conversion never fails -/

theorem convert_never_fails (g : IsingSampler) (h : g.WF) : ∃ q, intoQmc g = .ok q :=
  ⟨convertResult g, intoQmc_eq g h⟩

/-- the result in closed form (interactions in creation order: edges, transverse, field) -/
theorem convert_closed_form (g : IsingSampler) (h : g.WF) : intoQmc g = .ok (convertResult g) :=
  intoQmc_eq g h

/-- boundary of the domain: with `Γ < 0` the constructor of the transverse interaction rejects the
matrix and `unwrap()` panics (the Ising sampler with `Γ < 0` panics on its first sweep too). -/
theorem convert_panics_negative_gamma (g : IsingSampler)
    (he : ∀ e ∈ g.model.edges, e.1.length = 2) (hnd : ∀ e ∈ g.model.edges, e.1.Nodup)
    (hg : g.model.transverse < 0)
    (hn : 0 < g.model.nvars) : intoQmc g = .panic :=
  intoQmc_neg_gamma g he hnd hg hn

/-! ### same Hamiltonian, bond by bond -/

theorem convert_matrix_eq (g : IsingSampler) (h : g.WF) (q : GenericSampler)
    (hq : intoQmc g = .ok q) (bond : Nat) (ins outs : List Bool) :
    (genericHam q.bonds).w bond ins outs = (isingHam g.model).w bond ins outs := by
  rw [intoQmc_eq g h] at hq; injection hq with hq; subst hq
  rw [(convertResult_fields g).1]
  exact convert_w g.model h.edges2 bond ins outs

theorem convert_bond_layout (g : IsingSampler) (h : g.WF) (q : GenericSampler)
    (hq : intoQmc g = .ok q) :
    (genericHam q.bonds).nbonds = (isingHam g.model).nbonds ∧
    (∀ b, (genericHam q.bonds).vars b = (isingHam g.model).vars b) ∧
    (∀ b, (genericHam q.bonds).const b = (isingHam g.model).const b) := by
  rw [intoQmc_eq g h] at hq; injection hq with hq; subst hq
  rw [(convertResult_fields g).1]
  exact ⟨by simp [genericHam, isingHam, convertBonds_length], convert_vars g.model,
    convert_const g.model⟩

/-- both samplers hand the same `Ham` to the shared update routines -/
theorem convert_ham_eq (g : IsingSampler) (h : g.WF) (q : GenericSampler)
    (hq : intoQmc g = .ok q) : q.ham = g.ham := by
  rw [intoQmc_eq g h] at hq; injection hq with hq; subst hq
  unfold GenericSampler.ham IsingSampler.ham
  rw [(convertResult_fields g).1]
  exact Qmc.convert_ham_eq g.model h.edges2

/-! ### offsets and energies -/

/-- `offset_ising − offset_generic` is a constant of the model: `N·Γ`, plus `N·|h|` in the corner
`0 < |h| ≤ eps` where the Ising offset counts a field the sampler ignores. -/
theorem convert_offset (g : IsingSampler) (h : g.WF) (q : GenericSampler)
    (hq : intoQmc g = .ok q) :
    g.model.offset - q.offset = (g.model.nvars : Rat) * g.model.transverse +
      (if g.model.hasField then 0 else (g.model.nvars : Rat) * absR g.model.longitudinal) := by
  rw [intoQmc_eq g h] at hq; injection hq with hq; subst hq
  rw [(convertResult_fields g).2.1]
  unfold IsingModel.offset
  split_ifs <;> ring

theorem convert_offset_NGamma (g : IsingSampler) (h : g.WF) (q : GenericSampler)
    (hq : intoQmc g = .ok q) (hh : g.model.longitudinal = 0 ∨ eps < absR g.model.longitudinal) :
    g.model.offset - q.offset = (g.model.nvars : Rat) * g.model.transverse := by
  rw [convert_offset g h q hq]
  rcases hh with h0 | hf
  · rw [h0, absR_zero]; split_ifs <;> ring
  · rw [if_pos ((hasField_iff _).mpr hf)]; ring

/-- energies reported from the same operator-count average differ by that constant -/
theorem convert_energy_diff (g : IsingSampler) (q : GenericSampler) (avgN beta : Rat) :
    g.energy avgN beta - q.energy avgN beta = g.model.offset - q.offset := by
  unfold IsingSampler.energy GenericSampler.energy; ring

/-! ### what is carried, what is reset -/

theorem convert_carries (g : IsingSampler) (h : g.WF) (q : GenericSampler)
    (hq : intoQmc g = .ok q) :
    q.state = g.state ∧ q.cutoff = g.cutoff ∧ q.slots = growSlots g.slots g.cutoff ∧
    (∀ p, p < g.slots.length → q.slots[p]? = g.slots[p]?) ∧
    countOps q.slots = countOps g.slots ∧ g.slots.length ≤ q.slots.length ∧
    q.doLoopUpdates = false ∧ q.doHeatbath = false := by
  rw [intoQmc_eq g h] at hq; injection hq with hq; subst hq
  obtain ⟨_, _, h3, h4, h5, h6, h7, _, _⟩ := convertResult_fields g
  refine ⟨h4, h3, h5, ?_, ?_, ?_, h6, h7⟩
  · intro p hp; rw [h5]; unfold growSlots
    rw [List.getElem?_append_left hp]
  · rw [h5]; unfold growSlots countOps
    rw [List.filter_append, List.length_append]
    have : (List.replicate (g.cutoff - g.slots.length) (none : Option Op)).filter Option.isSome = [] := by
      rw [List.filter_eq_nil_iff]; intro a ha; rw [List.eq_of_mem_replicate ha]; simp
    rw [this]; simp
  · rw [h5]; unfold growSlots; simp

/-- cluster gate of the converted sampler: on iff there is no field (`|h| ≤ eps`) -/
theorem convert_cluster_gate (g : IsingSampler) (h : g.WF) (q : GenericSampler)
    (hq : intoQmc g = .ok q) (hn : 0 < g.model.nvars) :
    q.shouldDoClusterUpdate = !g.model.hasField := by
  rw [intoQmc_eq g h] at hq; injection hq with hq; subst hq
  obtain ⟨_, _, _, _, _, _, _, h8, h9⟩ := convertResult_fields g
  simp [shouldDoClusterUpdate, h8, h9, hn]

theorem hasField_zero (m : IsingModel) (h0 : m.longitudinal = 0) : m.hasField = false := by
  have := eps_pos
  simp only [IsingModel.hasField, h0, absR_zero, decide_eq_false_iff_not, not_lt]
  linarith

/-! ### trajectories -/

/-- The trajectory clause at full strength: for every library-constructed sampler, lawful shared
routines, number of steps and rng state, the converted sampler visits the same spin states. -/
def TrajectoryStatement : Prop :=
  ∀ (mv : Moves), mv.Lawful → ∀ (g : IsingSampler), g.WF → 0 < g.model.nvars →
    g.runRvb = false → g.heatbath = false →
    ∀ (q : GenericSampler), intoQmc g = .ok q → ∀ (beta : Rat) (k : Nat) (rng : List Nat),
      (genericSteps mv beta k (q, rng)).1.state = (isingSteps mv beta k (g, rng)).1.state

/-- Proved part: no field (`h = 0`, or `|h| ≤ eps`), none of the dropped options.  After any
number of steps from the same rng state: same spin state, same cutoff, same operators (up to
trailing empty slots), same rng state; the generic sampler is still the conversion of the Ising
one (`Sim`). -/
theorem convert_trajectory_partial (mv : Moves) (hmv : mv.Lawful) (g : IsingSampler) (hwf : g.WF)
    (hn : 0 < g.model.nvars) (hh : g.model.hasField = false) (hr : g.runRvb = false)
    (hb : g.heatbath = false) (q : GenericSampler) (hq : intoQmc g = .ok q)
    (beta : Rat) (k : Nat) (rng : List Nat) :
    (genericSteps mv beta k (q, rng)).1.state = (isingSteps mv beta k (g, rng)).1.state ∧
    (genericSteps mv beta k (q, rng)).1.cutoff = (isingSteps mv beta k (g, rng)).1.cutoff ∧
    growSlots (genericSteps mv beta k (q, rng)).1.slots (genericSteps mv beta k (q, rng)).1.cutoff
      = growSlots (isingSteps mv beta k (g, rng)).1.slots (isingSteps mv beta k (g, rng)).1.cutoff ∧
    (genericSteps mv beta k (q, rng)).2 = (isingSteps mv beta k (g, rng)).2 ∧
    Sim (isingSteps mv beta k (g, rng)).1 (genericSteps mv beta k (q, rng)).1 := by
  rw [intoQmc_eq g hwf] at hq; injection hq with hq; subst hq
  have hs := sim_convert g hh hn
  obtain ⟨hsim, hrng⟩ := sim_steps mv hmv beta k g (convertResult g) rng hs ⟨hh, hr, hb, hwf.edges2⟩
  exact ⟨hsim.1, hsim.2.1, hsim.2.2.1, hrng, hsim⟩

/-- `h = 0` is an instance -/
theorem convert_trajectory_h_zero (mv : Moves) (hmv : mv.Lawful) (g : IsingSampler) (hwf : g.WF)
    (hn : 0 < g.model.nvars) (h0 : g.model.longitudinal = 0) (hr : g.runRvb = false)
    (hb : g.heatbath = false) (q : GenericSampler) (hq : intoQmc g = .ok q)
    (beta : Rat) (k : Nat) (rng : List Nat) :
    (genericSteps mv beta k (q, rng)).1.state = (isingSteps mv beta k (g, rng)).1.state :=
  (convert_trajectory_partial mv hmv g hwf hn (hasField_zero _ h0) hr hb q hq beta k rng).1

/-- one step is enough to see both samplers literally agree on the operator string -/
theorem convert_step_partial (mv : Moves) (hmv : mv.Lawful) (g : IsingSampler) (hwf : g.WF)
    (hn : 0 < g.model.nvars) (hh : g.model.hasField = false) (hr : g.runRvb = false)
    (hb : g.heatbath = false) (q : GenericSampler) (hq : intoQmc g = .ok q)
    (beta : Rat) (rng : List Nat) :
    (genericTimestep mv q beta rng).1.state = (isingTimestep mv g beta rng).1.state ∧
    (genericTimestep mv q beta rng).1.slots = (isingTimestep mv g beta rng).1.slots ∧
    (genericTimestep mv q beta rng).1.cutoff = (isingTimestep mv g beta rng).1.cutoff ∧
    (genericTimestep mv q beta rng).2 = (isingTimestep mv g beta rng).2 := by
  rw [intoQmc_eq g hwf] at hq; injection hq with hq; subst hq
  obtain ⟨_, _, h3, h4, h5, h6⟩ :=
    sim_step mv hmv g (convertResult g) (sim_convert g hh hn) ⟨hh, hr, hb, hwf.edges2⟩ beta rng
  exact ⟨h4, h5, h6, h3⟩

/-- Heat-bath variant: the Ising sampler sweeps with heat-bath (`set_enable_heatbath(true)`, before
or after the conversion) and the option is switched on by hand on the converted sampler
(`set_do_heatbath(true)` — `into_qmc` itself never carries it, see `convert_carries`).  No field,
no RVB: identical state, cutoff (so the growth rule must run in the heat-bath branch of
`diagonal_update` too), operators and rng after any number of steps. -/
theorem convert_trajectory_heatbath_partial (mv : Moves) (hmv : mv.Lawful) (hheat : mv.HeatPad)
    (g : IsingSampler) (hwf : g.WF) (hn : 0 < g.model.nvars) (hh : g.model.hasField = false)
    (hr : g.runRvb = false) (hb : g.heatbath = true) (q : GenericSampler) (hq : intoQmc g = .ok q)
    (beta : Rat) (k : Nat) (rng : List Nat) :
    let q' := q.setDoHeatbath true
    (genericSteps mv beta k (q', rng)).1.state = (isingSteps mv beta k (g, rng)).1.state ∧
    (genericSteps mv beta k (q', rng)).1.cutoff = (isingSteps mv beta k (g, rng)).1.cutoff ∧
    growSlots (genericSteps mv beta k (q', rng)).1.slots (genericSteps mv beta k (q', rng)).1.cutoff
      = growSlots (isingSteps mv beta k (g, rng)).1.slots (isingSteps mv beta k (g, rng)).1.cutoff ∧
    (genericSteps mv beta k (q', rng)).2 = (isingSteps mv beta k (g, rng)).2 := by
  rw [intoQmc_eq g hwf] at hq; injection hq with hq; subst hq
  intro q'
  obtain ⟨hsim, hrng⟩ := simHB_steps mv hmv hheat beta k g q' rng (simHB_convert g hh hn)
    ⟨hh, hr, hb, hwf.edges2⟩
  exact ⟨hsim.1, hsim.2.1, hsim.2.2.1, hrng⟩

/-- `Γ = 0` is inside the domain: the constant `[0,0,0,0]` single-site terms still open the cluster
gate of the converted sampler (the Ising sampler flips the whole string with probability ½ there),
so the trajectory theorems apply. -/
theorem convert_cluster_gate_gamma_zero (g : IsingSampler) (he : ∀ e ∈ g.model.edges, e.1.length = 2)
    (hnd : ∀ e ∈ g.model.edges, e.1.Nodup)
    (h0 : g.model.transverse = 0) (hh : g.model.longitudinal = 0) (hn : 0 < g.model.nvars)
    (q : GenericSampler) (hq : intoQmc g = .ok q) : q.shouldDoClusterUpdate = true := by
  have hwf : g.WF := ⟨he, hnd, by rw [h0]⟩
  rw [convert_cluster_gate g hwf q hq hn, hasField_zero _ hh]; rfl

/-- What survives F4: for **every** field `h`, sequences of diagonal sweeps
(`single_diagonal_step` on the Ising sampler, `diagonal_update` on its conversion) from the same
rng state stay identical — state, cutoff, operators, rng. -/
theorem convert_diag_sweeps_agree (mv : Moves) (hmv : mv.Lawful) (g : IsingSampler) (hwf : g.WF)
    (hb : g.heatbath = false) (q : GenericSampler) (hq : intoQmc g = .ok q)
    (beta : Rat) (k : Nat) (rng : List Nat) :
    (genericDiagSteps mv beta k (q, rng)).1.state = (isingDiagSteps mv beta k (g, rng)).1.state ∧
    (genericDiagSteps mv beta k (q, rng)).1.cutoff = (isingDiagSteps mv beta k (g, rng)).1.cutoff ∧
    growSlots (genericDiagSteps mv beta k (q, rng)).1.slots (genericDiagSteps mv beta k (q, rng)).1.cutoff
      = growSlots (isingDiagSteps mv beta k (g, rng)).1.slots (isingDiagSteps mv beta k (g, rng)).1.cutoff ∧
    (genericDiagSteps mv beta k (q, rng)).2 = (isingDiagSteps mv beta k (g, rng)).2 := by
  rw [intoQmc_eq g hwf] at hq; injection hq with hq; subst hq
  obtain ⟨hsim, hrng⟩ :=
    simD_steps mv hmv beta k g (convertResult g) rng (simD_convert g) hb hwf.edges2
  exact ⟨hsim.1, hsim.2.1, hsim.2.2.1, hrng⟩

/-! ### option histories after the conversion, conversions after a raw swap (round 9) -/

/-- **Option histories.**  `into_qmc` does not carry the heat-bath option, so a user who wants the same
sweeps sets it on both samplers; the option can be switched on, off and on again between blocks of time
steps.  For every history `[(hb₁, k₁), (hb₂, k₂), …]` applied to BOTH samplers (`set_enable_heatbath(hbᵢ)` /
`set_do_heatbath(hbᵢ)`, then `kᵢ` time steps), whatever the Ising sampler's option was at the moment of
the conversion: same spin state, cutoff, operators (up to trailing empty slots) and rng state at the end
(hence after every prefix, a prefix of a history being a history).  No field, no RVB.  The generic
sampler's sweep is chosen by the flag of the *current* block (`genericTimestep`: `if q.doHeatbath`), not by
what an earlier block left behind. -/
theorem convert_trajectory_option_history (mv : Moves) (hmv : mv.Lawful) (hheat : mv.HeatPad)
    (g : IsingSampler) (hwf : g.WF) (hn : 0 < g.model.nvars) (hh : g.model.hasField = false)
    (hr : g.runRvb = false) (q : GenericSampler) (hq : intoQmc g = .ok q)
    (beta : Rat) (hist : List OptBlock) (rng : List Nat) :
    (genericHistory mv beta hist (q, rng)).1.state = (isingHistory mv beta hist (g, rng)).1.state ∧
    (genericHistory mv beta hist (q, rng)).1.cutoff = (isingHistory mv beta hist (g, rng)).1.cutoff ∧
    growSlots (genericHistory mv beta hist (q, rng)).1.slots (genericHistory mv beta hist (q, rng)).1.cutoff
      = growSlots (isingHistory mv beta hist (g, rng)).1.slots (isingHistory mv beta hist (g, rng)).1.cutoff ∧
    (genericHistory mv beta hist (q, rng)).2 = (isingHistory mv beta hist (g, rng)).2 := by
  rw [intoQmc_eq g hwf] at hq; injection hq with hq; subst hq
  obtain ⟨hsim, hrng⟩ := simC_history mv hmv hheat beta hist g (convertResult g) rng
    (simC_convert g hh hn) ⟨hh, hr, hwf.edges2⟩
  exact ⟨hsim.1, hsim.2.1, hsim.2.2.1, hrng⟩

/-- the flag the samplers end a history with is the flag of its last block (Ising side: the table is
present iff the last call was `set_enable_heatbath(true)`) -/
theorem option_history_last_flag (mv : Moves) (beta : Rat) (hist : List OptBlock) (b : Bool) (k : Nat)
    (g : IsingSampler) (rng : List Nat) :
    (isingHistory mv beta (hist ++ [(b, k)]) (g, rng)).1.heatbath = b := by
  induction hist generalizing g rng with
  | nil => exact (isingSteps_fields mv beta k (g.setEnableHeatbath b) rng).2.2
  | cons blk t ih =>
    obtain ⟨b', k'⟩ := blk
    simp only [List.cons_append, isingHistory]
    exact ih _ _

/-- `swap_manager_and_state` moves only the operator string (padded to the common cutoff) and the spin
state: each sampler object keeps its model (edges, Γ, h), its offset and its update options — the
heat-bath table belongs to the Hamiltonian, not to the configuration. -/
theorem swap_moves_only_string_and_state (a b : IsingSampler) :
    (swapIsing a b).1.model = a.model ∧ (swapIsing a b).1.runRvb = a.runRvb ∧
    (swapIsing a b).1.heatbath = a.heatbath ∧ (swapIsing a b).1.state = b.state ∧
    (swapIsing a b).1.cutoff = max a.cutoff b.cutoff ∧
    (swapIsing a b).1.slots = growSlots b.slots (max a.cutoff b.cutoff) ∧
    (swapIsing a b).2.model = b.model ∧ (swapIsing a b).2.runRvb = b.runRvb ∧
    (swapIsing a b).2.heatbath = b.heatbath ∧ (swapIsing a b).2.state = a.state ∧
    (swapIsing a b).2.cutoff = max a.cutoff b.cutoff ∧
    (swapIsing a b).2.slots = growSlots a.slots (max a.cutoff b.cutoff) := swapIsing_fields a b

/-- **Conversion after a swap.**  Two Ising samplers (any models: different `|J|`, Γ) exchange their
configurations; sampler `a` — which now holds `b`'s string and state — is converted and the conversion is
told the option `a` has (`set_do_heatbath(a.heatbath)`).  From the same rng state the two follow the same
trajectory for any number of steps: the Ising sampler keeps sweeping with the table of its OWN
Hamiltonian (`isingTimestep`: `mv.heat g.ham`), which is the Hamiltonian `into_qmc` hands to the generic
sampler (`convert_ham_eq`). -/
theorem convert_after_swap_trajectory (mv : Moves) (hmv : mv.Lawful) (hheat : mv.HeatPad)
    (a b : IsingSampler) (ha : a.WF) (hn : 0 < a.model.nvars) (hh : a.model.hasField = false)
    (hr : a.runRvb = false) (q : GenericSampler) (hq : intoQmc (swapIsing a b).1 = .ok q)
    (beta : Rat) (k : Nat) (rng : List Nat) :
    let a' := (swapIsing a b).1
    let q' := q.setDoHeatbath a.heatbath
    a'.state = b.state ∧ a'.model = a.model ∧
    (genericSteps mv beta k (q', rng)).1.state = (isingSteps mv beta k (a', rng)).1.state ∧
    (genericSteps mv beta k (q', rng)).1.cutoff = (isingSteps mv beta k (a', rng)).1.cutoff ∧
    growSlots (genericSteps mv beta k (q', rng)).1.slots (genericSteps mv beta k (q', rng)).1.cutoff
      = growSlots (isingSteps mv beta k (a', rng)).1.slots (isingSteps mv beta k (a', rng)).1.cutoff ∧
    (genericSteps mv beta k (q', rng)).2 = (isingSteps mv beta k (a', rng)).2 := by
  intro a' q'
  have hwf : a'.WF := ⟨ha.edges2, ha.edgesNodup, ha.gammaNonneg⟩
  rw [intoQmc_eq a' hwf] at hq; injection hq with hq; subst hq
  have hs : SimC a' (convertResult a') := simC_convert a' hh hn
  obtain ⟨h1, _, _, h4⟩ := simC_block mv hmv hheat beta a.heatbath k a' (convertResult a') rng hs
    ⟨hh, hr, ha.edges2⟩
  exact ⟨rfl, rfl, h1.1, h1.2.1, h1.2.2.1, h4⟩

/-! ### F4: the trajectory clause fails with a field -/

/-- lawful routines that make the difference visible: the sweep only pads the container, the
field-weighted cluster update of the Ising sampler flips every spin, everything else is idle -/
def witnessMoves : Moves :=
  { diag := fun _ c _ w => { w with slots := growSlots w.slots c }
    heat := fun _ c _ w => { w with slots := growSlots w.slots c }
    rvb := fun _ w => w
    clusterSym := fun w => w
    clusterField := fun _ w => { w with state := w.state.map not }
    loop := fun _ w => w
    freeFlip := fun w => w
    count := fun _ => 0 }

theorem witnessMoves_lawful : witnessMoves.Lawful :=
  ⟨fun _ c _ w => by simp [witnessMoves, growSlots_idem], fun _ => rfl, fun _ => rfl⟩

theorem witnessMoves_heatPad : witnessMoves.HeatPad :=
  fun _ c _ w => by simp [witnessMoves, growSlots_idem]

/-- two spins, `J = 1`, `Γ = 1`, `h = 1/2` (the input recorded for F4 in the harness) -/
def witnessSampler : IsingSampler :=
  { model := { edges := [([0, 1], 1)], transverse := 1, longitudinal := 1 / 2, nvars := 2 }
    state := [false, false], cutoff := 2, slots := [] }

theorem witnessSampler_wf : witnessSampler.WF :=
  ⟨by intro e he; simp [witnessSampler] at he; rw [he]; rfl,
   by intro e he; simp [witnessSampler] at he; rw [he]; decide, by norm_num [witnessSampler]⟩

theorem witnessSampler_hasField : witnessSampler.model.hasField = true := by
  rw [hasField_iff]; norm_num [witnessSampler, absR, eps]

/-- the converted sampler's cluster gate is off … -/
theorem witness_gate_off :
    (convertResult witnessSampler).shouldDoClusterUpdate = false := by
  have := convert_cluster_gate witnessSampler witnessSampler_wf _ (intoQmc_eq _ witnessSampler_wf)
    (by decide)
  rw [this, witnessSampler_hasField]; rfl

/-- … so after one step from the same rng state the spin states differ -/
theorem witness_diverges :
    (genericTimestep witnessMoves (convertResult witnessSampler) 1 []).1.state = [false, false] ∧
    (isingTimestep witnessMoves witnessSampler 1 []).1.state = [true, true] := by
  constructor
  · unfold genericTimestep
    rw [witness_gate_off]
    simp [witnessMoves, (convertResult_fields witnessSampler).2.2.2.1,
      (convertResult_fields witnessSampler).2.2.2.2.2.1, (convertResult_fields witnessSampler).2.2.2.2.2.2.1]
    rfl
  · unfold isingTimestep
    simp [witnessMoves, witnessSampler_hasField]
    rfl

/-- the full trajectory clause is false of the code as it is (F4) -/
theorem trajectory_statement_false : ¬ TrajectoryStatement := by
  intro h
  have := h witnessMoves witnessMoves_lawful witnessSampler witnessSampler_wf (by decide) rfl rfl
    (convertResult witnessSampler) (intoQmc_eq _ witnessSampler_wf) 1 1 []
  simp only [genericSteps, isingSteps] at this
  rw [witness_diverges.1, witness_diverges.2] at this
  simp at this

/-! ### non-vacuity -/

/-- a three-spin chain with couplings of both signs and unequal magnitude, no field -/
def exampleSampler : IsingSampler :=
  { model := { edges := [([0, 1], 1), ([2, 1], -1 / 2)], transverse := 3 / 4, longitudinal := 0, nvars := 3 }
    state := [true, false, true], cutoff := 2, slots := [none, none] }

example : exampleSampler.WF :=
  ⟨by intro e he; simp [exampleSampler] at he; rcases he with h | h <;> rw [h] <;> rfl,
   by intro e he; simp [exampleSampler] at he; rcases he with h | h <;> rw [h] <;> decide,
   by norm_num [exampleSampler]⟩

example : exampleSampler.model.hasField = false := hasField_zero _ rfl

/-- the identity-like routines are lawful, so the hypotheses of the trajectory theorems are satisfiable -/
example : ∃ mv : Moves, mv.Lawful := ⟨witnessMoves, witnessMoves_lawful⟩

/-- routines that tell the two sweeps apart: the heat-bath sweep flips every spin, the Metropolis sweep
only pads the container; everything else idle (lawful, with the heat-bath padding law) -/
def flipMoves : Moves := { witnessMoves with
  heat := fun _ c _ w => { w with state := w.state.map not, slots := growSlots w.slots c } }

theorem flipMoves_lawful : flipMoves.Lawful ∧ flipMoves.HeatPad :=
  ⟨⟨fun _ c _ w => by simp [flipMoves, witnessMoves, growSlots_idem], fun _ => rfl, fun _ => rfl⟩,
   fun _ c _ w => by simp [flipMoves, witnessMoves, growSlots_idem]⟩

theorem flipMoves_step_state (q : GenericSampler) (beta : Rat) (rng : List Nat) :
    (genericTimestep flipMoves q beta rng).1.state = (if q.doHeatbath then q.state.map not else q.state) ∧
    (genericTimestep flipMoves q beta rng).1.doHeatbath = q.doHeatbath := by
  unfold genericTimestep
  cases q.doHeatbath <;> cases q.doLoopUpdates <;> cases q.shouldDoClusterUpdate <;>
    simp [flipMoves, witnessMoves]

/-- Why the sweep must follow the FLAG and not the cached table (seeded mutation C15-17): heat-bath on, one
step, heat-bath off, one step.  The code's composition flips the spins once (as the Ising sampler does,
`convert_trajectory_option_history`); the variant that keeps using a table once cached flips them twice. -/
theorem sticky_table_diverges (q : GenericSampler) (beta : Rat) :
    let c1 := genericTimestep flipMoves (q.setDoHeatbath true) beta []
    let c2 := genericTimestep flipMoves (c1.1.setDoHeatbath false) beta c1.2
    let s1 := stickyTimestep flipMoves (q.setDoHeatbath true, false) beta []
    let s2 := stickyTimestep flipMoves (s1.1.1.setDoHeatbath false, s1.1.2) beta s1.2
    c2.1.state = q.state.map not ∧ s2.1.1.state = (q.state.map not).map not := by
  intro c1 c2 s1 s2
  have hc1 := flipMoves_step_state (q.setDoHeatbath true) beta []
  have hc2 := flipMoves_step_state (c1.1.setDoHeatbath false) beta c1.2
  have hs1 := flipMoves_step_state { (q.setDoHeatbath true) with doHeatbath := (false || (q.setDoHeatbath true).doHeatbath) } beta []
  have hs2 := flipMoves_step_state { (s1.1.1.setDoHeatbath false) with doHeatbath := (s1.1.2 || (s1.1.1.setDoHeatbath false).doHeatbath) } beta s1.2
  constructor
  · show (genericTimestep flipMoves (c1.1.setDoHeatbath false) beta c1.2).1.state = _
    rw [hc2.1]
    simp only [setDoHeatbath, Bool.false_eq_true, if_false]
    show (genericTimestep flipMoves (q.setDoHeatbath true) beta []).1.state = _
    rw [hc1.1]; simp [setDoHeatbath]
  · show (genericTimestep flipMoves _ beta s1.2).1.state = _
    rw [hs2.1]
    have hcache : s1.1.2 = true := by simp [s1, stickyTimestep, setDoHeatbath]
    have hst : s1.1.1.state = q.state.map not := by
      show (genericTimestep flipMoves _ beta []).1.state = _
      rw [hs1.1]; simp [setDoHeatbath]
    simp [setDoHeatbath, hcache, hst]

example : (([false, true] : List Bool).map not).map not ≠ [false, true].map not := by decide

/-- non-vacuity of the option-history theorem: lawful routines with the heat-bath padding law exist,
`exampleSampler` is in the domain, and a history "on, 1 step; off, 2 steps; on, 1 step"
is a history. -/
example : ∃ mv : Moves, mv.Lawful ∧ mv.HeatPad := ⟨witnessMoves, witnessMoves_lawful, witnessMoves_heatPad⟩
example : (isingHistory witnessMoves 1 [(true, 1), (false, 2), (true, 1)]
    ({ model := { edges := [([0, 1], 1)], transverse := 1, longitudinal := 0, nvars := 2 },
       state := [false, true], cutoff := 1, slots := [] }, [])).1.heatbath = true :=
  option_history_last_flag witnessMoves 1 [(true, 1), (false, 2)] true 1 _ _

end Qmc.C15
