/-
C06 — The operator string stays a consistent periodic world-line configuration after ANY sequence
of public update calls, and the imaginary-time fold visits exactly the propagated states.

Model: `QmcModel/Worldline.lean` (relations between the configuration before and after one public
call, each with an executable decider that the correspondence run evaluates on every real call).
Helper lemmas: `QmcProofs/Worldline.lean`.
-/
import QmcProofs.Worldline
import QmcProofs.WorldlineIsing

namespace Qmc.C06
open Qmc

/-! ### deciders are sound (what the driver answers `rel:1` for really is the relation) -/

theorem diagSweepB_sound (H : Ham) (L : Nat) (b a : Config) :
    diagSweepB H L b a = true → DiagSweepStep H L b a := Qmc.diagSweepB_sound H L b a
theorem spinFlipB_sound (b a : Config) : spinFlipB b a = true → SpinFlipStep b a :=
  Qmc.spinFlipB_sound b a
theorem freeB_sound (b a : Config) : freeB b a = true → FreeStep b a := Qmc.freeB_sound b a
theorem rvbB_sound (H : Ham) (b a : Config) : rvbB H b a = true → RvbStep H b a := Qmc.rvbB_sound H b a
theorem moveB_sound (b a : Config) : moveB b a = true → MoveStep b a := Qmc.moveB_sound b a

/-! ### one preservation theorem per kind of call -/

/-- Diagonal sweep (Metropolis or heat bath — the relation does not look at probabilities) that
covers the whole string: consistency and legality are kept and the state at `p = 0` is unchanged. -/
theorem diagSweep_pres (H : Ham) (n L : Nat) (hH : HamWF H n) (b a : Config)
    (hn : b.state.length = n) (hL : b.slots.length ≤ L) (hc : Consistent b) (hl : Legal H b)
    (h : DiagSweepStep H L b a) : Consistent a ∧ Legal H a ∧ a.state = b.state :=
  diagSweep_pres_aux H n L hH b a hn hL hc hl h

/-- the sweep never touches an off-diagonal operator … -/
theorem diagSweep_offdiag_untouched {H : Ham} {st : List Bool} {b a : Slots} {fin : List Bool}
    (h : DiagSlots H st b a fin) (p : Nat) (o : Op) (ho : o.tagDiag = false) :
    b[p]? = some (some o) ↔ a[p]? = some (some o) := diagSlots_offdiag h p o ho

/-- … and keeps every position (the string is only ever padded, never shifted) -/
theorem diagSweep_positions {H : Ham} {st : List Bool} {b a : Slots} {fin : List Bool}
    (h : DiagSlots H st b a fin) : a.length = b.length := diagSlots_length h

/-- The hypothesis `length ≤ L` of `diagSweep_pres` is needed: a sweep over a prefix of the string
(sampler cutoff smaller than the container, the situation finding F16 produced through
`swap_manager_and_state`) takes a consistent configuration to an inconsistent one. -/
theorem diagSweep_short_cutoff_breaks :
    ∃ (H : Ham) (b a : Config), HamWF H 1 ∧ Consistent b ∧ DiagSweepStep H 1 b a ∧ ¬ Consistent a := by
  let H : Ham := { nbonds := 1, vars := fun _ => [0], const := fun _ => true, w := fun _ _ _ => 1 }
  let up : Op := Op.offdiagonal [0] 0 [false] [true] true
  let dn : Op := Op.offdiagonal [0] 0 [true] [false] true
  refine ⟨H, ⟨[false], [some up, some dn]⟩, ⟨[true], [some up, some dn]⟩, ?_, by decide, ?_, by decide⟩
  · intro b hb
    exact ⟨by simp [H], by intro v hv; simp [H] at hv; omega⟩
  · refine ⟨?_, rfl⟩
    exact DiagSlots.offdiag up rfl (DiagSlots.nil _)

/-- **Link-closed flips keep consistency** (cluster update, loop update result, free-spin refresh,
spin part of RVB): on a fixed skeleton, if the flip mask is itself a consistent mask configuration
(`Consistent (maskConfig b a)`, i.e. `Consistent c → Consistent m → sameSkeleton c m →
Consistent (c xor m)`), the flipped configuration is consistent. -/
theorem linkClosed_flip_consistent (b a : Config) (hc : Consistent b) (h : SpinFlipStep b a) :
    Consistent a := linkClosed_flip_consistent_aux b a hc h

/-- propagation commutes with xor (the one induction over the slots behind the previous theorem) -/
theorem propagate_commutes_xor {b m a : Slots} (h : XorRel b m a) {s t r u : List Bool}
    (hb : propagate s b = some r) (hm : propagate t m = some u) :
    propagate (xorBits s t) a = some (xorBits r u) := propagate_xor h hb hm

/-- `flip_free_bits` is a link-closed flip with an empty operator mask -/
theorem freeRefresh_pres (H : Ham) (n : Nat) (hH : HamWF H n) (b a : Config) (hn : b.state.length = n)
    (hc : Consistent b) (hl : Legal H b) (h : FreeStep b a) : Consistent a ∧ Legal H a := by
  refine ⟨linkClosed_flip_consistent_aux b a hc (free_spinFlip H n hH b a hn hl h), ?_⟩
  intro o ho; rw [h.1] at ho; exact hl o ho

/-- RVB update(s): spin flips followed by re-bonding keep consistency -/
theorem rvbMove_consistent (H : Ham) (n : Nat) (hH : HamWF H n) (b a : Config)
    (hn : b.state.length = n) (hc : Consistent b) (h : RvbStep H b a) : Consistent a :=
  rvb_consistent H n hH b a hn hc h

/-- swap / tempering step / conversion / restore / `set_cutoff`: configuration moved unchanged -/
theorem move_pres (b a : Config) (hc : Consistent b) (h : MoveStep b a) : Consistent a :=
  move_consistent b a hc h

/-- any single public call -/
theorem step_pres (H : Ham) (n : Nat) (hH : HamWF H n) (b a : Config) (h : Step H b a)
    (hn : b.state.length = n) (hc : Consistent b) (hl : Legal H b) :
    Consistent a ∧ Legal H a ∧ a.state.length = n := Qmc.step_pres H n hH b a h hn hc hl

/-- **Histories**: for ANY list of calls, each satisfying one of the relations (the holder's
Hamiltonian changing only at moves to a holder with at least the same support), starting from a
consistent legal configuration, EVERY intermediate configuration is consistent and legal. -/
theorem reachable_inv (n : Nat) (l : List (Ham × Config)) (H : Ham) (c : Config) (hH : HamWF H n)
    (hn : c.state.length = n) (hc : Consistent c) (hl : Legal H c) (h : History n H c l) :
    ∀ x, x ∈ l → Consistent x.2 ∧ Legal x.1 x.2 := history_inv n l H c hH hn hc hl h

/-- the starting point of every sampler: the empty string, any state, any cutoff -/
theorem init_consistent_legal (H : Ham) (st : List Bool) (L : Nat) :
    Consistent ⟨st, List.replicate L none⟩ ∧ Legal H ⟨st, List.replicate L none⟩ :=
  empty_consistent_legal H st L

/-! ### the imaginary-time fold -/

/-- the fold hands out one state per slot (length = container cutoff) … -/
theorem fold_length (c : Config) : (foldStates c.state c.slots).length = c.slots.length :=
  foldStates_length _ _

/-- … namely the propagated states: entry `p` is the start state pushed through the first `p` slots -/
theorem fold_visits_propagated (c : Config) :
    foldStates c.state c.slots = (List.range c.slots.length).map (stateAt c.state c.slots) :=
  foldStates_eq_map _ _

/-- in a consistent configuration every operator meets exactly its recorded inputs in the state
the fold shows at its slot … -/
theorem fold_inputs_met (c : Config) (hc : Consistent c) (p : Nat) (o : Op)
    (hp : c.slots[p]? = some (some o)) : inputsMatch (stateAt c.state c.slots p) o = true :=
  inputs_met_at hc p o hp

/-- … and pushing the state through all slots returns to the starting state (periodicity) -/
theorem fold_returns (c : Config) (hc : Consistent c) : rollEnd c.state c.slots = c.state :=
  (propagate_eq_rollEnd hc).symm

/-- `Basic.statesVisited` is the after-op variant of the same list -/
theorem statesVisited_vs_fold (st : List Bool) (s : Slots) :
    st :: statesVisited st s = foldStates st s ++ [rollEnd st s] := statesVisited_eq st s

/-! ### non-vacuity: a concrete history with an insertion, a cluster-type flip and a move -/

def H1 : Ham := { nbonds := 1, vars := fun _ => [0], const := fun _ => true, w := fun _ _ _ => 1 }
def c0 : Config := ⟨[false], [none, none]⟩
def c1 : Config := ⟨[false], [some (insertedOp H1 [false] 0), none]⟩
def c2 : Config := ⟨[true], [some (Op.diagonal [0] 0 [true] true), none]⟩
def c3 : Config := ⟨[true], [some (Op.diagonal [0] 0 [true] true), none, none]⟩

theorem H1_wf : HamWF H1 1 := by
  intro b hb
  exact ⟨by simp [H1], by intro v hv; simp [H1] at hv; omega⟩

theorem H1_pos (b : Nat) (i o : List Bool) : 0 < H1.w b i o := by
  show (0 : Rat) < 1
  exact zero_lt_one

example : History 1 H1 c0 [(H1, c1), (H1, c2), (H1, c3)] := by
  refine ⟨Or.inl ⟨rfl, Step.diag 2 (by decide) ⟨?_, rfl⟩⟩, Or.inl ⟨rfl, Step.flip ?_ ?_⟩,
    Or.inl ⟨rfl, Step.move ⟨rfl, 1, rfl⟩⟩, trivial⟩
  · exact DiagSlots.insert 0 (by decide) (H1_pos _ _ _) (DiagSlots.skip (DiagSlots.nil _))
  · exact Qmc.spinFlipB_sound _ _ (by decide)
  · exact ⟨Or.inr (H1_pos _ _ _), trivial⟩

example : Consistent c3 ∧ Legal H1 c3 := by
  have := reachable_inv 1 [(H1, c1), (H1, c2), (H1, c3)] H1 c0 H1_wf rfl (by decide)
    (init_consistent_legal H1 [false] 2).2
    (by
      refine ⟨Or.inl ⟨rfl, Step.diag 2 (by decide) ⟨?_, rfl⟩⟩, Or.inl ⟨rfl, Step.flip ?_ ?_⟩,
        Or.inl ⟨rfl, Step.move ⟨rfl, 1, rfl⟩⟩, trivial⟩
      · exact DiagSlots.insert 0 (by decide) (H1_pos _ _ _) (DiagSlots.skip (DiagSlots.nil _))
      · exact Qmc.spinFlipB_sound _ _ (by decide)
      · exact ⟨Or.inr (H1_pos _ _ _), trivial⟩)
    (H1, c3) (by simp)
  exact this

example : foldStates c2.state c2.slots = [[true], [true]] := by decide

end Qmc.C06
