import QmcProofs.RvbKernel
import QmcProofs.RvbRegionOK
import QmcProofs.RvbRegionDerive
import QmcProps.C03

/-!
# C03 — extract-flip lemma and kernel-level reversibility of the RVB update

Closes the two gaps left by `QmcProps/C03.lean`:

* **G1** (`rvb_extract_flip`): the segment abstraction read off the configuration after an RVB move is the
  flipped abstraction of the one before, and the assignments have the same shape — formerly the
  OBSERVED hypotheses `hflip`, `hshape` of `rvb_detailed_balance_full_cfg`. Exact statement: it holds
  whenever neither sweep of `calculate_flip_prob` is abandoned (`mult < EPSILON`); without that it is
  false (`rvb_extract_flip_underflow_corner`). `rvb_detailed_balance_cfg_closed` restates the full
  identity without observed hypotheses (`Admissible` is derived too).
* **G2** (`rvb_kernel_reversible`, `ising_timestep_invariant_rvb`): the RVB update as a Markov kernel
  `rvbK` on `Config` is in detailed balance with the SSE weight `configWeight (isingHam E) β` (and
  with `configWeight · 1_{Good}`), its rows sum to one on the configuration space, and one Ising
  `timestep` WITH the RVB update enabled leaves the SSE measure invariant.

Hypotheses that remain, all on parameters / on the proposed region, none on the pair:
`Good` (C06/C07: the configurations the sampler is in), `RegionOK` (what `build_cluster` hands over:
toggles at constant operators, cluster and non-zero-coupling neighbours listed in `subvars`),
"sweep not abandoned" on both ends (the `EPSILON` early exit is an approximation below 2.2e-16 that
does break exact balance — see the corner), `0 ≤ Γ`, `CloseExact E eps` (the other sub-`EPSILON`
shortcut; `closeExact_of_grid`: true for couplings on a grid of step `≥ eps/2`).
-/

namespace Qmc.C03
open Qmc Qmc.Rvb Qmc.Dist Qmc.Kernel Qmc.Rvb.ExtractFlip Qmc.Rvb.Kernel Qmc.Rvb.Derive

/-! ## G1: the extract-flip lemma -/

/-- **the abstraction after the move is the flipped abstraction before it**, same shape of the
assignments; all configurations, regions, couplings. -/
theorem rvb_extract_flip {E : Ising} {b a : Config} {R : Region} (hmove : RvbMove E b a R)
    (hok : OpsOK E b.slots) (hcov : Covered b R)
    (hnb : (rvbCodeMult E b R).2 = false) (hna : (rvbCodeMult E a R).2 = false) :
    (extract E a R).1 = (extract E b R).1.flip ∧
      (extract E b R).2.1.map List.length = (extract E a R).2.1.map List.length :=
  extract_flip hmove hok hcov hnb hna

/-- the side conditions are consequences of C06/C07's `Good` and of the region's well-formedness -/
theorem rvb_extract_flip_of_good {E : Ising} {b a : Config} {R : Region} (hmove : RvbMove E b a R)
    (hgood : Good (isingHam E) b) (hR : RegionOK E b R)
    (hnb : (rvbCodeMult E b R).2 = false) (hna : (rvbCodeMult E a R).2 = false) :
    (extract E a R).1 = (extract E b R).1.flip ∧
      (extract E b R).2.1.map List.length = (extract E a R).2.1.map List.length :=
  extract_flip hmove (opsOK_of_good hgood) hR.covered hnb hna

/-- **the corner**: with `J₀₁ = 2^60` the sweep over `cB` is abandoned (`2^-60 < EPSILON`); `cB → cA`
and `cA → cB` are RVB moves, but the abstraction of `cA` (5 segments) is not the flipped abstraction
of `cB` (3 segments: no segment is committed after the underflow). -/
theorem rvb_extract_flip_underflow_corner :
    isRvbMove cE cB cA cR = true ∧ isRvbMove cE cA cB cR = true ∧
    (rvbCodeMult cE cB cR).2 = true ∧ (rvbCodeMult cE cA cR) = (1152921504606846976, false) ∧
    (extract cE cB cR).1.segs.length = 3 ∧ (extract cE cA cR).1.segs.length = 5 ∧
    (extract cE cA cR).1 ≠ (extract cE cB cR).1.flip :=
  underflow_corner

/-- the RVB move relation is symmetric on legal configurations … -/
theorem rvbMove_symm {E : Ising} {b a : Config} {R : Region} (h : RvbMove E b a R)
    (hleg : Qmc.Legal (isingHam E) b) : RvbMove E a b R := rvbMove_reverse h hleg

/-- … keeps them Good (consistent, legal for the Ising Hamiltonian, same number of variables) … -/
theorem rvbMove_keeps_good {E : Ising} {N : Nat} {b a : Config} {R : Region} (h : RvbMove E b a R)
    (hb : GoodN (isingHam E) N b) : GoodN (isingHam E) N a := rvbMove_good h hb

/-- … and keeps the region well formed. -/
theorem rvbMove_keeps_regionOK {E : Ising} {b a : Config} {R : Region} (h : RvbMove E b a R)
    (hgood : Good (isingHam E) b) (hR : RegionOK E b R) : RegionOK E a R :=
  regionOK_of_move h (opsOK_of_good hgood) hR

/-- `Admissible` (non-negative weights, exact shortcut, occupied segments have a positive total) is
derived for abstractions extracted from Good configurations -/
theorem rvb_admissible {E : Ising} {c : Config} {R : Region} {eps : Rat} (hg : Good (isingHam E) c)
    (hR : RegionOK E c R) (hnb : (rvbCodeMult E c R).2 = false) (hgam : 0 ≤ E.gamma)
    (hclose : CloseExact E eps) :
    Admissible (extract E c R).1 ((extract E c R).2.1.map List.length) eps :=
  admissible_of_good hg hR hnb hgam hclose

/-- the executable decider for the region's well-formedness (core Lean, `QmcModel/RvbRegionOK.lean`: a driver
can evaluate it on every traced region) is sound -/
theorem rvb_regionOK_decider {E : Ising} {c : Config} {R : Region} (h : regionOKb E c R = true) :
    RegionOK E c R := regionOKb_sound h

theorem rvb_closeExact_of_grid (E : Ising) (g eps : Rat) (hg : eps ≤ 2 * g)
    (hJ : ∀ e ∈ E.edges, ∃ k : Int, e.2.2 = (k : Rat) * g) : CloseExact E eps :=
  closeExact_of_grid E g eps hg hJ

/-- **detailed balance including the proposal, on the pair of configurations, with nothing observed**:
`q(b→R)·w(c_b)·P_R(c_b→c_a) = q(a→R)·w(c_a)·P_R(c_a→c_b)` for the abstractions extracted from `b`, `a`. -/
theorem rvb_detailed_balance_cfg_closed {E : Ising} {b a : Config} {R : Region} (hmove : RvbMove E b a R)
    (hgood : Good (isingHam E) b) (hR : RegionOK E b R)
    (hnb : (rvbCodeMult E b R).2 = false) (hna : (rvbCodeMult E a R).2 = false) (hgam : 0 ≤ E.gamma)
    (μ : List (List Nat × Rat)) (eps : Rat) (hclose : CloseExact E eps) :
    proposalProb (Rvb.skeleton E b) μ (proposesRegion E.nvars R) *
      (weight (extract E b R).1 (extract E b R).2.1 *
        transProb (extract E b R).1 (extract E b R).2.1 (extract E a R).2.1 eps) =
    proposalProb (Rvb.skeleton E a) μ (proposesRegion E.nvars R) *
      (weight (extract E a R).1 (extract E a R).2.1 *
        transProb (extract E a R).1 (extract E a R).2.1 (extract E b R).2.1 eps) := by
  obtain ⟨hflip, hshape⟩ := rvb_extract_flip_of_good hmove hgood hR hnb hna
  exact rvb_detailed_balance_full_cfg hmove (edgeOpsNotConst_of_good hgood) μ eps hflip hshape
    (admissible_of_good hgood hR hnb hgam hclose)

/-- the SSE weight factors through the abstraction: `Π ⟨o⟩ = restW · weight(extract)` -/
theorem rvb_sse_weight_factor {E : Ising} {c : Config} {R : Region} (hg : Good (isingHam E) c)
    (hR : RegionOK E c R) (hnb : (rvbCodeMult E c R).2 = false) :
    opsW E c.slots = restW E R { st := c.state, mask := R.mask0, tog := R.toggles } 0 c.slots *
      weight (extract E c R).1 (extract E c R).2.1 :=
  opsW_factor hg hR hnb

/-- **the same identity for the SSE weight of the whole configuration**:
`q(b→R)·π(b)·P_R(b→a) = q(a→R)·π(a)·P_R(a→b)` with `π = configWeight (isingHam E) β`. -/
theorem rvb_detailed_balance_sse {E : Ising} {N : Nat} {b a : Config} {R : Region} (h : MoveOK E N R b a)
    (hgam : 0 ≤ E.gamma) (μ : List (List Nat × Rat)) (eps : Rat) (hclose : CloseExact E eps) (β : Rat) :
    proposalProb (Rvb.skeleton E b) μ (proposesRegion E.nvars R) *
      (configWeight (isingHam E) β b *
        transProb (extract E b R).1 (extract E b R).2.1 (extract E a R).2.1 eps) =
    proposalProb (Rvb.skeleton E a) μ (proposesRegion E.nvars R) *
      (configWeight (isingHam E) β a *
        transProb (extract E a R).1 (extract E a R).2.1 (extract E b R).2.1 eps) := by
  rw [proposalProb_symmetric h.move (edgeOpsNotConst_of_good h.good.2),
    guard_balance β (guard_of_moveOK hgam hclose h)]

/-! ## G2: the kernel -/

/-- the condition under which `rvbK` has a transition is symmetric -/
theorem rvb_moveOK_symm {E : Ising} {N : Nat} {R : Region} {c c' : Config} (h : MoveOK E N R c c') :
    MoveOK E N R c' c := h.symm

/-- transitions from the configuration space stay in it -/
theorem rvb_kernel_target_in_space {E : Ising} {N L : Nat} {R : Region} {c c' : Config}
    (h : MoveOK E N R c c') (hc : c ∈ cfgSpace (isingHam E) N L) : c' ∈ cfgSpace (isingHam E) N L :=
  h.mem_cfgSpace hc

/-- the entries of the per-region kernel are the model's acceptance × redraw probabilities -/
theorem rvb_kernel_entry {E : Ising} {N : Nat} {eps : Rat} {R : Region} {c c' : Config}
    (h : MoveOK E N R c c') :
    rvbT E N eps R c c' =
      acceptProb (extract E c R).1 ((extract E c R).2.1.map List.length) eps *
        redrawProb (extract E c R).1 (extract E c' R).2.1 := rvbT_eq h

/-- **`rvbK` is in detailed balance with the SSE weight** on the whole type `Config` -/
theorem rvb_kernel_reversible (E : Ising) (N : Nat) (eps : Rat) (hgam : 0 ≤ E.gamma)
    (hclose : CloseExact E eps) (q : Skeleton → Region → Rat) (Rs : List Region) (S : Finset Config)
    (β : Rat) : Reversible (configWeight (isingHam E) β) (rvbK E N eps q Rs S) :=
  rvbK_reversible E N eps hgam hclose q Rs S β

/-- … and with the true SSE measure `configWeight · 1_{Consistent ∧ Legal}` -/
theorem rvb_kernel_reversible_cut (E : Ising) (N : Nat) (eps : Rat) (hgam : 0 ≤ E.gamma)
    (hclose : CloseExact E eps) (q : Skeleton → Region → Rat) (Rs : List Region) (S : Finset Config)
    (β : Rat) :
    Reversible (cutTo (GoodN (isingHam E) N) (configWeight (isingHam E) β)) (rvbK E N eps q Rs S) :=
  rvbK_reversible_cut E N eps hgam hclose q Rs S β

/-- conservation of probability on the set the rejected mass is accounted on -/
theorem rvb_kernel_rowSum (E : Ising) (N : Nat) (eps : Rat) (q : Skeleton → Region → Rat)
    (Rs : List Region) (S : Finset Config) : RowSumOn S (rvbK E N eps q Rs S) :=
  rvbK_rowSumOn E N eps q Rs S

theorem rvb_kernel_invariant (E : Ising) (N : Nat) (eps : Rat) (hgam : 0 ≤ E.gamma)
    (hclose : CloseExact E eps) (q : Skeleton → Region → Rat) (Rs : List Region) (S : Finset Config)
    (β : Rat) : Invariant (sseOn (isingHam E) β S) (restr S (rvbK E N eps q Rs S)) :=
  rvbK_invariant E N eps hgam hclose q Rs S β

theorem rvb_kernel_invariant_cut (E : Ising) (N : Nat) (eps : Rat) (hgam : 0 ≤ E.gamma)
    (hclose : CloseExact E eps) (q : Skeleton → Region → Rat) (Rs : List Region) (S : Finset Config)
    (hN : ∀ c ∈ S, c.state.length = N) (β : Rat) :
    Invariant (sseCutOn (isingHam E) β S) (restr S (rvbK E N eps q Rs S)) :=
  rvbK_invariant_cut E N eps hgam hclose q Rs S hN β

/-- **one Ising `timestep` WITH the RVB update leaves the SSE weight invariant** (diagonal sweep ; RVB ;
cluster update with the model's own decomposition ; free-spin refresh) -/
theorem ising_timestep_invariant_rvb (E : Ising) (L : Nat) (he : EdgesOK E) (hg : 0 ≤ E.gamma) (β : Rat)
    (hβ : 0 < β) (eps : Rat) (hclose : CloseExact E eps) (q : Skeleton → Region → Rat) (Rs : List Region) :
    Invariant (sseOn (isingHam E) β (cfgSpace (isingHam E) E.nvars L))
      (timestepWith (sweepKM (isingHam E) β (cfgSpace (isingHam E) E.nvars L) L)
        [restr (cfgSpace (isingHam E) E.nvars L)
          (rvbK E E.nvars eps q Rs (cfgSpace (isingHam E) E.nvars L))]
        (ClusterFamily.ofComponents (isingFrozen (isingEdges E).length E.nvars) (isingHam E) E.nvars L
          (isingHam_varsOK he)) E.nvars) :=
  Qmc.Rvb.Kernel.ising_timestep_invariant_rvb E L he hg β hβ eps hclose q Rs

/-- **… and the true SSE measure** `configWeight · 1_{Consistent ∧ Legal}` -/
theorem ising_timestep_invariant_rvb_cut (E : Ising) (L : Nat) (he : EdgesOK E) (hg : 0 ≤ E.gamma)
    (β : Rat) (hβ : 0 < β) (eps : Rat) (hclose : CloseExact E eps) (q : Skeleton → Region → Rat)
    (Rs : List Region) :
    Invariant (sseCutOn (isingHam E) β (cfgSpace (isingHam E) E.nvars L))
      (timestepWith (sweepKM (isingHam E) β (cfgSpace (isingHam E) E.nvars L) L)
        [restr (cfgSpace (isingHam E) E.nvars L)
          (rvbK E E.nvars eps q Rs (cfgSpace (isingHam E) E.nvars L))]
        (ClusterFamily.ofComponents (isingFrozen (isingEdges E).length E.nvars) (isingHam E) E.nvars L
          (isingHam_varsOK he)) E.nvars) :=
  Qmc.Rvb.Kernel.ising_timestep_invariant_rvb_cut E L he hg β hβ eps hclose q Rs

/-- the heat-bath variant of the diagonal update -/
theorem ising_timestep_invariant_rvb_cut_hb (E : Ising) (L : Nat) (he : EdgesOK E) (hg : 0 ≤ E.gamma)
    (β : Rat) (hβ : 0 < β) (hW : 0 < (makeBondWeights (isingHam E)).sum) (eps : Rat)
    (hclose : CloseExact E eps) (q : Skeleton → Region → Rat) (Rs : List Region) :
    Invariant (sseCutOn (isingHam E) β (cfgSpace (isingHam E) E.nvars L))
      (timestepWith
        (sweepKHB (isingHam E) (makeBondWeights (isingHam E)) β (cfgSpace (isingHam E) E.nvars L) L)
        [restr (cfgSpace (isingHam E) E.nvars L)
          (rvbK E E.nvars eps q Rs (cfgSpace (isingHam E) E.nvars L))]
        (ClusterFamily.ofComponents (isingFrozen (isingEdges E).length E.nvars) (isingHam E) E.nvars L
          (isingHam_varsOK he)) E.nvars) :=
  Qmc.Rvb.Kernel.ising_timestep_invariant_rvb_cut_hb E L he hg β hβ hW eps hclose q Rs

/-- the same with the model's own proposal law: the probability (under any finite distribution `μ` of RNG
scripts) that the exact proposal model `proposeRegion` hands over region `R` — a function of the
skeleton, as `rvbK` requires -/
theorem ising_timestep_invariant_rvb_proposal (E : Ising) (L : Nat) (he : EdgesOK E) (hg : 0 ≤ E.gamma)
    (β : Rat) (hβ : 0 < β) (eps : Rat) (hclose : CloseExact E eps) (μ : List (List Nat × Rat))
    (Rs : List Region) :
    Invariant (sseCutOn (isingHam E) β (cfgSpace (isingHam E) E.nvars L))
      (timestepWith (sweepKM (isingHam E) β (cfgSpace (isingHam E) E.nvars L) L)
        [restr (cfgSpace (isingHam E) E.nvars L)
          (rvbK E E.nvars eps (fun sk R => proposalProb sk μ (proposesRegion E.nvars R)) Rs
            (cfgSpace (isingHam E) E.nvars L))]
        (ClusterFamily.ofComponents (isingFrozen (isingEdges E).length E.nvars) (isingHam E) E.nvars L
          (isingHam_varsOK he)) E.nvars) :=
  Qmc.Rvb.Kernel.ising_timestep_invariant_rvb_cut E L he hg β hβ eps hclose _ Rs

/-! ## `RegionOK` derived for the model's own proposal; deciders -/

/-- **the region `proposeRegion` hands over is well formed** — for every Good configuration and every RNG
script on which the exact proposal model does not panic. (`RegionOK` is no longer a hypothesis about the
model's proposal; for the real code it is additionally observed on every traced proposal by the driver.) -/
theorem rvb_proposeRegion_regionOK {E : Ising} {c : Config} (hg : Good (isingHam E) c) (rs : RS)
    (hp : (proposeRegionCfg E c rs).1.panic = false) :
    RegionOK E c ((proposeRegionCfg E c rs).1.region E.nvars) :=
  proposeRegion_regionOK hg rs hp

/-- a region proposed with positive probability (under any finite script distribution) is well formed -/
theorem rvb_regionOK_of_proposed {E : Ising} {μ : List (List Nat × Rat)} {c : Config} {R : Region}
    (hg : Good (isingHam E) c) (hq : qProp E μ (Rvb.skeleton E c) R ≠ 0) : RegionOK E c R :=
  regionOK_of_qProp hg hq

/-- with the model's proposal law the `RegionOK` guard of the kernel is redundant: `rvbKP` (guard: move
relation, Good, no underflow — nothing about the region) is the same kernel as `rvbK` -/
theorem rvb_kernel_proposal_eq (E : Ising) (N : Nat) (eps : Rat) (μ : List (List Nat × Rat))
    (Rs : List Region) (S : Finset Config) : rvbKP E N eps μ Rs S = rvbK E N eps (qProp E μ) Rs S :=
  rvbKP_eq_rvbK E N eps μ Rs S

/-- **one Ising `timestep` with the RVB update, model's proposal law, NO hypothesis on the regions** -/
theorem ising_timestep_invariant_rvb_cut_proposal (E : Ising) (L : Nat) (he : EdgesOK E) (hg : 0 ≤ E.gamma)
    (β : Rat) (hβ : 0 < β) (eps : Rat) (hclose : CloseExact E eps) (μ : List (List Nat × Rat))
    (Rs : List Region) :
    Invariant (sseCutOn (isingHam E) β (cfgSpace (isingHam E) E.nvars L))
      (timestepWith (sweepKM (isingHam E) β (cfgSpace (isingHam E) E.nvars L) L)
        [restr (cfgSpace (isingHam E) E.nvars L)
          (rvbKP E E.nvars eps μ Rs (cfgSpace (isingHam E) E.nvars L))]
        (ClusterFamily.ofComponents (isingFrozen (isingEdges E).length E.nvars) (isingHam E) E.nvars L
          (isingHam_varsOK he)) E.nvars) :=
  Qmc.Rvb.Derive.ising_timestep_invariant_rvb_cut_proposal E L he hg β hβ eps hclose μ Rs

/-- the executable decider of the kernel's transition condition (evaluated by the driver on every applied
update) is sound -/
theorem rvb_moveOK_decider {E : Ising} {N : Nat} {R : Region} {c c' : Config}
    (h : moveOKb E N R c c' = true) : MoveOK E N R c c' := moveOKb_sound h

/-! ## non-vacuity: the frustrated triangle `exE`, `exB → exA` on `exR` -/

theorem exB_good : Good (isingHam exE) exB := by
  refine ⟨by decide, ?_⟩
  have : legalB (isingHam exE) exB = true := by decide +kernel
  exact (legalB_iff _ _).1 this

theorem exR_regionOK : RegionOK exE exB exR := regionOKb_sound (by decide +kernel)

theorem ex_moveOK : MoveOK exE 3 exR exB exA :=
  ⟨isRvbMove_sound ex_isRvbMove, ⟨rfl, exB_good⟩, exR_regionOK, by decide +kernel, by decide +kernel⟩

/-- the reverse move, Goodness of `exA` and the region's well-formedness for `exA` come out of the theorems -/
example : MoveOK exE 3 exR exA exB := ex_moveOK.symm
example : Good (isingHam exE) exA := ex_moveOK.good'.2

theorem exE_closeExact : CloseExact exE f64eps := by
  refine closeExact_of_grid exE 1 f64eps (by unfold f64eps; norm_num) ?_
  intro e he
  simp only [exE, List.mem_cons, List.not_mem_nil, or_false] at he
  rcases he with rfl | rfl | rfl <;> exact ⟨1, by norm_num⟩

theorem exE_edgesOK : EdgesOK exE := by
  intro e he
  simp only [exE, List.mem_cons, List.not_mem_nil, or_false] at he
  rcases he with rfl | rfl | rfl <;> exact ⟨by decide, by decide, by decide⟩

/-- G1 on the instance, from the theorem … -/
example : (extract exE exA exR).1 = (extract exE exB exR).1.flip ∧
    (extract exE exB exR).2.1.map List.length = (extract exE exA exR).2.1.map List.length :=
  rvb_extract_flip_of_good ex_moveOK.move exB_good exR_regionOK ex_moveOK.nb ex_moveOK.nb'

/-- … and evaluated: the boundary bonds `(2,0),(0,2)` become `(0,2),(2,0)`, the operator moved from
bond index 0 to bond index 1 -/
example : (extract exE exA exR).1 = { segs := [⟨[]⟩, ⟨[(0, 2), (2, 0)]⟩, ⟨[]⟩], inner := [(1, 1)] } ∧
    (extract exE exB exR).2.1 = [[], [0], []] ∧ (extract exE exA exR).2.1 = [[], [1], []] := by
  decide +kernel

/-- the per-region transition probability `exB → exA` is acceptance 1 × redraw 1 -/
theorem ex_rvbT : rvbT exE 3 f64eps exR exB exA = 1 := by
  rw [rvbT_eq ex_moveOK]
  have h1 : (extract exE exB exR) =
      ({ segs := [⟨[]⟩, ⟨[(2, 0), (0, 2)]⟩, ⟨[]⟩], inner := [(1, 1)] }, [[], [0], []], true) := by
    decide +kernel
  have h2 : (extract exE exA exR).2.1 = [[], [1], []] := by decide +kernel
  rw [h1, h2]
  simp [acceptProb, rawMult, redrawProb, calculateMult, prodR, Seg.wBef, Seg.wAft, f64eps, minR]

/-- the kernel is not the identity: with `exR` proposed with probability ½ the entry `exB → exA` is ½ -/
example (S : Finset Config) :
    rvbK exE 3 f64eps (fun _ _ => 1 / 2) [exR] S exB exA = 1 / 2 := by
  have hne : ¬ exA = exB := by decide
  unfold rvbK remK mixRate
  rw [if_neg hne]
  simp [ex_rvbT]

/-- the balance identity for the SSE weight on the instance -/
example (β : Rat) (μ : List (List Nat × Rat)) :
    proposalProb (Rvb.skeleton exE exB) μ (proposesRegion exE.nvars exR) *
      (configWeight (isingHam exE) β exB *
        transProb (extract exE exB exR).1 (extract exE exB exR).2.1 (extract exE exA exR).2.1 f64eps) =
    proposalProb (Rvb.skeleton exE exA) μ (proposesRegion exE.nvars exR) *
      (configWeight (isingHam exE) β exA *
        transProb (extract exE exA exR).1 (extract exE exA exR).2.1 (extract exE exB exR).2.1 f64eps) :=
  rvb_detailed_balance_sse ex_moveOK (by norm_num [exE]) μ f64eps exE_closeExact β

/-- the headline theorem on the instance: β = 3/2, cutoff 6, the model's proposal law -/
example (μ : List (List Nat × Rat)) :
    Invariant (sseCutOn (isingHam exE) (3 / 2) (cfgSpace (isingHam exE) exE.nvars 6))
      (timestepWith (sweepKM (isingHam exE) (3 / 2) (cfgSpace (isingHam exE) exE.nvars 6) 6)
        [restr (cfgSpace (isingHam exE) exE.nvars 6)
          (rvbK exE exE.nvars f64eps (fun sk R => proposalProb sk μ (proposesRegion exE.nvars R)) [exR]
            (cfgSpace (isingHam exE) exE.nvars 6))]
        (ClusterFamily.ofComponents (isingFrozen (isingEdges exE).length exE.nvars) (isingHam exE) exE.nvars 6
          (isingHam_varsOK exE_edgesOK)) exE.nvars) :=
  ising_timestep_invariant_rvb_proposal exE 6 exE_edgesOK (by norm_num [exE]) (3 / 2) (by norm_num) f64eps
    exE_closeExact μ [exR]

/-- the derived `RegionOK` on the proposal of `ex_proposal` (script `[0, 0, w]` proposes `exR` from `exB`) -/
example : RegionOK exE exB
    ((proposeRegionCfg exE exB (RS.ofScript [0, 0, 12345678901234567890])).1.region exE.nvars) :=
  rvb_proposeRegion_regionOK exB_good _ ex_proposal.2.2.2.2.2.1

/-- `moveOKb` evaluates to `true` on the example move -/
example : moveOKb exE 3 exR exB exA = true := by decide +kernel

/-- the hypothesis-free headline on the instance -/
example (μ : List (List Nat × Rat)) :
    Invariant (sseCutOn (isingHam exE) (3 / 2) (cfgSpace (isingHam exE) exE.nvars 6))
      (timestepWith (sweepKM (isingHam exE) (3 / 2) (cfgSpace (isingHam exE) exE.nvars 6) 6)
        [restr (cfgSpace (isingHam exE) exE.nvars 6)
          (rvbKP exE exE.nvars f64eps μ [exR] (cfgSpace (isingHam exE) exE.nvars 6))]
        (ClusterFamily.ofComponents (isingFrozen (isingEdges exE).length exE.nvars) (isingHam exE) exE.nvars 6
          (isingHam_varsOK exE_edgesOK)) exE.nvars) :=
  ising_timestep_invariant_rvb_cut_proposal exE 6 exE_edgesOK (by norm_num [exE]) (3 / 2) (by norm_num) f64eps
    exE_closeExact μ [exR]

/-- `exB` lies in that configuration space and carries positive measure -/
example : exB ∈ cfgSpace (isingHam exE) 3 6 := good_mem_cfgSpace exB_good

end Qmc.C03
