/-
C05 — Parallel tempering keeps every replica at its own thermal distribution.

What is proved (for every ladder length, every family of non-negative weights, every swap /
stepping frequency): the product law `∏_i W_i(x_i)` is invariant under the replica-exchange kernel
the code implements (acceptance `min 1 (W_i(x_j) W_j(x_i) / (W_i(x_i) W_j(x_j)))` — the number C10
proves the code compares with its uniform draw), under the two phases, under the ½-mixture of the
two phase orders (= `tempering_step`), and under any interleaving with per-replica step kernels
that each leave their own `W_i` invariant.

What is assumed: each replica's own time-step kernel leaves its own law `W_i` invariant (C01–C04,
C08, C09), a common fixed cutoff `L` (the configuration space of one step; cutoff growth changes
the space and is not a kernel on it), uniform draws.
What is not proved: ergodicity / convergence ("after equilibration"), and that the marginal of the
SSE weight is the quantum thermal state (C01).
-/
import QmcProofs.TemperingDist
import QmcProps.C10
import Mathlib.Tactic.FinCases

namespace Qmc.C05
open Qmc Qmc.TDist Qmc.Tempering Finset

set_option linter.unusedSectionVars false

variable {σ : Type} [Fintype σ] [DecidableEq σ] {N : Nat}

/-! ## 1. One exchange move -/

/-- The exchange of the configurations at two ladder positions, accepted with the code's
probability, satisfies detailed balance with respect to the product law. -/
theorem swap_reversible (W : Fin N → σ → ℚ) (hW : ∀ i s, 0 ≤ W i s) (i j : Fin N) (hij : i ≠ j) :
    Reversible (prodLaw W) (swapKernel W i j) :=
  swapKernel_reversible W hW i j hij

/-- … hence leaves it invariant, and is a Markov kernel (rows sum to 1, entries ≥ 0). -/
theorem swap_invariant (W : Fin N → σ → ℚ) (hW : ∀ i s, 0 ≤ W i s) (i j : Fin N) (hij : i ≠ j) :
    Invariant (prodLaw W) (swapKernel W i j) ∧ RowSum (swapKernel W i j) ∧ Nonneg (swapKernel W i j) :=
  ⟨swapKernel_invariant W hW i j hij, rowSum_metro _ _,
   nonneg_metro _ _ (fun x => (accRatio_bounds W hW i j x).1) (fun x => (accRatio_bounds W hW i j x).2)⟩

/-- The move is an involution on configurations-at-positions (what `swap_manager_and_state` does
twice is nothing) and touches no other position. -/
theorem swap_is_involution (i j : Fin N) (x : Fin N → σ) :
    swapAt i j (swapAt i j x) = x ∧ (∀ k, k ≠ i → k ≠ j → swapAt i j x k = x k) ∧
    swapAt i j x i = x j ∧ swapAt i j x j = x i := by
  refine ⟨swapAt_invol i j x, ?_, by simp [swapAt], by simp [swapAt]⟩
  intro k hi hj; simp [swapAt, Equiv.swap_apply_of_ne_of_ne hi hj]

/-! ## 2. The tempering step -/

/-- one phase: the exchange kernels of its pairs, one after the other -/
def phaseKernel (W : Fin N → σ → ℚ) (ps : List (Fin N × Fin N)) : Kernel (Fin N → σ) :=
  compList (ps.map (fun p => swapKernel W p.1 p.2))

/-- `tempering_step`: with probability ½ phase a then phase b, otherwise b then a -/
def stepKernel (W : Fin N → σ → ℚ) (A B : List (Fin N × Fin N)) : Kernel (Fin N → σ) :=
  mix (1 / 2) (comp (phaseKernel W A) (phaseKernel W B)) (comp (phaseKernel W B) (phaseKernel W A))

theorem phase_invariant (W : Fin N → σ → ℚ) (hW : ∀ i s, 0 ≤ W i s) (ps : List (Fin N × Fin N))
    (hps : ∀ p ∈ ps, p.1 ≠ p.2) :
    Invariant (prodLaw W) (phaseKernel W ps) ∧ RowSum (phaseKernel W ps) := by
  constructor
  · apply invariant_compList
    intro K hK
    simp only [List.mem_map] at hK
    obtain ⟨p, hp, rfl⟩ := hK
    exact swapKernel_invariant W hW p.1 p.2 (hps p hp)
  · apply rowSum_compList
    intro K hK
    simp only [List.mem_map] at hK
    obtain ⟨p, _, rfl⟩ := hK
    exact rowSum_metro _ _

/-- **The tempering step leaves the product law invariant** (any two lists of pairs of distinct
positions — in particular the even and the odd neighbour pairs of C10 `pairs_disjoint`, for odd
and even ladder lengths), and is a Markov kernel. -/
theorem temperingStep_invariant (W : Fin N → σ → ℚ) (hW : ∀ i s, 0 ≤ W i s)
    (A B : List (Fin N × Fin N)) (hA : ∀ p ∈ A, p.1 ≠ p.2) (hB : ∀ p ∈ B, p.1 ≠ p.2) :
    Invariant (prodLaw W) (stepKernel W A B) ∧ RowSum (stepKernel W A B) := by
  have a := phase_invariant W hW A hA
  have b := phase_invariant W hW B hB
  exact ⟨invariant_mix _ (invariant_comp a.1 b.1) (invariant_comp b.1 a.1),
    rowSum_mix _ (rowSum_comp a.2 b.2) (rowSum_comp b.2 a.2)⟩

/-- the neighbour pairs the code uses, as positions of a ladder of `N` replicas -/
def neighbourPairs (N : Nat) (lefts : List Nat) : List (Fin N × Fin N) :=
  lefts.filterMap (fun l => if h : l + 1 < N then some (⟨l, by omega⟩, ⟨l + 1, h⟩) else none)

theorem neighbourPairs_distinct (N : Nat) (lefts : List Nat) :
    ∀ p ∈ neighbourPairs N lefts, p.1 ≠ p.2 := by
  intro p hp
  simp only [neighbourPairs, List.mem_filterMap] at hp
  obtain ⟨l, _, h⟩ := hp
  split at h
  · cases h; intro e; simp [Fin.ext_iff] at e
  · cases h

/-- the step of the code, on its even/odd phases -/
theorem code_step_invariant (W : Fin N → σ → ℚ) (hW : ∀ i s, 0 ≤ W i s) :
    Invariant (prodLaw W)
      (stepKernel W (neighbourPairs N (phaseALefts N)) (neighbourPairs N (phaseBLefts N))) :=
  (temperingStep_invariant W hW _ _ (neighbourPairs_distinct N _) (neighbourPairs_distinct N _)).1

/-! ## 3. Interleaving with the replicas' own updates, at any frequency -/

/-- A time step of replica `i` alone (its kernel `K` leaves `W_i` invariant — assumption, other
properties) leaves the product law invariant. -/
theorem replica_step_invariant (W : Fin N → σ → ℚ) (i : Fin N) (K : Kernel σ)
    (hK : Invariant (W i) K) : Invariant (prodLaw W) (lift i K) :=
  lift_invariant W i K hK

/-- the events of a run -/
inductive Event (σ : Type) (N : Nat) where
  /-- replica `i` makes one time step with kernel `K` -/
  | step (i : Fin N) (K : Kernel σ)
  /-- one `tempering_step` on the phases `A`, `B` -/
  | swaps (A B : List (Fin N × Fin N))

def Event.kernel (W : Fin N → σ → ℚ) : Event σ N → Kernel (Fin N → σ)
  | .step i K => lift i K
  | .swaps A B => stepKernel W A B

def Event.Ok (W : Fin N → σ → ℚ) : Event σ N → Prop
  | .step i K => Invariant (W i) K
  | .swaps A B => (∀ p ∈ A, p.1 ≠ p.2) ∧ (∀ p ∈ B, p.1 ≠ p.2)

/-- **Any schedule** — any number of time steps of any replicas between tempering steps, any
swap frequency, any order — leaves the product law invariant, provided each replica's own kernel
leaves its own law invariant. -/
theorem interleave_invariant (W : Fin N → σ → ℚ) (hW : ∀ i s, 0 ≤ W i s)
    (sched : List (Event σ N)) (hok : ∀ e ∈ sched, e.Ok W) :
    Invariant (prodLaw W) (compList (sched.map (Event.kernel W))) := by
  apply invariant_compList
  intro K hK
  simp only [List.mem_map] at hK
  obtain ⟨e, he, rfl⟩ := hK
  have := hok e he
  cases e with
  | step i K => exact lift_invariant W i K this
  | swaps A B => exact (temperingStep_invariant W hW A B this.1 this.2).1

/-- The drivers `timesteps_sample` / `parallel_timesteps_sample` are such schedules: chunks of
`t` time steps of every replica followed by a tempering step whenever the swap counter expires
(C17 cadence). Their kernel is invariant whatever `t`-sequence the frequencies produce. -/
theorem driver_invariant (W : Fin N → σ → ℚ) (hW : ∀ i s, 0 ≤ W i s)
    (K : Fin N → Kernel σ) (hK : ∀ i, Invariant (W i) (K i))
    (A B : List (Fin N × Fin N)) (hA : ∀ p ∈ A, p.1 ≠ p.2) (hB : ∀ p ∈ B, p.1 ≠ p.2)
    (chunks : List (Nat × Bool)) :
    Invariant (prodLaw W) (compList ((chunks.flatMap (fun c =>
      (List.replicate c.1 ((List.finRange N).map (fun i => Event.step i (K i)))).flatten ++
        (if c.2 then [Event.swaps A B] else []))).map (Event.kernel W))) := by
  apply interleave_invariant W hW
  intro e he
  simp only [List.mem_flatMap, List.mem_append, List.mem_flatten, List.mem_replicate] at he
  obtain ⟨c, _, h | h⟩ := he
  · obtain ⟨l, ⟨_, rfl⟩, hl⟩ := h
    simp only [List.mem_map] at hl
    obtain ⟨i, _, rfl⟩ := hl
    exact hK i
  · split at h
    · simp only [List.mem_singleton] at h; subst h; exact ⟨hA, hB⟩
    · simp at h

/-- Consequence for one ladder position: if the joint law is the product law, the marginal at
position `i` is proportional to `W_i` (the other positions only contribute a constant). -/
theorem marginal_is_own_law (W : Fin N → σ → ℚ) (i : Fin N) (y : Fin N → σ) (s : σ) :
    prodLaw W (Function.update y i s) = W i s * ∏ k ∈ univ.erase i, W k (y k) :=
  prodLaw_update W i y s

/-! ## 4. The kernel's acceptance is the model's (and, by C10's correspondence, the code's) -/

/-- For Ising replicas with a common cutoff, the acceptance probability of `swapKernel`, with
`W_i(s)` the SSE weight of configuration `s` under replica `i`'s Hamiltonian and β, is `min 1` of
the number `swap_on_chunks` compares with its uniform draw — with or without the `ham_eq`
shortcut. -/
theorem model_acceptance_eq_kernel_acceptance (fr : Fin N → Replica IsingH) (cfgOf : σ → Config)
    (i j : Fin N) (x : Fin N → σ)
    (hwf : ∀ k, (fr k).ham.WF) (hc : canSwapIsing (fr i).ham (fr j).ham = true)
    (hL : (fr i).cutoff = (fr j).cutoff) (hβ : ∀ k, 0 < (fr k).beta)
    (hli : LegalIsing (fr i).ham (cfgOf (x i)).slots)
    (hlj : LegalIsing (fr j).ham (cfgOf (x j)).slots)
    (eq : Bool) (heq : eq = true → hamEqIsing (fr i).ham (fr j).ham = true) :
    accRatio (fun k s => WIsing (fr k) (cfgOf s).slots) i j x =
      min 1 (pSwap isingIface { fr i with cfg := cfgOf (x i) } { fr j with cfg := cfgOf (x j) } (!eq)) := by
  have h := (C10.swapProb_exact { fr i with cfg := cfgOf (x i) } { fr j with cfg := cfgOf (x j) }
    (hwf i) (hwf j) hc hL (hβ i) (hβ j) hli hlj eq heq 0).1
  rw [h]
  rfl

/-! ## Non-vacuity -/

/-- a two-replica, two-configuration ladder with different weights: the hypotheses are satisfiable
and the exchange kernel is not the identity -/
example : ∃ (W : Fin 2 → Bool → ℚ), (∀ i s, 0 ≤ W i s) ∧
    Invariant (prodLaw W) (swapKernel W 0 1) ∧
    swapKernel W 0 1 (fun k => if k = 0 then false else true) (fun k => if k = 0 then true else false) = 1 / 4 := by
  refine ⟨fun i s => if i = 0 then (if s then 1 else 2) else (if s then 1 else 1 / 2), ?_, ?_, ?_⟩
  · intro i s; show (0 : ℚ) ≤ if i = 0 then (if s then 1 else 2) else (if s then 1 else 1 / 2)
    split_ifs <;> norm_num
  · apply swapKernel_invariant
    · intro i s; show (0 : ℚ) ≤ if i = 0 then (if s then 1 else 2) else (if s then 1 else 1 / 2)
      split_ifs <;> norm_num
    · decide
  · have e : (fun k : Fin 2 => if k = 0 then true else false) =
        swapAt 0 1 (fun k : Fin 2 => if k = 0 then false else true) := by
      funext k; fin_cases k <;> simp [swapAt]
    have ne : (fun k : Fin 2 => if k = 0 then true else false) ≠
        (fun k : Fin 2 => if k = 0 then false else true) := by
      intro h; have := congrFun h 0; simp at this
    unfold swapKernel metro
    rw [if_pos e, if_neg ne]
    simp [accRatio]
    norm_num

end Qmc.C05
