/-
C04 — the link between the EXECUTABLE directed-loop model and the loop kernel (item (1) of "Kernel level" in
design_notes/C04.md), and the generic time step WITH loop updates against the SSE cut measure.

Headline theorems only; machinery in QmcProofs/LawLoop.lean (draws, tree twins, refinement, law = `loopKn`) and
QmcProofs/LawLoopStep.lean (whole step, kernels, defect). Framework: a-law's probability trees
(QmcModel/ProbTree.lean, QmcProofs/LawTree.lean, design_notes/Law.md).

  (i)   draws      `Law.Draw.exitPick ws` (`gen_range(0.0..Σws)` + `try_fold`, weight `ws[j]/Σws`),
                   `Law.Draw.stdBool` (`gen::<bool>()`, ½/½), `Law.Draw.short` (fuel exhausted, no mass),
                   start slot = the existing `Draw.pick (Σk)`;
  (ii)  run        `loopUpdate w c rs = (loopUpdateT w fuel c).run rs` on EVERY script (whole `RS`), any
                   `fuel > rs.script.length`; `StepLoop.loopUpdate` (the copy the whole-step model uses) likewise;
  (iii) law        `law (loopUpdateT w n c) c' = loopKn w n c c'` for every configuration; mass `1 − openMass w n c`;
  (iv)  whole step `Sampler.genericTimestep = (genericTimestepLT …).run`, law = `(sweepK ∘ loopKn n) ; [clusterK] ; refreshK`,
                   SSE cut measure: invariant up to `loopDefect` = the open-walk mass pushed through the rest of the
                   step; invariant when the open-walk mass is 0, and in the limit `openMass n → 0`.
-/
import QmcProps.C04Mass
import QmcProps.C04Capstone
import QmcProofs.LawLoopStep

open BigOperators Finset

namespace Qmc.C04
open Qmc Qmc.Kernel Qmc.Dist Qmc.Law

/-! ### (i) the draws -/

/-- **Idealised weight of the exit draw** = the exit probability `exitProb` of the kernel (`w ≥ 0`): exit `j` of
the visit has weight `ws[j]/Σws`, `ws` = the exit weights in the order of `loop_body`. -/
theorem loop_exit_draw_weight (W : List Bool → List Bool → Rat) (hW : ∀ a b, 0 ≤ W a b)
    (io : List Bool × List Bool) (ent : Leg) (k j : Nat) (hj : j < (legsOf k).length) :
    (Draw.exitPick (exitWeights W io ent k)).w j = exitProb W io ent ((legsOf k).getD j default) k :=
  exitPick_w W hW io ent k j hj

/-- **What the exit draw does on a script** (unflagged draw, an exit is found): exactly the model's
`genRangeF` ; `pickIdx` ; margin note. -/
theorem loop_exit_draw_run (ws : List Rat) (rs : RS) (j : Nat)
    (h : ¬ ((rs.genRangeF (sumR ws)).2.panicked || (rs.genRangeF (sumR ws)).2.short) = true)
    (hp : pickIdx (rs.genRangeF (sumR ws)).1 ws = some j) :
    (Draw.exitPick ws).run rs =
      (j, if (rs.genRangeF (sumR ws)).1 = 0 then (rs.genRangeF (sumR ws)).2
          else (rs.genRangeF (sumR ws)).2.noteMargin
            (pickMargin (rs.genRangeF (sumR ws)).1 ws / sumR ws)) :=
  run_exitPick_some ws rs j h hp

/-! ### (ii) the executable model runs the tree -/

/-- **`loopIter` runs `loopIterT`** (same fuel): configuration and the whole `RS`, every script. -/
theorem loopIter_run (w : Nat → List Bool → List Bool → Rat) (init : Nat × Leg) (fuel pos : Nat) (ent : Leg)
    (s : LoopSt) :
    loopIter w init fuel pos ent s =
      toLoopSt ((loopIterT w init fuel pos ent ⟨s.state, s.slots⟩).run s.rs) :=
  loopIter_refines w init fuel pos ent s

/-- **The fuel is irrelevant above the script length**: the model's own fuel `script.length + 1` is never
exhausted (every continuing visit consumes a word). -/
theorem loopIter_fuel_irrelevant (w : Nat → List Bool → List Bool → Rat) (init : Nat × Leg) (f1 f2 pos : Nat)
    (ent : Leg) (s : LoopSt) (h1 : s.rs.script.length < f1) (h2 : s.rs.script.length < f2) :
    loopIter w init f1 pos ent s = loopIter w init f2 pos ent s :=
  loopIter_fuel w init f1 f2 pos ent s h1 h2

/-- **`loopUpdate` runs `loopUpdateT`** on every script, for every fuel above the script length. -/
theorem loopUpdate_run (w : Nat → List Bool → List Bool → Rat) (fuel : Nat) (c : Config) (rs : RS)
    (hf : rs.script.length + 1 ≤ fuel) : loopUpdate w c rs = (loopUpdateT w fuel c).run rs :=
  loopUpdate_refines w fuel c rs hf

/-- … and so does the copy used by the whole-step model (`Sampler.loopK`). -/
theorem stepLoopUpdate_run (w : Nat → List Bool → List Bool → Rat) (fuel : Nat) (c : Config) (rs : RS)
    (hf : rs.script.length + 1 ≤ fuel) : Sampler.loopK w c rs = (loopUpdateT w fuel c).run rs := by
  unfold Sampler.loopK
  rw [Sampler.stepLoop_funext]
  exact loopUpdate_refines w fuel c rs hf

/-! ### (iii) law of the tree = truncated loop kernel -/

/-- **Law of the walk tree** from any head on any configuration = expectation of the indicator over the
closed walks of at most `n` visits. -/
theorem loopWalk_law (w : Nat → List Bool → List Bool → Rat) (hW : ∀ b i o, 0 ≤ w b i o) (init : Nat × Leg)
    (n pos : Nat) (ent : Leg) (c x : Config) :
    PT.law (loopIterT w init n pos ent c) x =
      LoopC.Mass.walkVal w (fun y => if x = y then 1 else 0) init n pos ent c :=
  law_loopIterT w hW init n pos ent c x

/-- **Law of the executable loop update (tree with `n` visits of fuel) = `loopKn w n`**, every configuration. -/
theorem loopUpdate_law_eq_kernel (w : Nat → List Bool → List Bool → Rat) (hW : ∀ b i o, 0 ≤ w b i o)
    (n : Nat) (c c' : Config) : PT.law (loopUpdateT w n c) c' = LoopC.loopKn w n c c' :=
  law_loopUpdateT w hW n c c'

/-- **The missing mass is the open-walk mass**: on a configuration with positive stored matrix elements the
tree returns a closed loop with idealised probability `1 − openMass w n c`; the rest sits on `Draw.short`. -/
theorem loopUpdate_law_mass (w : Nat → List Bool → List Bool → Rat) (hW : ∀ b i o, 0 ≤ w b i o) (n : Nat)
    (c : Config) (hl : LegalSlots w c.slots) (hT : countOps c.slots ≠ 0 → totalVars c.slots ≠ 0)
    (S : Finset Config) (hS : LoopC.Mass.reach n c ⊆ S) :
    ∑ c' ∈ S, PT.law (loopUpdateT w n c) c' = 1 - LoopC.Mass.openMass w n c :=
  law_loopUpdateT_mass w hW n c hl hT S hS

/-! ### (iv) the generic time step with loop updates -/

/-- **(0) the executable whole step IS the tree**, loop update included (`do_loop_updates` on or off): every
script, every fuel above the script length (the diagonal update never lengthens the script,
`Law.genericDiagonalUpdate_script_le`; sharper: above the length left when the loop update starts,
`Law.genericTimestep_loop_refines`). -/
theorem genericTimestep_loop_run (s : Sampler.GenericSampler) (β : ℚ) (rs : RS) (fuel : Nat)
    (hf : rs.script.length + 1 ≤ fuel) :
    Sampler.genericTimestep s β rs = (genericTimestepLT s β fuel).run rs :=
  genericTimestep_loop_refines' s β rs fuel hf

theorem genericTimestep_loop_cfg (s : Sampler.GenericSampler) (β : ℚ) (fuel : Nat) :
    PT.map Sampler.GenericSampler.cfg (genericTimestepLT s β fuel) =
      genericStepCfgLT s.ham s.tableUsed s.doLoop s.shouldCluster β s.cutoff fuel s.cfg :=
  genericTimestepLT_cfg s β fuel

/-- **Law of the step = composition of the kernels** on the Good configurations (Metropolis):
`(sweepKM ∘ loopKn n) ; [clusterK (ofComponents) if the gate is on] ; refreshK`. -/
theorem genericLoopStep_law_eq_kernels (H : Ham) (β : ℚ) (hβ : 0 ≤ β) (hw : ∀ b i o, 0 ≤ H.w b i o)
    (hNb : 0 < H.nbonds) (N L : Nat) (hV : VarsOK H N) (gate : Bool) (hp : gate = true → VarsPos H)
    (hsym : gate = true → ClusterSym H (fun _ => false) (cfgSpace H N L)) (n : Nat) :
    lawK (goodSpace H N L) (genericStepCfgLT H none true gate β L n) =
      compList (genericKernels H N L hV gate
        (comp (sweepKM H β (goodSpace H N L) L) (restr (goodSpace H N L) (LoopC.loopKn H.w n)))) :=
  lawK_genericStepCfgLT H β hβ hw hNb N L hV gate hp hsym n

/-- … heat bath. -/
theorem genericLoopStep_law_eq_kernels_hb (H : Ham) (β : ℚ) (hβ : 0 ≤ β) (hW : 0 < (makeBondWeights H).sum)
    (hw : ∀ b i o, 0 ≤ H.w b i o) (N L : Nat) (hV : VarsOK H N) (gate : Bool) (hp : gate = true → VarsPos H)
    (hsym : gate = true → ClusterSym H (fun _ => false) (cfgSpace H N L)) (n : Nat) :
    lawK (goodSpace H N L) (genericStepCfgLT H (some (makeBondWeights H)) true gate β L n) =
      compList (genericKernels H N L hV gate
        (comp (sweepKHB H (makeBondWeights H) β (goodSpace H N L) L)
          (restr (goodSpace H N L) (LoopC.loopKn H.w n)))) :=
  lawK_genericStepCfgLT_hb H β hβ hW hw N L hV gate hp hsym n

/-- **The exact statement about the SSE cut measure** `π_L = configWeight · 1_Good` on `cfgSpace H N L`
(Metropolis; heat bath: `Law.genericLoopStep_defect_cut_hb`): one step with the loop update bounded by `n` visits maps
`π_L` to `π_L − loopDefect`, `loopDefect b = Σ_{d Good} π_L(d) · openMass n d · law(cluster?;refresh from d)(b)`. -/
theorem genericLoopStep_sse_defect (H : Ham) (β : ℚ) (hβ : 0 < β) (hw : ∀ b i o, 0 ≤ H.w b i o)
    (hNb : 0 < H.nbonds) (N L : Nat) (hV : VarsOK H N) (hp : VarsPos H) (gate : Bool)
    (hsym : gate = true → ClusterSym H (fun _ => false) (cfgSpace H N L)) (n : Nat)
    (b : (cfgSpace H N L : Finset Config)) :
    ∑ a : (cfgSpace H N L : Finset Config), sseCutOn H β (cfgSpace H N L) a *
        lawK (cfgSpace H N L) (genericStepCfgLT H none true gate β L n) a b =
      sseCutOn H β (cfgSpace H N L) b -
        ∑ d ∈ goodSpace H N L, configWeight H β d * LoopC.Mass.openMass H.w n d *
          PT.law (restStepT gate d) b.1 :=
  genericLoopStep_defect_cut H β hβ hw hNb N L hV hp gate hsym n b

theorem genericLoopStep_sse_defect_hb (H : Ham) (β : ℚ) (hβ : 0 < β) (hW : 0 < (makeBondWeights H).sum)
    (hw : ∀ b i o, 0 ≤ H.w b i o) (N L : Nat) (hV : VarsOK H N) (hp : VarsPos H) (gate : Bool)
    (hsym : gate = true → ClusterSym H (fun _ => false) (cfgSpace H N L)) (n : Nat)
    (b : (cfgSpace H N L : Finset Config)) :
    ∑ a : (cfgSpace H N L : Finset Config), sseCutOn H β (cfgSpace H N L) a *
        lawK (cfgSpace H N L) (genericStepCfgLT H (some (makeBondWeights H)) true gate β L n) a b =
      sseCutOn H β (cfgSpace H N L) b -
        ∑ d ∈ goodSpace H N L, configWeight H β d * LoopC.Mass.openMass H.w n d *
          PT.law (restStepT gate d) b.1 :=
  genericLoopStep_defect_cut_hb H β hβ hW hw N L hV hp gate hsym n b

/-- **Full invariance when every loop closes within the fuel** (`openMass n = 0` on the Good configurations). -/
theorem genericLoopStep_invariant_of_closed (H : Ham) (β : ℚ) (hβ : 0 < β) (hw : ∀ b i o, 0 ≤ H.w b i o)
    (hNb : 0 < H.nbonds) (N L : Nat) (hV : VarsOK H N) (hp : VarsPos H) (gate : Bool)
    (hsym : gate = true → ClusterSym H (fun _ => false) (cfgSpace H N L)) (n : Nat)
    (hclosed : ∀ d ∈ goodSpace H N L, LoopC.Mass.openMass H.w n d = 0) :
    Invariant (sseCutOn H β (cfgSpace H N L))
      (lawK (cfgSpace H N L) (genericStepCfgLT H none true gate β L n)) :=
  genericLoopStep_invariant_cut_of_closed H β hβ hw hNb N L hV hp gate hsym n hclosed

/-- **Invariance in the limit**: if the walk closes with probability 1 from every Good configuration
(`openMass n → 0`; e.g. by `loop_open_mass_geometric` + `LoopC.Mass.tendsto_openMass_zero_of_geometric`), the image
of `π_L` under the step with `n` visits of fuel converges to `π_L`. -/
theorem genericLoopStep_invariant_limit (H : Ham) (β : ℚ) (hβ : 0 < β) (hw : ∀ b i o, 0 ≤ H.w b i o)
    (hNb : 0 < H.nbonds) (N L : Nat) (hV : VarsOK H N) (hp : VarsPos H) (gate : Bool)
    (hsym : gate = true → ClusterSym H (fun _ => false) (cfgSpace H N L))
    (hopen : ∀ d ∈ goodSpace H N L,
      Filter.Tendsto (fun n : ℕ => ((LoopC.Mass.openMass H.w n d : ℚ) : ℝ)) Filter.atTop (nhds 0))
    (b : (cfgSpace H N L : Finset Config)) :
    Filter.Tendsto (fun n : ℕ =>
        ((∑ a : (cfgSpace H N L : Finset Config), sseCutOn H β (cfgSpace H N L) a *
          lawK (cfgSpace H N L) (genericStepCfgLT H none true gate β L n) a b : ℚ) : ℝ))
      Filter.atTop (nhds ((sseCutOn H β (cfgSpace H N L) b : ℚ) : ℝ)) :=
  genericLoopStep_tendsto_cut H β hβ hw hNb N L hV hp gate hsym hopen b

/-- **The generic sampler with `do_loop_updates = true`** (Metropolis): hypotheses on the interaction list only. -/
theorem genericSampler_loop_sse_defect (s : Sampler.GenericSampler) (N : Nat) (hV : VarsOK s.ham N)
    (hw : ∀ b i o, 0 ≤ s.ham.w b i o) (hNb : 0 < s.bonds.length) (hhb : s.doHeatbath = false)
    (hl : s.doLoop = true) (hp : VarsPos s.ham)
    (hsym : s.shouldCluster = true → ∀ b, b < s.bonds.length → s.ham.FlipSym b)
    (β : ℚ) (hβ : 0 < β) (L n : Nat) (b : (cfgSpace s.ham N L : Finset Config)) :
    ∑ a : (cfgSpace s.ham N L : Finset Config), sseCutOn s.ham β (cfgSpace s.ham N L) a *
        lawK (cfgSpace s.ham N L)
          (genericStepCfgLT s.ham s.tableUsed s.doLoop s.shouldCluster β L n) a b =
      sseCutOn s.ham β (cfgSpace s.ham N L) b - loopDefect s.ham β N L s.shouldCluster n b.1 :=
  genericSampler_loop_defect_cut s N hV hw hNb hhb hl hp hsym β hβ L n b

/-! ### non-vacuity -/

/-- the closed two-visit run of QmcProps/C04.lean IS the run of the tree (fuel 5 > 4 words), and the law of the tree
gives the whole-line flip the kernel value `1/4`; with one visit of fuel it has no mass -/
example : (loopUpdateT wlW 5 wlCfg).run (RS.ofScript [0, 0, 0, 0]) =
      loopUpdate wlW wlCfg (RS.ofScript [0, 0, 0, 0]) ∧
    ((loopUpdateT wlW 5 wlCfg).run (RS.ofScript [0, 0, 0, 0])).1 =
      ⟨[true], [some (wlOp true), some (wlOp true)]⟩ ∧
    PT.law (loopUpdateT wlW 2 wlCfg) ⟨[true], [some (wlOp true), some (wlOp true)]⟩ = 1 / 4 ∧
    PT.law (loopUpdateT wlW 1 wlCfg) ⟨[true], [some (wlOp true), some (wlOp true)]⟩ = 0 := by
  have hW : ∀ b i o, 0 ≤ wlW b i o := fun _ _ _ => by simp [wlW]
  have hrun := loopUpdate_run wlW 5 wlCfg (RS.ofScript [0, 0, 0, 0]) (by decide)
  refine ⟨hrun.symm, ?_, ?_, ?_⟩
  · rw [← hrun]; decide +kernel
  · rw [loopUpdate_law_eq_kernel wlW hW]; decide +kernel
  · rw [loopUpdate_law_eq_kernel wlW hW]; decide +kernel

/-- a short script: the tree and the model agree on the flagged run too (the walk is cut after one visit) -/
example : (loopUpdateT wlW 4 wlCfg).run (RS.ofScript [0, 0, 0]) = loopUpdate wlW wlCfg (RS.ofScript [0, 0, 0]) :=
  (loopUpdate_run wlW 4 wlCfg (RS.ofScript [0, 0, 0]) (by decide)).symm

namespace Example
open Qmc.Sampler

/-- `exGeneric` (QmcProofs/SamplerStep.lean; constant single-site `½(1+σx)` + `diag(1,0,0,1)`) has loop updates ON and
the gate on: every hypothesis of `genericSampler_loop_sse_defect` is discharged -/
theorem exGeneric_loop_flags :
    exGeneric.doLoop = true ∧ exGeneric.shouldCluster = true ∧ exGeneric.doHeatbath = false := by
  decide +kernel

example (β : ℚ) (hβ : 0 < β) (L n : Nat) (b : (cfgSpace exGeneric.ham 2 L : Finset Config)) :=
  genericSampler_loop_sse_defect exGeneric 2 exG_varsOK exG_nonneg (by decide) exGeneric_loop_flags.2.2
    exGeneric_loop_flags.1 exG_varsPos (fun _ => Qmc.Composed.Example.exGeneric_flipSym) β hβ L n b

/-- the executable step of `exGeneric` (loops on) is the run of the tree, any script, enough fuel -/
example (β : ℚ) (rs : RS) (fuel : Nat) (hf : rs.script.length + 1 ≤ fuel) :
    genericTimestep exGeneric β rs = (genericTimestepLT exGeneric β fuel).run rs :=
  genericTimestep_loop_run exGeneric β rs fuel hf

end Example

end Qmc.C04
