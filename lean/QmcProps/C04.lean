/-
C04 — the generic-interaction sampler converges to the thermal state of its matrices
(partial by nature: what is decided here is local detailed balance of every modelled move for
all parameters, the invariants the loop update keeps — including periodic world lines,
`loopUpdate_pres` —, the cluster gate, and the offset / energy bookkeeping; ergodicity, the SSE
representation theorem and the loop path-space argument are not formalised, and ergodicity in
fact FAILS for some interaction sets: known finding F20, `gate_off_single_site_stays_diagonal`
— see design_notes/C04.md).

Property theorems only; helper lemmas live in QmcProofs/{Loop,Generic,Interaction}.lean.
Models: QmcModel/Loop.lean (directed_loop.rs), QmcModel/Generic.lean (qmc_runner.rs), tied to
/repo by `./check C04`.
-/
import QmcProofs.Loop
import QmcProofs.LoopConsistent
import QmcProofs.LoopSingleSite
import QmcProofs.LoopNoPanic
import QmcProofs.LoopPath
import QmcProofs.LoopKernelCut
import QmcProofs.Generic
import QmcProps.C16
import QmcProps.C08
import QmcModel.Stepper

namespace Qmc.C04
open Qmc

/-! ### 1. heat-bath exit choice: local detailed balance for every matrix -/

/-- **Equal normalisers.** The list of exit weights seen by the reverse visit (state with
entrance `i` and exit `e` toggled, entered at `e`) is the list seen by the forward visit. -/
theorem exit_equal_normalisers (W : List Bool → List Bool → Rat) (io : List Bool × List Bool)
    (i e : Leg) (k : Nat) :
    exitWeights W (flipIO (flipIO io i) e) e k = exitWeights W io i k :=
  exitWeights_reverse W io i e k

/-- **Local detailed balance of the exit choice**, for every weight function (matrix), vertex
state `s = io`, entrance `i`, exit `e`, arity `k`:
`W(s)·P(s; i→e) = W(s^{ie})·P(s^{ie}; e→i)` with `P(s; i→x) = W(s^{ix}) / Σ_y W(s^{iy})`. -/
theorem exit_local_balance (W : List Bool → List Bool → Rat) (io : List Bool × List Bool)
    (i e : Leg) (k : Nat) :
    W io.1 io.2 * exitProb W io i e k
      = W (flipIO (flipIO io i) e).1 (flipIO (flipIO io i) e).2
          * exitProb W (flipIO (flipIO io i) e) e i k :=
  exitProb_balance W io i e k

/-- The code's cumulative pick realises exactly that distribution: for non-negative weights and a
draw `c ≥ 0`, exit index `j` is chosen iff `c ∈ [Σ_{x<j} w_x, Σ_{x≤j} w_x)` — an interval of
length `w_j` inside `[0, total)`. -/
theorem exit_pick_interval (ws : List Rat) (hw : ∀ x ∈ ws, 0 ≤ x) (c : Rat) (hc : 0 ≤ c) (j : Nat) :
    pickIdx c ws = some j ↔
      j < ws.length ∧ sumR (ws.take j) ≤ c ∧ c < sumR (ws.take (j + 1)) :=
  pickIdx_iff ws hw c hc j

/-- A draw below the total always finds an exit (the `unwrap_err` cannot fail in exact
arithmetic). -/
theorem exit_pick_total (ws : List Rat) (hw : ∀ x ∈ ws, 0 ≤ x) (c : Rat) (hc : 0 ≤ c)
    (hlt : c < sumR ws) : ∃ j, pickIdx c ws = some j :=
  pickIdx_total ws hw c hc hlt

/-- **A zero-weight exit is never chosen**, for any draw `c ≥ 0` including the boundary draw
`c = 0` (the comparison in the fold is the strict `c < w`). No sign hypothesis on the other
weights is needed. -/
theorem chosen_exit_positive {c : Rat} {ws : List Rat} {j : Nat} (hc : 0 ≤ c)
    (h : pickIdx c ws = some j) : ∃ w, ws[j]? = some w ∧ 0 < w :=
  pickIdx_pos hc h

/-- The draw handed to the pick is never negative. -/
theorem exit_draw_nonneg (s : RS) (t : Rat) : 0 ≤ (s.genRangeF t).1 := genRangeF_nonneg s t

/-- At an op with positive matrix element the total exit weight is positive (the bounce exit
has the weight of the unchanged op), so `gen_range(0.0..total)` is never called on an empty
range. -/
theorem exit_total_pos (W : List Bool → List Bool → Rat) (hW : ∀ a b, 0 ≤ W a b)
    (io : List Bool × List Bool) (i : Leg) (k : Nat) (hi : i.rel < k) (hpos : 0 < W io.1 io.2) :
    0 < sumR (exitWeights W io i k) := by
  have hmem : exitWeight W io i i ∈ exitWeights W io i k :=
    List.mem_map.mpr ⟨i, (mem_legsOf k i).mpr hi, rfl⟩
  have hnn : ∀ x ∈ exitWeights W io i k, 0 ≤ x := by
    intro x hx
    obtain ⟨l, _, rfl⟩ := List.mem_map.mp hx
    exact hW _ _
  have := sumR_ge_mem _ hnn _ hmem
  rw [exitWeight_bounce] at this
  exact lt_of_lt_of_le hpos this

/-! ### 2. loop start: uniform over (op, leg), independent of the spin values -/

/-- The start `(position, leg)` is a function of the skeleton (positions, variables, bonds) and
of the draws only. -/
theorem start_state_independent {s1 s2 : Slots} (h : skeletonOf s1 = skeletonOf s2) (rs : RS) :
    loopStart s1 rs = loopStart s2 rs :=
  loopStart_skeleton h rs

/-- What the two draws select: `a = U(Σ_ops k_op)` walks the variable slots of the ops in chain
order (`pickLeg`), the fair bit picks the side (`true` → inputs). -/
theorem start_draw_map (slots : Slots) (rs : RS) (p : Nat) (leg : Leg) (rs' : RS)
    (h : loopStart slots rs = (some (p, leg), rs')) :
    pickLeg slots 0 (rs.genRange (totalVars slots)).1 = some (p, leg.rel) ∧
    leg.out = !((rs.genRange (totalVars slots)).2.genStdBool).1 := by
  unfold loopStart at h
  simp only at h
  split at h
  · cases h
  · rename_i p' b hp
    split at h
    · cases h
    · injection h with h1 _
      injection h1 with h1
      injection h1 with h1 h2
      subst h1
      rw [← h2]
      exact ⟨hp, rfl⟩

/-- **The slot map is a chain-order bijection.** Draw `a` selects relative variable `r` of the op
at position `p` iff `a` = (number of variable slots of all ops before `p`) + `r`; every `a` below
the total selects an existing (op, relative variable), every existing one is selected by exactly
that one `a`, which is below the total. -/
theorem start_slot_bijection (slots : Slots) :
    (∀ a p r, pickLeg slots 0 a = some (p, r) ↔
      ∃ op, slots[p]? = some (some op) ∧ r < op.vars.length ∧ a = totalVars (slots.take p) + r) ∧
    (∀ a, a < totalVars slots → ∃ q, pickLeg slots 0 a = some q) ∧
    (∀ p r op, slots[p]? = some (some op) → r < op.vars.length →
      totalVars (slots.take p) + r < totalVars slots) := by
  refine ⟨fun a p r => ?_, fun a h => pickLeg_total slots 0 a h,
    fun p r op h hr => slotIndex_lt slots p r op h hr⟩
  rw [pickLeg_iff]
  constructor
  · rintro ⟨j, op, hp, hj, hr, ha⟩
    have : j = p := by omega
    subst this
    exact ⟨op, hj, hr, ha⟩
  · rintro ⟨op, hj, hr, ha⟩
    exact ⟨p, op, by omega, hj, hr, ha⟩

/-- probability that the loop starts on one given existing leg: `1/Σk · 1/2` -/
def startLegProb (slots : Slots) : Rat := 1 / (2 * (totalVars slots : Rat))

/-- **Every leg is equally likely**: with `U(Σk)` and the fair bit uniform, each existing leg
`(p, r, side)` is the image of exactly one `(a, bit)` pair out of `Σk · 2`, so its probability is
`1/Σk · 1/2 = 1/(2Σk)` — independent of the spin values (`start_state_independent`) AND of the
arity of the op the leg sits on. -/
theorem start_uniform (slots : Slots) (p r : Nat) (op : Op) (h : slots[p]? = some (some op))
    (hr : r < op.vars.length) :
    (∃ a, a < totalVars slots ∧ pickLeg slots 0 a = some (p, r) ∧
      ∀ a', pickLeg slots 0 a' = some (p, r) → a' = a) ∧
    ((1 : Rat) / totalVars slots) * (1 / 2) = startLegProb slots := by
  obtain ⟨h1, _, h3⟩ := start_slot_bijection slots
  refine ⟨⟨totalVars (slots.take p) + r, h3 p r op h hr, (h1 _ p r).mpr ⟨op, h, hr, rfl⟩, ?_⟩, ?_⟩
  · intro a' ha'
    obtain ⟨_, _, _, e⟩ := (h1 a' p r).mp ha'
    exact e
  · unfold startLegProb
    rw [one_div, one_div, one_div, mul_inv]
    ring

/-! #### the rule before the fix of F22 -/

/-- what the three draws of the OLD rule selected (`loopStartOld`): the `a`-th occupied slot,
then a relative variable of that op, then the side -/
theorem old_start_draw_map (slots : Slots) (rs : RS) (p : Nat) (leg : Leg) (rs' : RS)
    (h : loopStartOld slots rs = (some (p, leg), rs')) :
    nthOp slots (rs.genRange (countOps slots)).1 = some p ∧
    ∃ op, slots[p]? = some (some op) ∧
      leg.rel = ((rs.genRange (countOps slots)).2.genRange op.vars.length).1 ∧
      leg.out = !(((rs.genRange (countOps slots)).2.genRange op.vars.length).2.genStdBool).1 := by
  unfold loopStartOld at h
  simp only at h
  split at h
  · cases h
  · rename_i p' hp
    split at h
    · rename_i op hop
      split at h
      · cases h
      · injection h with h1 _
        injection h1 with h1
        injection h1 with h1 h2
        subst h1
        refine ⟨hp, op, hop, ?_, ?_⟩ <;> rw [← h2]
    · cases h

/-- probability of one given leg of the op at `p` under the OLD rule: `a ↦ a`-th occupied slot
is a bijection (`nthOp_bijective`), so `1/n · 1/k_op · 1/2` -/
def oldStartLegProb (slots : Slots) (p : Nat) : Rat :=
  match slots[p]? with
  | some (some op) => (1 / (countOps slots : Rat)) * (1 / (op.vars.length : Rat)) * (1 / 2)
  | _ => 0

theorem old_start_op_uniform (s : Slots) (p : Nat) (o : Op) (h : s[p]? = some (some o)) :
    ∃ a, a < countOps s ∧ nthOp s a = some p ∧
      ∀ a', a' < countOps s → nthOp s a' = some p → a' = a :=
  nthOp_bijective s p o h

/-- **F22, the mechanism.** Under the old rule the start leg was NOT uniform over legs: in a
string with a one-variable and a two-variable op a leg of the former was chosen with probability
1/4, a leg of the latter with 1/8 (the new rule gives 1/6 to each of the six legs). A closed
loop that starts on one op and arrives through the link from the other has its reverse start on
the other op, so forward and reverse proposal differed by the factor `k_partner / k_start`. -/
theorem old_start_rule_not_leg_uniform :
    ∃ slots : Slots, (∃ o1 o2, slots = [some o1, some o2] ∧ o1.vars.length = 1 ∧ o2.vars.length = 2) ∧
      oldStartLegProb slots 0 = 1 / 4 ∧ oldStartLegProb slots 1 = 1 / 8 ∧
      startLegProb slots = 1 / 6 := by
  refine ⟨[some (Op.diagonal [0] 0 [false] false), some (Op.diagonal [0, 1] 1 [false, false] false)],
    ⟨_, _, rfl, rfl, rfl⟩, ?_, ?_, ?_⟩
  · simp [oldStartLegProb, countOps, Op.diagonal]; norm_num
  · simp [oldStartLegProb, countOps, Op.diagonal]; norm_num
  · simp [startLegProb, totalVars, Op.diagonal]; norm_num

/-- No operators, no draw, no change (`if self.get_n() > 0`). -/
theorem loop_empty (w : Nat → List Bool → List Bool → Rat) (cfg : Config) (rs : RS)
    (h : countOps cfg.slots = 0) : loopUpdate w cfg rs = (cfg, rs) := by
  unfold loopUpdate; rw [if_pos h]

/-! ### 3. what the loop update preserves -/

/-- **Preservation (partial).** For every weight function, configuration and script the loop
update keeps the skeleton (positions, bonds, variables, constant flags, hence `n`), the
structural well-formedness of every op (`Op.WF`, including a correct diagonal tag), the strict
positivity of every stored matrix element, and the number of variables.

Not included here (hence `_partial`): preservation of `Consistent` (periodic world lines); that
is `loopUpdate_pres` below, which needs the walk to have closed. This statement holds for every
run, also one that stops early (script exhausted / modelled panic). -/
theorem loopUpdate_pres_partial (w : Nat → List Bool → List Bool → Rat) (cfg : Config) (rs : RS)
    (hwf : WFSlots cfg.slots) (hlegal : LegalSlots w cfg.slots) :
    skeletonOf (loopUpdate w cfg rs).1.slots = skeletonOf cfg.slots ∧
    WFSlots (loopUpdate w cfg rs).1.slots ∧
    LegalSlots w (loopUpdate w cfg rs).1.slots ∧
    (loopUpdate w cfg rs).1.state.length = cfg.state.length ∧
    countOps (loopUpdate w cfg rs).1.slots = countOps cfg.slots := by
  have h := loopUpdate_inv w cfg rs (sk := skeletonOf cfg.slots) (n := cfg.state.length)
    ⟨rfl, hwf, hlegal, rfl⟩
  refine ⟨h.skel, h.wf, h.legal, h.len, ?_⟩
  rw [countOps_eq_occ, countOps_eq_occ, occ_skeleton h.skel]

/-- One vertex visit: either nothing is written, or exactly the visited slot is rewritten with
entrance and exit toggled, the exit having strictly positive weight. -/
theorem vertex_visit (w : Nat → List Bool → List Bool → Rat) (init : Nat × Leg) (pos : Nat)
    (ent : Leg) (s : LoopSt) :
    (loopBody w init pos ent s).1.slots = s.slots ∨
    ∃ op ex, s.slots[pos]? = some (some op) ∧ ex.rel < op.vars.length ∧
      0 < exitWeight (w op.bond) (op.ins, op.outs) ent ex ∧
      (loopBody w init pos ent s).1.slots = s.slots.set pos (some (passThrough op ent ex)) :=
  loopBody_slots w init pos ent s


/-! ### 3b. the loop update keeps world lines periodic (the "two open ends" invariant) -/

/-- The walk closed: the update returned without a modelled panic and without running out of
script / fuel (these are the only ways `loopBody` returns other than through one of the two
closing tests; the driver prints them as `PANIC` / `SHORT`). -/
def LoopClosed (rs : RS) : Prop := rs.panicked = false ∧ rs.short = false

instance (rs : RS) : Decidable (LoopClosed rs) := by unfold LoopClosed; infer_instance

/-- the verdict token `ok` the driver compares on every replayed loop implies `LoopClosed` -/
theorem verdict_ok_closed (rs : RS) (h : rs.verdict = "ok") : LoopClosed rs := by
  unfold RS.verdict at h
  split at h
  · exact absurd h (by decide)
  · split at h
    · exact absurd h (by decide)
    · rename_i h1 h2
      exact ⟨by simpa using h1, by simpa using h2⟩

/-- **The invariant at the start**: head = tail = the start leg, the two toggles cancel. -/
theorem loop_invariant_start (cfg : Config) (rs : RS) (p : Nat) (leg : Leg)
    (hwf : WFSlots cfg.slots) (hc : Consistent cfg) :
    LoopC.Inv (p, leg) p leg { state := cfg.state, slots := cfg.slots, rs := rs } :=
  LoopC.inv_start cfg rs p leg hwf hc

/-- **Step lemma (two open ends).** `LoopC.Inv init pos ent s` says: the current string with the
leg the walker is about to enter (`(pos, ent)`, the moving head) and the start leg (`init`, the
fixed tail) toggled propagates the current state to itself. One vertex visit — entrance and
exit toggled, head moved along the link of the exit leg, cyclically through p = 0 with
`state[v]` set to the new value of the exit leg, bounces included — hands the invariant to the
next visit; a visit that returns (head met tail: `(pos, exit) = init` or the linked leg `= init`)
without raising a flag leaves a periodic string. For every weight function, string, state, draw. -/
theorem loop_step_invariant (w : Nat → List Bool → List Bool → Rat) (init : Nat × Leg) (pos : Nat)
    (ent : Leg) (s : LoopSt) (h : LoopC.Inv init pos ent s) :
    (∀ p e, (loopBody w init pos ent s).2 = some (p, e) →
      LoopC.Inv init p e (loopBody w init pos ent s).1) ∧
    ((loopBody w init pos ent s).2 = none → LoopClosed (loopBody w init pos ent s).1.rs →
      Consistent ⟨(loopBody w init pos ent s).1.state, (loopBody w init pos ent s).1.slots⟩) := by
  obtain ⟨h1, h2⟩ := LoopC.loopBody_spec w init pos ent s h
  exact ⟨h1, fun hn hc => (h2 hn hc.1 hc.2).2⟩

/-- **The link lemma** behind the step: in a periodic string, toggling the leg `ex` of the op at
`pos` together with the leg `moveOn` (the code's `get_next/previous_p_for_rel_var`, else
`get_first/last_p_for_var` with the boundary write to `state`) says it is linked to keeps the
string periodic. -/
theorem link_flip_consistent {st : List Bool} {V : Slots} (hok : LoopC.SlotsOK V)
    (hc : Consistent ⟨st, V⟩) (pos : Nat) (oV : Op) (hop : V[pos]? = some (some oV)) (ex : Leg)
    (hr : ex.rel < oV.vars.length) (op' : Op) (hv' : op'.vars = oV.vars)
    (hval : LoopC.legVal op' ex = !LoopC.legVal oV ex) (st' : List Bool) (p' r' : Nat)
    (hm : moveOn V st pos op' ex = (st', some (p', r'))) :
    Consistent ⟨st', LoopC.togAt (LoopC.togAt V (pos, ex)) (p', ⟨r', !ex.out⟩)⟩ :=
  LoopC.link_move hok hc pos oV hop ex hr op' hv' hval st' p' r' hm

/-- **The loop update preserves `Consistent`** (periodic world lines), for ALL operator strings
with well-formed ops, states, weight functions and draw scripts: if the walk closed, the result
is `Consistent`. -/
theorem loopUpdate_consistent (w : Nat → List Bool → List Bool → Rat) (cfg : Config) (rs : RS)
    (hwf : WFSlots cfg.slots) (hc : Consistent cfg) (hcl : LoopClosed (loopUpdate w cfg rs).2) :
    Consistent (loopUpdate w cfg rs).1 :=
  LoopC.loopUpdate_consistent w cfg rs hwf hc hcl.1 hcl.2

/-- **Preservation, full strength**: a closed loop update maps a consistent, well-formed, legal
configuration to a consistent, well-formed, legal configuration on the same skeleton. -/
theorem loopUpdate_pres (w : Nat → List Bool → List Bool → Rat) (cfg : Config) (rs : RS)
    (hwf : WFSlots cfg.slots) (hlegal : LegalSlots w cfg.slots) (hc : Consistent cfg)
    (hcl : LoopClosed (loopUpdate w cfg rs).2) :
    Consistent (loopUpdate w cfg rs).1 ∧
    skeletonOf (loopUpdate w cfg rs).1.slots = skeletonOf cfg.slots ∧
    WFSlots (loopUpdate w cfg rs).1.slots ∧
    LegalSlots w (loopUpdate w cfg rs).1.slots ∧
    (loopUpdate w cfg rs).1.state.length = cfg.state.length ∧
    countOps (loopUpdate w cfg rs).1.slots = countOps cfg.slots :=
  ⟨loopUpdate_consistent w cfg rs hwf hc hcl, loopUpdate_pres_partial w cfg rs hwf hlegal⟩


/-- **No modelled panic on legal input.** For non-negative weights, well-formed ops with at
least one variable and strictly positive stored matrix elements, no branch of the model that
stands for a panic of the implementation (`gen_range` on an empty range, `unwrap` on a missing
node, `unwrap_err` of the exit fold, `unwrap` of the link) is ever taken — whatever the state,
the script, and whether or not the world lines are periodic. -/
theorem loopUpdate_no_panic (w : Nat → List Bool → List Bool → Rat) (hW : ∀ b i o, 0 ≤ w b i o)
    (cfg : Config) (rs : RS) (hwf : WFSlots cfg.slots) (hlegal : LegalSlots w cfg.slots)
    (hk : ∀ o, some o ∈ cfg.slots → o.vars ≠ []) (hp : rs.panicked = false) :
    (loopUpdate w cfg rs).2.panicked = false :=
  LoopC.loopUpdate_no_panic w hW cfg rs hwf hlegal hk hp

/-- Hence on legal input the walk closes unless the script ran out (which the real, unbounded
RNG never does): `LoopClosed ↔ ¬ short`, and a run whose script sufficed ends periodic. -/
theorem loop_closed_iff_script_sufficed (w : Nat → List Bool → List Bool → Rat)
    (hW : ∀ b i o, 0 ≤ w b i o) (cfg : Config) (rs : RS) (hwf : WFSlots cfg.slots)
    (hlegal : LegalSlots w cfg.slots) (hk : ∀ o, some o ∈ cfg.slots → o.vars ≠ [])
    (hp : rs.panicked = false) :
    (LoopClosed (loopUpdate w cfg rs).2 ↔ (loopUpdate w cfg rs).2.short = false) ∧
    (Consistent cfg → (loopUpdate w cfg rs).2.short = false → Consistent (loopUpdate w cfg rs).1) := by
  have hnp := loopUpdate_no_panic w hW cfg rs hwf hlegal hk hp
  refine ⟨⟨fun h => h.2, fun h => ⟨hnp, h⟩⟩, fun hc hs => ?_⟩
  exact loopUpdate_consistent w cfg rs hwf hc ⟨hnp, hs⟩

/-- What is known when the walk did NOT close: a flag is raised (the driver reports `PANIC` or
`SHORT`, never `ok`), in particular when the fuel `script.length + 1` runs out; the partial
preservation `loopUpdate_pres_partial` still holds, `Consistent` in general does not (two open
ends). -/
theorem loop_out_of_fuel (w : Nat → List Bool → List Bool → Rat) (init : Nat × Leg) (pos : Nat)
    (ent : Leg) (s : LoopSt) : ¬ LoopClosed (loopIter w init 0 pos ent s).rs := by
  intro h
  have := h.2
  simp [loopIter] at this

/-- The head of the walk always is a leg that exists: the start draw and every continuing visit
name an occupied position and a relative variable below the op's arity. -/
theorem loop_head_exists (w : Nat → List Bool → List Bool → Rat) (init : Nat × Leg) (pos : Nat)
    (ent : Leg) (s : LoopSt) :
    (∀ slots rs rs' p leg, loopStart slots rs = (some (p, leg), rs') → LoopC.HeadOK slots p leg) ∧
    (∀ p e, (loopBody w init pos ent s).2 = some (p, e) →
      LoopC.HeadOK (loopBody w init pos ent s).1.slots p e) :=
  ⟨fun slots rs rs' p leg h => LoopC.loopStart_head slots rs rs' p leg h,
   fun p e h => LoopC.loopBody_head w init pos ent s p e h⟩


/-! ### 3c. reversibility of the closed-loop move, as far as the model carries it (F22) -/

/-- **Forward and reverse start probability agree.** `Σk` is a skeleton invariant, so the result
`c'` of a loop update has the same `Σk` as `c`; under the new rule every existing leg of `c`
(in particular the forward start leg) and every existing leg of `c'` has start probability
`1/(2Σk)` (`start_uniform`) — and the exit leg of every visit, in particular of the last one,
which is where the reverse loop starts (the start leg itself if the loop closed through
`(pos, exit) = init`, its link partner if it closed by arriving at it), is an existing leg of
`c'`. Under the old rule the two differed by `k_partner / k_start`
(`old_start_rule_not_leg_uniform`). -/
theorem loop_reverse_start_prob_eq (w : Nat → List Bool → List Bool → Rat) (cfg : Config) (rs : RS) :
    totalVars (loopUpdate w cfg rs).1.slots = totalVars cfg.slots ∧
    startLegProb (loopUpdate w cfg rs).1.slots = startLegProb cfg.slots ∧
    ∀ v ∈ LoopC.loopUpdateTrace w cfg rs,
      LoopC.HeadOK (loopUpdate w cfg rs).1.slots v.pos v.ex ∧ LoopC.HeadOK cfg.slots v.pos v.ex := by
  have ht := LoopC.loopUpdate_totalVars w cfg rs
  refine ⟨ht, by unfold startLegProb; rw [ht], ?_⟩
  intro v hv
  have hsk := LoopC.loopUpdate_skeleton w cfg rs
  have h0 : LoopC.HeadOK cfg.slots v.pos v.ex := by
    unfold LoopC.loopUpdateTrace at hv
    split at hv
    · simp at hv
    · rcases hs : loopStart cfg.slots rs with ⟨_ | ⟨p, leg⟩, rs'⟩
      · rw [hs] at hv; simp at hv
      · rw [hs] at hv
        exact LoopC.loopTrace_exit_exists w (p, leg) cfg.slots _ p leg _ rfl v hv
  exact ⟨LoopC.headOK_skeleton hsk.symm h0, h0⟩

/-- **The trace of a closed run is a closed loop**: it starts by entering the start leg, every
visit enters through the link partner of the previous visit's exit leg (`LoopC.partnerOf`, the
code's next / previous / first / last getters), and the last visit closes (`LoopC.Closes`: its
exit leg is the start leg or is linked to it). -/
theorem loop_trace_is_path (w : Nat → List Bool → List Bool → Rat) (cfg : Config) (rs : RS)
    (hn : countOps cfg.slots ≠ 0) (hcl : LoopClosed (loopUpdate w cfg rs).2) :
    ∃ p leg rs', loopStart cfg.slots rs = (some (p, leg), rs') ∧
      LoopC.IsPath cfg.slots (p, leg) p leg true (LoopC.loopUpdateTrace w cfg rs) := by
  unfold loopUpdate at hcl
  rw [if_neg hn] at hcl
  unfold LoopC.loopUpdateTrace
  rw [if_neg hn]
  rcases hs : loopStart cfg.slots rs with ⟨_ | ⟨p, leg⟩, rs'⟩
  · exfalso
    rw [hs] at hcl
    simp only at hcl
    have : rs'.panicked = true ∨ rs'.short = true := by
      unfold loopStart at hs
      simp only at hs
      split at hs
      · injection hs with _ h2; rw [← h2]; exact Or.inl rfl
      · split at hs
        · rename_i hfl
          injection hs with _ h2
          rw [← h2]
          simpa using hfl
        · injection hs with h1 _; cases h1
    rcases this with h | h
    · rw [hcl.1] at h; cases h
    · rw [hcl.2] at h; cases h
  · rw [hs] at hcl
    simp only at hcl ⊢
    refine ⟨p, leg, rs', rfl, ?_⟩
    have := LoopC.loopTrace_isPath w (p, leg) cfg.slots (rs'.script.length + 1) p leg
      { state := cfg.state, slots := cfg.slots, rs := rs' } rfl
    rw [hcl.1, hcl.2] at this
    exact this


/-- **Links are symmetric**: if leg `ex` of the op at `pos` is linked to leg `e'` of the op at
`p'` (next / previous op on the variable, else first / last through p = 0), then `e'` at `p'` is
linked back to `(pos, ex)` — the walk that retraces a loop backwards moves along the same links.
(`op'`, `o2'` only supply the variable lists.) -/
theorem link_symmetric {slots : Slots} {pos : Nat} {op op' : Op} {ex : Leg} {p' : Nat} {e' : Leg}
    (hop : slots[pos]? = some (some op)) (hv : op'.vars = op.vars) (hn : op.vars.Nodup)
    (hr : ex.rel < op.vars.length) (h : LoopC.partnerOf slots pos op' ex = some (p', e')) :
    ∃ o2, slots[p']? = some (some o2) ∧ e'.rel < o2.vars.length ∧ e'.out = !ex.out ∧
      ∀ o2' : Op, o2'.vars = o2.vars → LoopC.partnerOf slots p' o2' e' = some (pos, ex) :=
  LoopC.partnerOf_symm hop hv hn hr h

/-- **Path balance.** With `W(c) = Π stored matrix elements` (the SSE weight up to the factor
`β^n (L-n)!/L!`, unchanged by the loop), `P(path) = P_start · Π_i P(op_i; ent_i → ex_i)` along the
visits of the run and `P(reverse path) = P_start' · Π_i P(op_i'; ex_i → ent_i)` — the reverse walk
on the result `c'`, entering each rewritten vertex through the old exit and leaving through the
old entrance —: `W(c) · P(path) = W(c') · P(reverse path)`, for every weight function,
configuration and script. Each vertex visit contributes `exit_local_balance`, the links
contribute nothing, the product of matrix elements changes by exactly the visited ops
(`LoopC.loopIter_weight`), and both start factors are `1/(2Σk)`. -/
theorem loop_path_balance (w : Nat → List Bool → List Bool → Rat) (cfg : Config) (rs : RS) :
    LoopC.slotsWeight w cfg.slots *
        (startLegProb cfg.slots * LoopC.pathProb w (LoopC.loopUpdateTrace w cfg rs)) =
      LoopC.slotsWeight w (loopUpdate w cfg rs).1.slots *
        (startLegProb (loopUpdate w cfg rs).1.slots *
          LoopC.pathProbRev w (LoopC.loopUpdateTrace w cfg rs)) := by
  rw [(loop_reverse_start_prob_eq w cfg rs).2.1]
  have := LoopC.loopUpdate_path_balance w cfg rs
  calc _ = startLegProb cfg.slots *
        (LoopC.slotsWeight w cfg.slots * LoopC.pathProb w (LoopC.loopUpdateTrace w cfg rs)) := by ring
    _ = _ := by rw [this]; ring


/-- **The trace of a closed run is a closed loop, and so is the loop retraced backwards.**
On the result `c'` (same skeleton) the visits of a closed run form a `LoopC.IsLoop` from the start
leg: every visit fits an op of the string, consecutive visits are linked, the first enters the
start leg, the last closes and no earlier one does. Retraced backwards — visits in reverse order,
each rewritten op entered through the old exit and left through the old entrance — they form an
`IsLoop` again, started at the exit leg of the last visit (`LoopC.IsLoop.reverse`: links are
symmetric, the closing visit of the retraced loop is the first visit, no earlier one closes). -/
theorem loop_reverse_is_loop (w : Nat → List Bool → List Bool → Rat) (cfg : Config) (rs : RS)
    (hwf : WFSlots cfg.slots) (hn : countOps cfg.slots ≠ 0)
    (hcl : LoopClosed (loopUpdate w cfg rs).2) :
    ∃ p leg rs' vm, loopStart cfg.slots rs = (some (p, leg), rs') ∧
      LoopC.IsLoop (loopUpdate w cfg rs).1.slots (p, leg) (LoopC.loopUpdateTrace w cfg rs) ∧
      (LoopC.loopUpdateTrace w cfg rs).getLast? = some vm ∧
      LoopC.IsLoop (loopUpdate w cfg rs).1.slots (vm.pos, vm.ex)
        ((LoopC.loopUpdateTrace w cfg rs).map LoopC.Visit.rev).reverse := by
  obtain ⟨p, leg, rs', hs, _⟩ := loop_trace_is_path w cfg rs hn hcl
  have hsk := LoopC.loopUpdate_skeleton w cfg rs
  have hwf' := LoopC.loopUpdate_wf w cfg rs hwf
  have hh : LoopC.HeadOK (loopUpdate w cfg rs).1.slots p leg :=
    LoopC.headOK_skeleton hsk.symm (LoopC.loopStart_head _ _ _ _ _ hs)
  have hloop : LoopC.IsLoop (loopUpdate w cfg rs).1.slots (p, leg) (LoopC.loopUpdateTrace w cfg rs) := by
    have hcl' := hcl
    unfold loopUpdate at hcl'
    rw [if_neg hn, hs] at hcl'
    simp only at hcl'
    have := LoopC.loopTrace_isLoop w (p, leg) (loopUpdate w cfg rs).1.slots
      (fun o ho => (hwf' o ho).2.2.1) (rs'.script.length + 1) p leg
      { state := cfg.state, slots := cfg.slots, rs := rs' } hsk.symm hh hcl'.1 hcl'.2
    unfold LoopC.loopUpdateTrace
    rw [if_neg hn, hs]
    simp only
    obtain ⟨a1, a2, a3, a4, a5⟩ := this
    exact ⟨a1, a2, a3, a4, a5⟩
  obtain ⟨vm, hvm, hrev⟩ := hloop.reverse
  exact ⟨p, leg, rs', vm, hs, hloop, hvm, hrev⟩

/-- **Path balance against the retraced loop.** The reverse factor of `loop_path_balance` is the
forward probability of the retraced loop of `loop_reverse_is_loop`:
`W(c) · P_start(c) · P(loop) = W(c') · P_start(c') · P(retraced loop)`. -/
theorem loop_path_balance_retraced (w : Nat → List Bool → List Bool → Rat) (cfg : Config) (rs : RS) :
    LoopC.slotsWeight w cfg.slots *
        (startLegProb cfg.slots * LoopC.pathProb w (LoopC.loopUpdateTrace w cfg rs)) =
      LoopC.slotsWeight w (loopUpdate w cfg rs).1.slots *
        (startLegProb (loopUpdate w cfg rs).1.slots *
          LoopC.pathProb w ((LoopC.loopUpdateTrace w cfg rs).map LoopC.Visit.rev).reverse) := by
  rw [LoopC.pathProb_rev]
  exact loop_path_balance w cfg rs


/-! ### 3d. the loop update as a kernel: reverse run and detailed balance, truncated at `n` visits -/

/-- **The model follows the exit-driven walk**: whenever the draw of a visit chooses the exit
`ex` (`LoopC.exitOf`), `loopBody` does to state, string and head exactly what `LoopC.stepEx` does
with that exit (or panics exactly when `stepEx` has no link to follow). -/
theorem loop_step_follows_exit (w : Nat → List Bool → List Bool → Rat) (init : Nat × Leg) (pos : Nat)
    (ent : Leg) (s : LoopSt) (op : Op) (ex : Leg) (h : LoopC.exitOf w pos ent s = some (op, ex)) :
    match LoopC.stepEx init pos ent ⟨s.state, s.slots⟩ ex with
    | some (c', res) =>
      (loopBody w init pos ent s).1.state = c'.state ∧ (loopBody w init pos ent s).1.slots = c'.slots ∧
        (loopBody w init pos ent s).2 = res
    | none => (loopBody w init pos ent s).2 = none ∧ (loopBody w init pos ent s).1.rs.panicked = true :=
  LoopC.loopBody_stepEx w init pos ent s op ex h

/-- **Every closed run of the model is one of the enumerated loops**: its trace is a closed walk
from the start leg to its result, listed in `LoopC.loopsOf n cfg` for every `n` ≥ its number of
visits — `loopsOf` is generated from the model's own start map (`pickLeg`) and exit list
(`legsOf`). -/
theorem loop_model_run_is_enumerated (w : Nat → List Bool → List Bool → Rat) (cfg : Config) (rs : RS)
    (hn : countOps cfg.slots ≠ 0) (hcl : LoopClosed (loopUpdate w cfg rs).2) (n : Nat)
    (hlen : (LoopC.loopUpdateTrace w cfg rs).length ≤ n) :
    ∃ init, (init, LoopC.loopUpdateTrace w cfg rs, (loopUpdate w cfg rs).1) ∈ LoopC.loopsOf n cfg :=
  LoopC.loopUpdate_mem_loopsOf w cfg rs hn hcl.1 hcl.2 n hlen

/-- **Reverse run.** A closed walk from `c` (well-formed ops, canonical diagonal tags, periodic
world lines: `LoopC.GoodL`) to `c'`, retraced backwards from the exit leg of its last visit, is a
closed walk of the same exit-driven dynamics from `c'` that ends in EXACTLY `c`, string and state:
the ops the retracing walk finds are the rewritten ops, it writes back the original ops (the
recomputed tag is the original one because tags are canonical), and the state returns because
both ends are periodic. `c'` is `GoodL` again. (At the level of scripts this is false in general:
an exit whose probability interval contains no point of the 2^-52 grid of `gen_range(0.0..t)`
cannot be chosen by any script; the statement is about the idealised branching, as in the
probability-tree semantics.) -/
theorem loop_reverse_run {init : Nat × Leg} {c c' : Config} {tr : List LoopC.Visit}
    (h : LoopC.Walk init init.1 init.2 c tr c') (hg : LoopC.GoodL c)
    (hh : LoopC.HeadOK c.slots init.1 init.2) :
    ∃ vm, tr.getLast? = some vm ∧
      LoopC.Walk (vm.pos, vm.ex) vm.pos vm.ex c' (tr.map LoopC.Visit.rev).reverse c ∧
      LoopC.HeadOK c'.slots vm.pos vm.ex ∧ LoopC.GoodL c' :=
  h.reverse hg hh

/-- **Detailed balance of the loop kernel truncated at `n` vertex visits.**
`LoopC.loopKn w n c c'` = Σ over the closed loops of at most `n` visits from `c` to `c'` of
`1/(2Σk) · Π exitProb` (a finite sum by construction: `loopsOf`). For every `n`, every weight
function and all `GoodL` configurations: `W(c)·K_n(c,c') = W(c')·K_n(c',c)`, `W` = product of the
stored matrix elements. (Retracing is a length-preserving bijection between the loops `c → c'`
and `c' → c`, `LoopC.revLoop_mem`; per loop `LoopC.loop_term_balance`.) -/
theorem loop_kernel_reversible_truncated (w : Nat → List Bool → List Bool → Rat) (n : Nat)
    (c c' : Config) (hg : LoopC.GoodL c) (hg' : LoopC.GoodL c') :
    LoopC.slotsWeight w c.slots * LoopC.loopKn w n c c' =
      LoopC.slotsWeight w c'.slots * LoopC.loopKn w n c' c :=
  LoopC.loopKn_reversible w n c c' hg hg'

/-- **… with the true SSE measure** `π = configWeight·1_Good` of `KernelInvarianceCut`
(`β^n (L−n)!/L! · Π matrix elements` on Consistent ∧ Legal configurations, 0 elsewhere), for
non-negative matrix elements: `Reversible π (loopKn H.w n)` on ALL configurations — a loop from a
Good configuration reaches a non-Good one only with probability 0, and loops keep `L` and `n`. -/
theorem loop_kernel_reversible_cut_truncated (H : Ham) [DecidablePred (Good H)] (β : Rat)
    (hw : ∀ b i o, 0 ≤ H.w b i o) (n : Nat) :
    Qmc.Dist.Reversible (Qmc.Kernel.cutTo (Good H) (configWeight H β)) (LoopC.loopKn H.w n) :=
  LoopC.loopKn_reversible_cut H β hw n

/-- **What the truncated kernel does to the measure** (exact): flow into `b` from a finite set
`S` = `π(b)` · (mass `K_n` sends from `b` into `S`). The truncated kernel is sub-stochastic
(missing mass = probability that the walk needs more than `n` visits), so this is
sub-invariance, and invariance exactly where the row mass is 1. -/
theorem loop_kernel_flow_truncated (H : Ham) [DecidablePred (Good H)] (β : Rat)
    (hw : ∀ b i o, 0 ≤ H.w b i o) (n : Nat) (S : Finset Config) (b : Config) :
    ∑ a ∈ S, Qmc.Kernel.cutTo (Good H) (configWeight H β) a * LoopC.loopKn H.w n a b =
      Qmc.Kernel.cutTo (Good H) (configWeight H β) b * ∑ a ∈ S, LoopC.loopKn H.w n b a :=
  LoopC.loopKn_flow H β hw n S b

/-! ### 4. cluster gate -/

/-- samplers reachable through the public interface (flags part) -/
inductive Reach : GQmc → Prop
  | init (d : Bool) : Reach (GQmc.init d)
  | add {q q' : GQmc} {i : Interaction} : Reach q → addInteraction q i = .ok q' → Reach q'
  | call {q q' : GQmc} {c : Call} : Reach q → makeCall q c = .ok q' → Reach q'
  | setLoop {q : GQmc} (b : Bool) : Reach q → Reach (setDoLoopUpdates q b)
  | setHeatbath {q : GQmc} (b : Bool) : Reach q → Reach (setDoHeatbath q b)

theorem reach_flags {q : GQmc} (h : Reach q) : FlagsInv q := by
  induction h with
  | init d => exact flagsInv_init d
  | add _ ha ih => exact (addInteraction_ok ha).1 ih
  | call _ hc ih =>
    obtain ⟨_, _, _, _, hf, _⟩ := makeCall_ok hc
    exact hf ih
  | setLoop b _ ih => exact ⟨ih.breaks, ih.edges⟩
  | setHeatbath b _ ih => exact ⟨ih.breaks, ih.edges⟩

/-- **Cluster gate.** After any sequence of `add_interaction` / `make_*interaction*` / setter
calls, `should_do_cluster_update()` is true exactly when every stored interaction is classified
symmetric under the global flip and some stored interaction is a constant matrix on a single
variable. (C16 ties the two classifications to the matrices: `sym_full_iff`, `sym_diag_iff`,
`isConstant_iff`.) -/
theorem cluster_gate {q : GQmc} (h : Reach q) :
    shouldDoClusterUpdate q = true ↔
      (∀ i ∈ q.bonds, i.symUnderIsing = .ok true) ∧
      ∃ i ∈ q.bonds, i.isConstant = true ∧ i.vars.length = 1 :=
  gate_of_flags (reach_flags h)

/-- What the two classifications in the gate mean for the matrices the constructors accepted
(entries pairwise equal or ≥ eps apart, e.g. dyadic): "classified symmetric" ⇔ every entry equals
its global-spin-flip counterpart; "constant" ⇔ all entries of a full matrix are equal; a
diagonal table is never a cluster edge. (Corollary of C16.) -/
theorem classification_meaning (m : List Rat) (vs : List Nat) (I : Interaction) (hs : Separated m) :
    (Interaction.new m vs = .ok I →
      (I.symUnderIsing = .ok true ↔ C16.FlipSymmetric m) ∧ (I.isConstant = true ↔ AllEq m)) ∧
    (Interaction.newDiagonal m vs = .ok I →
      (I.symUnderIsing = .ok true ↔ C16.FlipSymmetric m) ∧ I.isConstant = false) := by
  constructor
  · intro hI
    obtain ⟨b, hb, hiff⟩ := C16.sym_full_iff m vs I hI hs
    refine ⟨?_, C16.isConstant_iff m vs I hI hs⟩
    rw [hb]
    constructor
    · intro h; exact hiff.mp (Res.ok.inj h)
    · intro h; rw [hiff.mpr h]
  · intro hI
    obtain ⟨b, hb, hiff⟩ := C16.sym_diag_iff m vs I hI hs
    refine ⟨?_, (C16.isConstantDiag_iff_diag m vs I hI hs).2⟩
    rw [hb]
    constructor
    · intro h; exact hiff.mp (Res.ok.inj h)
    · intro h; rw [hiff.mpr h]

/-! ### 5. offsets and the reported energy -/

/-- **Offset bookkeeping.** After any list of constructor calls on a fresh sampler (rejected
calls are skipped): the bonds are the accepted constructions in call order and the recorded
offset is minus the sum of the shifts the accepted constructors reported. -/
theorem offset_bookkeeping {d : Bool} {q : GQmc} {calls : List Call}
    (h : makeCalls (GQmc.init d) calls = .ok q) :
    ∃ tr : List (Call × Interaction × Rat),
      tr.map (·.1) = calls.filter accepts ∧
      (∀ x ∈ tr, construct x.1 = .ok (x.2.1, x.2.2)) ∧
      q.bonds = tr.map (·.2.1) ∧
      q.offset = - sumR (tr.map (·.2.2)) := by
  obtain ⟨tr, e1, e2, _, e4, e5, _⟩ := makeCalls_ok h
  refine ⟨tr, e1, e2, by simpa [GQmc.init] using e4, ?_⟩
  rw [e5]; simp [GQmc.init]

/-- The shift each variant reports and the matrix it stores: none for the plain variants; the
minimum table entry, subtracted everywhere, for `make_diagonal_interaction_and_offset`; the
minimum diagonal entry, subtracted on the diagonal only, for `make_interaction_and_offset`.
So in every case `given matrix = stored matrix + shift · identity`, i.e.
`−Σ given = −Σ stored − Σ shift = H_sampled + offset`. -/
theorem offset_variants (m : List Rat) (vs : List Nat) (i : Interaction) (off : Rat) :
    (construct ⟨.new, m, vs⟩ = .ok (i, off) → off = 0 ∧ i.mat = m) ∧
    (construct ⟨.diag, m, vs⟩ = .ok (i, off) → off = 0 ∧ i.mat = m) ∧
    (construct ⟨.diagOff, m, vs⟩ = .ok (i, off) →
      i.mat = m.map (· - off) ∧ (m ≠ [] → off ∈ m ∧ ∀ x ∈ m, off ≤ x)) ∧
    (construct ⟨.newOff, m, vs⟩ = .ok (i, off) →
      (off ∈ (diagIdxs vs.length).map (fun j => (m[j]?).getD 0)) ∧
      (∀ j ∈ diagIdxs vs.length, off ≤ (m[j]?).getD 0) ∧
      i.mat.length = m.length ∧
      (∀ j, j ∉ diagIdxs vs.length → i.mat[j]? = m[j]?) ∧
      (∀ j ∈ diagIdxs vs.length, i.mat[j]? = (m[j]?).map (· - off))) :=
  ⟨construct_new, construct_diag, fun h => (construct_diagOff h).2, construct_newOff⟩

/-- **Reported energy.** `get_energy_for_average_n(⟨n⟩, β) = −⟨n⟩/β + offset`; with the
bookkeeping above this is `−⟨n⟩/β − Σ shifts`: the SSE estimator `−⟨n⟩/β` of the sampled
`H_sampled = −Σ stored` moved by exactly the constant by which the user's `−Σ given` differs. -/
theorem energy_offset {d : Bool} {q : GQmc} {calls : List Call}
    (h : makeCalls (GQmc.init d) calls = .ok q) (avgN beta : Rat) :
    ∃ tr : List (Call × Interaction × Rat),
      tr.map (·.1) = calls.filter accepts ∧
      (∀ x ∈ tr, construct x.1 = .ok (x.2.1, x.2.2)) ∧
      energyForAverageN q avgN beta = -(avgN / beta) - sumR (tr.map (·.2.2)) := by
  obtain ⟨tr, e1, e2, _, e4⟩ := offset_bookkeeping h
  refine ⟨tr, e1, e2, ?_⟩
  unfold energyForAverageN; rw [e4]; ring

/-- **Energy returned by the default measuring methods** (`timesteps`, `timesteps_sample`,
`timesteps_measure` → `timesteps_measure_with_self`, C17's model `measureLoop`) on a generic
sampler built by a call list: when at least one step was measured it is
`−(Σ n over measured steps / #measured)/β − Σ shifts` — the exact rational average, not a
truncated one —, and NaN (`none`) when nothing was measured. -/
theorem measured_energy_offset {σ α : Type} {d : Bool} {q : GQmc} {calls : List Call}
    (h : makeCalls (GQmc.init d) calls = .ok q) (β : Rat) (r : MState σ α) :
    ∃ tr : List (Call × Interaction × Rat),
      tr.map (·.1) = calls.filter accepts ∧
      (∀ x ∈ tr, construct x.1 = .ok (x.2.1, x.2.2)) ∧
      (r.measured ≠ 0 → measureEnergy β q.offset r =
        some (-(((r.totalN : Rat) / (r.measured : Rat)) / β) - sumR (tr.map (·.2.2)))) ∧
      (r.measured = 0 → measureEnergy β q.offset r = none) := by
  obtain ⟨tr, e1, e2, _, e4⟩ := offset_bookkeeping h
  refine ⟨tr, e1, e2, fun hm => ?_, fun hm => ?_⟩
  · unfold measureEnergy energyForAvgN
    rw [if_neg hm, e4]; congr 1; ring
  · unfold measureEnergy; rw [if_pos hm]

/-! ### 5b. the cutoff `M` under manual calls -/

/-- `increase_cutoff_to(c)` with `c` at or below the current cutoff is a no-op for `M`, and it
never lowers `M` whatever `c` is; `M` afterwards is `max(M, c)` and the container holds at least
`M` slots. -/
theorem increase_cutoff_spec (s : CutSt) (c : Nat) :
    (cutApply s (.increase c)).cutoff = max s.cutoff c ∧
    (c ≤ s.cutoff → (cutApply s (.increase c)).cutoff = s.cutoff) ∧
    s.cutoff ≤ (cutApply s (.increase c)).cutoff ∧
    (cutApply s (.increase c)).cutoff ≤ (cutApply s (.increase c)).len := by
  refine ⟨rfl, fun h => Nat.max_eq_left h, Nat.le_max_left _ _, Nat.le_max_right _ _⟩

/-- no `set_cutoff` among the operations -/
def noSet : List CutOp → Prop
  | [] => True
  | .set _ :: _ => False
  | _ :: t => noSet t

/-- **The cutoff never decreases** under time steps and `increase_cutoff_to` calls (any order, any
arguments), the container never shrinks, and after a step that leaves `n` operators the cutoff
exceeds `n + n/2` (so `M − n ≥ 1`: the factor of the insertion probability is never 0 and
`cutoff - n` never underflows). -/
theorem cutoff_never_decreases (s : CutSt) (ops : List CutOp) (h : noSet ops) :
    ∀ t ∈ cutTrace s ops, s.cutoff ≤ t.cutoff ∧ s.len ≤ t.len := by
  induction ops generalizing s with
  | nil => intro t ht; simp [cutTrace] at ht
  | cons o rest ih =>
    have h1 : s.cutoff ≤ (cutApply s o).cutoff ∧ s.len ≤ (cutApply s o).len := by
      cases o with
      | step n => exact ⟨Nat.le_max_left _ _, Nat.le_max_left _ _⟩
      | increase c => exact ⟨Nat.le_max_left _ _, Nat.le_max_left _ _⟩
      | set c => exact absurd h (by simp [noSet])
    have hrest : noSet rest := by cases o <;> simp_all [noSet]
    intro t ht
    simp only [cutTrace, List.mem_cons] at ht
    rcases ht with rfl | ht
    · exact h1
    · obtain ⟨a, b⟩ := ih (cutApply s o) hrest t ht
      exact ⟨Nat.le_trans h1.1 a, Nat.le_trans h1.2 b⟩

theorem cutoff_after_step (s : CutSt) (n : Nat) :
    n + n / 2 + 1 ≤ (cutApply s (.step n)).cutoff ∧ n < (cutApply s (.step n)).cutoff := by
  simp only [cutApply]
  have := Nat.le_max_right s.cutoff (n + n / 2 + 1)
  exact ⟨this, by omega⟩

/-- the recipe of seed C04-8 on the model: grow, ask for less, keep stepping — `M` stays -/
example : (cutTrace ⟨2, 0⟩ [.step 6, .increase 1, .increase 2, .step 7]).map (·.cutoff) = [10, 10, 10, 11] := by
  decide

/-! ### 6. `timestep` -/

/-- `timestep` is: diagonal update; loop update iff `do_loop_updates`; cluster update iff the
gate; free-spin refresh — in this order, threading configuration and RNG. -/
theorem timestep_order (K : Kernels) (q : GQmc) (beta : Rat) (cfg : Config) (rs : RS) :
    timestep K q beta cfg rs =
      let a := K.diag q beta cfg rs
      let b := if q.doLoop then loopUpdate (genericW q) a.1 a.2 else a
      let c := if shouldDoClusterUpdate q then K.cluster b.1 b.2 else b
      flipFreeBits c.1 c.2 := by
  unfold timestep shouldDoLoopUpdate
  rfl

/-- Hence every configuration invariant kept by the four sub-updates is kept by `timestep`,
whatever the flags. -/
theorem timestep_invariant (P : Config → Prop) (K : Kernels) (q : GQmc)
    (hd : ∀ beta cfg rs, P cfg → P (K.diag q beta cfg rs).1)
    (hl : ∀ cfg rs, P cfg → P (loopUpdate (genericW q) cfg rs).1)
    (hc : ∀ cfg rs, P cfg → P (K.cluster cfg rs).1)
    (hf : ∀ cfg rs, P cfg → P (flipFreeBits cfg rs).1)
    (beta : Rat) (cfg : Config) (rs : RS) (h : P cfg) : P (timestep K q beta cfg rs).1 :=
  timestep_preserves P K q hd hl hc hf beta cfg rs h

/-- The free-spin refresh leaves the operator string alone and changes the state only at
variables no operator acts on (which do not enter the SSE weight). -/
theorem free_refresh_spec (cfg : Config) (rs : RS) :
    (flipFreeBits cfg rs).1.slots = cfg.slots ∧
    (flipFreeBits cfg rs).1.state.length = cfg.state.length ∧
    ∀ u, varHasOps cfg.slots u = true → (flipFreeBits cfg rs).1.state[u]? = cfg.state[u]? := by
  have := flipFreeBitsFrom_spec cfg.slots cfg.state.length 0 cfg.state rs
  exact ⟨rfl, this.1, this.2⟩

/-- The free-spin refresh keeps the configuration `Consistent` (periodic world lines): a
variable no operator acts on is carried through `propagate` untouched, whatever value it gets. -/
theorem free_refresh_consistent (cfg : Config) (rs : RS) (h : Consistent cfg) :
    Consistent (flipFreeBits cfg rs).1 :=
  flipFreeBits_consistent cfg rs h


/-! ### 7. known finding F20: with the gate off no off-diagonal single-site operator can appear -/

/-- A loop visit of a diagonal single-variable operator toggles entrance and exit — both legs or
none — so it stays diagonal; hence the loop update keeps "every stored single-variable operator
is diagonal" (and `Op.WF`), for every weight function, configuration and script. -/
theorem loop_keeps_single_site_diagonal (w : Nat → List Bool → List Bool → Rat) (cfg : Config)
    (rs : RS) (h : LoopC.DiagInv cfg) : LoopC.DiagInv (loopUpdate w cfg rs).1 :=
  LoopC.loopUpdate_diagInv w cfg rs h

/-- The diagonal sweep of C08 (either slot function, any RNG script) keeps it too: an
off-diagonal op is never created (`C08.no_offdiag_created`) and an existing one is never altered
(`C08.offdiag_never_altered`). -/
theorem diagonal_sweep_keeps_single_site_diagonal (f : Option Op → List Bool → Nat → RS → SlotRes)
    (hf : SlotOK f) (c : Config) (rs : RS) (h : LoopC.SingleSiteDiag c.slots) :
    LoopC.SingleSiteDiag (sweep f c.slots.length c rs).1.slots := by
  intro o' ho' hlen
  obtain ⟨p, hp⟩ := List.mem_iff_getElem?.mp ho'
  by_cases hall : ∀ op, c.slots[p]? = some (some op) → op.tagDiag = true
  · exact C08.no_offdiag_created f hf c rs p hall o' hp
  · obtain ⟨op, hop⟩ := Classical.not_forall.mp hall
    obtain ⟨hop, htag⟩ := Classical.not_imp.mp hop
    have htag' : op.tagDiag = false := by simpa using htag
    have := C08.offdiag_never_altered f hf c.slots.length c rs p op hop htag'
    rw [hp] at this
    injection this with this; injection this with this; subst this
    exact h o' (List.mem_of_getElem? hop) hlen

/-- **F20 (negative result, proved on the model).** For a sampler whose cluster gate is off
(`should_do_cluster_update() = false`, e.g. because one term breaks the Ising symmetry), after
ANY number of `timestep`s — diagonal update; loop update iff enabled; free-spin refresh — every
stored single-variable operator is diagonal (`tagDiag`, and `outs = ins`): no σˣ operator is
ever sampled although the Hamiltonian contains the constant single-site terms `[g,g,g,g]`, so
the chain samples the classical distribution of the diagonal part. The diagonal update is the
parameter `K.diag` of the `timestep` model; the hypothesis on it is what
`diagonal_sweep_keeps_single_site_diagonal` proves for the C08 sweeps (plus well-formedness of
the ops it inserts). -/
theorem gate_off_single_site_stays_diagonal (K : Kernels) (q : GQmc)
    (hgate : shouldDoClusterUpdate q = false)
    (hdiag : ∀ β cfg rs, LoopC.DiagInv cfg → LoopC.DiagInv (K.diag q β cfg rs).1)
    (βs : List Rat) (cfg : Config) (rs : RS) (h : LoopC.DiagInv cfg) :
    ∀ o, some o ∈ (LoopC.timesteps K q βs cfg rs).1.slots → o.vars.length = 1 →
      o.tagDiag = true ∧ o.outs = o.ins := by
  intro o ho hlen
  obtain ⟨hwf, hd⟩ := LoopC.timesteps_single K q hgate hdiag βs cfg rs h
  exact ⟨hd o ho hlen, (hwf o ho).2.2.2 (hd o ho hlen)⟩

/-! ### non-vacuity -/

/-- an antiferromagnetic Heisenberg bond after the offset: weight 1/2 on |01⟩⟨01|, |10⟩⟨10| and
on the two exchange elements -/
def heis (i o : List Bool) : Rat :=
  if (i = [true, false] ∨ i = [false, true]) ∧ (o = [true, false] ∨ o = [false, true]) then 1 / 2
  else 0

/-- entering the diagonal vertex |10⟩→|10⟩ at input leg 0, the exits are: bounce 1/2, input leg 1
(exchange) 1/2, the two output legs 0 — a non-trivial instance of the balance equation. -/
example : exitWeights heis ([true, false], [true, false]) ⟨0, false⟩ 2 = [1 / 2, 1 / 2, 0, 0] := by
  simp [exitWeights, legsOf, exitWeight, flipIO, heis, List.range, List.range.loop, List.modify]

example : pickIdx (0 : Rat) [0, 1 / 4, 1 / 2] = some 1 := by
  norm_num [pickIdx]

example : pickIdx (1 / 2 : Rat) [0, 1 / 4, 1 / 2] = some 2 := by
  norm_num [pickIdx]

/-- a concrete legal, well-formed one-op configuration (hypotheses of `loopUpdate_pres_partial`) -/
def demoOp : Op := Op.diagonal [0, 1] 0 [true, false] false

example : WFSlots [none, some demoOp] ∧ LegalSlots (fun _ => heis) [none, some demoOp] := by
  constructor
  · intro o ho
    simp at ho; subst ho
    simp [demoOp, Op.diagonal, Op.WF]
  · intro o ho
    simp at ho; subst ho
    simp [demoOp, Op.diagonal, heis]

/-- …which is `Consistent` with a state that has an idle third variable (hypothesis of
`free_refresh_consistent`; variable 2 has no operator) -/
example : Consistent ⟨[true, false, true], [none, some demoOp]⟩ ∧
    varHasOps [none, some demoOp] 2 = false := by decide

/-- a reachable sampler for which the gate is open: one constant single-site term -/
def constSite : Interaction :=
  { itype := .full true, mat := [1, 1, 1, 1], n := 1, vars := [0], constDiag := true }

example : ∃ q, Reach q ∧ shouldDoClusterUpdate q = true := by
  refine ⟨{ GQmc.init true with bonds := [constSite], hasClusterEdges := true }, ?_, rfl⟩
  exact Reach.add (i := constSite) (Reach.init true) (by rfl)

/-- a draw is never mapped to a zero-weight exit; with all weights zero there is no exit at all -/
example : pickIdx (0 : Rat) [0, 0] = none := by norm_num [pickIdx]

/-- `loopUpdate_pres` is not vacuous: two constant single-site ops on one world line, all
matrix elements 1, script `[0,0,0,0]` (start slot 0 = op 0, relative variable 0; output side; both
exit draws 0 = leave through the input leg). The walk enters op 0 from above, leaves through its
input leg, crosses the time boundary p = 0 (`state[0]` is rewritten), enters op 1 from above,
leaves through its input leg and arrives at the start leg: closed after two visits, the whole
world line flipped, all four words consumed. -/
def wlOp (b : Bool) : Op := Op.diagonal [0] 0 [b] true
def wlCfg : Config := ⟨[false], [some (wlOp false), some (wlOp false)]⟩
def wlW : Nat → List Bool → List Bool → Rat := fun _ _ _ => 1

example : WFSlots wlCfg.slots ∧ LegalSlots wlW wlCfg.slots ∧ Consistent wlCfg := by
  refine ⟨?_, ?_, by decide⟩
  · intro o ho
    simp [wlCfg] at ho; subst ho
    simp [wlOp, Op.diagonal, Op.WF]
  · intro o ho
    simp [wlW]

/-- the remaining hypotheses of `loopUpdate_no_panic` hold for it as well -/
example : (∀ b i o, 0 ≤ wlW b i o) ∧ (∀ o, some o ∈ wlCfg.slots → o.vars ≠ []) := by
  refine ⟨fun _ _ _ => by simp [wlW], ?_⟩
  intro o ho
  simp [wlCfg] at ho; subst ho
  simp [wlOp, Op.diagonal]

example : (loopUpdate wlW wlCfg (RS.ofScript [0, 0, 0, 0])).1
      = ⟨[true], [some (wlOp true), some (wlOp true)]⟩ ∧
    LoopClosed (loopUpdate wlW wlCfg (RS.ofScript [0, 0, 0, 0])).2 ∧
    (loopUpdate wlW wlCfg (RS.ofScript [0, 0, 0, 0])).2.draws = 4 ∧
    Consistent (loopUpdate wlW wlCfg (RS.ofScript [0, 0, 0, 0])).1 := by
  decide +kernel


/-- the trace of the closed two-visit run above: two visits, entered through the output legs,
left through the input legs; forward path probability `1/4 · (1/2)²` -/
example : (LoopC.loopUpdateTrace wlW wlCfg (RS.ofScript [0, 0, 0, 0])).map
      (fun v => (v.pos, v.ent, v.ex)) = [(0, ⟨0, true⟩, ⟨0, false⟩), (1, ⟨0, true⟩, ⟨0, false⟩)] ∧
    startLegProb wlCfg.slots *
      LoopC.pathProb wlW (LoopC.loopUpdateTrace wlW wlCfg (RS.ofScript [0, 0, 0, 0])) = 1 / 16 := by
  decide +kernel


/-- the truncated kernel on the two-op world line: the whole-line flip has probability
`4 · 1/4 · (1/2)² = 1/4` (four start legs, two pass-through exits) within two visits, and none
within one visit -/
example : LoopC.loopKn wlW 2 wlCfg ⟨[true], [some (wlOp true), some (wlOp true)]⟩ = 1 / 4 ∧
    LoopC.loopKn wlW 1 wlCfg ⟨[true], [some (wlOp true), some (wlOp true)]⟩ = 0 := by
  decide +kernel

/-- a walk that has not closed when the script ends is flagged, and in general not periodic:
after the first visit of the run above (script one word shorter than needed for the second
visit) the state was rewritten at the boundary but op 1 not yet -/
example : ¬ LoopClosed (loopUpdate wlW wlCfg (RS.ofScript [0, 0, 0])).2 ∧
    ¬ Consistent (loopUpdate wlW wlCfg (RS.ofScript [0, 0, 0])).1 := by
  decide +kernel

/-- F20 witness: the one-spin sampler `make_interaction([1,1,1,1],[0])` +
`make_diagonal_interaction([0,2],[0])` (Γ = 1, field h = 1) is accepted, has the loop update on
and the cluster gate OFF — the hypothesis of `gate_off_single_site_stays_diagonal`. -/
def f20Calls : List Call := [⟨.new, [1, 1, 1, 1], [0]⟩, ⟨.diag, [0, 2], [0]⟩]

def f20GateOff : Bool :=
  match makeCalls (GQmc.init true) f20Calls with
  | .ok q => !shouldDoClusterUpdate q && shouldDoLoopUpdate q && q.bonds.length == 2
  | _ => false

example : f20GateOff = true := by decide +kernel

/-- …and a configuration satisfying `DiagInv` that contains single-site operators: `wlCfg` -/
example : LoopC.DiagInv wlCfg := by
  constructor
  · intro o ho
    simp [wlCfg] at ho; subst ho
    simp [wlOp, Op.diagonal, Op.WF]
  · intro o ho _
    simp [wlCfg] at ho; subst ho
    rfl

end Qmc.C04
