/-
C02 ◐ — Heat-bath diagonal update yields the same equilibrium as the default update.
Property theorems only. What Lean carries: the heat-bath slot move has exactly the insert/remove ratio
β·w/(L−n) for *every* Hamiltonian with non-negative weights when run with the table the code builds
(`makeBondWeights`, bonds of unequal maxima included) or any larger table, hence it is reversible for the
same SSE weight as the Metropolis move; and the table the samplers run with is never stale
(`none`, or the table of the current interaction list), for every sequence of public operations.
Not carried (named in design_notes/C02.md): ergodicity / convergence of the Markov chain, and the SSE
representation theorem (that the weight marginalises to the thermal state).
Model: QmcModel/HeatBath.lean (tied to heatbath.rs, qmc_ising.rs, qmc_runner.rs by `./check C02`).
-/
import QmcProofs.HeatBath

namespace Qmc.C02
open Qmc

/-- **Ratio with the table the code builds.** For every Hamiltonian with non-negative diagonal weights
(any number of bonds, maxima of different bonds unrelated), every bond `b`, every rolling state, β > 0 and
`n < L`: with `bw = make_bond_weights(H)` the heat-bath probabilities satisfy
P(insert b)/P(remove b) = β·w_b(state)/(L−n) — provided some bond can be inserted at all (`W > 0`). -/
theorem heatbath_ratio_real_table (H : Ham) (β : Rat) (L n b : Nat) (st : List Bool) (W : Rat)
    (_hW : bwTotal (makeBondWeights H) = some W) (hWpos : 0 < W) (hb : b < H.nbonds)
    (hnn : 0 ≤ H.w b (readVars st (H.vars b)) (readVars st (H.vars b))) (hβ : 0 < β) (hn : n < L) :
    pInsertHB β W ((makeBondWeights H).getD b 0) (H.w b (readVars st (H.vars b)) (readVars st (H.vars b))) L n /
        pRemoveHB β W L (n + 1) =
      β * H.w b (readVars st (H.vars b)) (readVars st (H.vars b)) / ((L : Rat) - (n : Rat)) := by
  have hmax : H.w b (readVars st (H.vars b)) (readVars st (H.vars b)) ≤ (makeBondWeights H).getD b 0 := by
    rw [makeBondWeights_getD H b hb]; exact maxDiag_ge H b _ (readVars_length st (H.vars b))
  exact heatbath_ratio_aux β W _ _ L n hβ hWpos hnn hmax hn

/-- **Any valid table.** The same for every table whose entry dominates the weight (e.g. an inflated
table); the table entries of other bonds do not matter beyond the total. -/
theorem heatbath_ratio_any_table (β W mw w : Rat) (L n : Nat) (hβ : 0 < β) (hW : 0 < W)
    (hw0 : 0 ≤ w) (hw : w ≤ mw) (hn : n < L) :
    pInsertHB β W mw w L n / pRemoveHB β W L (n + 1) = β * w / ((L : Rat) - (n : Rat)) :=
  heatbath_ratio_aux β W mw w L n hβ hW hw0 hw hn

/-- **Same target as the Metropolis update**: both variants have the same insert/remove ratio at every
slot, whatever the table. -/
theorem heatbath_ratio_eq_metropolis (β W mw w : Rat) (Nb L n : Nat) (hβ : 0 < β) (hW : 0 < W)
    (hNb : 0 < Nb) (hw0 : 0 < w) (hw : w ≤ mw) (hn : n < L) :
    pInsertHB β W mw w L n / pRemoveHB β W L (n + 1) = pInsertM β Nb w L n / pRemoveM β Nb w L (n + 1) := by
  rw [heatbath_ratio_aux β W mw w L n hβ hW (le_of_lt hw0) hw hn,
    metropolis_ratio_aux β Nb w L n hβ hNb hw0 hn]

/-- **Reversibility for the SSE weight**: `π(c)·P_HB(c → c+op) = π(c+op)·P_HB(c+op → c)` with
`π = β^n (L−n)!/L! Π w`, for every string, slot, operator with `0 ≤ w ≤ mw` and table total `W > 0`. -/
theorem heatbath_detailed_balance (H : Ham) (β W mw : Rat) (st : List Bool) (pre post : Slots) (o : Op)
    (hβ : 0 < β) (hW : 0 < W) (hw0 : 0 ≤ H.w o.bond o.ins o.outs) (hw : H.w o.bond o.ins o.outs ≤ mw)
    (hn : countOps (pre ++ none :: post) < (pre ++ none :: post).length) :
    configWeight H β { state := st, slots := pre ++ none :: post } *
        pInsertHB β W mw (H.w o.bond o.ins o.outs) (pre ++ none :: post).length (countOps (pre ++ none :: post)) =
      configWeight H β { state := st, slots := pre ++ some o :: post } *
        pRemoveHB β W (pre ++ none :: post).length (countOps (pre ++ none :: post) + 1) := by
  rw [weight_step_aux H β st pre post o hn]
  have hr := heatbath_ratio_aux β W mw _ _ _ hβ hW hw0 hw hn
  have hrem : 0 < pRemoveHB β W (pre ++ none :: post).length (countOps (pre ++ none :: post) + 1) := by
    rw [pRemoveHB_succ β W _ _ hn]
    have : ((countOps (pre ++ none :: post) : Nat) : Rat) < (((pre ++ none :: post).length : Nat) : Rat) := by
      exact_mod_cast hn
    have hbw : 0 < β * W := mul_pos hβ hW
    apply div_pos <;> linarith
  rw [div_eq_iff (ne_of_gt hrem)] at hr
  rw [hr]; ring

/-- the real table satisfies the hypotheses of the two theorems above at every bond and state -/
theorem real_table_valid (H : Ham) (b : Nat) (hb : b < H.nbonds) (st : List Bool) :
    H.w b (readVars st (H.vars b)) (readVars st (H.vars b)) ≤ (makeBondWeights H).getD b 0 ∧
    (∀ w ∈ makeBondWeights H, 0 ≤ w) ∧ (makeBondWeights H).length = H.nbonds :=
  ⟨by rw [makeBondWeights_getD H b hb]; exact maxDiag_ge H b _ (readVars_length st (H.vars b)),
   makeBondWeights_nonneg H, makeBondWeights_length H⟩

/-- if some bond has positive weight somewhere, the table total is positive (so the ratio theorem applies) -/
theorem real_table_total_pos (H : Ham) (b : Nat) (hb : b < H.nbonds) (s : List Bool)
    (hs : s.length = (H.vars b).length) (hpos : 0 < H.w b s s) :
    ∃ W, bwTotal (makeBondWeights H) = some W ∧ 0 < W := by
  have hne : (makeBondWeights H).isEmpty = false := by
    have hl := makeBondWeights_length H
    cases hm : makeBondWeights H with
    | nil => rw [hm] at hl; simp at hl; omega
    | cons x t => rfl
  refine ⟨(makeBondWeights H).sum, by unfold bwTotal; rw [hne]; simp, ?_⟩
  have h1 := le_sum_of_mem (makeBondWeights H) (makeBondWeights_nonneg H) b
  rw [makeBondWeights_getD H b hb] at h1
  have h2 := maxDiag_ge H b s hs
  linarith

/-! ### table validity -/

/-- **Generic sampler**: after any sequence of `add_interaction` / `set_do_heatbath` / `diagonal_update`
starting from a fresh `Qmc`, the stored table is absent or is the table of the *current* interaction list. -/
theorem table_valid_generic {ι : Type} (mk : List ι → BW) (ops : List (GenOp ι)) :
    ((GenS.init ι).run mk ops).table = none ∨
    ((GenS.init ι).run mk ops).table = some (mk ((GenS.init ι).run mk ops).bonds) :=
  GenS.run_valid mk ops (GenS.init ι) (Or.inl rfl)

/-- … the invariant is inductive (holds from any valid state, e.g. a deserialised or cloned sampler) … -/
theorem table_valid_generic_step {ι : Type} (mk : List ι → BW) (s : GenS ι) (op : GenOp ι)
    (h : s.table = none ∨ s.table = some (mk s.bonds)) :
    (s.step mk op).table = none ∨ (s.step mk op).table = some (mk (s.step mk op).bonds) :=
  GenS.step_valid mk s op h

/-- … so a heat-bath `diagonal_update` always sweeps with the table of the current interactions. -/
theorem table_used_generic {ι : Type} (mk : List ι → BW) (ops : List (GenOp ι))
    (hhb : ((GenS.init ι).run mk ops).doHeatbath = true) :
    ((GenS.init ι).run mk ops).tableUsed mk = some (mk ((GenS.init ι).run mk ops).bonds) := by
  have h := table_valid_generic mk ops
  unfold GenS.tableUsed
  rw [if_pos hhb]
  rcases h with h | h <;> rw [h]

/-- **Ising sampler**: after any sequence of `set_enable_heatbath` / diagonal steps the table is absent or
the table of the (immutable) Hamiltonian, and the Hamiltonian parameters are unchanged. -/
theorem table_valid_ising {η : Type} (mk : η → BW) (ham : η) (ops : List IsingOp) :
    let s := (IsingS.run mk { ham := ham, table := none } ops)
    (s.table = none ∨ s.table = some (mk ham)) ∧ s.ham = ham := by
  intro s
  have h := IsingS.run_valid mk ops { ham := ham, table := none } (Or.inl rfl)
  have h2 : s.ham = ham := h.2
  have h1 := h.1
  rw [h.2] at h1
  exact ⟨h1, h2⟩

/-! ### swaps between samplers (tempering) -/

/-- **One swap.** `swap_manager_and_state` exchanges the operator strings/states and nothing else: each
sampler keeps its Hamiltonian and its own table, so tables that were valid stay valid — for their *own*
Hamiltonians, however different the two are. -/
theorem table_valid_after_swap {η μ : Type} (mk : η → BW) (p : HBPair (IsingS η) μ)
    (ha : p.a.table = none ∨ p.a.table = some (mk p.a.ham))
    (hb : p.b.table = none ∨ p.b.table = some (mk p.b.ham)) :
    let q := p.swapSamplers
    (q.a.table = none ∨ q.a.table = some (mk q.a.ham)) ∧
    (q.b.table = none ∨ q.b.table = some (mk q.b.ham)) ∧
    q.a.ham = p.a.ham ∧ q.b.ham = p.b.ham ∧ q.a.table = p.a.table ∧ q.b.table = p.b.table ∧
    q.ma = p.mb ∧ q.mb = p.ma :=
  ⟨ha, hb, rfl, rfl, rfl, rfl, rfl, rfl⟩

/-- **Ising samplers in a tempering ladder**: after any interleaving of `set_enable_heatbath` / steps on
either sampler with swaps (either call direction, or through `tempering_step`, accepted or not) each table
is absent or the table of that sampler's own, unchanged Hamiltonian. -/
theorem table_valid_ising_pair {η μ : Type} (mk : η → BW) (ha hb : η) (ma mb : μ) (ops : List (HBPairOp IsingOp)) :
    let p := (HBPair.run (IsingS.step mk) { a := { ham := ha, table := none }, ma := ma,
                                              b := { ham := hb, table := none }, mb := mb } ops)
    (p.a.table = none ∨ p.a.table = some (mk ha)) ∧ (p.b.table = none ∨ p.b.table = some (mk hb)) := by
  intro p
  have h := HBPair.run_inv (μ := μ) (IsingS.step mk)
    (fun s => (s.table = none ∨ s.table = some (mk s.ham)))
    (fun s x hs => IsingS.step_valid mk s x hs) ops
    { a := { ham := ha, table := none }, ma := ma, b := { ham := hb, table := none }, mb := mb }
    (Or.inl rfl) (Or.inl rfl)
  -- the Hamiltonians never move: track them separately for each side
  have hamA : ∀ (ops : List (HBPairOp IsingOp)) (q : HBPair (IsingS η) μ),
      (HBPair.run (IsingS.step mk) q ops).a.ham = q.a.ham ∧ (HBPair.run (IsingS.step mk) q ops).b.ham = q.b.ham := by
    intro ops
    induction ops with
    | nil => intro q; exact ⟨rfl, rfl⟩
    | cons op t ih =>
      intro q
      unfold HBPair.run
      simp only [List.foldl_cons]
      have := ih (q.step (IsingS.step mk) op)
      unfold HBPair.run at this
      rw [this.1, this.2]
      cases op with
      | left x => exact ⟨IsingS.step_ham mk q.a x, rfl⟩
      | right x => exact ⟨rfl, IsingS.step_ham mk q.b x⟩
      | swap => exact ⟨rfl, rfl⟩
      | noswap => exact ⟨rfl, rfl⟩
  have hm := hamA ops { a := { ham := ha, table := none }, ma := ma, b := { ham := hb, table := none }, mb := mb }
  have h1 := h.1
  have h2 := h.2
  rw [hm.1] at h1
  rw [hm.2] at h2
  exact ⟨h1, h2⟩

/-- **Generic samplers**: the same with `add_interaction` / `set_do_heatbath` / `diagonal_update` on either
side; each stored table is absent or the table of that sampler's current interaction list. -/
theorem table_valid_generic_pair {ι μ : Type} (mk : List ι → BW) (ma mb : μ) (ops : List (HBPairOp (GenOp ι))) :
    let p := (HBPair.run (GenS.step mk) { a := GenS.init ι, ma := ma, b := GenS.init ι, mb := mb } ops)
    (p.a.table = none ∨ p.a.table = some (mk p.a.bonds)) ∧ (p.b.table = none ∨ p.b.table = some (mk p.b.bonds)) :=
  HBPair.run_inv (μ := μ) (GenS.step mk) (fun s => (s.table = none ∨ s.table = some (mk s.bonds)))
    (fun s x hs => GenS.step_valid mk s x hs) ops
    { a := GenS.init ι, ma := ma, b := GenS.init ι, mb := mb } (Or.inl rfl) (Or.inl rfl)

/-- non-vacuity: two different Hamiltonians, heat-bath on both, swap: the tables stay put, the payloads move -/
example (mk : Nat → BW) :
    let p := HBPair.run (IsingS.step mk) ({ a := { ham := 1, table := none }, ma := "x",
                                              b := { ham := 2, table := none }, mb := "y" } : HBPair (IsingS Nat) String)
      [.left (.setEnableHeatbath true), .right (.setEnableHeatbath true), .swap, .left .diagonalStep]
    p.a.table = some (mk 1) ∧ p.b.table = some (mk 2) ∧ p.ma = "y" ∧ p.mb = "x" := by
  refine ⟨rfl, rfl, rfl, rfl⟩

/-- the invariant is not vacuous and not trivially `none`: add, enable, update leaves the real table; a
later `add_interaction` drops it, the next update rebuilds it for the longer list. -/
example (mk : List Nat → BW) :
    ((GenS.init Nat).run mk [.addInteraction 7, .setDoHeatbath true, .diagonalUpdate]).table = some (mk [7]) ∧
    ((GenS.init Nat).run mk [.addInteraction 7, .setDoHeatbath true, .diagonalUpdate, .addInteraction 9]).table = none ∧
    ((GenS.init Nat).run mk [.addInteraction 7, .setDoHeatbath true, .diagonalUpdate, .addInteraction 9,
      .diagonalUpdate]).table = some (mk [7, 9]) := by
  refine ⟨rfl, rfl, rfl⟩

/-- unequal maxima: the table of a two-bond Hamiltonian with diagonal weights (2, 1/2) and (1/4, 1) -/
example : makeBondWeights (tableHam [{ vars := [0], const := false, mat := [2, 0, 0, 1/2] },
    { vars := [1], const := false, mat := [1/4, 0, 0, 1] }]) = [2, 1] := by
  simp [makeBondWeights, maxDiag, allSub, tableHam, TBond.w, bitIndex, List.range, List.range.loop]
  norm_num

end Qmc.C02
