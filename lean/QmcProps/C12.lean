/-
C12 — Expansion cutoff never shrinks and keeps headroom.
Property theorems only (helper lemmas: QmcProofs/Cutoff.lean; model: QmcModel/Cutoff.lean, tied to
/repo/src/sse/{qmc_ising.rs,qmc_runner.rs,fast_ops.rs,parallel_tempering/tempering_container.rs}
by `./check C12`).

Proved here: for every initial cutoff, every operator count, every sequence of time steps with
arbitrary slot decisions — the sampler cutoff is non-decreasing, never below the operator count,
after every step exceeds it by at least one free slot and by the margin `n/2 + 1`; the container
is as long as the cutoff the sweep used; tempering equalisation only raises cutoffs and makes
containers exchangeable.  NOT proved (physics, not logic about this code): that a cutoff with this
headroom removes the truncation bias, i.e. the clause "hence reaches the same averages".
-/
import QmcProofs.CutoffUser

namespace Qmc.C12
open Qmc Qmc.CSampler

/-! ### the growth rule -/

/-- the rule never lowers the cutoff -/
theorem cutoff_mono (c n : Nat) : c ≤ nextCutoff c n := nextCutoff_ge_left c n

/-- the new cutoff is at least the operator count -/
theorem cutoff_ge_n (c n : Nat) : n ≤ nextCutoff c n := Nat.le_of_lt (nextCutoff_gt_n c n)

/-- headroom, for **every** `c` and `n`: at least one free slot, and a margin proportional to the
count (in fact `n + n/2 + 1 ≤`). -/
theorem headroom (c n : Nat) : n < nextCutoff c n ∧ n + n / 2 ≤ nextCutoff c n :=
  ⟨nextCutoff_gt_n c n, Nat.le_of_succ_le (nextCutoff_margin c n)⟩

theorem headroom_strict (c n : Nat) : n + n / 2 + 1 ≤ nextCutoff c n := nextCutoff_margin c n

/-- the cutoff grows exactly when it is not yet above `1.5 n` -/
theorem cutoff_grows_iff (c n : Nat) : c < nextCutoff c n ↔ c ≤ n + n / 2 := by
  unfold nextCutoff; omega

/-- closed form of the rule -/
theorem rule_closed_form (c n : Nat) :
    nextCutoff c n = if c ≤ n + n / 2 then n + n / 2 + 1 else c := nextCutoff_eq c n

/-! ### the rule before the fix (known finding F1) fails the property -/

/-- witness: `max(cutoff, n + n/2)` leaves no free slot at `c = n = 1` -/
theorem old_rule_no_headroom : ¬ (1 < nextCutoffOld 1 1) := by decide

/-- and it stalls: a sampler with cutoff 1 keeps cutoff 1 and holds at most one operator for
ever, whatever the sweeps decide (the series expansion is silently truncated at order 1). -/
theorem old_rule_stalls (ds : List (Nat → Bool → Bool)) (s : CSampler)
    (hc : s.cutoff = 1) (hl : s.len ≤ 1) :
    (runWith nextCutoffOld ds s).cutoff = 1 ∧ (runWith nextCutoffOld ds s).n ≤ 1 ∧
      (runWith nextCutoffOld ds s).len ≤ 1 := by
  induction ds generalizing s with
  | nil => exact ⟨hc, Nat.le_trans (n_le_len s) hl, hl⟩
  | cons d t ih =>
    have hinv : s.Inv := by unfold CSampler.Inv; omega
    have hlen := diagStepWith_len_of_inv nextCutoffOld d s hinv
    have hn := diagStepWith_n_le nextCutoffOld d s hinv
    have hcut := diagStepWith_cutoff nextCutoffOld d s
    apply ih
    · rw [hcut, hc]; rw [hc] at hn
      generalize (diagStepWith nextCutoffOld d s).n = m at hn ⊢
      unfold nextCutoffOld; omega
    · rw [hlen, hc]; exact Nat.le_refl _

/-- the fixed rule does not stall: three sweeps that fill every slot take a sampler started with
cutoff 1 to cutoff 7 (1 → 2 → 4 → 7). -/
example : (run [fun _ _ => true, fun _ _ => true, fun _ _ => true] (newIsing 1)).cutoff = 7 := by
  decide

/-! ### one time step -/

/-- Everything the property says about one step, for a sampler whose operators sit below its
cutoff (`Inv`; true of every sampler the library constructs, see `newIsing_inv`,
`newGeneric_inv`, and preserved by every step): cutoff does not shrink; the new count fits in the
*old* cutoff (so `cutoff - n` never underflows during the next sweep); after the step at least
one slot is free and the margin is `n/2 + 1`; the container is exactly as long as the cutoff the
sweep used (it catches up with the new cutoff at the next sweep); `Inv` again. -/
theorem step_invariant (d : Nat → Bool → Bool) (s : CSampler) (h : s.Inv) :
    let s' := timestep d s
    s.cutoff ≤ s'.cutoff ∧ s'.n ≤ s.cutoff ∧ s'.n < s'.cutoff ∧ s'.n + s'.n / 2 + 1 ≤ s'.cutoff ∧
      s'.len = s.cutoff ∧ s'.n ≤ s'.len ∧ s'.Inv := by
  intro s'
  have hcut : s'.cutoff = nextCutoff s.cutoff s'.n := diagStepWith_cutoff nextCutoff d s
  refine ⟨?_, diagStepWith_n_le nextCutoff d s h, ?_, ?_, diagStepWith_len_of_inv nextCutoff d s h,
    n_le_len s', diagStepWith_inv nextCutoff nextCutoff_ge_left d s h⟩
  · rw [hcut]; exact nextCutoff_ge_left _ _
  · rw [hcut]; exact nextCutoff_gt_n _ _
  · rw [hcut]; exact nextCutoff_margin _ _

/-- a sweep rewrites only slots below the cutoff and pads the container to the cutoff — and every
such result is reachable (the decider used by the correspondence is exact) -/
theorem sweep_shape_iff (c : Nat) (before after : List Bool) :
    isSweepResult c before after = true ↔ ∃ d, sweepOcc d c before = after :=
  ⟨isSweepResult_complete c before after, fun ⟨d, hd⟩ => hd ▸ isSweepResult_sound d c before⟩

/-- without `Inv` (a user lowered the cutoff by hand below the container length) the container
length is still monotone and at least the cutoff used -/
theorem container_never_shrinks (d : Nat → Bool → Bool) (s : CSampler) :
    s.len ≤ (timestep d s).len ∧ s.cutoff ≤ (timestep d s).len := by
  have h : (timestep d s).len = growLen s.len s.cutoff := diagStepWith_len nextCutoff d s
  rw [h]; exact ⟨growLen_ge_left _ _, growLen_ge_right _ _⟩

/-! ### whole runs -/

/-- After **every** step of **any** run: `Inv`, cutoff at least the starting one, one free slot,
margin. -/
theorem run_invariant (ds : List (Nat → Bool → Bool)) (s : CSampler) (h : s.Inv) :
    ∀ t ∈ trace ds s, t.Inv ∧ s.cutoff ≤ t.cutoff ∧ t.n < t.cutoff ∧ t.n + t.n / 2 + 1 ≤ t.cutoff := by
  induction ds generalizing s with
  | nil => intro t ht; cases ht
  | cons d ds ih =>
    intro t ht
    have hs := step_invariant d s h
    simp only [trace, List.mem_cons] at ht
    cases ht with
    | inl he => subst he; exact ⟨hs.2.2.2.2.2.2, hs.1, hs.2.2.1, hs.2.2.2.1⟩
    | inr hm =>
      have := ih (timestep d s) hs.2.2.2.2.2.2 t hm
      exact ⟨this.1, Nat.le_trans hs.1 this.2.1, this.2.2⟩

/-- the sequence of reported cutoffs (initial one included) is non-decreasing -/
theorem run_cutoffs_monotone (ds : List (Nat → Bool → Bool)) (s : CSampler) (h : s.Inv) :
    (s.cutoff :: (trace ds s).map (·.cutoff)).Pairwise (· ≤ ·) := by
  induction ds generalizing s with
  | nil => simp [trace]
  | cons d ds ih =>
    have hs := step_invariant d s h
    have ih' := ih (timestep d s) hs.2.2.2.2.2.2
    simp only [trace, List.map_cons]
    refine List.Pairwise.cons ?_ ih'
    intro c hc
    simp only [List.mem_cons, List.mem_map] at hc
    cases hc with
    | inl he => rw [he]; exact hs.1
    | inr hm =>
      obtain ⟨t, ht, rfl⟩ := hm
      exact Nat.le_trans hs.1 (run_invariant ds (timestep d s) hs.2.2.2.2.2.2 t ht).2.1

/-- "whatever initial cutoff the user supplied": the Ising sampler constructed with any cutoff
(0, 1, 2, … far below β|E|) and the generic sampler on any number of variables (1 included)
start in `Inv`, so `run_invariant` / `run_cutoffs_monotone` apply to them. -/
theorem library_samplers_start_valid (c nvars : Nat) : (newIsing c).Inv ∧ (newGeneric nvars).Inv :=
  ⟨newIsing_inv c, newGeneric_inv nvars⟩

theorem run_invariant_ising (c : Nat) (ds : List (Nat → Bool → Bool)) :
    ∀ t ∈ trace ds (newIsing c), c ≤ t.cutoff ∧ t.n < t.cutoff ∧ t.n + t.n / 2 + 1 ≤ t.cutoff :=
  fun t ht => (run_invariant ds (newIsing c) (newIsing_inv c) t ht).2

theorem run_invariant_generic (nvars : Nat) (ds : List (Nat → Bool → Bool)) :
    ∀ t ∈ trace ds (newGeneric nvars),
      nvars ≤ t.cutoff ∧ t.n < t.cutoff ∧ t.n + t.n / 2 + 1 ≤ t.cutoff :=
  fun t ht => (run_invariant ds (newGeneric nvars) (newGeneric_inv nvars) t ht).2

/-! ### tempering equalisation -/

/-- equalisation only raises cutoffs, leaves every replica's operators alone, makes all cutoffs
equal to the maximum (which is one of the old cutoffs), and — for replicas in `Inv` — makes every
container exactly that long, so that any exchange of containers keeps `Inv`. -/
theorem equalise_spec (rs : List CSampler) (i : Nat) (hi : i < rs.length) :
    let m := maxCutoff (rs.map (·.cutoff))
    ∃ h : i < (equalise rs).length,
      (equalise rs)[i].cutoff = m ∧ rs[i].cutoff ≤ m ∧ (equalise rs)[i].n = rs[i].n ∧
      rs[i].len ≤ (equalise rs)[i].len ∧ (rs[i].Inv → (equalise rs)[i].len = m) := by
  intro m
  have hlen : i < (equalise rs).length := by simp [equalise, hi]
  have hle : rs[i].cutoff ≤ m :=
    le_maxCutoff _ _ (List.mem_map.mpr ⟨rs[i], List.getElem_mem hi, rfl⟩)
  refine ⟨hlen, ?_⟩
  have hget : (equalise rs)[i] = setCutoff m rs[i] := by simp [equalise, m]
  rw [hget]
  refine ⟨rfl, hle, setCutoff_n _ _, ?_, ?_⟩
  · rw [setCutoff_len]; exact growLen_ge_left _ _
  · intro hinv
    rw [setCutoff_len, growLen_eq_max]; unfold CSampler.Inv at hinv; omega

/-- the common cutoff is not invented: it is 0 (no replicas) or one of the replicas' cutoffs -/
theorem equalise_max_attained (rs : List CSampler) :
    maxCutoff (rs.map (·.cutoff)) = 0 ∨ maxCutoff (rs.map (·.cutoff)) ∈ rs.map (·.cutoff) :=
  foldl_natMax_mem _ 0

/-- after equalisation, giving replica `i` the container of replica `j` (a replica swap) yields a
sampler in `Inv` -/
theorem equalise_swap_safe (rs : List CSampler) (hinv : ∀ r ∈ rs, r.Inv) (i j : Nat)
    (hi : i < rs.length) (hj : j < rs.length) :
    ∃ (h1 : i < (equalise rs).length) (h2 : j < (equalise rs).length),
      CSampler.Inv { cutoff := (equalise rs)[i].cutoff, occ := (equalise rs)[j].occ } := by
  obtain ⟨h1, hc, _, _, _, _⟩ := equalise_spec rs i hi
  obtain ⟨h2, _, _, _, _, hl⟩ := equalise_spec rs j hj
  refine ⟨h1, h2, ?_⟩
  have := hl (hinv _ (List.getElem_mem hj))
  unfold CSampler.Inv CSampler.len at *
  simp only
  rw [hc]; omega

/-! ### raw `swap_manager_and_state`, `into_qmc`, mixed histories -/

/-- The public swap (after 074d32a): both sampler objects end with the larger cutoff (so neither
shrinks), each holds the other's operators, both containers are exactly that long, `Inv` holds
again, and a free slot on both sides before means a free slot on both sides after. -/
theorem swap_spec (a b : CSampler) (ha : a.Inv) (hb : b.Inv) :
    a.cutoff ≤ (swapSamplers a b).1.cutoff ∧ b.cutoff ≤ (swapSamplers a b).2.cutoff ∧
    (swapSamplers a b).1.cutoff = max a.cutoff b.cutoff ∧
    (swapSamplers a b).2.cutoff = max a.cutoff b.cutoff ∧
    (swapSamplers a b).1.n = b.n ∧ (swapSamplers a b).2.n = a.n ∧
    (swapSamplers a b).1.Inv ∧ (swapSamplers a b).2.Inv ∧
    (swapSamplers a b).1.n ≤ (swapSamplers a b).1.cutoff ∧
    (swapSamplers a b).2.n ≤ (swapSamplers a b).2.cutoff ∧
    (a.n < a.cutoff → b.n < b.cutoff →
      (swapSamplers a b).1.n < (swapSamplers a b).1.cutoff ∧
      (swapSamplers a b).2.n < (swapSamplers a b).2.cutoff) := by
  obtain ⟨c1, c2, n1, n2, _, _, i1, i2⟩ := swapSamplers_spec a b ha hb
  refine ⟨by rw [c1]; omega, by rw [c2]; omega, c1, c2, n1, n2, i1, i2, inv_n_le _ i1, inv_n_le _ i2, ?_⟩
  intro fa fb
  rw [c1, c2, n1, n2]; omega

/-- `into_qmc` hands the cutoff over exactly (never the constructor default `nvars`), keeps the
operators, pads the container, keeps `Inv`. -/
theorem convert_carries_cutoff (nvars : Nat) (s : CSampler) :
    (convertSampler nvars s).cutoff = s.cutoff ∧ (convertSampler nvars s).n = s.n ∧
    s.len ≤ (convertSampler nvars s).len ∧ (s.Inv → (convertSampler nvars s).Inv) := by
  obtain ⟨h1, h2, h3, h4⟩ := convertSampler_spec nvars s
  exact ⟨h1, h2, by rw [h3]; exact growLen_ge_left _ _, h4⟩

/-- `increase_cutoff_to(c)` never lowers the reported cutoff, whatever `c` is (below, equal, above):
the result is `max(cutoff, c)`; operators untouched, container padded to it, `Inv` (hence
`n ≤ cutoff`) kept; for `c ≤ cutoff` the sampler field does not move at all. -/
theorem increaseCutoffTo_monotone (c : Nat) (s : CSampler) :
    s.cutoff ≤ (increaseCutoffTo c s).cutoff ∧ c ≤ (increaseCutoffTo c s).cutoff ∧
    (increaseCutoffTo c s).cutoff = max s.cutoff c ∧
    (c ≤ s.cutoff → (increaseCutoffTo c s).cutoff = s.cutoff) ∧
    (increaseCutoffTo c s).n = s.n ∧ s.len ≤ (increaseCutoffTo c s).len ∧
    (s.Inv → (increaseCutoffTo c s).Inv ∧ (increaseCutoffTo c s).n ≤ (increaseCutoffTo c s).cutoff ∧
      (increaseCutoffTo c s).len = max s.cutoff c) := by
  obtain ⟨h1, h2, h3, h4⟩ := increaseCutoffTo_spec c s
  refine ⟨by rw [h1]; omega, by rw [h1]; omega, h1, fun h => by rw [h1]; omega, h2,
    by rw [h3]; exact growLen_ge_left _ _, fun hi => ⟨h4 hi, inv_n_le _ (h4 hi), ?_⟩⟩
  rw [h3, growLen_eq_max]; unfold CSampler.Inv at hi; omega

/-- a clone / a restored snapshot reports the cutoff of the original (it is NOT recomputed from the
current operator count: `nextCutoff 0 n` can be far below a cutoff reached earlier in the run),
holds the same operators in the same container, and is in `Inv` iff the original is. -/
theorem copy_identity (s : CSampler) :
    (CSampler.copy s).cutoff = s.cutoff ∧ (CSampler.copy s).n = s.n ∧ (CSampler.copy s).len = s.len ∧
    (s.Inv → (CSampler.copy s).Inv) :=
  ⟨rfl, rfl, rfl, fun h => h⟩

/-- why recomputing is wrong: a sampler whose count dropped below its all-time maximum -/
example : nextCutoff 0 2 < (run [fun _ _ => true, fun _ _ => true, fun p _ => p < 2] (newIsing 4)).cutoff := by
  decide

/-- one public call on a pair of samplers: `Inv` on both sides again, object A's cutoff does not
decrease, object B's does not decrease unless B was replaced by a freshly built sampler. -/
theorem pair_action_invariant (p : CSampler × CSampler) (act : PairAction)
    (ha : p.1.Inv) (hb : p.2.Inv) :
    (applyPair p act).1.Inv ∧ (applyPair p act).2.Inv ∧ p.1.cutoff ≤ (applyPair p act).1.cutoff ∧
    ((∀ c, act ≠ .freshB c) → p.2.cutoff ≤ (applyPair p act).2.cutoff) := by
  cases act with
  | stepA d =>
    have h := step_invariant d p.1 ha
    exact ⟨h.2.2.2.2.2.2, hb, h.1, fun _ => Nat.le_refl _⟩
  | stepB d =>
    have h := step_invariant d p.2 hb
    exact ⟨ha, h.2.2.2.2.2.2, Nat.le_refl _, fun _ => h.1⟩
  | swap =>
    have h := swap_spec p.1 p.2 ha hb
    exact ⟨h.2.2.2.2.2.2.1, h.2.2.2.2.2.2.2.1, h.1, fun _ => h.2.1⟩
  | raiseA c =>
    have h := increaseCutoffTo_monotone c p.1
    exact ⟨(h.2.2.2.2.2.2 ha).1, hb, h.1, fun _ => Nat.le_refl _⟩
  | convertA nv =>
    have h := convertSampler_spec nv p.1
    exact ⟨h.2.2.2 ha, hb, by rw [show (applyPair p (.convertA nv)).1.cutoff = p.1.cutoff from h.1]; exact Nat.le_refl _,
      fun _ => Nat.le_refl _⟩
  | freshB c =>
    exact ⟨ha, newIsing_inv c, Nat.le_refl _, fun h => absurd rfl (h c)⟩
  | copyA =>
    exact ⟨ha, hb, Nat.le_refl _, fun _ => Nat.le_refl _⟩

/-- any history of public calls (time steps with arbitrary decisions, raw swaps in either
direction, raising a cutoff, conversion, partner rebuilt) from samplers in `Inv`: both in `Inv`
(hence `n ≤ cutoff` and container length ≤ cutoff before the next sweep) and object A's reported
cutoff never below its starting value. -/
theorem pair_history_invariant (acts : List PairAction) (p : CSampler × CSampler)
    (ha : p.1.Inv) (hb : p.2.Inv) :
    (runPair acts p).1.Inv ∧ (runPair acts p).2.Inv ∧
    (runPair acts p).1.n ≤ (runPair acts p).1.cutoff ∧ (runPair acts p).2.n ≤ (runPair acts p).2.cutoff ∧
    p.1.cutoff ≤ (runPair acts p).1.cutoff := by
  induction acts generalizing p with
  | nil => exact ⟨ha, hb, inv_n_le _ ha, inv_n_le _ hb, Nat.le_refl _⟩
  | cons act t ih =>
    obtain ⟨h1, h2, h3, _⟩ := pair_action_invariant p act ha hb
    have := ih (applyPair p act) h1 h2
    exact ⟨this.1, this.2.1, this.2.2.1, this.2.2.2.1, Nat.le_trans h3 this.2.2.2.2⟩

/-- witness of what the guard "only extend a container that is too short" (seeded mutation) would
break: a fresh sampler with cutoff 1 receiving the full-length container of a cutoff-4 sampler
must end with cutoff 4. -/
example :
    let a := run [fun _ _ => true] (newIsing 4)   -- n = 4, cutoff 7, container 4
    let b := newIsing 1
    ((swapSamplers b a).1.cutoff, (swapSamplers b a).1.n, (swapSamplers b a).1.len) = (7, 4, 7) := by
  decide

/-- `increase_cutoff_to` below / at / above a cutoff of 4 with two operators -/
example : ([2, 4, 9].map fun c =>
    let s := increaseCutoffTo c { cutoff := 4, occ := [true, false, true, false] }
    (s.cutoff, s.len, s.n)) = [(4, 4, 2), (4, 4, 2), (9, 9, 2)] := by decide

/-! ### user-supplied cutoffs in the middle of a run (round 9)

`set_cutoff(c)` of both samplers overwrites the field with ANY `c`; a sampler can be rebuilt around a
saved container with any cutoff (`new_with_rng_with_manager_hook`).  "Whatever cutoff the user
supplied" therefore also covers a cutoff that merely fits the current string (`n ≤ c < n + n/2 + 1`,
even `c = n`).  The growth rule is applied after EVERY step, whether or not the step added
operators, so the headroom is re-established by the very next step. -/

/-- One time step from **any** state (no hypothesis at all: any cutoff, any container, `Inv` or
not): the cutoff does not shrink, one free slot, the margin `n/2 + 1`. -/
theorem step_headroom_any_state (d : Nat → Bool → Bool) (s : CSampler) :
    s.cutoff ≤ (timestep d s).cutoff ∧ (timestep d s).n < (timestep d s).cutoff ∧
    (timestep d s).n + (timestep d s).n / 2 + 1 ≤ (timestep d s).cutoff := by
  have hcut : (timestep d s).cutoff = nextCutoff s.cutoff (timestep d s).n :=
    diagStepWith_cutoff nextCutoff d s
  rw [hcut]
  exact ⟨nextCutoff_ge_left _ _, nextCutoff_gt_n _ _, nextCutoff_margin _ _⟩

/-- One time step from any state whose operators sit below the cutoff (`Fits`; in particular from
every state with `n ≤ cutoff` and a dense string, `cutoff = n` included, and from every `Inv`
state): additionally the new count fits into the cutoff the sweep used (so `cutoff − n` never
underflows), the string fits the new cutoff, `n ≤ cutoff` again. -/
theorem step_from_fitting_state (d : Nat → Bool → Bool) (s : CSampler) (h : s.Fits) :
    s.n ≤ s.cutoff ∧ (timestep d s).n ≤ s.cutoff ∧ (timestep d s).Fits ∧
    s.cutoff ≤ (timestep d s).cutoff ∧ (timestep d s).n < (timestep d s).cutoff ∧
    (timestep d s).n + (timestep d s).n / 2 + 1 ≤ (timestep d s).cutoff ∧
    s.len ≤ (timestep d s).len ∧ s.cutoff ≤ (timestep d s).len :=
  ⟨fits_n_le s h, diagStepWith_n_le_of_fits nextCutoff d s h,
    diagStepWith_fits nextCutoff nextCutoff_ge_left d s h,
    (step_headroom_any_state d s).1, (step_headroom_any_state d s).2.1,
    (step_headroom_any_state d s).2.2, (container_never_shrinks d s).1,
    (container_never_shrinks d s).2⟩

/-- the library's own invariant is a special case of `Fits` -/
theorem inv_fits (s : CSampler) (h : s.Inv) : s.Fits := fits_of_inv s h

/-- `set_cutoff(c)` with any `c` and the hook restore with any `c`: the sampler reports exactly `c`,
operators untouched, container never shrunk; if the string fits below `c`, the result `Fits`
(and so `n ≤ c`). -/
theorem user_cutoff_spec (c : Nat) (s : CSampler) :
    (setCutoff c s).cutoff = c ∧ (setCutoff c s).n = s.n ∧ s.len ≤ (setCutoff c s).len ∧
    (CSampler.restore c s.occ).cutoff = c ∧ (CSampler.restore c s.occ).n = s.n ∧
    s.len ≤ (CSampler.restore c s.occ).len ∧
    (countOcc (s.occ.drop c) = 0 → (setCutoff c s).Fits ∧ (CSampler.restore c s.occ).Fits ∧ s.n ≤ c) := by
  refine ⟨rfl, setCutoff_n _ _, by rw [setCutoff_len]; exact growLen_ge_left _ _, rfl,
    restore_n _ _, by rw [restore_len]; exact growLen_ge_left _ _, fun h => ⟨setCutoff_fits c s h,
    restore_fits c s.occ h, ?_⟩⟩
  have := fits_n_le _ (setCutoff_fits c s h)
  rw [setCutoff_n] at this; exact this

/-- Any history of time steps, `set_cutoff(c)` and restores with **arbitrary** `c`, from **any**
state: every state reached by a time step has a free slot and the margin. -/
theorem user_history_headroom (acts : List UserAction) (s : CSampler) :
    ∀ x ∈ userTrace acts s, x.1 = true →
      x.2.n < x.2.cutoff ∧ x.2.n + x.2.n / 2 + 1 ≤ x.2.cutoff := by
  induction acts generalizing s with
  | nil => intro x hx; cases hx
  | cons a t ih =>
    intro x hx hstep
    simp only [userTrace, List.mem_cons] at hx
    cases hx with
    | inr hm => exact ih _ x hm hstep
    | inl he =>
      subst he
      cases a with
      | step d => exact (step_headroom_any_state d s).2
      | setCut c => simp at hstep
      | restore c => simp at hstep

/-- … and if the string fits at the start and every user-supplied cutoff fits the string it is
applied to, every state reached (by a step or by a user call) has all operators below its cutoff
and `n ≤ cutoff`. -/
theorem user_history_fits (acts : List UserAction) (s : CSampler) (h : s.Fits)
    (hv : UserValid acts s) : ∀ x ∈ userTrace acts s, x.2.Fits ∧ x.2.n ≤ x.2.cutoff := by
  induction acts generalizing s with
  | nil => intro x hx; cases hx
  | cons a t ih =>
    intro x hx
    have key : (applyUser s a).Fits ∧ UserValid t (applyUser s a) := by
      cases a with
      | step d => exact ⟨(step_from_fitting_state d s h).2.2.1, hv⟩
      | setCut c => exact ⟨setCutoff_fits c s hv.1, hv.2⟩
      | restore c => exact ⟨restore_fits c s.occ hv.1, hv.2⟩
    simp only [userTrace, List.mem_cons] at hx
    cases hx with
    | inr hm => exact ih _ key.1 key.2 x hm
    | inl he => subst he; exact ⟨key.1, fits_n_le _ key.1⟩

/-- non-vacuity at `cutoff = n`: a full two-slot string whose cutoff the user pinned to 2; a step
that changes nothing (keeps both operators, adds none) ends with cutoff 4 = 2 + 1 + 1. -/
example :
    let s : CSampler := setCutoff 2 { cutoff := 7, occ := [true, true] }
    s.Fits ∧ s.n = s.cutoff ∧
      ((timestep (fun _ b => b) s).cutoff, (timestep (fun _ b => b) s).n) = (4, 2) := by
  refine ⟨(fits_iff _).mp (by decide), by decide, by decide⟩

/-- the same through a restore into a container with trailing empty slots (cutoff 3 < length 5): the
string fits, `Inv` does not hold, the step still re-establishes the margin and `Fits` -/
example :
    let s := CSampler.restore 3 [true, false, true, false, false]
    s.Fits ∧ ¬ s.Inv ∧ ((timestep (fun _ b => b) s).cutoff, (timestep (fun _ b => b) s).n,
      (timestep (fun _ b => b) s).len) = (4, 2, 5) := by
  refine ⟨(fits_iff _).mp (by decide), by unfold CSampler.Inv; decide, by decide⟩

/-- a valid user history: step, pin the cutoff to the slot count, step, restore with cutoff = n -/
example : UserValid [.step (fun _ _ => true), .setCut 1, .step (fun _ b => b), .restore 1] (newIsing 1) := by
  refine ⟨?_, ?_, trivial⟩ <;> decide

/-- Why the rule must NOT be skipped when the step added no operator (seeded mutation C12-18): with
the guarded rule the sampler of the first example keeps cutoff 2 = n for ever — no free slot — while
the guarded rule and the code's rule agree on every run the library alone drives from a fresh sampler
(first steps below). -/
example :
    let s : CSampler := setCutoff 2 { cutoff := 7, occ := [true, true] }
    (guardedStep (fun _ b => b) s).cutoff = 2 ∧ (guardedStep (fun _ b => b) s).n = 2 ∧
    (guardedStep (fun _ _ => true) (newIsing 1)) = timestep (fun _ _ => true) (newIsing 1) := by
  refine ⟨by decide, by decide, by decide⟩

/-! ### non-vacuity: concrete runs -/

/-- cutoff 1, two steps: fill the slot, then fill both slots → cutoffs 2, 4; counts 1, 2 -/
example : (trace [fun _ _ => true, fun _ _ => true] (newIsing 1)).map (fun t => (t.cutoff, t.n, t.len))
    = [(2, 1, 1), (4, 2, 2)] := by decide

/-- the generic sampler on one spin starts with cutoff 1 and an empty container -/
example : (trace [fun _ _ => true, fun p b => p == 0 && b] (newGeneric 1)).map
    (fun t => (t.cutoff, t.n, t.len)) = [(2, 1, 1), (2, 1, 2)] := by decide

/-- equalisation on replicas with cutoffs 3, 7, 5 -/
example : (equalise [newIsing 3, newIsing 7, newIsing 5]).map (fun t => (t.cutoff, t.len))
    = [(7, 7), (7, 7), (7, 7)] := by decide

end Qmc.C12
