/-
VERBATIM COPY of the definitions of QmcModel/Loop.lean up to and including `loopUpdate` (directed-loop
update of src/sse/qmc_traits/directed_loop.rs), placed in namespace `Qmc.StepLoop` instead of `Qmc`.

Why a copy: QmcModel/Loop.lean and QmcModel/Cluster.lean both declare `Qmc.Leg` (different structures),
so no Lean file — and no executable — can contain both the loop update and the cluster update of
namespace `Qmc`. The whole-step model of the generic sampler needs both. The copy is tied
(a) to the real code by the whole-step trajectories of `drv_step` (every generic step with
    `do_loop_updates` replays this function against `Qmc::timestep`), and
(b) to the original by `Qmc.Sampler.stepLoop_eq` (QmcProofs/SamplerLoopEq.lean):
    `StepLoop.loopUpdate = Qmc.loopUpdate`, so C04's theorems transfer.
Regenerate as described in design_notes/FullStep.md if Loop.lean changes (last sync: F22, start leg = one draw over all
variable slots via `totalVars` / `pickLeg`). Core Lean only.
-/
import QmcModel.Basic
import QmcModel.Rand

namespace Qmc.StepLoop
open Qmc

/-- `Leg = (usize, OpSide)`: relative variable and side (`out = false` ↔ `OpSide::Inputs`). -/
structure Leg where
  rel : Nat
  out : Bool
  deriving DecidableEq, Repr, Inhabited

/-- `adjust_states(before, after, leg)` on the pair (inputs, outputs). -/
def flipIO (io : List Bool × List Bool) (l : Leg) : List Bool × List Bool :=
  if l.out then (io.1, io.2.modify l.rel not) else (io.1.modify l.rel not, io.2)

/-- the legs in the order `loop_body` lists them: inputs 0..k-1, then outputs 0..k-1 -/
def legsOf (k : Nat) : List Leg :=
  (List.range k).map (fun v => ⟨v, false⟩) ++ (List.range k).map (fun v => ⟨v, true⟩)

/-- the closure `h(op, entrance, exit)`: matrix element after toggling entrance and exit -/
def exitWeight (W : List Bool → List Bool → Rat) (io : List Bool × List Bool) (ent ex : Leg) : Rat :=
  let io' := flipIO (flipIO io ent) ex
  W io'.1 io'.2

def exitWeights (W : List Bool → List Bool → Rat) (io : List Bool × List Bool) (ent : Leg)
    (k : Nat) : List Rat :=
  (legsOf k).map (exitWeight W io ent)

/-- `iter().sum()` from 0 -/
def sumR (l : List Rat) : Rat := l.foldl (· + ·) 0

/-- the `try_fold` that walks the cumulative weights: index of the first entry with `c < w`,
`c` reduced by every entry passed; `none` = the fold ran off the end (`unwrap_err` panics). -/
def pickIdx (c : Rat) : List Rat → Option Nat
  | [] => none
  | w :: t => if c < w then some 0 else (pickIdx (c - w) t).map (· + 1)

/-- smallest distance between the running `c` and a weight it was compared with (tie detector
for the f64 comparison; not part of the decision) -/
def pickMargin (c : Rat) : List Rat → Rat
  | [] => 1
  | w :: t =>
    let d := if c < w then w - c else c - w
    if c < w then d else
      let m := pickMargin (c - w) t
      if d < m then d else m

/-! ### navigation over the slot list -/

/-- is the looked-up slot occupied -/
def isOcc : Option (Option Op) → Bool
  | some (some _) => true
  | _ => false

/-- occupied positions in increasing order -/
def occ (slots : Slots) : List Nat :=
  (List.range slots.length).filter (fun p => isOcc slots[p]?)

/-- `get_nth_p` (FastOps: from the head, follow `next_p` `n % self.n` times) -/
def nthOp (slots : Slots) (k : Nat) : Option Nat :=
  let o := occ slots
  if o.length = 0 then none else o[k % o.length]?

/-- positions and relative indices of the ops acting on variable `v`, increasing p -/
def occV (slots : Slots) (v : Nat) : List (Nat × Nat) :=
  (List.range slots.length).filterMap (fun p =>
    match slots[p]? with
    | some (some o) => (o.indexOfVar v).map (fun r => (p, r))
    | _ => none)

/-- `get_next_p_for_rel_var` -/
def nextForVar (slots : Slots) (v p : Nat) : Option (Nat × Nat) :=
  (occV slots v).find? (fun q => decide (p < q.1))
/-- `get_previous_p_for_rel_var` -/
def prevForVar (slots : Slots) (v p : Nat) : Option (Nat × Nat) :=
  (occV slots v).reverse.find? (fun q => decide (q.1 < p))
/-- `get_first_p_for_var` -/
def firstForVar (slots : Slots) (v : Nat) : Option (Nat × Nat) := (occV slots v).head?
/-- `get_last_p_for_var` -/
def lastForVar (slots : Slots) (v : Nat) : Option (Nat × Nat) := (occV slots v).getLast?
/-- `does_var_have_ops` -/
def varHasOps (slots : Slots) (v : Nat) : Bool := !(occV slots v).isEmpty

/-! ### the update -/

/-- `total_vars`: number of variable slots of all ops (`while let Some(p) = next` loop) -/
def totalVars : Slots → Nat
  | [] => 0
  | none :: t => totalVars t
  | some op :: t => op.vars.length + totalVars t

/-- the walk `if choice < n_vars {break (p, choice)}; choice -= n_vars; p = next_p.unwrap()` over
the ops in chain order, `p` = position of the head of the remaining list; `none` = the walk ran
off the end (`unwrap` panics; impossible for `choice < total_vars`). -/
def pickLeg : Slots → Nat → Nat → Option (Nat × Nat)
  | [], _, _ => none
  | none :: t, p, c => pickLeg t (p + 1) c
  | some op :: t, p, c =>
    if c < op.vars.length then some (p, c) else pickLeg t (p + 1) (c - op.vars.length)

/-- start selection: `(position, leg)`; two draws: the variable slot among all legs' variables,
then the side -/
def loopStart (slots : Slots) (rs : RS) : Option (Nat × Leg) × RS :=
  let (a, rs) := rs.genRange (totalVars slots)
  match pickLeg slots 0 a with
  | none => (none, { rs with panicked := true })
  | some (p, b) =>
    let (c, rs) := rs.genStdBool
    if rs.panicked || rs.short then (none, rs) else (some (p, ⟨b, !c⟩), rs)

structure LoopSt where
  state : List Bool
  slots : Slots
  rs : RS

/-- the rewritten op: entrance and exit toggled (`edit_in_out`) -/
def passThrough (op : Op) (ent ex : Leg) : Op :=
  let io := flipIO (flipIO (op.ins, op.outs) ent) ex
  op.withInOut io.1 io.2

/-- where the walk continues after leaving `op'` (the rewritten op at `pos`) through `ex`:
the new state and the linked (position, relative variable). -/
def moveOn (slots : Slots) (state : List Bool) (pos : Nat) (op' : Op) (ex : Leg) :
    List Bool × Option (Nat × Nat) :=
  let v := op'.vars.getD ex.rel 0
  if ex.out then
    match nextForVar slots v pos with
    | some q => (state, some q)
    | none => (state.set v (op'.outs.getD ex.rel false), firstForVar slots v)
  else
    match prevForVar slots v pos with
    | some q => (state, some q)
    | none => (state.set v (op'.ins.getD ex.rel false), lastForVar slots v)

/-- `loop_body`: one vertex visit. Second component `none` = `LoopResult::Return` (or the
implementation stopped: panic / script exhausted, visible in `rs`). -/
def loopBody (w : Nat → List Bool → List Bool → Rat) (init : Nat × Leg) (pos : Nat) (ent : Leg)
    (s : LoopSt) : LoopSt × Option (Nat × Leg) :=
  match s.slots[pos]? with
  | some (some op) =>
    let k := op.vars.length
    let ws := exitWeights (w op.bond) (op.ins, op.outs) ent k
    let total := sumR ws
    let (c, rs) := s.rs.genRangeF total
    if rs.panicked || rs.short then ({ s with rs := rs }, none) else
    match pickIdx c ws with
    | none => ({ s with rs := { rs with panicked := true } }, none)
    | some j =>
      let ex := (legsOf k).getD j default
      let rs := if c = 0 then rs else rs.noteMargin (pickMargin c ws / total)
      let op' := passThrough op ent ex
      let slots' := s.slots.set pos (some op')
      if (pos, ex) = init then ({ state := s.state, slots := slots', rs := rs }, none) else
      match moveOn s.slots s.state pos op' ex with
      | (state', some (p', r')) =>
        let newEnt : Leg := ⟨r', !ex.out⟩
        if (p', newEnt) = init then ({ state := state', slots := slots', rs := rs }, none)
        else ({ state := state', slots := slots', rs := rs }, some (p', newEnt))
      | (state', none) =>
        ({ state := state', slots := slots', rs := { rs with panicked := true } }, none)
  | _ => ({ s with rs := { s.rs with panicked := true } }, none)

/-- `apply_loop_update` (trampoline); fuel bounds the number of vertex visits (each consumes
one script word, so `script.length + 1` is enough). -/
def loopIter (w : Nat → List Bool → List Bool → Rat) (init : Nat × Leg) :
    Nat → Nat → Leg → LoopSt → LoopSt
  | 0, _, _, s => { s with rs := { s.rs with short := true } }
  | fuel + 1, pos, ent, s =>
    match loopBody w init pos ent s with
    | (s', none) => s'
    | (s', some (p, e)) => loopIter w init fuel p e s'

/-- `make_loop_update_with_rng(None, w, state, rng)` -/
def loopUpdate (w : Nat → List Bool → List Bool → Rat) (cfg : Config) (rs : RS) : Config × RS :=
  if countOps cfg.slots = 0 then (cfg, rs) else
  match loopStart cfg.slots rs with
  | (none, rs) => (cfg, rs)
  | (some (p, leg), rs) =>
    let s := loopIter w (p, leg) (rs.script.length + 1) p leg
      { state := cfg.state, slots := cfg.slots, rs := rs }
    ({ state := s.state, slots := s.slots }, s.rs)

end Qmc.StepLoop
