/-
The generic-interaction sampler `Qmc` of /repo/src/sse/qmc_runner.rs: the bond list, the
classification flags maintained by `add_interaction`, the offset bookkeeping of the four
`make_*interaction*` entry points, `should_do_cluster_update`, `get_energy_for_average_n`,
`flip_free_bits` and the order of sub-updates inside `timestep`. Core Lean only.

The diagonal sweep (C08) and the cluster move (C09) are *parameters* of `timestep` here
(`Kernels`); the loop update is `QmcModel/Loop.lean`, the free-spin refresh is modelled exactly.
-/
import QmcModel.Interaction
import QmcModel.Loop

namespace Qmc

inductive Variant where
  | new | newOff | diag | diagOff
  deriving DecidableEq, Repr

/-- one call of `make_interaction`, `make_interaction_and_offset`, `make_diagonal_interaction`,
`make_diagonal_interaction_and_offset` -/
structure Call where
  variant : Variant
  mat : List Rat
  vars : List Nat
  deriving Repr

/-- the fields of `Qmc` that do not belong to the operator string -/
structure GQmc where
  bonds : List Interaction := []
  hasClusterEdges : Bool := false
  breaksIsing : Bool := false
  doLoop : Bool := false
  offset : Rat := 0
  nonConstDiags : List Nat := []
  doHeatbath : Bool := false
  /-- `bond_weights.is_some()` -/
  bondWeightsSet : Bool := false
  deriving Repr

/-- `Qmc::new_with_state(nvars, rng, state, do_loop_updates)` (flags only) -/
def GQmc.init (doLoop : Bool) : GQmc := { doLoop := doLoop }

/-- `Qmc::add_interaction`; a panic inside `sym_under_ising` propagates -/
def addInteraction (q : GQmc) (i : Interaction) : Res GQmc :=
  match i.symUnderIsing with
  | .ok sym =>
    .ok { q with
      hasClusterEdges := q.hasClusterEdges || isValidClusterEdge i.isConstant i.vars.length
      breaksIsing := q.breaksIsing || !sym
      nonConstDiags := if i.isConstantDiag then q.nonConstDiags else q.nonConstDiags ++ [q.bonds.length]
      bondWeightsSet := false
      bonds := q.bonds ++ [i] }
  | .err => .err
  | .panic => .panic

/-- the constructor behind each entry point, with the offset it reports (0 when none) -/
def construct (c : Call) : Res (Interaction × Rat) :=
  match c.variant with
  | .new => (Interaction.new c.mat c.vars).map (·, 0)
  | .newOff => Interaction.newOffset c.mat c.vars
  | .diag => (Interaction.newDiagonal c.mat c.vars).map (·, 0)
  | .diagOff => Interaction.newDiagonalOffset c.mat c.vars

/-- `make_*interaction*`: `Err` leaves the sampler untouched (`?` returns before
`add_interaction`); `self.offset -= offset` only in the `_and_offset` variants (the others
subtract nothing, modelled as subtracting the reported 0). -/
def makeCall (q : GQmc) (c : Call) : Res GQmc :=
  match construct c with
  | .ok (i, off) =>
    match addInteraction q i with
    | .ok q' => .ok { q' with offset := q'.offset - off }
    | .err => .err
    | .panic => .panic
  | .err => .err
  | .panic => .panic

/-- a sequence of calls as a user would issue them: rejected calls are skipped -/
def makeCalls (q : GQmc) : List Call → Res GQmc
  | [] => .ok q
  | c :: t =>
    match makeCall q c with
    | .ok q' => makeCalls q' t
    | .err => makeCalls q t
    | .panic => .panic

/-- `should_do_cluster_update` -/
def shouldDoClusterUpdate (q : GQmc) : Bool := !q.breaksIsing && q.hasClusterEdges
/-- `should_do_loop_update` -/
def shouldDoLoopUpdate (q : GQmc) : Bool := q.doLoop
/-- `set_do_loop_updates` -/
def setDoLoopUpdates (q : GQmc) (b : Bool) : GQmc := { q with doLoop := b }
/-- `set_do_heatbath` -/
def setDoHeatbath (q : GQmc) (b : Bool) : GQmc := { q with doHeatbath := b }

/-- `get_energy_for_average_n` -/
def energyForAverageN (q : GQmc) (avgN beta : Rat) : Rat := -(avgN / beta) + q.offset

/-- the closure `h` of `loop_update` / `diagonal_update`: `bonds[bond].at(ins, outs).unwrap()`
(`none` = the unwrap / index panics) -/
def genericW? (q : GQmc) (bond : Nat) (ins outs : List Bool) : Option Rat :=
  match q.bonds[bond]? with
  | some i => match i.atP ins outs with
    | .ok x => some x
    | _ => none
  | none => none

def genericW (q : GQmc) (bond : Nat) (ins outs : List Bool) : Rat :=
  (genericW? q bond ins outs).getD 0

/-- `flip_free_bits`: one `gen_bool(0.5)` per variable without ops, increasing index -/
def flipFreeBitsFrom (slots : Slots) : Nat → Nat → List Bool → RS → List Bool × RS
  | 0, _, st, rs => (st, rs)
  | fuel + 1, v, st, rs =>
    if varHasOps slots v then flipFreeBitsFrom slots fuel (v + 1) st rs
    else
      let (b, rs) := rs.genBool (1 / 2)
      flipFreeBitsFrom slots fuel (v + 1) (st.set v b) rs

def flipFreeBits (cfg : Config) (rs : RS) : Config × RS :=
  let (st, rs) := flipFreeBitsFrom cfg.slots cfg.state.length 0 cfg.state rs
  ({ cfg with state := st }, rs)

/-- the two sub-updates not modelled in this file -/
structure Kernels where
  /-- `diagonal_update(beta)` (Metropolis or heat-bath according to `do_heatbath`) -/
  diag : GQmc → Rat → Config → RS → Config × RS
  /-- `cluster_update()` = `flip_each_cluster_ising_symmetry_rng(0.5, …)` -/
  cluster : Config → RS → Config × RS

/-- `QmcStepper::timestep` -/
def timestep (K : Kernels) (q : GQmc) (beta : Rat) (cfg : Config) (rs : RS) : Config × RS :=
  let (cfg, rs) := K.diag q beta cfg rs
  let (cfg, rs) := if shouldDoLoopUpdate q then loopUpdate (genericW q) cfg rs else (cfg, rs)
  let (cfg, rs) := if shouldDoClusterUpdate q then K.cluster cfg rs else (cfg, rs)
  flipFreeBits cfg rs

/-! ### the sampler's cutoff `M` (`Qmc::cutoff`) and the length of the operator container -/

/-- what can happen to the cutoff: a `timestep` after which the string holds `n` operators, a call
of `increase_cutoff_to(c)`, a call of `set_cutoff(c)` -/
inductive CutOp where
  | step (n : Nat)
  | increase (c : Nat)
  | set (c : Nat)
  deriving Repr

/-- `Qmc::cutoff` and the container's length (`manager.get_cutoff()`) -/
structure CutSt where
  cutoff : Nat
  len : Nat
  deriving Repr, DecidableEq

/-- `diagonal_update`: the sweep runs over `0..M` after growing the container to `M`; afterwards
`self.cutoff = max(self.cutoff, n + n/2 + 1)`. `increase_cutoff_to(c)` =
`set_cutoff(max(self.cutoff, c))`. `set_cutoff(c)`: `self.cutoff = c`, the container only grows. -/
def cutApply (s : CutSt) : CutOp → CutSt
  | .step n => { cutoff := max s.cutoff (n + n / 2 + 1), len := max s.len s.cutoff }
  | .increase c => { cutoff := max s.cutoff c, len := max s.len (max s.cutoff c) }
  | .set c => { cutoff := c, len := max s.len c }

/-- the states after each operation -/
def cutTrace (s : CutSt) : List CutOp → List CutSt
  | [] => []
  | o :: t => cutApply s o :: cutTrace (cutApply s o) t

/-! ### protocol encoding of call lists: `variant:mat:vars!variant:mat:vars…` (`-` = none) -/
namespace Proto

def parseVariant (s : String) : Variant :=
  match s with
  | "new" => .new
  | "new_off" => .newOff
  | "diag" => .diag
  | _ => .diagOff

def parseCalls (s : String) : List Call :=
  if s == "-" then [] else
  (s.splitOn "!").filterMap fun tok =>
    match tok.splitOn ":" with
    | [v, m, vs] => some { variant := parseVariant v, mat := parseRats m, vars := parseNats vs }
    | _ => none

end Proto
end Qmc
