/-
Model of the resonating-bond (RVB) update, src/sse/qmc_traits/rvb.rs. Core Lean only.

* pure helpers, exact: `removeDoubles` (util/vec_help.rs), `findOverlappingStarts`,
  `calculateMult`, `contiguousBits`;
* the Ising matrix elements the update uses (`QmcIsingGraph::hamiltonian`);
* the *segment abstraction* of `calculate_flip_prob`: a proposed region cuts imaginary time into
  segments on which the set of boundary bonds and their weights `(w_before, w_after)` are
  constant; each segment carries the rotatable (boundary, diagonal, 2-site) operators found in it.
  `extract` computes this abstraction from a configuration and a region by the same sweep the code
  does; `acceptProb` is the product the code returns (`rvbAcceptProb` = both composed);
* the move as a checkable relation: `isRvbMove` (decider).

The region is an input here (taken from the trace hook in the correspondence run). The
region-growing procedure itself (`find_constants`, `build_cluster`, `WeightedBoundaryManager`) is
modelled exactly in QmcModel/RvbRegion.lean (`proposeRegion`).
-/
import QmcModel.Basic
import QmcModel.Rand
import QmcModel.BondContainer

namespace Qmc
namespace Rvb

/-! ### pure helpers -/

/-- `remove_doubles`: left-to-right, an element equal to its successor is dropped together with
the successor (the in-place two-index loop of the Rust code computes exactly this list). -/
def removeDoubles : List Nat → List Nat
  | [] => []
  | [a] => [a]
  | a :: b :: t => if a = b then removeDoubles t else a :: removeDoubles (b :: t)

/-- `slice::binary_search(x).unwrap_err()` on a sorted list: the insertion point (number of
smaller elements); `none` = the value is present (`unwrap_err` panics). -/
def binSearchErr (l : List Nat) (x : Nat) : Option Nat :=
  if l.contains x then none else some (l.filter (· < x)).length

/-- the predicate of the `take_while` in `find_overlapping_starts` for index `ip` -/
def overlapPred (pStart pEnd cutoff lowest : Nat) (fp : List Nat) (ip : Nat) : Bool :=
  let off := fun p => (p + cutoff - lowest) % cutoff
  let cs := off (fp.getD ip 0)
  let ce := off (fp.getD ((ip + 1) % fp.length) 0)
  let hos := decide (cs < off pStart) && decide (off pStart < ce)
  let hsw := decide (off pStart < cs) && decide (cs < off pEnd)
  let eq := decide (pStart = pEnd) || decide (cs = ce)
  eq || (hos || hsw)

/-- cyclic enumeration of the indices `0..len` starting at `prev` -/
def cyclicFrom (prev len : Nat) : List Nat := List.range' prev (len - prev) ++ List.range prev

/-- `find_overlapping_starts(p_start, p_end, cutoff, flip_positions)`; `none` = panic (empty
list, `cutoff = 0`, or `p_start` present in the list). Domain: `flip_positions` sorted. -/
def findOverlappingStarts (pStart pEnd cutoff : Nat) (fp : List Nat) : Option (List Nat) :=
  if fp.isEmpty || cutoff == 0 then none
  else match binSearchErr fp pStart with
    | none => none
    | some bin =>
      let prev := (bin + fp.length - 1) % fp.length
      let lowest := fp.getD prev 0
      some ((cyclicFrom prev fp.length).takeWhile (overlapPred pStart pEnd cutoff lowest fp))

/-- `f64::EPSILON` -/
def f64eps : Rat := 1 / (2 ^ 52 : Nat)

def absR (x : Rat) : Rat := if x < 0 then -x else x

/-- `calculate_mult` on the two running totals: `(W_after / W_before)^n` with the `n = 0` and
"totals closer than eps" shortcuts. -/
def calculateMult (wb wa : Rat) (n : Nat) (eps : Rat := f64eps) : Rat :=
  if n = 0 ∨ absR (wb - wa) < eps then 1 else (wa / wb) ^ n

/-- `contiguous_bits(rng)` -/
def contiguousBits (s : RS) : Nat × RS := s.genTrailingOnes

/-! ### Ising matrix elements (`QmcIsingGraph::hamiltonian`) -/

structure Ising where
  nvars : Nat
  edges : List (Nat × Nat × Rat)
  gamma : Rat
  h : Rat
  deriving Repr

/-- diagonal element of `two_site_hamiltonian`: `|J| − J` when aligned, `|J| + J` otherwise -/
def twoSite (j : Rat) (a b : Bool) : Rat := absR j + (if a = b then -j else j)

/-- `longitudinal_hamiltonian` -/
def longitudinal (h : Rat) (i o : Bool) : Rat :=
  if i = o then absR h + (if i then h else -h) else 0

/-- `QmcIsingGraph::hamiltonian(info, vars, bond, ins, outs)` -/
def Ising.w (E : Ising) (bond : Nat) (ins outs : List Bool) : Rat :=
  if bond < E.edges.length then
    (if ins = outs then twoSite (E.edges.getD bond (0, 0, 0)).2.2 (ins.getD 0 false) (ins.getD 1 false) else 0)
  else if bond < E.edges.length + E.nvars then E.gamma
  else longitudinal E.h (ins.getD 0 false) (outs.getD 0 false)

def Ising.opW (E : Ising) (o : Op) : Rat := E.w o.bond o.ins o.outs

/-- every stored operator has positive weight (C07's `Legal`, for the Ising Hamiltonian) -/
def Legal (E : Ising) (s : Slots) : Prop := ∀ o, some o ∈ s → 0 < E.opW o

/-! ### regions -/

/-- A proposed region: membership of every variable at `p = 0` and the sorted list of slot
positions at which membership toggles (each a one-variable constant operator). `subvars` =
cluster ∪ boundary variables (only operators touching them are visited by the code). -/
structure Region where
  subvars : List Nat
  mask0 : List Bool
  toggles : List Nat
  deriving Repr

def getB (l : List Bool) (i : Nat) : Bool := l.getD i false

/-- the boundary bonds for a membership mask and a state: `(bond index, w_before, w_after)`;
`w_after` is the weight once the inside spin is flipped. Enumerated by bond index. -/
def boundary (E : Ising) (st mask : List Bool) : List (Nat × Rat × Rat) :=
  ((List.range E.edges.length).zip E.edges).filterMap fun (b, (u, v, j)) =>
    if getB mask u != getB mask v then
      some (b, twoSite j (getB st u) (getB st v), twoSite j (!getB st u) (getB st v))
    else none

/-! ### segment abstraction -/

/-- boundary bonds `(w_before, w_after)` of one segment -/
structure Seg where
  bonds : List (Rat × Rat)
  deriving Repr, DecidableEq

/-- the abstraction of a proposal: segments, and the `(before, after)` weights of the operators
completely inside the region (their ratio is the "Ising ratio"). -/
structure Problem where
  segs : List Seg
  inner : List (Rat × Rat)
  deriving Repr, DecidableEq

def Seg.wBef (s : Seg) : Rat := (s.bonds.map (·.1)).sum
def Seg.wAft (s : Seg) : Rat := (s.bonds.map (·.2)).sum
def Seg.flip (s : Seg) : Seg := { bonds := s.bonds.map fun p => (p.2, p.1) }
def Problem.flip (P : Problem) : Problem :=
  { segs := P.segs.map Seg.flip, inner := P.inner.map fun p => (p.2, p.1) }

def prodR (l : List Rat) : Rat := l.foldr (· * ·) 1

/-- an assignment: for every segment the boundary-bond index of each rotatable operator in it -/
abbrev Assign := List (List Nat)

/-- the raw multiplier the code computes: `Π_seg calculate_mult(W_bef, W_aft, k) · Π ising ratios` -/
def rawMult (P : Problem) (ks : List Nat) (eps : Rat := f64eps) : Rat :=
  prodR ((P.segs.zip ks).map fun (s, k) => calculateMult s.wBef s.wAft k eps) *
  prodR (P.inner.map fun p => p.2 / p.1)

def minR (a b : Rat) : Rat := if a ≤ b then a else b

/-- probability that the proposal is applied: `p ≥ 1 → always`, else `gen_bool(p)` -/
def acceptProb (P : Problem) (ks : List Nat) (eps : Rat := f64eps) : Rat := minR 1 (rawMult P ks eps)

/-- weight of the part of the configuration the proposal touches, under assignment `c` -/
def weight (P : Problem) (c : Assign) : Rat :=
  prodR (P.inner.map (·.1)) *
  prodR ((P.segs.zip c).map fun (s, js) => prodR (js.map fun j => (s.bonds.getD j (0, 0)).1))

/-- probability that the redraw (each rotatable op independently ∝ `w_after`) produces `c'` -/
def redrawProb (P : Problem) (c' : Assign) : Rat :=
  prodR ((P.segs.zip c').map fun (s, js) => prodR (js.map fun j => (s.bonds.getD j (0, 0)).2 / s.wAft))

/-- transition probability `c → c'` given that this region was proposed -/
def transProb (P : Problem) (c c' : Assign) (eps : Rat := f64eps) : Rat :=
  acceptProb P (c.map List.length) eps * redrawProb P c'

/-! ### extraction of the abstraction from a configuration (model of `calculate_flip_prob`) -/

structure Sweep where
  st : List Bool
  mask : List Bool
  tog : List Nat
  cur : List Nat := []          -- bond indices (position in the boundary list) of the open segment
  segs : List Seg := []
  asg : Assign := []
  inner : List (Rat × Rat) := []
  bad : Bool := false           -- something the code `debug_assert`s against happened
  mult : Rat := 1               -- the running product `mult` of the code, in the code's order
  broke : Bool := false         -- the code left its loop early (`mult < EPSILON => break`)
  deriving Repr

def flipAll (l : List Bool) : List Bool := l.map (!·)

def toggleAt (mask : List Bool) (v : Nat) : List Bool := mask.set v (!getB mask v)

def Sweep.commit (E : Ising) (s : Sweep) : Sweep :=
  let bs := boundary E s.st s.mask
  let seg : Seg := { bonds := bs.map fun x => (x.2.1, x.2.2) }
  { s with segs := s.segs ++ [seg], asg := s.asg ++ [s.cur], cur := [],
           mult := s.mult * calculateMult seg.wBef seg.wAft s.cur.length }

/-- one operator at slot `p` -/
def Sweep.stepOp (E : Ising) (R : Region) (s : Sweep) (p : Nat) (o : Op) : Sweep :=
  if !(o.vars.any R.subvars.contains) then
    -- not visited by the code; only the propagated state of foreign variables moves
    { s with st := writeVars s.st o.vars o.outs }
  else
    let bs := boundary E s.st s.mask
    match (bs.map (·.1)).idxOf? o.bond with
    | some i => { s with cur := s.cur ++ [i], bad := s.bad || !o.tagDiag || s.tog.head? == some p }
    | none =>
      let isTog := s.tog.head? == some p
      let complIn := o.vars.all (getB s.mask)
      let s1 := if complIn then
          let u := (E.opW o, E.w o.bond (flipAll o.ins) (flipAll o.outs))
          { s with inner := s.inner ++ [u], mult := s.mult * (u.2 / u.1) } else s
      -- `if mult < EPSILON { break }` after the Ising factor, and again after the commit
      let s2 := if s1.mult < f64eps then s1 else if !o.tagDiag || isTog then s1.commit E else s1
      let s2 := if s2.mult < f64eps then { s2 with broke := true } else s2
      let mask' := if isTog then toggleAt s2.mask (o.vars.headD 0) else s2.mask
      let st' := if !o.tagDiag then writeVars s2.st o.vars o.outs else s2.st
      { s2 with st := st', mask := mask', tog := if isTog then s2.tog.tail else s2.tog,
                bad := s2.bad || (isTog && !(o.const && o.vars.length == 1)) }

def Sweep.run (E : Ising) (R : Region) : Sweep → Nat → Slots → Sweep
  | s, _, [] => s
  | s, p, none :: t => Sweep.run E R s (p + 1) t
  | s, p, some o :: t => Sweep.run E R (s.stepOp E R p o) (p + 1) t

/-- the same sweep, but stopping where the code breaks out of its loop -/
def Sweep.runCode (E : Ising) (R : Region) : Sweep → Nat → Slots → Sweep
  | s, _, [] => s
  | s, p, none :: t => Sweep.runCode E R s (p + 1) t
  | s, p, some o :: t =>
    let s' := s.stepOp E R p o
    if s'.broke then s' else Sweep.runCode E R s' (p + 1) t

/-- the abstraction of proposing region `R` on configuration `c`, with the current assignment -/
def extract (E : Ising) (c : Config) (R : Region) : Problem × Assign × Bool :=
  let s0 : Sweep := { st := c.state, mask := R.mask0, tog := R.toggles }
  let s := (Sweep.run E R s0 0 c.slots).commit E
  ({ segs := s.segs, inner := s.inner }, s.asg, !s.bad && s.tog.isEmpty && s.mask == R.mask0)

/-- the multiplier of the segment abstraction for region `R` on configuration `c` -/
def rvbRawMult (E : Ising) (c : Config) (R : Region) : Rat :=
  let (P, a, _) := extract E c R
  rawMult P (a.map List.length)

/-- the value `calculate_flip_prob` returns, computed in the code's order: once the running
product falls below `f64::EPSILON` the sweep is abandoned and the value is exactly 0 (the proposal
is rejected outright — /repo fc31be1, finding F19; before that fix the truncated product was
returned and the half-swept membership could reach `mutate_graph`). Returns the value and
"left early". -/
def rvbCodeMult (E : Ising) (c : Config) (R : Region) : Rat × Bool :=
  let s0 : Sweep := { st := c.state, mask := R.mask0, tog := R.toggles }
  let s := Sweep.runCode E R s0 0 c.slots
  if s.broke then (0, true) else ((s.commit E).mult, false)

/-- the acceptance probability of the proposal -/
def rvbAcceptProb (E : Ising) (c : Config) (R : Region) : Rat :=
  let (P, a, _) := extract E c R
  acceptProb P (a.map List.length)

/-! ### the move as a checkable relation -/

def xorL (a b : List Bool) : List Bool := List.zipWith (fun x y => x != y) a b

/-- expected image of an operator that is not a rotatable boundary operator: inputs of covered
legs flipped with the membership before the slot, outputs with the membership after it; the
diagonal tag is recomputed at a toggle (`clone_and_edit_in_out`) and kept otherwise. -/
def xorOp (o : Op) (mask mask2 : List Bool) (isTog : Bool) : Op :=
  let i := xorL o.ins (o.vars.map (getB mask))
  let u := xorL o.outs (o.vars.map (getB mask2))
  { o with ins := i, outs := u, tagDiag := if isTog then i == u else o.tagDiag }

/-- is `o'` an admissible re-bonding of the rotatable operator `o` (on a boundary bond) given the
running state `st` and membership `mask`: a diagonal operator on a boundary bond whose weight
after the flip is positive, recording the flipped state of its two variables. -/
def rebondOk (E : Ising) (st mask : List Bool) (o o' : Op) : Bool :=
  let bs := boundary E st mask
  let st' := xorL st mask
  match bs.find? (·.1 == o'.bond) with
  | some (b, _, wa) =>
    let (u, v, _) := E.edges.getD b (0, 0, 0)
    o.tagDiag && decide (0 < wa) && decide (0 < E.opW o') && o'.vars == [u, v] &&
      o'.ins == [getB st' u, getB st' v] && o'.outs == o'.ins && o'.tagDiag && o'.const == o.const &&
      decide (u ≠ v) && o.outs == o.ins && decide (u < st.length) && decide (v < st.length)
  | none => false

/-- an operator that is not on a boundary bond: `o'` must be `xorOp o …`; returns the
membership after the slot and the remaining toggles. At a toggle the operator must be a constant
one-variable operator; elsewhere it must lie completely inside or completely outside. -/
def flipStep (E : Ising) (p : Nat) (mask : List Bool) (tog : List Nat) (o o' : Op) :
    Option (List Bool × List Nat) :=
  let isTog := tog.head? == some p
  let mask2 := if isTog then toggleAt mask (o.vars.headD 0) else mask
  let ok := (if isTog then o.const && o.vars.length == 1
             else (o.vars.all (getB mask) || o.vars.all (fun v => !getB mask v))) &&
    decide o.vars.Nodup && o.ins.length == o.vars.length && o.outs.length == o.vars.length &&
    o' == xorOp o mask mask2 isTog && decide (0 < E.opW o')
  if ok then some (mask2, if isTog then tog.tail else tog) else none

/-- walk both operator strings in lock step -/
def moveSteps (E : Ising) : Nat → List Bool → List Bool → List Nat → Slots → Slots → Option (List Bool × List Nat)
  | _, _, mask, tog, [], [] => some (mask, tog)
  | p, st, mask, tog, none :: s, none :: s' => moveSteps E (p + 1) st mask tog s s'
  | p, st, mask, tog, some o :: s, some o' :: s' =>
    if !inputsMatch st o then none
    else if (boundary E st mask).any (·.1 == o.bond) then
      if rebondOk E st mask o o' then moveSteps E (p + 1) (writeVars st o.vars o.outs) mask tog s s' else none
    else
      match flipStep E p mask tog o o' with
      | some (mask2, tog2) => moveSteps E (p + 1) (writeVars st o.vars o.outs) mask2 tog2 s s'
      | none => none
  | _, _, _, _, _, _ => none

/-- decider: `after` is an RVB move of `before` on region `R` -/
def isRvbMove (E : Ising) (b a : Config) (R : Region) : Bool :=
  a.state == xorL b.state R.mask0 && b.state.length == R.mask0.length &&
  match moveSteps E 0 b.state R.mask0 R.toggles b.slots a.slots with
  | some (m, tog) => m == R.mask0 && tog.isEmpty
  | none => false

end Rvb
end Qmc
