/-
Model of the rand 0.8.8 primitives the library uses, as deterministic functions of a *script*
(the list of 64-bit words the RNG hands out, one per `next_u64`/`next_u32` call; `next_u32`
is the high half of a word — that is how the harness' `RecRng` is defined).

Integer paths are bit-exact (rejection zone included). Real-valued decisions are taken on
exact rationals and record the *margin* (distance between the drawn number and the decision
threshold) so that the comparison with the f64 implementation can skip knife-edge cases.
Core Lean only.
-/
namespace Qmc

/-- RNG state of the model: remaining script, smallest decision margin so far, and two flags:
`short` = the script ran out (model consumed more words than the implementation),
`panicked` = the implementation would panic here (e.g. `gen_bool(p)` with `p ∉ [0,1]`,
`gen_range` on an empty range). -/
structure RS where
  script : List Nat
  margin : Rat := 1
  short : Bool := false
  panicked : Bool := false
  draws : Nat := 0
  deriving Repr

namespace RS

def ofScript (s : List Nat) : RS := { script := s }

def two64 : Nat := 2 ^ 64
def two32 : Nat := 2 ^ 32

/-- `next_u64` -/
def next (s : RS) : Nat × RS :=
  match s.script with
  | [] => (0, { s with short := true })
  | w :: t => (w % two64, { s with script := t, draws := s.draws + 1 })

/-- `next_u32` (high half of one word) -/
def next32 (s : RS) : Nat × RS :=
  let (w, s') := s.next
  (w / two32, s')

def noteMargin (s : RS) (m : Rat) : RS :=
  let m := if m < 0 then -m else m
  if m < s.margin then { s with margin := m } else s

/-- `gen::<bool>()`: sign bit of `next_u32` -/
def genStdBool (s : RS) : Bool × RS :=
  let (w, s') := s.next32
  (decide (w ≥ 2 ^ 31), s')

/-- `gen_bool(p)`: `p == 1` answers `true` without drawing; `p ∉ [0,1]` panics;
otherwise `next_u64 < ⌊p·2^64⌋`. -/
def genBool (s : RS) (p : Rat) : Bool × RS :=
  if p = 1 then (true, s)
  else if p < 0 ∨ 1 < p then (false, { s with panicked := true })
  else
    let (v, s') := s.next
    let thr : Int := (p * (two64 : Rat)).floor
    ((v : Int) < thr, s'.noteMargin ((v : Rat) / (two64 : Rat) - p))

/-- number of leading zero bits of a 64-bit value (`n > 0`) -/
def lz64 (n : Nat) : Nat := 63 - Nat.log2 n

/-- rejection loop of `UniformInt::sample_single_inclusive` for `usize`/`u64`. -/
def genRangeLoop (range zone : Nat) : Nat → RS → Nat × RS
  | 0, s => (0, { s with short := true })
  | fuel + 1, s =>
    let (v, s') := s.next
    if s'.short then (0, s') else
    let prod := v * range
    let hi := prod / two64
    let lo := prod % two64
    if lo ≤ zone then (hi, s') else genRangeLoop range zone fuel s'

/-- `gen_range(0..n)` for `usize` -/
def genRange (s : RS) (n : Nat) : Nat × RS :=
  if n = 0 then (0, { s with panicked := true })
  else
    let zone := (n * 2 ^ (lz64 n)) % two64 - 1
    genRangeLoop n zone (s.script.length + 1) s

/-- rejection loop for `u8` ranges (32-bit words, modulus zone) -/
def genRangeU8Loop (range zone : Nat) : Nat → RS → Nat × RS
  | 0, s => (0, { s with short := true })
  | fuel + 1, s =>
    let (v, s') := s.next32
    if s'.short then (0, s') else
    let prod := v * range
    let hi := prod / two32
    let lo := prod % two32
    if lo ≤ zone then (hi, s') else genRangeU8Loop range zone fuel s'

/-- `gen_range(0..n)` for `u8` -/
def genRangeU8 (s : RS) (n : Nat) : Nat × RS :=
  if n = 0 then (0, { s with panicked := true })
  else
    let umax := two32 - 1
    let reject := (umax - n + 1) % n
    genRangeU8Loop n (umax - reject) (s.script.length + 1) s

/-- `gen::<f64>()`: `(v >> 11) · 2^-53`, exact -/
def genF64 (s : RS) : Rat × RS :=
  let (v, s') := s.next
  (((v / 2 ^ 11 : Nat) : Rat) / ((2 ^ 53 : Nat) : Rat), s')

/-- `gen_range(0.0..t)` for `f64`: `((v >> 12) · 2^-52) · t` (the re-draw when rounding hits
`t` itself cannot happen for the dyadic inputs used by the harness; `t ≤ 0` panics). -/
def genRangeF (s : RS) (t : Rat) : Rat × RS :=
  if t ≤ 0 then (0, { s with panicked := true })
  else
    let (v, s') := s.next
    ((((v / 2 ^ 12 : Nat) : Rat) / ((2 ^ 52 : Nat) : Rat)) * t, s')

/-- `next_u64().trailing_ones()` -/
def trailingOnesAux : Nat → Nat → Nat
  | 0, _ => 0
  | fuel + 1, v => if v % 2 = 1 then 1 + trailingOnesAux fuel (v / 2) else 0

def genTrailingOnes (s : RS) : Nat × RS :=
  let (v, s') := s.next
  (trailingOnesAux 64 v, s')

/-- the script was consumed exactly and nothing went wrong -/
def clean (s : RS) : Bool := s.script.isEmpty && !s.short && !s.panicked

/-- verdict token for the protocol: `?` when a decision was closer than `tol` to its threshold -/
def verdict (s : RS) (tol : Rat := 1 / 1000000000) : String :=
  if s.panicked then "PANIC"
  else if s.short then "SHORT"
  else if s.margin < tol then "?"
  else if !s.script.isEmpty then s!"LEFT{s.script.length}"
  else "ok"

end RS
end Qmc
