/-
Executable model of the classical Ising sampler `/repo/src/classical/graph.rs`
(`GraphState::{new_with_state_and_rng, do_time_step, do_spin_flip, do_edge_flip, delta_e,
do_worm_flip, get_energy, should_flip, enable_edge_importance_sampling}`), over exact rationals
and the scripted RNG `Qmc.RS`.  Core Lean only.

Conventions read from the code (they are what the theorems in `QmcProps/C19.lean` are about):
* state `true` = spin `+1`; `cpl x y = +1` when the two spins are equal, `-1` otherwise;
* `get_energy = Σ_i ( Σ_{(k,J) ∈ binding_mat[i]} J·cpl(i,k)/2  +  (if s_i then -b_i else b_i) )`
  i.e. `E = Σ_edges J·cpl − Σ_i b_i σ_i`  (positive `J` penalises aligned spins);
* every "ΔE" of a move is *new − old* in that convention, except the bias term of the worm move
  (finding F11: it evaluates `2 b_v σ_v` on the state *after* the flips, which is *old − new*).

Out-of-range indices panic in Rust; here look-ups default (`false`, `0`, `[]`) — the theorems
carry a well-formedness hypothesis, the harness only generates well-formed graphs.
The acceptance threshold `exp(−β ΔE)` is a parameter `ch : Rat → Rat` (threshold as a function of
`ΔE`): a rational enclosure (`expNeg`) in the driver, abstract in the theorems.
-/
import QmcModel.Rand

namespace Qmc.Classical

/-- `((va, vb), J)` -/
abbrev Edge := (Nat × Nat) × Rat

/-- spin look-up (`state[i]`) -/
def st (s : List Bool) (i : Nat) : Bool := s.getD i false

/-- `if !(a ^ b) { 1.0 } else { -1.0 }` -/
def cpl (x y : Bool) : Rat := if x = y then 1 else -1

/-- `if b { 1.0 } else { -1.0 }` -/
def sgn (x : Bool) : Rat := if x then 1 else -1

/-- `state[i] = !state[i]` -/
def flipAt (s : List Bool) (i : Nat) : List Bool := s.set i (!st s i)

/-! ### binding matrix (`new_with_state_and_rng`) -/

/-- insertion that keeps equal keys in arrival order (`sort_by_key` is stable) -/
def insKey (x : Nat × Rat) : List (Nat × Rat) → List (Nat × Rat)
  | [] => [x]
  | y :: ys => if x.1 ≤ y.1 then x :: y :: ys else y :: insKey x ys

def sortKey : List (Nat × Rat) → List (Nat × Rat)
  | [] => []
  | x :: xs => insKey x (sortKey xs)

/-- entries pushed to `binding_mat[v]`, in edge order (a self-loop pushes two) -/
def rowRaw (edges : List Edge) (v : Nat) : List (Nat × Rat) :=
  edges.flatMap fun e =>
    (if e.1.1 = v then [(e.1.2, e.2)] else []) ++ (if e.1.2 = v then [(e.1.1, e.2)] else [])

def bindingMat (edges : List Edge) (n : Nat) : List (List (Nat × Rat)) :=
  (List.range n).map fun v => sortKey (rowRaw edges v)

def row (bm : List (List (Nat × Rat))) (v : Nat) : List (Nat × Rat) := bm.getD v []

/-! ### energy -/

/-- inner sum of `get_energy` for site `i` -/
def rowEnergy (r : List (Nat × Rat)) (s : List Bool) (i : Nat) : Rat :=
  (r.map fun e => e.2 * cpl (st s i) (st s e.1) / 2).sum

/-- `if *si { -biases[i] } else { biases[i] }` -/
def biasE (biases : List Rat) (s : List Bool) (i : Nat) : Rat :=
  if st s i then - biases.getD i 0 else biases.getD i 0

/-- `GraphState::get_energy` -/
def getEnergy (bm : List (List (Nat × Rat))) (biases : List Rat) (s : List Bool) : Rat :=
  (List.range s.length).foldl
    (fun acc i => acc + rowEnergy (row bm i) s i + biasE biases s i) 0

/-- the direct sum over the edge list and the biases: `Σ_e J·cpl − Σ_i b_i σ_i` -/
def energyEdges (edges : List Edge) (biases : List Rat) (s : List Bool) : Rat :=
  (edges.map fun e => e.2 * cpl (st s e.1.1) (st s e.1.2)).sum
    - ((List.range s.length).map fun i => biases.getD i 0 * sgn (st s i)).sum

/-! ### energy differences used by the moves -/

/-- `GraphState::delta_e(v, omit, state, binding_mat)` -/
def deltaE (bm : List (List (Nat × Rat))) (s : List Bool) (v : Nat) (om : Option Nat) : Rat :=
  (((row bm v).filter fun e => some e.1 != om).map
    fun e => -2 * e.2 * cpl (st s v) (st s e.1)).sum

/-- `2.0 * biases[v] * if state[v] { 1.0 } else { -1.0 }` -/
def biasDelta (biases : List Rat) (s : List Bool) (v : Nat) : Rat :=
  2 * biases.getD v 0 * sgn (st s v)

/-- the `delta_e` of `do_spin_flip` -/
def spinDelta (bm : List (List (Nat × Rat))) (biases : List Rat) (s : List Bool) (i : Nat) : Rat :=
  deltaE bm s i none + biasDelta biases s i

/-- the `delta_e` of `do_edge_flip` for the edge `(a, b)` -/
def edgeDelta (bm : List (List (Nat × Rat))) (biases : List Rat) (s : List Bool) (a b : Nat) : Rat :=
  (deltaE bm s a (some b) + biasDelta biases s a) + (deltaE bm s b (some a) + biasDelta biases s b)

/-! ### acceptance -/

/-- `should_flip`: no draw when `ΔE ≤ 0`; otherwise `gen::<f64>() < exp(−β ΔE)` (`ch ΔE`). -/
def shouldFlip (ch : Rat → Rat) (rs : RS) (de : Rat) : Bool × RS :=
  if de > 0 then
    let (u, rs') := rs.genF64
    (decide (u < ch de), rs'.noteMargin (u - ch de))
  else (true, rs)

/-- Rational enclosure of `exp(−y)` (`y ≥ 0`): argument halved `k` times so that the alternating
Taylor series (31 terms) has error `< 1e-40`, then squared `k` times in 200-bit fixed point.
Error far below the 1e-9 tie margin of the comparison with `f64::exp`. -/
def expNeg (y : Rat) : Rat :=
  if y ≤ 0 then 1 else
    let k := Nat.log2 (y.ceil.toNat + 1) + 2
    let r := y / ((2 ^ k : Nat) : Rat)
    let rec taylor (i : Nat) (term acc : Rat) : Nat → Rat
      | 0 => acc
      | fuel + 1 =>
        let term' := term * (-r) / ((i + 1 : Nat) : Rat)
        taylor (i + 1) term' (acc + term') fuel
    let t0 := taylor 0 1 1 30
    let scale : Rat := ((2 ^ 200 : Nat) : Rat)
    let trunc (x : Rat) : Rat := ((x * scale).floor : Rat) / scale
    let rec sq (x : Rat) : Nat → Rat
      | 0 => x
      | m + 1 => sq (trunc (x * x)) m
    sq (trunc t0) k

/-! ### single spin move -/

/-- `do_spin_flip`: `U(N)`, then `should_flip(ΔE)` -/
def doSpinFlip (ch : Rat → Rat) (bm : List (List (Nat × Rat))) (biases : List Rat)
    (x : List Bool × RS) : List Bool × RS :=
  let (i, rs1) := x.2.genRange x.1.length
  let (acc, rs2) := shouldFlip ch rs1 (spinDelta bm biases x.1 i)
  (if acc then flipAt x.1 i else x.1, rs2)

/-! ### edge move -/

def absR (x : Rat) : Rat := if x < 0 then -x else x

/-- `enable_edge_importance_sampling(true)`: running sums of `|J|` and their total -/
def cumTable (edges : List Edge) : List Rat × Rat :=
  edges.foldl (fun (acc : List Rat × Rat) e => (acc.1 ++ [acc.2 + absR e.2], acc.2 + absR e.2)) ([], 0)

/-- the `cumulative_weight` field after `enable_edge_importance_sampling(enable)`:
the table when enabled and `Σ|J| > 0`, otherwise `None` (uniform selection) -/
def importanceTable (edges : List Edge) (enable : Bool) : Option (List Rat × Rat) :=
  if enable then (if (cumTable edges).2 > 0 then some (cumTable edges) else none) else none

/-- edge selection of `do_edge_flip`. Importance sampling: `p = gen_range(0.0..total)`, index =
`binary_search` of `p` in the (non-decreasing) table = number of entries `< p` (an exact hit
returns that entry's index or, among equal entries, a std-dependent one: margin 0 = tie; the margin
is relative to the total so that it does not depend on the energy unit).
Uniform: `gen_range(0..edges.len())`. The choice never looks at the state. -/
def pickEdge (nedges : Nat) (cum : Option (List Rat × Rat)) (rs : RS) : Nat × RS :=
  match cum with
  | some (table, total) =>
    let (p, rs1) := rs.genRangeF total
    let rs2 := table.foldl (fun r v => r.noteMargin ((v - p) / total)) rs1
    ((table.filter (· < p)).length, rs2)
  | none => rs.genRange nedges

/-- `do_edge_flip` (no-op without any draw on a graph without edges) -/
def doEdgeFlip (ch : Rat → Rat) (edges : List Edge) (bm : List (List (Nat × Rat)))
    (biases : List Rat) (cum : Option (List Rat × Rat)) (x : List Bool × RS) : List Bool × RS :=
  if edges.isEmpty then x else
  let (idx, rs1) := pickEdge edges.length cum x.2
  match edges[idx]? with
  | none => (x.1, { rs1 with panicked := true })
  | some e =>
    let (acc, rs2) := shouldFlip ch rs1 (edgeDelta bm biases x.1 e.1.1 e.1.2)
    (if acc then flipAt (flipAt x.1 e.1.1) e.1.2 else x.1, rs2)

/-! ### worm move -/

inductive WM where
  | single (v : Nat)
  | double (a b : Nat)
  deriving Repr, BEq, Inhabited

namespace WM
def delta (bm : List (List (Nat × Rat))) (s : List Bool) : WM → Rat
  | single v => deltaE bm s v none
  | double a b => deltaE bm s a (some b) + deltaE bm s b (some a)
def head : WM → Nat
  | single v => v
  | double _ v => v
def apply (s : List Bool) : WM → List Bool
  | single v => flipAt s v
  | double a b => flipAt (flipAt s a) b
def vars : WM → List Nat
  | single v => [v]
  | double a b => [a, b]
def back : WM → WM
  | single v => single v
  | double a b => double b a
end WM

/-- `f64::EPSILON` -/
def eps : Rat := 1 / ((2 ^ 52 : Nat) : Rat)

/-- `x.abs() < f64::EPSILON` -/
def isZero (x : Rat) : Bool := decide ((if x < 0 then -x else x) < eps)

/-- classification of one candidate: `[]` (dropped), or kept with the flag "sets `any_resolve`" -/
def classify (startE : Rat) (m : WM) (de : Rat) : List (WM × Rat × Bool) :=
  if isZero de then [(m, de, false)]
  else if isZero (de + startE) then [(m, de, true)]
  else []

/-- `smallstack` after the `retain`: candidate continuations of the worm from `selVar`. -/
def wormCands (bm : List (List (Nat × Rat))) (s : List Bool) (startE : Rat) (doubles : Bool)
    (selVar last : Nat) : List (WM × Rat) :=
  let raw : List (WM × Rat × Bool) := (row bm selVar).flatMap fun e =>
    let ov := e.1
    if ov = last then [] else
      let de := deltaE bm s ov none
      let c1 := classify startE (.single ov) de
      let c2 :=
        if doubles then
          let s' := flipAt s ov
          (row bm ov).flatMap fun e2 =>
            let oov := e2.1
            if oov ≠ ov ∧ oov ≠ selVar then
              classify startE (.double ov oov) (deltaE bm s' oov none + de)
            else []
        else []
      c1 ++ c2
  let kept := if raw.any (·.2.2) then raw.filter (fun c => isZero (c.2.1 + startE)) else raw
  kept.map fun c => (c.1, c.2.1)

/-- the `loop` of `do_worm_flip`. `pathRev` = `visit_path` reversed (head = last move).
Returns (pathRev, state, update_failed, rng). -/
def wormLoop (bm : List (List (Nat × Rat))) (n : Nat) (startE : Rat) (doubles : Bool) :
    Nat → List WM → Nat → List Bool → RS → List WM × List Bool × Bool × RS
  | 0, pathRev, _, s, rs => (pathRev, s, true, { rs with short := true })
  | fuel + 1, pathRev, last, s, rs =>
    let selMove := pathRev.headD (.single 0)
    let selVar := selMove.head
    let cands := wormCands bm s startE doubles selVar last
    let (mv, de, rs1) :=
      if cands.isEmpty then
        (selMove.back, selMove.back.delta bm s, rs)
      else
        let (c, r1) := rs.genRange cands.length
        let (m, d) := cands.getD c (selMove, 0)
        (m, d, r1)
    let s' := mv.apply s
    let last' := match mv, selMove with
      | .single _, .single v => v
      | .single _, .double _ v => v
      | .double v _, _ => v
    let path' := mv :: pathRev
    if isZero (de + startE) then (path', s', false, rs1)
    else if path'.length > n then (path', s', true, rs1)
    else wormLoop bm n startE doubles fuel path' last' s' rs1

def insNat (x : Nat) : List Nat → List Nat
  | [] => [x]
  | y :: ys => if x ≤ y then x :: y :: ys else y :: insNat x ys

def sortNat : List Nat → List Nat
  | [] => []
  | x :: xs => insNat x (sortNat xs)

/-- `util::vec_help::remove_doubles` on a sorted vector: equal neighbours cancel in pairs -/
def removeDoubles : List Nat → List Nat
  | a :: b :: t => if a = b then removeDoubles t else a :: removeDoubles (b :: t)
  | l => l

/-- variables flipped an odd number of times along the path -/
def wormVars (pathRev : List WM) : List Nat :=
  removeDoubles (sortNat (pathRev.reverse.flatMap WM.vars))

/-- `total_he`: `Σ_v 2 b_v σ_v` evaluated on the state **after** the flips -/
def wormHe (biases : List Rat) (s2 : List Bool) (vars : List Nat) : Rat :=
  (vars.map fun v => biasDelta biases s2 v).sum

/-- `do_worm_flip` -/
def doWormFlip (ch : Rat → Rat) (bm : List (List (Nat × Rat))) (biases : List Rat) (doubles : Bool)
    (x : List Bool × RS) : List Bool × RS :=
  let n := x.1.length
  let (start, rs1) := x.2.genRange n
  let startE := deltaE bm x.1 start none
  let s1 := flipAt x.1 start
  let (pathRev, s2, failed, rs2) :=
    wormLoop bm n startE doubles (n + 2) [.single start] start s1 rs1
  let vars := wormVars pathRev
  if failed then (vars.foldl flipAt s2, rs2)
  else
    let (acc, rs3) := shouldFlip ch rs2 (wormHe biases s2 vars)
    (if acc then s2 else vars.foldl flipAt s2, rs3)

/-! ### time step -/

def iter (k : Nat) (f : α → α) (x : α) : α :=
  match k with
  | 0 => x
  | k + 1 => iter k f (f x)

/-- everything `do_time_step` reads besides the state and the RNG -/
structure Sampler where
  edges : List Edge
  biases : List Rat
  bm : List (List (Nat × Rat))
  cum : Option (List Rat × Rat) := none

def Sampler.new (edges : List Edge) (biases : List Rat) (importance : Bool) : Sampler :=
  { edges, biases, bm := bindingMat edges biases.length,
    cum := importanceTable edges importance }

/-- `do_time_step(beta, nspin, nedge, nworm, only_basic_moves)`; `ch` is `ΔE ↦ exp(−βΔE)`.
Draw order: `U8(2|3)`, then the chosen move repeated. -/
def doTimeStep (ch : Rat → Rat) (g : Sampler) (ns ne nw : Option Nat) (basic : Bool)
    (x : List Bool × RS) : List Bool × RS :=
  let ns := ns.getD (max 1 (x.1.length / 2))
  let ne := ne.getD (max 1 (g.edges.length / 2))
  let nw := nw.getD 1
  let (choice, rs1) := x.2.genRangeU8 (if basic then 2 else 3)
  match choice with
  | 0 => iter ns (doSpinFlip ch g.bm g.biases) (x.1, rs1)
  | 1 => iter ne (doEdgeFlip ch g.edges g.bm g.biases g.cum) (x.1, rs1)
  | _ => iter nw (doWormFlip ch g.bm g.biases true) (x.1, rs1)

/-! ### exact kernels of the model (all branches; used by the driver to print the one-step
transition probabilities that the harness measures on the real code) -/

/-- acceptance probability of `should_flip` given the threshold function -/
def accProb (ch : Rat → Rat) (de : Rat) : Rat :=
  if de > 0 then (if ch de < 1 then (if ch de < 0 then 0 else ch de) else 1) else 1

/-- all selection paths of the worm from `(pathRev, last, s)`: (probability, pathRev, state, failed) -/
def wormBranches (bm : List (List (Nat × Rat))) (n : Nat) (startE : Rat) (doubles : Bool) :
    Nat → Rat → List WM → Nat → List Bool → List (Rat × List WM × List Bool × Bool)
  | 0, _, _, _, _ => []
  | fuel + 1, w, pathRev, last, s =>
    let selMove := pathRev.headD (.single 0)
    let selVar := selMove.head
    let cands := wormCands bm s startE doubles selVar last
    let opts : List (Rat × WM × Rat) :=
      if cands.isEmpty then [(w, selMove.back, selMove.back.delta bm s)]
      else cands.map fun c => (w / (cands.length : Rat), c.1, c.2)
    opts.flatMap fun (w', mv, de) =>
      let s' := mv.apply s
      let last' := match mv, selMove with
        | .single _, .single v => v
        | .single _, .double _ v => v
        | .double v _, _ => v
      let path' := mv :: pathRev
      if isZero (de + startE) then [(w', path', s', false)]
      else if path'.length > n then [(w', path', s', true)]
      else wormBranches bm n startE doubles fuel w' path' last' s'

/-- every selection path of one worm update from `s`:
(selection probability, state if accepted, state if rejected / failed, `total_he` or `none` when
the update failed because the path got too long). Does not involve the acceptance function. -/
def wormProposals (bm : List (List (Nat × Rat))) (biases : List Rat) (doubles : Bool)
    (s : List Bool) : List (Rat × List Bool × List Bool × Option Rat) :=
  let n := s.length
  (List.range n).flatMap fun start =>
    let startE := deltaE bm s start none
    let s1 := flipAt s start
    (wormBranches bm n startE doubles (n + 2) (1 / (n : Rat)) [.single start] start s1).map
      fun (w, pathRev, s2, failed) =>
        let vars := wormVars pathRev
        (w, s2, vars.foldl flipAt s2, if failed then none else some (wormHe biases s2 vars))

/-- one-step worm kernel row from `s`: list of (probability, final state) -/
def wormRow (ch : Rat → Rat) (bm : List (List (Nat × Rat))) (biases : List Rat) (doubles : Bool)
    (s : List Bool) : List (Rat × List Bool) :=
  (wormProposals bm biases doubles s).flatMap fun (w, s2, back, he) =>
    match he with
    | none => [(w, back)]
    | some h => [(w * accProb ch h, s2), (w * (1 - accProb ch h), back)]

/-- total probability of `t` in a row -/
def rowProb (r : List (Rat × List Bool)) (t : List Bool) : Rat :=
  ((r.filter fun x => x.2 == t).map (·.1)).sum

/-- one-step transition probability of the worm update -/
def wormK (ch : Rat → Rat) (bm : List (List (Nat × Rat))) (biases : List Rat) (doubles : Bool)
    (s t : List Bool) : Rat :=
  rowProb (wormRow ch bm biases doubles s) t

def spinRow (ch : Rat → Rat) (bm : List (List (Nat × Rat))) (biases : List Rat)
    (s : List Bool) : List (Rat × List Bool) :=
  let n := s.length
  (List.range n).flatMap fun i =>
    let a := accProb ch (spinDelta bm biases s i)
    [(a / (n : Rat), flipAt s i), ((1 - a) / (n : Rat), s)]

/-- selection probabilities of the edge move: uniform, or `|J_k| / Σ|J|` from the importance table -/
def edgeSel (g : Sampler) : List Rat :=
  match g.cum with
  | none => g.edges.map fun _ => 1 / (g.edges.length : Rat)
  | some (table, total) =>
    (List.range table.length).map fun k =>
      (table.getD k 0 - (if k = 0 then 0 else table.getD (k - 1) 0)) / total

def edgeRow (ch : Rat → Rat) (g : Sampler) (s : List Bool) : List (Rat × List Bool) :=
  ((g.edges.zip (edgeSel g))).flatMap fun (e, q) =>
    let a := accProb ch (edgeDelta g.bm g.biases s e.1.1 e.1.2)
    [(q * a, flipAt (flipAt s e.1.1) e.1.2), (q * (1 - a), s)]

/-- all spin states of `n` sites in binary counting order (site 0 most significant) -/
def statesOrdered (n : Nat) : List (List Bool) :=
  (List.range (2 ^ n)).map fun k => (List.range n).map fun i => (k / 2 ^ (n - 1 - i)) % 2 == 1

end Qmc.Classical
