/-
Model of `IntoQmc::into_qmc` (src/sse/qmc_ising.rs) and of the parts of `Qmc`
(src/sse/qmc_runner.rs) it uses: `new_with_state`, `add_interaction` (flags), `make_interaction`,
`make_interaction_and_offset`, `make_diagonal_interaction_and_offset`, `set_manager`,
`set_cutoff`, `should_do_cluster_update`, `get_energy_for_average_n`; and of the *composition* of
the two `timestep`s out of the shared update routines (used for the trajectory statement of C15).
Core Lean only.  Code as it is after the fixes F2 (929ea5d), F3 (bf9a8ff) and 9464564.
-/
import QmcModel.Ham

namespace Qmc

/-- `FastOps::set_cutoff` on the operator string: grow with empty slots, never shrink -/
def growSlots (s : Slots) (c : Nat) : Slots := s ++ List.replicate (c - s.length) none

/-- the fields of `QmcIsingGraph` the conversion reads, plus the two options it drops -/
structure IsingSampler where
  model : IsingModel
  state : List Bool
  cutoff : Nat
  slots : Slots
  runRvb : Bool := false      -- `run_rvb_steps`
  heatbath : Bool := false    -- `bond_weights.is_some()`
  deriving Repr

/-- the fields of `Qmc` -/
structure GenericSampler where
  bonds : List Interaction
  slots : Slots
  cutoff : Nat
  state : List Bool
  hasClusterEdges : Bool
  breaksIsingSymmetry : Bool
  doLoopUpdates : Bool
  offset : Rat
  nonConstDiags : List Nat
  doHeatbath : Bool
  deriving Repr

/-- `.unwrap()` on a `Result`: an `Err` becomes a panic -/
def Res.unwrap {α} : Res α → Res α
  | .ok a => .ok a
  | _ => .panic

namespace GenericSampler

/-- `Qmc::new_with_state(nvars, rng, state, do_loop_updates)`: `M::new(nvars)` is an empty container -/
def newWithState (nvars : Nat) (state : List Bool) (loops : Bool) : GenericSampler :=
  { bonds := [], slots := [], cutoff := nvars, state := state, hasClusterEdges := false,
    breaksIsingSymmetry := false, doLoopUpdates := loops, offset := 0, nonConstDiags := [],
    doHeatbath := false }

/-- `add_interaction` (`sym_under_ising` indexes the matrix: a panic is propagated) -/
def addInteraction (q : GenericSampler) (i : Interaction) : Res GenericSampler :=
  match i.symUnderIsing with
  | .ok sym =>
    .ok { q with
      hasClusterEdges := q.hasClusterEdges || isValidClusterEdge i.isConstant i.vars.length
      breaksIsingSymmetry := q.breaksIsingSymmetry || !sym
      nonConstDiags := if i.isConstantDiag then q.nonConstDiags else q.nonConstDiags ++ [q.bonds.length]
      bonds := q.bonds ++ [i] }
  | .err => .err
  | .panic => .panic

/-- `make_interaction` -/
def makeInteraction (q : GenericSampler) (mat : List Rat) (vars : List Nat) : Res GenericSampler :=
  (Interaction.new mat vars).bind q.addInteraction

/-- `make_interaction_and_offset` (`self.offset -= offset`) -/
def makeInteractionAndOffset (q : GenericSampler) (mat : List Rat) (vars : List Nat) :
    Res GenericSampler :=
  (Interaction.newOffset mat vars).bind fun (i, off) =>
    (q.addInteraction i).map fun q' => { q' with offset := q'.offset - off }

/-- `make_diagonal_interaction_and_offset` -/
def makeDiagonalInteractionAndOffset (q : GenericSampler) (mat : List Rat) (vars : List Nat) :
    Res GenericSampler :=
  (Interaction.newDiagonalOffset mat vars).bind fun (i, off) =>
    (q.addInteraction i).map fun q' => { q' with offset := q'.offset - off }

/-- `set_manager` -/
def setManager (q : GenericSampler) (slots : Slots) : GenericSampler := { q with slots := slots }

/-- `set_cutoff`: field overwritten, container grown -/
def setCutoff (q : GenericSampler) (c : Nat) : GenericSampler :=
  { q with cutoff := c, slots := growSlots q.slots c }

/-- `set_do_heatbath` (the conversion itself leaves the option off, whatever the Ising sampler had).
`diagonal_update` chooses the sweep by this FLAG; the weight table it caches on first use
(`bond_weights`, dropped by `add_interaction`) is a function of `bonds` only and survives
`set_do_heatbath(false)` without any effect on the sweeps that follow. -/
def setDoHeatbath (q : GenericSampler) (b : Bool) : GenericSampler := { q with doHeatbath := b }

/-- `should_do_cluster_update` -/
def shouldDoClusterUpdate (q : GenericSampler) : Bool := !q.breaksIsingSymmetry && q.hasClusterEdges

/-- `get_energy_for_average_n` -/
def energy (q : GenericSampler) (avgN beta : Rat) : Rat := -(avgN / beta) + q.offset

def ham (q : GenericSampler) : Ham := genericHam q.bonds

end GenericSampler

namespace IsingSampler
/-- `set_enable_heatbath(b)`: `true` (re)builds the table from the sampler's OWN edges / Γ / h, `false`
drops it; the sweep is heat-bath iff the table is present. -/
def setEnableHeatbath (g : IsingSampler) (b : Bool) : IsingSampler := { g with heatbath := b }
/-- `get_energy_for_average_n` (`get_offset()` = `total_energy_offset`) -/
def energy (g : IsingSampler) (avgN beta : Rat) : Rat := -(avgN / beta) + g.model.offset
def ham (g : IsingSampler) : Ham := isingHam g.model
end IsingSampler

/-- `QmcIsingGraph::swap_manager_and_state`: exchanges ONLY the operator container and the spin state,
then both samplers call `set_cutoff(max)`.  Edges, fields, energy offset and the update options — the RVB
flag and the heat-bath table, which is a function of the sampler's own `|J|` / Γ / h — stay with the
sampler object. -/
def swapIsing (a b : IsingSampler) : IsingSampler × IsingSampler :=
  let m := max a.cutoff b.cutoff
  ({ a with state := b.state, slots := growSlots b.slots m, cutoff := m },
   { b with state := a.state, slots := growSlots a.slots m, cutoff := m })

/-- the three matrices `into_qmc` builds -/
def edgeMat (j : Rat) : List Rat := [-j, j, j, -j]
def transverseMat (g : Rat) : List Rat := [g, g, g, g]
def fieldMat (h : Rat) : List Rat := [-h, 0, 0, h]

/-- `edges.into_iter().for_each(|(vars, j)| qmc.make_diagonal_interaction_and_offset(…).unwrap())` -/
def addEdges : List (List Nat × Rat) → GenericSampler → Res GenericSampler
  | [], q => .ok q
  | (vars, j) :: t, q =>
    (q.makeDiagonalInteractionAndOffset (edgeMat j) vars).unwrap.bind (addEdges t)

/-- `(0..nvars).for_each(|var| qmc.make_interaction(vec![Γ;4], vec![var]).unwrap())` -/
def addTransverse (g : Rat) : List Nat → GenericSampler → Res GenericSampler
  | [], q => .ok q
  | v :: t, q => (q.makeInteraction (transverseMat g) [v]).unwrap.bind (addTransverse g t)

/-- `(0..nvars).for_each(|var| qmc.make_interaction_and_offset(vec![-h,0,0,h], vec![var]).unwrap())` -/
def addField (h : Rat) : List Nat → GenericSampler → Res GenericSampler
  | [], q => .ok q
  | v :: t, q => (q.makeInteractionAndOffset (fieldMat h) [v]).unwrap.bind (addField h t)

/-- `IntoQmc::into_qmc` (`.panic` = an `unwrap()` fired) -/
def intoQmc (g : IsingSampler) : Res GenericSampler :=
  let m := g.model
  let q0 := GenericSampler.newWithState m.nvars g.state false
  (addEdges m.edges q0).bind fun q1 =>
  (addTransverse m.transverse (List.range m.nvars) q1).bind fun q2 =>
  (if m.hasField then addField m.longitudinal (List.range m.nvars) q2 else .ok q2).bind fun q3 =>
  .ok ((q3.setManager g.slots).setCutoff g.cutoff)

/-! ### the two `timestep`s as compositions of the shared update routines

Both samplers are instances over the same manager type and call the same trait methods.  For the
trajectory statement only the *composition* matters: which routine is called with which
arguments, in which order.  A `World` is (state, operator string, rng script); the routines are
abstract functions of exactly the data the Rust passes them. -/

structure World where
  state : List Bool
  slots : Slots
  rng : List Nat
  deriving Repr

structure Moves where
  /-- `make_diagonal_update_with_rng_and_state_ref(cutoff, beta, state, ham, rng)` -/
  diag : Ham → Nat → Rat → World → World
  /-- `make_heatbath_diagonal_update_with_rng_and_state_ref` (bond weights are a function of the Hamiltonian) -/
  heat : Ham → Nat → Rat → World → World
  /-- `rvb_update` / `rvb_update_with_ising_weight` with `(nvars+1)/2` updates -/
  rvb : IsingModel → World → World
  /-- `flip_each_cluster_ising_symmetry_rng(0.5, rng, state)` -/
  clusterSym : World → World
  /-- `flip_each_cluster_rng(0.5, rng, state, Some(weight))` with the field-bond weight of the Ising sampler -/
  clusterField : IsingModel → World → World
  /-- `make_loop_update_with_rng(None, h, state, rng)` -/
  loop : Ham → World → World
  /-- the free-spin refresh (`does_var_have_ops` / `gen_bool(0.5)`), identical code in both `timestep`s -/
  freeFlip : World → World
  /-- `get_n()` of the container -/
  count : Slots → Nat

def nextCut (c n : Nat) : Nat := max c (n + n / 2 + 1)

/-- `QmcIsingGraph::timestep` -/
def isingTimestep (mv : Moves) (g : IsingSampler) (beta : Rat) (rng : List Nat) :
    IsingSampler × List Nat :=
  let w0 : World := { state := g.state, slots := g.slots, rng := rng }
  let w1 := if g.heatbath then mv.heat g.ham g.cutoff beta w0 else mv.diag g.ham g.cutoff beta w0
  let w2 := if g.runRvb then mv.rvb g.model w1 else w1
  let w3 := if g.model.hasField then mv.clusterField g.model w2 else mv.clusterSym w2
  let w4 := mv.freeFlip w3
  ({ g with state := w4.state, slots := w4.slots, cutoff := nextCut g.cutoff (mv.count w4.slots) },
    w4.rng)

/-- `Qmc::timestep` = `diagonal_update; [loop_update]; [cluster_update]; flip_free_bits` -/
def genericTimestep (mv : Moves) (q : GenericSampler) (beta : Rat) (rng : List Nat) :
    GenericSampler × List Nat :=
  let w0 : World := { state := q.state, slots := q.slots, rng := rng }
  let w1 := if q.doHeatbath then mv.heat q.ham q.cutoff beta w0 else mv.diag q.ham q.cutoff beta w0
  let c1 := nextCut q.cutoff (mv.count w1.slots)
  let w2 := if q.doLoopUpdates then mv.loop q.ham w1 else w1
  let w3 := if q.shouldDoClusterUpdate then mv.clusterSym w2 else w2
  let w4 := mv.freeFlip w3
  ({ q with state := w4.state, slots := w4.slots, cutoff := c1 }, w4.rng)

/-- NOT the code — kept for the negative example in QmcProps/C15.lean (seeded mutation C15-17):
`diagonal_update` choosing the sweep by the PRESENCE of the cached weight table instead of the
`do_heatbath` flag.  The second component is "the table is cached"; `set_do_heatbath(false)` leaves it. -/
def stickyTimestep (mv : Moves) (x : GenericSampler × Bool) (beta : Rat) (rng : List Nat) :
    (GenericSampler × Bool) × List Nat :=
  let cached := x.2 || x.1.doHeatbath
  let r := genericTimestep mv { x.1 with doHeatbath := cached } beta rng
  (({ r.1 with doHeatbath := x.1.doHeatbath }, cached), r.2)

/-- `QmcIsingGraph::single_diagonal_step` -/
def isingDiagStep (mv : Moves) (g : IsingSampler) (beta : Rat) (rng : List Nat) :
    IsingSampler × List Nat :=
  let w0 : World := { state := g.state, slots := g.slots, rng := rng }
  let w1 := if g.heatbath then mv.heat g.ham g.cutoff beta w0 else mv.diag g.ham g.cutoff beta w0
  ({ g with state := w1.state, slots := w1.slots, cutoff := nextCut g.cutoff (mv.count w1.slots) },
    w1.rng)

/-- `Qmc::diagonal_update` -/
def genericDiagStep (mv : Moves) (q : GenericSampler) (beta : Rat) (rng : List Nat) :
    GenericSampler × List Nat :=
  let w0 : World := { state := q.state, slots := q.slots, rng := rng }
  let w1 := if q.doHeatbath then mv.heat q.ham q.cutoff beta w0 else mv.diag q.ham q.cutoff beta w0
  ({ q with state := w1.state, slots := w1.slots, cutoff := nextCut q.cutoff (mv.count w1.slots) },
    w1.rng)

end Qmc
