/-
Model of the autocorrelation helpers (C20). Core Lean only.

Mirrors `fft_autocorrelation` and `QmcAutoCorrelations::{calculate_autocorrelation,
calculate_variable_autocorrelation, calculate_spin_product_autocorrelation}`
(src/sse/autocorrelations.rs) and the tempering variants
(`rayon_tempering::autocorrelations::ParallelTemperingAutocorrelations`, tempering_container.rs).

What the Rust computes, read off the source: with `T = samples.len()`, `n = samples[0].len()`,
for every observable `i` the column `x_i[t] = samples[t][i]` is mean-removed, divided by its
Euclidean norm, sent through forward FFT → |·|² → unnormalised inverse FFT (which yields `T` times the
circular autocorrelation) and the result is summed over `i` and divided by `n·T`:
`out[t] = (1/n) Σ_i (Σ_s y_i[s]·y_i[(s+t) mod T]) / (Σ_s y_i[s]²)`, `y_i = x_i − mean(x_i)`.
The model evaluates this formula directly over `Rat` (no square root is needed: `v·v'/‖y‖²`).
A constant column gives `0/0 = NaN` in every output entry (`autocorrDefined = false` here), no sample
at all panics (`samples[0]`).
-/
import QmcModel.Stepper

namespace Qmc

def mean (xs : List Rat) : Rat := xs.sum / (xs.length : Rat)

/-- mean-removed series -/
def center (xs : List Rat) : List Rat := xs.map (· - mean xs)

def dot (a b : List Rat) : Rat := (List.zipWith (· * ·) a b).sum

/-- circular shift: entry `s` of `rot y t` is `y[(s + t) mod T]` (for `t ≤ T`; `rot_getD`) -/
def rot (y : List Rat) (t : Nat) : List Rat := y.drop t ++ y.take t

/-- normalised circular autocorrelation of one observable at lag `t` -/
def colAutocorr (xs : List Rat) (t : Nat) : Rat :=
  dot (center xs) (rot (center xs) t) / dot (center xs) (center xs)

def column (samples : List (List Rat)) (i : Nat) : List Rat := samples.map (·.getD i 0)

/-- `n = samples[0].len()` -/
def nObs (samples : List (List Rat)) : Nat := (samples.headD []).length

/-- `fft_autocorrelation(samples)`: one entry per sample, average over the observables -/
def autocorr (samples : List (List Rat)) : List Rat :=
  (List.range samples.length).map fun t =>
    ((List.range (nObs samples)).map fun i => colAutocorr (column samples i) t).sum / (nObs samples : Rat)

/-- the f64 code yields numbers (not NaN) exactly when there is at least one observable and no
mean-removed column vanishes -/
def autocorrDefined (samples : List (List Rat)) : Bool :=
  decide (0 < nObs samples) &&
    (List.range (nObs samples)).all fun i => decide (dot (center (column samples i)) (center (column samples i)) ≠ 0)

/-- `fft_autocorrelation` indexes `samples[0]`: no sample at all panics -/
def autocorrPanics (samples : List (List Rat)) : Bool := samples.isEmpty

/-- `calculate_autocorrelation(timesteps, beta, sampling_freq, sample_mapper)`: the states are collected
with `timesteps_measure` (push a copy at every sampling point), mapped *afterwards* with the sampler in
its final state, and handed to `fft_autocorrelation`. -/
def calcSamples {σ : Type} (step : σ → σ) (n : σ → Nat) (view : σ → List Bool)
    (mapper : σ → List Bool → List Rat) (T f : Nat) (s0 : σ) : List (List Rat) :=
  let r := measureLoop step n (pushFold view) T f s0 []
  r.acc.map (mapper r.st)

def calcAutocorr {σ : Type} (step : σ → σ) (n : σ → Nat) (view : σ → List Bool)
    (mapper : σ → List Bool → List Rat) (T f : Nat) (s0 : σ) : List Rat :=
  autocorr (calcSamples step n view mapper T f s0)

def spinVal (b : Bool) : Rat := if b then 1 else -1

/-- mapper of `calculate_variable_autocorrelation` -/
def varMapper (state : List Bool) : List Rat := state.map spinVal

/-- mapper of `calculate_spin_product_autocorrelation` (`sample[v]` out of range panics in Rust; callers
pass valid variables) -/
def prodMapper (prods : List (List Nat)) (state : List Bool) : List Rat :=
  prods.map fun vs => (vs.map fun v => spinVal (state.getD v false)).foldl (· * ·) 1

end Qmc
