/-
Executable decider for the well-formedness of a proposed RVB region (`Qmc.Rvb.Kernel.RegionOK`,
QmcProofs/RvbReverse.lean): the membership toggles at constant operators; every variable that is inside
the region at p = 0 or sits at a toggle position, and both ends of every edge of non-zero coupling
touching such a variable, are listed in `subvars`. This is what `build_cluster` + the post-processing of
`rvb_update_with_ising_weight` hand to `calculate_flip_prob` (`subvars` = cluster ∪ boundary
variables; zero-magnitude bonds are skipped, F21). Core Lean only, so a driver can evaluate it on every
traced region. Soundness: `Qmc.Rvb.Kernel.regionOKb_sound` (QmcProofs/RvbRegionOK.lean).
-/
import QmcModel.Rvb
import QmcModel.Cluster
import QmcModel.Worldline

namespace Qmc
namespace Rvb

/-- variables of the operator at slot `p` (none if the slot is empty or out of range) -/
def varsAt (c : Config) (p : Nat) : List Nat :=
  match c.slots[p]? with
  | some (some o) => o.vars
  | _ => []

/-- the variables that are inside the region at `p = 0` or sit at a toggle position -/
def everInList (c : Config) (R : Region) : List Nat :=
  (List.range R.mask0.length).filter (getB R.mask0) ++ R.toggles.flatMap (varsAt c)

def regionOKb (E : Ising) (c : Config) (R : Region) : Bool :=
  R.toggles.all (fun p => match c.slots[p]? with
    | some (some o) => o.const
    | _ => true) &&
  (everInList c R).all R.subvars.contains &&
  E.edges.all (fun e => e.2.2 == 0 ||
    !((everInList c R).contains e.1 || (everInList c R).contains e.2.1) ||
    (R.subvars.contains e.1 && R.subvars.contains e.2.1))

/-- `QmcIsingGraph`'s Hamiltonian for the parameters of `E` as a `Ham` (`= Qmc.Rvb.Kernel.isingHam E`, by `rfl`) -/
def isingHamM (E : Ising) : Ham :=
  isingClusterHam (E.edges.map fun e => ([e.1, e.2.1], e.2.2)) E.gamma E.h E.nvars

/-- decider for `Qmc.Rvb.Kernel.MoveOK E N R c c'` — the hypothesis under which the RVB kernel `rvbK` has the
transition `c → c'` on region `R`: `c'` is an RVB move of `c`; `c` has `N` variables, is consistent and legal for
the Ising Hamiltonian; the region is well formed; neither sweep of `calculate_flip_prob` is abandoned.
Soundness: `Qmc.Rvb.Kernel.moveOKb_sound`. -/
def moveOKb (E : Ising) (N : Nat) (R : Region) (c c' : Config) : Bool :=
  isRvbMove E c c' R && (c.state.length == N) && decide (Consistent c) && legalB (isingHamM E) c &&
    regionOKb E c R && !(rvbCodeMult E c R).2 && !(rvbCodeMult E c' R).2

end Rvb
end Qmc
