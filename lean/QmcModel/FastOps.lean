/-
Field-for-field executable model of `FastOpsTemplate` (src/sse/fast_ops.rs): the slot array of
linked nodes (`previous_p/next_p/previous_for_vars/next_for_vars`), `n`, `p_ends`, `var_ends`,
`bond_counters`; the cursor `FastOpMutateArgs` (`last_p`, `last_vars`, `last_rels`,
`subvar_mapping`, `unfilled`); `mutate_p`, `mutate_subsection`, `mutate_subsection_ops` (both
branches), `get_empty_args`, `fill_args_at_p` (through `iter_ops_above_p`), `set_cutoff`,
`clear_and_install_ops`/`new_from_ops`, and every getter.  Core Lean only.

Also here (the driver needs them): the direct scans of a naive slot array (`prevOcc`, `nextOcc`,
…), `canon` (recompute every pointer by scanning), the mutation language `Mut`, `applyC`
(on the container) and `applyA` (on the naive slot list).

Conventions.  Where the Rust would panic (index out of range, `unwrap` of `None`, a failed
`debug_assert`) the model is total and takes a harmless default (a write to a missing node is a
no-op, a missing read is `none`/`0`).  Those points are excluded by `Mut.Valid`
(QmcProofs/FastOps*.lean), which lists exactly the conditions the Rust checks.
`fill_args_at_p_with_hint` is modelled by its scan specification only (DESIGN §2 C11).
-/
import QmcModel.Basic

namespace Qmc

/-! ## direct scans over a predicate on positions -/

/-- last position `< q` satisfying `P` -/
def prevOcc (P : Nat → Bool) : Nat → Option Nat
  | 0 => none
  | q + 1 => if P q then some q else prevOcc P q

/-- first position in `[k, k + fuel)` satisfying `P` -/
def nextFrom (P : Nat → Bool) (k : Nat) : Nat → Option Nat
  | 0 => none
  | fuel + 1 => if P k then some k else nextFrom P (k + 1) fuel

/-- first position in `(q, L)` satisfying `P` -/
def nextOcc (P : Nat → Bool) (L q : Nat) : Option Nat := nextFrom P (q + 1) (L - (q + 1))

def firstOcc (P : Nat → Bool) (L : Nat) : Option Nat := nextFrom P 0 L
def lastOcc (P : Nat → Bool) (L : Nat) : Option Nat := prevOcc P L

/-- the op stored at `q` in a naive slot array -/
def slotAt (s : Slots) (q : Nat) : Option Op := (s[q]?).join

/-- slot `q` holds an op -/
def occAt (s : Slots) (q : Nat) : Bool := (slotAt s q).isSome

/-- slot `q` holds an op acting on variable `v` -/
def occVAt (s : Slots) (v : Nat) (q : Nat) : Bool :=
  match slotAt s q with
  | some op => op.vars.contains v
  | none => false

/-- `PRel { p, relv }` -/
structure PRel where
  p : Nat
  relv : Nat
  deriving DecidableEq, Repr, Inhabited

/-- position `q` decorated with the relative index of `v` in the op at `q` -/
def relAt (s : Slots) (v : Nat) (q : Nat) : PRel :=
  ⟨q, match slotAt s q with | some op => op.vars.idxOf v | none => 0⟩

def prevRel (s : Slots) (v q : Nat) : Option PRel := (prevOcc (occVAt s v) q).map (relAt s v)
def nextRel (s : Slots) (v q : Nat) : Option PRel := (nextOcc (occVAt s v) s.length q).map (relAt s v)
def firstRel (s : Slots) (v : Nat) : Option PRel := (firstOcc (occVAt s v) s.length).map (relAt s v)
def lastRel (s : Slots) (v : Nat) : Option PRel := (lastOcc (occVAt s v) s.length).map (relAt s v)

def zipOpt (a : Option α) (b : Option β) : Option (α × β) :=
  match a, b with
  | some x, some y => some (x, y)
  | _, _ => none

/-- positions holding an op, increasing -/
def occPositions (s : Slots) : List Nat := (List.range s.length).filter (occAt s)

/-! ## the container -/

/-- `FastOpNodeTemplate` -/
structure Node where
  op : Op
  previousP : Option Nat
  nextP : Option Nat
  previousForVars : List (Option PRel)
  nextForVars : List (Option PRel)
  deriving DecidableEq, Repr

/-- `FastOpsTemplate` (the allocator is not part of the property) -/
structure FastOps where
  ops : List (Option Node)
  n : Nat
  pEnds : Option (Nat × Nat)
  varEnds : List (Option (PRel × PRel))
  bondCounters : Option (List Nat)
  deriving DecidableEq, Repr

/-- `FastOpMutateArgs`; `subvarMapping = (vars→subvars, subvars)`, `usize::MAX` = `none` -/
structure Cursor where
  lastP : Option Nat
  lastVars : List (Option Nat)
  lastRels : List (Option Nat)
  subvarMapping : Option (List (Option Nat) × List Nat)
  unfilled : Nat
  deriving DecidableEq, Repr

namespace FastOps

/-- `new_from_nvars_and_nbonds` -/
def new (nvars : Nat) (nbonds : Option Nat) : FastOps :=
  { ops := [], n := 0, pEnds := none, varEnds := List.replicate nvars none,
    bondCounters := nbonds.map (fun k => List.replicate k 0) }

/-- the abstraction: forget every pointer -/
def abs (c : FastOps) : Slots := c.ops.map (fun o => o.map (·.op))

/-- `get_node_ref(p)` (`none` also when out of range, where the Rust indexes and panics) -/
def getNode (c : FastOps) (p : Nat) : Option Node := (c.ops[p]?).join

/-! ### getters -/
def getCutoff (c : FastOps) : Nat := c.ops.length
def getN (c : FastOps) : Nat := c.n
def getNvars (c : FastOps) : Nat := c.varEnds.length
def getPth (c : FastOps) (p : Nat) : Option Op := (c.getNode p).map (·.op)
def getFirstP (c : FastOps) : Option Nat := c.pEnds.map (·.1)
def getLastP (c : FastOps) : Option Nat := c.pEnds.map (·.2)
def varEnd (c : FastOps) (v : Nat) : Option (PRel × PRel) := (c.varEnds[v]?).join
def getFirstPForVar (c : FastOps) (v : Nat) : Option PRel := (c.varEnd v).map (·.1)
def getLastPForVar (c : FastOps) (v : Nat) : Option PRel := (c.varEnd v).map (·.2)
def doesVarHaveOps (c : FastOps) (v : Nat) : Bool := (c.getFirstPForVar v).isSome
def getPreviousP (nd : Node) : Option Nat := nd.previousP
def getNextP (nd : Node) : Option Nat := nd.nextP
def getPreviousPForRelVar (k : Nat) (nd : Node) : Option PRel := (nd.previousForVars[k]?).join
def getNextPForRelVar (k : Nat) (nd : Node) : Option PRel := (nd.nextForVars[k]?).join
/-- `get_previous_p_for_var(var, node)`: `none` = `Err("Variable not present on given node")` -/
def getPreviousPForVar (v : Nat) (nd : Node) : Option (Option PRel) :=
  (nd.op.indexOfVar v).map (fun k => getPreviousPForRelVar k nd)
/-- `get_next_p_for_var(var, node)`: `none` = `Err(…)` -/
def getNextPForVar (v : Nat) (nd : Node) : Option (Option PRel) :=
  (nd.op.indexOfVar v).map (fun k => getNextPForRelVar k nd)

/-- `iterate_ops(0, cutoff, 0, count bond)`: walk `next_p` from the head (fuel = cutoff) -/
def countWalk (c : FastOps) (bond : Nat) : Nat → Option Nat → Nat → Nat
  | 0, _, acc => acc
  | _ + 1, none, acc => acc
  | fuel + 1, some p, acc =>
    if p > c.ops.length then acc else
    match c.getNode p with
    | some nd => countWalk c bond fuel nd.nextP (if nd.op.bond == bond then acc + 1 else acc)
    | none => acc

/-- `get_count` -/
def getCount (c : FastOps) (bond : Nat) : Nat :=
  match c.bondCounters with
  | some bc => bc.getD bond 0
  | none => countWalk c bond c.ops.length c.getFirstP 0

/-- `get_nth_p` (`n % self.n`, then follow `next_p`); `0` stands for the panics -/
def getNthP (c : FastOps) (k : Nat) : Nat :=
  Nat.rec (c.getFirstP.getD 0) (fun _ p => ((c.getNode p).bind (·.nextP)).getD 0) (k % c.n)

/-! ### small writes -/
def modifyNode (ops : List (Option Node)) (q : Nat) (f : Node → Node) : List (Option Node) :=
  ops.modify q (Option.map f)

def setNextP (c : FastOps) (q : Nat) (x : Option Nat) : FastOps :=
  { c with ops := modifyNode c.ops q (fun nd => { nd with nextP := x }) }
def setPrevP (c : FastOps) (q : Nat) (x : Option Nat) : FastOps :=
  { c with ops := modifyNode c.ops q (fun nd => { nd with previousP := x }) }
def setNextFor (c : FastOps) (q k : Nat) (x : Option PRel) : FastOps :=
  { c with ops := modifyNode c.ops q (fun nd => { nd with nextForVars := nd.nextForVars.set k x }) }
def setPrevFor (c : FastOps) (q k : Nat) (x : Option PRel) : FastOps :=
  { c with ops := modifyNode c.ops q (fun nd => { nd with previousForVars := nd.previousForVars.set k x }) }
def setVarEnd (c : FastOps) (v : Nat) (x : Option (PRel × PRel)) : FastOps :=
  { c with varEnds := c.varEnds.set v x }
def decrBond (c : FastOps) (b : Nat) : FastOps :=
  { c with bondCounters := c.bondCounters.map (fun l => l.modify b (· - 1)) }
def incrBond (c : FastOps) (b : Nat) : FastOps :=
  { c with bondCounters := c.bondCounters.map (fun l => l.modify b (· + 1)) }
def setPEnds (c : FastOps) (e : Option (Nat × Nat)) : FastOps := { c with pEnds := e }
def setN (c : FastOps) (k : Nat) : FastOps := { c with n := k }
/-- `self.ops[p] = x` -/
def setOp (c : FastOps) (p : Nat) (x : Option Node) : FastOps := { c with ops := c.ops.set p x }

end FastOps

namespace Cursor
/-- `var_to_subvar` -/
def varToSubvar (a : Cursor) (v : Nat) : Option Nat :=
  match a.subvarMapping with
  | none => some v
  | some (all, _) => (all[v]?).join

/-- `subvar_to_var` (index panic modelled by variable 0) -/
def subvarToVar (a : Cursor) (i : Nat) : Nat :=
  match a.subvarMapping with
  | none => i
  | some (_, subvars) => subvars.getD i 0

def lastVar (a : Cursor) (sub : Nat) : Option Nat := (a.lastVars[sub]?).join
def lastRel (a : Cursor) (sub : Nat) : Option Nat := (a.lastRels[sub]?).join
/-- `args.last_vars[subvar].zip(args.last_rels[subvar]).map(PRel::from)` for variable `v`
(`unwrap` of `var_to_subvar` modelled by subvar 0 … excluded by `Valid`) -/
def lastPRel (a : Cursor) (v : Nat) : Option PRel :=
  let sub := (a.varToSubvar v).getD 0
  (zipOpt (a.lastVar sub) (a.lastRel sub)).map (fun x => ⟨x.1, x.2⟩)
end Cursor

namespace FastOps

/-! ### `mutate_p` -/

/-- global part of "Uninstall the old op" (`node` is the node taken out of slot `p`) -/
def uninstallGlobal (c : FastOps) (node : Node) (a : Cursor) : FastOps :=
  let c1 :=
    match a.lastP with
    | some lp => c.setNextP lp node.nextP
    | none =>
      c.setPEnds (match c.pEnds with
          | some (_, tail) => node.nextP.map (fun nh => (nh, tail))
          | none => none)
  let hasNext := match node.nextP with
    | some q => (c1.getNode q).isSome
    | none => false
  match hasNext with
  | true => c1.setPrevP (node.nextP.getD 0) a.lastP
  | false =>
    c1.setPEnds (match c1.pEnds with
        | some (head, _) => node.previousP.map (fun nt => (head, nt))
        | none => none)

/-- one iteration `(relv, v)` of "Now do the same for variables" -/
def uninstallVar (node : Node) (a : Cursor) (c : FastOps) (vr : Nat × Nat) : FastOps :=
  let v := vr.1
  let relv := vr.2
  let nxt := (node.nextForVars[relv]?).join
  let prv := (node.previousForVars[relv]?).join
  let c1 :=
    match a.lastPRel v with
    | some pr => c.setNextFor pr.p pr.relv nxt
    | none =>
      c.setVarEnd v (match c.varEnd v with
        | some (_, tail) => nxt.map (fun nh => (nh, tail))
        | none => none)
  match nxt with
  | some nx => c1.setPrevFor nx.p nx.relv (a.lastPRel v)
  | none =>
    c1.setVarEnd v (match c1.varEnd v with
      | some (head, _) => prv.map (fun nt => (head, nt))
      | none => none)

/-- the whole uninstall branch: global chain, per-variable chains, `n`, counter -/
def uninstall (c : FastOps) (node : Node) (a : Cursor) : FastOps :=
  let c1 := uninstallGlobal c node a
  let c2 := node.op.vars.zipIdx.foldl (uninstallVar node a) c1
  let c3 := c2.setN (c2.n - 1)
  c3.decrBond node.op.bond

/-- `(prev_p_and_rel, next_p_and_rel)` for variable `v` of the op being installed -/
def installLinks (c : FastOps) (a : Cursor) (v : Nat) : Option PRel × Option PRel :=
  let sub := (a.varToSubvar v).getD 0
  let prev := a.lastPRel v
  let next :=
    match a.lastVar sub with
    | some pp =>
      match c.getNode pp with
      | some pn => (pn.nextForVars[(pn.op.indexOfVar v).getD 0]?).join
      | none => none
    | none =>
      match c.varEnd v with
      | some (head, _) => some head
      | none => none
  (prev, next)

/-- one iteration of "Now adjust other nodes and ends", `prevs` half -/
def installPrevWrite (p : Nat) (c : FastOps) (x : (Option PRel × Nat) × Nat) : FastOps :=
  let prev := x.1.1
  let v := x.1.2
  let relv := x.2
  match prev with
  | some pr => c.setNextFor pr.p pr.relv (some ⟨p, relv⟩)
  | none =>
    c.setVarEnd v (match c.varEnd v with
      | some (_, tail) => some (⟨p, relv⟩, tail)
      | none => some (⟨p, relv⟩, ⟨p, relv⟩))

/-- … `nexts` half -/
def installNextWrite (p : Nat) (c : FastOps) (x : (Option PRel × Nat) × Nat) : FastOps :=
  let next := x.1.1
  let v := x.1.2
  let relv := x.2
  match next with
  | some nx => c.setPrevFor nx.p nx.relv (some ⟨p, relv⟩)
  | none =>
    c.setVarEnd v (match c.varEnd v with
      | some (head, _) => some (head, ⟨p, relv⟩)
      | none => some (⟨p, relv⟩, ⟨p, relv⟩))

/-- the `next_p` the new node receives -/
def installNextP (c : FastOps) (a : Cursor) : Option Nat :=
  match a.lastP with
  | some lp => (c.getNode lp).bind (·.nextP)
  | none => c.pEnds.map (·.1)

/-- "Based on what these were set to, adjust the p_ends and neighboring nodes", the counter,
the slot write and `n += 1` -/
def installGlobalCore (c : FastOps) (p : Nat) (node : Node) : FastOps :=
  let c1 :=
    match node.previousP with
    | some prev => c.setNextP prev (some p)
    | none =>
      c.setPEnds (match c.pEnds with
          | some (_, tail) => some (p, tail)
          | none => some (p, p))
  let c2 :=
    match node.nextP with
    | some next => c1.setPrevP next (some p)
    | none =>
      c1.setPEnds (match c1.pEnds with
          | some (head, _) => some (head, p)
          | none => some (p, p))
  let c3 := c2.incrBond node.op.bond
  (c3.setOp p (some node)).setN (c3.n + 1)

/-- global part of "Install the new one" -/
def installGlobal (c : FastOps) (p : Nat) (op : Op) (prevs nexts : List (Option PRel))
    (a : Cursor) : FastOps :=
  installGlobalCore c p
    { op := op, previousP := a.lastP, nextP := installNextP c a, previousForVars := prevs,
      nextForVars := nexts }

/-- the whole install branch -/
def install (c : FastOps) (p : Nat) (op : Op) (a : Cursor) : FastOps :=
  let links := op.vars.map (installLinks c a)
  let prevs := links.map (·.1)
  let nexts := links.map (·.2)
  let c1 := ((prevs.zip op.vars).zipIdx).foldl (installPrevWrite p) c
  let c2 := ((nexts.zip op.vars).zipIdx).foldl (installNextWrite p) c1
  installGlobal c2 p op prevs nexts a

/-- "quick install": same variable list, links kept, two counters moved -/
def fastInstall (c : FastOps) (p : Nat) (old : Node) (op : Op) : FastOps :=
  let node : Node := { old with op := op }
  let c1 := (c.decrBond old.op.bond).incrBond op.bond
  c1.setOp p (some node)

/-- the container part of `mutate_p` once the callback has answered `Some(new)` -/
def change (c : FastOps) (p : Nat) (new : Option Op) (a : Cursor) : FastOps :=
  let old := c.getNode p
  let c0 := c.setOp p none
  let sameVars :=
    match new, old with
    | some o, some nd => nd.op.vars == o.vars
    | _, _ => false
  if sameVars then
    match new, old with
    | some o, some nd => fastInstall c0 p nd o
    | _, _ => c0
  else
    let c1 := match old with
      | some nd => uninstall c0 nd a
      | none => c0
    match new with
    | some o => install c1 p o a
    | none => c1

/-- tail of `mutate_p`: advance the cursor over slot `p` -/
def advance (c : FastOps) (p : Nat) (a : Cursor) : Cursor :=
  match c.getPth p with
  | none => a
  | some op =>
    let a' := op.vars.zipIdx.foldl (fun (a : Cursor) (vr : Nat × Nat) =>
      match a.varToSubvar vr.1 with
      | some sub => { a with lastVars := a.lastVars.set sub (some p), lastRels := a.lastRels.set sub (some vr.2) }
      | none => a) a
    { a' with lastP := some p }

/-- `mutate_p` with the callback's answer already computed -/
def mutatePWith (c : FastOps) (p : Nat) (new : Option (Option Op)) (a : Cursor) : FastOps × Cursor :=
  let c' := match new with
    | none => c
    | some x => c.change p x a
  (c', advance c' p a)

/-- `mutate_p(f, p, t, args)` -/
def mutateP {τ : Type} (c : FastOps) (f : FastOps → Option Op → τ → Option (Option Op) × τ)
    (p : Nat) (t : τ) (a : Cursor) : FastOps × Cursor × τ :=
  let r := f c (c.getPth p) t
  let ca := c.mutatePWith p r.1 a
  (ca.1, ca.2, r.2)

/-! ### cursor construction -/

/-- `get_empty_args(SubvarAccess::All)` -/
def getEmptyArgsAll (c : FastOps) : Cursor :=
  { lastP := none
    lastVars := List.replicate c.getNvars none
    lastRels := List.replicate c.getNvars none
    subvarMapping := none
    unfilled := (c.varEnds.filter Option.isSome).length }

/-- `get_empty_args(SubvarAccess::Varlist(vars))` -/
def getEmptyArgsVarlist (c : FastOps) (vars : List Nat) : Cursor :=
  { lastP := none
    lastVars := List.replicate vars.length none
    lastRels := List.replicate vars.length none
    subvarMapping := some
      (vars.zipIdx.foldl (fun (m : List (Option Nat)) vi => m.set vi.1 (some vi.2))
        (List.replicate c.getNvars none), vars)
    unfilled := (vars.filter (fun v => (c.varEnd v).isSome)).length }

/-- `get_empty_args(SubvarAccess::Args(args))`: only `unfilled` is recomputed -/
def getEmptyArgsFromArgs (c : FastOps) (a : Cursor) : Cursor :=
  { a with unfilled := ((List.range a.lastVars.length).filter (fun sub =>
      (a.lastVar sub).isNone && (c.varEnd (a.subvarToVar sub)).isSome)).length }

/-- first closure of `fill_args_at_p` (ops strictly above `p`… i.e. earlier) -/
def fillF (p : Nat) (node : Node) (a : Cursor) : Cursor × Bool :=
  let a0 := if a.lastP.isNone then { a with lastP := some p } else a
  let a1 := node.op.vars.zipIdx.foldl (fun (a : Cursor) (vr : Nat × Nat) =>
    match a.varToSubvar vr.1 with
    | some sub =>
      if (a.lastVar sub).isNone then
        { a with lastVars := a.lastVars.set sub (some p), lastRels := a.lastRels.set sub (some vr.2),
                 unfilled := a.unfilled - 1 }
      else a
    | none => a) a0
  (a1, decide (a1.unfilled > 0))

/-- second closure of `fill_args_at_p` (the op sitting exactly at `p`) -/
def fillAtP (node : Node) (a : Cursor) : Cursor × Bool :=
  let a1 := (node.op.vars.zip node.previousForVars).foldl (fun (a : Cursor) (vp : Nat × Option PRel) =>
    match vp.2 with
    | none => a
    | some prel =>
      match a.varToSubvar vp.1 with
      | some sub =>
        if (a.lastVar sub).isNone then
          { a with unfilled := a.unfilled - 1, lastVars := a.lastVars.set sub (some prel.p),
                   lastRels := a.lastRels.set sub (some prel.relv) }
        else a
      | none => a) a
  let a2 := { a1 with lastP := node.previousP }
  (a2, decide (a2.unfilled > 0))

/-- the `while let Some(p) = node_p` loop of `iter_ops_above_p` (fuel bounds the walk) -/
def fillWalk (c : FastOps) : Nat → Option Nat → Cursor → Cursor
  | 0, _, a => a
  | _ + 1, none, a => a
  | fuel + 1, some q, a =>
    match c.getNode q with
    | none => a
    | some node =>
      let r := fillF q node a
      if r.2 then fillWalk c fuel node.previousP r.1 else r.1

/-- last occupied slot strictly below `p`, found by scanning the array downwards -/
def scanDown (c : FastOps) (p : Nat) : Option Nat := prevOcc (fun q => (c.getNode q).isSome) p

/-- `fill_args_at_p(p, empty_args)` -/
def fillArgsAtP (c : FastOps) (p : Nat) (a : Cursor) : Cursor :=
  if a.unfilled > 0 then
    match c.getNode p with
    | none => fillWalk c (p + 1) (scanDown c p) a
    | some node =>
      let r := fillAtP node a
      if r.2 then fillWalk c (p + 1) node.previousP r.1 else r.1
  else a

/-- `fill_args_at_p_with_hint`: modelled by its scan specification (not its walk). -/
def fillArgsWithHintSpec (c : FastOps) (p : Nat) (a : Cursor) (vars : List Nat) : Cursor :=
  let s := c.abs
  let prels := vars.map (fun v => prevRel s v p)
  { a with lastP := prevOcc (occAt s) p
           lastVars := (prels.zipIdx.foldl (fun (l : List (Option Nat)) xi =>
              match xi.1 with | some pr => l.set xi.2 (some pr.p) | none => l) a.lastVars)
           lastRels := (prels.zipIdx.foldl (fun (l : List (Option Nat)) xi =>
              match xi.1 with | some pr => l.set xi.2 (some pr.relv) | none => l) a.lastRels) }

/-! ### sweeps -/

def grow (c : FastOps) (k : Nat) : FastOps :=
  if k > c.ops.length then { c with ops := c.ops ++ List.replicate (k - c.ops.length) none } else c

/-- `set_cutoff` -/
def setCutoff (c : FastOps) (k : Nat) : FastOps := c.grow k

/-- `(pstart..pend).fold(…, mutate_p)` -/
def sweepLoop {τ : Type} (f : FastOps → Option Op → τ → Option (Option Op) × τ) :
    Nat → Nat → FastOps → Cursor → τ → FastOps × Cursor × τ
  | _, 0, c, a, t => (c, a, t)
  | p, k + 1, c, a, t =>
    let r := c.mutateP f p t a
    sweepLoop f (p + 1) k r.1 r.2.1 r.2.2

/-- `mutate_subsection(pstart, pend, t, f, args)` -/
def mutateSubsection {τ : Type} (c : FastOps) (pstart pend : Nat) (t : τ)
    (f : FastOps → Option Op → τ → Option (Option Op) × τ) (args : Option Cursor) : FastOps × τ :=
  let c := c.grow pend
  let a := match args with
    | some a => a
    | none => c.fillArgsAtP pstart c.getEmptyArgsAll
  let r := sweepLoop f pstart (pend - pstart) c a t
  (r.1, r.2.2)

/-- first occupied slot at or after `k` (array scan) -/
def firstNodeFrom (c : FastOps) (k : Nat) : Option Nat :=
  nextFrom (fun q => (c.getNode q).isSome) k (c.ops.length - k)

/-- the `while let Some(node_p) = p` loop of `mutate_subsection_ops`, all-variables branch -/
def opsWalk {τ : Type} (f : FastOps → Op → Nat → τ → Option (Option Op) × τ) (pend : Nat) :
    Nat → Option Nat → FastOps → Cursor → τ → FastOps × Cursor × τ
  | 0, _, c, a, t => (c, a, t)
  | _ + 1, none, c, a, t => (c, a, t)
  | fuel + 1, some np, c, a, t =>
    if np > pend then (c, a, t) else
    match c.getPth np with
    | none => (c, a, t)
    | some op =>
      let r := f c op np t
      let ca := c.mutatePWith np r.1 a
      opsWalk f pend fuel ((ca.1.getNode np).bind (·.nextP)) ca.1 ca.2 r.2

/-- insert into an increasing list (the `BinaryHeap<Reverse<usize>>`, observed only through
pop-min) -/
def heapPush (h : List Nat) (x : Nat) : List Nat :=
  match h with
  | [] => [x]
  | y :: t => if x ≤ y then x :: y :: t else y :: heapPush t x

/-- the heap loop of `mutate_subsection_ops`, sub-variable branch -/
def subOpsWalk {τ : Type} (f : FastOps → Op → Nat → τ → Option (Option Op) × τ) (pend : Nat) :
    Nat → List Nat → FastOps → Cursor → τ → FastOps × Cursor × τ
  | 0, _, c, a, t => (c, a, t)
  | _ + 1, [], c, a, t => (c, a, t)
  | fuel + 1, p :: h, c, a, t =>
    if p > pend then (c, a, t) else
    let h := h.dropWhile (· ≤ p)
    match c.getNode p with
    | none => (c, a, t)
    | some node =>
      let h := node.op.vars.zipIdx.foldl (fun (h : List Nat) (vr : Nat × Nat) =>
        match a.varToSubvar vr.1 with
        | some _ => match getNextPForRelVar vr.2 node with
          | some prel => heapPush h prel.p
          | none => h
        | none => h) h
      let a := { a with lastP := node.previousP }
      let r := f c node.op p t
      let ca := c.mutatePWith p r.1 a
      subOpsWalk f pend fuel h ca.1 ca.2 r.2

/-- `mutate_subsection_ops(pstart, pend, t, f, args)` -/
def mutateSubsectionOps {τ : Type} (c : FastOps) (pstart pend : Nat) (t : τ)
    (f : FastOps → Op → Nat → τ → Option (Option Op) × τ) (args : Option Cursor) : FastOps × τ :=
  let c := c.grow pend
  let a := match args with
    | some a => a
    | none => c.fillArgsAtP pstart c.getEmptyArgsAll
  match a.subvarMapping with
  | some (_, vars) =>
    let prels := (a.lastVars.zip a.lastRels).map (fun x => zipOpt x.1 x.2)
    let h := (vars.zip prels).foldl (fun (h : List Nat) (vp : Nat × Option (Nat × Nat)) =>
      match vp.2 with
      | some (lp, lr) =>
        match (c.getNode lp).bind (getNextPForRelVar lr) with
        | some prel => heapPush h prel.p
        | none => h
      | none =>
        match c.varEnd vp.1 with
        | some (start, _) => heapPush h start.p
        | none => h) []
    let r := subOpsWalk f pend (c.ops.length + 1) h c a t
    (r.1, r.2.2)
  | none =>
    let start := c.pEnds.bind (fun (se : Nat × Nat) =>
      if pstart ≤ se.1 then some se.1
      else if se.1 > se.2 then none
      else c.firstNodeFrom pstart)
    let r := opsWalk f pend (c.ops.length + 1) start c a t
    (r.1, r.2.2)

/-! ### `new_from_ops` / `clear_and_install_ops` -/

/-- the container write for one variable in `clear_and_install_ops` -/
def installVarWrite (p : Nat) (c : FastOps) (lastTup : Option PRel) (v relv : Nat) : FastOps :=
  match lastTup with
  | some pr => c.setNextFor pr.p pr.relv (some ⟨p, relv⟩)
  | none => c.setVarEnd v (some (⟨p, relv⟩, ⟨p, relv⟩))

/-- one variable of one step of `clear_and_install_ops`: accumulator = (container, last_vars,
last_rels, previous_for_vars collected so far) -/
def installVarStep (p : Nat)
    (acc : FastOps × List (Option Nat) × List (Option Nat) × List (Option PRel)) (vr : Nat × Nat) :
    FastOps × List (Option Nat) × List (Option Nat) × List (Option PRel) :=
  let c := acc.1
  let lv := acc.2.1
  let lr := acc.2.2.1
  let v := vr.1
  let relv := vr.2
  let lastTup := (zipOpt ((lv[v]?).join) ((lr[v]?).join)).map (fun x => (⟨x.1, x.2⟩ : PRel))
  (installVarWrite p c lastTup v relv, lv.set v (some p), lr.set v (some relv), acc.2.2.2 ++ [lastTup])

/-- `last_node.next_p = Some(p)` or `self.p_ends = Some((p, p))` -/
def installLinkLast (c : FastOps) (lastP : Option Nat) (p : Nat) : FastOps :=
  match lastP with
  | some lp => c.setNextP lp (some p)
  | none => c.setPEnds (some (p, p))

/-- one step of the fold in `clear_and_install_ops` -/
def installStep (st : FastOps × Option Nat × List (Option Nat) × List (Option Nat)) (po : Nat × Op) :
    FastOps × Option Nat × List (Option Nat) × List (Option Nat) :=
  let c := st.1
  let lastP := st.2.1
  let p := po.1
  let op := po.2
  let c1 := installLinkLast c lastP p
  let r := op.vars.zipIdx.foldl (installVarStep p) (c1, st.2.2.1, st.2.2.2, [])
  let c2 := r.1
  let node : Node :=
    { op := op, previousP := lastP, nextP := none, previousForVars := r.2.2.2,
      nextForVars := List.replicate op.vars.length none }
  ((c2.setOp p (some node)).setN (c2.n + 1), some p, r.2.1, r.2.2.1)

/-- `self.ops.clear(); resize_with(opslen, None); self.var_ends … None; self.p_ends = None` -/
def clearForInstall (c : FastOps) (opslen : Nat) : FastOps :=
  { c with ops := List.replicate opslen none, varEnds := List.replicate c.varEnds.length none,
           pEnds := none }

/-- the two fix-ups after the fold: tail of `p_ends`, tails of `var_ends` -/
def fixEndTails (c : FastOps) (lastP : Option Nat) (lv lr : List (Option Nat)) : FastOps :=
  let c2 := c.setPEnds (c.pEnds.map (fun (he : Nat × Nat) => (he.1, lastP.getD 0)))
  let fix : Option (PRel × PRel) × Option Nat × Option Nat → Option (PRel × PRel) := fun ev =>
    match ev.1 with
    | some (h, _) => some (h, ⟨ev.2.1.getD 0, ev.2.2.getD 0⟩)
    | none => none
  { c2 with varEnds := (c2.varEnds.zip (lv.zip lr)).map fix }

/-- `clear_and_install_ops` (input must be strictly increasing in `p`, asserted by the Rust) -/
def clearAndInstallOps (c : FastOps) (l : List (Nat × Op)) : FastOps :=
  if l.isEmpty then c else
  let nvars := c.varEnds.length
  let opslen := (l.map (·.1)).foldl max 0 + 1
  let r := l.foldl installStep
    (c.clearForInstall opslen, none, List.replicate nvars none, List.replicate nvars none)
  fixEndTails r.1 r.2.1 r.2.2.1 r.2.2.2

/-- the check `assert!(last_p.map(|last_p| p > last_p).unwrap_or(true))` made for every element of
the list against its predecessor: positions strictly increasing (decidable) -/
def strictIncr : List Nat → Bool
  | [] => true
  | [_] => true
  | a :: b :: t => decide (a < b) && strictIncr (b :: t)

/-- `FastOps::new_from_ops` with the `assert!` of `clear_and_install_ops`: `none` = panic (the list is
rejected) exactly when the positions are not strictly increasing -/
def newFromOpsChecked (nvars : Nat) (l : List (Nat × Op)) : Option FastOps :=
  if strictIncr (l.map (·.1)) then some ((new nvars none).clearAndInstallOps l) else none

/-- `FastOps::new_from_ops(nvars, ps_and_ops)` -/
def newFromOps (nvars : Nat) (l : List (Nat × Op)) : FastOps :=
  (new nvars none).clearAndInstallOps l

end FastOps

/-! ## canonical container: every pointer recomputed by scanning the slots -/

def canonNode (s : Slots) (q : Nat) (op : Op) : Node :=
  { op := op
    previousP := prevOcc (occAt s) q
    nextP := nextOcc (occAt s) s.length q
    previousForVars := op.vars.map (fun v => prevRel s v q)
    nextForVars := op.vars.map (fun v => nextRel s v q) }

def canonEnds (s : Slots) : Option (Nat × Nat) :=
  zipOpt (firstOcc (occAt s) s.length) (lastOcc (occAt s) s.length)

def canonVarEnd (s : Slots) (v : Nat) : Option (PRel × PRel) :=
  zipOpt (firstRel s v) (lastRel s v)

def canon (nvars : Nat) (nb : Option Nat) (s : Slots) : FastOps :=
  { ops := (List.range s.length).map (fun q => (slotAt s q).map (canonNode s q))
    n := countOps s
    pEnds := canonEnds s
    varEnds := (List.range nvars).map (canonVarEnd s)
    bondCounters := nb.map (fun k => (List.range k).map (countBond s)) }

/-- the scan cursor at `p` (what `fill_args_at_p(p, get_empty_args(All))` must produce), except
`unfilled` which is bookkeeping of the walk -/
def cursorByScan (nvars : Nat) (s : Slots) (p : Nat) (unfilled : Nat) : Cursor :=
  { lastP := prevOcc (occAt s) p
    lastVars := (List.range nvars).map (fun v => (prevRel s v p).map (·.p))
    lastRels := (List.range nvars).map (fun v => (prevRel s v p).map (·.relv))
    subvarMapping := none
    unfilled := unfilled }

/-! ## the mutation language (public entry points) -/

/-- which `SubvarAccess` the args of a sub-sweep are built from -/
inductive ArgSrc where
  /-- `SubvarAccess::All` -/
  | all
  /-- `SubvarAccess::Varlist(vars)` -/
  | varlist (vars : List Nat)

/-- `get_empty_args(src)`, optionally passed once more through `SubvarAccess::Args` -/
def FastOps.emptyArgsOf (c : FastOps) (src : ArgSrc) (viaArgs : Bool) : Cursor :=
  let e := match src with
    | .all => c.getEmptyArgsAll
    | .varlist vs => c.getEmptyArgsVarlist vs
  if viaArgs then c.getEmptyArgsFromArgs e else e

/-- public mutations of a container. `τ` is the accumulator type threaded through callbacks. -/
inductive Mut (τ : Type) where
  /-- `get_empty_args(All)`, `fill_args_at_p(p)`, `mutate_p` with a callback answering `Some(new)` -/
  | setSlot (p : Nat) (new : Option Op)
  /-- `DiagonalUpdater::mutate_ps` = `mutate_subsection(pstart, pend, t, f, None)` -/
  | sweep (pstart pend : Nat) (f : FastOps → Option Op → τ → Option (Option Op) × τ) (t : τ)
  /-- `DiagonalUpdater::mutate_ops` = `mutate_subsection_ops(pstart, pend, t, f, None)` -/
  | sweepOps (pstart pend : Nat) (f : FastOps → Op → Nat → τ → Option (Option Op) × τ) (t : τ)
  /-- `set_cutoff` -/
  | setCutoff (k : Nat)
  /-- `let a = get_empty_args(src); let a = fill_args_at_p(pstart, a);
  mutate_subsection(pstart, pend, t, f, Some(a))` (the NON-hint fill; `src` = All or a Varlist) -/
  | sweepArgs (src : ArgSrc) (viaArgs : Bool) (pstart pend : Nat)
      (f : FastOps → Option Op → τ → Option (Option Op) × τ) (t : τ)
  /-- the same with `get_empty_args(All)` and `mutate_subsection_ops(…, Some(a))` -/
  | sweepOpsArgsAll (viaArgs : Bool) (pstart pend : Nat)
      (f : FastOps → Op → Nat → τ → Option (Option Op) × τ) (t : τ)

/-- run a mutation on the container -/
def applyC {τ : Type} (c : FastOps) : Mut τ → FastOps
  | .setSlot p new =>
    (c.mutatePWith p (some new) (c.fillArgsAtP p c.getEmptyArgsAll)).1
  | .sweep ps pe f t => (c.mutateSubsection ps pe t f none).1
  | .sweepOps ps pe f t => (c.mutateSubsectionOps ps pe t f none).1
  | .setCutoff k => c.setCutoff k
  | .sweepArgs src via ps pe f t =>
    (c.mutateSubsection ps pe t f (some (c.fillArgsAtP ps (c.emptyArgsOf src via)))).1
  | .sweepOpsArgsAll via ps pe f t =>
    (c.mutateSubsectionOps ps pe t f (some (c.fillArgsAtP ps (c.emptyArgsOf .all via)))).1

/-- naive slot array: grow -/
def growA (s : Slots) (k : Nat) : Slots :=
  if k > s.length then s ++ List.replicate (k - s.length) none else s

def writeA (s : Slots) (p : Nat) (new : Option (Option Op)) : Slots :=
  match new with
  | none => s
  | some x => s.set p x

/-- naive sweep: the callback sees the canonical container of the current slots -/
def sweepLoopA {τ : Type} (nv : Nat) (nb : Option Nat)
    (f : FastOps → Option Op → τ → Option (Option Op) × τ) :
    Nat → Nat → Slots → τ → Slots × τ
  | _, 0, s, t => (s, t)
  | p, k + 1, s, t =>
    let r := f (canon nv nb s) (slotAt s p) t
    sweepLoopA nv nb f (p + 1) k (writeA s p r.1) r.2

/-- run a mutation on the naive slot array (`nv`, `nb`: what the callback may observe) -/
def applyA {τ : Type} (nv : Nat) (nb : Option Nat) (s : Slots) : Mut τ → Slots
  | .setSlot p new => s.set p new
  | .sweep ps pe f t => (sweepLoopA nv nb f ps (pe - ps) (growA s pe) t).1
  | .sweepOps ps pe f t =>
    let s := growA s pe
    (sweepLoopA nv nb
      (fun c o (tp : τ × Nat) =>
        match o with
        | some op => let r := f c op tp.2 tp.1; (r.1, (r.2, tp.2 + 1))
        | none => (none, (tp.1, tp.2 + 1)))
      ps (min (pe + 1) s.length - ps) s (t, ps)).1
  | .setCutoff k => growA s k
  | .sweepArgs _ _ ps pe f t => (sweepLoopA nv nb f ps (pe - ps) (growA s pe) t).1
  | .sweepOpsArgsAll _ ps pe f t =>
    let s := growA s pe
    (sweepLoopA nv nb
      (fun c o (tp : τ × Nat) =>
        match o with
        | some op => let r := f c op tp.2 tp.1; (r.1, (r.2, tp.2 + 1))
        | none => (none, (tp.1, tp.2 + 1)))
      ps (min (pe + 1) s.length - ps) s (t, ps)).1

end Qmc
