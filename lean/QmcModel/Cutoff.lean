/-
Model of the expansion-cutoff bookkeeping of both samplers (property C12). Core Lean only.

Mirrors (code as it is after `fix: cutoff growth always leaves a free slot`, 0487cbe):
* the growth rule `self.cutoff = max(self.cutoff, n + n / 2 + 1)` at its three sites
  (`QmcIsingGraph::single_diagonal_step`, `QmcIsingGraph::timestep` in src/sse/qmc_ising.rs,
  `Qmc::diagonal_update` in src/sse/qmc_runner.rs);
* the container length: `FastOps::set_cutoff` (grow only), the `resize(pend, None)` at the top of
  `mutate_subsection` (a sweep over `0..cutoff` makes the slot array at least `cutoff` long);
* a diagonal sweep only rewrites slots `p < cutoff` (insert into an empty slot / remove / keep),
  every other update (cluster, loop, RVB, free-spin refresh) edits operators in place;
* the tempering equalisation `set_op_cutoff(max_cutoff)` on every replica before swaps;
* the raw public `swap_manager_and_state` (both samplers; raises both cutoffs to the maximum after
  exchanging containers, 074d32a) and the cutoff hand-over of `IntoQmc::into_qmc`.

What a sweep decides in each slot (weights, random draws) is irrelevant for C12 and is an
arbitrary function `d : slot → occupied? → occupied?`; the theorems hold for every `d`.
-/
namespace Qmc

/-- the growth rule (all three sites) -/
def nextCutoff (c n : Nat) : Nat := max c (n + n / 2 + 1)

/-- the rule before the fix (known finding F1): `max(cutoff, n + n/2)` -/
def nextCutoffOld (c n : Nat) : Nat := max c (n + n / 2)

/-- `FastOps::set_cutoff` / the resize in `mutate_subsection`: the slot array only grows. -/
def growLen (len c : Nat) : Nat := if c > len then c else len

/-- slot array (occupied?) padded with empty slots up to length `c` -/
def growOcc (occ : List Bool) (c : Nat) : List Bool :=
  occ ++ List.replicate (c - occ.length) false

/-- rewrite slots `p < c` with `d`, leave the others alone (`start` = index of the first element) -/
def rewriteBelow (d : Nat → Bool → Bool) (c : Nat) : Nat → List Bool → List Bool
  | _, [] => []
  | start, b :: t => (if start < c then d start b else b) :: rewriteBelow d c (start + 1) t

/-- occupancy after a diagonal sweep with sampler cutoff `c` and slot decisions `d` -/
def sweepOcc (d : Nat → Bool → Bool) (c : Nat) (occ : List Bool) : List Bool :=
  rewriteBelow d c 0 (growOcc occ c)

/-- number of operators -/
def countOcc (occ : List Bool) : Nat := occ.count true

/-- The part of a sampler C12 talks about: the sampler's `cutoff` field and the container's slot
array (only which slots hold an operator). `get_n()` = `countOcc occ`, the container's
`get_cutoff()` = `occ.length`. -/
structure CSampler where
  cutoff : Nat
  occ : List Bool
  deriving Repr, DecidableEq

namespace CSampler
def n (s : CSampler) : Nat := countOcc s.occ
def len (s : CSampler) : Nat := s.occ.length

/-- `QmcIsingGraph::new_with_rng…`: empty container, `ops.set_cutoff(cutoff)`. -/
def newIsing (cutoff : Nat) : CSampler := { cutoff := cutoff, occ := growOcc [] cutoff }

/-- `Qmc::new_with_state`: `cutoff = nvars`, the container starts with no slots. -/
def newGeneric (nvars : Nat) : CSampler := { cutoff := nvars, occ := [] }

/-- `single_diagonal_step` / `diagonal_update` with an arbitrary growth rule (the code's rule is
`nextCutoff`): sweep with the current cutoff, then apply the rule to the new count. -/
def diagStepWith (rule : Nat → Nat → Nat) (d : Nat → Bool → Bool) (s : CSampler) : CSampler :=
  let occ' := sweepOcc d s.cutoff s.occ
  { cutoff := rule s.cutoff (countOcc occ'), occ := occ' }

def diagStep := diagStepWith nextCutoff

/-- A full `timestep`: the sweep, then the other updates (which never change which slots are
occupied), then the rule (Ising: at the end of `timestep`; generic: inside `diagonal_update`;
the count is the same at both points). -/
def timestep (d : Nat → Bool → Bool) (s : CSampler) : CSampler := diagStep d s

/-- `set_cutoff(c)` of both samplers: field overwritten, container grown (never shrunk). -/
def setCutoff (c : Nat) (s : CSampler) : CSampler :=
  { cutoff := c, occ := growOcc s.occ c }

/-- `Qmc::increase_cutoff_to(c)`: `set_cutoff(max(self.cutoff, c))` — a no-op on the sampler field
when `c` is not above the current cutoff (only the generic sampler has this call; the Ising
sampler and the tempering trait's `set_op_cutoff` only offer the raw `set_cutoff`). -/
def increaseCutoffTo (c : Nat) (s : CSampler) : CSampler := setCutoff (max s.cutoff c) s

/-- `Clone::clone` of either sampler, and snapshot → restore (serde round trip of the sampler with its
rng, or `SerializeQmcGraph` + `into_qmc(rng)`): the copy has the same cutoff field and the same
container.  The cutoff is a running maximum, not a function of the current operator count, so it
has to be copied / stored as it is. -/
def copy (s : CSampler) : CSampler := s

/-- Restore through a manager hook (`QmcIsingGraph::new_with_rng_with_manager_hook(.., cutoff, ..,
|_, _| saved.clone())`, `Qmc::new_with_state_with_manager_hook` + `set_cutoff(cutoff)`): the hook's
container, `ops.set_cutoff(cutoff)` (grow only), sampler field = the cutoff the user passed. -/
def restore (c : Nat) (occ : List Bool) : CSampler := { cutoff := c, occ := growOcc occ c }

/-- every operator sits in a slot below the sampler cutoff.  Weaker than `Inv`: the container may keep
trailing empty slots beyond a cutoff the user set by hand (`set_cutoff(c)` overwrites the field with ANY
`c`, also one below the current cutoff).  This is the domain of the sweep: `cutoff - n` is then the
number of free slots below the cutoff. -/
def Fits (s : CSampler) : Prop := countOcc (s.occ.drop s.cutoff) = 0

/-- decider for `Fits` (driver) -/
def fitsB (s : CSampler) : Bool := countOcc (s.occ.drop s.cutoff) == 0

/-- A rule that is applied **only when the sweep added operators** ("only a sweep which added
operators can have outgrown the cutoff" — NOT the code's rule; kept for the negative example in
QmcProps/C12.lean: it is the same function on every state the library alone produces and loses the
margin after a user-supplied cutoff). -/
def guardedStep (d : Nat → Bool → Bool) (s : CSampler) : CSampler :=
  let occ' := sweepOcc d s.cutoff s.occ
  { cutoff := if countOcc s.occ < countOcc occ' then nextCutoff s.cutoff (countOcc occ') else s.cutoff,
    occ := occ' }

/-- a run: one decision function per time step -/
def run (ds : List (Nat → Bool → Bool)) (s : CSampler) : CSampler := ds.foldl (fun s d => timestep d s) s

def runWith (rule : Nat → Nat → Nat) (ds : List (Nat → Bool → Bool)) (s : CSampler) : CSampler :=
  ds.foldl (fun s d => diagStepWith rule d s) s

/-- the samplers reached after each step of a run (for "after every step" statements) -/
def trace (ds : List (Nat → Bool → Bool)) (s : CSampler) : List CSampler :=
  match ds with
  | [] => []
  | d :: t => timestep d s :: trace t (timestep d s)

/-- every operator sits in a slot below the sampler cutoff (what makes `cutoff - n` the number of
free slots the acceptance ratios need) -/
def Inv (s : CSampler) : Prop := s.len ≤ s.cutoff
end CSampler

/-- `swap_manager_and_state` of both samplers (after `fix:` 074d32a): the containers are
exchanged, then **both** samplers call their own `set_cutoff(max(self.cutoff, other.cutoff))`
(sampler field overwritten *and* received container padded). -/
def swapSamplers (a b : CSampler) : CSampler × CSampler :=
  let m := max a.cutoff b.cutoff
  (CSampler.setCutoff m { cutoff := a.cutoff, occ := b.occ },
   CSampler.setCutoff m { cutoff := b.cutoff, occ := a.occ })

/-- `IntoQmc::into_qmc` as far as C12 is concerned: `Qmc::new_with_state` (cutoff = nvars, empty
container), `set_manager(ising container)`, then the **sampler's** `set_cutoff(ising cutoff)`. -/
def convertSampler (nvars : Nat) (s : CSampler) : CSampler :=
  CSampler.setCutoff s.cutoff { cutoff := nvars, occ := s.occ }

/-- public calls on a pair of samplers (histories mixing time steps, raw swaps, conversions) -/
inductive PairAction where
  | stepA (d : Nat → Bool → Bool)
  | stepB (d : Nat → Bool → Bool)
  | swap
  | raiseA (c : Nat)            -- `increase_cutoff_to(c)` for ANY `c` (below, equal, above); `set_cutoff(c)` with `c ≥ cutoff`
  | convertA (nvars : Nat)      -- `a := a.into_qmc()`
  | freshB (c : Nat)            -- partner replaced by a freshly built Ising sampler with cutoff `c`
  | copyA                       -- `a := a.clone()` / `a := restore(snapshot(a))`

def applyPair (p : CSampler × CSampler) : PairAction → CSampler × CSampler
  | .stepA d => (CSampler.timestep d p.1, p.2)
  | .stepB d => (p.1, CSampler.timestep d p.2)
  | .swap => swapSamplers p.1 p.2
  | .raiseA c => (CSampler.increaseCutoffTo c p.1, p.2)
  | .convertA nv => (convertSampler nv p.1, p.2)
  | .freshB c => (p.1, CSampler.newIsing c)
  | .copyA => (CSampler.copy p.1, p.2)

def runPair (acts : List PairAction) (p : CSampler × CSampler) : CSampler × CSampler :=
  acts.foldl applyPair p

/-- What a user can do to ONE sampler between time steps as far as the cutoff is concerned: a time
step (any slot decisions), `set_cutoff(c)` / `set_op_cutoff(c)` with **any** `c` (below, at or above the
current cutoff), a restore of the saved container into a new sampler with cutoff `c`. -/
inductive UserAction where
  | step (d : Nat → Bool → Bool)
  | setCut (c : Nat)
  | restore (c : Nat)

def applyUser (s : CSampler) : UserAction → CSampler
  | .step d => CSampler.timestep d s
  | .setCut c => CSampler.setCutoff c s
  | .restore c => CSampler.restore c s.occ

/-- the states reached by a user history, each tagged with "was reached by a time step" -/
def userTrace : List UserAction → CSampler → List (Bool × CSampler)
  | [], _ => []
  | a :: t, s =>
    ((match a with | .step _ => true | _ => false), applyUser s a) :: userTrace t (applyUser s a)

/-- the user-supplied cutoffs of a history fit the string they are applied to (no operator at or
beyond the new cutoff) -/
def UserValid : List UserAction → CSampler → Prop
  | [], _ => True
  | .step d :: t, s => UserValid t (CSampler.timestep d s)
  | .setCut c :: t, s => countOcc (s.occ.drop c) = 0 ∧ UserValid t (CSampler.setCutoff c s)
  | .restore c :: t, s => countOcc (s.occ.drop c) = 0 ∧ UserValid t (CSampler.restore c s.occ)

/-- maximum of a list of cutoffs (0 for the empty list) -/
def maxCutoff (cs : List Nat) : Nat := cs.foldl max 0

/-- `tempering_step` / `parallel_tempering_step` preamble: every replica gets
`set_op_cutoff(max over replicas of get_op_cutoff())`.  For both replica types (`impl SwapManagers
for QmcIsingGraph` and `for Qmc`, tempering_traits.rs) `get_op_cutoff` is the **sampler's** cutoff
field (`get_cutoff()`), not the container length — the container lags one sweep behind a cutoff
that has just grown — and `set_op_cutoff` is the sampler's `set_cutoff`. -/
def equalise (rs : List CSampler) : List CSampler :=
  let m := maxCutoff (rs.map (·.cutoff))
  rs.map (CSampler.setCutoff m)

/-- Decider used by the correspondence: is `after` what some sweep with cutoff `c` can produce
from `before`?  (length grown to at least `c`, slots `≥ c` untouched) -/
def isSweepResult (c : Nat) (before after : List Bool) : Bool :=
  after.length == growLen before.length c && after.drop c == (growOcc before c).drop c

end Qmc
