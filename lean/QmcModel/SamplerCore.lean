/-
One whole `timestep` of each sampler (RVB switched off) as an exact, executable function of
(sampler, β, RNG script), with the two spin-only kernels that cannot be imported next to each other
(`loopUpdate` of QmcModel/Loop.lean and `clusterUpdate` of QmcModel/ClusterExact.lean both live in
namespace `Qmc` and both declare `Qmc.Leg`) left as *parameters*. Everything else is concrete here:
which sweep runs and with which cutoff and table, the order of the sub-updates, the hand-over of
state / operator string / RNG, the gates, the field-freezing rule, the free-spin refresh, where the
cutoff rule is applied and which `n` it reads. `QmcModel/Sampler.lean` plugs the exact kernels in.
Core Lean only. Imports only files that co-import with BOTH QmcModel/Loop.lean and
QmcModel/ClusterExact.lean and with QmcModel/Worldline.lean (C06/C07 relations).

Mirrors, line by line:

`QmcIsingGraph::timestep` (src/sse/qmc_ising.rs)
  1. `bond_weights` is `Some` → `make_heatbath_diagonal_update_with_rng_and_state_ref(self.cutoff, beta, …)`,
     else `make_diagonal_update_with_rng_and_state_ref(self.cutoff, beta, …)`  — the cutoff the sweep
     sees is the sampler field as the previous step left it;
  2. `if self.run_rvb_steps { … }` — NOT modelled (only samplers with `run_rvb_steps = false`);
  3. `|h| > EPSILON` → `flip_each_cluster_rng(0.5, rng, state, Some(closure))` with the closure
     returning 0.0 on bonds `≥ nedges + nvars` (longitudinal) and 1.0 elsewhere; otherwise
     `flip_each_cluster_ising_symmetry_rng(0.5, rng, state)`;
  4. `for var: if !does_var_have_ops(var) { state[var] = rng.gen_bool(0.5) }`;
  5. `self.cutoff = max(self.cutoff, n + n/2 + 1)` with `n = manager.get_n()` read HERE (after all
     updates).
`QmcIsingGraph::set_enable_heatbath` builds the table from the Hamiltonian with
`num_bonds = edges + nvars + (nvars if |h| > EPSILON)`.

`Qmc::timestep` (src/sse/qmc_runner.rs) = `diagonal_update(beta)`; `if do_loop_updates { loop_update() }`;
`if !breaks_ising_symmetry && has_cluster_edges { cluster_update() }`; `flip_free_bits()`, where
`diagonal_update` = (`do_heatbath` → build `bond_weights` if `None`, heat-bath sweep with
`self.cutoff`; else Metropolis sweep with `self.cutoff`) and then IMMEDIATELY
`self.cutoff = max(self.cutoff, n + n/2 + 1)` with `n` read right after the sweep;
`add_interaction` resets `bond_weights` to `None` and maintains the two gate flags.

On the dyadic inputs of the correspondence `|h| > f64::EPSILON ↔ h ≠ 0` and the tolerance
comparisons of `Interaction::new` / `sym_under_ising` are exact equalities.
-/
import QmcModel.HeatBath
import QmcModel.Cutoff
import QmcModel.IsingHam

namespace Qmc.Sampler
open Qmc

/-- a cluster update: flip probability, "closure returns 0.0 on this bond", configuration, RNG -/
abbrev ClusterK := Rat → (Nat → Bool) → Config → RS → Config × RS
/-- a loop update: the weight closure `h(bond, ins, outs)`, configuration, RNG -/
abbrev LoopK := (Nat → List Bool → List Bool → Rat) → Config → RS → Config × RS

/-! ### free-spin refresh (tail of both `timestep`s, `flip_free_bits`) -/

/-- variables on which some stored operator acts -/
def slotVars (s : Slots) : List Nat :=
  s.flatMap fun x => match x with
    | none => []
    | some o => o.vars

/-- `does_var_have_ops(v)` -/
def hasOps (s : Slots) (v : Nat) : Bool := (slotVars s).contains v

/-- `state.iter_mut().enumerate().for_each(|(var, s)| if !does_var_have_ops(var) { *s = rng.gen_bool(0.5) })` -/
def refreshAux (s : Slots) : Nat → List Bool → RS → List Bool × RS
  | _, [], rs => ([], rs)
  | v, x :: t, rs =>
    if hasOps s v then
      let r := refreshAux s (v + 1) t rs
      (x :: r.1, r.2)
    else
      let d := rs.genBool (1 / 2)
      let r := refreshAux s (v + 1) t d.2
      (d.1 :: r.1, r.2)

def freeRefresh (c : Config) (rs : RS) : Config × RS :=
  let r := refreshAux c.slots 0 c.state rs
  ({ state := r.1, slots := c.slots }, r.2)

/-- `if let Some(bond_weights) = … { heat-bath sweep } else { Metropolis sweep }` -/
def diagUpdate (H : Ham) (bw : Option BW) (β : Rat) (cutoff : Nat) (c : Config) (rs : RS) : Config × RS :=
  match bw with
  | none => metropolisSweep H β cutoff c rs
  | some t => heatBathSweep H t β cutoff c rs

/-! ### the Ising sampler -/

/-- the fields of `QmcIsingGraph` a `timestep` without RVB reads or writes: the model parameters
(`edges`, `transverse`, `longitudinal`, number of variables), `state`, the operator string of
`op_manager`, `cutoff`, `bond_weights` -/
structure IsingSampler where
  spec : IsingSpec
  state : List Bool
  slots : Slots
  cutoff : Nat
  table : Option BW := none
  deriving Repr

namespace IsingSampler

def cfg (s : IsingSampler) : Config := { state := s.state, slots := s.slots }

/-- `manager.get_n()` -/
def n (s : IsingSampler) : Nat := countOps s.slots

/-- `new_with_rng(edges, Γ, h, cutoff, rng, Some(state))`: empty string, `ops.set_cutoff(cutoff)` -/
def new (spec : IsingSpec) (cutoff : Nat) (state : List Bool) : IsingSampler :=
  { spec := spec, state := state, slots := List.replicate cutoff none, cutoff := cutoff }

/-- `set_enable_heatbath(b)` -/
def setEnableHeatbath (s : IsingSampler) (b : Bool) : IsingSampler :=
  { s with table := if b then some (makeBondWeights s.spec.ham) else none }

/-- the weight closure handed to `flip_each_cluster_rng` when `h ≠ 0` (as "returns 0.0 on bond b"):
`bond >= nedges + nvars`; without a field no closure is passed (`…_ising_symmetry_rng`) -/
def frozenBond (s : IsingSampler) : Nat → Bool :=
  if s.spec.h = 0 then fun _ => false else fun b => decide (s.spec.nedges + s.spec.nvars ≤ b)

end IsingSampler

/-- `QmcIsingGraph::timestep(beta)` with `run_rvb_steps = false`, the cluster kernel as a parameter -/
def isingTimestepWith (CK : ClusterK) (s : IsingSampler) (β : Rat) (rs : RS) : IsingSampler × RS :=
  let H := s.spec.ham
  let d := diagUpdate H s.table β s.cutoff s.cfg rs
  let m := CK (1 / 2) s.frozenBond d.1 d.2
  let r := freeRefresh m.1 m.2
  ({ s with state := r.1.state, slots := r.1.slots, cutoff := nextCutoff s.cutoff (countOps r.1.slots) }, r.2)

/-- consecutive `timestep`s, one β per step, one RNG threaded through -/
def isingRunWith (CK : ClusterK) : List Rat → IsingSampler → RS → IsingSampler × RS
  | [], s, rs => (s, rs)
  | β :: t, s, rs =>
    let r := isingTimestepWith CK s β rs
    isingRunWith CK t r.1 r.2

/-- the samplers after each step -/
def isingTraceWith (CK : ClusterK) : List Rat → IsingSampler → RS → List IsingSampler
  | [], _, _ => []
  | β :: t, s, rs =>
    let r := isingTimestepWith CK s β rs
    r.1 :: isingTraceWith CK t r.1 r.2

/-! ### the generic sampler -/

/-- an `Interaction` as handed to `make_interaction` (`full = true`, matrix of length `4^k` indexed by
`outs ++ ins`) or `make_diagonal_interaction` (`full = false`, the `2^k` diagonal entries) -/
structure GBond where
  full : Bool
  vars : List Nat
  mat : List Rat
  deriving Repr

namespace GBond

def allEq (m : List Rat) : Bool :=
  match m with
  | [] => true
  | x :: t => t.all (· == x)

/-- `is_constant()`: `InteractionType::Full(true)` -/
def isConstant (b : GBond) : Bool := b.full && allEq b.mat

/-- `sym_under_ising()`: every entry equals its bit-flip counterpart (`(!i) & mask = len − 1 − i`);
the two early `true` branches (constant full matrix, constant diagonal) are instances of the same test -/
def symUnderIsing (b : GBond) : Bool :=
  let a := b.mat.toArray
  (List.range a.size).all fun i => a[i]! == a[a.size - 1 - i]!

/-- `at(ins, outs).unwrap()` (0 where the Rust would return `Err`) -/
def w (b : GBond) (ins outs : List Bool) : Rat :=
  if ins.length ≠ b.vars.length ∨ outs.length ≠ b.vars.length then 0
  else if b.full then
    (if b.isConstant then b.mat.getD 0 0 else b.mat.getD (bitIndex (outs ++ ins)) 0)
  else if ins == outs then b.mat.getD (bitIndex ins) 0 else 0

end GBond

/-- the `Hamiltonian` closure of `Qmc::diagonal_update` / `loop_update` -/
def genericHam (bs : List GBond) : Ham :=
  { nbonds := bs.length
    vars := fun b => (bs[b]?.map (·.vars)).getD []
    const := fun b => (bs[b]?.map (·.isConstant)).getD false
    w := fun b i o => (bs[b]?.map (·.w i o)).getD 0 }

/-- the fields of `Qmc` a `timestep` reads or writes -/
structure GenericSampler where
  bonds : List GBond := []
  state : List Bool
  slots : Slots := []
  cutoff : Nat
  hasClusterEdges : Bool := false
  breaksIsing : Bool := false
  doLoop : Bool := false
  doHeatbath : Bool := false
  table : Option BW := none
  deriving Repr

namespace GenericSampler

def cfg (s : GenericSampler) : Config := { state := s.state, slots := s.slots }
def n (s : GenericSampler) : Nat := countOps s.slots
def ham (s : GenericSampler) : Ham := genericHam s.bonds

/-- `Qmc::new_with_state(nvars, rng, state, do_loop_updates)`: `cutoff = nvars`, empty container -/
def new (state : List Bool) (doLoop : Bool) : GenericSampler :=
  { state := state, cutoff := state.length, doLoop := doLoop }

/-- `add_interaction`: gate flags, `bond_weights = None`, push -/
def addInteraction (s : GenericSampler) (b : GBond) : GenericSampler :=
  { s with
    hasClusterEdges := s.hasClusterEdges || (b.isConstant && b.vars.length == 1)
    breaksIsing := s.breaksIsing || !b.symUnderIsing
    table := none
    bonds := s.bonds ++ [b] }

/-- `set_cutoff(c)`: field overwritten, container grown (never shrunk) -/
def setCutoff (s : GenericSampler) (c : Nat) : GenericSampler :=
  { s with cutoff := c, slots := padSlots c s.slots }

def setDoHeatbath (s : GenericSampler) (b : Bool) : GenericSampler := { s with doHeatbath := b }

/-- `should_do_cluster_update()` -/
def shouldCluster (s : GenericSampler) : Bool := !s.breaksIsing && s.hasClusterEdges

/-- `bond_weights` after the lazy construction at the top of `diagonal_update` -/
def tableAfter (s : GenericSampler) : Option BW :=
  if s.doHeatbath then
    (match s.table with
     | none => some (makeBondWeights s.ham)
     | some t => some t)
  else s.table

/-- the table the sweep of `diagonal_update` runs with: `Some` iff `do_heatbath` -/
def tableUsed (s : GenericSampler) : Option BW := if s.doHeatbath then s.tableAfter else none

end GenericSampler

/-- `Qmc::diagonal_update(beta)`: (lazy table) ; sweep with the current cutoff ; cutoff rule on the
count right after the sweep -/
def genericDiagonalUpdate (s : GenericSampler) (β : Rat) (rs : RS) : GenericSampler × RS :=
  let d := diagUpdate s.ham s.tableUsed β s.cutoff s.cfg rs
  ({ s with state := d.1.state, slots := d.1.slots, table := s.tableAfter,
            cutoff := nextCutoff s.cutoff (countOps d.1.slots) }, d.2)

def GenericSampler.withCfg (s : GenericSampler) (c : Config) : GenericSampler :=
  { s with state := c.state, slots := c.slots }

/-- `diagonal_update(beta); if should_do_loop_update() { loop_update() }`: configuration and RNG after
the loop update (the closure `h` of `loop_update` is `bonds[bond].at(ins, outs)` = the Hamiltonian's weights) -/
def genericLoopStage (LK : LoopK) (s : GenericSampler) (β : Rat) (rs : RS) : Config × RS :=
  let d := genericDiagonalUpdate s β rs
  if d.1.doLoop then LK d.1.ham.w d.1.cfg d.2 else (d.1.cfg, d.2)

/-- `Qmc::timestep(beta)`, the loop and cluster kernels as parameters -/
def genericTimestepWith (LK : LoopK) (CK : ClusterK) (s : GenericSampler) (β : Rat) (rs : RS) :
    GenericSampler × RS :=
  let d := genericDiagonalUpdate s β rs
  let l := genericLoopStage LK s β rs
  let m := if d.1.shouldCluster then CK (1 / 2) (fun _ => false) l.1 l.2 else l
  let r := freeRefresh m.1 m.2
  (d.1.withCfg r.1, r.2)

def genericRunWith (LK : LoopK) (CK : ClusterK) : List Rat → GenericSampler → RS → GenericSampler × RS
  | [], s, rs => (s, rs)
  | β :: t, s, rs =>
    let r := genericTimestepWith LK CK s β rs
    genericRunWith LK CK t r.1 r.2

def genericTraceWith (LK : LoopK) (CK : ClusterK) : List Rat → GenericSampler → RS → List GenericSampler
  | [], _, _ => []
  | β :: t, s, rs =>
    let r := genericTimestepWith LK CK s β rs
    r.1 :: genericTraceWith LK CK t r.1 r.2

/-- every loop update of the run closed (no modelled panic, script not exhausted) — with the real,
inexhaustible RNG every `loop_update` that returns has closed -/
def GenericLoopsClosed (LK : LoopK) (CK : ClusterK) : List Rat → GenericSampler → RS → Prop
  | [], _, _ => True
  | β :: t, s, rs =>
    (s.doLoop = true → (genericLoopStage LK s β rs).2.panicked = false ∧ (genericLoopStage LK s β rs).2.short = false) ∧
    GenericLoopsClosed LK CK t (genericTimestepWith LK CK s β rs).1 (genericTimestepWith LK CK s β rs).2

end Qmc.Sampler
