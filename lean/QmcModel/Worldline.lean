/-
C06 / C07 — relations between the configuration before and after one public mutating call,
each with an executable decider (soundness proofs: `QmcProofs/Worldline*.lean`).
Core Lean only.

What each relation mirrors (Rust, as read from the source):
* `Legal`          — what `C07` says about every stored `BasicOp`.
* `foldStates`     — the states `FastOps::itime_fold` hands to the user's fold function: the state
                     ENTERING each slot (`fold_fn` is called before the op at `p` is applied). The
                     `statesVisited` of `Basic.lean` is the after-op variant.
* `DiagSweepStep`  — `make_diagonal_update_with_rng_and_state_ref` and the heat-bath variant, as
                     called from `single_diagonal_step` / `diagonal_update` / `timestep`
                     (slot by slot, rolling state; the sweep covers `0..cutoff` of the SAMPLER,
                     the container is grown to that length; the rolling state becomes the new state).
* `SpinFlipStep`   — result of `flip_each_cluster_rng` (+ free-spin refresh), `make_loop_update_with_rng`,
                     and the spin part of an RVB update: same skeleton, flip mask link-closed.
* `FreeStep`       — `flip_free_bits`.
* `RvbStep`        — `rvb_update_with_ising_weight` (any number of updates): spin flips followed by
                     re-bonding of diagonal two-site operators (`mutate_graph`).
* `MoveStep`       — `swap_manager_and_state`, `tempering_step`, `into_qmc`, serde restore,
                     `set_cutoff`: the configuration is carried over unchanged (possibly padded).
-/
import QmcModel.Basic
import QmcModel.IsingHam
import QmcModel.Common

namespace Qmc

/-! ### Legality of stored operators (C07) -/

/-- one stored operator is a term of the Hamiltonian with positive weight -/
def Op.LegalFor (H : Ham) (o : Op) : Prop :=
  o.bond < H.nbonds ∧ o.vars = H.vars o.bond ∧ o.const = H.const o.bond ∧
  (o.tagDiag = true ↔ o.ins = o.outs) ∧ o.WF ∧ 0 < H.w o.bond o.ins o.outs

instance (H : Ham) (o : Op) : Decidable (o.LegalFor H) := by
  unfold Op.LegalFor; infer_instance

/-- every stored operator is legal -/
def Legal (H : Ham) (c : Config) : Prop := ∀ o, some o ∈ c.slots → o.LegalFor H

def legalSlotsB (H : Ham) (s : Slots) : Bool :=
  s.all fun x => match x with
    | none => true
    | some o => decide (o.LegalFor H)

def legalB (H : Ham) (c : Config) : Bool := legalSlotsB H c.slots

/-- every bond acts on distinct variables below `n` -/
def HamWF (H : Ham) (n : Nat) : Prop :=
  ∀ b, b < H.nbonds → (H.vars b).Nodup ∧ ∀ v, v ∈ H.vars b → v < n

def hamWFB (H : Ham) (n : Nat) : Bool :=
  (List.range H.nbonds).all fun b => decide ((H.vars b).Nodup) && (H.vars b).all (fun v => decide (v < n))

/-! ### Rolling state and the imaginary-time fold (C06) -/

/-- effect of one slot on the rolling state (outputs written, nothing checked) -/
def stepState (st : List Bool) : Option Op → List Bool
  | none => st
  | some o => writeVars st o.vars o.outs

/-- state after all slots -/
def rollEnd (st : List Bool) (s : Slots) : List Bool := s.foldl stepState st

/-- state entering slot `p` -/
def stateAt (st : List Bool) (s : Slots) (p : Nat) : List Bool := rollEnd st (s.take p)

/-- `FastOps::itime_fold`: the state entering each slot, in order -/
def foldStates (st : List Bool) : Slots → List (List Bool)
  | [] => []
  | x :: t => st :: foldStates (stepState st x) t

/-! ### Diagonal sweep -/

/-- the operator an insertion at rolling state `st` creates for bond `bd` -/
def insertedOp (H : Ham) (st : List Bool) (bd : Nat) : Op :=
  Op.diagonal (H.vars bd) bd (readVars st (H.vars bd)) (H.const bd)

/-- slot-by-slot relation of one diagonal sweep: rolling state in, slots before, slots after,
rolling state out -/
inductive DiagSlots (H : Ham) : List Bool → Slots → Slots → List Bool → Prop
  | nil (st : List Bool) : DiagSlots H st [] [] st
  | skip {st b a fin} : DiagSlots H st b a fin → DiagSlots H st (none :: b) (none :: a) fin
  | insert {st b a fin} (bd : Nat) : bd < H.nbonds →
      0 < H.w bd (readVars st (H.vars bd)) (readVars st (H.vars bd)) →
      DiagSlots H st b a fin →
      DiagSlots H st (none :: b) (some (insertedOp H st bd) :: a) fin
  | keep {st b a fin} (o : Op) : o.tagDiag = true → DiagSlots H st b a fin →
      DiagSlots H st (some o :: b) (some o :: a) fin
  | remove {st b a fin} (o : Op) : o.tagDiag = true → DiagSlots H st b a fin →
      DiagSlots H st (some o :: b) (none :: a) fin
  | offdiag {st b a fin} (o : Op) : o.tagDiag = false →
      DiagSlots H (writeVars st o.vars o.outs) b a fin →
      DiagSlots H st (some o :: b) (some o :: a) fin

/-- decider for `DiagSlots`: the final rolling state, if the slots are related -/
def diagSlotsB (H : Ham) : List Bool → Slots → Slots → Option (List Bool)
  | st, [], [] => some st
  | st, none :: b, none :: a => diagSlotsB H st b a
  | st, none :: b, some o :: a =>
    if o.bond < H.nbonds ∧ o = insertedOp H st o.bond ∧
        0 < H.w o.bond (readVars st (H.vars o.bond)) (readVars st (H.vars o.bond)) then
      diagSlotsB H st b a
    else none
  | st, some o :: b, none :: a => if o.tagDiag = true then diagSlotsB H st b a else none
  | st, some o :: b, some o' :: a =>
    if o' = o then
      (if o.tagDiag = true then diagSlotsB H st b a
       else diagSlotsB H (writeVars st o.vars o.outs) b a)
    else none
  | _, _, _ => none

/-- `mutate_subsection` grows the container to the end of the swept range -/
def padTo (s : Slots) (L : Nat) : Slots := s ++ List.replicate (L - s.length) none

/-- one diagonal sweep of a sampler whose own `cutoff` field is `L` -/
def DiagSweepStep (H : Ham) (L : Nat) (b a : Config) : Prop :=
  DiagSlots H b.state ((padTo b.slots L).take L) (a.slots.take L) a.state ∧
  a.slots.drop L = (padTo b.slots L).drop L

def diagSweepB (H : Ham) (L : Nat) (b a : Config) : Bool :=
  (diagSlotsB H b.state ((padTo b.slots L).take L) (a.slots.take L) == some a.state) &&
  (a.slots.drop L == (padTo b.slots L).drop L)

/-! ### Spin flips on a fixed skeleton -/

def xorBits (a b : List Bool) : List Bool := List.zipWith xor a b

/-- same variables, bond, constant flag and value counts -/
def Op.sameSkel (o o' : Op) : Prop :=
  o'.vars = o.vars ∧ o'.bond = o.bond ∧ o'.const = o.const ∧
  o'.ins.length = o.ins.length ∧ o'.outs.length = o.outs.length

instance (o o' : Op) : Decidable (o.sameSkel o') := by unfold Op.sameSkel; infer_instance

/-- the tag after an edit: untouched op, or recomputed from the values (`edit_in_out`;
`edit_in_out_symmetric` keeps the tag, which is the same thing on a legal op) -/
def Op.tagOk (o o' : Op) : Prop := o' = o ∨ o'.tagDiag = decide (o'.ins = o'.outs)

instance (o o' : Op) : Decidable (o.tagOk o') := by unfold Op.tagOk; infer_instance

inductive SameSkeleton : Slots → Slots → Prop
  | nil : SameSkeleton [] []
  | none {b a} : SameSkeleton b a → SameSkeleton (none :: b) (none :: a)
  | some {b a} (o o' : Op) : o.sameSkel o' → o.tagOk o' → SameSkeleton b a →
      SameSkeleton (some o :: b) (some o' :: a)

def sameSkeletonB : Slots → Slots → Bool
  | [], [] => true
  | none :: b, none :: a => sameSkeletonB b a
  | some o :: b, some o' :: a => decide (o.sameSkel o') && decide (o.tagOk o') && sameSkeletonB b a
  | _, _ => false

/-- the flip set as a mask configuration on the same skeleton. `maskOp` / `maskSlots` (the flip mask of
one operator: which inputs / outputs changed; of a string) are in QmcModel/Common.lean, shared with
Cluster.lean; they are written with `xorB`, which is `xorBits` (`xor` is an abbreviation of `bne`). -/
def maskConfig (b a : Config) : Config :=
  { state := xorBits b.state a.state, slots := maskSlots b.slots a.slots }

/-- spin-only update: same skeleton, and the flip mask is link-closed, i.e. itself a consistent
(mask) configuration: the mask entering an op equals the mask leaving the previous op on the same
variable, periodically in imaginary time, the state mask being the link across `p = 0`. -/
def SpinFlipStep (b a : Config) : Prop :=
  a.state.length = b.state.length ∧ SameSkeleton b.slots a.slots ∧ Consistent (maskConfig b a)

def spinFlipB (b a : Config) : Bool :=
  decide (a.state.length = b.state.length) && sameSkeletonB b.slots a.slots &&
  decide (Consistent (maskConfig b a))

/-- bonds at every position -/
def bondAt (c : Config) (p : Nat) : Option Nat :=
  match c.slots[p]? with
  | some (some o) => some o.bond
  | _ => none

/-- variables covered by some operator -/
def coveredVars (s : Slots) : List Nat :=
  s.flatMap fun x => match x with
    | none => []
    | some o => o.vars

/-- `flip_free_bits`: no operator changes; only variables without operators may change -/
def FreeStep (b a : Config) : Prop :=
  a.slots = b.slots ∧ a.state.length = b.state.length ∧
  ∀ v, v ∈ coveredVars b.slots → a.state[v]? = b.state[v]?

def freeB (b a : Config) : Bool :=
  decide (a.slots = b.slots) && decide (a.state.length = b.state.length) &&
  (coveredVars b.slots).all fun v => a.state[v]? == b.state[v]?

/-- the changed operators keep a positive matrix element -/
def FlipKeepsWeight (H : Ham) : Slots → Slots → Prop
  | some o :: b, some o' :: a => (o' = o ∨ 0 < H.w o'.bond o'.ins o'.outs) ∧ FlipKeepsWeight H b a
  | _ :: b, _ :: a => FlipKeepsWeight H b a
  | _, _ => True

def flipKeepsWeightB (H : Ham) : Slots → Slots → Bool
  | some o :: b, some o' :: a =>
    (decide (o' = o) || decide (0 < H.w o'.bond o'.ins o'.outs)) && flipKeepsWeightB H b a
  | _ :: b, _ :: a => flipKeepsWeightB H b a
  | _, _ => true

/-! #### structural "weight-preserving" masks -/

def allEq (v : Bool) (l : List Bool) : Bool := l.all (· == v)

/-- generic cluster flip of one op: a single-variable constant op (cluster edge) may change on
either side; any other op flips on all legs or on none -/
def symMaskOpB (o o' : Op) : Bool :=
  let mi := xorBits o.ins o'.ins
  let mo := xorBits o.outs o'.outs
  (o.const && o.vars.length == 1) || (allEq false mi && allEq false mo) || (allEq true mi && allEq true mo)

def symMaskB : Slots → Slots → Bool
  | some o :: b, some o' :: a => symMaskOpB o o' && symMaskB b a
  | _ :: b, _ :: a => symMaskB b a
  | _, _ => true

/-- Ising: a two-site op flips on both variables (inputs and outputs alike) or not at all, a
transverse op may change arbitrarily, a longitudinal op is never flipped. Ops whose bond changed
(RVB re-bonding) are not judged here. -/
def isingMaskOpB (s : IsingSpec) (o o' : Op) : Bool :=
  let mi := xorBits o.ins o'.ins
  let mo := xorBits o.outs o'.outs
  if o'.bond ≠ o.bond then true
  else if o.bond < s.nedges then (mi == mo) && (mi == [false, false] || mi == [true, true])
  else if o.bond < s.nedges + s.nvars then true
  else (mi == [false]) && (mo == [false])

def isingMaskB (s : IsingSpec) : Slots → Slots → Bool
  | some o :: b, some o' :: a => isingMaskOpB s o o' && isingMaskB s b a
  | _ :: b, _ :: a => isingMaskB s b a
  | _, _ => true

/-! ### RVB: spin flips followed by re-bonding of diagonal two-site operators -/

/-- slot-by-slot re-bonding with the rolling state: an op is kept, or a diagonal op that the
rolling state passes through unchanged is replaced by a diagonal op of another two-site bond
(values read from the rolling state, constant flag copied) with positive weight -/
inductive RebondSlots (H : Ham) : List Bool → Slots → Slots → Prop
  | nil (st : List Bool) : RebondSlots H st [] []
  | none {st m a} : RebondSlots H st m a → RebondSlots H st (none :: m) (none :: a)
  | same {st m a} (o : Op) : RebondSlots H (writeVars st o.vars o.outs) m a →
      RebondSlots H st (some o :: m) (some o :: a)
  | rebond {st m a} (o : Op) (bd : Nat) : o.tagDiag = true → o.outs = o.ins →
      inputsMatch st o = true → o.vars.length = 2 → (H.vars bd).length = 2 → bd < H.nbonds →
      H.const bd = o.const →
      0 < H.w bd (readVars st (H.vars bd)) (readVars st (H.vars bd)) →
      RebondSlots H st m a →
      RebondSlots H st (some o :: m) (some (insertedOp H st bd) :: a)

def rebondSlotsB (H : Ham) : List Bool → Slots → Slots → Bool
  | _, [], [] => true
  | st, none :: m, none :: a => rebondSlotsB H st m a
  | st, some o :: m, some o' :: a =>
    if o' = o then rebondSlotsB H (writeVars st o.vars o.outs) m a
    else
      decide (o.tagDiag = true ∧ o.outs = o.ins ∧ inputsMatch st o = true ∧ o.vars.length = 2 ∧
        (H.vars o'.bond).length = 2 ∧ o'.bond < H.nbonds ∧ H.const o'.bond = o.const ∧
        o' = insertedOp H st o'.bond ∧
        0 < H.w o'.bond (readVars st (H.vars o'.bond)) (readVars st (H.vars o'.bond))) &&
      rebondSlotsB H st m a
  | _, _, _ => false

def RebondStep (H : Ham) (m a : Config) : Prop :=
  a.state = m.state ∧ RebondSlots H m.state m.slots a.slots

def rebondB (H : Ham) (m a : Config) : Bool :=
  decide (a.state = m.state) && rebondSlotsB H m.state m.slots a.slots

/-- one or several RVB updates -/
def RvbStep (H : Ham) (b a : Config) : Prop := ∃ m, SpinFlipStep b m ∧ RebondStep H m a

/-- the intermediate configuration (spins already flipped, bonds not yet rotated), rebuilt from
`before` (skeleton) and `after` (values, rolling state) -/
def rvbMidSlots : List Bool → Slots → Slots → Slots
  | st, some o :: b, some o' :: a =>
    if o'.bond = o.bond then some o' :: rvbMidSlots (writeVars st o'.vars o'.outs) b a
    else some (Op.diagonal o.vars o.bond (readVars st o.vars) o.const) :: rvbMidSlots st b a
  | st, _ :: b, x :: a => x :: rvbMidSlots (stepState st x) b a
  | _, _, _ => []

def rvbMid (b a : Config) : Config := { state := a.state, slots := rvbMidSlots a.state b.slots a.slots }

def rvbB (H : Ham) (b a : Config) : Bool := spinFlipB b (rvbMid b a) && rebondB H (rvbMid b a) a

/-! ### Moves between holders -/

/-- swap, tempering step, conversion, restore, `set_cutoff`: state and operators unchanged, the
string possibly padded with empty slots -/
def MoveStep (b a : Config) : Prop := a.state = b.state ∧ ∃ k, a.slots = b.slots ++ List.replicate k none

def moveB (b a : Config) : Bool :=
  decide (a.state = b.state) && decide (a.slots = b.slots ++ List.replicate (a.slots.length - b.slots.length) none)

/-! ### One public call, and histories -/

/-- what one public mutating call may do to the configuration held by a sampler with
Hamiltonian `H` -/
inductive Step (H : Ham) (b a : Config) : Prop
  | diag (L : Nat) : b.slots.length ≤ L → DiagSweepStep H L b a → Step H b a
  | flip : SpinFlipStep b a → FlipKeepsWeight H b.slots a.slots → Step H b a
  | rvb : RvbStep H b a → FlipKeepsWeight H b.slots a.slots → Step H b a
  | move : MoveStep b a → Step H b a

/-- every term that has positive weight under `H` has positive weight under `H'` (same bonds) -/
def SupportLe (H H' : Ham) : Prop :=
  ∀ b, b < H.nbonds → b < H'.nbonds ∧ H'.vars b = H.vars b ∧ H'.const b = H.const b ∧
    ∀ i o, 0 < H.w b i o → 0 < H'.w b i o

/-- a history of public calls starting from `(H, c)`: each entry is the Hamiltonian of the
holder and the configuration after the call; the holder's Hamiltonian changes only when the
configuration is moved to another holder (swap, conversion) whose Hamiltonian has at least the
same support. -/
def History (n : Nat) : Ham → Config → List (Ham × Config) → Prop
  | _, _, [] => True
  | H, c, (H', c') :: rest =>
    ((H' = H ∧ Step H c c') ∨ (HamWF H' n ∧ SupportLe H H' ∧ MoveStep c c')) ∧ History n H' c' rest

/-- exit-leg selection of the loop update (`try_fold` over the leg weights with the drawn
`choice`): first leg whose cumulative weight exceeds the draw -/
def pickExit : Rat → List (Nat × Rat) → Option (Nat × Rat)
  | _, [] => none
  | c, (leg, w) :: t => if c < w then some (leg, w) else pickExit (c - w) t

end Qmc
