/-
C11, the read-only helpers of the optimized container that were still outside the model
(src/sse/fast_ops.rs): executable transliterations of

* `fill_args_at_p_with_hint(p, args, vars, hint)`            → `FastOps.fillArgsWithHint`
* `get_propagated_substate_with_hint(p, substate, state, vars, hint)` → `FastOps.propagatedSubstate`
* `p_crosses`                                                 → `FastOps.pCrosses`
* `try_iterate_ps` / `try_iterate_ops` (the overrides of `FastOpsTemplate`) and the trait defaults
  `iterate_ps` / `iterate_ops` of `DiagonalUpdater` (src/sse/qmc_traits/diagonal.rs)
                                                              → `tryIteratePs`, `tryIterateOps`, `iteratePs`, `iterateOps`

Conventions of THIS file (different from `QmcModel/FastOps.lean`, which takes harmless defaults):
every panic of the Rust (slice/`Vec`/`SmallVec` index out of range, `expect`/`unwrap` of `None`,
`panic!`, a failing `debug_assert!`) is the explicit result `none`.  Loops with a bound that is not
syntactically visible take a fuel argument; running out of fuel is `none` too (QmcProofs/FastOpsHint
proves that the fuel handed in by the entry points is never exhausted: the forward walk of
`iter_and_set` for ANY container, the backward walk of the hint and the `next_p` walk under the
representation invariant).  Core Lean only.
-/
import QmcModel.FastOps

namespace Qmc
namespace FastOps

/-- `p_crosses(pstart, pend, psel)` -/
def pCrosses (a b psel : Nat) : Bool :=
  if a < b then decide (a < psel) && decide (psel ≤ b)
  else if a > b then !(decide (b < psel) && decide (psel ≤ a))
  else true

/-- `get_node_ref(p).expect(…)`: `self.ops[p]` (index panic) then `expect` (panic on an empty slot) -/
def nodeExpect (c : FastOps) (p : Nat) : Option Node :=
  match c.ops[p]? with
  | some (some nd) => some nd
  | _ => none

/-- the `debug_assert!`s on one hint: "Hints must be to ops" (`get_node_ref(phint)` indexes) -/
def hintIsOp (c : FastOps) (phint : Option Nat) : Option Unit :=
  match phint with
  | none => some ()
  | some ph => (c.nodeExpect ph).map (fun _ => ())

/-- `self.var_ends[var].map(|(prel, _)| prel)`; outer `none` = index panic -/
def varStartIdx (c : FastOps) (var : Nat) : Option (Option PRel) :=
  (c.varEnds[var]?).map (fun e => e.map (·.1))

/-- where the loop of `iter_and_set` stops: the `pcheck`/`relv` at which `p_crosses` fires, `next.p`
and the node at `pcheck` -/
structure Crossing where
  pcheck : Nat
  relv : Nat
  nextP : Nat
  node : Node

/-- `get_next_p_for_rel_var(relv, node).unwrap_or_else(|| self.var_ends[var].unwrap().0)`, given the
already indexed `next_for_vars[relv]`; `none` = panic (index or `unwrap`) -/
def nextOrStart (c : FastOps) (var : Nat) (nx : Option PRel) : Option PRel :=
  match nx with
  | some n => some n
  | none => (c.varStartIdx var).join

/-- the `loop { … }` of the closure `iter_and_set` (identical in both `…_with_hint` functions up to
what is done at the crossing) -/
def hintWalk (c : FastOps) (p var : Nat) : Nat → Nat → Nat → Option Crossing
  | 0, _, _ => none
  | fuel + 1, pcheck, relv =>
    -- debug_assert!(pcheck < p)
    if pcheck < p then
      match c.nodeExpect pcheck with
      | none => none
      | some node =>
        -- get_next_p_for_rel_var(relv, node) = node.next_for_vars[relv] (index panic)
        match node.nextForVars[relv]? with
        | none => none
        | some nx =>
          match c.nextOrStart var nx with
          | none => none
          | some next =>
            if pCrosses pcheck next.p p then some ⟨pcheck, relv, next.p, node⟩
            else hintWalk c p var fuel next.p next.relv
    else none

/-- `use_exact` of both `…_with_hint` functions; outer `none` = panic -/
def hintUseExact (c : FastOps) (p var : Nat) (phint : Option Nat) (varStart : Option PRel) :
    Option (Option PRel) :=
  if phint = some p then
    match c.nodeExpect p with
    | none => none
    | some node =>
      match node.op.indexOfVar var with
      | none => none
      | some relv => some (some ⟨p, relv⟩)
  else
    match varStart with
    | some prel => if prel.p = p then some (some prel) else some none
    | none => some none

/-- the `match (phint, var_start)` after `use_exact` failed: where `iter_and_set` is started, if at
all.  Outer `none` = panic, inner `none` = nothing to do. -/
def hintIterStart (c : FastOps) (p var : Nat) (phint : Option Nat) (varStart : Option PRel) :
    Option (Option PRel) :=
  let canHint := match phint with | some ph => decide (ph < p) | none => false
  let canStart := match varStart with | some pr => decide (pr.p < p) | none => false
  match phint, varStart with
  | none, none => some none
  | none, some prel => if canStart then some (some prel) else some none
  | some ph, some prel =>
    match c.nodeExpect ph with
    | none => none
    | some node =>
      match node.op.indexOfVar var with
      | none => none
      | some relv =>
        match canHint, canStart with
        | false, false => some none
        | true, false => some (some ⟨ph, relv⟩)
        | false, true => some (some prel)
        | true, true => some (some (if ph < prel.p then ⟨ph, relv⟩ else prel))
  | some _, none => none

/-- `args.last_vars[subvar] = x; args.last_rels[subvar] = y` (index panics) -/
def cursorWrite (a : Cursor) (subvar : Nat) (x y : Option Nat) : Option Cursor :=
  if subvar < a.lastVars.length ∧ subvar < a.lastRels.length then
    some { a with lastVars := a.lastVars.set subvar x, lastRels := a.lastRels.set subvar y }
  else none

/-- one `(subvar, (phint, var))` step of `fill_args_at_p_with_hint` -/
def hintFillVar (c : FastOps) (p : Nat) (a : Cursor) (subvar : Nat) (phint : Option Nat) (var : Nat) :
    Option Cursor :=
  (c.hintIsOp phint).bind fun _ =>
  (c.varStartIdx var).bind fun varStart =>
  (c.hintUseExact p var phint varStart).bind fun useExact =>
  match useExact with
  | some ue =>
    -- set_using
    (c.nodeExpect ue.p).bind fun node =>
    (node.previousForVars[ue.relv]?).bind fun prel =>
    cursorWrite a subvar (prel.map (·.p)) (prel.map (·.relv))
  | none =>
    (c.hintIterStart p var phint varStart).bind fun st =>
    match st with
    | none => some a
    | some st =>
      -- iter_and_set
      (c.hintWalk p var (p + 1) st.p st.relv).bind fun x =>
      if x.pcheck < p then cursorWrite a subvar (some x.pcheck) (some x.relv) else some a

/-- `fill_args_at_p_with_hint(p, args, vars, hint)`; `none` = the Rust panics -/
def fillArgsWithHint (c : FastOps) (p : Nat) (a : Cursor) (vars : List Nat) (hint : List (Option Nat)) :
    Option Cursor :=
  let r := ((hint.zip vars).zipIdx).foldl
    (fun (acc : Option Cursor) (x : (Option Nat × Nat) × Nat) =>
      acc.bind fun a => c.hintFillVar p a x.2 x.1.1 x.1.2) (some a)
  r.bind fun a =>
  -- args.last_p = (0..psel).rev().find(|p| self.get_node_ref(*p).is_some()): the first probe is
  -- `ops[p - 1]`, an index panic when `p > len`
  if p > c.ops.length then none else some { a with lastP := c.scanDown p }

/-! ### `get_propagated_substate_with_hint` -/

/-- the `while phint >= p { … }` loop that walks the hint backwards; outer `none` = panic (or the
fuel ran out), inner `none` = the `?` left the closure -/
def hintBack (c : FastOps) (p : Nat) : Nat → Nat → Nat → Option (Option Nat)
  | 0, _, _ => none
  | fuel + 1, ph, relv =>
    if ph < p then some (some ph) else
    match c.nodeExpect ph with
    | none => none
    | some node =>
      match node.previousForVars[relv]? with
      | none => none
      | some none => some none
      | some (some prev) =>
        match c.nodeExpect prev.p with
        | none => none
        | some _ => hintBack c p fuel prev.p prev.relv

/-- `debug_assert!(… "Hints must point to ops with relevant variable.")` -/
def hintHasVar (c : FastOps) (var : Nat) (phint : Option Nat) : Option Unit :=
  match phint with
  | none => some ()
  | some ph => (c.nodeExpect ph).bind fun nd => (nd.op.indexOfVar var).map fun _ => ()

/-- `let phint = phint.and_then(|mut phint| { … while phint >= p { … } Some(phint) })` -/
def hintBackStart (c : FastOps) (p var : Nat) (phint : Option Nat) : Option (Option Nat) :=
  match phint with
  | none => some none
  | some ph =>
    (c.nodeExpect ph).bind fun nd =>
    (nd.op.indexOfVar var).bind fun relv => c.hintBack p (c.ops.length + 1) ph relv

/-- `substate[subvar] = x` (index panic) -/
def subWrite (sub : List Bool) (subvar : Nat) (x : Bool) : Option (List Bool) :=
  if subvar < sub.length then some (sub.set subvar x) else none

/-- one `(subvar, (phint, var))` step of `get_propagated_substate_with_hint` -/
def hintSubVar (c : FastOps) (p : Nat) (state sub : List Bool) (subvar : Nat) (phint : Option Nat)
    (var : Nat) : Option (List Bool) :=
  (c.hintIsOp phint).bind fun _ =>
  (c.hintHasVar var phint).bind fun _ =>
  -- substate[subvar] = state[var]
  (state[var]?).bind fun sv =>
  (subWrite sub subvar sv).bind fun sub =>
  (c.varStartIdx var).bind fun varStart =>
  (c.hintBackStart p var phint).bind fun phint =>
  (c.hintUseExact p var phint varStart).bind fun useExact =>
  match useExact with
  | some ue =>
    -- set_using: substate[subvar] = node.get_op_ref().get_inputs()[relv]
    (c.nodeExpect ue.p).bind fun node =>
    (node.op.ins[ue.relv]?).bind fun b => subWrite sub subvar b
  | none =>
    (c.hintIterStart p var phint varStart).bind fun st =>
    match st with
    | none => some sub
    | some st =>
      (c.hintWalk p var (p + 1) st.p st.relv).bind fun x =>
      -- "Leave as None if wraps around": the test is `pcheck < next.p` here
      if x.pcheck < x.nextP then
        (x.node.op.outs[x.relv]?).bind fun b => subWrite sub subvar b
      else some sub

/-- `get_propagated_substate_with_hint(p, substate, state, vars, hint)`; `none` = the Rust panics -/
def propagatedSubstate (c : FastOps) (p : Nat) (sub state : List Bool) (vars : List Nat)
    (hint : List (Option Nat)) : Option (List Bool) :=
  ((hint.zip vars).zipIdx).foldl
    (fun (acc : Option (List Bool)) (x : (Option Nat × Nat) × Nat) =>
      acc.bind fun sub => c.hintSubVar p state sub x.2 x.1.1 x.1.2) (some sub)

/-! ### read-only iterators -/

/-- `Iterator::try_fold` -/
def tryFold {α β ε : Type} (f : α → β → Except ε β) : List α → β → Except ε β
  | [], t => .ok t
  | x :: xs, t =>
    match f x t with
    | .ok t' => tryFold f xs t'
    | .error e => .error e

/-- `try_iterate_ps(pstart, pend, t, f)`: `self.ops[min(pstart, len)..min(pend, len)]` (the slice
panics when the start exceeds the end) `.iter().try_fold(…)` -/
def tryIteratePs {τ ε : Type} (c : FastOps) (pstart pend : Nat) (t : τ)
    (f : FastOps → Option Op → τ → Except ε τ) : Option (Except ε τ) :=
  let a := min pstart c.ops.length
  let b := min pend c.ops.length
  if a > b then none
  else some (tryFold (fun (o : Option Node) t => f c (o.map (·.op)) t) ((c.ops.drop a).take (b - a)) t)

/-- "Find starting position." of `try_iterate_ops` (the same expression as in
`mutate_subsection_ops`); `self.ops[pstart..]` panics when `pstart > len` -/
def iterOpsStart (c : FastOps) (pstart : Nat) : Option (Option Nat) :=
  match c.pEnds with
  | none => some none
  | some (start, tail) =>
    if pstart ≤ start then some (some start)
    else if start > tail then some none
    else if pstart > c.ops.length then none
    else some (c.firstNodeFrom pstart)

/-- the `while let Some(node_p) = p` loop of `try_iterate_ops` -/
def iterOpsWalk {τ ε : Type} (c : FastOps) (f : FastOps → Op → Nat → τ → Except ε τ) (pend : Nat) :
    Nat → Option Nat → τ → Option (Except ε τ)
  | 0, _, _ => none
  | _ + 1, none, t => some (.ok t)
  | fuel + 1, some np, t =>
    if np > pend then some (.ok t) else
    match c.nodeExpect np with
    | none => none
    | some node =>
      match f c node.op np t with
      | .error e => some (.error e)
      | .ok t' => iterOpsWalk c f pend fuel node.nextP t'

/-- `try_iterate_ops(pstart, pend, t, f)` (`pend` INCLUSIVE, as in the code) -/
def tryIterateOps {τ ε : Type} (c : FastOps) (pstart pend : Nat) (t : τ)
    (f : FastOps → Op → Nat → τ → Except ε τ) : Option (Except ε τ) :=
  (c.iterOpsStart pstart).bind fun start => iterOpsWalk c f pend (c.ops.length + 1) start t

/-- `Result::unwrap` -/
def unwrapOk {τ ε : Type} : Except ε τ → Option τ
  | .ok t => some t
  | .error _ => none

/-- `DiagonalUpdater::iterate_ps` (trait default: `try_iterate_ps(… Ok(f(…))).unwrap()`) -/
def iteratePs {τ : Type} (c : FastOps) (pstart pend : Nat) (t : τ) (f : FastOps → Option Op → τ → τ) :
    Option τ :=
  (c.tryIteratePs (ε := Unit) pstart pend t (fun c o t => .ok (f c o t))).bind unwrapOk

/-- `DiagonalUpdater::iterate_ops` (trait default: `try_iterate_ops(… Ok(f(…))).unwrap()`) -/
def iterateOps {τ : Type} (c : FastOps) (pstart pend : Nat) (t : τ) (f : FastOps → Op → Nat → τ → τ) :
    Option τ :=
  (c.tryIterateOps (ε := Unit) pstart pend t (fun c o q t => .ok (f c o q t))).bind unwrapOk

end FastOps

/-! ## the scan specifications (naive slot array only) -/

/-- the op at position `q` restricted to variable `v`: its recorded output there -/
def outAt (s : Slots) (pr : PRel) : Option Bool := (slotAt s pr.p).bind (fun op => op.outs[pr.relv]?)

/-- propagated value of variable `v` just before slot `p`: the output of the last op before `p`
that touches `v`, or the `p = 0` value when there is none -/
def subAt (s : Slots) (state : List Bool) (v p : Nat) : Option Bool :=
  match prevRel s v p with
  | some pr => outAt s pr
  | none => state[v]?

/-- the `p = 0` state pushed through the slots (outputs written, inputs not checked — what
`itime_fold` does) -/
def pushOps (st : List Bool) : Slots → List Bool
  | [] => st
  | none :: t => pushOps st t
  | some o :: t => pushOps (writeVars st o.vars o.outs) t

/-- occupied slots `k, k+1, …, k+n-1` of a naive slot array, with their positions -/
def opsFrom (s : Slots) : Nat → Nat → List (Nat × Op)
  | _, 0 => []
  | k, n + 1 =>
    match slotAt s k with
    | some op => (k, op) :: opsFrom s (k + 1) n
    | none => opsFrom s (k + 1) n

/-- occupied slots with `pstart ≤ q ≤ pend` (and `q <` cutoff) -/
def scanOps (s : Slots) (pstart pend : Nat) : List (Nat × Op) :=
  opsFrom s pstart (min (pend + 1) s.length - pstart)

/-- slots `min(pstart, L) ≤ q < min(pend, L)` -/
def scanPs (s : Slots) (pstart pend : Nat) : Slots :=
  (s.drop (min pstart s.length)).take (min pend s.length - min pstart s.length)

/-! ## naive specification of the sub-variable branch of `mutate_subsection_ops` -/

/-- the op touches one of the listed variables -/
def sharesVar (vars : List Nat) (op : Op) : Bool := op.vars.any (fun v => vars.contains v)

/-- positions `p, p+1, …, p+k-1` of the naive slot array in order: the callback is asked at every
occupied slot whose op touches a listed variable (it sees the canonical container of the current slots,
the op and the position) and its answer is written back -/
def subOpsLoopA {τ : Type} (nv : Nat) (nb : Option Nat) (vars : List Nat)
    (f : FastOps → Op → Nat → τ → Option (Option Op) × τ) : Nat → Nat → Slots → τ → Slots × τ
  | _, 0, s, t => (s, t)
  | p, k + 1, s, t =>
    match slotAt s p with
    | some op =>
      if sharesVar vars op then
        let r := f (canon nv nb s) op p t
        subOpsLoopA nv nb vars f (p + 1) k (writeA s p r.1) r.2
      else subOpsLoopA nv nb vars f (p + 1) k s t
    | none => subOpsLoopA nv nb vars f (p + 1) k s t

end Qmc
