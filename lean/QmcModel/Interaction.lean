/-
Model of `Interaction` and its helpers in /repo/src/sse/qmc_runner.rs
(`get_power_of_two`, `get_mat_var_size`, `Interaction::{new,new_offset,new_diagonal,
new_diagonal_offset,at,is_constant,is_constant_diag,sym_under_ising,index_from_state}`),
and of the three classification flags `Qmc::add_interaction` derives from it.

Numbers are exact rationals; the tolerance `f64::EPSILON` is `eps = 2^-52`.
A Rust panic (slice index out of bounds) is an explicit outcome `Res.panic`; a returned
`Err(_)` is `Res.err`. Core Lean only.
-/
import QmcModel.Common

namespace Qmc

inductive Res (α : Type) where
  | ok (a : α)
  | err
  | panic
  deriving Repr, DecidableEq

namespace Res
def bind {α β} (r : Res α) (f : α → Res β) : Res β :=
  match r with
  | ok a => f a
  | err => err
  | panic => panic
def map {α β} (f : α → β) (r : Res α) : Res β := r.bind (fun a => ok (f a))
def isOk {α} : Res α → Bool
  | ok _ => true
  | _ => false
instance : Monad Res where
  pure := ok
  bind := bind
end Res

/-- `f64::EPSILON` -/
def eps : Rat := 1 / (2 ^ 52 : Nat)

/-- number of iterations of `while x > 0 { x >>= 1; i += 1 }` -/
def shiftCount : Nat → Nat
  | 0 => 0
  | x + 1 => shiftCount ((x + 1) / 2) + 1
decreasing_by omega

/-- `get_power_of_two` -/
def getPowerOfTwo (n : Nat) : Option Nat :=
  let i := shiftCount (n / 2)
  if 2 ^ i = n then some i else none

/-- `get_mat_var_size`: the exponent must be even (a full matrix has `4^n` entries).
(Unfixed code: `get_power_of_two(len).map(|i| i >> 1)` accepted odd exponents; see
known_findings F7.) -/
def getMatVarSize (len : Nat) : Option Nat :=
  match getPowerOfTwo len with
  | some i => if i % 2 = 0 then some (i / 2) else none
  | none => none

/-- The `try_fold` that compares each element with its predecessor. -/
def chainConst : List Rat → Bool
  | [] => true
  | [_] => true
  | a :: b :: t => decide (absR (a - b) < eps) && chainConst (b :: t)

inductive IType where
  | full (const : Bool)
  | diagonal
  deriving Repr, DecidableEq

structure Interaction where
  itype : IType
  mat : List Rat
  n : Nat
  vars : List Nat
  constDiag : Bool
  deriving Repr

/-- slice indexing `mat[i]` (panics when out of bounds) -/
def getP (l : List Rat) (i : Nat) : Res Rat :=
  match l[i]? with
  | some x => .ok x
  | none => .panic

def mapP (l : List Nat) (f : Nat → Res Rat) : Res (List Rat) :=
  match l with
  | [] => .ok []
  | a :: t =>
    match f a with
    | .ok x => (mapP t f).map (x :: ·)
    | .err => .err
    | .panic => .panic

/-- fold with `if acc < item { acc } else { item }` from `f64::MAX` (`none`) -/
def minFold (l : List Rat) : Option Rat :=
  l.foldl (fun acc item => match acc with
    | none => some item
    | some a => if a < item then some a else some item) none

namespace Interaction

/-- `Interaction::new_diagonal` -/
def newDiagonal (mat : List Rat) (vars : List Nat) : Res Interaction :=
  if mat.any (· < 0) then .err else
  match getPowerOfTwo mat.length with
  | none => .err
  | some n =>
    if vars.isEmpty then .err else
    if ¬ vars.Nodup then .err else   -- fix F26: a variable listed twice is rejected
    let cd := chainConst mat
    if n = vars.length then
      .ok { itype := .diagonal, mat := mat, n := n, vars := vars, constDiag := cd }
    else .err

/-- `Interaction::new_diagonal_offset` -/
def newDiagonalOffset (mat : List Rat) (vars : List Nat) : Res (Interaction × Rat) :=
  let minDiag := (minFold mat).getD 0   -- empty table: the value is irrelevant, `newDiagonal [] _ = err`
  let mat' := mat.map (· - minDiag)
  (newDiagonal mat' vars).map (fun i => (i, minDiag))

/-- `Interaction::new` -/
def new (mat : List Rat) (vars : List Nat) : Res Interaction :=
  if mat.any (· < 0) then .err else
  match getMatVarSize mat.length with
  | none => .err
  | some n =>
    if vars.isEmpty then .err else
    if ¬ vars.Nodup then .err else   -- fix F26: a variable listed twice is rejected
    if n ≠ vars.length then .err else
    let constant := chainConst mat
    match mapP (List.range (2 ^ n)) (fun row => getP mat (row * 2 ^ n + row)) with
    | .ok diag =>
      .ok { itype := .full constant, mat := mat, n := n, vars := vars,
            constDiag := chainConst diag }
    | .err => .err
    | .panic => .panic

/-- subtract `d` at the listed indices (in order; `mat[i] -= d`, panics out of bounds) -/
def subAt (mat : List Rat) (d : Rat) : List Nat → Res (List Rat)
  | [] => .ok mat
  | i :: t =>
    match mat[i]? with
    | some x => subAt (mat.set i (x - d)) d t
    | none => .panic

/-- `Interaction::new_offset` -/
def newOffset (mat : List Rat) (vars : List Nat) : Res (Interaction × Rat) :=
  match getMatVarSize mat.length with
  | none => .err
  | some n =>
    let tn := 2 ^ n
    let idxs := (List.range tn).map (fun i => (1 + tn) * i)
    match mapP idxs (getP mat) with
    | .ok diag =>
      let minDiag := (minFold diag).getD 0
      match subAt mat minDiag idxs with
      | .ok mat' => (new mat' vars).map (fun i => (i, minDiag))
      | .err => .err
      | .panic => .panic
    | .err => .err
    | .panic => .panic

def isConstant (i : Interaction) : Bool := i.itype == .full true
def isConstantDiag (i : Interaction) : Bool := i.constDiag

/-- `index_from_iter`: most significant bit first -/
def indexFromBits (bs : List Bool) : Nat :=
  bs.foldl (fun acc b => acc * 2 + (if b then 1 else 0)) 0

/-- `Interaction::at` -/
def atP (i : Interaction) (ins outs : List Bool) : Res Rat :=
  if ins.length ≠ i.n ∨ outs.length ≠ i.n then .err else
  match i.itype with
  | .full true => getP i.mat 0
  | .full false =>
    let idx := indexFromBits (outs ++ ins)
    if idx < i.mat.length then getP i.mat idx else .err
  | .diagonal =>
    if ins = outs then
      let idx := indexFromBits ins
      if idx < i.mat.length then getP i.mat idx else .err
    else .ok 0

/-- all index pairs `(idx, (!idx) & mask)` compared within `eps` -/
def flipPairsOk (mat : List Rat) (mask count : Nat) : Res Bool :=
  (List.range count).foldl (fun acc idx =>
    match acc with
    | .ok true =>
      match mat[idx]?, mat[mask - idx]? with
      | some a, some b => .ok (decide (absR (a - b) < eps))
      | _, _ => .panic
    | other => other) (.ok true)

/-- `Interaction::sym_under_ising` (fixed bounds: every index is compared with its complement;
the unfixed code only looked at `0..2^n` of `2^(2n)` (full) and `0..2^(n/2)` of `2^n`
(diagonal) entries; see known_findings F5). -/
def symUnderIsing (i : Interaction) : Res Bool :=
  match i.itype with
  | .full true => .ok true
  | .full false => flipPairsOk i.mat (2 ^ (2 * i.n) - 1) (2 ^ (2 * i.n))
  | .diagonal =>
    if i.constDiag then .ok true
    else flipPairsOk i.mat (2 ^ i.n - 1) (2 ^ i.n)

end Interaction

/-- `is_valid_cluster_edge` -/
def isValidClusterEdge (isConstant : Bool) (nvars : Nat) : Bool := isConstant && nvars == 1

/-- all bit patterns of length `n`, in increasing index order (msb first) -/
def patterns : Nat → List (List Bool)
  | 0 => [[]]
  | n + 1 => (patterns n).map (false :: ·) ++ (patterns n).map (true :: ·)

end Qmc
