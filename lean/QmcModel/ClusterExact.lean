/-
Exact executable model of the cluster update as a *function* (C09, step B) and the definitions the
component theorems (QmcProofs/ClusterComponents.lean) are stated with. Core Lean only.

* `flipConfig D c` — flip the legs `i` (leg ids of `legGraph`, Cluster.lean) with `D i = true`; the
  state at p = 0 of a variable follows the input leg of its first op.
* `flipComponent sk r c` — `D` = the connected component of `legGraph sk` whose label
  (`componentLabels`, smallest leg id) is `r`.
* `traverse sk` — transliteration of the traversal of `flip_each_cluster_rng` /
  `expand_whole_cluster` (src/sse/qmc_traits/cluster.rs): same stacks (`frontier`, `interior_frontier`
  are LIFO `StackTuplizer`s), same boundary bookkeeping (`set_boundary`, `set_boundaries`, the
  "(None, None) hack" match), same search for unmapped ops. It yields the *order* in which the Rust
  numbers its clusters (one representative leg per cluster number), the returned count, and its own
  boundary labels (compared with the components by the driver).
* `clusterUpdate prob fr c rs` — the update: traversal order, one `gen_bool(c_k·prob)` per cluster in
  that order (`clusterFlips`), flip of the union of the accepted clusters, tags by the rule of
  `edit_in_out`. The set flipped for draw `k` is the *component* of the k-th representative (so the
  function provably lands in `ClusterMove`); that the traversal's own labels are those components is
  checked per case by the driver.
-/
import QmcModel.Cluster

namespace Qmc

/-! ### flipping a set of legs -/

/-- values carried by the legs, in leg-id order (`legDiff b a = legVals (maskSlots b a)`) -/
def legVals : Slots → List Bool
  | [] => []
  | none :: t => legVals t
  | some o :: t => o.ins ++ o.outs ++ legVals t

/-- the leg set `D` (a predicate on leg ids) as a mask string on the skeleton of `s`;
`off` = leg id of the first leg of `s` -/
def legMaskSlots (D : Nat → Bool) : Nat → Slots → Slots
  | _, [] => []
  | off, none :: t => none :: legMaskSlots D off t
  | off, some o :: t =>
    let nv := o.vars.length
    some { vars := o.vars, bond := o.bond, ins := (List.range nv).map fun k => D (off + k),
           outs := (List.range nv).map fun k => D (off + nv + k), tagDiag := false, const := o.const }
      :: legMaskSlots D (off + 2 * nv) t

/-- flip the legs in `D` (values only; tags untouched) -/
def flipLegs (D : Nat → Bool) : Nat → Slots → Slots
  | _, [] => []
  | off, none :: t => none :: flipLegs D off t
  | off, some o :: t =>
    let nv := o.vars.length
    some { o with ins := xorB o.ins ((List.range nv).map fun k => D (off + k)),
                  outs := xorB o.outs ((List.range nv).map fun k => D (off + nv + k)) }
      :: flipLegs D (off + 2 * nv) t

/-- `state[v]` is flipped iff the input leg of the first op on `v` is (the link crossing p = 0) -/
def xorState (st : List Bool) (m : Slots) : List Bool :=
  st.mapIdx fun v x => x != (firstIn v m).getD false

def flipConfig (D : Nat → Bool) (c : Config) : Config :=
  { state := xorState c.state (legMaskSlots D 0 c.slots), slots := flipLegs D 0 c.slots }

/-- connected components of the leg graph of a skeleton: `compLab sk [i]` = smallest leg id
connected to leg `i` -/
def compLab (sk : Skel) : Array Nat := componentLabels (legGraph sk)

/-- flip the component of `legGraph sk` with label `r` -/
def flipComponent (sk : Skel) (r : Nat) (c : Config) : Config :=
  let lab := compLab sk
  flipConfig (fun i => lab[i]! == r) c

/-- the tag rule of `edit_in_out` applied to a result: an op whose values changed gets
`Diagonal` iff inputs = outputs; an untouched op keeps its tag -/
def retagSlots : Slots → Slots → Slots
  | some ob :: tb, some oa :: ta =>
    some { oa with tagDiag := if oa.ins == ob.ins && oa.outs == ob.outs then ob.tagDiag
                              else oa.ins == oa.outs } :: retagSlots tb ta
  | _ :: tb, x :: ta => x :: retagSlots tb ta
  | _, ta => ta

/-- all tags canonical (what `flipComponent` followed by the tag rule gives on canonical strings) -/
def canonSlots (s : Slots) : Slots := s.map (Option.map fun o => { o with tagDiag := o.ins == o.outs })

/-! ### the traversal of `flip_each_cluster_rng`, transliterated -/

/-- navigation tables of a skeleton: per position the op, the leg-id offset of its first leg, and
per relative variable the cyclic predecessor / successor `(p', relvar')` on that variable
(`get_previous_p_for_rel_var` or else `get_last_p_for_var`; `get_next_p_for_rel_var` or else
`get_first_p_for_var`). -/
structure Nav where
  ops : Array (Option SkOp)
  off : Array Nat
  prev : Array (Array (Nat × Nat))
  next : Array (Array (Nat × Nat))
  nlegs : Nat

def setPN (a : Array (Array (Nat × Nat))) (p k : Nat) (x : Nat × Nat) : Array (Array (Nat × Nat)) :=
  a.modify p fun r => r.set! k x

def mkNav (sk : Skel) : Nav :=
  let ops := sk.toArray
  let nvarsUB := sk.foldl (fun m o => match o with
    | some o => o.vars.foldl (fun m v => max m (v + 1)) m
    | none => m) 0
  let blank : Array (Array (Nat × Nat)) :=
    ops.map fun o => match o with
      | some o => Array.replicate o.vars.length (0, 0)
      | none => #[]
  let init : Nat × Array Nat × Array (Array (Nat × Nat)) × Array (Array (Nat × Nat)) ×
      Array (Option (Nat × Nat)) × Array (Option (Nat × Nat)) :=
    (0, #[], blank, blank, Array.replicate nvarsUB none, Array.replicate nvarsUB none)
  let (nlegs, off, prev, next, first, last) :=
    (List.range ops.size).foldl (fun (acc : Nat × Array Nat × Array (Array (Nat × Nat)) ×
        Array (Array (Nat × Nat)) × Array (Option (Nat × Nat)) × Array (Option (Nat × Nat))) p =>
      let (o, offs, prev, next, first, last) := acc
      match ops[p]! with
      | none => (o, offs.push o, prev, next, first, last)
      | some op =>
        let (prev, next, first, last) :=
          ((List.range op.vars.length).zip op.vars).foldl (fun (st : Array (Array (Nat × Nat)) ×
              Array (Array (Nat × Nat)) × Array (Option (Nat × Nat)) × Array (Option (Nat × Nat))) kv =>
            let (prev, next, first, last) := st
            let (k, v) := kv
            match last[v]! with
            | some (p', k') => (setPN prev p k (p', k'), setPN next p' k' (p, k), first, last.set! v (some (p, k)))
            | none => (prev, next, first.set! v (some (p, k)), last.set! v (some (p, k))))
            (prev, next, first, last)
        (o + 2 * op.vars.length, offs.push o, prev, next, first, last)) init
  -- close every world line: first op on a variable ↔ last op on it
  let (prev, next) := (List.range nvarsUB).foldl (fun (st : Array (Array (Nat × Nat)) × Array (Array (Nat × Nat))) v =>
    match first[v]!, last[v]! with
    | some (pf, kf), some (pl, kl) => (setPN st.1 pf kf (pl, kl), setPN st.2 pl kl (pf, kf))
    | _, _ => st) (prev, next)
  { ops := ops, off := off, prev := prev, next := next, nlegs := nlegs }

def Nav.isEdgeAt (nav : Nav) (p : Nat) : Bool :=
  match nav.ops[p]! with | some o => o.isEdge | none => false

def Nav.nvAt (nav : Nav) (p : Nat) : Nat :=
  match nav.ops[p]! with | some o => o.vars.length | none => 0

/-- traversal state; sides: `false` = `OpSide::Inputs`, `true` = `OpSide::Outputs` -/
structure Trav where
  bin : Array (Option Nat)
  bout : Array (Option Nat)
  /-- `frontier` (head = top of the stack) -/
  frontier : List (Nat × Bool) := []
  /-- representative leg id of cluster 0, 1, … -/
  reps : Array Nat := #[]
  /-- an `unreachable!()` was reached, or the fuel ran out -/
  bad : Bool := false

/-- `set_boundary`; returns whether both sides are set afterwards -/
def Trav.setBoundary (t : Trav) (p : Nat) (side : Bool) (c : Nat) : Trav × Bool :=
  let a := t.bin[p]!
  let b := t.bout[p]!
  let (t, a, b) :=
    if !side then
      match a with
      | none => ({ t with bin := t.bin.set! p (some c) }, some c, b)
      | some c' => if c' == c then (t, a, b) else ({ t with bad := true }, a, b)
    else
      match b with
      | none => ({ t with bout := t.bout.set! p (some c) }, a, some c)
      | some c' => if c' == c then (t, a, b) else ({ t with bad := true }, a, b)
  (t, a.isSome && b.isSome)

/-- all legs of the op at `p`: inputs `0..nv`, then outputs `0..nv` (iteration order of the Rust) -/
def allLegs (p nv : Nat) : List (Nat × Nat × Bool) :=
  (List.range nv).map (fun v => (p, v, false)) ++ (List.range nv).map (fun v => (p, v, true))

/-- push a list onto a stack in iteration order (`extend`): the last pushed is on top -/
def pushAll {α : Type} (stack : List α) (xs : List α) : List α := xs.reverse ++ stack

/-- the `while let Some((p, leg)) = interior_frontier.pop()` loop of `expand_whole_cluster` -/
def expandLoop (nav : Nav) (c : Nat) : Nat → List (Nat × Nat × Bool) → Trav → Trav
  | 0, _, t => { t with bad := true }
  | _, [], t => t
  | fuel + 1, (p, relvar, side) :: rest, t =>
    let (t, _) := t.setBoundary p side c
    let (np, nrel) := if !side then (nav.prev[p]!)[relvar]! else (nav.next[p]!)[relvar]!
    let nside := !side
    if nav.isEdgeAt np then
      let (t, both) := t.setBoundary np nside c
      let t := if !both then { t with frontier := (np, !nside) :: t.frontier } else t
      expandLoop nav c fuel rest t
    else
      let a := t.bin[np]!
      let b := t.bout[np]!
      let enter := (a.isNone && b.isNone) || (a == some c && b.isNone) || (a.isNone && b == some c)
      if enter then
        let (t, _) := t.setBoundary np false c
        let (t, _) := t.setBoundary np true c
        let newLegs := (allLegs np (nav.nvAt np)).filter fun l => !(l.2.1 == nrel && l.2.2 == nside)
        expandLoop nav c fuel (pushAll rest newLegs) t
      else expandLoop nav c fuel rest t

/-- `expand_whole_cluster(c, p, (0, side), cluster_num, …)` -/
def expandWhole (nav : Nav) (fuel : Nat) (p : Nat) (side : Bool) (c : Nat) (t : Trav) : Trav :=
  let start := if !nav.isEdgeAt p then pushAll [] (allLegs p (nav.nvAt p)) else [(p, 0, side)]
  expandLoop nav c fuel start t

/-- first position holding an op whose boundaries are both unset -/
def Trav.unmapped (nav : Nav) (t : Trav) : Option Nat :=
  (List.range nav.ops.size).find? fun p => (nav.ops[p]!).isSome && (t.bin[p]!).isNone && (t.bout[p]!).isNone

/-- the outer `loop` of `flip_each_cluster_rng` (one unit of fuel per frontier pop / refill) -/
def travLoop (nav : Nav) (efuel : Nat) : Nat → Trav → Trav
  | 0, t => { t with bad := true }
  | fuel + 1, t =>
    match t.frontier with
    | (p, side) :: rest =>
      let t := { t with frontier := rest }
      if (t.bin[p]!).isSome && (t.bout[p]!).isSome then travLoop nav efuel fuel t
      else
        let c := t.reps.size
        let t := expandWhole nav efuel p side c t
        let rep := nav.off[p]! + (if side then nav.nvAt p else 0)
        travLoop nav efuel fuel { t with reps := t.reps.push rep }
    | [] =>
      match t.unmapped nav with
      | some p => travLoop nav efuel fuel { t with frontier := [(p, false), (p, true)] }
      | none => t

structure TravResult where
  /-- the value `flip_each_cluster_rng` returns -/
  count : Nat
  /-- "The whole thing is one cluster" branch (no constant single-site op) -/
  whole : Bool
  /-- representative leg of cluster 0, 1, … (empty in the `whole` branch) -/
  reps : List Nat
  bin : Array (Option Nat)
  bout : Array (Option Nat)
  bad : Bool

/-- `find_constant_op`: first position (time order) holding a valid cluster edge -/
def findConstantOp (sk : Skel) : Option Nat :=
  (List.range sk.length).find? fun p => match sk[p]? with | some (some o) => o.isEdge | _ => false

def skCount (sk : Skel) : Nat := (sk.filter Option.isSome).length

def traverse (sk : Skel) : TravResult :=
  if skCount sk == 0 then { count := 0, whole := false, reps := [], bin := #[], bout := #[], bad := false }
  else
    let nav := mkNav sk
    match findConstantOp sk with
    | none =>
      let lab : Array (Option Nat) := nav.ops.map fun o => if o.isSome then some 0 else none
      { count := 1, whole := true, reps := [], bin := lab, bout := lab, bad := false }
    | some cp =>
      let fuel := 4 * (nav.nlegs + 8) * (nav.nlegs + 8)
      let t0 : Trav := { bin := Array.replicate nav.ops.size none, bout := Array.replicate nav.ops.size none,
                         frontier := [(cp, false), (cp, true)] }
      let t := travLoop nav fuel fuel t0
      { count := t.reps.size, whole := false, reps := t.reps.toList, bin := t.bin, bout := t.bout, bad := t.bad }

/-! ### the update as a function -/

/-- is leg `i` in cluster number `k` (given by its representative leg `r`) -/
def inCluster (whole : Bool) (lab : Array Nat) (r i : Nat) : Bool := whole || lab[i]! == lab[r]!

/-- the closure's factor for a cluster: 0 when the cluster holds an op of flip weight 0 whose two
sides lie in it (`if input_cluster == output_cluster { flips_weights[..] *= f(node) }`), else 1 -/
def clusterWeight (fr : SkOp → Bool) (whole : Bool) (lab : Array Nat) (opsAt : List (Nat × SkOp)) (r : Nat) : Rat :=
  if opsAt.any (fun (off, o) =>
      fr o && decide (0 < o.vars.length) && inCluster whole lab r off &&
      (!o.isEdge || whole || lab[off]! == lab[off + 1]!)) then 0 else 1

/-- legs flipped: the union of the accepted clusters -/
def flippedLegs (whole : Bool) (lab : Array Nat) (reps : List Nat) (flips : List Bool) (i : Nat) : Bool :=
  (reps.zip flips).any fun (r, f) => f && inCluster whole lab r i

structure UpdateTrace where
  trav : TravResult
  weights : List Rat
  flips : List Bool

/-- everything `clusterUpdate` computes on the way (the driver prints some of it) -/
def clusterUpdateTrace (prob : Rat) (fr : SkOp → Bool) (c : Config) (rs : RS) : UpdateTrace × Config × RS :=
  let sk := skeleton c.slots
  let tr := traverse sk
  if tr.count == 0 then ({ trav := tr, weights := [], flips := [] }, c, rs)
  else
    let g := legGraph sk
    let lab := compLab sk
    let reps := if tr.whole then [0] else tr.reps
    let ws := reps.map (clusterWeight fr tr.whole lab g.opsAt)
    let (flips, rs') := clusterFlips prob ws rs
    let a := flipConfig (flippedLegs tr.whole lab reps flips) c
    ({ trav := tr, weights := ws, flips := flips }, { a with slots := retagSlots c.slots a.slots }, rs')

/-- `flip_each_cluster_rng(prob, rng, state, Some(|node| if fr node {0.0} else {1.0}))` on the
configuration `c` with the RNG script `rs`: (configuration after, returned count, RNG after).
With `fr = fun _ => false` this is `flip_each_cluster_ising_symmetry_rng`. -/
def clusterUpdate (prob : Rat) (fr : SkOp → Bool) (c : Config) (rs : RS) : Config × Nat × RS :=
  let r := clusterUpdateTrace prob fr c rs
  (r.2.1, r.1.trav.count, r.2.2)

end Qmc
