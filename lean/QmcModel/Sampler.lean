/-
End-to-end exact model of ONE WHOLE `timestep` of each sampler (RVB off): the parametrised step
functions of QmcModel/SamplerCore.lean with the exact kernels plugged in —

* cluster update  = `clusterUpdate` of QmcModel/ClusterExact.lean (C09: the Rust's traversal order,
  cluster numbering and draw order);
* loop update     = `StepLoop.loopUpdate`, the verbatim copy of C04's `loopUpdate` (QmcModel/Loop.lean
  cannot be imported next to QmcModel/Cluster.lean: both declare `Qmc.Leg`; see SamplerLoop.lean);
* sweeps          = `metropolisSweep` / `heatBathSweep` (C08), table = `makeBondWeights`;
* cutoff rule     = `nextCutoff` (C12);
* Ising Hamiltonian = `IsingSpec.ham` (QmcModel/IsingHam.lean; `isingHam` of QmcModel/Ham.lean cannot
  be imported next to QmcModel/Cluster.lean: both declare `Qmc.absR`).

`drv_step` (Drivers/Step.lean) replays whole real `timestep`s with these functions. Core Lean only.
-/
import QmcModel.SamplerCore
import QmcModel.SamplerLoop
import QmcModel.ClusterExact

namespace Qmc.Sampler
open Qmc

/-- `flip_each_cluster_rng(prob, rng, state, closure)` as a `ClusterK`: the exact `clusterUpdate`;
an `unreachable!()` / fuel exhaustion of the traversal model is reported through the RNG verdict -/
def clusterK : ClusterK := fun prob fz c rs =>
  let r := clusterUpdateTrace prob (fun o => fz o.bond) c rs
  (r.2.1, if r.1.trav.bad then { r.2.2 with panicked := true } else r.2.2)

theorem clusterK_cfg (prob : Rat) (fz : Nat → Bool) (c : Config) (rs : RS) :
    (clusterK prob fz c rs).1 = (clusterUpdate prob (fun o => fz o.bond) c rs).1 := rfl

/-- `make_loop_update_with_rng(None, h, state, rng)` -/
def loopK : LoopK := StepLoop.loopUpdate

/-- `QmcIsingGraph::timestep(beta)`, `run_rvb_steps = false` -/
def isingTimestep (s : IsingSampler) (β : Rat) (rs : RS) : IsingSampler × RS :=
  isingTimestepWith clusterK s β rs

def isingRun (βs : List Rat) (s : IsingSampler) (rs : RS) : IsingSampler × RS :=
  isingRunWith clusterK βs s rs

/-- `Qmc::timestep(beta)` -/
def genericTimestep (s : GenericSampler) (β : Rat) (rs : RS) : GenericSampler × RS :=
  genericTimestepWith loopK clusterK s β rs

def genericRun (βs : List Rat) (s : GenericSampler) (rs : RS) : GenericSampler × RS :=
  genericRunWith loopK clusterK βs s rs

/-! ### protocol -/
namespace Proto
open Qmc.Proto

/-- `F:vars:mat!D:vars:mat!…` (`-` = none) -/
def parseGBonds (s : String) : List GBond :=
  if s == "-" then [] else
  (s.splitOn "!").filterMap fun tok =>
    match tok.splitOn ":" with
    | [k, vs, m] => some { full := (k == "F"), vars := parseNats vs, mat := parseRats m }
    | _ => none

def b2s (b : Bool) : String := if b then "1" else "0"

/-- `ising <I!n!edges!Γ!h> <heatbath 0|1> <β> <cutoff> <state> <slots> <draw log>` →
`<slots'> <state'> <n> <cutoff'> <rng verdict>` -/
def isingStep (spec hb beta cutoff state slots script : String) : String :=
  match parseIsing spec with
  | none => "bad-spec"
  | some sp =>
    let s0 : IsingSampler :=
      { spec := sp, state := parseBits state, slots := parseSlots slots, cutoff := parseNat cutoff }
    let s := s0.setEnableHeatbath (hb == "1")
    let (s', rs) := isingTimestep s (parseRat beta) (RS.ofScript (parseNats script))
    s!"{showSlots s'.slots} {showBits s'.state} {s'.n} {s'.cutoff} {rs.verdict}"

/-- `generic <bonds> <do_loop 0|1> <heatbath 0|1> <β> <cutoff> <state> <slots> <draw log>` →
`<slots'> <state'> <n> <cutoff'> <should_do_cluster_update> <rng verdict>`; the sampler is rebuilt by the
public calls `new_with_state`, `make_*interaction` (in order), `set_do_heatbath` — so the table is the one
a correct `add_interaction` / lazy construction yields -/
def genericStep (bonds doLoop hb beta cutoff state slots script : String) : String :=
  let s0 := (parseGBonds bonds).foldl GenericSampler.addInteraction
    (GenericSampler.new (parseBits state) (doLoop == "1"))
  let s1 := (s0.setDoHeatbath (hb == "1"))
  let s : GenericSampler := { s1 with cutoff := parseNat cutoff, slots := parseSlots slots }
  let (s', rs) := genericTimestep s (parseRat beta) (RS.ofScript (parseNats script))
  s!"{showSlots s'.slots} {showBits s'.state} {s'.n} {s'.cutoff} {b2s s.shouldCluster} {rs.verdict}"

def step (toks : List String) : String :=
  match toks with
  | ["ising", spec, hb, beta, cutoff, state, slots, script] => isingStep spec hb beta cutoff state slots script
  | ["generic", bonds, doLoop, hb, beta, cutoff, state, slots, script] =>
    genericStep bonds doLoop hb beta cutoff state slots script
  | _ => "bad-op"

end Proto
end Qmc.Sampler
