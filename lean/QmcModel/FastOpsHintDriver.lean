/-
C11, hint fills and read-only iterators: the stateless line step used by `drv_c11` for the kinds
`hintfill`, `hintsub`, `iterps`, `iterops` (harness/src/bin/c11h.rs).  The container of every line
is rebuilt from the printed contents as `canon nvars none slots` — the object the theorems of
QmcProps/C11Hint.lean speak about — and the MODEL WALKS of QmcModel/FastOpsHint.lean run on it.
The last token of every answer says whether the walk's result equals the naive scan
(`eq` / `ne`, `NA` after a panic); the harness computes the same flag from the real code's result
and its own scan of `get_pth`.  Core Lean only.
-/
import QmcModel.FastOpsHint
import QmcModel.FastOpsCounters

namespace Qmc.C11H
open Qmc Qmc.Proto Qmc.FastOps

def optNatS : Option Nat → String
  | some x => toString x
  | none => "_"

def joinOrS (sep : String) (xs : List String) : String :=
  if xs.isEmpty then "-" else String.intercalate sep xs

/-- `_,5,_` / `-` -/
def parseHints (tok : String) : List (Option Nat) :=
  if tok == "-" || tok == "" then [] else
  (tok.splitOn ",").map fun t => if t == "_" then none else some (parseNat t)

/-- `p:hints` -/
def parseFill (tok : String) : Nat × List (Option Nat) :=
  match tok.splitOn ":" with
  | [p, h] => (parseNat p, parseHints h)
  | _ => (0, [])

def showItems (a : Cursor) : String :=
  joinOrS "," ((a.lastVars.zip a.lastRels).map fun (lv, lr) =>
    match lv, lr with
    | none, none => "_"
    | _, _ => s!"{optNatS lv}.{optNatS lr}")

/-- `hintfill <nvars> <slots> <vars> <p:hints>/<p:hints>/…`: `get_empty_args(Varlist(vars))`, then the
fills in order on the same args -/
def stepFill (nvT slotsT varsT fillsT : String) : String :=
  let s := parseSlots slotsT
  let c := canon (parseNat nvT) none s
  let vars := parseNats varsT
  let fills := (fillsT.splitOn "/").map parseFill
  let a0 := c.getEmptyArgsVarlist vars
  let r := fills.foldl (fun (acc : Option Cursor) ph => acc.bind fun a => c.fillArgsWithHint ph.1 a vars ph.2) (some a0)
  match r with
  | none => "panic - 0 NA"
  | some a =>
    let p := (fills.getLast?.map (·.1)).getD 0
    let eqScan := decide (a.lastP = prevOcc (occAt s) p) &&
      decide (a.lastVars = vars.map (fun v => (prevRel s v p).map (·.p))) &&
      decide (a.lastRels = vars.map (fun v => (prevRel s v p).map (·.relv)))
    s!"{optNatS a.lastP} {showItems a} {a.unfilled} {if eqScan then "eq" else "ne"}"

/-- `hintsub <nvars> <slots> <p> <vars> <hints> <state> <substate0>` -/
def stepSub (nvT slotsT pT varsT hintsT stateT subT : String) : String :=
  let s := parseSlots slotsT
  let c := canon (parseNat nvT) none s
  let vars := parseNats varsT
  let p := parseNat pT
  let state := parseBits stateT
  match c.propagatedSubstate p (parseBits subT) state vars (parseHints hintsT) with
  | none => "panic NA"
  | some sub =>
    let want := vars.map (fun v => subAt s state v p)
    s!"{showBits sub} {if decide (sub.map some = want) then "eq" else "ne"}"

/-- `recycle <nvars> <slots> <route> <vars|*> <p> <hints|->`: args are prepared at `p` (route `A`:
`get_empty_args(All)` + `fill_args_at_p`; `H`: `get_empty_args(Varlist(vars))` + `fill_args_at_p_with_hint`; `E`:
nothing, the empty args of `vars` / `*`), then handed back through `get_empty_args(SubvarAccess::Args(·))` and
`fill_args_at_p(p, ·)` once more; the answer is the cursor after that -/
def stepRecycle (nvT slotsT route varsT pT hintsT : String) : String :=
  let s := parseSlots slotsT
  let nv := parseNat nvT
  let c := canon nv none s
  let p := parseNat pT
  let vars := if varsT == "*" then List.range nv else parseNats varsT
  let empty := if varsT == "*" then c.getEmptyArgsAll else c.getEmptyArgsVarlist vars
  let a1 : Option Cursor :=
    if route == "A" then some (c.fillArgsAtP p empty)
    else if route == "H" then c.fillArgsWithHint p empty vars (parseHints hintsT)
    else some empty
  match a1 with
  | none => "panic - 0 NA"
  | some a1 =>
    let a := c.fillArgsAtP p (c.getEmptyArgsFromArgs a1)
    let eqScan := decide (a.lastP = prevOcc (occAt s) p) &&
      decide (a.lastVars = vars.map (fun v => (prevRel s v p).map (·.p))) &&
      decide (a.lastRels = vars.map (fun v => (prevRel s v p).map (·.relv)))
    s!"{optNatS a.lastP} {showItems a} {a.unfilled} {if eqScan then "eq" else "ne"}"

/-- `counts <nbonds> <events>`: the per-bond counter table after the history's counter events (`+b` an op of bond `b`
was stored, `-b` removed), replayed with `bumpCount` (growth on demand) / `dropCount`; then `get_count(0 .. len + 2)` -/
def stepCounts (nbT evT : String) : String :=
  let evs : List (Bool × Nat) := if evT == "-" || evT == "" then [] else
    (evT.splitOn ",").map fun t => (t.startsWith "+", parseNat (t.drop 1).toString)
  match Qmc.Counters.replay (parseNat nbT) evs with
  | none => "panic -"
  | some cs =>
    let gc := (List.range (cs.length + 2)).map fun b => Qmc.Counters.getCountT cs b
    s!"bc:{showNats cs} gc:{showNats gc}"

def showLogPs (l : List (Option Op)) : String :=
  joinOrS "+" (l.map fun o => match o with | some op => showOp op | none => "_")

def showLogOps (l : List (Nat × Op)) : String :=
  joinOrS "+" (l.map fun (q, op) => s!"{q}@{showOp op}")

def showRes {α : Type} (sh : List α → String) : Option (Except (List α) (List α)) → String
  | none => "panic -"
  | some (.ok l) => s!"ok {sh l}"
  | some (.error l) => s!"err {sh l}"

/-- the callback of the harness: log what is visited; `Err(log)` once `stop` entries are logged -/
def logStep {α : Type} (stop : Option Nat) (x : α) (log : List α) : Except (List α) (List α) :=
  let log := log ++ [x]
  if stop = some log.length then .error log else .ok log

/-- `iterps <nvars> <slots> <ps> <pe> <stop>`: `try_iterate_ps` with the logging callback, then
`iterate_ps` collecting everything -/
def stepIterPs (nvT slotsT psT peT stopT : String) : String :=
  let s := parseSlots slotsT
  let c := canon (parseNat nvT) none s
  let ps := parseNat psT
  let pe := parseNat peT
  let stop := if stopT == "_" then none else some (parseNat stopT)
  let r1 := c.tryIteratePs ps pe ([] : List (Option Op)) (fun _ o log => logStep stop o log)
  let r2 := c.iteratePs ps pe ([] : List (Option Op)) (fun _ o log => log ++ [o])
  let want := scanPs s ps pe
  let flag := match r2 with
    | none => "NA"
    | some l => if decide (l = want) then "eq" else "ne"
  s!"{showRes showLogPs r1} {showRes showLogPs (r2.map .ok)} {flag}"

/-- `iterops <nvars> <slots> <ps> <pe> <stop>` -/
def stepIterOps (nvT slotsT psT peT stopT : String) : String :=
  let s := parseSlots slotsT
  let c := canon (parseNat nvT) none s
  let ps := parseNat psT
  let pe := parseNat peT
  let stop := if stopT == "_" then none else some (parseNat stopT)
  let r1 := c.tryIterateOps ps pe ([] : List (Nat × Op)) (fun _ o q log => logStep stop (q, o) log)
  let r2 := c.iterateOps ps pe ([] : List (Nat × Op)) (fun _ o q log => log ++ [(q, o)])
  let want := scanOps s ps pe
  let flag := match r2 with
    | none => "NA"
    | some l => if decide (l = want) then "eq" else "ne"
  s!"{showRes showLogOps r1} {showRes showLogOps (r2.map .ok)} {flag}"

/-- the kinds this step answers -/
def handles (kind : String) : Bool :=
  kind == "hintfill" || kind == "hintsub" || kind == "iterps" || kind == "iterops" || kind == "histpanic" ||
  kind == "recycle" || kind == "histbad" || kind == "counts"

def stepToks : List String → String
  | ["hintfill", nv, sl, vars, fills] => stepFill nv sl vars fills
  | ["hintsub", nv, sl, p, vars, hints, state, sub] => stepSub nv sl p vars hints state sub
  | ["iterps", nv, sl, ps, pe, stop] => stepIterPs nv sl ps pe stop
  | ["iterops", nv, sl, ps, pe, stop] => stepIterOps nv sl ps pe stop
  -- the harness reports a panic inside a valid public mutation of its history: the model never panics there
  | ["histpanic", _] => "no-panic"
  | ["recycle", nv, sl, route, vars, p, hints] => stepRecycle nv sl route vars p hints
  -- the harness found the real container's getters / contents off a scan after a valid mutation
  | ["histbad", _] => "consistent"
  | ["counts", nb, evs] => stepCounts nb evs
  | _ => "bad-line"

/-- one input line → one answer line -/
def step (line : String) : String := stepToks (tokens line)

end Qmc.C11H
