/-
Sampler-level interaction constructors of /repo/src/sse/qmc_runner.rs as the code writes them
after the F31 repair (2abb7bf):

  `Qmc::add_interaction`                          (private, returns `Result<(), String>`)
  `Qmc::make_interaction`                         = `Interaction::new(..)?`               ; `add_interaction`
  `Qmc::make_interaction_and_offset`              = `Interaction::new_offset(..)?`        ; `add_interaction(..)?` ; `offset -= d`
  `Qmc::make_diagonal_interaction`                = `Interaction::new_diagonal(..)?`      ; `add_interaction`
  `Qmc::make_diagonal_interaction_and_offset`     = `Interaction::new_diagonal_offset(..)?`; `add_interaction(..)?` ; `offset -= d`

`add_interaction` checks FIRST that every variable of the interaction is below the sampler's number
of variables (`self.state.len()`; `Interaction::new*` cannot know it) and returns `Err` without
touching anything otherwise; then, in this order: `has_cluster_edges`, `breaks_ising_symmetry`
(`sym_under_ising` indexes the matrix: a panic there is the outcome `Res.panic`),
`non_const_diags.push(bonds.len())`, `bond_weights = None`, `bonds.push`.

The state is the part of `Qmc<R, M>` these functions read or write. The heat-bath table
(`bond_weights`) is carried as an opaque payload: the constructors only ever reset it.
The standalone constructors are the ones of `QmcModel/Interaction.lean`. Core Lean only.

(Other models of `add_interaction` exist for other properties — `Qmc.addInteraction` of
QmcModel/Generic.lean (C04), `Qmc.GenericSampler.addInteraction` of QmcModel/Convert.lean (C15) — they
describe the effects of an ACCEPTED interaction on in-range variables and have no variable count;
this file is the one that carries the range check.)
-/
import QmcModel.Interaction

namespace Qmc.QmcCtor
open Qmc

/-- the fields of `Qmc<R, M>` that `add_interaction` / `make_*interaction*` read or write -/
structure State where
  /-- `self.state.len()` -/
  nvars : Nat
  bonds : List Interaction := []
  offset : Rat := 0
  hasClusterEdges : Bool := false
  breaksIsing : Bool := false
  nonConstDiags : List Nat := []
  /-- `bond_weights`: the heat-bath table, kept as the list of per-bond maximal diagonal weights
  (the first components of `BondWeights`; the cumulative sums are a function of them) -/
  bondWeights : Option (List Rat) := none
  doHeatbath : Bool := false
  doLoopUpdates : Bool := false
  deriving Repr

/-- `Qmc::new_with_state(nvars, rng, state, do_loop_updates)` with `state.len() = nvars` -/
def State.init (nvars : Nat) (doLoopUpdates : Bool := false) : State :=
  { nvars := nvars, doLoopUpdates := doLoopUpdates }

/-- `interaction.vars.iter().find(|v| **v >= nvars)` is `Some(_)` -/
def outOfRange (nvars : Nat) (vars : List Nat) : Bool := vars.any (fun v => decide (nvars ≤ v))

/-- `Qmc::add_interaction` after the range check: flags, `non_const_diags`, `bond_weights = None`, push
(this was the whole function before 2abb7bf). `sym_under_ising` returns a `bool` or panics; the third
outcome of the model's `Res` does not occur and is mapped to `panic`. After a panic the state is what
the fields held when the unwinding started; nobody can look at it. -/
def addCore (s : State) (i : Interaction) : Res Unit × State :=
  let s1 : State :=
    if isValidClusterEdge i.isConstant i.vars.length then { s with hasClusterEdges := true } else s
  match i.symUnderIsing with
  | .ok sym =>
    let s2 : State := if !sym then { s1 with breaksIsing := true } else s1
    let s3 : State :=
      if !i.isConstantDiag then { s2 with nonConstDiags := s2.nonConstDiags ++ [s2.bonds.length] } else s2
    (.ok (), { s3 with bondWeights := none, bonds := s3.bonds ++ [i] })
  | _ => (.panic, s1)

/-- `Qmc::add_interaction`: the range check comes FIRST and a rejected interaction touches nothing. -/
def addInteraction (s : State) (i : Interaction) : Res Unit × State :=
  if outOfRange s.nvars i.vars then (.err, s) else addCore s i

/-- `Qmc::make_interaction` -/
def makeInteraction (s : State) (mat : List Rat) (vars : List Nat) : Res Unit × State :=
  match Interaction.new mat vars with
  | .ok i => addInteraction s i
  | .err => (.err, s)
  | .panic => (.panic, s)

/-- `Qmc::make_diagonal_interaction` -/
def makeDiagonalInteraction (s : State) (mat : List Rat) (vars : List Nat) : Res Unit × State :=
  match Interaction.newDiagonal mat vars with
  | .ok i => addInteraction s i
  | .err => (.err, s)
  | .panic => (.panic, s)

/-- `Qmc::make_interaction_and_offset`: the offset is subtracted only after `add_interaction(..)?` -/
def makeInteractionAndOffset (s : State) (mat : List Rat) (vars : List Nat) : Res Unit × State :=
  match Interaction.newOffset mat vars with
  | .ok (i, off) =>
    match addInteraction s i with
    | (.ok (), s') => (.ok (), { s' with offset := s'.offset - off })
    | r => r
  | .err => (.err, s)
  | .panic => (.panic, s)

/-- `Qmc::make_diagonal_interaction_and_offset` -/
def makeDiagonalInteractionAndOffset (s : State) (mat : List Rat) (vars : List Nat) : Res Unit × State :=
  match Interaction.newDiagonalOffset mat vars with
  | .ok (i, off) =>
    match addInteraction s i with
    | (.ok (), s') => (.ok (), { s' with offset := s'.offset - off })
    | r => r
  | .err => (.err, s)
  | .panic => (.panic, s)

/-- which of the four entry points -/
inductive Kind where
  | new | newOff | diag | diagOff
  deriving DecidableEq, Repr

/-- the four entry points under one name -/
def make : Kind → State → List Rat → List Nat → Res Unit × State
  | .new => makeInteraction
  | .newOff => makeInteractionAndOffset
  | .diag => makeDiagonalInteraction
  | .diagOff => makeDiagonalInteractionAndOffset

/-- the standalone constructor behind each entry point, with the offset it reports (0 when the entry
point records none) -/
def standalone : Kind → List Rat → List Nat → Res (Interaction × Rat)
  | .new, m, vs => (Interaction.new m vs).map (·, 0)
  | .newOff, m, vs => Interaction.newOffset m vs
  | .diag, m, vs => (Interaction.newDiagonal m vs).map (·, 0)
  | .diagOff, m, vs => Interaction.newDiagonalOffset m vs

/-- one constructor call -/
structure Call where
  kind : Kind
  mat : List Rat
  vars : List Nat
  deriving Repr

/-- a sequence of constructor calls as a user issues them; results are ignored (a rejected call has
done nothing, see `Qmc.C16.qmc_make_reject_leaves_state`) -/
def runCalls (s : State) (cs : List Call) : State :=
  cs.foldl (fun s c => (make c.kind s c.mat c.vars).2) s

/-- `Qmc::set_do_heatbath` -/
def setDoHeatbath (s : State) (b : Bool) : State := { s with doHeatbath := b }

/-- `Qmc::set_do_loop_updates` -/
def setDoLoopUpdates (s : State) (b : Bool) : State := { s with doLoopUpdates := b }

/-- one entry of `make_bond_weights`: the fold `if w > acc { w } else { acc }` from `0.0` over
`bonds[b].at(sub, sub).unwrap()` for every substate `sub` (the code enumerates them lsb first, the
maximum does not depend on the order) -/
def maxDiagWeight (i : Interaction) : Rat :=
  (patterns i.n).foldl (fun acc sub =>
    match i.atP sub sub with
    | .ok w => if w > acc then w else acc
    | _ => acc) 0

/-- the top of `Qmc::diagonal_update`: with the heat-bath option on, a missing table is built from
the CURRENT interactions; a table that is present is used as it is. This is the only field of the
modelled state a time step touches. -/
def afterDiagonalUpdate (s : State) : State :=
  if s.doHeatbath && s.bondWeights.isNone then { s with bondWeights := some (s.bonds.map maxDiagWeight) } else s

/-- the public calls that read or write the modelled fields -/
inductive Event where
  | call (c : Call)
  | setHeatbath (b : Bool)
  | setLoops (b : Bool)
  | step

def runEvent (s : State) : Event → State
  | .call c => (make c.kind s c.mat c.vars).2
  | .setHeatbath b => setDoHeatbath s b
  | .setLoops b => setDoLoopUpdates s b
  | .step => afterDiagonalUpdate s

def runEvents (s : State) (es : List Event) : State := es.foldl runEvent s

/-- what `make_diagonal_interaction` did BEFORE 2abb7bf (no range check in `add_interaction`). Only
used to state the regression witness of F31. -/
def makeDiagonalInteractionOld (s : State) (mat : List Rat) (vars : List Nat) : Res Unit × State :=
  match Interaction.newDiagonal mat vars with
  | .ok i => addCore s i
  | .err => (.err, s)
  | .panic => (.panic, s)

end Qmc.QmcCtor
