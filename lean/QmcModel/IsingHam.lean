/-
Executable copy of the transverse-field Ising matrix elements and bond numbering used by the
C06/C07 relational model (self-contained on purpose: it does not depend on `QmcModel/Ham.lean`).
Core Lean only.

Mirrors (src/sse/qmc_ising.rs): `two_site_hamiltonian`, `transverse_hamiltonian`,
`longitudinal_hamiltonian`, `QmcIsingGraph::hamiltonian` (dispatch on the bond index),
the `bonds_fn` closures of `timestep` / `single_diagonal_step` / `single_rvb_sweep`
(bond numbering, variables per bond, constant flag) and `num_bonds`.
-/
import QmcModel.Basic

namespace Qmc

/-- `f64::abs` on rationals (core `Rat` has no `abs` without Mathlib) -/
def ratAbs (r : Rat) : Rat := if r < 0 then -r else r

/-- `two_site_hamiltonian(inputs, outputs, bond)`: `|J| ∓ J` on the diagonal, `0` off it.
Value lists of any other shape get `0` (the Rust indexes `[0]`, `[1]` of two-element slices). -/
def twoSite (i o : List Bool) (J : Rat) : Rat :=
  match i, o with
  | [a, b], [c, d] =>
    if a = c ∧ b = d then ratAbs J + (if a = b then -J else J) else 0
  | _, _ => 0

/-- `longitudinal_hamiltonian(input, output, h)` (after the fix 9464564: no off-diagonal
entries): `|h| + h` for (1,1), `|h| - h` for (0,0), `0` otherwise. -/
def longitudinal (i o : List Bool) (h : Rat) : Rat :=
  match i, o with
  | [true], [true] => ratAbs h + h
  | [false], [false] => ratAbs h - h
  | _, _ => 0

/-- edges `((a, b), J)` in order, transverse field `Γ`, longitudinal field `h` -/
structure IsingSpec where
  nvars : Nat
  edges : List (Nat × Nat × Rat)
  gamma : Rat
  h : Rat
  deriving Repr

namespace IsingSpec

def nedges (s : IsingSpec) : Nat := s.edges.length

/-- coupling of edge `b` (0 out of range) -/
def J (s : IsingSpec) (b : Nat) : Rat := (s.edges[b]?.map (·.2.2)).getD 0

def edgeVars (s : IsingSpec) (b : Nat) : List Nat :=
  match s.edges[b]? with
  | some (x, y, _) => [x, y]
  | none => []

/-- `num_bonds = edges + nvars + (nvars if |h| > EPSILON)`; on the dyadic inputs of the
correspondence `|h| > EPSILON ↔ h ≠ 0`. Bond numbering: edges, then one transverse (constant)
bond per variable, then one longitudinal bond per variable. -/
def ham (s : IsingSpec) : Ham :=
  { nbonds := s.nedges + s.nvars + (if s.h = 0 then 0 else s.nvars)
    vars := fun b =>
      if b < s.nedges then s.edgeVars b
      else if b < s.nedges + s.nvars then [b - s.nedges]
      else [b - s.nedges - s.nvars]
    const := fun b => decide (s.nedges ≤ b ∧ b < s.nedges + s.nvars)
    w := fun b i o =>
      if b < s.nedges then twoSite i o (s.J b)
      else if b < s.nedges + s.nvars then s.gamma
      else longitudinal i o s.h }

end IsingSpec

namespace Proto

/-- `I!<nvars>!a,b,J;a,b,J;…!<Γ>!<h>` -/
def parseIsing (s : String) : Option IsingSpec :=
  match s.splitOn "!" with
  | ["I", n, es, g, h] =>
    let edges : List (Nat × Nat × Rat) :=
      if es == "-" then [] else
      (es.splitOn ";").filterMap fun e =>
        match e.splitOn "," with
        | [a, b, j] => some (parseNat a, parseNat b, parseRat j)
        | _ => none
    some { nvars := parseNat n, edges := edges, gamma := parseRat g, h := parseRat h }
  | _ => none

end Proto
end Qmc
